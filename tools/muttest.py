#!/usr/bin/env python3
"""Mutation self-test helper (never touches /repo or /verif build output).

  tools/muttest.py <tag> <patch.diff | --py 'file@@@old@@@new'> <Cxx> [<Cyy> ...] [--tier quick]

Creates a scratch worktree of /repo and a private copy of /verif under /tmp, applies the change,
runs the repository's baseline tests in the worktree (must still pass), runs the given checks with
PDT_REPO pointing at the worktree, prints one line per check, removes everything.
"""
import json
import os
import shutil
import subprocess
import sys
import xml.etree.ElementTree as ET
from pathlib import Path

VERIF = Path(__file__).resolve().parent.parent


def sh(cmd, **kw):
    return subprocess.run(cmd, shell=isinstance(cmd, str), capture_output=True, text=True, **kw)


def baseline_ok(wt):
    junit = f"/tmp/mut-{os.getpid()}.xml"
    sh(f"cd {wt} && /venv/bin/python -m pytest -q -p no:cacheprovider --timeout=900 "
       f"--continue-on-collection-errors --junitxml={junit} > /dev/null 2>&1")
    base = set(json.load(open("/root/.vp/BASELINE.json"))["stable_pass"])
    passed = set()
    for tc in ET.parse(junit).getroot().iter("testcase"):
        if not any(ch.tag in ("failure", "error", "skipped") for ch in tc):
            passed.add(f"{tc.get('classname')}::{tc.get('name')}")
    os.remove(junit)
    return sorted(base - passed)


def main():
    tag = sys.argv[1]
    args = sys.argv[2:]
    tier = "quick"
    if "--tier" in args:
        i = args.index("--tier"); tier = args[i + 1]; del args[i:i + 2]
    wt, vc = Path(f"/tmp/wt-{tag}"), Path(f"/tmp/v-{tag}")
    sh(f"git -C /repo worktree remove --force {wt}"); shutil.rmtree(vc, ignore_errors=True)
    r = sh(f"git -C /repo worktree add -q --detach {wt} HEAD")
    if r.returncode:
        print("worktree failed", r.stderr); return 2
    try:
        if args[0] == "--py":
            f, old, new = args[1].split("@@@")
            p = wt / f
            s = p.read_text()
            if old not in s:
                print("MUTANT-NOT-APPLICABLE: pattern not found"); return 2
            p.write_text(s.replace(old, new, 1))
            props = args[2:]
        else:
            r = sh(f"git -C {wt} apply {args[0]}")
            if r.returncode:
                print("MUTANT-NOT-APPLICABLE:", r.stderr); return 2
            props = args[1:]
        missing = baseline_ok(wt)
        print(f"[{tag}] baseline tests missing: {len(missing)} {missing[:3]}")
        sh(f"rsync -a --exclude .git --exclude replays --exclude corpus {VERIF}/ {vc}/")
        env = dict(os.environ, PDT_REPO=str(wt))
        for prop in props:
            r = subprocess.run([str(vc / "check"), prop, tier], capture_output=True, text=True, env=env, cwd=vc)
            line = [l for l in r.stdout.split("\n") if l.startswith(("VIOLATION", "KNOWN-FINDING"))]
            detail = ""
            for l in line:
                if "replay=" in l:
                    rp = vc / l.split("replay=")[1].split()[0]
                    if rp.exists():
                        d = json.load(open(rp))
                        detail = f" what={d.get('what')!r} broken={[b['kind'] for b in d.get('broken', [])]}"
            print(f"[{tag}] {prop} rc={r.returncode} {' | '.join(line)}{detail}")
            if r.returncode == 2:
                print(r.stderr[-800:])
    finally:
        sh(f"git -C /repo worktree remove --force {wt}")
        shutil.rmtree(vc, ignore_errors=True)
    return 0


if __name__ == "__main__":
    sys.exit(main())
