#!/usr/bin/env python3
"""prints the prompt given to a fresh sub-agent that seeds a property-breaking change (nothing from /verif)"""
import json, sys
pid = sys.argv[1]
rnd = sys.argv[2] if len(sys.argv) > 2 else ""
wt = f"/tmp/seed-{pid}{rnd}"
import glob
avoid = []
for f in sorted(glob.glob(f"/verif/seeded/{pid}-*/meta.json")):
    try:
        avoid.append(json.load(open(f)).get("summary", ""))
    except Exception:
        pass
p = next(json.loads(l) for l in open("/verif/properties.jsonl") if json.loads(l)["id"] == pid)
print(f"""You are helping to evaluate a verification tool by seeding realistic bugs. Work ONLY inside the directory {wt} — a scratch git worktree of the Python library `pdtable` (reader/writer for the StarTable tabular format: CSV, Excel, JSON; tables are pandas DataFrames with units). Do not read or write anything under /verif or /repo; do not use git commit. Run Python as `cd {wt} && PYTHONPATH={wt} /venv/bin/python ...` so that the worktree's `pdtable` is the one imported (check with `python -c "import pdtable; print(pdtable.__file__)"`).

The library is supposed to satisfy this property:

TITLE: {p['title']}
STATEMENT: {p['statement']}
QUANTIFIED OVER: {p['quantifier']['text']}
CODE INVOLVED: {', '.join(p['anchors']['files'])}

{("Changes of the following kinds were already tried by others — do something DIFFERENT in mechanism and location: " + " | ".join(a for a in avoid if a) + chr(10) + chr(10)) if avoid else ""}{("THIS ROUND the two changes must be of these kinds (pick two different kinds): (i) two cooperating sites that each look correct alone; (ii) state carried across calls — a module-level or instance-level cache, a mutable default argument, a shared object; (iii) behaviour that differs only on a fault / exception / early-exit path; (iv) a boundary size (0, 1, exactly n, first/last element) or an ordering assumption (set / dict iteration order). Avoid plain single-site wrong-constant or wrong-operator edits." + chr(10) + chr(10)) if rnd == "r3" else ""}{("THIS ROUND the two changes must be of these kinds (pick two different kinds): (v) a change in a helper, class or module that the property's code CALLS but that is not listed under CODE INVOLVED (e.g. utils, table_origin, _represent, auxiliary, units, frame / proxy helpers, the issue tracker) — the bug surfaces through the property; (vi) an interaction between two public operations where each alone still behaves (write then read, read then bundle, copy then edit, load then tree, convert then write, equals after edit, a second call with other arguments); (vii) a data-dependent, rarely hit path: unusual but legal values (negative zero, huge / tiny numbers, NaT, non-ASCII or combining characters, very long strings, duplicate values, empty containers, exotic dtypes such as category / Int64 / float32 / timezone-aware datetimes, Path versus str arguments); (viii) a default argument or configuration path that no test passes (keyword defaults, module-level settings such as pdtable.CSV_SEP, the current working directory, an issue tracker or fixer given as class versus instance). Avoid plain single-site wrong-constant or wrong-operator edits and anything a one-line smoke test shows." + chr(10) + chr(10)) if rnd == "r4" else ""}Your task: produce TWO different small changes to the library source (files under {wt}/pdtable/, never tests), each of which makes the property FALSE for some inputs, while:
 (a) the package still imports and compiles;
 (b) every test that passes now still passes. Before changing anything record the baseline: `cd {wt} && PYTHONPATH={wt} /venv/bin/python -m pytest -q -p no:cacheprovider --timeout=900 --continue-on-collection-errors -rA 2>&1 | grep -E "^(PASSED|FAILED|ERROR)" | sort > /tmp/seed-{pid}{rnd}-base.txt` (about 163 pass, a few fail for unrelated reasons); after each change the set of PASSED lines must be a superset of the baseline's;
 (c) the bug needs something specific to manifest — an unusual but legitimate input, a particular multi-step sequence of operations, a crash/fault at a particular point, or two cooperating sites that each look fine alone — NOT something ordinary use or a casual smoke test would expose at once. Prefer subtle, realistic mistakes (an off-by-one at a boundary, a condition that is wrong only for an edge shape, a missing copy, a wrong default, state carried across calls, an early return) over blunt ones.

For each change i in {{1, 2}} write into {wt}/out/m{{i}}/ :
  - patch.diff   : `git -C {wt} diff` of exactly that change (apply the two changes separately: `git -C {wt} checkout -- pdtable` between them);
  - demo.py      : a small self-contained program that exits with status 1 (printing what went wrong) when run against the changed library and with status 0 against the unchanged library — it must exercise the PROPERTY above (show that the property is violated), using only the public behaviour of the library;
  - meta.json    : {{"property": "{pid}", "summary": "<one line>", "needs": "<what specific input/sequence/interleaving it needs in order to manifest>", "files": ["..."]}}.
Verify yourself: with the change applied demo.py exits 1; after `git -C {wt} checkout -- pdtable` it exits 0; the passing tests are unchanged. Leave the worktree clean (no applied change) at the end. Report in a few lines what the two changes are.""")
