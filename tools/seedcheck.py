#!/usr/bin/env python3
"""Confirm a seeded change produced by a sub-agent and run our checks against it.

  tools/seedcheck.py <src_dir> <seed_id> <Cxx> [<Cyy> ...] [--tier quick]

<src_dir> holds patch.diff, demo.py, meta.json.  Steps (all in scratch copies under /tmp, removed afterwards):
  1. apply patch.diff to a fresh worktree of /repo HEAD; baseline tests must still pass;
  2. demo.py exits 1 with the change and 0 without it;
  3. each given check is run with PDT_REPO pointing at the changed worktree.
On success of 1+2 the change is kept as /verif/seeded/<seed_id>/ (patch.diff, demo.py, meta.json with what was run
and which checks caught it).
"""
import json
import os
import shutil
import subprocess
import sys
from pathlib import Path

VERIF = Path(__file__).resolve().parent.parent
sys.path.insert(0, str(VERIF / "tools"))
import muttest  # noqa: E402


def sh(cmd, **kw):
    return subprocess.run(cmd, shell=True, capture_output=True, text=True, **kw)


def main():
    args = sys.argv[1:]
    tier = "quick"
    if "--tier" in args:
        i = args.index("--tier"); tier = args[i + 1]; del args[i:i + 2]
    src, sid, props = Path(args[0]).resolve(), args[1], args[2:]
    wt, vc = Path(f"/tmp/wt-{sid}"), Path(f"/tmp/v-{sid}")
    sh(f"git -C /repo worktree remove --force {wt}"); shutil.rmtree(vc, ignore_errors=True)
    assert sh(f"git -C /repo worktree add -q --detach {wt} HEAD").returncode == 0
    meta = json.loads((src / "meta.json").read_text())
    res = {"seed": sid, "baseline_missing": None, "demo_with": None, "demo_without": None, "checks": {}}
    try:
        env = dict(os.environ, PYTHONPATH=str(wt))
        r0 = subprocess.run(["/venv/bin/python", str(src / "demo.py")], capture_output=True, text=True, env=env, cwd=wt)
        res["demo_without"] = r0.returncode
        ap = sh(f"git -C {wt} apply {src / 'patch.diff'}")
        if ap.returncode:
            # /repo has moved on since the change was cut (fix: commits): fall back to a 3-way merge
            ap = sh(f"git -C {wt} apply -3 {src / 'patch.diff'}")
            if not ap.returncode and sh(f"git -C {wt} diff --name-only --diff-filter=U").stdout.strip():
                ap.returncode = 1
        if ap.returncode:
            print("PATCH DOES NOT APPLY", ap.stderr); return 2
        r1 = subprocess.run(["/venv/bin/python", str(src / "demo.py")], capture_output=True, text=True, env=env, cwd=wt)
        res["demo_with"] = r1.returncode
        res["demo_output"] = (r1.stdout + r1.stderr)[-400:]
        res["baseline_missing"] = muttest.baseline_ok(wt)
        sh(f"rsync -a --exclude .git --exclude replays --exclude corpus {VERIF}/ {vc}/")
        cenv = dict(os.environ, PDT_REPO=str(wt))
        for prop in props:
            r = subprocess.run([str(vc / "check"), prop, tier], capture_output=True, text=True, env=cenv, cwd=vc)
            line = [l for l in r.stdout.split("\n") if l.startswith("VIOLATION")]
            detail = {}
            for l in line:
                rp = vc / l.split("replay=")[1].split()[0]
                if rp.exists():
                    d = json.load(open(rp))
                    detail = {"what": d.get("what"), "kind": d.get("kind"),
                              "broken": sorted({b["kind"] for b in d.get("broken", [])})}
            # a failing input is only worth something if it replays: it must fail on the changed tree and pass on
            # the unchanged one; such inputs become the regression corpus every run of the check replays first
            if detail.get("kind") == "failing-input":
                rw = subprocess.run([str(vc / "check"), prop, "--replay", str(rp)], capture_output=True, text=True,
                                    env=cenv, cwd=vc)
                rc_ = subprocess.run([str(vc / "check"), prop, "--replay", str(rp)], capture_output=True, text=True,
                                     env=dict(os.environ, PDT_REPO="/repo"), cwd=vc)
                detail["replay_with_change"] = rw.returncode
                detail["replay_unchanged"] = rc_.returncode
                if rw.returncode == 1 and rc_.returncode == 0:
                    blob = json.dumps(d.get("input"))
                    if len(blob) < 60000:
                        cdir = VERIF / "corpus" / prop
                        cdir.mkdir(parents=True, exist_ok=True)
                        keep = {k: v for k, v in d.items() if k not in ("broken", "translator_differs_from_committed")}
                        keep["observed"] = str(keep.get("observed"))[:300]
                        keep["expected"] = str(keep.get("expected"))[:300]
                        (cdir / f"{sid}.json").write_text(json.dumps(dict(keep, from_seed=sid)) + "\n")
            res["checks"][prop] = {"rc": r.returncode, "line": line[:1], **detail}
    finally:
        sh(f"git -C /repo worktree remove --force {wt}")
        shutil.rmtree(vc, ignore_errors=True)
    valid = res["demo_without"] == 0 and res["demo_with"] == 1 and not res["baseline_missing"]
    res["valid_seed"] = valid
    print(json.dumps(res, indent=1))
    if valid:
        dst = VERIF / "seeded" / sid
        dst.mkdir(parents=True, exist_ok=True)
        if src.resolve() != dst.resolve():
            shutil.copy(src / "patch.diff", dst / "patch.diff")
            shutil.copy(src / "demo.py", dst / "demo.py")
        meta.update({
            "breaks_property": meta.get("property"),
            "confirmed": {"baseline_tests_still_pass": True, "demo_exit_with_change": 1, "demo_exit_without_change": 0},
            "ran": [f"./check {p} {tier} (PDT_REPO=<worktree with patch>)" for p in props],
            "results": res["checks"],
        })
        (dst / "meta.json").write_text(json.dumps(meta, indent=1) + "\n")
    return 0


if __name__ == "__main__":
    sys.exit(main())
