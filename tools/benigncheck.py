#!/usr/bin/env python3
"""Run our checks against a HARMLESS change (a rewrite under which the property still holds) — a false-alarm probe.

  tools/benigncheck.py <src_dir> <benign_id> <Cxx> [<Cyy> ...] [--tier quick]

<src_dir> holds patch.diff and meta.json (with "why_property_still_holds").  The patch is applied to a fresh scratch
worktree of /repo HEAD (never /repo itself), the baseline tests must still pass, every given check is run with
PDT_REPO pointing at the changed worktree.  Expected: exit 0 everywhere.  The change and the result are kept as
/verif/benign/<benign_id>/.  An exit 1 is looked at by hand: it is either our false alarm (or a sanctioned
"no-failing-input-found" because a proof obligation / pin broke on a rewrite), or the change is not harmless.
"""
import json
import os
import shutil
import subprocess
import sys
from pathlib import Path

VERIF = Path(__file__).resolve().parent.parent
sys.path.insert(0, str(VERIF / "tools"))
import muttest  # noqa: E402


def sh(cmd, **kw):
    return subprocess.run(cmd, shell=True, capture_output=True, text=True, **kw)


def main():
    args = sys.argv[1:]
    tier = "quick"
    if "--tier" in args:
        i = args.index("--tier"); tier = args[i + 1]; del args[i:i + 2]
    src, sid, props = Path(args[0]).resolve(), args[1], args[2:]
    wt, vc = Path(f"/tmp/wt-{sid}"), Path(f"/tmp/v-{sid}")
    sh(f"git -C /repo worktree remove --force {wt}"); shutil.rmtree(vc, ignore_errors=True)
    assert sh(f"git -C /repo worktree add -q --detach {wt} HEAD").returncode == 0
    meta = json.loads((src / "meta.json").read_text())
    res = {"benign": sid, "baseline_missing": None, "checks": {}}
    try:
        ap = sh(f"git -C {wt} apply {src / 'patch.diff'}")
        if ap.returncode:
            # /repo has moved on since the change was cut (fix: commits): fall back to a 3-way merge
            ap = sh(f"git -C {wt} apply -3 {src / 'patch.diff'}")
            if not ap.returncode and sh(f"git -C {wt} diff --name-only --diff-filter=U").stdout.strip():
                ap.returncode = 1
        if ap.returncode:
            print("PATCH DOES NOT APPLY", ap.stderr); return 2
        res["baseline_missing"] = muttest.baseline_ok(wt)
        sh(f"rsync -a --exclude .git --exclude replays {VERIF}/ {vc}/")
        cenv = dict(os.environ, PDT_REPO=str(wt))
        for prop in props:
            r = subprocess.run([str(vc / "check"), prop, tier], capture_output=True, text=True, env=cenv, cwd=vc)
            line = [l for l in r.stdout.split("\n") if l.startswith("VIOLATION")]
            detail = {}
            for l in line:
                rp = vc / l.split("replay=")[1].split()[0]
                if rp.exists():
                    d = json.load(open(rp))
                    detail = {"what": d.get("what"), "kind": d.get("kind"),
                              "broken": [(b["kind"], str(b.get("detail"))[:300]) for b in d.get("broken", [])][:4]}
            res["checks"][prop] = {"rc": r.returncode, "line": line[:1], **detail}
            if r.returncode == 2:
                res["checks"][prop]["stderr"] = r.stderr[-600:]
    finally:
        sh(f"git -C /repo worktree remove --force {wt}")
        shutil.rmtree(vc, ignore_errors=True)
    print(json.dumps(res, indent=1))
    dst = VERIF / "benign" / sid
    dst.mkdir(parents=True, exist_ok=True)
    if src != dst.resolve():
        shutil.copy(src / "patch.diff", dst / "patch.diff")
    meta.update({"baseline_missing": res["baseline_missing"],
                 "ran": [f"./check {p} {tier} (PDT_REPO=<worktree with patch>)" for p in props],
                 "results": res["checks"]})
    (dst / "meta.json").write_text(json.dumps(meta, indent=1) + "\n")
    return 0


if __name__ == "__main__":
    sys.exit(main())
