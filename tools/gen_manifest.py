#!/usr/bin/env python3
"""Regenerates MANIFEST.json from the table below (keeps it schema-valid at all times)."""
import json
from pathlib import Path

ROOT = Path(__file__).resolve().parent.parent
PROPS = [json.loads(l)["id"] for l in (ROOT / "properties.jsonl").read_text().splitlines() if l.strip()]

TB = ("Trusted: Lean 4.33 kernel; axioms propext/Classical.choice/Quot.sound only (audited each run, no sorry/"
      "native_decide); harness/extract.py constants; the correspondence harness and Driver.lean protocol; ")

CLAIMED = {
    "C03": dict(
        text="Machine-checked Lean 4 theorems over an executable model of the block splitter, for every row "
             "sequence of any length: classifier = declarative marker rule, rows with non-blank first cell delivered "
             "exactly once in order, delivered rows a sublist of the input, origin row = index of first row "
             "(contiguous slice) for non-BLANK blocks, the origin row of a BLANK block = the row that ended the previous block, "
             "METADATA only at row 0, prefix stability, block structure a function of first-cell kinds only, block shape "
             "(the type of a block is the kind of its first row; every further row is an ordinary row). Model tied to code every run: regex text pinned by a theorem over the "
             "regenerated constant, and differential execution of parse_blocks_stable vs the compiled model.",
        note=TB + "Python's re engine and str.isspace are modelled (hand model of the regex, whitespace table compared "
             "with CPython on all code points each run).",
        technique="Lean 4 proof (induction over rows, automaton invariant) + translator pin + differential correspondence",
        ref="§5 C03"),
}

# per-property fragments written next to the harness module: harness/props/cxx.manifest.json
# {"text": ..., "note": ..., "technique": ..., "ref": ...}
# only properties the coordinator has verified (green on several seeds, mutation-tested) are claimed:
ACCEPTED = set((ROOT / "tools" / "claimed.txt").read_text().split())
for frag in sorted((ROOT / "harness" / "props").glob("c*.manifest.json")):
    pid = frag.name.split(".")[0].upper()
    if pid not in ACCEPTED:
        continue
    d = json.loads(frag.read_text())
    d["note"] = TB + d.get("note", "")
    CLAIMED[pid] = d

NOT_YET = "not yet built in this session; will be claimed once its model, theorems and correspondence check exist"


def main():
    checks = []
    for pid in PROPS:
        if pid in CLAIMED:
            c = CLAIMED[pid]
            checks.append({
                "property_id": pid,
                "quick_cmd": f"./check {pid} quick",
                "thorough_cmd": f"./check {pid} thorough",
                "evidence_file": f"evidence/{pid}.json",
                "replay_cmd_template": f"./check {pid} --replay {{path}}",
                "engine": "lean-proof+correspondence",
                "level_claimed": {"category": "proof", "text": c["text"], "design_ref": c["ref"]},
                "level_note": c["note"],
                "technique": c["technique"],
            })
    man = {
        "version": 1,
        "setup_cmd": "./tools/setup.sh",
        "hooks": {
            "guard": "PDTABLE_VERIF",
            "enable": "no hooks are compiled into /repo; the harness observes from outside (custom block handlers, "
                      "audit hooks, monkeypatching inside the harness process only)",
            "baseline_off_cmd": "./tools/baseline.sh",
            "source_commits": [],
            "add_only": True,
        },
        "engines": [{
            "name": "lean-proof+correspondence", "path": "check",
            "serves_properties": sorted(CLAIMED),
            "kind_free_text": "Lean 4 model + theorems (lean/PdtModel), translator (harness/extract.py), "
                              "differential correspondence through the compiled driver (lean/Driver.lean)",
        }],
        "checks": checks,
        "notes": "See DESIGN.md. Fix commits in /repo are recorded in known_findings.json.",
        "not_applicable": [{"property_id": p, "reason": NOT_YET} for p in PROPS if p not in CLAIMED],
    }
    (ROOT / "MANIFEST.json").write_text(json.dumps(man, indent=1) + "\n")


if __name__ == "__main__":
    main()
