#!/usr/bin/env python3
"""Re-run every harmless rewrite in /verif/benign against the check of the property whose code it touches (N at a
time) and write benign/SUMMARY.md.  Expected: exit 0 (no alarm).  Usage: tools/benignsweep.py [--jobs N] [Cxx ...]"""
import json
import subprocess
import sys
from concurrent.futures import ThreadPoolExecutor
from pathlib import Path

VERIF = Path(__file__).resolve().parent.parent
args = sys.argv[1:]
jobs = 4
if "--jobs" in args:
    i = args.index("--jobs"); jobs = int(args[i + 1]); del args[i:i + 2]
only = set(args)


def one(d):
    sid = d.name
    prop = sid.split("-")[0]
    r = subprocess.run([str(VERIF / "tools" / "benigncheck.py"), str(d), sid, prop], capture_output=True, text=True)
    try:
        return sid, json.loads(r.stdout)
    except Exception:
        return sid, {"error": (r.stdout + r.stderr)[-300:]}


dirs = sorted(p for p in (VERIF / "benign").iterdir() if p.is_dir() and (not only or p.name.split("-")[0] in only))
with ThreadPoolExecutor(jobs) as ex:
    results = dict(ex.map(one, dirs))
lines = ["# Harmless rewrites (false-alarm probes, re-run by tools/benignsweep.py)", "",
         "Each change keeps the property true and the test suite green; the expected outcome of the check is exit 0.",
         "", "| change | kind | summary | tests kept | check result | what broke (if anything) |", "|---|---|---|---|---|---|"]
quiet = 0
for d in dirs:
    sid = d.name
    meta = json.loads((d / "meta.json").read_text())
    res = results[sid]
    prop = sid.split("-")[0]
    c = (res.get("checks") or {}).get(prop, {})
    if "error" in res:
        verdict = "error: " + res["error"][-80:].replace("\n", " ")
    elif c.get("rc") == 0:
        verdict = "quiet (exit 0)"; quiet += 1
    elif c.get("kind") == "no-failing-input-found":
        verdict = "reported, no-failing-input-found"
    else:
        verdict = f"ALARM with input (rc {c.get('rc')})"
    broke = "; ".join(f"{k}: {v[:90]}" for k, v in (c.get("broken") or [])[:2]).replace("|", "/").replace("\n", " ")
    lines.append(f"| {sid} | {meta.get('kind', '')} | {meta.get('summary', '')[:150].replace('|', '/')} | "
                 f"{not res.get('baseline_missing')} | {verdict} | {broke} |")
lines += ["", f"{quiet} of {len(dirs)} changes leave the checks quiet."]
if not only:       # a filtered run does not replace the table of record
    (VERIF / "benign" / "SUMMARY.md").write_text("\n".join(lines) + "\n")
print("\n".join(lines[-1:]))
for d in dirs:
    c = (results[d.name].get("checks") or {}).get(d.name.split("-")[0], {})
    if c.get("rc") != 0:
        print(d.name, json.dumps(results[d.name])[:400])
