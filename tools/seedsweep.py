#!/usr/bin/env python3
"""Re-run every seeded change in /verif/seeded against the check of the property it breaks (4 at a time) and
write seeded/SUMMARY.md.  Usage: tools/seedsweep.py [--jobs N] [Cxx ...]"""
import json
import subprocess
import sys
from concurrent.futures import ThreadPoolExecutor
from pathlib import Path

VERIF = Path(__file__).resolve().parent.parent
args = sys.argv[1:]
jobs = 4
if "--jobs" in args:
    _i = args.index("--jobs"); jobs = int(args[_i + 1]); del args[_i:_i + 2]
only = set(args)        # property ids: sweep only their seeds (and leave seeded/SUMMARY.md, the table of record, alone)


def one(d):
    sid = d.name
    prop = json.loads((d / "meta.json").read_text()).get("check_with", [sid.split("-")[0]])[0]
    r = subprocess.run([str(VERIF / "tools" / "seedcheck.py"), str(d), sid, prop], capture_output=True, text=True)
    try:
        res = json.loads(r.stdout)
    except Exception:
        return sid, {"error": (r.stdout + r.stderr)[-300:]}
    return sid, res


dirs = sorted(p for p in (VERIF / "seeded").iterdir() if p.is_dir()
              and "obsolete_since" not in json.loads((p / "meta.json").read_text())
              and (not only or p.name.split("-")[0] in only))
with ThreadPoolExecutor(jobs) as ex:
    results = dict(ex.map(one, dirs))
lines = ["# Seeded changes (re-run by tools/seedsweep.py)", "",
         "| seed | summary | needs | valid | check result | tripwires |", "|---|---|---|---|---|---|"]
caught = 0
for d in dirs:
    sid = d.name
    meta = json.loads((d / "meta.json").read_text())
    res = results[sid]
    prop = meta.get("check_with", [sid.split("-")[0]])[0]
    c = (res.get("checks") or {}).get(prop, {})
    verdict = "error" if "error" in res else ("caught (failing input)" if c.get("kind") == "failing-input" else
              "reported, no-failing-input-found" if c.get("rc") == 1 else "MISSED")
    caught += verdict.startswith("caught")
    lines.append(f"| {sid} | {meta.get('summary', '')[:140]} | {meta.get('needs', '')[:140]} | {res.get('valid_seed')} | "
                 f"{verdict}: {c.get('what') or ''} | {', '.join(c.get('broken', []))} |")
    if meta.get("history"):
        lines.append(f"| | _history_: {meta['history']} | | | | |")
lines += ["", f"{caught} of {len(dirs)} caught with a concrete failing input."]
summary = VERIF / "seeded" / "SUMMARY.md"
if not only:
    summary.write_text("\n".join(lines) + "\n")
elif summary.exists():
    # a filtered run refreshes the rows of the seeds it swept in the table of record and recomputes the count
    new = {l.split("|")[1].strip(): l for l in lines if l.startswith("| C")}
    old = summary.read_text().split("\n")
    merged = [new.pop(l.split("|")[1].strip(), l) if l.startswith("| C") else l for l in old]
    rows = [l for l in merged if l.startswith("| C")]
    n_caught = sum(1 for l in rows if "| caught (failing input)" in l)
    merged = [f"{n_caught} of {len(rows)} caught with a concrete failing input." if l.endswith("caught with a concrete failing input.") else l
              for l in merged]
    summary.write_text("\n".join(merged))
for d in dirs:
    c = (results[d.name].get("checks") or {}).get(json.loads((d / "meta.json").read_text()).get("check_with", [d.name.split("-")[0]])[0], {})
    if c.get("kind") != "failing-input":
        print(d.name, json.dumps(results[d.name])[:300])
print("\n".join(lines[-3:]))
