#!/usr/bin/env python3
"""Re-run every seeded change in /verif/seeded against the check of the property it breaks (4 at a time) and
write seeded/SUMMARY.md.  Usage: tools/seedsweep.py [--jobs N]"""
import json
import subprocess
import sys
from concurrent.futures import ThreadPoolExecutor
from pathlib import Path

VERIF = Path(__file__).resolve().parent.parent
jobs = int(sys.argv[sys.argv.index("--jobs") + 1]) if "--jobs" in sys.argv else 4


def one(d):
    sid = d.name
    prop = json.loads((d / "meta.json").read_text()).get("check_with", [sid.split("-")[0]])[0]
    r = subprocess.run([str(VERIF / "tools" / "seedcheck.py"), str(d), sid, prop], capture_output=True, text=True)
    try:
        res = json.loads(r.stdout)
    except Exception:
        return sid, {"error": (r.stdout + r.stderr)[-300:]}
    return sid, res


dirs = sorted(p for p in (VERIF / "seeded").iterdir() if p.is_dir()
              and "obsolete_since" not in json.loads((p / "meta.json").read_text()))
with ThreadPoolExecutor(jobs) as ex:
    results = dict(ex.map(one, dirs))
lines = ["# Seeded changes (re-run by tools/seedsweep.py)", "",
         "| seed | summary | needs | valid | check result | tripwires |", "|---|---|---|---|---|---|"]
caught = 0
for d in dirs:
    sid = d.name
    meta = json.loads((d / "meta.json").read_text())
    res = results[sid]
    prop = meta.get("check_with", [sid.split("-")[0]])[0]
    c = (res.get("checks") or {}).get(prop, {})
    verdict = "error" if "error" in res else ("caught (failing input)" if c.get("kind") == "failing-input" else
              "reported, no-failing-input-found" if c.get("rc") == 1 else "MISSED")
    caught += verdict.startswith("caught")
    lines.append(f"| {sid} | {meta.get('summary', '')[:140]} | {meta.get('needs', '')[:140]} | {res.get('valid_seed')} | "
                 f"{verdict}: {c.get('what') or ''} | {', '.join(c.get('broken', []))} |")
    if meta.get("history"):
        lines.append(f"| | _history_: {meta['history']} | | | | |")
lines += ["", f"{caught} of {len(dirs)} caught with a concrete failing input."]
(VERIF / "seeded" / "SUMMARY.md").write_text("\n".join(lines) + "\n")
print("\n".join(lines[-3:]))
