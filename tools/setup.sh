#!/bin/sh
# Build the whole framework offline from files on disk: translate constants from /repo,
# then build every model, lemma, property and audit-tool module plus the driver executable.
set -e
cd "$(dirname "$0")/.."
/venv/bin/python -m harness.extract "${PDT_REPO:-/repo}" > /dev/null
cd lean
lake build PdtModel PdtModel.Audit.Tool pdt-driver
