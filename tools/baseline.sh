#!/bin/sh
# Runs the repository's pinned suite with the verification guard OFF and compares with BASELINE.json
unset PDTABLE_VERIF
cd /repo && /venv/bin/python -m pytest -ra -q -p no:cacheprovider --timeout=900 --continue-on-collection-errors --junitxml=/tmp/pdt_baseline.junit.xml > /tmp/pdt_baseline.log 2>&1
/venv/bin/python - <<'PY'
import json, xml.etree.ElementTree as ET
base = set(json.load(open('/root/.vp/BASELINE.json'))['stable_pass'])
passed = set()
for tc in ET.parse('/tmp/pdt_baseline.junit.xml').getroot().iter('testcase'):
    if not any(ch.tag in ('failure', 'error', 'skipped') for ch in tc):
        passed.add(f"{tc.get('classname')}::{tc.get('name')}")
missing = sorted(base - passed)
print(f"baseline {len(base)} passed-now {len(passed)} missing {len(missing)}")
for m in missing: print("  MISSING", m)
raise SystemExit(1 if missing else 0)
PY
