#!/usr/bin/env python3
"""prints the prompt given to a fresh sub-agent that produces HARMLESS rewrites (nothing from /verif)"""
import json, sys
pid = sys.argv[1]
rnd = sys.argv[2] if len(sys.argv) > 2 else ""
wt = f"/tmp/benign-{pid}{rnd}"
p = next(json.loads(l) for l in open("/verif/properties.jsonl") if json.loads(l)["id"] == pid)
mech = "; ".join(f"{m['name']} ({m['where']})" for m in p['anchors']['mechanism'])
KINDS1 = """  change 1 — a pure refactoring with identical behaviour: e.g. rename local variables and private helpers, extract or inline a helper function, turn a loop into a comprehension or the reverse, reorder independent statements, swap the arms of an if/else with the condition negated, replace a literal set by a frozenset or a tuple, restructure try/except without changing what is caught;
  change 2 — a behaviour change OUTSIDE what the property talks about: e.g. reword an error or log message (unless the property is about message content — then leave the parts it mentions intact), add logging or a warning, add an optional keyword argument whose default keeps today's behaviour, add a docstring / type hints / an assertion that always holds, attach an extra private attribute, improve an unrelated code path in the same file;
  change 3 — an internal optimisation that is CORRECT: e.g. a precomputed lookup table equal to what was computed before, a compiled regular expression equivalent to the present one, a cache that is correctly keyed and invalidated, an early exit that returns exactly what the slow path would have returned, avoiding a redundant copy where no aliasing can be observed.
"""
KINDS2 = """  change 1 — re-wording only: change the TEXT of error messages, warnings, log records, __repr__ / __str__ output and docstrings in this code (add detail such as names, rows, hints; fix grammar; drop stray blanks), keeping every fact the old text stated and keeping exception classes, conditions and order exactly as they are — if the property statement itself talks about what a message names, the new text must still name it;
  change 2 — another internal representation with the same observable behaviour: e.g. a list kept as a tuple or a deque, a dict as an OrderedDict, a set as a frozenset, a hand-written class turned into a dataclass or given __slots__, a private attribute renamed or split in two, a module-level constant moved into another module and imported back, a private helper moved to another file;
  change 3 — an equivalent algorithm: the same result computed another way (a regular expression replaced by explicit string code or the reverse, index loops versus zip / enumerate, a pandas / numpy vectorised form versus a Python loop, recursion versus iteration, itertools versus hand-written loops) — identical results and identical exceptions for every input, including empty, duplicate, missing and malformed ones.
"""
KINDS3 = """  change 1 — an ORDER that was never promised: process independent items in another order where the property's statement fixes none (iterate a folder listing / a set / the items of a dict of independent things in sorted or reversed order, handle independent files, sheets or columns in another sequence, reorder the entries of an internal lookup table, swap the operands of a commutative test) — the set of results, and every order the statement DOES fix (rows of a file, blocks of a file, columns of a table), stay exactly as they are;
  change 2 — memoisation, or fewer / more calls: cache the result of a pure helper (correctly keyed), call a user-supplied PURE callable (a filter predicate, a unit converter, a fixer hook's pure part) once where it was called twice or twice where it was called once when nothing promises the count, batch calls (e.g. convert columns that share a unit pair together), validate earlier or later with the same outcome and the same error;
  change 3 — a compatible EXTENSION of the public surface: accept more than before without changing anything for inputs accepted today (a new optional keyword whose default is today's behaviour, an extra member in a returned dict / JSON-like structure that the property does not enumerate, numpy integers or slices accepted where ints are indexed, pathlib.Path where str was accepted, an out-of-domain crash turned into a clean error of the documented class or a subclass of today's exception class).
"""
KINDS = KINDS3 if rnd == "r3" else KINDS2 if rnd else KINDS1
print(f"""You are helping to evaluate a verification tool for FALSE ALARMS. Work ONLY inside the directory {wt} — a scratch git worktree of the Python library `pdtable` (reader/writer for the StarTable tabular format: CSV, Excel, JSON; tables are pandas DataFrames with units). Do not read or write anything under /verif or /repo; do not use git commit and NEVER use git stash (the stash is shared by all worktrees of the repository: use `git checkout -- pdtable` and `git apply`). Run Python as `cd {wt} && PYTHONPATH={wt} /venv/bin/python ...` so that the worktree's `pdtable` is the one imported.

The library satisfies this property, and it must STILL satisfy it, for every input, after each of your changes:

TITLE: {p['title']}
STATEMENT: {p['statement']}
QUANTIFIED OVER: {p['quantifier']['text']}
CODE INVOLVED: {', '.join(p['anchors']['files'])}
MECHANISM: {mech}

Your task: produce THREE different changes to the library source (files under {wt}/pdtable/, never tests) of the kind a maintainer makes every week, each touching the code involved in the property above (the functions named under MECHANISM or the ones they call), each of which keeps the property TRUE for every input and keeps every currently passing test passing:
{KINDS}Be careful: the change must really be harmless with respect to the property — think about unusual inputs (empty tables, duplicate names, missing values, transposed tables, error paths, repeated calls on the same objects) before you settle on it. Sizes: 5–40 changed lines each.

Before changing anything record the baseline: `cd {wt} && PYTHONPATH={wt} /venv/bin/python -m pytest -q -p no:cacheprovider --timeout=900 --continue-on-collection-errors -rA 2>&1 | grep -E "^(PASSED|FAILED|ERROR)" | sort > /tmp/benign-{pid}{rnd}-base.txt` (about 163 pass); after each change the set of PASSED lines must be a superset of the baseline's.

For each change i in {{1, 2, 3}} write into {wt}/out/b{{i}}/ :
  - patch.diff : `git -C {wt} diff` of exactly that change alone (`git -C {wt} checkout -- pdtable` between changes);
  - meta.json  : {{"property": "{pid}", "kind": "refactor|out-of-scope|optimisation", "summary": "<one line>", "why_property_still_holds": "<two or three sentences>", "files": ["..."]}}.
Leave the worktree clean (no applied change) at the end. Report in a few lines what the three changes are.""")
