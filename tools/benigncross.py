#!/usr/bin/env python3
"""Cross false-alarm probe: run every harmless rewrite in /verif/benign against EVERY check whose anchored files
(properties.jsonl) share a file with the patch — not only the check of the property it was written for — and write
benign/CROSS.md.  Usage: tools/benigncross.py [--jobs N]"""
import json
import re
import subprocess
import sys
from concurrent.futures import ThreadPoolExecutor
from pathlib import Path

VERIF = Path(__file__).resolve().parent.parent
jobs = int(sys.argv[sys.argv.index("--jobs") + 1]) if "--jobs" in sys.argv else 6
# --only b7,b8,b9 : only the changes whose id ends in one of these (a later round); the table goes to CROSS-<tags>.md
only = sys.argv[sys.argv.index("--only") + 1].split(",") if "--only" in sys.argv else None
props = [json.loads(l) for l in (VERIF / "properties.jsonl").read_text().splitlines() if l.strip()]
anch = {p["id"]: set(p["anchors"]["files"]) for p in props}
# helper modules every reader goes through count for the reader properties too
EXTRA = {"pdtable/io/parsers/fixer.py": {"C02", "C12", "C13", "C11", "C07"},
         "pdtable/io/parsers/columns.py": {"C02", "C12", "C13", "C01", "C09", "C08"},
         "pdtable/io/parsers/blocks.py": {"C01", "C02", "C03", "C07", "C10", "C11", "C12", "C13", "C09", "C16", "C18"},
         "pdtable/table_metadata.py": {"C04", "C05", "C15", "C14", "C08", "C09", "C01"},
         "pdtable/frame.py": {"C04", "C05", "C15", "C06"},
         "pdtable/proxy.py": {"C04", "C06", "C14", "C15"},
         "pdtable/io/csv.py": {"C01", "C10", "C12", "C19", "C04"},
         "pdtable/io/_json.py": {"C07", "C08"}, "pdtable/io/json.py": {"C07", "C08"},
         "pdtable/io/_excel_openpyxl.py": {"C09", "C19", "C18", "C04"}, "pdtable/io/excel.py": {"C09", "C19", "C18", "C07"},
         "pdtable/io/load/_loaders.py": {"C16", "C17", "C18", "C19"},
         "pdtable/io/load/_orchestrators.py": {"C16", "C19"}, "pdtable/io/load/_tree.py": {"C18"},
         "pdtable/table_origin.py": {"C18", "C03", "C12"}, "pdtable/store.py": {"C20"}}


def targets(d):
    files = set(re.findall(r"^\+\+\+ b/(\S+)", (d / "patch.diff").read_text(), re.M))
    own = d.name.split("-")[0]
    t = {pid for pid, fs in anch.items() if fs & files}
    for f in files:
        t |= EXTRA.get(f, set())
    t.discard(own)
    return sorted(t)


def one(job):
    d, ps = job
    if not ps:
        return d.name, {}
    sid = d.name + "x"
    r = subprocess.run([str(VERIF / "tools" / "benigncheck.py"), str(d), sid] + ps, capture_output=True, text=True)
    subprocess.run(["rm", "-rf", str(VERIF / "benign" / sid)])
    try:
        return d.name, json.loads(r.stdout)["checks"]
    except Exception:
        return d.name, {"error": (r.stdout + r.stderr)[-300:]}


dirs = sorted(p for p in (VERIF / "benign").iterdir() if p.is_dir() and not p.name.endswith("x")
              and (only is None or p.name.split("-")[-1] in only))
with ThreadPoolExecutor(jobs) as ex:
    results = dict(ex.map(one, [(d, targets(d)) for d in dirs]))
lines = ["# Harmless rewrites against the checks of OTHER properties that share their files (tools/benigncross.py)", "",
         "| change | other checks run | alarms |", "|---|---|---|"]
n = bad = 0
for d in dirs:
    res = results[d.name]
    if "error" in res:
        lines.append(f"| {d.name} | error | {res['error'][-100:]} |")
        continue
    al = []
    for p, c in res.items():
        n += 1
        if c.get("rc") != 0:
            bad += 1
            al.append(f"{p}: rc {c.get('rc')} {c.get('kind') or ''} {str(c.get('what') or '')[:80]} "
                      f"{[b[0] for b in c.get('broken', [])][:2]}")
    lines.append(f"| {d.name} | {' '.join(res) or '—'} | {'; '.join(al) or 'none'} |")
lines += ["", f"{n - bad} of {n} (change, other check) pairs are quiet."]
(VERIF / "benign" / ("CROSS.md" if only is None else "CROSS-" + "-".join(only) + ".md")).write_text("\n".join(lines) + "\n")
print(lines[-1])
for l in lines:
    if "rc 1" in l or "rc 2" in l or "error" in l:
        print(l[:500])
