import Drv.Base
import Drv.Blocks
import PdtModel.Model.Write
import PdtModel.Model.WriteWF
open Lean Pdt Pdt.Reader Pdt.Represent Pdt.Write
namespace Drv

def wValOfJson (j : Json) : Except String Val :=
  match j with
  | .str s => pure (.text s.toList)
  | .bool b => pure (.bool b)
  | .obj _ =>
    match j.getObjVal? "f" with
    | .ok v => do let s ← v.getStr?; pure (.num s.toList)
    | .error _ =>
    match j.getObjVal? "i" with
    | .ok v => do let i ← v.getInt?; pure (.int i)
    | .error _ =>
    match j.getObjVal? "d" with
    | .ok v => do let s ← v.getStr?; pure (.dt s.toList)
    | .error _ => throw "bad value object"
  | _ => throw "bad value"

def wColumnOfJson (j : Json) : Except String Column := do
  let name ← getStr j "name"
  let unit ← getStr j "unit"
  let vals ← (← getArr j "values").mapM wValOfJson
  pure ⟨name, unit, vals⟩

def wTableValOfJson (j : Json) : Except String TableVal := do
  let name ← getStr j "name"
  let dests ← (← getArr j "destinations").mapM fun d => do let s ← d.getStr?; pure s.toList
  let tr ← getBool j "transposed"
  let cols ← (← getArr j "columns").mapM wColumnOfJson
  pure ⟨name, dests, tr, cols⟩

def wGetChar (j : Json) (k : String) : Except String Char := do
  let s ← getStr j k
  match s with
  | [c] => pure c
  | _ => throw s!"{k}: expected one character"

def handleWrite (op : String) (j : Json) : Option (Except String Json) :=
  match op with
  | "write_csv" => some do
    let ts ← (← getArr j "tables").mapM wTableValOfJson
    let sep ← wGetChar j "sep"
    let na ← getStr j "na_rep"
    pure (str (writeCsv sep na ts))
  | "read_rows" => some do
    let sep ← wGetChar j "sep"
    let text ← getStr j "text"
    pure (arr ((readRows sep text).map rowToJson))
  | "read_csv" => some do
    let sep ← wGetChar j "sep"
    let text ← getStr j "text"
    let ext ← extOfJson (← j.getObjVal? "ext")
    pure (resultToJson (readCsv ext sep text))
  | "read_csv_path" => some do        -- the raw bytes-as-text of the file; universal newlines applied by the model
    let sep ← wGetChar j "sep"
    let text ← getStr j "text"
    let ext ← extOfJson (← j.getObjVal? "ext")
    pure (resultToJson (readCsvPath ext sep text))
  | "wf_check" => some do
    let ts ← (← getArr j "tables").mapM wTableValOfJson
    let sep ← wGetChar j "sep"
    let na ← getStr j "na_rep"
    let ext ← extOfJson (← j.getObjVal? "ext")
    pure (arr (ts.map fun t => Json.bool (wfCheck ext sep na t)))
  | _ => none

end Drv
