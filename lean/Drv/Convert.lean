import Drv.Base
import PdtModel.Model.Convert
open Lean Pdt Pdt.Convert
namespace Drv

/-
  op "convert_units": {"table": T, "to": TO, "conv": LOG|null, "dflt": LOG|null}
    T   = {"name": str, "dests": [str], "index": [tok], "cols": [{"name": str, "unit": str, "vals": [tok]}]}
    TO  = {"kind": "str", "s": str} | {"kind": "seq", "xs": [str|null]} | {"kind": "dict", "m": [[key, str|null]]}
        | {"kind": "fn", "m": [[column name, str|null]]} | {"kind": "other"}
    LOG = the converter's observed behaviour, one entry per call in call order:
          {"vals": [tok], "from": str, "to": str|null, "ok": {"vals": [tok], "unit": str}} | {..., "exc": class name}
  The model's converter answers a call from the log entry recorded for the same arguments (the entry at the call's
  own position if it matches, else the first one with these arguments); arguments the real converter never saw are
  a protocol error (never a default).
  Answer: {"res": {"exc": cls} | {"ref": n, "table": T}, "orig": T (frame 0 afterwards), "frames": n}
-/

def oracleMiss : Str := "<oracle-miss>".toList

def strs (j : Json) (k : String) : Except String (List Str) := do
  (← getArr j k).mapM (fun v => do let s ← v.getStr?; pure s.toList)

def optStr (v : Json) : Except String (Option Str) :=
  match v with
  | .null => pure none
  | _ => do let s ← v.getStr?; pure (some s.toList)

def cvColOfJson (j : Json) : Except String Col := do
  pure { name := ← getStr j "name", unit := ← getStr j "unit", vals := ← strs j "vals" }

def cvTblOfJson (j : Json) : Except String Convert.Tbl := do
  pure { name := ← getStr j "name", dests := ← strs j "dests", index := ← strs j "index",
         cols := ← (← getArr j "cols").mapM cvColOfJson }

def cvTblToJson (t : Convert.Tbl) : Json :=
  Json.mkObj [("name", str t.name), ("dests", arr (t.dests.map str)), ("index", arr (t.index.map str)),
    ("cols", arr (t.cols.map (fun c => Json.mkObj [("name", str c.name), ("unit", str c.unit),
      ("vals", arr (c.vals.map str))])))]

structure LogEntry where
  vals : List Val
  from_ : Str
  to : Option Str
  res : Except Str (List Val × Str)

def logEntryOfJson (j : Json) : Except String LogEntry := do
  let vals ← strs j "vals"
  let f ← getStr j "from"
  let to ← optStr (← j.getObjVal? "to")
  let res ← match j.getObjVal? "exc" with
    | .ok v => do let s ← v.getStr?; pure (Except.error s.toList)
    | .error _ => do
      let o ← j.getObjVal? "ok"
      pure (Except.ok (← strs o "vals", ← getStr o "unit"))
  pure ⟨vals, f, to, res⟩

/-- the converter as observed: a call is answered by the log entry recorded for the same arguments — the entry at
    the call's own position when that one matches (so that a stateful converter failing on its k-th call is
    reproduced), otherwise the first entry with these arguments; no entry: protocol error -/
def convOfLog (log : List LogEntry) : Conv := fun k vals from_ to =>
  let hit := fun (e : LogEntry) => decide (e.vals = vals ∧ e.from_ = from_ ∧ e.to = to)
  match log[k]? with
  | some e => if hit e then e.res else
      match log.find? hit with
      | some e' => e'.res
      | none => .error oracleMiss
  | none =>
    match log.find? hit with
    | some e' => e'.res
    | none => .error oracleMiss

def convOfJson (j : Json) : Except String (Option Conv) :=
  match j with
  | .null => pure none
  | _ => do
    let a ← j.getArr?
    let log ← a.toList.mapM logEntryOfJson
    pure (some (convOfLog log))

def pairsOfJson (j : Json) (k : String) : Except String (List (Str × Option Str)) := do
  (← getArr j k).mapM (fun p => do
    let a ← p.getArr?
    match a.toList with
    | [kk, v] => do let ks ← kk.getStr?; pure (ks.toList, ← optStr v)
    | _ => throw "bad pair")

def toOfJson (j : Json) : Except String To := do
  let kind ← (← j.getObjVal? "kind").getStr?
  match kind with
  | "str" => do pure (.str (← getStr j "s"))
  | "seq" => do pure (.seq (← (← getArr j "xs").mapM optStr))
  | "dict" => do pure (.dict (← pairsOfJson j "m"))
  | "fn" => do
    let m ← pairsOfJson j "m"
    pure (.fn (fun name => match m.find? (fun p => p.1 = name) with
      | some p => p.2
      | none => some "<fn-miss>".toList))
  | "other" => pure .other
  | _ => throw s!"unknown dispatcher kind {kind}"

def errClass : Err → String
  | .missingConverter => "MissingUnitConverterError"
  | .notImplemented => "NotImplementedError"
  | .valueError => "ValueError"
  | .typeError => "TypeError"
  | .unitConversionNotDefined => "UnitConversionNotDefinedError"
  | .conv cls => String.ofList cls

/-- the exceptions single columns of `t` would raise on their own under dispatcher `to` (each column judged by
    itself, converter calls answered by arguments): the statement fixes no priority between the errors of different
    columns, so an implementation converting the columns in another order may surface any of these -/
def colErrors (conv : Conv) (to : To) (t : Convert.Tbl) (far : Nat) : List String :=
  let go := fun (tgt : Nat → Col → Option Str) =>
    (t.cols.zipIdx).filterMap (fun (p : Col × Nat) =>
      match convertCol positionalAssign conv far t.index p.1 (tgt p.2 p.1) with
      | .error e => some (errClass e)
      | .ok _ => none)
  match form to with
  | .typeError => []
  | .positional xs => if xs.length ≠ t.cols.length then [] else go (fun j _ => (xs[j]?).join)
  | .each tgt => go tgt

/-
  op "bulk_convert": {"api": "gen" | "bundle", "blocks": [{"is_table": bool, "table": T|null, "tok": str, "log": LOG}],
                      "disp": {"kind": "none"} | {"kind": "dict"|"fn", "m": [[table name, TO|null]]} | {"kind": "other", "truthy": bool},
                      "has_conv": bool, "dflt": LOG|null}
    `log` of block i = the calls the converter received while the generator worked on block i.
  Answer: {"out": [{"is_table", "table", "tok"}], "exc": cls|null}
-/
def tdispPairs (j : Json) : Except String (List (Str × Option To)) := do
  (← getArr j "m").mapM (fun p => do
    let a ← p.getArr?
    match a.toList with
    | [kk, v] => do
      let ks ← kk.getStr?
      match v with
      | .null => pure (ks.toList, none)
      | _ => do pure (ks.toList, some (← toOfJson v))
    | _ => throw "bad pair")

def tdispOfJson (j : Json) : Except String TDisp := do
  let kind ← (← j.getObjVal? "kind").getStr?
  match kind with
  | "none" => pure .none
  | "dict" => do pure (.dict (← tdispPairs j))
  | "fn" => do
    let m ← tdispPairs j
    pure (.fn (fun name => match m.find? (fun p => p.1 = name) with
      | some p => p.2
      | none => some .other))          -- a name the harness did not tabulate: surfaces as a TypeError mismatch
  | "other" => do pure (.other (← (← j.getObjVal? "truthy").getBool?))
  | _ => throw s!"unknown table dispatcher kind {kind}"

def gblkOfJson (j : Json) : Except String (GBlk × List LogEntry) := do
  let isT ← (← j.getObjVal? "is_table").getBool?
  let tbl ← match j.getObjVal? "table" with
    | .ok .null => pure none
    | .ok v => do pure (some (← cvTblOfJson v))
    | .error _ => pure none
  let log ← match j.getObjVal? "log" with
    | .ok (.arr a) => a.toList.mapM logEntryOfJson
    | _ => pure []
  pure (⟨isT, tbl, ← getStr j "tok"⟩, log)

def gblkToJson (b : GBlk) : Json :=
  Json.mkObj [("is_table", Json.bool b.isTable), ("tok", str b.tok),
    ("table", match b.tbl with | some t => cvTblToJson t | none => Json.null)]

def handleConvert (op : String) (j : Json) : Option (Except String Json) :=
  match op with
  | "bulk_convert" => some do
    let api ← (← j.getObjVal? "api").getStr?
    let bl ← (← getArr j "blocks").mapM gblkOfJson
    let d ← tdispOfJson (← j.getObjVal? "disp")
    let hasConv ← (← j.getObjVal? "has_conv").getBool?
    let dflt ← convOfJson (← j.getObjVal? "dflt")
    let logs := bl.map (·.2)
    let converter : Option (Nat → Conv) :=
      if hasConv then some (fun i => convOfLog ((logs[i]?).getD [])) else none
    let bs := bl.map (·.1)
    match api with
    | "gen" =>
      let (out, e) := normGen positionalAssign d converter dflt bs
      pure (Json.mkObj [("out", arr (out.map gblkToJson)),
        ("exc", match e with | some e => Json.str (errClass e) | none => Json.null)])
    | "bundle" =>
      match readBundle positionalAssign d converter dflt bs with
      | .ok out => pure (Json.mkObj [("out", arr (out.map gblkToJson)), ("exc", Json.null)])
      | .error e => pure (Json.mkObj [("out", Json.null), ("exc", Json.str (errClass e))])
    | _ => throw s!"unknown api {api}"
  | "convert_units" => some do
    let t ← cvTblOfJson (← j.getObjVal? "table")
    let to ← toOfJson (← j.getObjVal? "to")
    let conv ← convOfJson (← j.getObjVal? "conv")
    let dflt ← convOfJson (← j.getObjVal? "dflt")
    let nlog ← match j.getObjVal? "conv" with
      | .ok (.arr a) => pure a.size
      | _ => match j.getObjVal? "dflt" with
        | .ok (.arr a) => pure a.size
        | _ => pure 0
    let w : World := [t]
    let (w', res) := convertUnits positionalAssign w 0 (by simp [w]) to conv dflt
    let orig := match w'[0]? with
      | some o => cvTblToJson o
      | none => Json.null
    -- a converter call the implementation never made is answered as the pseudo-exception "<oracle-miss>": the
    -- harness decides whether that is explained by another column's error (other order of work) or a mismatch
    let resJ ← match res with
      | .error e => pure (exc (errClass e))
      | .ok r => match w'[r]? with
        | some nt => pure (Json.mkObj [("ref", nat r), ("table", cvTblToJson nt)])
        | none => throw "dangling table reference"
    let errs := match choose conv dflt with
      | some c => colErrors c to t (nlog + 1)
      | none => []
    pure (Json.mkObj [("res", resJ), ("orig", orig), ("frames", nat w'.length),
      ("col_errors", arr (errs.map Json.str))])
  | _ => none

end Drv
