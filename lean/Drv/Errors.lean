import Drv.Base
open Lean Pdt
namespace Drv

/-- op handler of the `Errors` layer (stub until the layer is built) -/
def handleErrors (_op : String) (_j : Json) : Option (Except String Json) := none

end Drv
