import Drv.Base
import Drv.Blocks
import PdtModel.Model.Errors
open Lean Pdt Pdt.Reader Pdt.Blocks Pdt.Errors
namespace Drv

/-- ops of the `Errors` layer (C12, C13):
    "parse_blocks_fx"  = "parse_blocks" + the fixer state the stream leaves behind
    "read_csv_blocks"  = text -> rows (`readCsvRows`) -> `parseBlocks`, answering the rows too -/
def handleErrors (op : String) (j : Json) : Option (Except String Json) :=
  match op with
  | "parse_blocks_fx" => some do
    let rows ← rowsOfJson (← j.getObjVal? "rows")
    let cfg ← configOfJson j
    let f ← fixerOfJson (← j.getObjVal? "fixer")
    let r := parseBlocks cfg rows f
    pure ((resultToJson r).setObjVal! "fixer" (fixerToJson r.fixer))
  | "read_csv_blocks" => some do
    let text ← getStr j "text"
    let sep ← getStr j "sep"
    let cfg ← configOfJson j
    let f ← fixerOfJson (← j.getObjVal? "fixer")
    match sep with
    | [c] =>
      let rows := readCsvRows c text
      let r := parseBlocks cfg rows f
      pure (((resultToJson r).setObjVal! "fixer" (fixerToJson r.fixer)).setObjVal! "rows" (arr (rows.map rowToJson)))
    | _ => throw "sep must be one character"
  | _ => none

end Drv
