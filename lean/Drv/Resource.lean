/-
  Drv/Resource.lean — JSON ops over Model/Resource.lean (property C19).

  {"op":"resource", "prog": <prog>, "history": ["next" | "throwInBlock" | "close" | "drop" | "throw" | "releaseExc", …]}
    <prog> = {"fn":"read_csv",   "src": <src>, "n": <blocks>}
           | {"fn":"read_excel", "src": <src>, "sheets": [{"read": bool, "pre": n, "post": n}, …]}
           | {"fn":"load_files", "files": [{"kind":"csv","f":id,"n":n,"keep":[bool…]}
                                          | {"kind":"xlsx","f":id,"sheets":[…],"keep":[bool…]} | {"kind":"folder"}, …]}
           | {"fn":"write_csv" | "write_excel", "src": <src>, "n": <tables>}
    <src>  = {"path": id} | {"stream": id}
    history also accepts "throwInGap:<k>" (a `next` that raises between two blocks, at the (k+1)-th gap it reaches)
  answer: {"wf": bool, "states": [{"pc": "notStarted"|"suspended"|"done", "k": delivered, "out": …,
            "fds": [file ids with a descriptor open], "open": [handles], "tb": [handles], "callerClosed": [ids],
            "bad": [handles]}, …]}   — one state per action
  {"op":"resource_frames"} answers the frame (shape) the model reads from the translator table for each function.
-/
import Drv.Base
import PdtModel.Model.Resource
open Lean Pdt Pdt.Resource
namespace Drv

def srcOfJson (j : Json) : Except String Src :=
  match j.getObjVal? "path" with
  | .ok v => do let n ← v.getNat?; pure (.path n)
  | .error _ => do let n ← getNat j "stream"; pure (.stream n)

def sheetOfJson (j : Json) : Except String Sheet := do
  pure ⟨← getBool j "read", ← getNat j "pre", ← getNat j "post"⟩

def keepOfJson (j : Json) : Except String (List Bool) := do
  (← getArr j "keep").mapM (fun b => b.getBool?)

def fileOfJson (j : Json) : Except String (FileSpec × List Bool) := do
  let kind ← (← j.getObjVal? "kind").getStr?
  match kind with
  | "csv" => pure (.csv (← getNat j "f") (← getNat j "n"), ← keepOfJson j)
  | "xlsx" => do
    let shs ← (← getArr j "sheets").mapM sheetOfJson
    pure (.xlsx (← getNat j "f") shs, ← keepOfJson j)
  | "folder" => pure (.folder, [])
  | _ => throw s!"unknown file kind {kind}"

def progOfJson (j : Json) : Except String Trace := do
  let fn ← (← j.getObjVal? "fn").getStr?
  match fn with
  | "read_csv" => pure (readCsv Gen.withFrames (← srcOfJson (← j.getObjVal? "src")) (← getNat j "n"))
  | "read_excel" => do
    let shs ← (← getArr j "sheets").mapM sheetOfJson
    pure (readExcel Gen.withFrames (← srcOfJson (← j.getObjVal? "src")) shs)
  | "load_files" => do
    let fs ← (← getArr j "files").mapM fileOfJson
    pure (loadFiles Gen.withFrames fs)
  | "write_csv" => pure (writeCsv Gen.withFrames (← srcOfJson (← j.getObjVal? "src")) (← getNat j "n"))
  | "write_excel" => pure (writeExcel Gen.withFrames (← srcOfJson (← j.getObjVal? "src")) (← getNat j "n"))
  | "write_excel_xlsxwriter" =>
    pure (writeExcelXlsxwriter (← getBool j "opensAtCtor") (← srcOfJson (← j.getObjVal? "src")) (← getNat j "n"))
  | _ => throw s!"unknown resource fn {fn}"

def actionOfJson (j : Json) : Except String Action := do
  match ← j.getStr? with
  | "next" => pure .next
  | "throwInBlock" => pure .throwInBlock
  | "close" => pure .close
  | "drop" => pure .drop
  | "throw" => pure .throw
  | "releaseExc" => pure .releaseExc
  | a =>
    if a.startsWith "throwInGap:" then
      match (a.drop 11).toNat? with
      | some k => pure (.throwInGap k)
      | none => throw s!"bad gap index in {a}"
    else throw s!"unknown action {a}"

def handleToJson : Handle → Json
  | .lib (.path f) k => Json.str s!"p{f}#{k}"
  | .lib (.stream s) k => Json.str s!"s{s}#{k}"
  | .caller c => Json.str s!"caller{c}"

def stToJson (s : St) : Json :=
  Json.mkObj [
    ("pc", Json.str (match s.pc with | .notStarted => "notStarted" | .suspendedAt _ _ => "suspended" | .done => "done")),
    ("k", nat s.delivered),
    ("out", Json.str (match s.out with | .none => "none" | .yielded => "yielded" | .stopped => "stopped" | .raised => "raised")),
    ("fds", arr ((fdsOpen (workbookSharesFd Gen.withFrames) s).map nat)),
    ("open", arr (s.opn.map handleToJson)),
    ("tb", arr (s.tb.map handleToJson)),
    ("callerClosed", arr ((callerClosed s).map nat)),
    ("bad", arr (s.bad.map handleToJson))]

def frameToJson : Frame → Json
  | .withs cs => arr (cs.map fun c => Json.str (match c with
      | .openIfPath => "openIfPath" | .closingWorkbook => "closingWorkbook" | .closingRows => "closingRows"
      | .openPath => "openPath" | .closingWorkbookByPath => "closingWorkbookByPath"))
  | .bareOpen => Json.str "bareOpen"
  | .explicitClose => Json.str "explicitClose"
  | .unknown => Json.str "unknown"

/-- op handler of the `Resource` layer -/
def handleResource (op : String) (j : Json) : Option (Except String Json) :=
  match op with
  | "resource" => some do
    let t ← progOfJson (← j.getObjVal? "prog")
    let hs ← (← getArr j "history").mapM actionOfJson
    pure (Json.mkObj [("wf", Json.bool (wf t)), ("states", arr ((runStates t hs).map stToJson))])
  | "resource_frames" => some do
    pure (Json.mkObj ((["read_csv", "read_sheets", "read_excel", "write_csv", "write_excel_xlsxwriter"].map
      fun fn => (fn, frameToJson (frameOf Gen.withFrames fn))) ++
      [("write_excel_openpyxl", Json.str (match saveShape Gen.withFrames with
        | .buffered => "buffered" | .direct => "direct" | .other => "other"))]))
  | _ => none

end Drv
