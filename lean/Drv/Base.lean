/-
  Drv/Base.lean — JSON codec helpers shared by the driver's op handlers.
  Cells: null | "str" | true/false | {"i": int} | {"f": "<float repr>"} | {"d": "<iso datetime>"} | {"o": "<type name>"}
  Modelled Python exceptions are answered as {"exc": "<ClassName>"}; protocol problems as {"error": ...}.
-/
import Lean.Data.Json
import PdtModel.Model.Text
import PdtModel.Model.Cell
open Lean Pdt

namespace Drv

def str (s : Str) : Json := Json.str (String.ofList s)

def cellToJson : Cell → Json
  | .none => Json.null
  | .str s => str s
  | .bool b => Json.bool b
  | .int i t => Json.mkObj [("i", Json.num (JsonNumber.fromInt i)), ("if", str t)]
  | .float t => Json.mkObj [("f", str t)]
  | .dt t => Json.mkObj [("d", str t)]
  | .other t => Json.mkObj [("o", str t)]

def cellOfJson (j : Json) : Except String Cell :=
  match j with
  | .null => pure .none
  | .str s => pure (.str s.toList)
  | .bool b => pure (.bool b)
  | .obj _ =>
    match j.getObjVal? "i" with
    | .ok v => do
      let i ← v.getInt?
      let t ← (← j.getObjVal? "if").getStr?
      pure (.int i t.toList)
    | .error _ =>
    match j.getObjVal? "f" with
    | .ok v => do let s ← v.getStr?; pure (.float s.toList)
    | .error _ =>
    match j.getObjVal? "d" with
    | .ok v => do let s ← v.getStr?; pure (.dt s.toList)
    | .error _ =>
    match j.getObjVal? "o" with
    | .ok v => do let s ← v.getStr?; pure (.other s.toList)
    | .error _ => throw "bad cell object"
  | _ => throw "bad cell"

def rowOfJson (j : Json) : Except String Row := do
  let a ← j.getArr?
  a.toList.mapM cellOfJson

def rowsOfJson (j : Json) : Except String (List Row) := do
  let a ← j.getArr?
  a.toList.mapM rowOfJson

def rowToJson (r : Row) : Json := Json.arr (r.map cellToJson).toArray

def getStr (j : Json) (k : String) : Except String Str := do
  let v ← j.getObjVal? k
  let s ← v.getStr?
  pure s.toList

def getNat (j : Json) (k : String) : Except String Nat := do
  let v ← j.getObjVal? k
  v.getNat?


def getBool (j : Json) (k : String) : Except String Bool := do
  let v ← j.getObjVal? k
  v.getBool?

def getInt (j : Json) (k : String) : Except String Int := do
  let v ← j.getObjVal? k
  v.getInt?

def getArr (j : Json) (k : String) : Except String (List Json) := do
  let v ← j.getObjVal? k
  let a ← v.getArr?
  pure a.toList

def nat (n : Nat) : Json := Json.num (JsonNumber.fromNat n)
def arr (xs : List Json) : Json := Json.arr xs.toArray
def exc (name : String) : Json := Json.mkObj [("exc", Json.str name)]

end Drv
