import Drv.Base
import PdtModel.Model.Bundle
open Lean Pdt Pdt.Bundle
namespace Drv

def errName : Err → String
  | .notImplemented => "NotImplementedError"
  | .unboundLocal => "UnboundLocalError"
  | .keyError => "KeyError"
  | .notUnique => "TableNameNotUniqueInBundleError"
  | .attributeError => "AttributeError"
  | .indexError => "IndexError"
  | .typeError => "TypeError"

def blkOfJson (j : Json) : Except String (Blk Nat) := do
  let t ← getBool j "t"
  let v ← getNat j "val"
  let srcJ ← j.getObjVal? "src"
  let src ← match srcJ with
    | .str "stale" => pure NameSrc.stale
    | .str "fail" => pure NameSrc.fail
    | _ => do let n ← getStr srcJ "name"; pure (NameSrc.name n)
  pure ⟨t, src, v⟩

/-- {"k": "named", "n": s} | {"k": "dict", "n": s | null} | {"k": "grid", "rows": n, "c0": "nocell" | "notstr" | {"s": s}}
    | {"k": "opaque"} -/
def repOfJson (j : Json) : Except String Rep := do
  let k ← (← j.getObjVal? "k").getStr?
  match k with
  | "named" => do let n ← getStr j "n"; pure (.named n)
  | "dict" => match j.getObjVal? "n" with
    | .ok (.str n) => pure (.dict (some n.toList))
    | _ => pure (.dict none)
  | "grid" => do
    let rows ← getNat j "rows"
    let c0 ← match j.getObjVal? "c0" with
      | .ok (.str "nocell") => pure Cell0.noCell
      | .ok (.str "notstr") => pure Cell0.notStr
      | .ok o => do let s ← getStr o "s"; pure (Cell0.str s)
      | .error e => throw e
    pure (.grid rows c0)
  | "opaque" => pure .opaque
  | _ => throw s!"unknown rep {k}"

def rblkOfJson (j : Json) : Except String (RBlk Nat) := do
  let t ← getBool j "t"
  let v ← getNat j "val"
  let rep ← repOfJson (← j.getObjVal? "rep")
  let df := match j.getObjVal? "df" with
    | .ok (.num n) => some n.mantissa.toNat
    | _ => none
  pure ⟨t, rep, v, df⟩

def idxOfJson (j : Json) : Except String Idx :=
  match j with
  | .str "other" => pure .other
  | _ => match j.getObjVal? "s", j.getObjVal? "i", j.getObjVal? "b" with
    | .ok (.str n), _, _ => pure (.str n.toList)
    | _, .ok i, _ => do let v ← i.getInt?; pure (.int v)
    | _, _, .ok (.bool b) => pure (.bool b)
    | _, _, _ => throw "bad idx"

def resNat : Except Err Nat → Json
  | .ok n => nat n
  | .error e => exc (errName e)

def answer (s : State Nat) (q : Json) : Except String Json := do
  let kind ← (← q.getObjVal? "q").getStr?
  match kind with
  | "len" => pure (nat (len s))
  | "iter" => pure (arr ((iter s).map nat))
  | "all" => do let n ← getStr q "n"; pure (arr ((all s n).map nat))
  | "contains" => do let n ← getStr q "n"; pure (Json.bool (contains s n))
  | "unique" => do let n ← getStr q "n"; pure (resNat (unique s n))
  | "getattr" => do let n ← getStr q "n"; pure (resNat (getattr s n))
  | "getitem_int" => do let i ← getInt q "i"; pure (resNat (getitemInt s i))
  | "getitem" => do let ix ← idxOfJson (← q.getObjVal? "idx"); pure (resNat (getitem s ix))
  | _ => throw s!"unknown bundle query {kind}"

def handleBundle (op : String) (j : Json) : Option (Except String Json) :=
  match op with
  | "bundle" => some do
    let bs ← (← getArr j "blocks").mapM blkOfJson
    match ofBlocks bs with
    | .error e => pure (exc (errName e))
    | .ok s => do
      let qs ← getArr j "queries"
      let as ← qs.mapM (answer s)
      pure (arr as)
  | "bundle_supplied" => some do
    let bs ← (← getArr j "blocks").mapM rblkOfJson
    let asDf ← getBool j "as_df"
    match ofSupplied asDf bs with
    | .error e => pure (exc (errName e))
    | .ok s => do
      let qs ← getArr j "queries"
      let as ← qs.mapM (answer s)
      pure (arr as)
  | "grid_name" => some do
    let c ← getStr j "s"
    pure (match gridName c with | some n => str n | none => Json.null)
  | _ => none

end Drv
