import Drv.Base
import PdtModel.Model.Bundle
open Lean Pdt Pdt.Bundle
namespace Drv

def errName : Err → String
  | .notImplemented => "NotImplementedError"
  | .unboundLocal => "UnboundLocalError"
  | .keyError => "KeyError"
  | .notUnique => "TableNameNotUniqueInBundleError"
  | .attributeError => "AttributeError"
  | .indexError => "IndexError"
  | .typeError => "TypeError"

def blkOfJson (j : Json) : Except String (Blk Nat) := do
  let t ← getBool j "t"
  let v ← getNat j "val"
  let srcJ ← j.getObjVal? "src"
  let src ← match srcJ with
    | .str "stale" => pure NameSrc.stale
    | .str "fail" => pure NameSrc.fail
    | _ => do let n ← getStr srcJ "name"; pure (NameSrc.name n)
  pure ⟨t, src, v⟩

def resNat : Except Err Nat → Json
  | .ok n => nat n
  | .error e => exc (errName e)

def answer (s : State Nat) (q : Json) : Except String Json := do
  let kind ← (← q.getObjVal? "q").getStr?
  match kind with
  | "len" => pure (nat (len s))
  | "iter" => pure (arr ((iter s).map nat))
  | "all" => do let n ← getStr q "n"; pure (arr ((all s n).map nat))
  | "contains" => do let n ← getStr q "n"; pure (Json.bool (contains s n))
  | "unique" => do let n ← getStr q "n"; pure (resNat (unique s n))
  | "getattr" => do let n ← getStr q "n"; pure (resNat (getattr s n))
  | "getitem_int" => do let i ← getInt q "i"; pure (resNat (getitemInt s i))
  | _ => throw s!"unknown bundle query {kind}"

def handleBundle (op : String) (j : Json) : Option (Except String Json) :=
  match op with
  | "bundle" => some do
    let bs ← (← getArr j "blocks").mapM blkOfJson
    match ofBlocks bs with
    | .error e => pure (exc (errName e))
    | .ok s => do
      let qs ← getArr j "queries"
      let as ← qs.mapM (answer s)
      pure (arr as)
  | "grid_name" => some do
    let c ← getStr j "s"
    pure (match gridName c with | some n => str n | none => Json.null)
  | _ => none

end Drv
