import Drv.Base
import Drv.Reader
import Drv.Blocks
import PdtModel.Model.Grid
open Lean Pdt Pdt.Reader Pdt.Represent Pdt.Blocks Pdt.Grid
namespace Drv

/-- stored value: {"t": text} | {"b": bool} | {"n": float token} | {"i": int} | {"d": iso token} -/
def gridValOfJson (j : Json) : Except String Val :=
  match j.getObjVal? "t" with
  | .ok v => do let s ← v.getStr?; pure (.text s.toList)
  | .error _ =>
  match j.getObjVal? "b" with
  | .ok v => do let b ← v.getBool?; pure (.bool b)
  | .error _ =>
  match j.getObjVal? "n" with
  | .ok v => do let s ← v.getStr?; pure (.num s.toList)
  | .error _ =>
  match j.getObjVal? "i" with
  | .ok v => do let i ← v.getInt?; pure (.int i)
  | .error _ =>
  match j.getObjVal? "d" with
  | .ok v => do let s ← v.getStr?; pure (.dt s.toList)
  | .error _ => throw "bad value"

def gridColumnOfJson (j : Json) : Except String Column := do
  let name ← getStr j "name"
  let unit ← getStr j "unit"
  let vals ← (← getArr j "values").mapM gridValOfJson
  pure ⟨name, unit, vals⟩

def gridTableOfJson (j : Json) : Except String TableVal := do
  let name ← getStr j "name"
  let dests ← (← getArr j "destinations").mapM (fun d => do let s ← d.getStr?; pure s.toList)
  let tr ← getBool j "transposed"
  let cols ← (← getArr j "columns").mapM gridColumnOfJson
  pure ⟨name, dests, tr, cols⟩

def gridTablesOfJson (j : Json) (k : String) : Except String (List TableVal) := do
  (← getArr j k).mapM gridTableOfJson

def gridPartName : Part → String
  | .tableName => "table_name" | .destinations => "destinations" | .columnNames => "column_names"
  | .units => "units" | .values => "values" | .centeredUnits => "centered_units"
  | .centeredValues => "centered_values"

def gridTargetToJson (t : Target) : Json := arr [nat t.table, nat t.row, nat t.col, Json.str (gridPartName t.part)]

def gridRowsToJson (rows : List Row) : Json := arr (rows.map rowToJson)

def gridDimOfJson (j : Json) : Except String Dim := do
  match (← j.getArr?).toList with
  | [r, c, t] => pure ⟨← r.getNat?, ← c.getNat?, ← t.getBool?⟩
  | _ => throw "bad dim"

def gridSheetToJson (s : SheetOut) : Json :=
  Json.mkObj [("name", str s.name), ("rows", gridRowsToJson s.rows),
              ("styled", arr (s.styled.map gridTargetToJson)), ("widened", arr (s.widened.map nat))]

def gridReadToJson (r : ReadResult) : Json :=
  Json.mkObj [
    ("blocks", arr (r.blocks.map fun b =>
      Json.mkObj [("sheet", str b.1), ("ty", Json.str (btString b.2.ty)), ("first", nat b.2.first),
                  ("val", blockValToJson b.2.val)])),
    ("ending", endingToJson r.ending)]

/-- op handler of the `Grid` layer -/
def handleGrid (op : String) (j : Json) : Option (Except String Json) :=
  match op with
  | "grid_layout" => some do
    let tables ← gridTablesOfJson j "tables"
    let sep ← getNat j "sep"
    let naRep ← getStr j "naRep"
    let rows := layoutSheet naRep sep tables
    pure (Json.mkObj [("rows", gridRowsToJson rows), ("stored", gridRowsToJson (store rows)),
                      ("dims", arr ((tables.map dimOf).map fun d => arr [nat d.numRows, nat d.numCols, Json.bool d.transposed]))])
  | "grid_store" => some do
    let rows ← rowsOfJson (← j.getObjVal? "rows")
    pure (gridRowsToJson (store rows))
  | "grid_style" => some do
    let dims ← (← getArr j "dims").mapM gridDimOfJson
    let sep ← getNat j "sep"
    let n ← getNat j "nrows"
    let w ← getNat j "width"
    match styleTargets n w sep 0 0 dims with
    | .ok ts => pure (Json.mkObj [("ok", arr (ts.map gridTargetToJson)), ("widened", arr ((widenedColumns dims).map nat))])
    | .error e => pure (exc (excName e))
  | "grid_wf" => some do
    let t ← gridTableOfJson (← j.getObjVal? "table")
    let naRep ← getStr j "naRep"
    pure (Json.mkObj [("wf", Json.bool (excelWF t)), ("naRepOK", Json.bool (naRepOK naRep)),
                      ("representable", Json.bool ((layoutTable naRep t).all (fun r => r.all cellRepresentable)))])
  | "grid_sheet_names" => some do
    let names ← (← getArr j "names").mapM fun x => do let s ← x.getStr?; pure s.toList
    pure (Json.mkObj [("ok", Json.bool (sheetNamesOK names))])
  | "grid_write_read" => some do
    let sheets ← (← getArr j "sheets").mapM fun s => do
      let n ← getStr s "name"
      let ts ← gridTablesOfJson s "tables"
      pure (n, ts)
    let sep ← getNat j "sep"
    let naRep ← getStr j "naRep"
    let styles ← getBool j "styles"
    let pat ← match j.getObjValD "match" with
      | .null => pure (none : Option (List Str))
      | m => do let a ← m.getArr?; pure (some (← a.toList.mapM fun x => do let s ← x.getStr?; pure s.toList))
    let ext ← extOfJson (← j.getObjVal? "ext")
    let f ← fixerOfJson (← j.getObjVal? "fixer")
    match writeExcel naRep sep styles sheets with
    | .error e => pure (exc (excName e))
    | .ok wb =>
      let cfg : Config := ⟨.pdtable, none, .raising, ext⟩
      let pattern : Str → Bool := fun n => match pat with | none => true | some ns => ns.contains n
      let r := readExcel cfg pattern f (readSheets wb)
      pure (Json.mkObj [("sheets", arr (wb.map gridSheetToJson)), ("read", gridReadToJson r)])
  | _ => none

end Drv
