import Drv.Base
open Lean Pdt
namespace Drv

/-- op handler of the `Grid` layer (stub until the layer is built) -/
def handleGrid (_op : String) (_j : Json) : Option (Except String Json) := none

end Drv
