/-
  Drv/Meta.lean — JSON ops over Model/Meta.lean.

  frame   : {"cols": [[name, dtypeToken, kind], ...], "empty": bool}
  register: [[name, unit, display_unit|null, display_format|null], ...]

  "meta_check_dtype"    {unit, kind}                     -> null | {"exc"}
  "meta_unit_from_kind" {kind}                           -> unit | {"exc"}
  "meta_update_columns" {reg, frame, strict}             -> {"reg", "res"}
  "meta_combine"        {srcs, out}                      -> reg | {"exc"}
  "meta_hist"           {init: <make step>, steps: [...]} -> {"init": res, "steps": [{"res", "reg", "last"}, ...]}
     every step carries the frame observed at that point ("frame") and a kind "k":
       units | get{name} | iter | header | json | add_column{name,unit?,dunit?,fmt?} | set_units{map}
       | set_all_units{units} | set_col_unit{name,unit} | set_fmt{name,fmt?} | set_strict{b} | clone | rewrap{units?,strict?} | finalize{srcs,strict}
       | make{units?,unit_map?,strict} | peek
     every step may carry "t": the index of the table it addresses (default: the newest).  A successful
     rewrap / finalize / make appends a new table (a sibling with its own register); the old ones stay alive.
-/
import Drv.Base
import PdtModel.Model.Meta
open Lean Pdt Pdt.Meta
namespace Drv

def metaErrName : Err → String
  | .columnUnit => "ColumnUnitException"
  | .invalidNaming => "InvalidNamingError"
  | .valueError => "ValueError"
  | .keyError => "KeyError"
  | .invalidCombine => "InvalidTableCombineError"
  | .indexError => "IndexError"
  | .exception => "Exception"

def optStrOfJson (j : Json) : Except String (Option Str) :=
  match j with
  | .null => pure none
  | .str s => pure (some s.toList)
  | _ => throw "expected string or null"

def getOptStr (j : Json) (k : String) : Except String (Option Str) :=
  match j.getObjVal? k with
  | .ok v => optStrOfJson v
  | .error _ => pure none

def strOfJson (j : Json) : Except String Str := do
  let s ← j.getStr?
  pure s.toList

def optStrToJson : Option Str → Json
  | none => Json.null
  | some s => str s

def colOfJson (j : Json) : Except String Col := do
  let a ← j.getArr?
  match a.toList with
  | [n, d, k] => pure { name := ← strOfJson n, dtype := ← strOfJson d, kind := ← strOfJson k }
  | _ => throw "bad column"

def frameOfJson (j : Json) : Except String Frame := do
  let cols ← (← getArr j "cols").mapM colOfJson
  let e ← getBool j "empty"
  pure { cols := cols, empty := e }

def regEntryOfJson (j : Json) : Except String (Str × ColMeta) := do
  let a ← j.getArr?
  match a.toList with
  | [n, u, du, f] =>
    pure (← strOfJson n, { unit := ← strOfJson u, dunit := ← optStrOfJson du, fmt := ← optStrOfJson f })
  | _ => throw "bad register entry"

def regOfJson (j : Json) : Except String Reg := do
  let a ← j.getArr?
  a.toList.mapM regEntryOfJson

def regToJson (r : Reg) : Json :=
  arr (r.map (fun kv => arr [str kv.1, str kv.2.unit, optStrToJson kv.2.dunit, optStrToJson kv.2.fmt]))

def pairOfJson (j : Json) : Except String (Str × Str) := do
  let a ← j.getArr?
  match a.toList with
  | [n, u] => pure (← strOfJson n, ← strOfJson u)
  | _ => throw "bad pair"

def getOptStrList (j : Json) (k : String) : Except String (Option (List Str)) :=
  match j.getObjVal? k with
  | .ok .null => pure none
  | .ok v => do let a ← v.getArr?; pure (some (← a.toList.mapM strOfJson))
  | .error _ => pure none

def getOptPairs (j : Json) (k : String) : Except String (Option (List (Str × Str))) :=
  match j.getObjVal? k with
  | .ok .null => pure none
  | .ok v => do let a ← v.getArr?; pure (some (← a.toList.mapM pairOfJson))
  | .error _ => pure none

def getOptBool (j : Json) (k : String) : Except String (Option Bool) :=
  match j.getObjVal? k with
  | .ok .null => pure none
  | .ok v => do pure (some (← v.getBool?))
  | .error _ => pure none

def metaExc (e : Err) : Json := exc (metaErrName e)

def optErrToJson : Option Err → Json
  | none => Json.null
  | some e => metaExc e

def pairsToJson (ps : List (Str × Str)) : Json := arr (ps.map (fun p => arr [str p.1, str p.2]))

def stepOut (i : Info) (res : Json) : Json :=
  Json.mkObj [("res", res), ("reg", regToJson i.reg), ("last", Json.bool i.last.isSome),
              ("ls", if i.last.isSome then Json.bool i.lastStrict else Json.null), ("strict", Json.bool i.strict)]

def makeOfJson (j : Json) (f : Frame) : Except String (Except Err Info) := do
  let us ← getOptStrList j "units"
  let um ← getOptPairs j "unit_map"
  let strict ← getBool j "strict"
  pure (make f us um strict)

/-- outcome of one step on the addressed info: the info after the step, optionally a newly created info
    (re-wrap, derived frame, construction: a *sibling* with its own register), and the answer -/
def metaStep (i : Info) (j : Json) : Except String (Info × Option Info × Json) := do
  let k ← (← j.getObjVal? "k").getStr?
  let f ← frameOfJson (← j.getObjVal? "frame")
  match k with
  | "peek" => pure (i, none, Json.null)
  | "units" =>
    let (i1, r) := tableUnits i f
    pure (i1, none, match r with | .ok us => arr (us.map str) | .error e => metaExc e)
  | "get" =>
    let n ← getStr j "name"
    let (i1, r) := tableGetUnit i f n
    pure (i1, none, match r with | .ok u => str u | .error e => metaExc e)
  | "iter" =>
    let (i1, r) := tableIter i f
    pure (i1, none, match r with | .ok ps => pairsToJson ps | .error e => metaExc e)
  | "header" =>
    let (i1, r) := writerHeader i f
    pure (i1, none, match r with
      | .ok (ns, us, fs) => Json.mkObj [("names", arr (ns.map str)), ("units", arr (us.map str)),
                                         ("fmts", arr (fs.map optStrToJson))]
      | .error e => metaExc e)
  | "json" =>
    let (i1, r) := jsonPairs i f
    pure (i1, none, match r with | .ok ps => pairsToJson ps | .error e => metaExc e)
  | "add_column" =>
    let n ← getStr j "name"
    let (i1, e) := addColumn i f n (← getOptStr j "unit") (← getOptStr j "dunit") (← getOptStr j "fmt")
    pure (i1, none, optErrToJson e)
  | "set_units" =>
    let m ← (← getArr j "map").mapM pairOfJson
    let (i1, e) := setUnits i f m
    pure (i1, none, optErrToJson e)
  | "set_all_units" =>
    let us ← (← getArr j "units").mapM strOfJson
    let (i1, e) := setAllUnits i f us
    pure (i1, none, optErrToJson e)
  | "set_col_unit" =>
    let (i1, e) := setColUnit i f (← getStr j "name") (← getStr j "unit")
    pure (i1, none, optErrToJson e)
  | "set_fmt" =>
    let (i1, e) := setColFmt i f (← getStr j "name") (← getOptStr j "fmt")
    pure (i1, none, optErrToJson e)
  | "clone" => pure (i, some i, Json.null)
  | "set_strict" =>
    let b ← getBool j "b"
    pure ({ i with strict := b }, none, Json.null)
  | "rewrap" =>
    let us ← getOptStrList j "units"
    let st ← getOptBool j "strict"
    match rewrap i f us st with
    | (i1, .ok i2) => pure (i1, some i2, Json.null)
    | (i1, .error e) => pure (i1, none, metaExc e)
  | "finalize" =>
    let srcs ← (← getArr j "srcs").mapM regOfJson
    let strict ← getBool j "strict"
    match finalize srcs strict f with
    | .ok i2 => pure (i, some i2, Json.null)
    | .error e => pure (i, none, metaExc e)
  | "make" =>
    match ← makeOfJson j f with
    | .ok i2 => pure (i, some i2, Json.null)
    | .error e => pure (i, none, metaExc e)
  | _ => throw s!"unknown meta step {k}"

/-- the live tables of a history, each with its own info; a step addresses one by "t" (default: the newest);
    a successful re-wrap / finalize / make appends a new table and the answer reports that new table -/
def metaSteps : List Info → List Json → List Json → Except String (List Json)
  | _, [], acc => pure acc.reverse
  | infos, j :: js, acc => do
    let t ← match j.getObjVal? "t" with
      | .ok v => v.getNat?
      | .error _ => pure (infos.length - 1)
    match infos[t]? with
    | none => throw s!"no table {t}"
    | some i =>
      let (i1, created, a) ← metaStep i j
      let infos1 := infos.set t i1
      match created with
      | some i2 => metaSteps (infos1 ++ [i2]) js (stepOut i2 a :: acc)
      | none => metaSteps infos1 js (stepOut i1 a :: acc)

def handleMeta (op : String) (j : Json) : Option (Except String Json) :=
  match op with
  | "meta_check_dtype" => some do
    let u ← getStr j "unit"
    let k ← getStr j "kind"
    pure (match checkDtype { unit := u } k with | .ok _ => Json.null | .error e => metaExc e)
  | "meta_unit_from_kind" => some do
    let k ← getStr j "kind"
    pure (match unitFromKind k with | .ok u => str u | .error e => metaExc e)
  | "meta_update_columns" => some do
    let r ← regOfJson (← j.getObjVal? "reg")
    let f ← frameOfJson (← j.getObjVal? "frame")
    let strict ← getBool j "strict"
    let (r1, e) := updateColumns strict r f
    pure (Json.mkObj [("reg", regToJson r1), ("res", optErrToJson e)])
  | "meta_combine" => some do
    let srcs ← (← getArr j "srcs").mapM regOfJson
    let out ← (← getArr j "out").mapM strOfJson
    pure (match combine out [] srcs with | .ok r => regToJson r | .error e => metaExc e)
  | "meta_hist" => some do
    let init ← j.getObjVal? "init"
    let f ← frameOfJson (← init.getObjVal? "frame")
    match ← makeOfJson init f with
    | .error e => pure (Json.mkObj [("init", metaExc e), ("steps", arr [])])
    | .ok i =>
      let steps ← getArr j "steps"
      let outs ← metaSteps [i] steps []
      pure (Json.mkObj [("init", stepOut i Json.null), ("steps", arr outs)])
  | _ => none

end Drv
