import Drv.Base
import Drv.Segment
import Drv.Reader
import PdtModel.Model.Blocks
open Lean Pdt Pdt.Reader Pdt.Blocks
namespace Drv

def btOfString : String → Except String BT
  | "DIRECTIVE" => pure .directive
  | "TABLE" => pure .table
  | "TEMPLATE_ROW" => pure .template
  | "METADATA" => pure .metadata
  | "BLANK" => pure .blank
  | s => throw s!"bad block type {s}"

def btString : BT → String
  | .directive => "DIRECTIVE" | .table => "TABLE" | .template => "TEMPLATE_ROW"
  | .metadata => "METADATA" | .blank => "BLANK"

def precursorJson (p : Precursor) : Json :=
  Json.mkObj [
    ("name", str p.name), ("transposed", Json.bool p.transposed),
    ("destinations", arr (p.destinations.map str)), ("names", arr (p.names.map str)),
    ("units", arr (p.units.map str)), ("columns", arr (p.columns.map colToJson))]

def blockValToJson : BlockVal → Json
  | .table p => Json.mkObj [("table", precursorJson p)]
  | .json p => Json.mkObj [("json", precursorJson p)]
  | .grid rows => Json.mkObj [("grid", arr (rows.map rowToJson))]
  | .metadata kvs => Json.mkObj [("metadata", arr (kvs.map fun kv => arr [str kv.1, str kv.2]))]
  | .directive n ls => Json.mkObj [("directive", Json.mkObj [("name", str n), ("lines", arr (ls.map cellToJson))])]

def formOfString : String → Except String Form
  | "pdtable" => pure .pdtable
  | "jsondata" => pure .jsondata
  | "cellgrid" => pure .cellgrid
  | s => throw s!"bad form {s}"

/-- filter given extensionally: the accepted (type, name) pairs and the answer for every other pair -/
def filterOfJson (j : Json) : Except String (Option (BT → Str → Bool)) :=
  match j with
  | .null => pure none
  | _ => do
    let dflt ← getBool j "default"
    let acc ← (← getArr j "accept").mapM fun p => do
      let a ← p.getArr?
      match a.toList with
      | [t, n] => do
        let ty ← btOfString (← t.getStr?)
        let nm ← n.getStr?
        pure (ty, nm.toList, true)
      | [t, n, b] => do
        let ty ← btOfString (← t.getStr?)
        let nm ← n.getStr?
        pure (ty, nm.toList, ← b.getBool?)
      | _ => throw "bad filter pair"
    pure (some fun ty nm =>
      match acc.find? (fun e => e.1 = ty && e.2.1 = nm) with
      | some e => e.2.2
      | none => dflt)

def endingToJson : Ending → Json
  | .exhausted => "exhausted"
  | .inputError r => Json.mkObj [("InputError", nat r)]
  | .escaped e => Json.mkObj [("escaped", Json.str (excName e))]

def resultToJson (r : Result) : Json :=
  Json.mkObj [
    ("blocks", arr (r.blocks.map fun d =>
      Json.mkObj [("ty", Json.str (btString d.ty)), ("first", nat d.first), ("val", blockValToJson d.val)])),
    ("issues", arr (r.issues.map nat)),
    ("ending", endingToJson r.ending)]

def configOfJson (j : Json) : Except String Config := do
  let form ← formOfString (← (← j.getObjVal? "to").getStr?)
  let filter ← filterOfJson (j.getObjValD "filter")
  let tr ← (← j.getObjVal? "tracker").getStr?
  let tracker ← match tr with
    | "raising" => pure Tracker.raising
    | "collecting" => pure Tracker.collecting
    | _ => throw "bad tracker"
  let ext ← extOfJson (← j.getObjVal? "ext")
  pure ⟨form, filter, tracker, ext⟩

def handleBlocks (op : String) (j : Json) : Option (Except String Json) :=
  match op with
  | "parse_blocks" => some do
    let rows ← rowsOfJson (← j.getObjVal? "rows")
    let cfg ← configOfJson j
    let f ← fixerOfJson (← j.getObjVal? "fixer")
    pure (resultToJson (parseBlocks cfg rows f))
  | _ => none

end Drv
