/-
  Drv/Combine.lean — JSON ops over Model/Combine.lean (property C05).

  op "c05":  {"infos": [<info value>…], "steps": [<step>…]}  ->  [<answer per step>…]
    The initial infos are allocated in order (each with its own objects); info k has identity k.
    Steps run on one heap, in order; a step answering {"exc": …} leaves the heap as it was.
      {"k":"finalize","method":s|null,"obj":ref|null,
       "other":{"own":ref|null,"lr":[ref|null,ref|null]|null,"objs":[ref|null…]|null},
       "frame":{"cols":[[label,dtype,kind]…],"empty":b}}
            -> {"res":"plain"|"table","info":ref|null,"warn":[…],"obs":<obs>|null,"shared":[[src,[kinds…]]…]}
      {"k":"rewrap","info":ref,"frame":…,"kw":{"name":s|null,"dests":[s…]|null,"units":[s…]|null,"transposed":b|null}}
            -> {"info":ref,"obs":<obs>,"shared":[kinds…]}
      {"k":"mutate","info":ref,"mut":{"m":"set_unit"|"set_name"|"add_dest"|"add_column"|"set_disp_unit"|"set_fmt",…}} -> "ok"
      {"k":"consult","info":ref,"frame":…} -> "ok"          (`get_table_info(df)`: `_check_dataframe`)
      {"k":"observe","info":ref} -> <obs>|null
      {"k":"shared","a":ref,"b":ref} -> [kinds…]
  op "c05_select": {"method":s|null} -> "own"|"merge"|"concat"|"own+warn"   (source selection only)
-/
import Drv.Base
import PdtModel.Model.Combine
open Lean Pdt Pdt.Combine
namespace Drv.C05

def errName : Err → String
  | .invalidTableCombine => "InvalidTableCombineError"
  | .attributeError => "AttributeError"
  | .invalidNaming => "InvalidNamingError"
  | .columnUnit => "ColumnUnitException"
  | .valueError => "ValueError"
  | .keyError => "KeyError"

def warnName : Warn → String
  | .unknownMethod => "unknown_method"
  | .fallback => "fallback"

def optStr (j : Json) : Except String (Option Str) :=
  match j with
  | .null => pure none
  | .str s => pure (some s.toList)
  | _ => throw "expected string or null"

def optStrJ : Option Str → Json
  | none => Json.null
  | some s => str s

def optRef (j : Json) : Except String (Option Ref) :=
  match j with
  | .null => pure none
  | _ => do let n ← j.getNat?; pure (some n)

def getOpt (j : Json) (k : String) : Json := (j.getObjVal? k).toOption.getD Json.null

partial def originOfJson (j : Json) : Except String Origin :=
  match j with
  | .null => pure .absent
  | _ => do
    let loc ← optStr (getOpt j "loc")
    let op ← optStr (getOpt j "op")
    let ps ← (← getArr j "parents").mapM originOfJson
    pure (.node loc ps op)

partial def originToJson : Origin → Json
  | .absent => Json.null
  | .node loc ps op =>
    Json.mkObj [("loc", optStrJ loc), ("parents", arr (ps.map originToJson)), ("op", optStrJ op)]

def strList (j : Json) : Except String (List Str) := do
  let a ← j.getArr?
  a.toList.mapM (fun x => do let s ← x.getStr?; pure s.toList)

def kindChar (j : Json) : Except String Char := do
  let s ← j.getStr?
  match s.toList with
  | [c] => pure c
  | _ => throw "dtype kind must be one character"

def frameOfJson (j : Json) : Except String Frame := do
  let cols ← (← getArr j "cols").mapM (fun c => do
    let a ← c.getArr?
    match a.toList with
    | [l, d, k] => do
      let l ← l.getStr?; let d ← d.getStr?; let k ← kindChar k
      pure (l.toList, d.toList, k)
    | _ => throw "frame column must be [label, dtype, kind]")
  let e ← getBool j "empty"
  pure ⟨cols, e⟩

def stateOfJson (j : Json) : Except String (Option FrameState) :=
  match j with
  | .null => pure none
  | _ => do
    let cols ← (← getArr j "cols").mapM (fun c => do
      let a ← c.getArr?
      match a.toList with
      | [l, d] => do let l ← l.getStr?; let d ← d.getStr?; pure (l.toList, d.toList)
      | _ => throw "state column must be [label, dtype]")
    let e ← getBool j "empty"
    let st ← getBool j "strict"
    pure (some ⟨cols, e, st⟩)

/-- allocate one source info with objects of its own -/
def allocInfo (h : Heap) (j : Json) : Except String Heap := do
  let name ← getStr j "name"
  let dests ← strList (← j.getObjVal? "dests")
  let origin ← originOfJson (getOpt j "origin")
  let transposed ← getBool j "transposed"
  let strict ← getBool j "strict"
  let last ← stateOfJson (getOpt j "last")
  let cols ← getArr j "cols"
  let (sd, d) := h.dsets.alloc dests
  let (sm, m) := h.tmetas.alloc ⟨name, d, origin, transposed, strict⟩
  let mut h1 : Heap := { h with dsets := sd, tmetas := sm }
  let mut es : List (Label × Ref) := []
  for c in cols do
    let a ← c.getArr?
    match a.toList with
    | [l, u, du, f] =>
      let l ← l.getStr?; let u ← u.getStr?
      let du ← optStr du; let f ← optStr f
      let fr : Option Ref ← match f with
        | none => pure none
        | some spec =>
          let (sf, r) := h1.fmts.alloc spec
          h1 := { h1 with fmts := sf }
          pure (some r)
      let (sc, r) := h1.cols.alloc ⟨u.toList, du, fr⟩
      h1 := { h1 with cols := sc }
      es := es ++ [(l.toList, r)]
    | _ => throw "info column must be [label, unit, display_unit, format]"
  let (sdict, c) := h1.dicts.alloc es
  let (si, _) := h1.infos.alloc ⟨m, c, last⟩
  pure { h1 with dicts := sdict, infos := si }

def obsToJson (o : Obs) : Json :=
  let anc := match o.origin.ancestors with
    | .ok xs => Json.mkObj [("ok", arr (xs.map str))]
    | .error e => exc (errName e)
  Json.mkObj [("name", str o.name), ("dests", arr (o.dests.map str)), ("origin", originToJson o.origin),
    ("anc", anc), ("transposed", Json.bool o.transposed), ("strict", Json.bool o.strict),
    ("cols", arr (o.cols.map fun c => arr [str c.label, str c.unit, optStrJ c.dispUnit, optStrJ c.fmt]))]

def obsJ (h : Heap) (i : Ref) : Json :=
  match observe h i with
  | some o => obsToJson o
  | none => Json.null

def locKind : Loc → String
  | .dset _ => "dests" | .fmt _ => "format" | .col _ => "column" | .dict _ => "dict"
  | .tmeta _ => "metadata" | .info _ => "info"

/-- kinds of mutable objects reachable from both infos -/
def sharedKinds (h : Heap) (a b : Ref) : Json :=
  let rb := reach h b
  let ks := ((reach h a).filter (fun x => decide (x ∈ rb))).map locKind
  arr (ks.eraseDups.map Json.str)

def otherOfJson (j : Json) : Except String Other := do
  let own ← optRef (getOpt j "own")
  let lr ← match getOpt j "lr" with
    | .null => pure none
    | v => do
      let a ← v.getArr?
      match a.toList with
      | [l, r] => do let l ← optRef l; let r ← optRef r; pure (some (l, r))
      | _ => throw "lr must have two entries"
  let objs ← match getOpt j "objs" with
    | .null => pure none
    | v => do let a ← v.getArr?; let xs ← a.toList.mapM optRef; pure (some xs)
  pure ⟨own, lr, objs⟩

def kwOfJson (j : Json) : Except String Kw := do
  let name ← optStr (getOpt j "name")
  let dests ← match getOpt j "dests" with | .null => pure none | v => do pure (some (← strList v))
  let units ← match getOpt j "units" with | .null => pure none | v => do pure (some (← strList v))
  let tr ← match getOpt j "transposed" with | .null => pure none | v => do pure (some (← v.getBool?))
  let ds ← optStr (getOpt j "dests_str")
  let st ← match getOpt j "strict" with | .null => pure none | v => do pure (some (← v.getBool?))
  -- "origin": absent key = not given; {"set": <origin or null>} = given (null = an explicit None)
  let orig ← match getOpt j "origin" with
    | .null => pure none
    | v => do pure (some (← originOfJson (getOpt v "set")))
  pure ⟨name, dests, units, tr, ds, orig, st⟩

def mutOfJson (j : Json) : Except String Mut := do
  let m ← (← j.getObjVal? "m").getStr?
  match m with
  | "set_unit" => do pure (.setUnit (← getStr j "col") (← getStr j "unit"))
  | "set_name" => do pure (.setName (← getStr j "name"))
  | "add_dest" => do pure (.addDest (← getStr j "d"))
  | "remove_dest" => do pure (.removeDest (← getStr j "d"))
  | "add_column" => do pure (.addColumn (← getStr j "col") (← getStr j "unit"))
  | "set_disp_unit" => do pure (.setDispUnit (← getStr j "col") (← getStr j "unit"))
  | "set_fmt" => do pure (.setFmt (← getStr j "col") (← getStr j "spec"))
  | _ => throw s!"unknown mutation {m}"

def step (h : Heap) (j : Json) : Except String (Heap × Json) := do
  let k ← (← j.getObjVal? "k").getStr?
  match k with
  | "finalize" =>
    let method ← optStr (getOpt j "method")
    let obj ← optRef (getOpt j "obj")
    let other ← otherOfJson (← j.getObjVal? "other")
    let fr ← frameOfJson (← j.getObjVal? "frame")
    match finalize h method obj other fr with
    | .error e => pure (h, exc (errName e))
    | .ok (h1, res, w) =>
      let wj := arr (w.map (fun x => Json.str (warnName x)))
      match res with
      | .plain => pure (h1, Json.mkObj [("res", "plain"), ("info", Json.null), ("warn", wj),
                                       ("obs", Json.null), ("shared", arr [])])
      | .table i =>
        let srcs := match selectSources method other with
          | .ok (src, _) => (src.filterMap id).eraseDups
          | .error _ => []
        let sh := srcs.map (fun s => arr [nat s, sharedKinds h1 i s])
        pure (h1, Json.mkObj [("res", "table"), ("info", nat i), ("warn", wj), ("obs", obsJ h1 i),
                              ("shared", arr sh)])
  | "rewrap" =>
    let i ← getNat j "info"
    let fr ← frameOfJson (← j.getObjVal? "frame")
    let kw ← kwOfJson (← j.getObjVal? "kw")
    match rewrap h i fr kw with
    | .error e => pure (h, exc (errName e))
    | .ok (h1, i') =>
      pure (h1, Json.mkObj [("info", nat i'), ("obs", obsJ h1 i'),
                            ("shared", if i' = i then arr ["same"] else sharedKinds h1 i' i)])
  | "mutate" =>
    let i ← getNat j "info"
    let mu ← mutOfJson (← j.getObjVal? "mut")
    match mutate h i mu with
    | .error e => pure (h, exc (errName e))
    | .ok h1 => pure (h1, "ok")
  | "consult" =>
    let i ← getNat j "info"
    let fr ← frameOfJson (← j.getObjVal? "frame")
    match mutate h i (.consult fr) with
    | .error e => pure (h, exc (errName e))
    | .ok h1 => pure (h1, "ok")
  | "observe" =>
    let i ← getNat j "info"
    pure (h, obsJ h i)
  | "shared" =>
    let a ← getNat j "a"
    let b ← getNat j "b"
    pure (h, sharedKinds h a b)
  | _ => throw s!"unknown c05 step {k}"

end Drv.C05

namespace Drv
open Drv.C05

def handleCombine (op : String) (j : Json) : Option (Except String Json) :=
  match op with
  | "c05" => some do
    let infos ← getArr j "infos"
    let mut h := Heap.empty
    for i in infos do
      h ← allocInfo h i
    let mut out : List Json := []
    for s in (← getArr j "steps") do
      let (h1, a) ← C05.step h s
      h := h1
      out := out ++ [a]
    pure (arr out)
  | "c05_select" => some do
    let method ← optStr (getOpt j "method")
    let probe : Other := ⟨some 0, some (some 1, some 2), some [some 3]⟩
    pure (match selectSources method probe with
      | .ok ([some 0], false) => "own"
      | .ok ([some 0], true) => "own+warn"
      | .ok ([some 1, some 2], _) => "merge"
      | .ok ([some 3], _) => "concat"
      | _ => "?")
  | _ => none

end Drv
