import Drv.Base
open Lean Pdt
namespace Drv

/-- op handler of the `Equals` layer (stub until the layer is built) -/
def handleEquals (_op : String) (_j : Json) : Option (Except String Json) := none

end Drv
