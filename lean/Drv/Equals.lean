import Drv.Base
import PdtModel.Model.Equals
open Lean Pdt Pdt.Equals
namespace Drv

/-- scalar: {"n": tok} | {"s": str} | {"t": tok} | {"z": tok} | {"m": "none"|"nan"|"nat"|"na"} -/
def scOfJson (j : Json) : Except String Sc :=
  match j.getObjVal? "n" with
  | .ok v => do let s ← v.getStr?; pure (.num s.toList)
  | .error _ =>
  match j.getObjVal? "s" with
  | .ok v => do let s ← v.getStr?; pure (.str s.toList)
  | .error _ =>
  match j.getObjVal? "t" with
  | .ok v => do let s ← v.getStr?; pure (.ts s.toList)
  | .error _ =>
  match j.getObjVal? "z" with
  | .ok v => do let s ← v.getStr?; pure (.tsz s.toList)
  | .error _ =>
  match j.getObjVal? "m" with
  | .ok (.str "none") => pure (.miss .none)
  | .ok (.str "nan") => pure (.miss .nan)
  | .ok (.str "nat") => pure (.miss .nat)
  | .ok (.str "na") => pure (.miss .na)
  | _ => throw "bad scalar"

def strList (j : Json) (k : String) : Except String (List Str) := do
  (← getArr j k).mapM (fun v => do let s ← v.getStr?; pure s.toList)

def eqRowOfJson (j : Json) : Except String (Sc × List Sc) := do
  let a ← j.getArr?
  match a.toList with
  | [] => throw "row without index label"
  | l :: cs => do pure (← scOfJson l, ← cs.mapM scOfJson)

def eqTblOfJson (j : Json) : Except String Tbl := do
  pure { sub := ← getBool j "sub", name := ← getStr j "name", dests := ← strList j "dests",
         colNames := ← strList j "cols", units := ← strList j "units",
         rows := ← (← getArr j "rows").mapM eqRowOfJson,
         transposed := ← getBool j "transposed", origin := ← getStr j "origin" }

def eqArgOfJson (j : Json) : Except String Arg :=
  match j.getObjVal? "nt" with
  | .ok v => do let s ← v.getStr?; pure (.notTable s.toList)
  | .error _ => do pure (.table (← eqTblOfJson j))

def handleEquals (op : String) (j : Json) : Option (Except String Json) :=
  match op with
  | "equals" => some do
    let a ← eqTblOfJson (← j.getObjVal? "self")
    let b ← eqArgOfJson (← j.getObjVal? "other")
    pure (Json.bool (equals a b))
  | "equal_or_same" => some do
    let a ← scOfJson (← j.getObjVal? "a")
    let b ← scOfJson (← j.getObjVal? "b")
    pure (Json.bool (equalOrSame a b))
  | _ => none

end Drv
