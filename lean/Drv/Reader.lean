import Drv.Base
import PdtModel.Model.Reader
open Lean Pdt Pdt.Reader
namespace Drv

def excName : PyExc → String
  | .valueError => "ValueError"
  | .indexError => "IndexError"
  | .typeError => "TypeError"
  | .attributeError => "AttributeError"
  | .keyError => "KeyError"
  | .assertionError => "AssertionError"
  | .columnUnit => "ColumnUnitException"
  | .other n => String.ofList n

def objPairs (j : Json) : Except String (List (String × Json)) :=
  match j with
  | .obj kvs => pure (kvs.toList.map (fun p => (p.1, p.2)))
  | _ => throw "expected object"

/-- Ext from the oracle tables on the line; a lookup miss is loud ("ORACLE-MISS") -/
def extOfJson (j : Json) : Except String Ext := do
  let floats ← objPairs (← j.getObjVal? "floats")
  let dts ← objPairs (← j.getObjVal? "dts")
  let digits ← getStr j "digits"
  let pf : Str → Option Str := fun s =>
    match floats.lookup (String.ofList s) with
    | some (.str t) => some t.toList
    | some .null => none
    | _ => some "ORACLE-MISS".toList
  let pd : Str → DtRes := fun s =>
    match dts.lookup (String.ofList s) with
    | some (.str "ValueError") => .valueError
    | some v => match v.getObjVal? "ok" with
      | .ok (.str t) => .ok t.toList
      | _ => match v.getObjVal? "raises" with
        | .ok (.str n) => .raises n.toList
        | _ => .raises "ORACLE-MISS".toList
    | none => .raises "ORACLE-MISS".toList
  let isd : Char → Bool := fun c => ('0' ≤ c && c ≤ '9') || digits.contains c
  pure ⟨pf, pd, isd⟩

def fixerOfJson (j : Json) : Except String Fixer := do
  let stop ← getBool j "stop"
  let rf ← getStr j "repFloat"
  let ro ← getBool j "repOnoff"
  let rd ← getStr j "repDt"
  pure ⟨⟨stop, rf, ro, rd⟩, 0, 0, []⟩

def msgToJson : Msg → Json
  | .dup n p => arr [Json.str "dup", str n, nat p]
  | .missingRow r => arr [Json.str "missing", nat r]
  | .illegal v x => arr [Json.str "illegal", str v, str x]

def fixerToJson (f : Fixer) : Json :=
  Json.mkObj [("errors", nat f.errors), ("warnings", nat f.warnings), ("msgs", arr (f.msgs.map msgToJson))]

def colToJson : ColVals → Json
  | .text xs => Json.mkObj [("k", "text"), ("v", arr (xs.map str))]
  | .onoff xs => Json.mkObj [("k", "onoff"), ("v", arr (xs.map Json.bool))]
  | .num xs => Json.mkObj [("k", "num"), ("v", arr (xs.map str))]
  | .dt xs => Json.mkObj [("k", "dt"), ("v", arr (xs.map str))]
  | .raw => Json.mkObj [("k", "raw"), ("v", arr [])]

def precursorToJson (p : Precursor) (f : Fixer) : Json :=
  Json.mkObj [("ok", Json.mkObj [
    ("name", str p.name), ("transposed", Json.bool p.transposed),
    ("destinations", arr (p.destinations.map str)), ("names", arr (p.names.map str)),
    ("units", arr (p.units.map str)), ("columns", arr (p.columns.map colToJson)),
    ("fixer", fixerToJson f)])]

def handleReader (op : String) (j : Json) : Option (Except String Json) :=
  match op with
  | "precursor" | "make_table" => some do
    let cells ← rowsOfJson (← j.getObjVal? "cells")
    let ext ← extOfJson (← j.getObjVal? "ext")
    let f ← fixerOfJson (← j.getObjVal? "fixer")
    let r := if op = "precursor" then makePrecursor ext cells f else makeTable ext cells f
    match r with
    | .ok (p, f') => pure (precursorToJson p f')
    | .error e => pure (exc (excName e))
  | "parse_column" => some do
    let unit ← getStr j "unit"
    let cells ← rowOfJson (← j.getObjVal? "cells")
    let ext ← extOfJson (← j.getObjVal? "ext")
    let f ← fixerOfJson (← j.getObjVal? "fixer")
    match parseColumn ext unit cells f with
    | .ok (v, f') => pure (Json.mkObj [("ok", colToJson v), ("fixer", fixerToJson f')])
    | .error e => pure (exc (excName e))
  | "column_names" => some do
    let cells ← rowOfJson (← j.getObjVal? "cells")
    match parseColumnNames cells with
    | .ok ns => pure (arr (ns.map str))
    | .error e => pure (exc (excName e))
  | "destinations" => some do
    let c ← cellOfJson (← j.getObjVal? "c")
    pure (arr ((destinations c).map str))
  | "normalize" => some do
    let s ← getStr j "s"
    pure (str (normalize s))
  | "is_missing" => some do
    let s ← getStr j "s"
    pure (Json.bool (isMissingMarker s))
  | _ => none

end Drv
