import Drv.Base
import PdtModel.Model.Marker
import PdtModel.Model.Segment
open Lean Pdt
namespace Drv

def markerToJson : Option Marker → Json
  | none => Json.null
  | some .table => "table"
  | some .directive => "directive"
  | some .template => "template"
  | some .metadata => "metadata"

def btToJson : BT → Json
  | .directive => "DIRECTIVE"
  | .table => "TABLE"
  | .template => "TEMPLATE_ROW"
  | .metadata => "METADATA"
  | .blank => "BLANK"

def blockToJson (b : Block Row) : Json :=
  Json.mkObj [("ty", btToJson b.ty), ("first", Json.num (JsonNumber.fromNat b.first)),
              ("rows", Json.arr (b.rows.map rowToJson).toArray)]


def handleSegment (op : String) (j : Json) : Option (Except String Json) :=
  match op with
  | "classify" => some do
    let s ← getStr j "s"
    pure (markerToJson (classify s))
  | "isspace_range" => some do
    let lo ← getNat j "lo"
    let hi ← getNat j "hi"
    let xs := (List.range (hi - lo)).filterMap fun k =>
      let n := lo + k
      if isSpace (Char.ofNat n) then some (nat n) else none
    pure (arr xs)
  | "strip" => some do
    let s ← getStr j "s"
    pure (str (strip s))
  | "is_blank" => some do
    let c ← cellOfJson (← j.getObjVal? "c")
    pure (Json.bool c.isBlank)
  | "segment" => some do
    let rows ← rowsOfJson (← j.getObjVal? "rows")
    pure (arr ((segment rows).map blockToJson))
  | _ => none

end Drv
