/-
  Drv/Json.lean — ops of the `Json` layer.
  JVal on the wire:  null | true/false | "s" | {"i": n} | {"f": "<repr>"} | [..] | {"o": [[key, v], ..]}
  PVal on the wire:  null | true/false | "s" | {"i": n} | {"f": tok} | {"list": [..]} | {"dict": [[k, v], ..]}
                     | {"f64": [tok..]} | {"nd": [..]} | {"dt": tok} | {"np": <item()>} | {"k": "na" | "other"}
  Val on the wire:   "s" | true/false | {"f": tok} | {"i": n} | {"d": tok}
-/
import Drv.Base
import Drv.Reader
import Drv.Blocks
import PdtModel.Model.Json
import PdtModel.Model.JsonText
open Lean Pdt Pdt.Reader Pdt.Represent Pdt.Blocks
namespace Drv.JsonOps

partial def jvalToJson : Pdt.Json.JVal → Json
  | .null => Json.null
  | .bool b => Json.bool b
  | .int i => Json.mkObj [("i", Json.num (JsonNumber.fromInt i))]
  | .num t => Json.mkObj [("f", str t)]
  | .str s => str s
  | .arr xs => arr (xs.map jvalToJson)
  | .obj kvs => Json.mkObj [("o", arr (kvs.map fun kv => arr [str kv.1, jvalToJson kv.2]))]

partial def jvalOfJson (j : Json) : Except String Pdt.Json.JVal :=
  match j with
  | .null => pure .null
  | .bool b => pure (.bool b)
  | .str s => pure (.str s.toList)
  | .arr a => do pure (.arr (← a.toList.mapM jvalOfJson))
  | .obj _ =>
    match j.getObjVal? "i" with
    | .ok v => do pure (.int (← v.getInt?))
    | .error _ =>
    match j.getObjVal? "f" with
    | .ok v => do pure (.num (← v.getStr?).toList)
    | .error _ =>
    match j.getObjVal? "o" with
    | .ok v => do
      let kvs ← (← v.getArr?).toList.mapM fun p => do
        match (← p.getArr?).toList with
        | [k, x] => do pure ((← k.getStr?).toList, ← jvalOfJson x)
        | _ => throw "bad member"
      pure (.obj kvs)
    | .error _ => throw "bad jval object"
  | _ => throw "bad jval"

partial def pvalOfJson (j : Json) : Except String Pdt.Json.PVal :=
  match j with
  | .null => pure .none
  | .bool b => pure (.bool b)
  | .str s => pure (.str s.toList)
  | .obj _ =>
    match j.getObjVal? "i" with
    | .ok v => do pure (.int (← v.getInt?))
    | .error _ =>
    match j.getObjVal? "f" with
    | .ok v => do pure (.float (← v.getStr?).toList)
    | .error _ =>
    match j.getObjVal? "dt" with
    | .ok v => do pure (.datetime (← v.getStr?).toList)
    | .error _ =>
    match j.getObjVal? "list" with
    | .ok v => do pure (.list (← (← v.getArr?).toList.mapM pvalOfJson))
    | .error _ =>
    match j.getObjVal? "nd" with
    | .ok v => do pure (.ndarray (← (← v.getArr?).toList.mapM pvalOfJson))
    | .error _ =>
    match j.getObjVal? "f64" with
    | .ok v => do pure (.f64arr (← (← v.getArr?).toList.mapM fun x => do pure (← x.getStr?).toList))
    | .error _ =>
    match j.getObjVal? "np" with
    | .ok v => do pure (.npscalar (← pvalOfJson v))
    | .error _ =>
    match j.getObjVal? "dict" with
    | .ok v => do
      let kvs ← (← v.getArr?).toList.mapM fun p => do
        match (← p.getArr?).toList with
        | [k, x] => do pure ((← k.getStr?).toList, ← pvalOfJson x)
        | _ => throw "bad member"
      pure (.dict kvs)
    | .error _ =>
    match j.getObjVal? "k" with
    | .ok (.str "na") => pure .na
    | .ok (.str "npscalar") => throw "npscalar without item"
    | .ok (.str "other") => pure .other
    | _ => throw "bad pval object"
  | _ => throw "bad pval"

def jsValOfJson (j : Json) : Except String Val :=
  match j with
  | .str s => pure (.text s.toList)
  | .bool b => pure (.bool b)
  | .obj _ =>
    match j.getObjVal? "f" with
    | .ok v => do pure (.num (← v.getStr?).toList)
    | .error _ =>
    match j.getObjVal? "i" with
    | .ok v => do pure (.int (← v.getInt?))
    | .error _ =>
    match j.getObjVal? "d" with
    | .ok v => do pure (.dt (← v.getStr?).toList)
    | .error _ => throw "bad val object"
  | _ => throw "bad val"

def jsTableValOfJson (j : Json) : Except String TableVal := do
  let name ← getStr j "name"
  let dests ← (← getArr j "destinations").mapM fun d => do pure (← d.getStr?).toList
  let transposed ← getBool j "transposed"
  let cols ← (← getArr j "columns").mapM fun c => do
    let vals ← (← getArr c "values").mapM jsValOfJson
    pure (⟨← getStr c "name", ← getStr c "unit", vals⟩ : Column)
  pure ⟨name, dests, transposed, cols⟩

/-- `repr(float(i))` from the oracle table on the line; a lookup miss is loud -/
def fiOfJson (j : Json) : Except String (Int → Str) := do
  let tbl ← objPairs (j.getObjValD "ints")
  pure fun i =>
    match tbl.lookup (toString i) with
    | some (.str t) => t.toList
    | _ => "ORACLE-MISS".toList

def excOrJVal (r : Except PyExc Pdt.Json.JVal) : Json :=
  match r with
  | .ok v => Json.mkObj [("ok", jvalToJson v)]
  | .error e => exc (excName e)

def blockValToJsonJ : BlockVal → Json
  | .json p => Json.mkObj [("jsondata", excOrJVal (Pdt.Json.ofPrecursor p))]
  | v => blockValToJson v

/-- numeral values from the oracle tables on the line (`int(text)` as a JSON number, `repr(float(text))`); a lookup
    miss is loud -/
def codecOfJson (j : Json) : Except String Pdt.JsonText.NumCodec := do
  let ints ← objPairs (j.getObjValD "ints")
  let floats ← objPairs (j.getObjValD "floats")
  pure ⟨fun s => match ints.lookup (String.ofList s) with
          | some v => match v.getInt? with | .ok i => i | .error _ => -424242424242
          | none => -424242424242,
        fun s => match floats.lookup (String.ofList s) with
          | some (.str t) => t.toList
          | _ => "ORACLE-MISS".toList⟩

end Drv.JsonOps

namespace Drv
open Drv.JsonOps

def handleJson (op : String) (j : Json) : Option (Except String Json) :=
  match op with
  | "to_json" => some do
    let v ← pvalOfJson (← j.getObjVal? "v")
    pure (excOrJVal (Pdt.Json.toJsonSerializable v))
  | "json_of_precursor" => some do
    let cells ← rowsOfJson (← j.getObjVal? "cells")
    let ext ← extOfJson (← j.getObjVal? "ext")
    let f ← fixerOfJson (← j.getObjVal? "fixer")
    match makePrecursor ext cells f with
    | .ok (p, _) => pure (excOrJVal (Pdt.Json.ofPrecursor p))
    | .error e => pure (exc (excName e))
  | "json_of_table" => some do
    let t ← jsTableValOfJson (← j.getObjVal? "table")
    pure (excOrJVal (Pdt.Json.ofTable t))
  | "json_of_table_obs" => some do
    -- columns carry the observed elements of `list(df[col])` as PVal
    let t ← j.getObjVal? "table"
    let name ← getStr t "name"
    let dests ← (← getArr t "destinations").mapM fun d => do pure (← d.getStr?).toList
    let cols ← (← getArr t "columns").mapM fun c => do
      let vals ← (← getArr c "values").mapM pvalOfJson
      pure ((← getStr c "name"), (← getStr c "unit"), vals)
    pure (excOrJVal (Pdt.Json.toJsonSerializable (Pdt.Json.tablePValObs name dests cols)))
  | "json_of_precursor_obs" => some do
    -- columns carry the observed numpy array (or list) of the real precursor as PVal; zip(names, units) as the code does
    let t ← j.getObjVal? "precursor"
    let name ← getStr t "name"
    let dests ← (← getArr t "destinations").mapM fun d => do pure (← d.getStr?).toList
    let names ← (← getArr t "names").mapM fun d => do pure (← d.getStr?).toList
    let units ← (← getArr t "units").mapM fun d => do pure (← d.getStr?).toList
    let vals ← (← getArr t "columns").mapM pvalOfJson
    pure (excOrJVal (Pdt.Json.toJsonSerializable
      (Pdt.Json.precursorPValObs name (names.zip (units.zip vals)) dests)))
  | "json_dumps" => some do
    let v ← jvalOfJson (← j.getObjVal? "j")
    pure (Json.mkObj [("text", str (Pdt.JsonText.dumps v))])
  | "json_loads" => some do
    let text ← getStr j "text"
    let cd ← codecOfJson j
    match Pdt.JsonText.loads cd text with
    | some v => pure (Json.mkObj [("ok", jvalToJson v)])
    | none => pure (Json.mkObj [("reject", Json.bool true)])
  | "json_to_grid" => some do
    let v ← jvalOfJson (← j.getObjVal? "j")
    let fi ← fiOfJson j
    match Pdt.Json.toGrid fi v with
    | .ok g => pure (Json.mkObj [("ok", arr (g.map rowToJson))])
    | .error e => pure (exc (excName e))
  | "json_to_table" => some do
    let v ← jvalOfJson (← j.getObjVal? "j")
    let fi ← fiOfJson j
    let ext ← extOfJson (← j.getObjVal? "ext")
    match Pdt.Json.toTable ext fi v with
    | .ok p => pure (Json.mkObj [("ok", precursorJson p)])
    | .error e => pure (exc (excName e))
  | "dumps_ok" => some do
    let v ← jvalOfJson (← j.getObjVal? "j")
    pure (Json.bool (Pdt.Json.dumpsStrictOk v))
  | "parse_blocks_json" => some do
    -- `to` travels as text and is looked up by the model (`formOf`); an unknown one is answered as the exception
    let rows ← rowsOfJson (← j.getObjVal? "rows")
    let to ← getStr j "to"
    let cfg ← configOfJson (j.setObjVal! "to" (Json.str "pdtable"))
    let f ← fixerOfJson (← j.getObjVal? "fixer")
    match Pdt.Json.parseBlocksStr cfg to rows f with
    | .rejected e => pure (exc (excName e))
    | .running r =>
    pure (Json.mkObj [
      ("blocks", arr (r.blocks.map fun d =>
        Json.mkObj [("ty", Json.str (btString d.ty)), ("first", nat d.first), ("val", blockValToJsonJ d.val)])),
      ("issues", arr (r.issues.map nat)),
      ("ending", endingToJson r.ending)])
  | _ => none

end Drv
