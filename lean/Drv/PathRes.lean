import Drv.Base
import PdtModel.Model.PathRes
open Lean Pdt Pdt.PathRes
namespace Drv

namespace PR

def errName : Err → String
  | .loadError => "LoadError"
  | .inputError => "InputError"
  | .runtimeError => "RuntimeError"
  | .fileNotFound => "FileNotFoundError"
  | .valueError => "ValueError"
  | .typeError => "TypeError"

def absStr (p : Segs) : Json := str (render ⟨1, p⟩)

def optStr (j : Json) (k : String) : Except String (Option Str) := do
  match j.getObjVal? k with
  | .error _ => pure none
  | .ok .null => pure none
  | .ok v => do let s ← v.getStr?; pure (some s.toList)

def pathOfJson (v : Json) : Except String Segs := do
  let s ← v.getStr?
  pure (parsePath s.toList).segs

def fsOfJson (j : Json) : Except String FS := do
  let ls ← getArr j "links"
  let links ← ls.mapM (fun kv => do
    let a ← kv.getArr?
    match a.toList with
    | [p, t] => do
      let ps ← pathOfJson p
      let ts ← t.getStr?
      pure (ps, parsePath ts.toList)
    | _ => throw "bad link")
  let cwd ← getStr j "cwd"
  let fuel ← getNat j "fuel"
  pure ⟨links, (parsePath cwd).segs, fuel⟩

def cfgOfJson (j : Json) : Except String Cfg := do
  let root ← optStr j "root"
  let proto ← match (← optStr j "proto") with
    | some p => pure p
    | none => pure defaultProto
  let raises ← match j.getObjVal? "tracker_raises" with
    | .ok v => v.getBool?
    | .error _ => pure false
  pure ⟨root.map parsePath, proto, raises⟩

def pathList (j : Json) (k : String) : Except String (List Segs) := do
  match j.getObjVal? k with
  | .error _ => pure []
  | .ok v => do let a ← v.getArr?; a.toList.mapM pathOfJson

def resolverOfJson (fs : FS) (j : Json) : Except String Resolver := do
  match j.getObjVal? "resolver" with
  | .ok (.str "spec") => pure fs.resolve
  | .ok (.str "py312") => pure fs.py312Resolve
  | .error _ => pure fs.py312Resolve
  | _ => throw "bad resolver"

def worldOfJson (R : Resolver) (j : Json) : Except String World := do
  let dirs ← pathList j "dirs"
  let files ← pathList j "files"
  let unsup ← pathList j "unsupported"
  let es ← getArr j "entries"
  let entries ← es.mapM (fun kv => do
    let a ← kv.getArr?
    match a.toList with
    | [p, ns] => do
      let ps ← pathOfJson p
      let names ← ns.getArr?
      let names ← names.toList.mapM (fun n => do let s ← n.getStr?; pure s.toList)
      pure (ps, names)
    | _ => throw "bad entries")
  let kind := fun (p : Segs) =>
    if dirs.contains p then Kind.dir
    else if files.contains p then Kind.file
    else if unsup.contains p then Kind.unsupported
    else Kind.missing
  let ent := fun (p : Segs) =>
    match entries.find? (fun kv => kv.1 == p) with
    | some kv => kv.2
    | none => []
  pure ⟨R, kind, ent⟩

def evToJson : Ev → Json
  | .resolve p => arr [Json.str "resolve", str (render p)]
  | .check p ok => arr [Json.str "check", absStr p, Json.bool ok]
  | .report => arr [Json.str "report"]
  | .stat p => arr [Json.str "stat", absStr p]
  | .listdir p => arr [Json.str "listdir", absStr p]
  | .open p => arr [Json.str "open", absStr p]

def pathJson (p : PPath) : Json :=
  Json.mkObj [("anchor", nat p.anchor), ("segs", arr (p.segs.map str)), ("str", str (render p)),
              ("abs", Json.bool p.isAbsolute)]

end PR

open PR in
def handlePathRes (op : String) (j : Json) : Option (Except String Json) :=
  match op with
  | "pathres_parse" => some do
    let s ← getStr j "s"
    pure (pathJson (parsePath s))
  | "pathres_join" => some do
    let a ← getStr j "a"
    let b ← getStr j "b"
    pure (pathJson (join (parsePath a) (parsePath b)))
  | "pathres_relative_to" => some do
    let a ← getStr j "p"
    let b ← getStr j "root"
    pure (Json.bool (relativeTo (parsePath a) (parsePath b)))
  | "pathres_realpath" => some do
    let fs ← fsOfJson (← j.getObjVal? "fs")
    let p ← getStr j "p"
    let one := fun (r : Except Err Segs) => match r with
      | .ok r => absStr r
      | .error e => exc (errName e)
    pure (Json.mkObj [("spec", one (fs.resolve (parsePath p))), ("py312", one (fs.py312Resolve (parsePath p)))])
  | "pathres_resolve_item" => some do
    let fs ← fsOfJson (← j.getObjVal? "fs")
    let cfg ← cfgOfJson j
    let spec ← getStr j "spec"
    let src ← optStr j "src"
    let R ← resolverOfJson fs j
    let (tr, r) := resolveLoadItem cfg R spec (src.map parsePath)
    let res := match r with
      | .ok p => Json.mkObj [("ok", absStr p)]
      | .error e => exc (errName e)
    pure (Json.mkObj [("res", res), ("trace", arr (tr.map evToJson))])
  | "pathres_load" => some do
    let fs ← fsOfJson (← j.getObjVal? "fs")
    let cfg ← cfgOfJson j
    let R ← resolverOfJson fs j
    let w ← worldOfJson R (← j.getObjVal? "world")
    let fuel ← getNat j "loop_fuel"
    let roots ← match j.getObjVal? "roots" with
      | .ok .null => pure none
      | .error _ => pure none
      | .ok v => do
        let a ← v.getArr?
        let rs ← a.toList.mapM (fun n => do let s ← n.getStr?; pure s.toList)
        pure (some rs)
    let (allEv, allErr, allDone) := match initialItems cfg roots with
      | some items => runAll cfg w fuel items []
      | none => ([], [Err.typeError], true)
    let (tr, e) := loadFiles cfg w fuel roots
    let endJ := match e with
      | .done => Json.str "done"
      | .outOfFuel => Json.str "out-of-fuel"
      | .aborted err => exc (errName err)
    pure (Json.mkObj [("end", endJ), ("trace", arr (tr.map evToJson)),
      ("all_trace", arr (allEv.map evToJson)), ("all_errors", arr (allErr.map (fun x => Json.str (errName x)))),
      ("all_complete", Json.bool allDone)])
  | _ => none

end Drv
