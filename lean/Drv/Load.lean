import Drv.Base
open Lean Pdt
namespace Drv

/-- op handler of the `Load` layer (stub until the layer is built) -/
def handleLoad (_op : String) (_j : Json) : Option (Except String Json) := none

end Drv
