import Drv.Base
import PdtModel.Model.Load
open Lean Pdt Pdt.Load
namespace Drv.Ld

/-! JSON codec of the `Load` layer.

  op "load":  {"nodes": [{"loc": n, "kind": "folder", "children": [[name, matches], …]}
                        | {"loc": n, "kind": "file", "sheets": [{"name": null|str, "use": bool, "rows": [[cell…]…]}…]}
                        | {"loc": n, "kind": "unreadable"}],
               "protocols": null | [[name, loaderNo], …],
               "resolve": [[loaderNo, spec, srcLoc|null, loc|null], …],
               "roots": [spec…], "raising": bool, "allow_include": bool, "order": "lifo"|"fifo"}
  The resolution table must cover every (loader, specification, source) the run can ask for — that is checked
  before the run and answered with a protocol error otherwise (no default value is ever made up).
-/

def excName : Exc → String
  | .loadError => "LoadError"
  | .inputError => "InputError"
  | .fileNotFound => "FileNotFoundError"
  | .valueError => "ValueError"

def optNat : Option Nat → Json
  | none => Json.null
  | some n => nat n

def optStr : Option Str → Json
  | none => Json.null
  | some s => str s

def getOptNat (j : Json) : Except String (Option Nat) :=
  match j with
  | .null => pure none
  | _ => do let n ← j.getNat?; pure (some n)

def getOptStr (j : Json) : Except String (Option Str) :=
  match j with
  | .null => pure none
  | _ => do let s ← j.getStr?; pure (some s.toList)

def sheetOfJson (j : Json) : Except String Sheet := do
  let name ← getOptStr (← j.getObjVal? "name")
  let use ← getBool j "use"
  let rows ← rowsOfJson (← j.getObjVal? "rows")
  -- origin rows of the tables whose handler raises ValueError (observed by the harness with the real parser)
  let bad ← match j.getObjVal? "bad_rows" with
    | .ok v => do let a ← v.getArr?; a.toList.mapM (·.getNat?)
    | .error _ => pure []
  pure (Sheet.ofRowsBad name use rows bad)

def nodeOfJson (j : Json) : Except String (Loc × Node) := do
  let loc ← getNat j "loc"
  let kind ← (← j.getObjVal? "kind").getStr?
  match kind with
  | "folder" => do
    let ch ← (← getArr j "children").mapM fun c => do
      let a ← c.getArr?
      match a.toList with
      | [n, m] => do pure ((← n.getStr?).toList, (← m.getBool?))
      | _ => throw "bad child"
    pure (loc, .folder ch)
  | "file" => do
    let sh ← (← getArr j "sheets").mapM sheetOfJson
    pure (loc, .file sh)
  | "unreadable" => pure (loc, .unreadable)
  | _ => throw s!"unknown node kind {kind}"

abbrev ResTab := List ((Nat × Str × Option Loc) × Option Loc)

def resRowOfJson (j : Json) : Except String ((Nat × Str × Option Loc) × Option Loc) := do
  let a ← j.getArr?
  match a.toList with
  | [h, s, src, r] => do
    pure ((← h.getNat?, (← s.getStr?).toList, ← getOptNat src), ← getOptNat r)
  | _ => throw "bad resolve row"

def resLookup (t : ResTab) (h : Nat) (s : Str) (src : Option Loc) : Option (Option Loc) :=
  match t with
  | [] => none
  | (k, v) :: rest => if k = (h, s, src) then some v else resLookup rest h s src

def worldOfJson (j : Json) : Except String (World × ResTab) := do
  let nodes ← (← getArr j "nodes").mapM nodeOfJson
  let protocols ← match (← j.getObjVal? "protocols") with
    | .null => pure none
    | p => do
      let a ← p.getArr?
      let l ← a.toList.mapM fun e => do
        let x ← e.getArr?
        match x.toList with
        | [n, h] => do pure ((← n.getStr?).toList, (← h.getNat?))
        | _ => throw "bad protocol entry"
      pure (some l)
  let tab ← (← getArr j "resolve").mapM resRowOfJson
  -- optional: [[folderLoc, entryName, loc], …] — the entries of the listed folders themselves
  let childTab ← match j.getObjVal? "child_loc" with
    | .ok v => do
      let a ← v.getArr?
      a.toList.mapM fun e => do
        let x ← e.getArr?
        match x.toList with
        | [l, n, r] => do pure ((← l.getNat?, (← n.getStr?).toList), ← r.getNat?)
        | _ => throw "bad child_loc row"
    | .error _ => pure []
  let w : World := { nodes := nodes, protocols := protocols,
                     resolve := fun h s src => (resLookup tab h s src).getD none,
                     childLoc := fun l n => (childTab.find? (fun e => e.1 == (l, n))).map (·.2) }
  pure (w, tab)

/-- every question the run can put to the resolution table -/
def demands (w : World) (allow : Bool) (roots : List Str) : List (Str × Option Loc) :=
  roots.map (fun s => (s, none)) ++
  w.nodes.flatMap (fun p => (nodePushes allow p.1 (.root []) p.2).map (fun it => (it.spec, it.srcLoc)))

def checkTable (w : World) (tab : ResTab) (allow : Bool) (roots : List Str) : Except String Unit :=
  (demands w allow roots).forM fun d =>
    match resLookup tab (handlerFor w d.1) d.1 d.2 with
    | some _ => pure ()
    | none => throw s!"resolution table has no entry for loader {handlerFor w d.1} spec {String.ofList d.1} source {d.2}"

def btName : BT → String
  | .directive => "DIRECTIVE"
  | .table => "TABLE"
  | .template => "TEMPLATE_ROW"
  | .metadata => "METADATA"
  | .blank => "BLANK"

def anchorToJson (a : Anchor) : Json :=
  arr [nat a.loc, match a.pos with
    | none => Json.null
    | some (sh, r) => arr [optStr sh, nat r]]

def historyToJson (it : Item) : Json :=
  arr (it.history.map fun (s, a) => arr [str s, match a with | none => Json.null | some a => anchorToJson a])

def outToJson (o : Out) : Json :=
  Json.mkObj [("loc", nat o.loc), ("sheet", optStr o.sheet), ("row", nat o.blk.row),
              ("ty", btName o.blk.ty), ("name", str o.blk.name),
              ("lines", arr (o.blk.lines.map str)), ("history", historyToJson o.item)]

def issueToJson : Issue → Json
  | .dup l it => arr ["dup", nat l, str it.spec, optNat it.srcLoc]
  | .resolveFail it => arr ["resolve", str it.spec, optNat it.srcLoc]
  | .parse l sh r => arr ["parse", nat l, optStr sh, nat r]

def statusToJson : Status → Json
  | .running => "running"
  | .done => "done"
  | .outOfFuel => "outOfFuel"
  | .raised e => exc (excName e)

def cfgOfJson (j : Json) : Except String Cfg := do
  let raising ← getBool j "raising"
  let allow ← getBool j "allow_include"
  let order ← (← j.getObjVal? "order").getStr?
  let pick ← match order with
    | "lifo" => pure pickLast
    | "fifo" => pure pickFirst
    | _ => throw s!"unknown order {order}"
  pure ⟨raising, allow, pick⟩


/-! op "location_trees": {"tables": [{"loc": n, "sheet": null|str, "row": n,
                                      "history": [[spec, null | [loc, null | [sheet|null, row]]], …]}, …]}
    answers the forest: [{"key": [loc, null | [sheetKey, row]], "children": [{"leaf": i} | node, …]}, …] -/

def anchorOfJson (j : Json) : Except String Anchor := do
  let a ← j.getArr?
  match a.toList with
  | [l, p] => do
    let loc ← l.getNat?
    match p with
    | .null => pure ⟨loc, none⟩
    | _ => do
      let q ← p.getArr?
      match q.toList with
      | [sh, r] => do pure ⟨loc, some (← getOptStr sh, ← r.getNat?)⟩
      | _ => throw "bad anchor position"
  | _ => throw "bad anchor"

def itemOfHistory : List Json → Except String Item
  | [] => throw "empty history"
  | [j] => do
    let a ← j.getArr?
    match a.toList with
    | [s, .null] => do pure (.root (← s.getStr?).toList)
    | _ => throw "history does not end at a root"
  | j :: rest => do
    let a ← j.getArr?
    match a.toList with
    | [s, src] => do
      let anchor ← anchorOfJson src
      let parent ← itemOfHistory rest
      pure (.inc (← s.getStr?).toList anchor parent)
    | _ => throw "bad history step"

def originOfJson (j : Json) : Except String Out := do
  let loc ← getNat j "loc"
  let sheet ← getOptStr (← j.getObjVal? "sheet")
  let row ← getNat j "row"
  let item ← itemOfHistory (← getArr j "history")
  pure ⟨loc, sheet, ⟨.table, row, [], [], false⟩, item⟩

def keyToJson (k : Key) : Json :=
  arr [nat k.loc, match k.pos with
    | none => Json.null
    | some (sh, r) => arr [str sh, nat r]]

def renderNode (buf : Buf) : Nat → Key → Json
  | 0, k => Json.mkObj [("key", keyToJson k), ("children", "DEPTH-EXCEEDED")]
  | fuel + 1, k =>
    match buf.find? (fun n => n.key == k) with
    | none => Json.mkObj [("key", keyToJson k), ("children", "MISSING-NODE")]
    | some n => Json.mkObj [("key", keyToJson k), ("children", arr (n.children.map fun c =>
        match c with
        | .leaf i => Json.mkObj [("leaf", nat i)]
        | .node k' => renderNode buf fuel k'))]

end Drv.Ld

namespace Drv
open Drv.Ld

def handleLoad (op : String) (j : Json) : Option (Except String Json) :=
  match op with
  | "load" => some do
    let (w, tab) ← worldOfJson j
    let cfg ← cfgOfJson j
    let roots ← (← getArr j "roots").mapM fun r => do pure (← r.getStr?).toList
    checkTable w tab cfg.allowInclude roots
    -- make_loader's argument check: [file_name_pattern given, file_name_start_pattern given]
    let argsOk ← match j.getObjVal? "pattern_args" with
      | .ok v => do
        let a ← v.getArr?
        match a.toList with
        | [p, q] => do pure (loaderArgsOk (← p.getBool?) (← q.getBool?))
        | _ => throw "bad pattern_args"
      | .error _ => pure true
    let (st, status) := if argsOk then loadFiles w cfg roots
      else (⟨roots.map Item.root, [], [], []⟩, Status.raised Exc.valueError)
    pure (Json.mkObj [("status", statusToJson status),
                      ("out", arr (st.out.map outToJson)),
                      ("visited", arr (st.visited.map nat)),
                      ("issues", arr (st.issues.map issueToJson)),
                      ("pending", nat st.stack.length),
                      ("fuel", nat (fuelBound w cfg.raising cfg.allowInclude roots))])
  | "dispatch" => some do
    let add ← (← getArr j "additional").mapM fun e => do
      let x ← e.getArr?
      match x.toList with
      | [n, h] => do pure ((← n.getStr?).toList, (← h.getNat?))
      | _ => throw "bad protocol entry"
    let spec ← getStr j "spec"
    pure (nat (dispatch (handlersOf add) spec))
  | "location_trees" => some do
    let ts ← (← getArr j "tables").mapM originOfJson
    let buf := makeLocationTrees ts
    pure (arr ((treeRoots buf).map fun n => renderNode buf (buf.length + 1) n.key))
  | "sheet_blocks" => some do
    let rows ← rowsOfJson (← j.getObjVal? "rows")
    pure (arr ((Sheet.ofRows none true rows).blocks.map fun b =>
      Json.mkObj [("ty", btName b.ty), ("row", nat b.row), ("name", str b.name),
                  ("lines", arr (b.lines.map str))]))
  | _ => none

end Drv
