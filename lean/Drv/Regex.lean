/-
  Drv/Regex.lean — driver ops over the regex engine model (Model/Regex.lean).
    re_parse_ok    {pattern}                                  -> bool
    re_match       {pattern, string[, digits, words]}         -> [[a,b] | null, …] | null | {"parse_error": msg}
    re_search      (same)
    re_many        {pattern, strings, search[, digits, words]} -> one such answer per string (pattern parsed once)
    re_vs_classify {pattern, alphabet, maxlen, limit[, strings]}
                   -> strings (the given ones first, then every string over the alphabet by length) on which the
                      dispatch of parse_blocks_stable over the pattern's match differs from the hand model `classify`
  `digits` / `words`: the characters of `string` that CPython counts as `\d` / `\w` (observed by the harness);
  absent: the ASCII tables.
-/
import Drv.Base
import PdtModel.Model.Regex
open Lean Pdt Pdt.Regex
namespace Drv

def tablesOf (j : Json) : Except String Tables := do
  match j.getObjVal? "digits", j.getObjVal? "words" with
  | .ok d, .ok w =>
    let ds := (← d.getStr?).toList
    let ws := (← w.getStr?).toList
    pure ⟨fun c => ds.contains c, fun c => ws.contains c⟩
  | _, _ => pure asciiTables

def capsToJson : Option Caps → Json
  | none => Json.null
  | some caps => arr (caps.map fun
    | none => Json.null
    | some (a, b) => arr [nat a, nat b])

def dispatchToJson : Dispatch → Json
  | .noMatch => Json.null
  | .dropped => "dropped"
  | .marker .table => "table"
  | .marker .directive => "directive"
  | .marker .template => "template"
  | .marker .metadata => "metadata"

/-- all strings of exactly length `n` over the alphabet -/
def stringsOfLen (alpha : List Char) : Nat → List Str
  | 0 => [[]]
  | n + 1 => (stringsOfLen alpha n).flatMap fun s => alpha.map fun c => c :: s

def handleRegex (op : String) (j : Json) : Option (Except String Json) :=
  match op with
  | "re_parse_ok" => some do
    let p ← getStr j "pattern"
    pure (Json.bool (Re.parse p).isSome)
  | "re_match" => some do
    let p ← getStr j "pattern"
    let s ← getStr j "string"
    let T ← tablesOf j
    match Re.parseE p with
    | .error e => pure (Json.mkObj [("parse_error", Json.str e)])
    | .ok r => pure (capsToJson (pyMatch T r s))
  | "re_search" => some do
    let p ← getStr j "pattern"
    let s ← getStr j "string"
    let T ← tablesOf j
    match Re.parseE p with
    | .error e => pure (Json.mkObj [("parse_error", Json.str e)])
    | .ok r => pure (capsToJson (pySearch T r s))
  | "re_many" => some do
    -- {pattern, strings, search: bool}: one answer per string, the pattern parsed once
    let p ← getStr j "pattern"
    let search ← getBool j "search"
    let T ← tablesOf j
    let ss ← (← getArr j "strings").mapM fun x => do let s ← x.getStr?; pure s.toList
    match Re.parseE p with
    | .error e => pure (Json.mkObj [("parse_error", Json.str e)])
    | .ok r => pure (arr (ss.map fun s => capsToJson (if search then pySearch T r s else pyMatch T r s)))
  | "re_vs_classify" => some do
    let p ← getStr j "pattern"
    let alpha ← getStr j "alphabet"
    let maxlen ← getNat j "maxlen"
    let limit ← getNat j "limit"
    let given ← match j.getObjVal? "strings" with
      | .ok v => do let a ← v.getArr?; a.toList.mapM fun x => do let s ← x.getStr?; pure s.toList
      | .error _ => pure []
    match Re.parseE p with
    | .error e => pure (Json.mkObj [("parse_error", Json.str e)])
    | .ok r =>
      let differs (s : Str) : Bool := dispatch s (pyMatch asciiTables r s) != Dispatch.ofClassify (classify s)
      let cands := given ++ (List.range (maxlen + 1)).flatMap (stringsOfLen alpha)
      let hits := (cands.filter differs).take limit
      pure (arr (hits.map fun s => Json.mkObj [("s", str s),
        ("regex", dispatchToJson (dispatch s (pyMatch asciiTables r s))),
        ("classify", dispatchToJson (Dispatch.ofClassify (classify s)))]))
  | _ => none

end Drv
