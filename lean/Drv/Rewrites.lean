import Drv.Base
import Drv.Blocks
import PdtModel.Model.Blocks
open Lean Pdt Pdt.Reader Pdt.Blocks
namespace Drv

/-- op handler of the `Rewrites` layer.
    "offered": the (type, name) pairs `accepts` hands to a read filter, one per block of the segmentation -/
def handleRewrites (op : String) (j : Json) : Option (Except String Json) :=
  match op with
  | "offered" => some do
    let rows ← rowsOfJson (← j.getObjVal? "rows")
    pure (arr ((segment rows).map fun b =>
      arr [Json.str (btString b.ty), str (if b.ty = .table then offeredName b.rows else []), nat b.first]))
  | _ => none

end Drv
