import Drv.Base
open Lean Pdt
namespace Drv

/-- op handler of the `Rewrites` layer (stub until the layer is built) -/
def handleRewrites (_op : String) (_j : Json) : Option (Except String Json) := none

end Drv
