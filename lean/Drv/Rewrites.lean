import Drv.Base
import Drv.Blocks
import PdtModel.Model.Blocks
import PdtModel.Model.Rewrites
open Lean Pdt Pdt.Reader Pdt.Blocks Pdt.Rewrites
namespace Drv

def tcolOfJson (j : Json) : Except String TCol := do
  pure ⟨← getStr j "name", ← getStr j "unit", ← rowOfJson (← j.getObjVal? "cells")⟩

def tvOfJson (j : Json) : Except String TV := do
  let cols ← (← getArr j "cols").mapM tcolOfJson
  pure ⟨← getStr j "name", ← cellOfJson (← j.getObjVal? "dest"), cols, ← getNat j "nrows"⟩

/-- `[[l, r], …]` ↦ position ↦ (blanks before, blanks after); positions beyond the list get none -/
def padFnOfJson (j : Json) : Except String (Nat → Str × Str) := do
  let ps ← (← j.getArr?).toList.mapM fun p => do
    match (← p.getArr?).toList with
    | [l, r] => pure ((← l.getStr?).toList, (← r.getStr?).toList)
    | _ => throw "bad pad pair"
  pure fun k => ps.getD k ([], [])

def stepOfJson (j : Json) : Except String (List Row → List Row) := do
  let k ← (← j.getObjVal? "k").getStr?
  match k with
  | "transpose" => pure toTransposed
  | "pad_trailing" => do
    let pads ← (← getArr j "pads").mapM rowOfJson
    pure fun g => padTrailing g pads
  | "pad_header_r" => do
    let fn ← padFnOfJson (← j.getObjVal? "names")
    let fu ← padFnOfJson (← j.getObjVal? "units")
    pure (padHeaderR fn fu)
  | "pad_header_t" => do
    let fn ← padFnOfJson (← j.getObjVal? "names")
    let fu ← padFnOfJson (← j.getObjVal? "units")
    pure (padHeaderT fn fu)
  | "comments" => do
    let b ← cellOfJson (← j.getObjVal? "blank")
    let cs ← rowOfJson (← j.getObjVal? "cells")
    pure (addComments b cs)
  | _ => throw s!"bad rewrite step {k}"

def endOfJson (j : Json) : Except String EndBy := do
  let by_ ← (← j.getObjVal? "by").getStr?
  match by_ with
  | "eof" => pure .eof
  | "blank" => pure (.blankLine (← rowOfJson (← j.getObjVal? "row")) (← rowsOfJson (← j.getObjVal? "rest")))
  | "next" => pure (.nextBlock (← rowOfJson (← j.getObjVal? "row")) (← rowsOfJson (← j.getObjVal? "rest")))
  | _ => throw s!"bad ending {by_}"

/-- op handler of the `Rewrites` layer.
    "offered": the (type, name, origin row) triples `accepts` hands to a read filter, one per block
    "rewrite": table value + layout + rewrite steps + ending ↦ the rewritten grid, the row stream, the
               well-formedness verdicts, and whether the splitter delivers the grid as one TABLE block -/
def handleRewrites (op : String) (j : Json) : Option (Except String Json) :=
  match op with
  | "offered" => some do
    let rows ← rowsOfJson (← j.getObjVal? "rows")
    pure (arr ((segment rows).map fun b =>
      arr [Json.str (btString b.ty), str (if b.ty = .table then offeredName b.rows else []), nat b.first]))
  | "rewrite" => some do
    let t ← tvOfJson (← j.getObjVal? "table")
    let lay ← (← j.getObjVal? "layout").getStr?
    let steps ← (← getArr j "steps").mapM stepOfJson
    let e ← endOfJson (← j.getObjVal? "end")
    let pre ← rowsOfJson (← j.getObjVal? "pre")
    let g0 := if lay = "T" then layoutT t else layoutR t
    let g := steps.foldl (fun g f => f g) g0
    let stream := pre ++ endBy g e
    let delivered := (segment stream).any fun b =>
      decide (b.ty = .table) && decide (b.first = pre.length) && decide (b.rows = g)
    pure (Json.mkObj [
      ("plain", arr ((layoutR t).map rowToJson)),
      ("grid", arr (g.map rowToJson)), ("stream", arr (stream.map rowToJson)),
      ("wf", Json.bool t.wf), ("wf0", Json.bool t.wf0), ("wfT", Json.bool t.wfT), ("block_shaped", Json.bool (blockShaped g)),
      ("end_ok", Json.bool e.ok), ("delivered", Json.bool delivered)])
  | _ => none

end Drv
