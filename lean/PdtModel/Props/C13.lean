/-
  Props/C13.lean — "Every repaired defect is counted and reported; nothing else is altered".

  Theorems about the executable reader model (Model/Reader.lean `finish` / `makePrecursor`, Model/Blocks.lean
  `runBlocks` / `parseBlocks`), for every layout, every external `float()` / `to_datetime` behaviour `ext` and
  every fixer configuration.

  The core result is a *closed form* of the fixer-dependent part of the reader (`core_closed`):

      finish = (values as a function of the layout and the fixer's replacement values only)
               × (fixer counters / messages grown by exactly the defects: E errors, W warnings, messages M)
               followed by `report()` (fail iff counters > 0 and stop_on_errors)

  from which the clauses of the property are read off:
    counts                 errors = #names already taken + #short rows, warnings = #illegal cells (fillers included)
    lenient_shape          same number of names, one column per name, every parsed column as long as the value rows
    lenient_values         every column is `C02.Spec.typeColumn` (cell-wise: own value, or the replacement) of the raw
                           column where cut-off cells are the filler text "NaN"
    filler_values_partial  what the filler parses to per unit (row-wise short rows; transposed short lines: finding F5)
    names_unique           the repaired names are pairwise different (every header; pigeonhole over the candidates)
    strict_fails_iff_defect, strict_failure_is_report_or_typing, strict_failure_messages   strict read = lenient read + "fail iff something was counted";
                           one message per counted defect, naming it
    isolation              blocks, issues and ending of a stream depend on the fixer's configuration only, not on
                           the counters / messages left by earlier blocks
-/
import PdtModel.Props.C02
import PdtModel.Model.Blocks
set_option linter.unusedSimpArgs false
set_option linter.unusedVariables false
namespace Pdt.C13
open Pdt Pdt.Reader Pdt.Blocks Pdt.C02

/-! ## 0. constants translated from fixer.py, pinned -/

/-- the stock replacements: False / NaT / NaN (the translator sorts the dict literal's entries by key) -/
theorem fixer_defaults_pinned :
    Gen.fixerDefaults = [("-", "np.nan"), ("datetime", "pd.NaT"), ("float", "np.nan"), ("onoff", "False")] := by
  decide

theorem stock_cfg_pinned :
    FixCfg.strict = ⟨true, "nan".toList, false, "NaT".toList⟩ ∧
    FixCfg.lenient = ⟨false, "nan".toList, false, "NaT".toList⟩ := ⟨rfl, rfl⟩

/-! ## 1. declarative vocabulary (written from the property text) -/

namespace Spec

/-- the filler text a cut-off cell is given -/
def filler : Cell := .str "NaN".toList

/-- a value row is short when it has fewer cells than there are column names -/
def isShort (n : Nat) (r : Row) : Bool := decide (r.length < n)

def shortCount (rows0 : List Row) (n : Nat) : Nat := rows0.countP (isShort n)

/-- the raw cells of column `j` as the column parser sees them: the cell of the row where the row reaches that
    far, the filler text otherwise -/
def columnCells (rows0 : List Row) (j : Nat) : List Cell := rows0.map (fun r => r.getD j filler)

/-- is this raw cell illegal for a column with unit `u` (text: never) -/
def illegal (ext : Ext) (u : Str) (c : Cell) : Bool :=
  if u = uText then false
  else if u = uOnoff then (C02.Spec.onoff c).isNone
  else if u = uDatetime then dtIsFix ext c
  else (floatCell ext c).isNone

def illegalCount (ext : Ext) (u : Str) (cells : List Cell) : Nat := cells.countP (illegal ext u)

/-- the `vtype` the fixer is told for a unit -/
def vtype (u : Str) : Str :=
  if u = uOnoff then "onoff".toList else if u = uDatetime then "datetime".toList else "float".toList

/-- number of names that were already taken by a (repaired) name to their left -/
def takenCount (seen : List Str) : List Str → List Str → Nat
  | n :: ns, o :: os => (if n ∈ seen then 1 else 0) + takenCount (seen ++ [o]) ns os
  | _, _ => 0

/-- the duplicate-name messages: name and position of every name already taken -/
def takenMsgs (seen : List Str) : List Str → List Str → Nat → List Msg
  | n :: ns, o :: os, i => (if n ∈ seen then [Msg.dup n i] else []) ++ takenMsgs (seen ++ [o]) ns os (i + 1)
  | _, _, _ => []

/-- the short-row messages: index of every short value row -/
def shortMsgs (n : Nat) : List Row → Nat → List Msg
  | [], _ => []
  | r :: rs, i => (if isShort n r then [Msg.missingRow i] else []) ++ shortMsgs n rs (i + 1)

/-- the text of a cell as the fixer is told it: a string normalised (numeric) or stripped (datetime), any other
    cell through `str()` -/
def valueText (u : Str) (c : Cell) : Str :=
  if u = uOnoff then onoffTxt c else if u = uDatetime then dtTxt c else floatTxt c

/-- the illegal-cell messages of one column: vtype and value text of every illegal cell, top to bottom -/
def columnMsgs (ext : Ext) (u : Str) (cells : List Cell) : List Msg :=
  (cells.filter (illegal ext u)).map (fun c => Msg.illegal (vtype u) (valueText u c))

/-- the illegal-cell messages of the parsed columns, column by column -/
def illegalMsgs (ext : Ext) : List Str → List (List Cell) → List Msg
  | u :: us, c :: cs => columnMsgs ext u c ++ illegalMsgs ext us cs
  | _, _ => []

def illegalTotal (ext : Ext) : List Str → List (List Cell) → Nat
  | u :: us, c :: cs => illegalCount ext u c + illegalTotal ext us cs
  | _, _ => 0

/-- the columns `zip(names, units, zip(*data_rows))` reaches, typed one by one; the first failing one decides -/
def typeColumns (ext : Ext) (cfg : FixCfg) : List Str → List (List Cell) → Except PyExc (List ColVals)
  | u :: us, c :: cs =>
    match C02.Spec.typeColumn ext cfg u c with
    | .error e => .error e
    | .ok v => (typeColumns ext cfg us cs).map (v :: ·)
  | _, _ => .ok []

end Spec

/-! ## 2. the fixer only grows: `bump` -/

/-- counters and messages grown by `e` errors, `w` warnings and the messages `m` -/
def bump (f : Fixer) (e w : Nat) (m : List Msg) : Fixer :=
  { f with errors := f.errors + e, warnings := f.warnings + w, msgs := f.msgs ++ m }

@[simp] theorem bump_zero (f : Fixer) : bump f 0 0 [] = f := by
  cases f; simp [bump]

@[simp] theorem bump_bump (f : Fixer) (e w e' w' : Nat) (m m' : List Msg) :
    bump (bump f e w m) e' w' m' = bump f (e + e') (w + w') (m ++ m') := by
  cases f; simp [bump, Nat.add_assoc]

@[simp] theorem bump_cfg (f : Fixer) (e w : Nat) (m : List Msg) : (bump f e w m).cfg = f.cfg := rfl

theorem illegal_eq_bump (f : Fixer) (vt : String) (x : Str) : f.illegal vt x = bump f 0 1 [.illegal vt.toList x] := by
  cases f; simp [bump, Fixer.illegal]

/-! ## 3. closed forms of the column parsers -/

theorem parseWith_closed {α : Type} (cellFn : Cell → Option α) (rep : FixCfg → α) (vt : String) (txt : Cell → Str)
    (cells : List Cell) (f : Fixer) :
    parseWith cellFn rep vt txt cells f =
      (cells.map (fun c => (cellFn c).getD (rep f.cfg)),
       bump f 0 (cells.countP (fun c => (cellFn c).isNone))
         ((cells.filter (fun c => (cellFn c).isNone)).map (fun c => Msg.illegal vt.toList (txt c)))) := by
  induction cells generalizing f with
  | nil => simp [parseWith]
  | cons c cs ih =>
    unfold parseWith
    cases hc : cellFn c with
    | some b => simp [ih f, List.countP_cons, List.filter_cons, hc]
    | none =>
      simp only [ih (f.illegal vt (txt c)), illegal_cfg]
      simp [illegal_eq_bump, List.countP_cons, List.filter_cons, hc, Nat.add_comm]

theorem parseDatetime_closed (ext : Ext) (cells : List Cell) (f : Fixer) :
    parseDatetime ext cells f =
      (dtValues ext f.cfg.repDt cells).map (fun v =>
        (v, bump f 0 (cells.countP (dtIsFix ext))
              ((cells.filter (dtIsFix ext)).map (fun c => Msg.illegal "datetime".toList (dtTxt c))))) := by
  induction cells generalizing f with
  | nil => simp [parseDatetime, dtValues, Except.map]
  | cons c cs ih =>
    unfold parseDatetime dtValues
    cases hc : dtCell ext c with
    | ok t =>
      simp only [ih f, bind, Except.bind, Except.map]
      cases dtValues ext f.cfg.repDt cs <;>
        simp [Except.map, pure, Except.pure, List.countP_cons, List.filter_cons, dtIsFix, hc]
    | fix =>
      simp only [ih (f.illegal "datetime" (dtTxt c)), illegal_cfg, bind, Except.bind, Except.map]
      cases dtValues ext f.cfg.repDt cs <;>
        simp [Except.map, pure, Except.pure, List.countP_cons, List.filter_cons, dtIsFix, hc, illegal_eq_bump,
          Nat.add_comm]
    | raises n => rfl

/-- **a column parser calls the fixer once per illegal cell and for nothing else**: `parse_column` is the
    declarative typing of the column (C02) and the fixer grown by one warning + one message per illegal cell -/
theorem parseColumn_closed (ext : Ext) (u : Str) (cells : List Cell) (f : Fixer) :
    parseColumn ext u cells f =
      (C02.Spec.typeColumn ext f.cfg u cells).map (fun v =>
        (v, bump f 0 (Spec.illegalCount ext u cells) (Spec.columnMsgs ext u cells))) := by
  unfold parseColumn C02.Spec.typeColumn Spec.illegalCount Spec.columnMsgs Spec.illegal Spec.vtype Spec.valueText
    parseOnoff parseFloat
  simp only [parseWith_closed, parseDatetime_closed, type_onoff_cell]
  unfold uText uOnoff uDatetime
  generalize "text".toList = T
  generalize "onoff".toList = O
  generalize "datetime".toList = D
  generalize "float".toList = F
  by_cases h1 : u = T
  · subst h1
    have hff : ∀ l : List Cell, l.filter (fun _ => false) = [] := by intro l; induction l <;> simp_all
    simp [Except.map, hff]
  · by_cases h2 : u = O
    · subst h2; simp [h1, Except.map]
    · by_cases h3 : u = D
      · subst h3
        simp only [h1, h2, if_true, if_false, bind, Except.bind, Except.map]
        cases dtValues ext f.cfg.repDt cells <;> simp [pure, Except.pure, h1, h2]
      · simp [h1, h2, h3, Except.map]

theorem parseColumns_closed (ext : Ext) (us : List Str) (cols : List Row) (f : Fixer) :
    parseColumns ext us cols f =
      (Spec.typeColumns ext f.cfg us cols).map (fun vs =>
        (vs, bump f 0 (Spec.illegalTotal ext us cols) (Spec.illegalMsgs ext us cols))) := by
  induction us generalizing cols f with
  | nil => simp [parseColumns, Spec.typeColumns, Spec.illegalTotal, Spec.illegalMsgs, Except.map]
  | cons u us ih =>
    cases cols with
    | nil => simp [parseColumns, Spec.typeColumns, Spec.illegalTotal, Spec.illegalMsgs, Except.map]
    | cons c cs =>
      simp only [parseColumns, Spec.typeColumns, Spec.illegalTotal, Spec.illegalMsgs, parseColumn_closed,
        bind, Except.bind]
      cases h1 : C02.Spec.typeColumn ext f.cfg u c with
      | error e => simp [Except.map]
      | ok v =>
        simp only [Except.map, ih, bump_cfg]
        cases Spec.typeColumns ext f.cfg us cs <;> simp [Except.map, pure, Except.pure]

/-! ## 4. closed forms of the two structural repairs -/

/-- names after `_fix_duplicate_column_names`, as a function of the names alone (no fixer state involved) -/
def renameFrom (seen : List Str) : List Str → List Str
  | [] => []
  | n :: ns =>
    (if seen.contains n then freeName n seen 0 (seen.length + 1) else n) ::
      renameFrom (seen ++ [if seen.contains n then freeName n seen 0 (seen.length + 1) else n]) ns

/-- the repaired column names of a header -/
def repairedNames (names0 : List Str) : List Str := renameFrom [] names0

theorem renameFrom_length (seen : List Str) (ns : List Str) : (renameFrom seen ns).length = ns.length := by
  induction ns generalizing seen with
  | nil => rfl
  | cons n ns ih => simp [renameFrom, ih]

theorem foldl_dupStep_closed (names : List Str) (seen : List Str) (f : Fixer) (i : Nat) :
    (names.zipIdx i).foldl dupStep (seen, f) =
      (seen ++ renameFrom seen names,
       bump f (Spec.takenCount seen names (renameFrom seen names)) 0
              (Spec.takenMsgs seen names (renameFrom seen names) i)) := by
  induction names generalizing seen f i with
  | nil => simp [renameFrom, Spec.takenCount, Spec.takenMsgs]
  | cons n ns ih =>
    simp only [List.zipIdx_cons, List.foldl_cons, renameFrom, Spec.takenCount, Spec.takenMsgs]
    by_cases hc : seen.contains n = true
    · have hm : n ∈ seen := List.contains_iff_mem.1 hc
      have hd : dupStep (seen, f) (n, i) = (seen ++ [freeName n seen 0 (seen.length + 1)], bump f 1 0 [.dup n i]) := by
        simp [dupStep, hc, hm, bump]
      rw [hd, ih]
      simp [hc, hm, Nat.add_comm]
    · have hm : ¬ n ∈ seen := fun h => hc (List.contains_iff_mem.2 h)
      have hd : dupStep (seen, f) (n, i) = (seen ++ [n], f) := by
        simp [dupStep, hc, hm]
      rw [hd, ih]
      simp [hc, hm]

/-- **duplicate names**: the repaired names do not depend on the fixer; the fixer grows by one error and one
    message (name, position) per name that was already taken -/
theorem fixDuplicates_closed (names : List Str) (f : Fixer) :
    fixDuplicates names f =
      (repairedNames names,
       bump f (Spec.takenCount [] names (repairedNames names)) 0 (Spec.takenMsgs [] names (repairedNames names) 0)) := by
  have := foldl_dupStep_closed names [] f 0
  simpa [fixDuplicates, repairedNames] using this

/-- a short row filled up with the filler text -/
def padRow (n : Nat) (r : Row) : Row :=
  if r.length < n then r ++ List.replicate (n - r.length) Spec.filler else r

theorem foldl_shortStep_closed (n : Nat) (rows : List Row) (acc : List Row) (f : Fixer) (i : Nat) :
    (rows.zipIdx i).foldl (shortStep n) (acc, f) =
      (acc ++ rows.map (padRow n), bump f (Spec.shortCount rows n) 0 (Spec.shortMsgs n rows i)) := by
  induction rows generalizing acc f i with
  | nil => simp [Spec.shortCount, Spec.shortMsgs]
  | cons r rs ih =>
    simp only [List.zipIdx_cons, List.foldl_cons, Spec.shortCount, Spec.shortMsgs, List.countP_cons, List.map_cons]
    by_cases hs : r.length < n
    · have hd : shortStep n (acc, f) (r, i) = (acc ++ [padRow n r], bump f 1 0 [.missingRow i]) := by
        simp [shortStep, hs, padRow, bump, Spec.filler]
      rw [hd, ih]
      simp [Spec.isShort, hs, Spec.shortCount, Nat.add_comm]
    · have hd : shortStep n (acc, f) (r, i) = (acc ++ [padRow n r], f) := by
        simp [shortStep, hs, padRow]
      rw [hd, ih]
      simp [Spec.isShort, hs, Spec.shortCount]

/-- **short rows**: every short row is filled up to the number of names with the filler text, other rows are
    untouched; the fixer grows by one error and one message (row index) per short row -/
theorem fixShortRows_closed (rows : List Row) (n : Nat) (f : Fixer) :
    fixShortRows rows n f =
      (rows.map (padRow n), bump f (Spec.shortCount rows n) 0 (Spec.shortMsgs n rows 0)) := by
  have := foldl_shortStep_closed n rows [] f 0
  simpa [fixShortRows] using this

theorem getD0_padRow (n : Nat) (r : Row) (j : Nat) (hj : j < n) : getD0 (padRow n r) j = r.getD j Spec.filler := by
  unfold padRow getD0
  by_cases hs : r.length < n
  · simp only [hs, if_true]
    by_cases hjr : j < r.length
    · simp [List.getD_eq_getElem?_getD, List.getElem?_append_left hjr, hjr]
    · have : r.length ≤ j := Nat.le_of_not_lt hjr
      simp [List.getD_eq_getElem?_getD, List.getElem?_append_right this, List.getElem?_replicate]
      have h1 : j - r.length < n - r.length := by omega
      simp [h1, List.getElem?_eq_none this]
  · simp only [hs, if_false]
    have : j < r.length := by omega
    simp [List.getD_eq_getElem?_getD, this]

/-- the raw columns handed to the column parsers: none without value rows -/
def Spec.rawColumns (rows0 : List Row) (n : Nat) : List (List Cell) :=
  if rows0.isEmpty then [] else (List.range n).map (Spec.columnCells rows0)

theorem transposeN_padRow (rows : List Row) (n : Nat) :
    (if (rows.map (padRow n)).isEmpty then [] else transposeN (rows.map (padRow n)) n) = Spec.rawColumns rows n := by
  unfold Spec.rawColumns transposeN Spec.columnCells
  cases rows with
  | nil => rfl
  | cons r rs =>
    simp only [List.map_cons, List.isEmpty_cons, Bool.false_eq_true, if_false]
    apply List.map_congr_left
    intro j hj
    have hj' : j < n := List.mem_range.1 hj
    simp [getD0_padRow n _ j hj']

/-! ## 5. the closed form of the fixer-dependent part of the reader -/

namespace Spec
/-- errors a layout causes: names already taken + short rows -/
def errorsOf (L : Layout) : Nat :=
  takenCount [] L.names0 (repairedNames L.names0) + shortCount L.rows0 L.names0.length
/-- warnings a layout causes: illegal cells of the parsed columns, filler cells included -/
def warningsOf (ext : Ext) (L : Layout) : Nat :=
  illegalTotal ext L.units (rawColumns L.rows0 L.names0.length)
/-- the messages, in the order the reader meets the defects: duplicate names, short rows, illegal cells -/
def msgsOf (ext : Ext) (L : Layout) : List Msg :=
  takenMsgs [] L.names0 (repairedNames L.names0) 0 ++ shortMsgs L.names0.length L.rows0 0 ++
    illegalMsgs ext L.units (rawColumns L.rows0 L.names0.length)
/-- the table a layout yields, given only the fixer's replacement values -/
def tableOf (ext : Ext) (cfg : FixCfg) (L : Layout) : Except PyExc Precursor :=
  (typeColumns ext cfg L.units (rawColumns L.rows0 L.names0.length)).map (fun parsed =>
    ⟨L.name, L.transposed, L.destinations, repairedNames L.names0, L.units,
     parsed ++ List.replicate (L.names0.length - parsed.length) ColVals.raw⟩)
end Spec

/-- **closed form of `finish`** (duplicate names, short rows, column parsing, `fixer.report()`): the table is a
    function of the layout and the replacement values; the fixer grows by exactly the defects of the layout; the
    read fails in `report()` iff the counters are positive and `stop_on_errors` is set. -/
theorem finish_closed (ext : Ext) (L : Layout) (f0 : Fixer) :
    finish ext L f0 =
      match Spec.tableOf ext f0.cfg L with
      | .error e => .error e
      | .ok p =>
        if (bump f0 (Spec.errorsOf L) (Spec.warningsOf ext L) (Spec.msgsOf ext L)).fixes > 0 ∧
            f0.cfg.stopOnErrors = true
        then .error .valueError
        else .ok (p, bump f0 (Spec.errorsOf L) (Spec.warningsOf ext L) (Spec.msgsOf ext L)) := by
  unfold finish Spec.tableOf Spec.errorsOf Spec.warningsOf Spec.msgsOf
  simp only [fixDuplicates_closed, fixShortRows_closed, transposeN_padRow, parseColumns_closed, bump_cfg,
    bump_bump, repairedNames, renameFrom_length, bind, Except.bind, Except.map]
  cases Spec.typeColumns ext f0.cfg L.units (Spec.rawColumns L.rows0 L.names0.length) with
  | error e => rfl
  | ok parsed =>
    simp only [Nat.add_zero, Nat.zero_add, List.append_assoc, pure, Except.pure, throw_eq, Bool.and_eq_true,
      decide_eq_true_eq, bump_cfg]

/-! ## 6. counters and messages -/

theorem bump_fixes (f : Fixer) (e w : Nat) (m : List Msg) : (bump f e w m).fixes = f.fixes + e + w := by
  simp [bump, Fixer.fixes]; omega

/-- **counts**: after a read that did not raise, the fixer's error counter grew by the number of names already
    taken plus the number of short rows, its warning counter by the number of illegal cells of the parsed columns
    (a filler cell counts exactly when it is illegal for its column), and the messages by the matching entries;
    the configuration is untouched. -/
theorem counts (ext : Ext) (L : Layout) (f0 : Fixer) (p : Precursor) (f3 : Fixer)
    (h : finish ext L f0 = .ok (p, f3)) :
    f3.cfg = f0.cfg ∧
    f3.errors = f0.errors + Spec.errorsOf L ∧
    f3.warnings = f0.warnings + Spec.warningsOf ext L ∧
    f3.fixes = f0.fixes + Spec.errorsOf L + Spec.warningsOf ext L ∧
    f3.msgs = f0.msgs ++ Spec.msgsOf ext L := by
  rw [finish_closed] at h
  cases ht : Spec.tableOf ext f0.cfg L with
  | error e => rw [ht] at h; cases h
  | ok q =>
    rw [ht] at h
    simp only [] at h
    split at h
    · cases h
    · cases h
      exact ⟨rfl, rfl, rfl, bump_fixes _ _ _ _, rfl⟩

theorem takenMsgs_length (seen : List Str) (ns os : List Str) (i : Nat) :
    (Spec.takenMsgs seen ns os i).length = Spec.takenCount seen ns os := by
  induction ns generalizing seen os i with
  | nil => simp [Spec.takenMsgs, Spec.takenCount]
  | cons n ns ih =>
    cases os with
    | nil => simp [Spec.takenMsgs, Spec.takenCount]
    | cons o os =>
      simp only [Spec.takenMsgs, Spec.takenCount, List.length_append, ih]
      split <;> simp

theorem shortMsgs_length (n : Nat) (rows : List Row) (i : Nat) :
    (Spec.shortMsgs n rows i).length = Spec.shortCount rows n := by
  induction rows generalizing i with
  | nil => simp [Spec.shortMsgs, Spec.shortCount]
  | cons r rs ih =>
    simp only [Spec.shortMsgs, Spec.shortCount, List.length_append, List.countP_cons] at *
    rw [ih]
    split <;> simp [Nat.add_comm]

theorem illegalMsgs_length (ext : Ext) (us : List Str) (cols : List (List Cell)) :
    (Spec.illegalMsgs ext us cols).length = Spec.illegalTotal ext us cols := by
  induction us generalizing cols with
  | nil => simp [Spec.illegalMsgs, Spec.illegalTotal]
  | cons u us ih =>
    cases cols with
    | nil => simp [Spec.illegalMsgs, Spec.illegalTotal]
    | cons c cs =>
      simp [Spec.illegalMsgs, Spec.illegalTotal, Spec.columnMsgs, Spec.illegalCount, List.countP_eq_length_filter, ih]

/-- **one message per counted defect** -/
theorem msgs_one_per_fix (ext : Ext) (L : Layout) :
    (Spec.msgsOf ext L).length = Spec.errorsOf L + Spec.warningsOf ext L := by
  simp [Spec.msgsOf, Spec.errorsOf, Spec.warningsOf, takenMsgs_length, shortMsgs_length, illegalMsgs_length,
    Nat.add_assoc]

/-- every short row is named by its index -/
theorem shortMsgs_names (n : Nat) (rows : List Row) (k i : Nat) (r : Row)
    (hr : rows[i]? = some r) (hs : r.length < n) : Msg.missingRow (k + i) ∈ Spec.shortMsgs n rows k := by
  induction rows generalizing k i with
  | nil => simp at hr
  | cons r0 rs ih =>
    cases i with
    | zero =>
      simp at hr; subst hr
      simp [Spec.shortMsgs, Spec.isShort, hs]
    | succ i =>
      simp at hr
      have := ih (k + 1) i hr
      simp only [Spec.shortMsgs, List.mem_append]
      right
      have e : k + 1 + i = k + (i + 1) := by omega
      rw [← e]; exact this

/-- every name that was already taken is named with its position -/
theorem takenMsgs_names (seen : List Str) (ns os : List Str) (k i : Nat) (n : Str)
    (hlen : ns.length = os.length) (hn : ns[i]? = some n) (ht : n ∈ seen ++ os.take i) :
    Msg.dup n (k + i) ∈ Spec.takenMsgs seen ns os k := by
  induction ns generalizing seen os k i with
  | nil => simp at hn
  | cons n0 ns ih =>
    cases os with
    | nil => simp at hlen
    | cons o os =>
      cases i with
      | zero =>
        simp at hn; subst hn
        simp at ht
        simp [Spec.takenMsgs, ht]
      | succ i =>
        simp at hn hlen
        have ht' : n ∈ (seen ++ [o]) ++ os.take i := by simpa [List.append_assoc] using ht
        have := ih (seen ++ [o]) os (k + 1) i hlen hn ht'
        simp only [Spec.takenMsgs, List.mem_append]
        right
        have e : k + 1 + i = k + (i + 1) := by omega
        rw [← e]; exact this

/- FULL STATEMENT (property text): "a strict read fails with a message naming every defect", defects including
   "rows cut short", for ALL well-formed tables — row-wise AND transposed. What is proved below is about the layout's
   value rows `L.rows0`. For a row-wise table these are the rows of the file, so a short row of the file is a short
   row here. For a TRANSPOSED table `layout` has already padded every short line with empty cells (`padOrTrim`), so
   `L.rows0` never holds a short row there and the clauses about short rows say nothing: PARTIAL (row-wise tables,
   or transposed tables none of whose lines is shorter than the number of value rows). The transposed case is FALSE
   on the model and on the code (open known finding F5, key `transposed_short_line`): negation witness in section 12. -/

/-- **a strict read names every structural defect** (PARTIAL, see above): the messages of a layout contain the index
    of every short value row of the layout and the name and position of every column name that was already taken -/
theorem msgs_name_defects_partial (ext : Ext) (L : Layout) :
    (∀ i r, L.rows0[i]? = some r → r.length < L.names0.length → Msg.missingRow i ∈ Spec.msgsOf ext L) ∧
    (∀ i n, L.names0[i]? = some n → n ∈ (repairedNames L.names0).take i → Msg.dup n i ∈ Spec.msgsOf ext L) := by
  constructor
  · intro i r hr hs
    have := shortMsgs_names L.names0.length L.rows0 0 i r hr hs
    simp only [Spec.msgsOf, List.mem_append]
    left; right; simpa using this
  · intro i n hn ht
    have := takenMsgs_names [] L.names0 (repairedNames L.names0) 0 i n
      (by simp [repairedNames, renameFrom_length]) hn (by simpa using ht)
    simp only [Spec.msgsOf, List.mem_append]
    left; left; simpa using this

/-- **at least one fix per short row** (PARTIAL: short value rows of the layout — the rows of a row-wise table; a short
    line of a transposed table never reaches `L.rows0`, see the full statement above and the witness in section 12) -/
theorem short_rows_counted_partial (ext : Ext) (L : Layout) (f0 : Fixer) (p : Precursor) (f3 : Fixer)
    (h : finish ext L f0 = .ok (p, f3)) :
    f0.fixes + Spec.shortCount L.rows0 L.names0.length ≤ f3.fixes := by
  have := (counts ext L f0 p f3 h).2.2.2.1
  unfold Spec.errorsOf at this
  omega

/-! ## 7. shape and values of a lenient read -/

namespace Spec

/-- one parsed value -/
inductive Val
  | text (s : Str) | onoff (b : Bool) | num (tok : Str) | dt (tok : Str)
  deriving DecidableEq, Repr

/-- the defect-free parse of one raw cell under unit `u`; `none` = the cell has no value of that type -/
def legalValue (ext : Ext) (u : Str) (c : Cell) : Option Val :=
  if u = uText then some (.text (textCell c))
  else if u = uOnoff then (C02.Spec.onoff c).map .onoff
  else if u = uDatetime then (match dtCell ext c with | .ok t => some (.dt t) | _ => none)
  else (floatCell ext c).map .num

/-- what the fixer puts in place of an illegal cell -/
def replacement (cfg : FixCfg) (u : Str) : Val :=
  if u = uOnoff then .onoff cfg.repOnoff else if u = uDatetime then .dt cfg.repDt else .num cfg.repFloat

end Spec

/-- value `i` of a parsed column -/
def colGet : ColVals → Nat → Option Spec.Val
  | .text xs, i => xs[i]?.map .text
  | .onoff xs, i => xs[i]?.map .onoff
  | .num xs, i => xs[i]?.map .num
  | .dt xs, i => xs[i]?.map .dt
  | .raw, _ => none

theorem dtValues_cellwise (ext : Ext) (rep : Str) (cells : List Cell) (vs : List Str)
    (h : dtValues ext rep cells = .ok vs) :
    vs = cells.map (fun c => match dtCell ext c with | .ok t => t | _ => rep) ∧
    ∀ c ∈ cells, (∃ t, dtCell ext c = .ok t) ∨ dtCell ext c = .fix := by
  induction cells generalizing vs with
  | nil => simp [dtValues] at h; subst h; simp
  | cons c cs ih =>
    unfold dtValues at h
    cases hc : dtCell ext c with
    | ok t =>
      simp only [hc] at h
      cases hr : dtValues ext rep cs with
      | error e => simp [hr, Except.map] at h
      | ok r =>
        simp [hr, Except.map] at h
        subst h
        have := ih r hr
        refine ⟨by simp [hc, this.1], ?_⟩
        intro d hd
        rcases List.mem_cons.1 hd with rfl | hd
        · exact Or.inl ⟨t, hc⟩
        · exact this.2 d hd
    | fix =>
      simp only [hc] at h
      cases hr : dtValues ext rep cs with
      | error e => simp [hr, Except.map] at h
      | ok r =>
        simp [hr, Except.map] at h
        subst h
        have := ih r hr
        refine ⟨by simp [hc, this.1], ?_⟩
        intro d hd
        rcases List.mem_cons.1 hd with rfl | hd
        · exact Or.inr hc
        · exact this.2 d hd
    | raises n => simp [hc] at h

/-- **cell-wise typing**: when a column parses, it is as long as its raw column; value `i` is the defect-free
    parse of raw cell `i` where that exists and the fixer's replacement otherwise; and "has no defect-free
    parse" is exactly "illegal" (what the warning counter counts) -/
theorem typeColumn_cellwise (ext : Ext) (cfg : FixCfg) (u : Str) (cells : List Cell) (v : ColVals)
    (h : C02.Spec.typeColumn ext cfg u cells = .ok v) :
    v.length = cells.length ∧
    ∀ i c, cells[i]? = some c →
      colGet v i = some ((Spec.legalValue ext u c).getD (Spec.replacement cfg u)) ∧
      (Spec.legalValue ext u c).isNone = Spec.illegal ext u c := by
  unfold C02.Spec.typeColumn at h
  unfold Spec.legalValue Spec.replacement Spec.illegal
  unfold uText uOnoff uDatetime at *
  generalize "text".toList = T at *
  generalize "onoff".toList = O at *
  generalize "datetime".toList = D at *
  by_cases h1 : u = T
  · subst h1
    simp at h; subst h
    simp [ColVals.length, colGet]
    intro i c hc; simp [hc]
  · by_cases h2 : u = O
    · subst h2
      simp [h1] at h; subst h
      simp [ColVals.length, colGet, h1]
      intro i c hc
      simp [hc]
    · by_cases h3 : u = D
      · subst h3
        simp only [h1, h2, if_false, if_true] at h
        cases hr : dtValues ext cfg.repDt cells with
        | error e => simp [hr, Except.map] at h
        | ok vs =>
          simp [hr, Except.map] at h; subst h
          have hv := dtValues_cellwise ext cfg.repDt cells vs hr
          refine ⟨by simp [ColVals.length, hv.1], ?_⟩
          intro i c hc
          have hmem : c ∈ cells := List.mem_of_getElem? hc
          simp only [colGet, hv.1, List.getElem?_map, hc, h1, h2, if_false, if_true, Option.map_some, dtIsFix]
          rcases hv.2 c hmem with ⟨t, ht⟩ | hf
          · simp [ht]
          · simp [hf]
      · simp [h1, h2, h3] at h; subst h
        simp [ColVals.length, colGet, h1, h2, h3]
        intro i c hc
        simp [hc]

theorem typeColumns_index (ext : Ext) (cfg : FixCfg) (us : List Str) (cols : List (List Cell)) (parsed : List ColVals)
    (h : Spec.typeColumns ext cfg us cols = .ok parsed) :
    parsed.length = min us.length cols.length ∧
    ∀ (j : Nat) (u : Str) (c : List Cell), us[j]? = some u → cols[j]? = some c →
      ∃ v, parsed[j]? = some v ∧ C02.Spec.typeColumn ext cfg u c = .ok v := by
  induction us generalizing cols parsed with
  | nil => simp [Spec.typeColumns] at h; subst h; simp
  | cons u0 us ih =>
    cases cols with
    | nil => simp [Spec.typeColumns] at h; subst h; simp
    | cons c0 cs =>
      simp only [Spec.typeColumns] at h
      cases h1 : C02.Spec.typeColumn ext cfg u0 c0 with
      | error e => simp [h1] at h
      | ok v0 =>
        simp only [h1] at h
        cases h2 : Spec.typeColumns ext cfg us cs with
        | error e => simp [h2, Except.map] at h
        | ok vs =>
          simp [h2, Except.map] at h; subst h
          have := ih cs vs h2
          refine ⟨by simp [this.1], ?_⟩
          intro j u c hu hc
          cases j with
          | zero => simp at hu hc; subst hu; subst hc; exact ⟨v0, by simp, h1⟩
          | succ j => simp at hu hc; simpa using this.2 j u c hu hc

theorem rawColumns_length (rows0 : List Row) (n : Nat) : (Spec.rawColumns rows0 n).length ≤ n := by
  unfold Spec.rawColumns; split <;> simp

theorem rawColumns_get (rows0 : List Row) (n j : Nat) (hne : rows0 ≠ []) (hj : j < n) :
    (Spec.rawColumns rows0 n)[j]? = some (Spec.columnCells rows0 j) := by
  unfold Spec.rawColumns
  have : rows0.isEmpty = false := by cases rows0 <;> simp_all
  simp [this, hj]

/-- **the table of a lenient read is a function of the layout and the replacement values only** (never of the
    fixer's counters or messages): whatever was repaired before, the same layout gives the same table -/
theorem lenient_values (ext : Ext) (L : Layout) (f0 : Fixer) (p : Precursor) (f3 : Fixer)
    (h : finish ext L f0 = .ok (p, f3)) : Spec.tableOf ext f0.cfg L = .ok p := by
  rw [finish_closed] at h
  cases ht : Spec.tableOf ext f0.cfg L with
  | error e => rw [ht] at h; cases h
  | ok q =>
    rw [ht] at h
    simp only [] at h
    split at h
    · cases h
    · cases h; rfl

/-- a lenient fixer never fails in `report()`: the read succeeds whenever the columns can be typed at all -/
theorem lenient_succeeds (ext : Ext) (L : Layout) (f0 : Fixer) (hl : f0.cfg.stopOnErrors = false) :
    finish ext L f0 = (Spec.tableOf ext f0.cfg L).map (fun p =>
      (p, bump f0 (Spec.errorsOf L) (Spec.warningsOf ext L) (Spec.msgsOf ext L))) := by
  rw [finish_closed]
  cases Spec.tableOf ext f0.cfg L <;> simp [hl, Except.map]

/-- **full shape**: as many names as the header has, one column per name; every column that has a unit is as long
    as there are value rows (the remaining ones are the empty placeholder, which `_make_table` then rejects) -/
theorem lenient_shape (ext : Ext) (L : Layout) (f0 : Fixer) (p : Precursor) (f3 : Fixer)
    (h : finish ext L f0 = .ok (p, f3)) :
    p.names.length = L.names0.length ∧ p.columns.length = L.names0.length ∧ p.units = L.units ∧
    (L.rows0 ≠ [] → ∀ j, j < L.units.length → j < L.names0.length →
      ∃ col, p.columns[j]? = some col ∧ col.length = L.rows0.length) := by
  have ht := lenient_values ext L f0 p f3 h
  unfold Spec.tableOf at ht
  cases hp : Spec.typeColumns ext f0.cfg L.units (Spec.rawColumns L.rows0 L.names0.length) with
  | error e => simp [hp, Except.map] at ht
  | ok parsed =>
    simp [hp, Except.map] at ht
    subst ht
    have hi := typeColumns_index ext f0.cfg _ _ parsed hp
    have hl := rawColumns_length L.rows0 L.names0.length
    refine ⟨by simp [repairedNames, renameFrom_length], ?_, rfl, ?_⟩
    · simp only [List.length_append, List.length_replicate]
      have : parsed.length ≤ L.names0.length := by rw [hi.1]; omega
      omega
    · intro hne j hju hjn
      have hu : L.units[j]? = some L.units[j] := by simp [hju]
      obtain ⟨v, hv, htc⟩ := hi.2 j _ _ hu (rawColumns_get L.rows0 _ j hne hjn)
      have hlen := (typeColumn_cellwise ext f0.cfg _ _ v htc).1
      refine ⟨v, ?_, by simpa [Spec.columnCells] using hlen⟩
      have hjp : j < parsed.length := by
        by_cases hjp : j < parsed.length
        · exact hjp
        · simp [List.getElem?_eq_none (Nat.le_of_not_lt hjp)] at hv
      simp [List.getElem?_append_left hjp, hv]

/-- **every cell of a lenient read**: the value at row `i` of column `j` is the defect-free parse of the raw cell
    (the row's own cell, or the filler text where the row was cut short) if it has one, and the fixer's
    replacement otherwise; it has none exactly when the cell is illegal for the unit -/
theorem lenient_cell (ext : Ext) (L : Layout) (f0 : Fixer) (p : Precursor) (f3 : Fixer)
    (h : finish ext L f0 = .ok (p, f3)) (j i : Nat) (u : Str) (r : Row)
    (hu : L.units[j]? = some u) (hjn : j < L.names0.length) (hr : L.rows0[i]? = some r) :
    ∃ col, p.columns[j]? = some col ∧
      colGet col i = some ((Spec.legalValue ext u (r.getD j Spec.filler)).getD (Spec.replacement f0.cfg u)) ∧
      (Spec.legalValue ext u (r.getD j Spec.filler)).isNone = Spec.illegal ext u (r.getD j Spec.filler) := by
  have ht := lenient_values ext L f0 p f3 h
  unfold Spec.tableOf at ht
  cases hp : Spec.typeColumns ext f0.cfg L.units (Spec.rawColumns L.rows0 L.names0.length) with
  | error e => simp [hp, Except.map] at ht
  | ok parsed =>
    simp [hp, Except.map] at ht
    subst ht
    have hi := typeColumns_index ext f0.cfg _ _ parsed hp
    have hne : L.rows0 ≠ [] := by intro e; simp [e] at hr
    obtain ⟨v, hv, htc⟩ := hi.2 j _ _ hu (rawColumns_get L.rows0 _ j hne hjn)
    have hc := (typeColumn_cellwise ext f0.cfg _ _ v htc).2 i (r.getD j Spec.filler)
      (by simp [Spec.columnCells, hr])
    have hjp : j < parsed.length := by
      by_cases hjp : j < parsed.length
      · exact hjp
      · simp [List.getElem?_eq_none (Nat.le_of_not_lt hjp)] at hv
    exact ⟨v, by simp [List.getElem?_append_left hjp, hv], hc⟩

theorem illegalMsgs_names (ext : Ext) (us : List Str) (cols : List (List Cell)) (j : Nat) (u : Str)
    (cells : List Cell) (c : Cell) (hu : us[j]? = some u) (hc : cols[j]? = some cells) (hm : c ∈ cells)
    (hi : Spec.illegal ext u c = true) :
    Msg.illegal (Spec.vtype u) (Spec.valueText u c) ∈ Spec.illegalMsgs ext us cols := by
  induction us generalizing cols j with
  | nil => simp at hu
  | cons u0 us ih =>
    cases cols with
    | nil => simp at hc
    | cons c0 cs =>
      simp only [Spec.illegalMsgs, List.mem_append]
      cases j with
      | zero =>
        simp at hu hc; subst hu; subst hc
        left
        simp only [Spec.columnMsgs, List.mem_map, List.mem_filter]
        exact ⟨c, ⟨hm, hi⟩, rfl⟩
      | succ j =>
        simp at hu hc
        right
        exact ih cs j hu hc

/-- **every illegal cell is named**: for every cell of a parsed column that is illegal for its unit — the row's own
    cell, or the filler where the row was cut short — the messages of the layout contain an entry with the vtype
    and the text of that cell as the fixer is told it (a string normalised / stripped, another cell via `str()`) -/
theorem msgs_name_illegal_cells (ext : Ext) (L : Layout) (j i : Nat) (u : Str) (r : Row)
    (hu : L.units[j]? = some u) (hjn : j < L.names0.length) (hr : L.rows0[i]? = some r)
    (hi : Spec.illegal ext u (r.getD j Spec.filler) = true) :
    Msg.illegal (Spec.vtype u) (Spec.valueText u (r.getD j Spec.filler)) ∈ Spec.msgsOf ext L := by
  have hne : L.rows0 ≠ [] := by intro e; simp [e] at hr
  have hcol := rawColumns_get L.rows0 L.names0.length j hne hjn
  have hm : r.getD j Spec.filler ∈ Spec.columnCells L.rows0 j := by
    simp only [Spec.columnCells, List.mem_map]
    exact ⟨r, List.mem_of_getElem? hr, rfl⟩
  have := illegalMsgs_names ext L.units _ j u _ _ hu hcol hm hi
  simp only [Spec.msgsOf, List.mem_append]
  right; exact this

/-- a legal cell's value does not depend on the fixer at all; an illegal cell holds the replacement -/
theorem legal_value_kept (ext : Ext) (cfg : FixCfg) (u : Str) (c : Cell) (v : Spec.Val)
    (h : Spec.legalValue ext u c = some v) : (Spec.legalValue ext u c).getD (Spec.replacement cfg u) = v := by
  simp [h]

theorem illegal_value_replaced (ext : Ext) (cfg : FixCfg) (u : Str) (c : Cell)
    (h : Spec.legalValue ext u c = none) :
    (Spec.legalValue ext u c).getD (Spec.replacement cfg u) = Spec.replacement cfg u := by
  simp [h]

/-- the stock replacements are False / NaT / NaN -/
theorem stock_replacements (u : Str) :
    Spec.replacement FixCfg.lenient u =
      if u = uOnoff then .onoff false else if u = uDatetime then .dt NaT else .num NaN := rfl

/-- **the filler** (PARTIAL: the cut-off cells of a short ROW; the cut-off cells of a short line of a transposed table
    are empty cells `.none`, not this filler — text column: the text "None"): a cut-off cell reads as the text "NaN" in a text column, as a missing number in a numeric
    column, as NaT in a datetime column — no defect there — and is an illegal cell (replacement, one warning)
    in an onoff column -/
theorem filler_values_partial (ext : Ext) (u : Str) :
    Spec.legalValue ext u Spec.filler =
      if u = uText then some (.text "NaN".toList)
      else if u = uOnoff then none
      else if u = uDatetime then some (.dt NaT)
      else some (.num NaN) := by
  have h1 : C02.Spec.onoff Spec.filler = none := by decide
  have h2 : floatCell ext Spec.filler = some NaN := by
    have : Gen.missingFloatConvert.contains (normalize "NaN".toList) = true := by decide
    unfold floatCell Spec.filler
    simp only [this, if_true]
  have h3 : dtCell ext Spec.filler = .ok NaT := by
    have hs : strip "NaN".toList = "NaN".toList := by decide
    have hm : isMissingMarker "NaN".toList = true := by decide
    simp only [dtCell, Spec.filler, hs]
    have : isMissingMarker ['N', 'a', 'N'] = true := hm
    simp [this]
  unfold Spec.legalValue
  simp only [h1, h2, h3]
  rfl

/-! ## 8. the repaired names are unique -/

/-- candidate `sq` of `fix_duplicate_column_name` -/
def cand (c : Str) (sq : Nat) : Str := c ++ "_fixed_".toList ++ pad3 sq

def unpad (s : Str) : Nat := Nat.ofDigitChars 10 s 0

/-- `f"{sq:03}"` is one-to-one: reading the digits back gives `sq` -/
theorem unpad_pad3 (n : Nat) : unpad (pad3 n) = n := by
  unfold unpad pad3 natToStr
  simp only [Nat.ofDigitChars_append, Nat.ofDigitChars_replicate_zero, Nat.mul_zero]
  show Nat.ofDigitChars 10 (Nat.repr n).toList 0 = n
  rw [Nat.toList_repr]
  exact Nat.ofDigitChars_ten_toDigits

theorem cand_inj (c : Str) (a b : Nat) (h : cand c a = cand c b) : a = b := by
  unfold cand at h
  have := List.append_cancel_left h
  rw [← unpad_pad3 a, ← unpad_pad3 b, this]

theorem freeName_spec (c : Str) (ex : List Str) (sq fuel : Nat) :
    freeName c ex sq fuel ∉ ex ∨ ∀ k, sq ≤ k → k < sq + fuel → cand c k ∈ ex := by
  induction fuel generalizing sq with
  | zero => right; intro k h1 h2; omega
  | succ fuel ih =>
    unfold freeName
    by_cases h : ex.contains (c ++ "_fixed_".toList ++ pad3 sq) = true
    · simp only [h, if_true]
      rcases ih (sq + 1) with h' | h'
      · exact Or.inl h'
      · right
        intro k h1 h2
        by_cases e : k = sq
        · subst e; exact List.contains_iff_mem.1 h
        · exact h' k (by omega) (by omega)
    · simp only [h]
      left
      intro hm
      exact h (List.contains_iff_mem.2 hm)

theorem cand_pigeonhole (c : Str) (ex : List Str) (N : Nat)
    (h' : ∀ k, k < N → cand c k ∈ ex) : N ≤ ex.length := by
  have hnd : ((List.range N).map (cand c)).Nodup := by
    rw [List.nodup_iff_pairwise_ne, List.pairwise_map]
    have := @List.pairwise_lt_range N
    rw [List.pairwise_iff_getElem] at this ⊢
    intro i j hi hj hij e
    have := this i j hi hj hij
    have := cand_inj c _ _ e
    omega
  have hsub : (List.range N).map (cand c) ⊆ ex := by
    intro x hx
    obtain ⟨k, hk, rfl⟩ := List.mem_map.1 hx
    exact h' k (List.mem_range.1 hk)
  have := hnd.length_le_of_subset hsub
  simpa using this

/-- `fix_duplicate_column_name` always returns a name that is not among the names so far: the candidates are
    pairwise different, so one of the first `len + 1` is free -/
theorem freeName_fresh (c : Str) (ex : List Str) : freeName c ex 0 (ex.length + 1) ∉ ex := by
  rcases freeName_spec c ex 0 (ex.length + 1) with h' | h'
  · exact h'
  · exfalso
    have := cand_pigeonhole c ex (ex.length + 1) (fun k hk => h' k (Nat.zero_le _) (by omega))
    omega

theorem renameFrom_nodup (seen ns : List Str) (hs : seen.Nodup) : (seen ++ renameFrom seen ns).Nodup := by
  induction ns generalizing seen with
  | nil => simpa [renameFrom] using hs
  | cons n ns ih =>
    simp only [renameFrom]
    have hfresh : (if seen.contains n then freeName n seen 0 (seen.length + 1) else n) ∉ seen := by
      by_cases hc : seen.contains n = true
      · simp only [hc, if_true]
        exact freeName_fresh n seen
      · simp only [hc]
        intro hm; exact hc (List.contains_iff_mem.2 hm)
    have hs' : (seen ++ [if seen.contains n then freeName n seen 0 (seen.length + 1) else n]).Nodup := by
      rw [List.nodup_append]
      refine ⟨hs, by simp, ?_⟩
      intro a ha b hb
      have hb' := List.mem_singleton.1 hb
      intro e
      rw [hb'] at e
      rw [e] at ha
      exact hfresh ha
    have := ih _ hs'
    simpa [List.append_assoc] using this

/-- **names unique**: after `_fix_duplicate_column_names` no two columns have the same name — for every header -/
theorem names_unique (names0 : List Str) : (repairedNames names0).Nodup := by
  have := renameFrom_nodup [] names0 (by simp)
  simpa [repairedNames] using this

theorem renameFrom_kept (seen ns : List Str) (i : Nat) (n : Str) (hn : ns[i]? = some n) :
    (n ∉ seen ++ (renameFrom seen ns).take i → (renameFrom seen ns)[i]? = some n) := by
  induction ns generalizing seen i with
  | nil => simp at hn
  | cons n0 ns ih =>
    cases i with
    | zero =>
      simp at hn; subst hn
      intro h
      have hc : seen.contains n0 = false := by
        cases hh : seen.contains n0 with
        | false => rfl
        | true => exact absurd (List.contains_iff_mem.1 hh) (by simpa using h)
      have hn' : n0 ∉ seen := by simpa using h
      simp [renameFrom, hc, hn']
    | succ i =>
      simp at hn
      intro h
      simp only [renameFrom, List.getElem?_cons_succ]
      apply ih _ i hn
      simpa [renameFrom, List.append_assoc] using h

/-- a name that was not yet taken is kept as it is -/
theorem names_kept (names0 : List Str) (i : Nat) (n : Str) (hn : names0[i]? = some n)
    (h : n ∉ (repairedNames names0).take i) : (repairedNames names0)[i]? = some n := by
  have := renameFrom_kept [] names0 i n hn
  simpa [repairedNames] using this (by simpa [repairedNames] using h)

theorem renameFrom_of_nodup (seen ns : List Str) (h : (seen ++ ns).Nodup) :
    renameFrom seen ns = ns ∧ Spec.takenCount seen ns ns = 0 := by
  induction ns generalizing seen with
  | nil => simp [renameFrom, Spec.takenCount]
  | cons n ns ih =>
    have hn : n ∉ seen := by
      intro hm
      rw [List.nodup_append] at h
      exact h.2.2 n hm n (by simp) rfl
    have hc : seen.contains n = false := by
      cases hh : seen.contains n with
      | false => rfl
      | true => exact absurd (List.contains_iff_mem.1 hh) hn
    have h' : ((seen ++ [n]) ++ ns).Nodup := by simpa [List.append_assoc] using h
    have := ih (seen ++ [n]) h'
    simp [renameFrom, hc, this.1, Spec.takenCount, hn, this.2]

/-- pairwise different names are all kept and nothing is counted -/
theorem unique_names_untouched (names0 : List Str) (h : names0.Nodup) :
    repairedNames names0 = names0 ∧ Spec.takenCount [] names0 (repairedNames names0) = 0 := by
  have := renameFrom_of_nodup [] names0 (by simpa using h)
  simp [repairedNames, this.1, this.2]

/-! ## 9. strict read = lenient read + "fail iff something was counted" -/

/-- the same fixer with `stop_on_errors` set / cleared -/
def setStop (b : Bool) (f : Fixer) : Fixer := { f with cfg := { f.cfg with stopOnErrors := b } }

theorem typeColumn_stop_irrelevant (ext : Ext) (cfg : FixCfg) (b : Bool) (u : Str) (cells : List Cell) :
    C02.Spec.typeColumn ext { cfg with stopOnErrors := b } u cells = C02.Spec.typeColumn ext cfg u cells := rfl

theorem typeColumns_stop_irrelevant (ext : Ext) (cfg : FixCfg) (b : Bool) (us : List Str) (cols : List (List Cell)) :
    Spec.typeColumns ext { cfg with stopOnErrors := b } us cols = Spec.typeColumns ext cfg us cols := by
  induction us generalizing cols with
  | nil => rfl
  | cons u us ih =>
    cases cols with
    | nil => rfl
    | cons c cs => simp only [Spec.typeColumns, typeColumn_stop_irrelevant, ih]

theorem tableOf_stop_irrelevant (ext : Ext) (cfg : FixCfg) (b : Bool) (L : Layout) :
    Spec.tableOf ext { cfg with stopOnErrors := b } L = Spec.tableOf ext cfg L := by
  simp only [Spec.tableOf, typeColumns_stop_irrelevant]

/-- **strict vs lenient**: a strict read of a layout, starting from clean counters, is the lenient read of the
    same layout (same replacement values) followed by: fail with ValueError iff anything was counted. So a strict
    read fails in `report()` exactly when the layout has a defect, and then its message (section 6) has one entry
    per defect; when it succeeds the table is the lenient one and nothing was repaired. -/
theorem strict_eq_lenient (ext : Ext) (L : Layout) (f0 : Fixer) (h0 : f0.fixes = 0) :
    finish ext L (setStop true f0) =
      match finish ext L (setStop false f0) with
      | .error e => .error e
      | .ok (p, f3) => if f3.fixes > 0 then .error .valueError else .ok (p, setStop true f3) := by
  rw [finish_closed, finish_closed]
  simp only [setStop, tableOf_stop_irrelevant, bump_fixes]
  cases Spec.tableOf ext f0.cfg L with
  | error e => rfl
  | ok p =>
    have e0 : ({ f0 with cfg := { f0.cfg with stopOnErrors := true } } : Fixer).fixes = 0 := h0
    have e1 : ({ f0 with cfg := { f0.cfg with stopOnErrors := false } } : Fixer).fixes = 0 := h0
    simp only [e0, e1, and_true, Bool.false_eq_true, and_false, if_false, bump_fixes]
    split <;> rfl

/-- **strict fails iff defect**: with `stop_on_errors` and clean counters the read succeeds iff the columns can be
    typed at all and the layout has no duplicate name, no short row and no illegal cell -/
theorem strict_fails_iff_defect (ext : Ext) (L : Layout) (f0 : Fixer) (hs : f0.cfg.stopOnErrors = true)
    (h0 : f0.fixes = 0) :
    (∃ r, finish ext L f0 = .ok r) ↔
      (∃ p, Spec.tableOf ext f0.cfg L = .ok p) ∧ Spec.errorsOf L + Spec.warningsOf ext L = 0 := by
  rw [finish_closed]
  cases Spec.tableOf ext f0.cfg L with
  | error e => simp
  | ok p =>
    simp only [bump_fixes, h0, hs, and_true, Nat.zero_add]
    by_cases hz : Spec.errorsOf L + Spec.warningsOf ext L > 0
    · simp [hz]; omega
    · simp [hz]; omega

/-- a strict failure is either a column that cannot be typed at all, or `report()` raising because something was
    counted. (This theorem alone does not say WHICH messages the raised text carries — the model's `report()` is a bare
    `throw .valueError`; `strict_failure_messages` below does.) -/
theorem strict_failure_is_report_or_typing (ext : Ext) (L : Layout) (f0 : Fixer) (hs : f0.cfg.stopOnErrors = true)
    (h0 : f0.fixes = 0) (e : PyExc) (h : finish ext L f0 = .error e) :
    Spec.tableOf ext f0.cfg L = .error e ∨
    (e = .valueError ∧ 0 < Spec.errorsOf L + Spec.warningsOf ext L) := by
  rw [finish_closed] at h
  cases ht : Spec.tableOf ext f0.cfg L with
  | error e' => rw [ht] at h; simp at h; left; rw [h]
  | ok p =>
    rw [ht] at h
    simp only [bump_fixes, h0, hs, and_true, Nat.zero_add] at h
    right
    split at h
    · cases h
      exact ⟨rfl, by omega⟩
    · cases h

/-- **the messages of a strict failure**: the fixer runs the same code whether or not `stop_on_errors` is set, up to
    the `if` in `report()`. So when the strict read of a typable layout fails, the message list `report()` joins into
    its text is the list the lenient twin (same fixer, `stop_on_errors` cleared) is left with: the earlier messages
    followed by exactly `Spec.msgsOf` — one entry per counted defect (`msgs_one_per_fix`), naming the short rows, the
    taken names (`msgs_name_defects_partial`) and the illegal cells (`msgs_name_illegal_cells`). The harness compares
    the text of the real InputError with this list on every strict failure. -/
theorem strict_failure_messages (ext : Ext) (L : Layout) (f0 : Fixer) (h0 : f0.fixes = 0) (p : Precursor)
    (ht : Spec.tableOf ext f0.cfg L = .ok p) (hd : 0 < Spec.errorsOf L + Spec.warningsOf ext L) :
    finish ext L (setStop true f0) = .error .valueError ∧
    ∃ f3, finish ext L (setStop false f0) = .ok (p, f3) ∧ f3.msgs = f0.msgs ++ Spec.msgsOf ext L ∧
      (Spec.msgsOf ext L).length = f3.fixes := by
  have hl := lenient_succeeds ext L (setStop false f0) rfl
  have ht' : Spec.tableOf ext (setStop false f0).cfg L = .ok p := by
    simpa [setStop, tableOf_stop_irrelevant] using ht
  rw [ht'] at hl
  simp only [Except.map] at hl
  refine ⟨?_, _, hl, rfl, ?_⟩
  · rw [strict_eq_lenient ext L f0 h0, hl]
    simp only [bump_fixes]
    have : (setStop false f0).fixes = 0 := h0
    simp [this]; omega
  · rw [msgs_one_per_fix, bump_fixes]
    have : (setStop false f0).fixes = 0 := h0
    omega

/-! ## 10. isolation: the verdict on a block depends on the fixer's configuration only -/

/-- how a handler grows the fixer it is given -/
structure Growth where
  e : Nat
  w : Nat
  m : List Msg

def grow (f : Fixer) (g : Growth) : Fixer := bump f g.e g.w g.m

@[simp] theorem grow_cfg (f : Fixer) (g : Growth) : (grow f g).cfg = f.cfg := rfl

/-- `finish` as a function of the fixer's configuration and its current number of fixes -/
def finishR (ext : Ext) (fcfg : FixCfg) (n : Nat) (L : Layout) : Except PyExc (Precursor × Growth) :=
  match Spec.tableOf ext fcfg L with
  | .error e => .error e
  | .ok p =>
    if n + Spec.errorsOf L + Spec.warningsOf ext L > 0 ∧ fcfg.stopOnErrors = true then .error .valueError
    else .ok (p, ⟨Spec.errorsOf L, Spec.warningsOf ext L, Spec.msgsOf ext L⟩)

theorem finish_R (ext : Ext) (L : Layout) (f : Fixer) :
    finish ext L f = (finishR ext f.cfg f.fixes L).map (fun r => (r.1, grow f r.2)) := by
  rw [finish_closed]
  unfold finishR
  cases Spec.tableOf ext f.cfg L with
  | error e => rfl
  | ok p =>
    simp only [bump_fixes]
    split <;> simp [Except.map, grow, *]

/-- the DataFrame construction checks of `_make_table` on a precursor -/
def frameCheck (p : Precursor) : Except PyExc Unit :=
  match p.columns with
  | [] => .ok ()
  | c :: cs =>
    if !cs.all (fun d => d.length = c.length) then .error .valueError
    else if c.length > 0 && p.columns.any ColVals.dtInhomogeneous then .error .columnUnit
    else .ok ()

theorem makeTable_eq (ext : Ext) (cells : List Row) (f0 : Fixer) :
    makeTable ext cells f0 =
      (makePrecursor ext cells f0).bind (fun r => (frameCheck r.1).bind (fun _ => .ok r)) := by
  unfold makeTable
  simp only [bind]
  cases makePrecursor ext cells f0 with
  | error e => rfl
  | ok r =>
    obtain ⟨p, f⟩ := r
    simp only [Except.bind, frameCheck]
    cases hc : p.columns with
    | nil => rfl
    | cons c cs =>
      simp only []
      split
      · rfl
      · split <;> rfl

def Growth.zero : Growth := ⟨0, 0, []⟩

@[simp] theorem grow_zero (f : Fixer) : grow f Growth.zero = f := by simp [grow, Growth.zero]

/-- a handler as a function of the block, the fixer's configuration and its current number of fixes -/
def handleR (cfg : Config) (fcfg : FixCfg) (n : Nat) (ty : BT) (cells : List Row) : Except PyExc (BlockVal × Growth) :=
  match ty with
  | .metadata => .ok (.metadata (metadataBlock cells), Growth.zero)
  | .directive => (directive cells).map (fun r => (.directive r.1 r.2, Growth.zero))
  | .table =>
    match cfg.form with
    | .pdtable =>
      (layout cells).bind fun L => (finishR cfg.ext fcfg n L).bind fun r =>
        (frameCheck r.1).bind fun _ => .ok (.table r.1, r.2)
    | .jsondata =>
      (layout cells).bind fun L => (finishR cfg.ext fcfg n L).bind fun r => .ok (.json r.1, r.2)
    | .cellgrid => .ok (.grid cells, Growth.zero)
  | _ => .ok (.grid cells, Growth.zero)

theorem handle_R (cfg : Config) (ty : BT) (cells : List Row) (f : Fixer) :
    handle cfg ty cells f = (handleR cfg f.cfg f.fixes ty cells).map (fun r => (r.1, grow f r.2)) := by
  unfold handle handleR
  cases ty with
  | metadata => simp [Except.map]
  | directive =>
    simp only [bind, Except.bind, Except.map]
    cases directive cells with
    | error e => rfl
    | ok r => obtain ⟨n, ls⟩ := r; simp [pure, Except.pure]
  | table =>
    cases cfg.form with
    | pdtable =>
      simp only [makeTable_eq, makePrecursor, finish_R, bind, Except.bind, Except.map]
      cases layout cells with
      | error e => rfl
      | ok L =>
        simp only []
        cases finishR cfg.ext f.cfg f.fixes L with
        | error e => rfl
        | ok r =>
          simp only []
          cases frameCheck r.1 <;> simp [pure, Except.pure]
    | jsondata =>
      simp only [makePrecursor, finish_R, bind, Except.bind, Except.map]
      cases layout cells with
      | error e => rfl
      | ok L =>
        simp only []
        cases finishR cfg.ext f.cfg f.fixes L <;> simp [pure, Except.pure]
    | cellgrid => simp [Except.map]
  | template => simp [Except.map]
  | blank => simp [Except.map]

/-- the verdict on one block — rejected by the filter (`none`), delivered with a value, or failed with an
    exception class — as a function of the block and the fixer's *configuration* alone -/
def verdict (cfg : Config) (fcfg : FixCfg) (b : Block Row) : Option (Except PyExc BlockVal) :=
  if !accepts cfg b.ty b.rows then none else some ((handleR cfg fcfg 0 b.ty b.rows).map (·.1))

/-- what a run delivers, reports and how it ends, block by block from the verdicts -/
def runV (cfg : Config) (fcfg : FixCfg) : List (Block Row) → List Delivered × List Nat × Ending
  | [] => ([], [], .exhausted)
  | b :: bs =>
    match verdict cfg fcfg b with
    | none => runV cfg fcfg bs
    | some (.ok v) => (⟨b.ty, b.first, v⟩ :: (runV cfg fcfg bs).1, (runV cfg fcfg bs).2.1, (runV cfg fcfg bs).2.2)
    | some (.error e) =>
      if caught e then
        match cfg.tracker with
        | .raising => ([], [b.first], .inputError b.first)
        | .collecting => ((runV cfg fcfg bs).1, b.first :: (runV cfg fcfg bs).2.1, (runV cfg fcfg bs).2.2)
      else ([], [], .escaped e)

def view (r : Result) : List Delivered × List Nat × Ending := (r.blocks, r.issues, r.ending)

theorem reset_cfg (f : Fixer) : f.reset.cfg = f.cfg := rfl
theorem reset_fixes (f : Fixer) : f.reset.fixes = 0 := rfl

/-- `block_output` over a stream is the verdict-by-verdict run: counters are reset before every block, so what is
    delivered, reported and how the read ends never depends on the counters or messages in the fixer -/
theorem runBlocks_eq_runV (cfg : Config) (bs : List (Block Row)) (f : Fixer) :
    view (runBlocks cfg bs f) = runV cfg f.cfg bs ∧ (runBlocks cfg bs f).fixer.cfg = f.cfg := by
  induction bs generalizing f with
  | nil => simp [runBlocks, runV, view]
  | cons b bs ih =>
    unfold runBlocks runV verdict
    by_cases ha : accepts cfg b.ty b.rows = true
    · simp only [ha, Bool.not_true, Bool.false_eq_true, if_false]
      rw [handle_R, reset_cfg, reset_fixes]
      cases hh : handleR cfg f.cfg 0 b.ty b.rows with
      | error e =>
        simp only [Except.map]
        by_cases hc : caught e = true
        · simp only [hc, if_true]
          cases cfg.tracker with
          | raising => simp [view, reset_cfg]
          | collecting =>
            obtain ⟨h1, h2⟩ := ih f.reset
            simp only [view, reset_cfg] at h1 h2 ⊢
            rw [← h1]
            exact ⟨rfl, h2⟩
        · simp [hc, view, reset_cfg]
      | ok r =>
        simp only [Except.map]
        obtain ⟨h1, h2⟩ := ih (grow f.reset r.2)
        simp only [view, grow_cfg, reset_cfg] at h1 h2 ⊢
        rw [← h1]
        exact ⟨rfl, h2⟩
    · simp only [ha, Bool.not_false, if_true]
      have := ih f.reset
      simpa [reset_cfg] using this

/-- **isolation**: two fixers with the same configuration — whatever counters and messages earlier blocks left in
    them — give the same delivered blocks, the same reported issues and the same ending on every stream of
    blocks. (Messages do accumulate across blocks in the fixer; nothing depends on them.) -/
theorem isolation (cfg : Config) (bs : List (Block Row)) (f g : Fixer) (h : f.cfg = g.cfg) :
    view (runBlocks cfg bs f) = view (runBlocks cfg bs g) := by
  rw [(runBlocks_eq_runV cfg bs f).1, (runBlocks_eq_runV cfg bs g).1, h]

/-- in particular the verdict on the blocks after a prefix `pre` is the verdict they get when read on their own
    with a fresh fixer of the same configuration -/
theorem isolation_after_prefix (cfg : Config) (pre bs : List (Block Row)) (f : Fixer) :
    runV cfg f.cfg bs = view (runBlocks cfg bs ⟨f.cfg, 0, 0, []⟩) ∧
    runV cfg f.cfg bs = view (runBlocks cfg bs (runBlocks cfg pre f).fixer) := by
  constructor
  · rw [(runBlocks_eq_runV cfg bs _).1]
  · rw [(runBlocks_eq_runV cfg bs _).1, (runBlocks_eq_runV cfg pre f).2]

/-- the fixer's configuration is never changed by reading -/
theorem config_kept (cfg : Config) (rows : List Row) (f : Fixer) : (parseBlocks cfg rows f).fixer.cfg = f.cfg :=
  (runBlocks_eq_runV cfg (segment rows) f).2

/-! ## 11. non-vacuity: one table with every kind of defect -/

def exLayout : Layout :=
  ⟨"t".toList, false, ["all".toList], ["a".toList, "a".toList, "c".toList, "d".toList],
   ["m".toList, "onoff".toList, "datetime".toList, "text".toList],
   [[.str "1.5".toList, .str "1".toList, .str "-".toList, .str "x".toList],
    [.str "xx".toList, .str "maybe".toList],
    [.str "nan".toList, .str "0".toList, .str "yesterday".toList, .str "".toList]]⟩

/-- lenient stock read: 1 duplicate name + 1 short row = 2 errors; "xx", "maybe", the onoff filler … wait: the
    filler lands in columns c (datetime: NaT, legal) and d (text), so the illegal cells are "xx", "maybe" and
    "yesterday" = 3 warnings; names repaired to a, a_fixed_000, c, d; full 4 × 3 shape -/
example :
    (finish exampleExt exLayout ⟨FixCfg.lenient, 0, 0, []⟩).toOption.map
      (fun r => (r.1.names, r.1.columns, r.2.errors, r.2.warnings, r.2.msgs)) =
    some (["a".toList, "a_fixed_000".toList, "c".toList, "d".toList],
          [.num ["1.5".toList, NaN, NaN], .onoff [true, false, false], .dt [NaT, NaT, NaT],
           .text ["x".toList, "NaN".toList, [] ]],
          2, 3,
          [.dup "a".toList 1, .missingRow 1, .illegal "float".toList "xx".toList,
           .illegal "onoff".toList "maybe".toList, .illegal "datetime".toList "yesterday".toList]) := by decide

/-- the strict read of the same layout fails; the strict read of a clean layout succeeds with nothing counted -/
example : (finish exampleExt exLayout ⟨FixCfg.strict, 0, 0, []⟩).toOption.isNone = true := by decide

example : Spec.errorsOf exLayout = 2 ∧ Spec.warningsOf exampleExt exLayout = 3 := by decide

example : (repairedNames exLayout.names0).Nodup := names_unique _

/-! ## 11b. a lenient read returns a TABLE (not only a precursor) -/

theorem rawColumns_length_eq (rows0 : List Row) (n : Nat) (hne : rows0 ≠ []) : (Spec.rawColumns rows0 n).length = n := by
  unfold Spec.rawColumns
  have : rows0.isEmpty = false := by cases rows0 <;> simp_all
  simp [this]

/-- with one unit per name, every column of the table a layout yields is as long as there are value rows -/
theorem tableOf_column_lengths (ext : Ext) (cfg : FixCfg) (L : Layout) (p : Precursor)
    (ht : Spec.tableOf ext cfg L = .ok p) (hu : L.units.length = L.names0.length) :
    ∀ c ∈ p.columns, c.length = L.rows0.length := by
  unfold Spec.tableOf at ht
  cases hp : Spec.typeColumns ext cfg L.units (Spec.rawColumns L.rows0 L.names0.length) with
  | error e => simp [hp, Except.map] at ht
  | ok parsed =>
    simp [hp, Except.map] at ht
    subst ht
    have hi := typeColumns_index ext cfg _ _ parsed hp
    intro c hc
    simp only [List.mem_append, List.mem_replicate] at hc
    by_cases hne : L.rows0 = []
    · have hr : Spec.rawColumns L.rows0 L.names0.length = [] := by simp [Spec.rawColumns, hne]
      have hl : parsed.length = 0 := by rw [hi.1, hr]; simp
      have hnil : parsed = [] := List.eq_nil_of_length_eq_zero hl
      rcases hc with hc | ⟨_, hc⟩
      · simp [hnil] at hc
      · subst hc; simp [ColVals.length, hne]
    · have hl : parsed.length = L.names0.length := by
        rw [hi.1, rawColumns_length_eq _ _ hne, hu]; simp
      rcases hc with hc | ⟨h0, _⟩
      · obtain ⟨j, hj, hjc⟩ := List.getElem_of_mem hc
        have hju : j < L.units.length := by omega
        have hjn : j < L.names0.length := by omega
        obtain ⟨v, hv, htc⟩ := hi.2 j _ _ (by simp [hju] : L.units[j]? = some L.units[j])
          (rawColumns_get L.rows0 _ j hne hjn)
        have : v = c := by
          have : parsed[j]? = some c := by simp [hj, hjc]
          rw [this] at hv; exact (Option.some.inj hv).symm
        subst this
        simpa [Spec.columnCells] using (typeColumn_cellwise ext cfg _ _ v htc).1
      · omega

/-- **a lenient read returns a table**: `_make_table` = precursor + DataFrame construction. With a lenient fixer the
    table is delivered — with exactly the values, names and counters of `finish_closed` — provided the header is whole
    (one unit per name), the columns can be typed at all, and no datetime column mixes UTC offsets. The last
    hypothesis is about the RESULT: it includes the fixer's replacement. A custom fixer must therefore return a
    timestamp that fits the column (a tz-naive replacement in a column of `…Z` timestamps makes pandas keep the column
    as objects, and the table is refused with a located error — `frameCheck`, `.columnUnit`). -/
theorem lenient_table_succeeds (ext : Ext) (cells : List Row) (f0 : Fixer) (L : Layout) (p : Precursor)
    (hl : layout cells = .ok L) (hs : f0.cfg.stopOnErrors = false)
    (ht : Spec.tableOf ext f0.cfg L = .ok p) (hu : L.units.length = L.names0.length)
    (hh : ∀ c ∈ p.columns, c.dtInhomogeneous = false) :
    makeTable ext cells f0 =
      .ok (p, bump f0 (Spec.errorsOf L) (Spec.warningsOf ext L) (Spec.msgsOf ext L)) := by
  have hlen := tableOf_column_lengths ext f0.cfg L p ht hu
  have hfc : frameCheck p = .ok () := by
    unfold frameCheck
    cases hc : p.columns with
    | nil => rfl
    | cons c cs =>
      simp only []
      have h1 : cs.all (fun d => decide (d.length = c.length)) = true := by
        rw [List.all_eq_true]
        intro d hd
        have e1 := hlen d (by rw [hc]; exact List.mem_cons_of_mem _ hd)
        have e2 := hlen c (by rw [hc]; exact List.mem_cons_self)
        simp [e1, e2]
      have h2 : (c :: cs).any ColVals.dtInhomogeneous = false := by
        rw [List.any_eq_false]
        intro d hd
        have := hh d (by rw [hc]; exact hd)
        simp [this]
      simp [h1, h2]
  rw [makeTable_eq]
  simp only [makePrecursor, hl, bind, Except.bind]
  rw [lenient_succeeds ext L f0 hs, ht]
  simp [Except.map, Except.bind, hfc]

/-! ## 11c. the notion of "illegal" against the independent typing rules of C02 -/

/-- an onoff cell is illegal exactly when the declarative truth table of C02 gives it no value -/
theorem illegal_onoff_iff (ext : Ext) (c : Cell) : Spec.illegal ext uOnoff c = true ↔ C02.Spec.onoff c = none := by
  have h1 : uOnoff ≠ uText := by decide
  simp [Spec.illegal, h1]

/-- a text cell of a numeric column is illegal exactly when it is no missing-value marker (C02.Spec.IsMarker) and
    `float()` refuses it -/
theorem illegal_numeric_text_iff (ext : Ext) (u : Str) (s : Str) (h1 : u ≠ uText) (h2 : u ≠ uOnoff) (h3 : u ≠ uDatetime) :
    Spec.illegal ext u (.str s) = true ↔ ¬ C02.Spec.IsMarker s ∧ ext.parseFloat s = none := by
  simp only [Spec.illegal, h1, h2, h3, if_false]
  by_cases hm : C02.Spec.IsMarker s
  · have := (C02.type_numeric_missing ext).1 s hm
    simp [this, hm]
  · rw [C02.type_numeric_text ext s hm]
    simp [hm]

/-- nothing is ever illegal in a text column -/
theorem illegal_text (ext : Ext) (c : Cell) : Spec.illegal ext uText c = false := by
  simp [Spec.illegal]

/-! ## 12. negation witness: value rows cut short in a TRANSPOSED table (open known finding F5) -/

/-- the statement "a strict read of a table with rows cut short fails, naming them" is FALSE for transposed tables:
    `**t*` / `all` / `a;-;1;2;3` / `b;text;x` — line `b` lost its last two cells — is read by the strict default
    reader without any error: nothing is counted, nothing is named, the text column holds "None" where cells are
    missing. (Replayed on the implementation by the harness every run: `f5_witness`.) -/
def f5Grid : List Row :=
  [[.str "**t*".toList], [.str "all".toList],
   [.str "a".toList, .str "-".toList, .str "1".toList, .str "2".toList, .str "3".toList],
   [.str "b".toList, .str "text".toList, .str "x".toList]]

def f5Ext : Ext :=
  ⟨fun s => if s = "1".toList then some "1.0".toList else if s = "2".toList then some "2.0".toList
            else if s = "3".toList then some "3.0".toList else none,
   fun _ => .valueError, fun c => '0' ≤ c && c ≤ '9'⟩

example :
    (makeTable f5Ext f5Grid ⟨FixCfg.strict, 0, 0, []⟩).toOption.map
      (fun r => (r.1.columns, r.2.errors, r.2.warnings, r.2.msgs)) =
    some ([.num ["1.0".toList, "2.0".toList, "3.0".toList], .text ["x".toList, "None".toList, "None".toList]],
          0, 0, []) := by decide

/-- the same table written row-wise, the last two rows cut short, IS refused by the strict reader -/
example :
    (makeTable f5Ext
      [[.str "**t".toList], [.str "all".toList], [.str "a".toList, .str "b".toList],
       [.str "-".toList, .str "text".toList], [.str "1".toList, .str "x".toList], [.str "2".toList], [.str "3".toList]]
      ⟨FixCfg.strict, 0, 0, []⟩).toOption.isNone = true := by decide

end Pdt.C13
