/-
  Props/C13.lean — "Every repaired defect is counted and reported; nothing else is altered".

  Theorems about the executable reader model (Model/Reader.lean `finish` / `makePrecursor`, Model/Blocks.lean
  `runBlocks` / `parseBlocks`), for every layout, every external `float()` / `to_datetime` behaviour `ext` and
  every fixer configuration.

  The core result is a *closed form* of the fixer-dependent part of the reader (`core_closed`):

      finish = (values as a function of the layout and the fixer's replacement values only)
               × (fixer counters / messages grown by exactly the defects: E errors, W warnings, messages M)
               followed by `report()` (fail iff counters > 0 and stop_on_errors)

  from which the clauses of the property are read off:
    counts                 errors = #names already taken + #short rows, warnings = #illegal cells (fillers included)
    lenient_shape          same number of names, one column per name, every parsed column as long as the value rows
    lenient_values         every column is `C02.Spec.typeColumn` (cell-wise: own value, or the replacement) of the raw
                           column where cut-off cells are the filler text "NaN"
    filler_values          what the filler parses to per unit
    names_unique           the repaired names are pairwise different (≤ 1000 columns)
    strict_fails_iff_defect, strict_names_all   strict read = lenient read + "fail iff something was counted";
                           one message per counted defect, naming it
    isolation              blocks, issues and ending of a stream depend on the fixer's configuration only, not on
                           the counters / messages left by earlier blocks
-/
import PdtModel.Props.C02
import PdtModel.Model.Blocks
set_option linter.unusedSimpArgs false
set_option linter.unusedVariables false
namespace Pdt.C13
open Pdt Pdt.Reader Pdt.Blocks Pdt.C02

/-! ## 0. constants translated from fixer.py, pinned -/

/-- the stock replacements: False / NaT / NaN -/
theorem fixer_defaults_pinned :
    Gen.fixerDefaults = [("onoff", "False"), ("datetime", "pd.NaT"), ("float", "np.nan"), ("-", "np.nan")] := by
  decide

theorem stock_cfg_pinned :
    FixCfg.strict = ⟨true, "nan".toList, false, "NaT".toList⟩ ∧
    FixCfg.lenient = ⟨false, "nan".toList, false, "NaT".toList⟩ := by decide

/-! ## 1. declarative vocabulary (written from the property text) -/

namespace Spec

/-- the filler text a cut-off cell is given -/
def filler : Cell := .str "NaN".toList

/-- a value row is short when it has fewer cells than there are column names -/
def isShort (n : Nat) (r : Row) : Bool := decide (r.length < n)

def shortCount (rows0 : List Row) (n : Nat) : Nat := rows0.countP (isShort n)

/-- the raw cells of column `j` as the column parser sees them: the cell of the row where the row reaches that
    far, the filler text otherwise -/
def columnCells (rows0 : List Row) (j : Nat) : List Cell := rows0.map (fun r => r.getD j filler)

/-- is this raw cell illegal for a column with unit `u` (text: never) -/
def illegal (ext : Ext) (u : Str) (c : Cell) : Bool :=
  if u = "text".toList then false
  else if u = "onoff".toList then (C02.Spec.onoff c).isNone
  else if u = "datetime".toList then dtIsFix ext c
  else (floatCell ext c).isNone

def illegalCount (ext : Ext) (u : Str) (cells : List Cell) : Nat := cells.countP (illegal ext u)

/-- the `vtype` the fixer is told for a unit -/
def vtype (u : Str) : Str :=
  if u = "onoff".toList then "onoff".toList else if u = "datetime".toList then "datetime".toList else "float".toList

/-- number of names that were already taken by a (repaired) name to their left -/
def takenCount (seen : List Str) : List Str → List Str → Nat
  | n :: ns, o :: os => (if n ∈ seen then 1 else 0) + takenCount (seen ++ [o]) ns os
  | _, _ => 0

/-- the duplicate-name messages: name and position of every name already taken -/
def takenMsgs (seen : List Str) : List Str → List Str → Nat → List Msg
  | n :: ns, o :: os, i => (if n ∈ seen then [Msg.dup n i] else []) ++ takenMsgs (seen ++ [o]) ns os (i + 1)
  | _, _, _ => []

/-- the short-row messages: index of every short value row -/
def shortMsgs (n : Nat) : List Row → Nat → List Msg
  | [], _ => []
  | r :: rs, i => (if isShort n r then [Msg.missingRow i] else []) ++ shortMsgs n rs (i + 1)

/-- the illegal-cell messages of the parsed columns, column by column -/
def illegalMsgs (ext : Ext) : List Str → List (List Cell) → List Msg
  | u :: us, c :: cs => List.replicate (illegalCount ext u c) (Msg.illegal (vtype u)) ++ illegalMsgs ext us cs
  | _, _ => []

def illegalTotal (ext : Ext) : List Str → List (List Cell) → Nat
  | u :: us, c :: cs => illegalCount ext u c + illegalTotal ext us cs
  | _, _ => 0

/-- the columns `zip(names, units, zip(*data_rows))` reaches, typed one by one; the first failing one decides -/
def typeColumns (ext : Ext) (cfg : FixCfg) : List Str → List (List Cell) → Except PyExc (List ColVals)
  | u :: us, c :: cs =>
    match C02.Spec.typeColumn ext cfg u c with
    | .error e => .error e
    | .ok v => (typeColumns ext cfg us cs).map (v :: ·)
  | _, _ => .ok []

end Spec

/-! ## 2. the fixer only grows: `bump` -/

/-- counters and messages grown by `e` errors, `w` warnings and the messages `m` -/
def bump (f : Fixer) (e w : Nat) (m : List Msg) : Fixer :=
  { f with errors := f.errors + e, warnings := f.warnings + w, msgs := f.msgs ++ m }

@[simp] theorem bump_zero (f : Fixer) : bump f 0 0 [] = f := by
  cases f; simp [bump]

@[simp] theorem bump_bump (f : Fixer) (e w e' w' : Nat) (m m' : List Msg) :
    bump (bump f e w m) e' w' m' = bump f (e + e') (w + w') (m ++ m') := by
  cases f; simp [bump, Nat.add_assoc]

@[simp] theorem bump_cfg (f : Fixer) (e w : Nat) (m : List Msg) : (bump f e w m).cfg = f.cfg := rfl

theorem illegal_eq_bump (f : Fixer) (vt : String) : f.illegal vt = bump f 0 1 [.illegal vt.toList] := by
  cases f; simp [bump, Fixer.illegal]

/-! ## 3. closed forms of the column parsers -/

theorem parseWith_closed {α : Type} (cellFn : Cell → Option α) (rep : FixCfg → α) (vt : String)
    (cells : List Cell) (f : Fixer) :
    parseWith cellFn rep vt cells f =
      (cells.map (fun c => (cellFn c).getD (rep f.cfg)),
       bump f 0 (cells.countP (fun c => (cellFn c).isNone))
         (List.replicate (cells.countP (fun c => (cellFn c).isNone)) (.illegal vt.toList))) := by
  induction cells generalizing f with
  | nil => simp [parseWith]
  | cons c cs ih =>
    unfold parseWith
    cases hc : cellFn c with
    | some b => simp [ih f, List.countP_cons, hc]
    | none =>
      simp only [ih (f.illegal vt), illegal_cfg]
      simp [illegal_eq_bump, List.countP_cons, hc, List.replicate_succ, Nat.add_comm]

theorem dtValues_cfg_free (ext : Ext) (rep : Str) (cells : List Cell) :
    True := trivial

theorem parseDatetime_closed (ext : Ext) (cells : List Cell) (f : Fixer) :
    parseDatetime ext cells f =
      (dtValues ext f.cfg.repDt cells).map (fun v =>
        (v, bump f 0 (cells.countP (dtIsFix ext))
              (List.replicate (cells.countP (dtIsFix ext)) (.illegal "datetime".toList)))) := by
  induction cells generalizing f with
  | nil => simp [parseDatetime, dtValues, Except.map]
  | cons c cs ih =>
    unfold parseDatetime dtValues
    cases hc : dtCell ext c with
    | ok t =>
      simp only [ih f, bind, Except.bind, Except.map]
      cases dtValues ext f.cfg.repDt cs <;> simp [Except.map, pure, Except.pure, List.countP_cons, dtIsFix, hc]
    | fix =>
      simp only [ih (f.illegal "datetime"), illegal_cfg, bind, Except.bind, Except.map]
      cases dtValues ext f.cfg.repDt cs <;>
        simp [Except.map, pure, Except.pure, List.countP_cons, dtIsFix, hc, illegal_eq_bump, List.replicate_succ,
          Nat.add_comm]
    | raiseValue => rfl
    | raises n => rfl

/-- **a column parser calls the fixer once per illegal cell and for nothing else**: `parse_column` is the
    declarative typing of the column (C02) and the fixer grown by one warning + one message per illegal cell -/
theorem parseColumn_closed (ext : Ext) (u : Str) (cells : List Cell) (f : Fixer) :
    parseColumn ext u cells f =
      (C02.Spec.typeColumn ext f.cfg u cells).map (fun v =>
        (v, bump f 0 (Spec.illegalCount ext u cells)
              (List.replicate (Spec.illegalCount ext u cells) (.illegal (Spec.vtype u))))) := by
  unfold parseColumn C02.Spec.typeColumn Spec.illegalCount Spec.illegal Spec.vtype
  by_cases h1 : u = "text".toList
  · subst h1; simp [Except.map]
  · simp only [h1, if_false]
    by_cases h2 : u = "onoff".toList
    · subst h2
      simp [Except.map, parseOnoff, parseWith_closed, type_onoff_cell]
    · simp only [h2, if_false]
      by_cases h3 : u = "datetime".toList
      · subst h3
        simp only [if_true, parseDatetime_closed, bind, Except.bind, Except.map]
        cases dtValues ext f.cfg.repDt cells <;> simp [pure, Except.pure]
      · simp [h3, Except.map, parseFloat, parseWith_closed]

theorem parseColumns_closed (ext : Ext) (us : List Str) (cols : List Row) (f : Fixer) :
    parseColumns ext us cols f =
      (Spec.typeColumns ext f.cfg us cols).map (fun vs =>
        (vs, bump f 0 (Spec.illegalTotal ext us cols) (Spec.illegalMsgs ext us cols))) := by
  induction us generalizing cols f with
  | nil => simp [parseColumns, Spec.typeColumns, Spec.illegalTotal, Spec.illegalMsgs, Except.map]
  | cons u us ih =>
    cases cols with
    | nil => simp [parseColumns, Spec.typeColumns, Spec.illegalTotal, Spec.illegalMsgs, Except.map]
    | cons c cs =>
      simp only [parseColumns, Spec.typeColumns, Spec.illegalTotal, Spec.illegalMsgs, parseColumn_closed,
        bind, Except.bind]
      cases h1 : C02.Spec.typeColumn ext f.cfg u c with
      | error e => simp [Except.map]
      | ok v =>
        simp only [Except.map, ih, bump_cfg]
        cases Spec.typeColumns ext f.cfg us cs <;> simp [Except.map, pure, Except.pure]

end Pdt.C13
