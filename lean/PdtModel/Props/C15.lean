/-
  Props/C15.lean — "Special units always match the data: text is strings, onoff is booleans".

  Statement (properties.jsonl C15): for every strict-typed table frame with at least one row, whenever its
  metadata is consulted a column labelled 'text' has a string/object dtype, a column labelled 'onoff' has a
  boolean dtype, and no other column carries either label; columns created without an explicit unit get
  'text', 'onoff' or '-' according to their dtype.  A data assignment, construction or pandas operation that
  would break this is refused with an error at that point or at the next consultation (relabelling a unit
  through the unit setter is a pure metadata edit outside this guarantee).

  Shape of the proof: `check_establishes` (a successful full validation of a strict frame with rows yields
  `Spec.Cons`, from *any* register), `shortcut_sound` (when validation is skipped the remembered validated
  state is the current one, emptiness included), `step_goodC` (every operation other than a relabelling that
  involves a special unit preserves the invariant behind the short cut, frame effects universally
  quantified), `reachable_cons` (all finite histories), `revalidation_restores` (after an excluded relabelling
  the guarantee is back at the next full validation, from any state whatsoever).
-/
import PdtModel.Lemmas.MetaRule
set_option linter.unusedSimpArgs false
set_option linter.unusedVariables false
namespace Pdt.C15
open Pdt Pdt.Meta

/-! ## tie to the source: translated constants the model is defined over -/

theorem unit_from_dtype_kind_pinned :
    Gen.unitFromDtypeKind = [('M', "-".toList), ('O', "text".toList), ('S', "text".toList), ('U', "text".toList),
      ('b', "onoff".toList), ('f', "-".toList), ('i', "-".toList), ('u', "-".toList)] := by decide

theorem units_special_pinned : Gen.unitsSpecial = ["onoff".toList, "text".toList] := by decide

/-! ## declarative side (literal constants only) -/

namespace Spec

def lookup (r : Reg) (n : Str) : Option ColMeta := (r.find? (fun kv => kv.1 = n)).map (·.2)

def textKind (k : Str) : Prop := k = "O".toList ∨ k = "S".toList ∨ k = "U".toList
def boolKind (k : Str) : Prop := k = "b".toList

/-- 'text' exactly on string/object kinds, 'onoff' exactly on the boolean kind -/
def Matches (unit kind : Str) : Prop :=
  (unit = "text".toList ↔ textKind kind) ∧ (unit = "onoff".toList ↔ boolKind kind)

/-- every dataframe column has a unit and it matches the column's dtype kind -/
def Cons (t : Tbl) : Prop :=
  ∀ c ∈ t.frame.cols, ∃ m, lookup t.info.reg c.name = some m ∧ Matches m.unit c.kind

/-- unit of a column created without an explicit unit -/
def defaultUnit (kind : Str) : Str :=
  if kind = "b".toList then "onoff".toList
  else if kind = "O".toList ∨ kind = "S".toList ∨ kind = "U".toList then "text".toList
  else "-".toList

def special (u : Str) : Prop := u = "text".toList ∨ u = "onoff".toList

/-- a relabelling that neither puts nor removes a special unit (with respect to register `r`) -/
def Physical (r : Reg) (m : List (Str × Str)) : Prop :=
  ∀ p ∈ m, ¬ special p.2 ∧ ∀ cm, lookup r p.1 = some cm → ¬ special cm.unit

end Spec

theorem get_eq_lookup (r : Reg) (n : Str) : get r n = Spec.lookup r n := by
  induction r with
  | nil => simp [Meta.get, Spec.lookup]
  | cons kv r ih =>
    obtain ⟨k, v⟩ := kv
    by_cases h : k = n
    · simp [Meta.get, Spec.lookup, List.find?_cons, h]
    · simp only [Meta.get, Spec.lookup, List.find?_cons, h, decide_false, if_false] at ih ⊢
      exact ih

theorem matches_iff (u k : Str) : Spec.Matches u k ↔ Consistent u k := Iff.rfl
theorem defaultUnit_eq (k : Str) : Spec.defaultUnit k = Meta.defaultUnit k := rfl

theorem special_iff (u : Str) : Spec.special u ↔ isSpecial u = true := by
  rw [isSpecial_iff]; unfold Spec.special
  constructor <;> (intro h; rcases h with h | h) <;> simp [h]

/-! ## `check_dtype` and the default units -/

/-- `check_dtype` accepts a unit for a dtype kind exactly when the kind is one pdtable knows
    (b i u f M O S U) and the unit matches it -/
theorem check_dtype_rule (m : ColMeta) (k : Str) :
    checkDtype m k = .ok () ↔
      ((k = "b".toList ∨ k = "i".toList ∨ k = "u".toList ∨ k = "f".toList ∨ k = "M".toList ∨
        k = "O".toList ∨ k = "S".toList ∨ k = "U".toList) ∧ Spec.Matches m.unit k) :=
  checkDtype_ok_iff m k

/-- the unit derived from a dtype is the default unit and always matches -/
theorem from_dtype_rule (k u : Str) (h : unitFromKind k = .ok u) :
    u = Spec.defaultUnit k ∧ Spec.Matches u k := by
  obtain ⟨_, hu⟩ := unitFromKind_ok k u h
  exact ⟨hu, by rw [hu]; exact defaultUnit_consistent k⟩

/-- **default units**: in a successful validation of a frame with rows (strict or not) every column that had
    no register entry gets 'onoff' / 'text' / '-' by dtype kind -/
theorem default_units (strict : Bool) (r r' : Reg) (f : Frame)
    (h : updateColumns strict r f = (r', none)) (he : f.empty = false) :
    ∀ c ∈ f.cols, Spec.lookup r c.name = none →
      Spec.lookup r' c.name = some { unit := Spec.defaultUnit c.kind } := by
  intro c hc hn
  rw [← get_eq_lookup] at hn ⊢
  exact updateColumns_ok_default strict r r' f h he c hc hn

/-- `add_column` / `__setitem__` without a unit: the (new or overwritten) column's unit is the default unit
    of the dtype the assignment produced -/
theorem add_column_default (i : Info) (f : Frame) (n : Str) (du fm : Option Str) (c : Col)
    (hc : f.cols.find? (fun c => c.name = n) = some c) (i' : Info)
    (h : addColumn i f n none du fm = (i', none)) :
    ∃ m, Spec.lookup i'.reg n = some m ∧ m.unit = Spec.defaultUnit c.kind ∧ i'.last = none := by
  unfold addColumn at h
  by_cases hd : dupLabel f n = true
  · simp [hd] at h
  simp only [Option.isNone_none, Bool.true_and, hd, Bool.false_eq_true, if_false] at h
  unfold addColumnCore at h
  simp only [hc] at h
  cases hu : unitFromKind c.kind with
  | error e => simp [hu] at h
  | ok u =>
    obtain ⟨_, hu'⟩ := unitFromKind_ok _ _ hu
    simp only [hu] at h
    cases hg : get i.reg n with
    | none =>
      simp only [hg] at h
      obtain ⟨rfl, _⟩ := Prod.mk.inj h
      refine ⟨{ unit := u, dunit := du, fmt := fm }, ?_, hu', rfl⟩
      rw [← get_eq_lookup, get_set]; simp
    | some col =>
      simp only [hg] at h
      obtain ⟨rfl, _⟩ := Prod.mk.inj h
      refine ⟨updateFrom col { unit := u, dunit := du, fmt := fm }, ?_, ?_, rfl⟩
      · rw [← get_eq_lookup, get_set]; simp
      · simp [updateFrom, hu', defaultUnit_eq]

/-! ## one consultation -/

theorem cons_of (i : Info) (f : Frame) (hk : keys i.reg = f.names) (hc : ConsReg i.reg f) : Spec.Cons ⟨i, f⟩ := by
  intro c hcm
  have hin : c.name ∈ keys i.reg := by rw [hk]; exact List.mem_map.2 ⟨c, hcm, rfl⟩
  obtain ⟨m, hm⟩ := mem_keys_get _ _ hin
  exact ⟨m, by rw [← get_eq_lookup]; exact hm, (hc c hcm m hm).2⟩

/-- **a successful full validation of a strict frame with rows establishes consistency**, whatever the
    register looked like before (stale, relabelled, foreign) -/
theorem check_establishes (r r' : Reg) (f : Frame) (last : Option Frame)
    (h : updateColumns true r f = (r', none)) (he : f.empty = false) :
    Spec.Cons ⟨{ reg := r', last := last, strict := true }, f⟩ :=
  cons_of { reg := r', last := last, strict := true } f (updateColumns_ok_keys true r r' f h he) (updateColumns_ok_cons r r' f h he)

/-- a validation that would leave an inconsistent strict table readable does not succeed: if the frame has a
    column whose registered unit does not match its dtype kind, `_update_columns` raises -/
theorem refuses_mismatch (r : Reg) (f : Frame) (he : f.empty = false) (c : Col) (hc : c ∈ f.cols) (m : ColMeta)
    (hm : Spec.lookup r c.name = some m) (hbad : ¬ Spec.Matches m.unit c.kind) :
    ∃ e, (updateColumns true r f).2 = some e := by
  cases h : updateColumns true r f with
  | mk r' e =>
    cases e with
    | some e => exact ⟨e, rfl⟩
    | none =>
      exfalso
      have hkeep := updateColumns_ok_keeps true r r' f h he c hc m (by rw [get_eq_lookup]; exact hm)
      exact hbad (updateColumns_ok_cons r r' f h he c hc m hkeep).2

/-- **short-cut soundness**: when validation is skipped (`last = some f`: same column names, same dtypes,
    *same emptiness* as the last validated state, *and the strict flag it was validated under*) the
    consultation changes nothing and, for a strict frame with rows, the table is consistent — by the
    invariant every operation maintains -/
theorem shortcut_sound (i : Info) (f : Frame) (hg : Good i) (hgc : GoodC i) (hl : i.last = some f)
    (hls : i.lastStrict = i.strict) :
    checkDataframe i f = (i, none) ∧ (i.strict = true → f.empty = false → Spec.Cons ⟨i, f⟩) := by
  refine ⟨by simp [checkDataframe, hl, hls], ?_⟩
  intro hs he
  exact cons_of i f (hg.keysOk f hl (Or.inl he)) (hgc f hl he (by rw [hls]; exact hs))

/-- why emptiness has to be part of the remembered state: a `text`-labelled float column validated while the
    frame had no rows (all checks skipped) is *not* consistent once a row exists, although names and dtypes are
    unchanged; the model's short cut does not fire and the re-validation refuses the table -/
example :
    let fE : Frame := ⟨[⟨"a".toList, "f8".toList, "f".toList⟩], true⟩
    let fR : Frame := ⟨[⟨"a".toList, "f8".toList, "f".toList⟩], false⟩
    (make fE (some ["text".toList]) none true).toOption.map (fun i =>
      (decide (i.last = some fE), decide (fE.cols = fR.cols), (checkDataframe i fR).2)) =
    some (true, true, some Err.columnUnit) := by decide

/-- after a successful consultation (validated or skipped) of a strict frame with rows the table is consistent -/
theorem cons_after_check (i i' : Info) (f : Frame) (hg : Good i) (hgc : GoodC i)
    (h : checkDataframe i f = (i', none)) (hs : i.strict = true) (he : f.empty = false) :
    Spec.Cons ⟨i', f⟩ := by
  have hg' := checkDataframe_good i f hg
  have hgc' := checkDataframe_goodC i f hgc
  have hst := checkDataframe_strict i f
  rw [h] at hg' hgc' hst
  have hl := checkDataframe_ok_last i i' f h
  have hls := checkDataframe_ok_lastStrict i i' f h
  exact cons_of i' f (hg'.keysOk f hl (Or.inl he)) (hgc' f hl he (by simp only at hst ⊢; rw [hls, hst]; exact hs))

/-! ## every operation that is not an excluded relabelling preserves the invariant -/

theorem physical_iff (r : Reg) (m : List (Str × Str)) :
    Spec.Physical r m ↔ ∀ p ∈ m, isSpecial p.2 = false ∧ ∀ cm, get r p.1 = some cm → isSpecial cm.unit = false := by
  unfold Spec.Physical
  constructor
  · intro h p hp
    obtain ⟨h1, h2⟩ := h p hp
    refine ⟨by simpa using mt (special_iff p.2).2 h1, ?_⟩
    intro cm hcm
    simpa using mt (special_iff cm.unit).2 (h2 cm (by rw [← get_eq_lookup]; exact hcm))
  · intro h p hp
    obtain ⟨h1, h2⟩ := h p hp
    refine ⟨by rw [special_iff]; simp [h1], ?_⟩
    intro cm hcm
    rw [special_iff]
    simp [h2 cm (by rw [get_eq_lookup]; exact hcm)]

/-- replacing a non-special unit by a non-special unit keeps a matching column matching -/
theorem consistent_relabel (u u' k : Str) (h : Consistent u k) (hu : isSpecial u = false) (hu' : isSpecial u' = false) :
    Consistent u' k := by
  have n1 : ¬ (u = "onoff".toList ∨ u = "text".toList) := by
    intro h1; have := (isSpecial_iff u).2 h1; simp [hu] at this
  have n2 : ¬ (u' = "onoff".toList ∨ u' = "text".toList) := by
    intro h1; have := (isSpecial_iff u').2 h1; simp [hu'] at this
  unfold Consistent at h ⊢
  constructor
  · constructor
    · intro e; exact absurd (Or.inr e) n2
    · intro e; exact absurd (Or.inr (h.1.2 e)) n1
  · constructor
    · intro e; exact absurd (Or.inl e) n2
    · intro e; exact absurd (Or.inl (h.2.2 e)) n1

theorem assignUnits_consReg (r : Reg) (m : List (Str × Str)) (f0 : Frame) (hc : ConsReg r f0)
    (hp : ∀ p ∈ m, isSpecial p.2 = false ∧ ∀ cm, get r p.1 = some cm → isSpecial cm.unit = false) :
    ConsReg (assignUnits r m).1 f0 := by
  induction m generalizing r with
  | nil => simpa [assignUnits] using hc
  | cons p rest ih =>
    obtain ⟨n, u⟩ := p
    unfold assignUnits
    cases hg : get r n with
    | none => simpa using hc
    | some cm =>
      simp only
      obtain ⟨hu, hold⟩ := hp (n, u) (List.mem_cons_self)
      apply ih
      · intro c hcm m' hm'
        rw [get_set] at hm'
        by_cases hn : n = c.name
        · simp only [hn, if_true] at hm'
          cases hm'
          have := hc c hcm cm (by rw [← hn]; exact hg)
          exact ⟨this.1, consistent_relabel cm.unit u c.kind this.2 (hold cm hg) hu⟩
        · simp only [hn, if_false] at hm'
          exact hc c hcm m' hm'
      · intro p' hp'
        obtain ⟨h1, h2⟩ := hp p' (List.mem_cons_of_mem _ hp')
        refine ⟨h1, ?_⟩
        intro cm' hcm'
        rw [get_set] at hcm'
        by_cases hn : n = p'.1
        · simp only [hn, if_true] at hcm'
          cases hcm'
          exact hu
        · simp only [hn, if_false] at hcm'
          exact h2 cm' hcm'

theorem setUnits_goodC (i : Info) (f : Frame) (m : List (Str × Str)) (hg : GoodC i)
    (hp : Spec.Physical (checkDataframe i f).1.reg m) : GoodC (setUnits i f m).1 := by
  unfold setUnits
  have hc := checkDataframe_goodC i f hg
  rw [physical_iff] at hp
  cases h : checkDataframe i f with
  | mk i1 e =>
    rw [h] at hc hp
    cases e with
    | some e => simpa using hc
    | none =>
      simp only at hp ⊢
      have hk := fun f0 (hcr : ConsReg i1.reg f0) => assignUnits_consReg i1.reg m f0 hcr hp
      cases ha : assignUnits i1.reg m with
      | mk r e2 =>
        simp only [ha] at hk
        intro f0 hf0 he hs
        exact hk f0 (hc f0 hf0 he hs)

/-- editing a display format does not touch any unit -/
theorem setColFmt_goodC (i : Info) (f : Frame) (n : Str) (fm : Option Str) (hg : GoodC i) :
    GoodC (setColFmt i f n fm).1 := by
  unfold setColFmt
  have hc := checkDataframe_goodC i f hg
  cases h : checkDataframe i f with
  | mk i1 e =>
    rw [h] at hc
    cases e with
    | some e => simpa using hc
    | none =>
      simp only
      cases hget : get i1.reg n with
      | none => simpa using hc
      | some m =>
        intro f0 hf0 he hs c hcm m' hm'
        simp only at hf0 hs hm'
        rw [get_set] at hm'
        by_cases hn : n = c.name
        · simp only [hn, if_true] at hm'
          cases hm'
          exact hc f0 hf0 he hs c hcm m (by rw [← hn]; exact hget)
        · simp only [hn, if_false] at hm'
          exact hc f0 hf0 he hs c hcm m' hm'

/-- which operations are inside the guarantee: everything, except unit-setter calls that put or remove a
    special unit (the relabelling is judged against the register the setter sees, i.e. after its own
    consultation) -/
def Allowed (t : Tbl) : Op → Prop
  | .setUnits m => Spec.Physical (checkDataframe t.info t.frame).1.reg m
  | .setAllUnits us => Spec.Physical (checkDataframe t.info t.frame).1.reg (t.frame.names.zip us)
  | .setColUnit n u => Spec.Physical (checkDataframe t.info t.frame).1.reg [(n, u)]
  | _ => True

def AllowedRun (t : Tbl) : List Op → Prop
  | [] => True
  | op :: ops => Allowed t op ∧ AllowedRun (step t op).1 ops

theorem fresh_goodC (r : Reg) (strict : Bool) : GoodC { reg := r, last := none, strict := strict } := by
  intro f0 hf0; simp at hf0

theorem attach_goodC (reg : Reg) (strict : Bool) (f : Frame) (i : Info) (h : attach reg strict f = .ok i) :
    GoodC i := by
  unfold attach at h
  have hc := checkDataframe_goodC _ f (fresh_goodC reg strict)
  cases hcd : checkDataframe { reg := reg, last := none, strict := strict } f with
  | mk i1 e =>
    rw [hcd] at h hc
    cases e with
    | none => simp at h; rw [← h]; exact hc
    | some e => simp at h

theorem make_goodC (f : Frame) (us : Option (List Str)) (um : Option (List (Str × Str))) (strict : Bool) (i : Info)
    (h : make f us um strict = .ok i) : GoodC i := by
  unfold make at h
  by_cases hb : bothTruthy us um = true
  · simp [hb] at h
  · simp only [hb] at h
    exact attach_goodC _ strict f i h

theorem finalize_goodC (srcs : List Reg) (strict : Bool) (f : Frame) (i : Info)
    (h : finalize srcs strict f = .ok i) : GoodC i := by
  unfold finalize at h
  cases hc : combine f.names [] srcs with
  | error e => simp [hc] at h
  | ok reg => simp only [hc] at h; exact attach_goodC reg strict f i h

theorem addColumn_last (i : Info) (f : Frame) (n : Str) (u du fm : Option Str) :
    (addColumn i f n u du fm).1.last = none := by
  unfold addColumn
  by_cases hd : (u.isNone && dupLabel f n) = true
  · simp [hd]
  simp only [hd]
  unfold addColumnCore
  simp only
  cases hfind : f.cols.find? (fun c => c.name = n) with
  | none => rfl
  | some c =>
    simp only
    cases u with
    | none =>
      simp only
      cases hu : unitFromKind c.kind with
      | error e => rfl
      | ok u0 => simp only; cases hget : get i.reg n <;> rfl
    | some u0 => simp only; cases hget : get i.reg n <;> rfl

/-- **every operation inside the guarantee preserves the invariant**, whatever it does to the frame:
    data assignments through the facade (`add_column` forgets the remembered state, so the next consultation
    validates), arbitrary in-place frame mutations (the info is untouched; the short cut only fires if the
    frame is back to the validated names, dtypes and emptiness), constructions and derived frames (validated
    on the spot), relabelling among non-special units -/
theorem step_goodC (t : Tbl) (op : Op) (hg : GoodC t.info) (ha : Allowed t op) : GoodC (step t op).1.info := by
  cases op with
  | mutate f => simpa [step] using hg
  | consult => simpa [step, consult] using checkDataframe_goodC t.info t.frame hg
  | addColumn n u du fm f =>
    intro f0 hf0
    have := addColumn_last t.info f n u du fm
    simp only [step] at hf0
    rw [this] at hf0; cases hf0
  | setUnits m => simpa [step] using setUnits_goodC t.info t.frame m hg ha
  | setAllUnits us => simpa [step, setAllUnits] using setUnits_goodC t.info t.frame _ hg ha
  | setFmt n fm => simpa [step] using setColFmt_goodC t.info t.frame n fm hg
  | setStrict b => intro f0 hf0 he hs; exact hg f0 (by simpa [step] using hf0) he (by simpa [step] using hs)
  | setColUnit n u =>
    by_cases hc : n ∈ t.frame.names
    · by_cases hd : dupLabel t.frame n = true
      · simpa [step, setColUnit, hc, hd] using hg
      · simpa [step, setColUnit, hc, hd] using setUnits_goodC t.info t.frame [(n, u)] hg ha
    · simpa [step, setColUnit, hc] using hg
  | rewrap us st =>
    unfold step rewrap
    have hc := checkDataframe_goodC t.info t.frame hg
    cases h : checkDataframe t.info t.frame with
    | mk i1 e =>
      rw [h] at hc
      cases e with
      | some e => simpa using hc
      | none =>
        simp only
        cases hm : make t.frame (some (us.getD (units i1.reg))) none (st.getD i1.strict) with
        | ok i2 => simpa using make_goodC _ _ _ _ i2 hm
        | error e => simpa using hc
  | derive srcs st f =>
    unfold step
    cases h : finalize srcs st f with
    | ok i2 => simpa [h] using finalize_goodC srcs st f i2 h
    | error e => simpa [h] using hg

theorem run_inv (t : Tbl) (ops : List Op) (hg : Good t.info) (hgc : GoodC t.info) (ha : AllowedRun t ops) :
    Good (run t ops).info ∧ GoodC (run t ops).info := by
  induction ops generalizing t with
  | nil => exact ⟨by simpa [run] using hg, by simpa [run] using hgc⟩
  | cons op ops ih =>
    unfold run
    exact ih _ (Meta.step_good t op hg) (step_goodC t op hgc ha.1) ha.2

/-! ## the property over histories -/

/-- **C15, all finite histories.**  Start from any constructed table; apply any finite sequence of
    operations inside the guarantee (arbitrary frame effects); then consult.  Either the consultation raises,
    or — for a strict table with rows — every column has a unit, 'text' sits exactly on O/S/U kinds and
    'onoff' exactly on kind b.  So a step that would break consistency never yields a readable table. -/
theorem reachable_cons (f0 : Frame) (us : Option (List Str)) (um : Option (List (Str × Str))) (strict : Bool)
    (i0 : Info) (h0 : make f0 us um strict = .ok i0) (ops : List Op) (ha : AllowedRun ⟨i0, f0⟩ ops)
    (t' : Tbl) (hc : step (run ⟨i0, f0⟩ ops) .consult = (t', none))
    (hs : t'.info.strict = true) (he : t'.frame.empty = false) : Spec.Cons t' := by
  have hmg : Good i0 := Meta.make_good f0 us um strict i0 h0
  obtain ⟨hg, hgc⟩ := run_inv ⟨i0, f0⟩ ops hmg (make_goodC f0 us um strict i0 h0) ha
  generalize run ⟨i0, f0⟩ ops = t at hg hgc hc
  unfold step consult at hc
  cases hcd : checkDataframe t.info t.frame with
  | mk i1 e =>
    rw [hcd] at hc
    simp only at hc
    obtain ⟨rfl, rfl⟩ := Prod.mk.inj hc
    simp only at he hs
    have hst := checkDataframe_strict t.info t.frame
    rw [hcd] at hst
    exact cons_after_check t.info i1 t.frame hg hgc hcd (by rw [← hst]; exact hs) he

/-- **the guarantee resumes after an excluded relabelling**: from *any* info state (no invariant assumed:
    relabelled, stale, anything), a consultation that does validate (the remembered state is not the current
    frame, or was validated under the other strict flag) and succeeds yields, for a strict frame with rows, a consistent table and re-establishes both
    invariants — so `reachable_cons` applies again from there -/
theorem revalidation_restores (i i' : Info) (f : Frame) (hnd : (keys i.reg).Nodup)
    (hl : ¬ (i.last = some f ∧ i.lastStrict = i.strict))
    (h : checkDataframe i f = (i', none)) :
    Good i' ∧ GoodC i' ∧ (i.strict = true → f.empty = false → Spec.Cons ⟨i', f⟩) := by
  unfold checkDataframe at h
  simp only [hl, if_false] at h
  cases hu : updateColumns i.strict i.reg f with
  | mk r e =>
    rw [hu] at h
    cases e with
    | some e => simp at h
    | none =>
      simp at h; subst h
      have hnd' := updateColumns_nodup i.strict i.reg f hnd
      rw [hu] at hnd'
      refine ⟨⟨hnd', ?_⟩, ?_, ?_⟩
      · intro f0 hf0 he; simp at hf0; subst hf0
        rcases he with he | he
        · exact updateColumns_ok_keys _ _ _ _ hu he
        · exact updateColumns_ok_keys_nocols _ _ _ _ hu he
      · intro f0 hf0 he hs
        simp at hf0 hs; subst hf0
        rw [hs] at hu
        exact updateColumns_ok_cons _ _ _ hu he
      · intro hs he
        rw [hs] at hu
        exact cons_of _ f (updateColumns_ok_keys _ _ _ _ hu he) (updateColumns_ok_cons _ _ _ hu he)

/-- the excluded operation really is outside: relabelling a float column to 'text' through the setter is
    accepted, the short cut then fires and the inconsistent table stays readable (model of the documented
    behaviour; `Allowed` is false for this step) -/
example :
    let fR : Frame := ⟨[⟨"a".toList, "f8".toList, "f".toList⟩], false⟩
    (make fR (some ["m".toList]) none true).toOption.map (fun i =>
      let t := run ⟨i, fR⟩ [.setColUnit "a".toList "text".toList]
      ((step t .consult).2, units (step t .consult).1.info.reg)) =
    some (none, ["text".toList]) := by decide

/-- the strict flag is part of the remembered state: a float column labelled 'text' in a non-strict table is
    readable; after `metadata.strict_types = True` the short cut does not fire (the state was validated
    non-strict) and the consultation refuses the table -/
example :
    let fR : Frame := ⟨[⟨"a".toList, "f8".toList, "f".toList⟩], false⟩
    (make fR (some ["text".toList]) none false).toOption.map (fun i =>
      ((step ⟨i, fR⟩ .consult).2, (step (run ⟨i, fR⟩ [.consult, .setStrict true]) .consult).2)) =
    some (none, some Err.columnUnit) := by decide

/-! ## non-vacuity -/

private def fA : Frame := ⟨[⟨"a".toList, "f8".toList, "f".toList⟩, ⟨"b".toList, "str".toList, "O".toList⟩,
                            ⟨"c".toList, "bool".toList, "b".toList⟩], false⟩
private def fA' : Frame := ⟨[⟨"a".toList, "f8".toList, "f".toList⟩, ⟨"b".toList, "f8".toList, "f".toList⟩,
                             ⟨"c".toList, "bool".toList, "b".toList⟩], false⟩

/-- a strict 3-column table; a physical relabelling, then column b is overwritten with floats directly on the
    dataframe: the next consultation refuses the table; after `add_column` with the right data it is readable
    again and consistent -/
example :
    (make fA (some ["m".toList, "text".toList, "onoff".toList]) none true).toOption.map (fun i =>
      let t1 := run ⟨i, fA⟩ [.setColUnit "a".toList "mm".toList, .mutate fA']
      let t2 := run t1 [.consult, .addColumn "b".toList none none none fA]
      ((step t1 .consult).2, (step t2 .consult).2, units (step t2 .consult).1.info.reg)) =
    some (some Err.columnUnit, none, ["mm".toList, "text".toList, "onoff".toList]) := by decide

/-- the hypotheses of `reachable_cons` are satisfiable with a non-trivial history (`AllowedRun` holds) -/
example : ∃ i, make fA (some ["m".toList, "text".toList, "onoff".toList]) none true = .ok i ∧
    AllowedRun ⟨i, fA⟩ [.consult, .mutate fA', .consult, .mutate fA] := by
  refine ⟨_, rfl, ?_⟩
  simp [AllowedRun, Allowed]

/-- hypotheses of `check_establishes`: a stale register in another order, new column registered by dtype -/
example : updateColumns true [("c".toList, { unit := "onoff".toList }), ("a".toList, { unit := "kg".toList })] fA =
    ([("a".toList, { unit := "kg".toList }), ("b".toList, { unit := "text".toList }),
      ("c".toList, { unit := "onoff".toList })], none) := by decide

end Pdt.C15
