/-
  Props/C19.lean — "Readers and writers close what they opened, and only that, on every exit path".

  Statement (properties.jsonl C19): for every input and every way of consuming a reader — to exhaustion,
  abandoned after any number of blocks, closed explicitly, or ended by an error in any block — a file that
  read_csv, read_excel or load_files opened from a path is closed as soon as the iterator finishes, is closed
  or is discarded, and write_csv / write_excel close the file they created even when a table fails to
  serialise midway.  A stream supplied by the caller is never closed by the library.

  Structure of this file
   1. tie to the source: the translator's frame table is pinned and satisfies `EnclosedByWith`;
   2. the semantic core, for an arbitrary well-formed trace and an arbitrary action history:
      `run_inv` (invariant), `library_handles_closed`, `caller_stream_untouched`, `error_closes_immediately`,
      the terminal-state lemmas (exhaustion / close / drop / error + release);
   3. the `with` discipline implies well-formedness for arbitrary nesting (`Disciplined`, `disciplined_wf`);
   4. the pdtable readers and writers are `Disciplined` whenever the frame table is `EnclosedByWith`, for every
      number of blocks, sheets and files; corollaries for the current source;
   5. what a regression looks like (bare open, unmanaged row iterator = defect D18 before its fix, direct
      `wb.save(path)` = defect D31 before its fix).
  PARTIAL: `write_excel(backend=XLSXWRITER)` is not covered (`writer_closes_on_failure_partial`; the two
  conditional `xlsxwriter_*` theorems say what would have to be known about that library).

  Trusted (DESIGN §4): the CPython rules the combinators of Model/Resource.lean encode.  Partial in that sense:
  a leak that depends on a reference cycle or on a non-refcounting interpreter cannot be exhibited by the model.
-/
import PdtModel.Model.Resource
import PdtModel.Gen.Consts
set_option linter.unusedSimpArgs false
set_option linter.unusedVariables false
namespace Pdt.C19
open Pdt Pdt.Resource

/-! ## 1. tie to the source -/

/-- the frame table of the current source, literally -/
theorem withFrames_pinned : Gen.withFrames = [
  ("read_csv", [("yield from parse_blocks", ["either(nullcontext(<param>), open(<param>))"])],
    [], [], []),
  ("write_csv", [("call _table_to_csv",
    ["either(nullcontext(<param>), open(<param>))"])], [], [], []),
  ("read_excel", [("yield from parse_blocks", ["closing(<local>)"])], [], ["read_sheets"], []),
  ("write_excel", [("call write_excel_func", [])], [], [], []),
  ("read_sheets", [("yield", ["either(nullcontext(<param>), open(<param>))",
    "closing(openpyxl.load_workbook(<local>))"])], [], [], []),
  ("write_excel_openpyxl", [("call <local>.save", []), ("call <local>.save", []),
    ("call <local>.write", ["open(<param>)"]), ("call _append_table_to_openpyxl_worksheet", [])], [], [], []),
  ("write_excel_xlsxwriter", [("call _append_table_to_xlsxwriter_worksheet", [])],
    ["xlsxwriter.Workbook(<param>, <param>)"], ["<param>.items"], ["<local>.close()"]),
  ("FileReader.read", [("yield from read_csv", []), ("yield from read_excel", [])], [], [], []),
  ("IncludeReader.read", [("yield", [])], [], ["<param>.reader.read"], []),
  ("queued_load", [("yield from <local>.read", [])], [], [], []),
  ("load_files", [("yield from queued_load", [])], [], [], [])] := by decide

namespace Spec

/-- one function of the table: no opener call outside a `with` item, no explicit `.close()`, every context
    expression has a known meaning, and all points of the function are enclosed by the same `with` items -/
def rowEnclosed (r : Row) : Bool :=
  r.bareOpens.isEmpty && r.closeCalls.isEmpty &&
  r.points.all (fun p => p.2.all (fun e => (interpCtx e).isSome)) &&
  (match r.points with
   | [] => true
   | p :: ps => ps.all (fun q => q.2 == p.2))

/-- every library-opened handle is acquired by a `with` / `closing` frame that encloses all suspension points
    (and all write calls) of its function; the frames are the ones the model gives a meaning to; the generators
    that are iterated by a `for` are the ones the model treats as held; the delegations are `yield from`s. -/
def enclosedByWith (tbl : Table) : Bool :=
  -- two rows are judged by their own clauses below: write_excel_openpyxl (its points are not all inside the one
  -- `with`: the tables and `wb.save(buffer)` run with nothing open, only `f.write` is inside `with open(...)`)
  -- and write_excel_xlsxwriter, which is NOT enclosed (bare `xlsxwriter.Workbook(path)` + explicit `wb.close()`):
  -- it is excluded here and treated separately (`writer_closes_on_failure_partial`, `xlsxwriter_*`).
  tbl.all (fun r => r.name == "write_excel_openpyxl" || r.name == "write_excel_xlsxwriter" || rowEnclosed r) &&
  frameOf tbl "read_csv" == .withs [.openIfPath] &&
  frameOf tbl "read_sheets" == .withs [.openIfPath, .closingWorkbook] &&
  frameOf tbl "read_excel" == .withs [.closingRows] &&
  frameOf tbl "write_csv" == .withs [.openIfPath] &&
  saveShape tbl == .buffered &&
  holds tbl "read_excel" "read_sheets" && holds tbl "IncludeReader.read" "<param>.reader.read" &&
  hasPoint tbl "FileReader.read" "yield from read_csv" && hasPoint tbl "FileReader.read" "yield from read_excel" &&
  hasPoint tbl "queued_load" "yield from <local>.read" && hasPoint tbl "load_files" "yield from queued_load" &&
  frameOf tbl "write_excel_xlsxwriter" == .bareOpen

end Spec

def EnclosedByWith (tbl : Table) : Prop := Spec.enclosedByWith tbl = true

instance (tbl : Table) : Decidable (EnclosedByWith tbl) := by unfold EnclosedByWith; infer_instance

/-- the current source satisfies the hypothesis of every theorem below -/
theorem source_enclosed : EnclosedByWith Gen.withFrames := by decide

theorem enclosed_shapes {tbl : Table} (h : EnclosedByWith tbl) :
    frameOf tbl "read_csv" = .withs [.openIfPath] ∧ frameOf tbl "read_sheets" = .withs [.openIfPath, .closingWorkbook] ∧
    frameOf tbl "read_excel" = .withs [.closingRows] ∧ frameOf tbl "write_csv" = .withs [.openIfPath] ∧
    saveShape tbl = .buffered := by
  unfold EnclosedByWith Spec.enclosedByWith at h
  simp only [Bool.and_eq_true, beq_iff_eq] at h
  obtain ⟨⟨⟨⟨⟨⟨⟨⟨⟨⟨⟨⟨_, a⟩, b⟩, c⟩, d⟩, e⟩, _⟩, _⟩, _⟩, _⟩, _⟩, _⟩, _⟩ := h
  exact ⟨a, b, c, d, e⟩

/-! ## 2. the semantic core -/

/-- the consumer is through with the iterator: it finished (exhausted, closed, dropped or raised) and no caught
    exception is still being held -/
def Terminal (s : St) : Prop := s.pc = .done ∧ s.tb = []

instance (s : St) : Decidable (Terminal s) := by unfold Terminal; infer_instance

def WF (t : Trace) : Prop := walk [] t = some []

theorem wf_iff (t : Trace) : wf t = true ↔ WF t := by simp [wf, WF]

/-! field bookkeeping for `open1` / `close1` / `closeAll` -/

@[simp] theorem close1_pc (s : St) (h : Handle) : (s.close1 h).pc = s.pc := by unfold St.close1; split <;> rfl
@[simp] theorem close1_rest (s : St) (h : Handle) : (s.close1 h).rest = s.rest := by unfold St.close1; split <;> rfl
@[simp] theorem close1_tb (s : St) (h : Handle) : (s.close1 h).tb = s.tb := by unfold St.close1; split <;> rfl
@[simp] theorem close1_delivered (s : St) (h : Handle) : (s.close1 h).delivered = s.delivered := by
  unfold St.close1; split <;> rfl
@[simp] theorem close1_opened (s : St) (h : Handle) : (s.close1 h).opened = s.opened := by
  unfold St.close1; split <;> rfl
@[simp] theorem close1_closed (s : St) (h : Handle) : (s.close1 h).closed = s.closed ++ [h] := by
  unfold St.close1; split <;> rfl
@[simp] theorem open1_pc (s : St) (h : Handle) : (s.open1 h).pc = s.pc := by unfold St.open1; split <;> rfl
@[simp] theorem open1_tb (s : St) (h : Handle) : (s.open1 h).tb = s.tb := by unfold St.open1; split <;> rfl
@[simp] theorem open1_closed (s : St) (h : Handle) : (s.open1 h).closed = s.closed := by
  unfold St.open1; split <;> rfl

@[simp] theorem closeAll_nil (s : St) : s.closeAll [] = s := rfl
@[simp] theorem closeAll_cons (s : St) (h : Handle) (hs : List Handle) :
    s.closeAll (h :: hs) = (s.close1 h).closeAll hs := rfl

@[simp] theorem closeAll_pc (hs : List Handle) : ∀ s : St, (s.closeAll hs).pc = s.pc := by
  induction hs with
  | nil => intro s; rfl
  | cons h hs ih => intro s; simp [ih]
@[simp] theorem closeAll_rest (hs : List Handle) : ∀ s : St, (s.closeAll hs).rest = s.rest := by
  induction hs with
  | nil => intro s; rfl
  | cons h hs ih => intro s; simp [ih]
@[simp] theorem closeAll_tb (hs : List Handle) : ∀ s : St, (s.closeAll hs).tb = s.tb := by
  induction hs with
  | nil => intro s; rfl
  | cons h hs ih => intro s; simp [ih]
@[simp] theorem closeAll_opened (hs : List Handle) : ∀ s : St, (s.closeAll hs).opened = s.opened := by
  induction hs with
  | nil => intro s; rfl
  | cons h hs ih => intro s; simp [ih]
@[simp] theorem closeAll_closed (hs : List Handle) : ∀ s : St, (s.closeAll hs).closed = s.closed ++ hs := by
  induction hs with
  | nil => intro s; simp
  | cons h hs ih => intro s; simp [ih]

/-- closing part of what is open: the rest stays open, nothing is closed that was not open -/
theorem closeAll_perm (hs : List Handle) : ∀ (s : St) (rest : List Handle), (hs ++ rest).Perm s.opn →
    rest.Perm (s.closeAll hs).opn ∧ (s.closeAll hs).bad = s.bad := by
  induction hs with
  | nil => intro s rest h; exact ⟨by simpa using h, rfl⟩
  | cons h hs ih =>
    intro s rest hp
    have hmem : h ∈ s.opn := hp.mem_iff.mp (by simp)
    have h1 : (s.close1 h).opn = s.opn.erase h := by unfold St.close1; simp [hmem]
    have h2 : (s.close1 h).bad = s.bad := by unfold St.close1; simp [hmem]
    have hp' : (hs ++ rest).Perm (s.close1 h).opn := by
      rw [h1]
      have := hp.erase h
      simpa using this
    obtain ⟨a, b⟩ := ih (s.close1 h) rest hp'
    exact ⟨by simpa using a, by simpa [h2] using b⟩

/-- the invariant of the machine on a well-formed trace -/
structure Inv (s : St) : Prop where
  bad : s.bad = []
  libOpn : ∀ h ∈ s.opn, h.isLib = true
  libClosed : ∀ h ∈ s.closed, h.isLib = true
  ledger : s.opened.Perm (s.closed ++ s.opn)
  atPc : match s.pc with
    | .notStarted => s.opn = [] ∧ s.tb = [] ∧ walk [] s.rest = some []
    | .suspendedAt _ su => su.all.Perm s.opn ∧ s.tb = [] ∧ walk s.opn s.rest = some []
    | .done => s.tb.Perm s.opn

theorem inv_init {t : Trace} (h : WF t) : Inv (init t) :=
  ⟨rfl, by simp [init], by simp [init], by simp [init], by simpa [init, WF] using h⟩

/-- closing a list of open library handles keeps the first four clauses of the invariant -/
theorem closeAll_keeps (hs rest : List Handle) (s : St) (hb : s.bad = []) (hl : ∀ h ∈ s.opn, h.isLib = true)
    (hc : ∀ h ∈ s.closed, h.isLib = true) (hled : s.opened.Perm (s.closed ++ s.opn))
    (hp : (hs ++ rest).Perm s.opn) :
    (s.closeAll hs).bad = [] ∧ (∀ h ∈ (s.closeAll hs).opn, h.isLib = true) ∧
    (∀ h ∈ (s.closeAll hs).closed, h.isLib = true) ∧
    (s.closeAll hs).opened.Perm ((s.closeAll hs).closed ++ (s.closeAll hs).opn) ∧
    rest.Perm (s.closeAll hs).opn := by
  obtain ⟨a, b⟩ := closeAll_perm hs s rest hp
  refine ⟨by rw [b, hb], ?_, ?_, ?_, a⟩
  · intro h hh
    have : h ∈ rest := a.mem_iff.mpr hh
    exact hl h (hp.mem_iff.mp (by simp [this]))
  · intro h hh
    simp only [closeAll_closed, List.mem_append] at hh
    rcases hh with hh | hh
    · exact hc h hh
    · exact hl h (hp.mem_iff.mp (by simp [hh]))
  · simp only [closeAll_opened, closeAll_closed]
    have h1 : (s.closed ++ s.opn).Perm (s.closed ++ (hs ++ rest)) := (hp.symm).append_left _
    have h2 : (s.closed ++ (hs ++ rest)).Perm (s.closed ++ hs ++ (s.closeAll hs).opn) := by
      rw [List.append_assoc]
      exact (a.append_left hs).append_left _
    exact hled.trans (h1.trans h2)

theorem adv_inv : ∀ (t : Trace) (m : Mode) (s : St), s.bad = [] → (∀ h ∈ s.opn, h.isLib = true) →
    (∀ h ∈ s.closed, h.isLib = true) → s.opened.Perm (s.closed ++ s.opn) → s.tb = [] →
    walk s.opn t = some [] → Inv (adv m t s) := by
  intro t
  induction t with
  | nil =>
    intro m s hb hl hc hled htb hw
    simp only [walk, Option.some.injEq] at hw
    exact ⟨hb, hl, hc, hled, by simp [adv, St.finish, htb, hw]⟩
  | cons e t ih =>
    intro m s hb hl hc hled htb hw
    cases e with
    | acq h =>
      simp only [walk] at hw
      split at hw
      · rename_i hc'
        simp only [Bool.and_eq_true, Bool.not_eq_true', List.contains_eq_mem, decide_eq_false_iff_not] at hc'
        have ho : s.open1 h = { s with opn := h :: s.opn, opened := s.opened ++ [h] } := by
          unfold St.open1; simp [hc'.2]
        simp only [adv]
        apply ih
        · rw [ho]; exact hb
        · rw [ho]; intro x hx; simp at hx; rcases hx with rfl | hx; exact hc'.1; exact hl x hx
        · rw [ho]; exact hc
        · rw [ho]; simp only
          have : (s.opened ++ [h]).Perm (h :: (s.closed ++ s.opn)) :=
            (List.perm_append_comm).trans (List.Perm.cons h hled)
          exact this.trans (List.perm_middle).symm
        · simpa using htb
        · rw [ho]; exact hw
      · cases hw
    | rel h =>
      simp only [walk] at hw
      split at hw
      · rename_i hc'
        simp only [List.contains_eq_mem, decide_eq_true_eq] at hc'
        have hp : ([h] ++ s.opn.erase h).Perm s.opn := (List.perm_cons_erase hc').symm
        obtain ⟨a, b, c, d, e⟩ := closeAll_keeps [h] (s.opn.erase h) s hb hl hc hled hp
        have ho : (s.close1 h).opn = s.opn.erase h := by unfold St.close1; simp [hc']
        simp only [adv]
        apply ih
        · simpa using a
        · simpa using b
        · simpa using c
        · simpa using d
        · simpa using htb
        · rw [ho]; exact hw
      · cases hw
    | point f su =>
      simp only [walk] at hw
      split at hw
      · rename_i hc'
        simp only [Bool.and_eq_true, List.isPerm_iff] at hc'
        cases m with
        | failBlock =>
          obtain ⟨a, b, c, d, e⟩ := closeAll_keeps f.now f.later s hb hl hc hled hc'.1
          simp only [adv]
          exact ⟨by simpa [St.finish] using a, by simpa [St.finish] using b, by simpa [St.finish] using c,
            by simpa [St.finish] using d, by simpa [St.finish] using e⟩
        | deliver =>
          simp only [adv]
          exact ⟨hb, hl, hc, hled, ⟨hc'.2, htb, hw⟩⟩
        | failGap k =>
          simp only [adv]
          exact ⟨hb, hl, hc, hled, ⟨hc'.2, htb, hw⟩⟩
      · cases hw
    | gap c =>
      simp only [walk] at hw
      split at hw
      · rename_i hc'
        simp only [List.isPerm_iff] at hc'
        cases m with
        | deliver => simp only [adv]; exact ih _ s hb hl hc hled htb hw
        | failBlock => simp only [adv]; exact ih _ s hb hl hc hled htb hw
        | failGap k =>
          cases k with
          | zero =>
            obtain ⟨a, b, c', d, e⟩ := closeAll_keeps c.now c.later s hb hl hc hled hc'
            simp only [adv]
            exact ⟨by simpa [St.finish] using a, by simpa [St.finish] using b, by simpa [St.finish] using c',
              by simpa [St.finish] using d, by simpa [St.finish] using e⟩
          | succ k => simp only [adv]; exact ih _ s hb hl hc hled htb hw
      · cases hw

theorem step_inv {s : St} (hi : Inv s) (a : Action) : Inv (step s a) := by
  obtain ⟨hb, hl, hc, hled, hpc⟩ := hi
  cases a with
  | next =>
    simp only [step]
    split
    · rename_i hd; exact ⟨hb, hl, hc, hled, by simpa [hd] using hpc⟩
    · rename_i hnd
      cases hp : s.pc with
      | done => exact absurd hp hnd
      | notStarted =>
        rw [hp] at hpc
        exact adv_inv s.rest .deliver s hb hl hc hled hpc.2.1 (by rw [hpc.1]; exact hpc.2.2)
      | suspendedAt k su =>
        rw [hp] at hpc
        exact adv_inv s.rest .deliver s hb hl hc hled hpc.2.1 hpc.2.2
  | throwInBlock =>
    simp only [step]
    split
    · rename_i hd; exact ⟨hb, hl, hc, hled, by simpa [hd] using hpc⟩
    · rename_i hnd
      cases hp : s.pc with
      | done => exact absurd hp hnd
      | notStarted =>
        rw [hp] at hpc
        exact adv_inv s.rest .failBlock s hb hl hc hled hpc.2.1 (by rw [hpc.1]; exact hpc.2.2)
      | suspendedAt k su =>
        rw [hp] at hpc
        exact adv_inv s.rest .failBlock s hb hl hc hled hpc.2.1 hpc.2.2
  | throwInGap j =>
    simp only [step]
    split
    · rename_i hd; exact ⟨hb, hl, hc, hled, by simpa [hd] using hpc⟩
    · rename_i hnd
      cases hp : s.pc with
      | done => exact absurd hp hnd
      | notStarted =>
        rw [hp] at hpc
        exact adv_inv s.rest (.failGap j) s hb hl hc hled hpc.2.1 (by rw [hpc.1]; exact hpc.2.2)
      | suspendedAt k su =>
        rw [hp] at hpc
        exact adv_inv s.rest (.failGap j) s hb hl hc hled hpc.2.1 hpc.2.2
  | close =>
    simp only [step]
    split
    · rename_i k su hp
      rw [hp] at hpc
      obtain ⟨a, b, c, d, e⟩ := closeAll_keeps su.all [] s hb hl hc hled (by simpa using hpc.1)
      exact ⟨by simpa [St.finish] using a, by simpa [St.finish] using b, by simpa [St.finish] using c,
        by simpa [St.finish] using d, by simpa [St.finish, hpc.2.1] using e⟩
    · rename_i hp
      rw [hp] at hpc
      exact ⟨hb, hl, hc, hled, by simp [St.finish, hpc.1, hpc.2.1]⟩
    · rename_i hp
      exact ⟨hb, hl, hc, hled, by simpa [hp] using hpc⟩
  | drop =>
    simp only [step]
    split
    · rename_i k su hp
      rw [hp] at hpc
      obtain ⟨a, b, c, d, e⟩ := closeAll_keeps su.all [] s hb hl hc hled (by simpa using hpc.1)
      exact ⟨by simpa [St.finish] using a, by simpa [St.finish] using b, by simpa [St.finish] using c,
        by simpa [St.finish] using d, by simpa [St.finish, hpc.2.1] using e⟩
    · rename_i hp
      rw [hp] at hpc
      exact ⟨hb, hl, hc, hled, by simp [St.finish, hpc.1, hpc.2.1]⟩
    · rename_i hp
      exact ⟨hb, hl, hc, hled, by simpa [hp] using hpc⟩
  | throw =>
    simp only [step]
    split
    · rename_i k su hp
      rw [hp] at hpc
      obtain ⟨a, b, c, d, e⟩ := closeAll_keeps su.now su.later s hb hl hc hled hpc.1
      exact ⟨by simpa [St.finish] using a, by simpa [St.finish] using b, by simpa [St.finish] using c,
        by simpa [St.finish] using d, by simpa [St.finish] using e⟩
    · rename_i hp
      rw [hp] at hpc
      exact ⟨hb, hl, hc, hled, by simp [St.finish, hpc.1, hpc.2.1]⟩
    · rename_i hp
      exact ⟨hb, hl, hc, hled, by simpa [hp] using hpc⟩
  | releaseExc =>
    simp only [step]
    cases hp : s.pc with
    | done =>
      rw [hp] at hpc
      obtain ⟨a, b, c, d, e⟩ := closeAll_keeps s.tb [] s hb hl hc hled (by simpa using hpc)
      exact ⟨by simpa using a, by simpa using b, by simpa using c, by simpa using d, by simpa [hp] using e⟩
    | notStarted =>
      rw [hp] at hpc
      exact ⟨by simpa [hpc.2.1] using hb, by simpa [hpc.2.1] using hl, by simpa [hpc.2.1] using hc,
        by simpa [hpc.2.1] using hled, by simp [hpc.2.1, hp, hpc.1, hpc.2.2]⟩
    | suspendedAt k su =>
      rw [hp] at hpc
      exact ⟨by simpa [hpc.2.1] using hb, by simpa [hpc.2.1] using hl, by simpa [hpc.2.1] using hc,
        by simpa [hpc.2.1] using hled, by simpa [hpc.2.1, hp] using hpc⟩

theorem foldl_inv {s : St} (hi : Inv s) (hs : List Action) : Inv (hs.foldl step s) := by
  induction hs generalizing s with
  | nil => exact hi
  | cons a hs ih => exact ih (step_inv hi a)

/-- the invariant holds after every action history -/
theorem run_inv {t : Trace} (h : WF t) (hs : List Action) : Inv (runAll t hs) := foldl_inv (inv_init h) hs

/-- **C19, readers.**  For every well-formed trace and every consumption history — any interleaving of `next`,
    failing block productions, `close()`, drop, `throw()` and releases of a caught exception — once the
    consumer is through with the iterator nothing the library opened is open, every handle the library opened
    was closed exactly as often as it was opened, and no close ever hit a handle that was not open (no double
    close). -/
theorem library_handles_closed {t : Trace} (h : WF t) (hs : List Action) (hT : Terminal (runAll t hs)) :
    (runAll t hs).opn = [] ∧ (runAll t hs).opened.Perm (runAll t hs).closed ∧ (runAll t hs).bad = [] := by
  have hi := run_inv h hs
  have hpc := hi.atPc
  rw [hT.1] at hpc
  simp only [hT.2] at hpc
  have ho : (runAll t hs).opn = [] := (List.Perm.nil_eq hpc).symm
  exact ⟨ho, by simpa [ho] using hi.ledger, hi.bad⟩

/-- no double close and no close of a never-opened handle, at any moment of any history -/
theorem never_closed_twice {t : Trace} (h : WF t) (hs : List Action) : (runAll t hs).bad = [] :=
  (run_inv h hs).bad

/-- **C19, caller streams.**  At no moment of any history has the library closed a stream of the caller.
    Scope of this theorem: it is a statement about well-formed traces.  The API traces are well-formed because
    `ctxOf` maps a stream source to the `nullcontext` alternative of `either(nullcontext(<param>), open(<param>))`;
    the frame table does not record the test of that conditional, so *which* alternative the source takes for a
    stream is not read from the source.  On the real code this clause is therefore decided by the harness (the
    caller's `stream.closed` after every action, for every stream form), not by this theorem. -/
theorem caller_stream_untouched {t : Trace} (h : WF t) (hs : List Action) (c : Nat) :
    Handle.caller c ∉ (runAll t hs).closed := by
  intro hm
  have := (run_inv h hs).libClosed _ hm
  simp [Handle.isLib] at this

/-- while the generator is suspended exactly the handles in scope are open (nothing else leaks meanwhile) -/
theorem open_while_suspended {t : Trace} (h : WF t) (hs : List Action) (k : Nat) (su : Cleanup)
    (hp : (runAll t hs).pc = .suspendedAt k su) : su.all.Perm (runAll t hs).opn := by
  have := (run_inv h hs).atPc
  rw [hp] at this
  exact this.1

/-- a generator that was never started holds no handle (read_csv opens the file at the first `next`) -/
theorem not_started_holds_nothing (t : Trace) : (init t).opn = [] ∧ (step (init t) .close).opn = [] ∧
    (step (init t) .drop).opn = [] := by simp [init, step, St.finish]

/-! ### which histories are terminal -/

theorem terminal_after_close (s : St) (h : s.tb = []) : Terminal (step s .close) := by
  unfold Terminal; simp only [step]; split <;> simp_all [St.finish]

theorem terminal_after_drop (s : St) (h : s.tb = []) : Terminal (step s .drop) := by
  unfold Terminal; simp only [step]; split <;> simp_all [St.finish]

@[simp] theorem open1_rest (s : St) (h : Handle) : (s.open1 h).rest = s.rest := by unfold St.open1; split <;> rfl

theorem adv_done_or_shorter : ∀ (t : Trace) (m : Mode) (s : St),
    (adv m t s).pc = .done ∨ (adv m t s).rest.length < t.length := by
  intro t
  induction t with
  | nil => intro m s; left; simp [adv, St.finish]
  | cons e t ih =>
    intro m s
    cases e with
    | acq h => simp only [adv]; rcases ih m (s.open1 h) with h1 | h1; exact .inl h1; exact .inr (by simp; omega)
    | rel h => simp only [adv]; rcases ih m (s.close1 h) with h1 | h1; exact .inl h1; exact .inr (by simp; omega)
    | point f su => cases m <;> simp [adv, St.finish]
    | gap c =>
      cases m with
      | deliver => simp only [adv]; rcases ih .deliver s with h1 | h1; exact .inl h1; exact .inr (by simp; omega)
      | failBlock => simp only [adv]; rcases ih .failBlock s with h1 | h1; exact .inl h1; exact .inr (by simp; omega)
      | failGap k =>
        cases k with
        | zero => simp [adv, St.finish]
        | succ k => simp only [adv]; rcases ih (.failGap k) s with h1 | h1; exact .inl h1; exact .inr (by simp; omega)

/-- a `next` during which the block production fails always ends the generator -/
theorem adv_true_done : ∀ (t : Trace) (s : St), (adv .failBlock t s).pc = .done := by
  intro t
  induction t with
  | nil => intro s; simp [adv, St.finish]
  | cons e t ih => intro s; cases e <;> simp [adv, St.finish, ih]

theorem adv_false_tb : ∀ (t : Trace) (s : St), (adv .deliver t s).tb = s.tb := by
  intro t
  induction t with
  | nil => intro s; simp [adv, St.finish]
  | cons e t ih => intro s; cases e <;> simp [adv, St.finish, ih]

theorem next_tb (s : St) : (step s .next).tb = s.tb := by
  simp only [step]; split <;> simp [adv_false_tb]

/-- exhaustion: iterating `next` often enough finishes the generator -/
theorem exhaust_done : ∀ (n : Nat) (s : St), s.rest.length < n →
    ((List.replicate n Action.next).foldl step s).pc = .done := by
  intro n
  induction n with
  | zero => intro s h; omega
  | succ n ih =>
    intro s h
    simp only [List.replicate_succ, List.foldl_cons]
    by_cases hd : s.pc = .done
    · have hstay : ∀ (m : Nat) (u : St), u.pc = .done → ((List.replicate m Action.next).foldl step u).pc = .done := by
        intro m
        induction m with
        | zero => intro u hu; simpa using hu
        | succ m ihm =>
          intro u hu
          simp only [List.replicate_succ, List.foldl_cons]
          exact ihm _ (by simp [step, hu])
      exact hstay n _ (by simp [step, hd])
    · have hs' : step s .next = adv .deliver s.rest s := by
        simp only [step]
        all_goals (split <;> first | rfl | (rename_i h'; exact absurd h' hd))
      rcases adv_done_or_shorter s.rest .deliver s with h1 | h1
      · have hstay : ∀ (m : Nat) (u : St), u.pc = .done → ((List.replicate m Action.next).foldl step u).pc = .done := by
          intro m
          induction m with
          | zero => intro u hu; simpa using hu
          | succ m ihm =>
            intro u hu
            simp only [List.replicate_succ, List.foldl_cons]
            exact ihm _ (by simp [step, hu])
        rw [hs']; exact hstay n _ h1
      · rw [hs']; exact ih _ (by omega)

theorem nexts_tb : ∀ (n : Nat) (s : St), ((List.replicate n Action.next).foldl step s).tb = s.tb := by
  intro n
  induction n with
  | zero => intro s; rfl
  | succ n ih => intro s; simp only [List.replicate_succ, List.foldl_cons]; rw [ih, next_tb]

/-- consuming to exhaustion (after any prefix that left no exception behind) is a terminal history -/
theorem terminal_after_exhaust (t : Trace) (hs : List Action) (h : (runAll t hs).tb = []) :
    Terminal (runAll t (hs ++ List.replicate ((runAll t hs).rest.length + 1) .next)) := by
  unfold Terminal runAll
  rw [List.foldl_append]
  exact ⟨exhaust_done _ _ (by omega), by rw [nexts_tb]; exact h⟩

/-- an error in the next block followed by the release of the exception is a terminal history -/
theorem terminal_after_error_release (s : St) : Terminal (step (step s .throwInBlock) .releaseExc) := by
  unfold Terminal
  refine ⟨?_, by simp [step]⟩
  simp only [step, closeAll_pc]
  split
  · rename_i h; simp [h]
  · exact adv_true_done _ _

/-! ### traces in which nothing is deferred to the release of a traceback -/

def noDeferred (t : Trace) : Bool :=
  t.all fun e => match e with
    | .point f s => f.later.isEmpty && s.later.isEmpty
    | .gap c => c.later.isEmpty
    | _ => true

structure NDInv (s : St) : Prop where
  tb : s.tb = []
  rest : noDeferred s.rest = true
  scope : ∀ k su, s.pc = .suspendedAt k su → su.later = []

theorem adv_nd : ∀ (t : Trace) (m : Mode) (s : St), s.tb = [] → noDeferred t = true → NDInv (adv m t s) := by
  intro t
  induction t with
  | nil => intro m s h _; exact ⟨by simpa [adv, St.finish] using h, by simp [adv, St.finish, noDeferred], by simp [adv, St.finish]⟩
  | cons e t ih =>
    intro m s h hn
    have hn' : noDeferred t = true := by
      simp only [noDeferred, List.all_cons, Bool.and_eq_true] at hn; exact hn.2
    cases e with
    | acq x => simp only [adv]; exact ih _ _ (by simpa using h) hn'
    | rel x => simp only [adv]; exact ih _ _ (by simpa using h) hn'
    | point f su =>
      simp only [noDeferred, List.all_cons, Bool.and_eq_true, List.isEmpty_iff] at hn
      have hsusp : ∀ s' : St, s'.tb = [] → s'.rest = t → (∀ k su', s'.pc = .suspendedAt k su' → su' = su) →
          NDInv s' := fun s' h1 h2 h3 =>
        ⟨h1, by rw [h2]; exact hn', fun k su' hk => by rw [h3 k su' hk]; exact hn.1.2⟩
      cases m with
      | failBlock => exact ⟨by simp [adv, St.finish, hn.1.1], by simp [adv, St.finish, noDeferred], by simp [adv, St.finish]⟩
      | deliver => exact hsusp _ (by simpa [adv] using h) (by simp [adv]) (by simp [adv])
      | failGap j => exact hsusp _ (by simpa [adv] using h) (by simp [adv]) (by simp [adv])
    | gap c =>
      simp only [noDeferred, List.all_cons, Bool.and_eq_true, List.isEmpty_iff] at hn
      cases m with
      | deliver => simp only [adv]; exact ih _ _ h hn'
      | failBlock => simp only [adv]; exact ih _ _ h hn'
      | failGap j =>
        cases j with
        | zero => exact ⟨by simp [adv, St.finish, hn.1], by simp [adv, St.finish, noDeferred], by simp [adv, St.finish]⟩
        | succ j => simp only [adv]; exact ih _ _ h hn'

theorem step_nd {s : St} (hi : NDInv s) (a : Action) : NDInv (step s a) := by
  obtain ⟨htb, hr, hsc⟩ := hi
  cases a with
  | next => simp only [step]; split; exact ⟨htb, hr, by simpa using hsc⟩; exact adv_nd _ _ _ htb hr
  | throwInBlock => simp only [step]; split; exact ⟨htb, hr, by simpa using hsc⟩; exact adv_nd _ _ _ htb hr
  | throwInGap j => simp only [step]; split; exact ⟨htb, hr, by simpa using hsc⟩; exact adv_nd _ _ _ htb hr
  | close =>
    simp only [step]; split
    · exact ⟨by simpa [St.finish] using htb, by simp [St.finish, noDeferred], by simp [St.finish]⟩
    · exact ⟨by simpa [St.finish] using htb, by simp [St.finish, noDeferred], by simp [St.finish]⟩
    · exact ⟨htb, hr, by simpa using hsc⟩
  | drop =>
    simp only [step]; split
    · exact ⟨by simpa [St.finish] using htb, by simp [St.finish, noDeferred], by simp [St.finish]⟩
    · exact ⟨by simpa [St.finish] using htb, by simp [St.finish, noDeferred], by simp [St.finish]⟩
    · exact ⟨htb, hr, by simpa using hsc⟩
  | throw =>
    simp only [step]; split
    · rename_i k su hp
      exact ⟨by simp [St.finish, hsc k su hp], by simp [St.finish, noDeferred], by simp [St.finish]⟩
    · exact ⟨by simpa [St.finish] using htb, by simp [St.finish, noDeferred], by simp [St.finish]⟩
    · exact ⟨htb, hr, by simpa using hsc⟩
  | releaseExc => exact ⟨by simp [step], by simpa [step] using hr, by simpa [step] using hsc⟩

theorem run_nd {t : Trace} (h : noDeferred t = true) (hs : List Action) : NDInv (runAll t hs) := by
  unfold runAll
  have h0 : NDInv (init t) := ⟨rfl, h, by simp [init]⟩
  generalize init t = s at h0
  induction hs generalizing s with
  | nil => exact h0
  | cons a hs ih => exact ih _ (step_nd h0 a)

/-- **C19, "as soon as".**  When no scope of the trace defers anything to the release of a traceback, a failing
    block leaves nothing open at the moment the exception reaches the consumer — whatever happened before. -/
theorem error_closes_immediately {t : Trace} (h : WF t) (hn : noDeferred t = true) (hs : List Action) :
    (runAll t (hs ++ [.throwInBlock])).pc = .done ∧ (runAll t (hs ++ [.throwInBlock])).opn = [] ∧
    (runAll t (hs ++ [.throwInBlock])).bad = [] := by
  have hpc : (runAll t (hs ++ [.throwInBlock])).pc = .done := by
    unfold runAll; rw [List.foldl_append]; simp only [List.foldl_cons, List.foldl_nil, step]
    split
    · rename_i h'; simp [h']
    · exact adv_true_done _ _
  have hT : Terminal (runAll t (hs ++ [.throwInBlock])) := ⟨hpc, (run_nd hn _).tb⟩
  have := library_handles_closed h _ hT
  exact ⟨hpc, this.1, this.2.2⟩

/-- the same for a failure between two blocks (`throwInGap`), whenever it does end the generator -/
theorem gap_error_closes_immediately {t : Trace} (h : WF t) (hn : noDeferred t = true) (hs : List Action) (k : Nat)
    (hd : (runAll t (hs ++ [.throwInGap k])).pc = .done) : (runAll t (hs ++ [.throwInGap k])).opn = [] ∧
    (runAll t (hs ++ [.throwInGap k])).bad = [] :=
  let r := library_handles_closed h _ ⟨hd, (run_nd hn _).tb⟩
  ⟨r.1, r.2.2⟩

/-- the same for an exception thrown into the suspended generator by the consumer -/
theorem throw_closes_immediately {t : Trace} (h : WF t) (hn : noDeferred t = true) (hs : List Action)
    (hd : (runAll t (hs ++ [.throw])).pc = .done) : (runAll t (hs ++ [.throw])).opn = [] :=
  (library_handles_closed h _ ⟨hd, (run_nd hn _).tb⟩).1

/-! ## 3. the `with` discipline implies well-formedness, for arbitrary nesting -/

/-- the handles a trace acquires -/
def acqs : Trace → List Handle
  | [] => []
  | .acq h :: t => h :: acqs t
  | .rel _ :: t => acqs t
  | .point _ _ :: t => acqs t
  | .gap _ :: t => acqs t

theorem acqs_append (t u : Trace) : acqs (t ++ u) = acqs t ++ acqs u := by
  induction t with
  | nil => rfl
  | cons e t ih => cases e <;> simp [acqs, ih]

theorem acqs_under (c : List Handle) (t : Trace) : acqs (under c t) = acqs t := by
  induction t with
  | nil => rfl
  | cons e t ih => cases e <;> simp_all [acqs, under, Ev.push]

theorem acqs_plain (n : Nat) : acqs (plainBlocks n) = [] := by
  induction n with
  | zero => rfl
  | succ n ih => simpa [plainBlocks, List.replicate_succ, acqs] using ih

theorem acqs_replicate_point (n : Nat) (f s : Cleanup) : acqs (List.replicate n (.point f s)) = [] := by
  induction n with
  | zero => rfl
  | succ n ih => simpa [List.replicate_succ, acqs] using ih

theorem acqs_lazy (m : Handle) (mg : Bool) (pre post : Nat) : acqs (lazyBlocks m mg pre post) = [m] := by
  simp [lazyBlocks, acqs, acqs_append, acqs_replicate_point, acqs_plain]

theorem acqs_reyield : ∀ (g : Trace) (ks : List Bool), acqs (reyield g ks) = acqs g := by
  intro g
  induction g with
  | nil => intro ks; simp [reyield]
  | cons e g ih =>
    intro ks
    cases e with
    | acq h => simp [reyield, acqs, ih]
    | rel h => simp [reyield, acqs, ih]
    | gap c => simp [reyield, acqs, ih]
    | point f s =>
      cases ks with
      | nil => simp [reyield, acqs, ih]
      | cons k ks => cases k <;> simp [reyield, acqs, ih]

theorem mem_acqs_forHeld : ∀ (g : Trace) (bs : List Trace) (h : Handle), h ∈ acqs (forHeld g bs) →
    h ∈ acqs g ∨ ∃ b ∈ bs, h ∈ acqs b := by
  intro g
  induction g with
  | nil => intro bs h hm; simp [forHeld, acqs] at hm
  | cons e g ih =>
    intro bs h hm
    cases e with
    | acq x =>
      simp only [forHeld, acqs, List.mem_cons] at hm ⊢
      rcases hm with rfl | hm
      · exact .inl (.inl rfl)
      · rcases ih bs h hm with h1 | h1
        · exact .inl (.inr h1)
        · exact .inr h1
    | rel x => simpa [forHeld, acqs] using ih bs h (by simpa [forHeld, acqs] using hm)
    | gap c => simpa [forHeld, acqs] using ih bs h (by simpa [forHeld, acqs] using hm)
    | point f s =>
      cases bs with
      | nil => simpa [forHeld, acqs] using ih [] h (by simpa [forHeld, acqs] using hm)
      | cons b bs =>
        simp only [forHeld, acqs_append, acqs_under, List.mem_append] at hm
        rcases hm with hm | hm
        · exact .inr ⟨b, by simp, hm⟩
        · rcases ih bs h hm with h1 | ⟨b', hb', h1⟩
          · exact .inl (by simpa [acqs] using h1)
          · exact .inr ⟨b', by simp [hb'], h1⟩

theorem walk_append : ∀ (t u : Trace) (o : List Handle), walk o (t ++ u) = (walk o t).bind (fun r => walk r u) := by
  intro t
  induction t with
  | nil => intro u o; simp [walk]
  | cons e t ih =>
    intro u o
    cases e <;> simp only [List.cons_append, walk] <;> split <;> simp [ih]

/-- frame rule: a trace that is fine on its own is fine inside frames that keep `c'` open, when its scopes
    are extended by (a permutation of) `c'` -/
theorem walk_under (c c' : List Handle) (hcc : c.Perm c') : ∀ (t : Trace) (o r : List Handle),
    (∀ h ∈ acqs t, h ∉ c') → walk o t = some r → walk (o ++ c') (under c t) = some (r ++ c') := by
  intro t
  induction t with
  | nil => intro o r _ hw; simpa [walk, under] using hw
  | cons e t ih =>
    intro o r hd hw
    cases e with
    | acq h =>
      simp only [walk] at hw
      split at hw
      · rename_i hc
        simp only [Bool.and_eq_true, Bool.not_eq_true', List.contains_eq_mem, decide_eq_false_iff_not] at hc
        have hnc : h ∉ c' := hd h (by simp [acqs])
        have := ih (h :: o) r (fun x hx => hd x (by simp [acqs, hx])) hw
        simp only [under, List.map_cons, Ev.push, walk]
        simp only [under, List.cons_append] at this
        simp [hc.1, hc.2, hnc, this]
      · cases hw
    | rel h =>
      simp only [walk] at hw
      split at hw
      · rename_i hc
        simp only [List.contains_eq_mem, decide_eq_true_eq] at hc
        have := ih (o.erase h) r (fun x hx => hd x (by simpa [acqs] using hx)) hw
        simp only [under, List.map_cons, Ev.push, walk]
        simp only [under] at this
        simp [hc, List.erase_append_left _ hc, this]
      · cases hw
    | gap g =>
      simp only [walk] at hw
      split at hw
      · rename_i hc
        simp only [List.isPerm_iff] at hc
        have := ih o r (fun x hx => hd x (by simpa [acqs] using hx)) hw
        simp only [under, List.map_cons, Ev.push, walk]
        simp only [under] at this
        have p1 : (g.push c).all.Perm (o ++ c') := by
          simp only [Cleanup.push, Cleanup.all]
          have : (g.now ++ c ++ g.later).Perm (g.now ++ g.later ++ c) := by
            rw [List.append_assoc, List.append_assoc]
            exact List.Perm.append_left _ List.perm_append_comm
          exact this.trans (List.Perm.append hc hcc)
        simp [List.isPerm_iff, p1, this]
      · cases hw
    | point f s =>
      simp only [walk] at hw
      split at hw
      · rename_i hc
        simp only [Bool.and_eq_true, List.isPerm_iff] at hc
        have := ih o r (fun x hx => hd x (by simpa [acqs] using hx)) hw
        simp only [under, List.map_cons, Ev.push, walk]
        simp only [under] at this
        have p1 : (f.push c).all.Perm (o ++ c') := by
          simp only [Cleanup.push, Cleanup.all]
          have : (f.now ++ c ++ f.later).Perm (f.now ++ f.later ++ c) := by
            rw [List.append_assoc, List.append_assoc]
            exact List.Perm.append_left _ List.perm_append_comm
          exact this.trans (List.Perm.append hc.1 hcc)
        have p2 : (s.push c).all.Perm (o ++ c') := by
          simp only [Cleanup.push, Cleanup.all]
          have : (s.now ++ c ++ s.later).Perm (s.now ++ s.later ++ c) := by
            rw [List.append_assoc, List.append_assoc]
            exact List.Perm.append_left _ List.perm_append_comm
          exact this.trans (List.Perm.append hc.2 hcc)
        simp [List.isPerm_iff, p1, p2, this]
      · cases hw

theorem walk_reyield : ∀ (g : Trace) (ks : List Bool) (o r : List Handle),
    walk o g = some r → walk o (reyield g ks) = some r := by
  intro g
  induction g with
  | nil => intro ks o r hw; simpa [reyield] using hw
  | cons e g ih =>
    intro ks o r hw
    cases e with
    | acq h =>
      simp only [walk] at hw
      split at hw
      · rename_i hc; simp only [reyield, walk, hc, if_true]; exact ih ks _ r hw
      · cases hw
    | rel h =>
      simp only [walk] at hw
      split at hw
      · rename_i hc; simp only [reyield, walk, hc, if_true]; exact ih ks _ r hw
      · cases hw
    | gap c =>
      simp only [walk] at hw
      split at hw
      · rename_i hc; simp only [reyield, walk, hc, if_true]; exact ih ks _ r hw
      · cases hw
    | point f s =>
      simp only [walk] at hw
      split at hw
      · rename_i hc
        simp only [Bool.and_eq_true] at hc
        have hs : (Cleanup.all ⟨s.all, []⟩).isPerm o = true := by simpa [Cleanup.all] using hc.2
        cases ks with
        | nil => simp only [reyield, walk, hc.1, hs, Bool.and_self, if_true]; exact ih [] o r hw
        | cons k ks =>
          cases k with
          | true => simp only [reyield, if_true, List.singleton_append, walk, hc.1, hs, Bool.and_self]; exact ih ks o r hw
          | false => simpa [reyield] using ih ks o r hw
      · cases hw

theorem walk_forHeld : ∀ (g : Trace) (bs : List Trace) (o r : List Handle),
    (∀ b ∈ bs, walk [] b = some []) → (∀ b ∈ bs, ∀ h ∈ acqs b, h ∉ o ∧ h ∉ acqs g) →
    walk o g = some r → walk o (forHeld g bs) = some r := by
  intro g
  induction g with
  | nil => intro bs o r _ _ hw; simpa [forHeld] using hw
  | cons e g ih =>
    intro bs o r hb hd hw
    cases e with
    | acq x =>
      simp only [walk] at hw
      split at hw
      · rename_i hc
        simp only [forHeld, walk, hc, if_true]
        refine ih bs _ r hb ?_ hw
        intro b hbm h hh
        obtain ⟨h1, h2⟩ := hd b hbm h hh
        simp only [acqs, List.mem_cons, not_or] at h2
        exact ⟨by simp [h2.1, h1], h2.2⟩
      · cases hw
    | rel x =>
      simp only [walk] at hw
      split at hw
      · rename_i hc
        simp only [forHeld, walk, hc, if_true]
        refine ih bs _ r hb ?_ hw
        intro b hbm h hh
        obtain ⟨h1, h2⟩ := hd b hbm h hh
        exact ⟨fun hm => h1 (List.mem_of_mem_erase hm), by simpa [acqs] using h2⟩
      · cases hw
    | gap c =>
      simp only [walk] at hw
      split at hw
      · rename_i hc
        simp only [forHeld, walk, hc, if_true]
        refine ih bs _ r hb ?_ hw
        intro b hbm h hh
        obtain ⟨h1, h2⟩ := hd b hbm h hh
        exact ⟨h1, by simpa [acqs] using h2⟩
      · cases hw
    | point f s =>
      simp only [walk] at hw
      split at hw
      · rename_i hc
        simp only [Bool.and_eq_true, List.isPerm_iff] at hc
        cases bs with
        | nil =>
          simp only [forHeld]
          exact ih [] o r (by simp) (by simp) hw
        | cons b bs =>
          simp only [forHeld, walk_append]
          have hbody : walk o (under s.all b) = some o := by
            have := walk_under s.all o hc.2 b [] [] (fun h hh => (hd b (by simp) h hh).1) (hb b (by simp))
            simpa using this
          rw [hbody]
          simp only [Option.bind_some]
          refine ih bs o r (fun b' hb' => hb b' (by simp [hb'])) ?_ hw
          intro b' hb' h hh
          obtain ⟨h1, h2⟩ := hd b' (by simp [hb']) h hh
          exact ⟨h1, by simpa [acqs] using h2⟩
      · cases hw

theorem walk_plain (n : Nat) (o : List Handle) (f : Cleanup) (hf : f.all.Perm o) :
    walk o (List.replicate n (.point f f)) = some o := by
  induction n with
  | zero => rfl
  | succ n ih => simp [List.replicate_succ, walk, List.isPerm_iff, hf, ih]

/-- traces built from the constructs of the language in which every acquisition is made by a `with` frame (or
    by a lazy row iterator that closes itself / an external call that opens and closes) — arbitrary nesting -/
inductive Disciplined : Trace → Prop
  | nil : Disciplined []
  | gap : Disciplined [.gap noCleanup]
  | plain (n : Nat) : Disciplined (plainBlocks n)
  | lazyRows (m : Handle) (mg : Bool) (pre post : Nat) : m.isLib = true → Disciplined (lazyBlocks m mg pre post)
  | external (h : Handle) : h.isLib = true → Disciplined [.acq h, .rel h]
  | withAcquire {t : Trace} (h : Handle) : Disciplined t → h.isLib = true → h ∉ acqs t →
      Disciplined (withC (.acquire h) t)
  | withNull {t : Trace} : Disciplined t → Disciplined (withC .null t)
  | deleg {t : Trace} : Disciplined t → Disciplined (deleg t)
  | seq {t u : Trace} : Disciplined t → Disciplined u → Disciplined (t ++ u)
  | reyield {g : Trace} (ks : List Bool) : Disciplined g → Disciplined (reyield g ks)
  | forHeld {g : Trace} (bs : List Trace) : Disciplined g → (∀ b ∈ bs, Disciplined b) →
      (∀ b ∈ bs, ∀ h ∈ acqs b, h ∉ acqs g) → Disciplined (forHeld g bs)

/-- **the `with` discipline is sufficient**, whatever the nesting of `with`, `yield from`, held generators and
    sequencing -/
theorem disciplined_wf {t : Trace} (h : Disciplined t) : WF t := by
  unfold WF
  induction h with
  | nil => rfl
  | gap => simp [walk, noCleanup, Cleanup.all, List.isPerm_iff]
  | plain n => exact walk_plain n [] noCleanup (by simp [noCleanup, Cleanup.all])
  | lazyRows m mg pre post hm =>
    simp only [lazyBlocks, walk, hm, List.contains_nil, Bool.not_false, Bool.and_self, if_true, walk_append]
    have hp : (if mg = true then (⟨[m], []⟩ : Cleanup) else ⟨[], [m]⟩).all.Perm [m] := by
      cases mg <;> simp [Cleanup.all]
    rw [walk_plain pre [m] _ hp]
    simp only [Option.bind_some, walk, List.contains_cons, beq_self_eq_true, Bool.true_or, if_true,
      List.erase_cons_head]
    exact walk_plain post [] noCleanup (by simp [noCleanup, Cleanup.all])
  | external h hl => simp [walk, hl]
  | @withAcquire t h _ hl hn ih =>
    simp only [withC, walk, hl, List.contains_nil, Bool.not_false, Bool.and_self, if_true, walk_append]
    have := walk_under [h] [h] (List.Perm.refl _) t [] []
      (fun x hx hxm => by simp at hxm; subst hxm; exact hn hx) ih
    simp only [List.nil_append] at this
    rw [this]
    simp [walk]
  | withNull _ ih => simpa [withC] using ih
  | deleg _ ih => simpa [deleg] using ih
  | seq _ _ ih1 ih2 => rw [walk_append, ih1]; simpa using ih2
  | reyield ks _ ih => exact walk_reyield _ ks [] [] ih
  | forHeld bs _ _ hd ihg ihb =>
    exact walk_forHeld _ bs [] [] ihb (fun b hb h hh => ⟨by simp, hd b hb h hh⟩) ihg

/-- C19 for every program written with the discipline -/
theorem disciplined_closes {t : Trace} (h : Disciplined t) (hs : List Action) (hT : Terminal (runAll t hs)) :
    (runAll t hs).opn = [] ∧ (runAll t hs).opened.Perm (runAll t hs).closed ∧ (runAll t hs).bad = [] :=
  library_handles_closed (disciplined_wf h) hs hT

/-! ## 4. the pdtable readers and writers -/

theorem readCsv_disciplined {tbl : Table} (he : EnclosedByWith tbl) (src : Src) (n : Nat) :
    Disciplined (readCsv tbl src n) := by
  obtain ⟨h1, _, _, _, _⟩ := enclosed_shapes he
  unfold readCsv
  rw [h1]
  cases src with
  | path f =>
    simp only [applyFrame, List.foldr, ctxOf]
    exact .withAcquire _ (.deleg (.plain n)) rfl (by simp [Resource.deleg, acqs_plain])
  | stream c =>
    simp only [applyFrame, List.foldr, ctxOf]
    exact .withNull (.deleg (.plain n))

theorem acqs_readSheets {tbl : Table} (he : EnclosedByWith tbl) (src : Src) (n : Nat) :
    ∀ h ∈ acqs (readSheets tbl src n), h = .lib src 0 ∨ h = .lib src 1 := by
  obtain ⟨_, h2, _, _, _⟩ := enclosed_shapes he
  unfold readSheets
  rw [h2]
  cases src <;> simp [applyFrame, ctxOf, withC, acqs, acqs_append, acqs_under, acqs_plain]

theorem readSheets_disciplined {tbl : Table} (he : EnclosedByWith tbl) (src : Src) (n : Nat) :
    Disciplined (readSheets tbl src n) := by
  obtain ⟨_, h2, _, _, _⟩ := enclosed_shapes he
  unfold readSheets
  rw [h2]
  have hwb : ∀ h : Handle, h.isLib = true → Disciplined (withC (.acquireLoad h false) (plainBlocks n)) := by
    intro h hl
    have : withC (.acquireLoad h false) (plainBlocks n) = [.gap noCleanup] ++ withC (.acquire h) (plainBlocks n) := rfl
    rw [this]
    exact .seq .gap (.withAcquire _ (.plain n) hl (by simp [acqs_plain]))
  cases src with
  | path f =>
    simp only [applyFrame, List.foldr, ctxOf]
    refine .withAcquire _ (hwb _ rfl) rfl ?_
    simp [withC, acqs, acqs_append, acqs_under, acqs_plain]
  | stream c =>
    simp only [applyFrame, List.foldr, ctxOf]
    exact .withNull (hwb _ rfl)

theorem sheetBodies_spec (src : Src) (mg : Bool) : ∀ (shs : List Sheet) (i : Nat),
    ∀ b ∈ sheetBodies src mg i shs, Disciplined b ∧ ∀ h ∈ acqs b, ∃ j, h = .lib src (j + 2) := by
  intro shs
  induction shs with
  | nil => intro i b hb; simp [sheetBodies] at hb
  | cons sh shs ih =>
    intro i b hb
    simp only [sheetBodies, List.mem_cons] at hb
    rcases hb with rfl | hb
    · split
      · exact ⟨.deleg (.lazyRows _ _ _ _ rfl), by simp [Resource.deleg, acqs_lazy]⟩
      · exact ⟨.nil, by simp [acqs]⟩
    · exact ih (i + 1) b hb

theorem readExcel_disciplined {tbl : Table} (he : EnclosedByWith tbl) (src : Src) (shs : List Sheet) :
    Disciplined (readExcel tbl src shs) := by
  obtain ⟨_, _, h3, _, _⟩ := enclosed_shapes he
  unfold readExcel
  simp only [h3]
  refine .forHeld _ (readSheets_disciplined he src _) (fun b hb => (sheetBodies_spec src _ shs 0 b hb).1) ?_
  intro b hb h hh
  obtain ⟨j, rfl⟩ := (sheetBodies_spec src _ shs 0 b hb).2 h hh
  intro hm
  rcases acqs_readSheets he src _ _ hm with h' | h' <;> simp at h'

theorem fileRead_disciplined {tbl : Table} (he : EnclosedByWith tbl) (fs : FileSpec) :
    Disciplined (fileRead tbl fs) := by
  cases fs with
  | csv f n => exact .deleg (readCsv_disciplined he _ n)
  | xlsx f shs => exact .deleg (readExcel_disciplined he _ shs)
  | folder => exact .nil

theorem queuedLoad_disciplined {tbl : Table} (he : EnclosedByWith tbl) (files : List (FileSpec × List Bool)) :
    Disciplined (queuedLoad tbl files) := by
  induction files with
  | nil => exact .nil
  | cons x files ih =>
    obtain ⟨fs, keep⟩ := x
    exact .seq .gap (.seq (.deleg (.reyield keep (fileRead_disciplined he fs))) ih)

theorem loadFiles_disciplined {tbl : Table} (he : EnclosedByWith tbl) (files : List (FileSpec × List Bool)) :
    Disciplined (loadFiles tbl files) := .deleg (queuedLoad_disciplined he files)

theorem writeCsv_disciplined {tbl : Table} (he : EnclosedByWith tbl) (dst : Src) (n : Nat) :
    Disciplined (writeCsv tbl dst n) := by
  obtain ⟨_, _, _, h4, _⟩ := enclosed_shapes he
  unfold writeCsv
  rw [h4]
  cases dst with
  | path f =>
    simp only [applyFrame, List.foldr, ctxOf]
    exact .withAcquire _ (.plain n) rfl (by simp [acqs_plain])
  | stream c =>
    simp only [applyFrame, List.foldr, ctxOf]
    exact .withNull (.plain n)

theorem writeExcel_disciplined {tbl : Table} (he : EnclosedByWith tbl) (dst : Src) (n : Nat) :
    Disciplined (writeExcel tbl dst n) := by
  obtain ⟨_, _, _, _, h5⟩ := enclosed_shapes he
  unfold writeExcel
  rw [h5]
  cases dst with
  | path f =>
    exact .seq (.plain n) (.seq .gap (.withAcquire _ .gap rfl (by simp [acqs])))
  | stream c => exact .seq (.plain n) .gap

/-- the API entry points of C19 -/
inductive Api
  | readCsv (src : Src) (n : Nat)
  | readExcel (src : Src) (sheets : List Sheet)
  | loadFiles (files : List (FileSpec × List Bool))
  | writeCsv (dst : Src) (n : Nat)
  | writeExcel (dst : Src) (n : Nat)

def Api.trace (tbl : Table) : Api → Trace
  | .readCsv src n => Resource.readCsv tbl src n
  | .readExcel src shs => Resource.readExcel tbl src shs
  | .loadFiles files => Resource.loadFiles tbl files
  | .writeCsv dst n => Resource.writeCsv tbl dst n
  | .writeExcel dst n => Resource.writeExcel tbl dst n

theorem api_disciplined {tbl : Table} (he : EnclosedByWith tbl) (a : Api) : Disciplined (a.trace tbl) := by
  cases a with
  | readCsv src n => exact readCsv_disciplined he src n
  | readExcel src shs => exact readExcel_disciplined he src shs
  | loadFiles files => exact loadFiles_disciplined he files
  | writeCsv dst n => exact writeCsv_disciplined he dst n
  | writeExcel dst n => exact writeExcel_disciplined he dst n

/-! nothing in the current shapes is deferred to a traceback -/

theorem noDeferred_append (t u : Trace) : noDeferred (t ++ u) = (noDeferred t && noDeferred u) := by
  simp [noDeferred, List.all_append]

theorem noDeferred_under (c : List Handle) (t : Trace) : noDeferred (under c t) = noDeferred t := by
  induction t with
  | nil => rfl
  | cons e t ih =>
    simp only [noDeferred, under, List.map_cons, List.all_cons] at ih ⊢
    rw [ih]
    cases e <;> simp [Ev.push, Cleanup.push]

@[simp] theorem noDeferred_nil : noDeferred [] = true := rfl
@[simp] theorem noDeferred_acq (h : Handle) (t : Trace) : noDeferred (.acq h :: t) = noDeferred t := by
  simp [noDeferred]
@[simp] theorem noDeferred_rel (h : Handle) (t : Trace) : noDeferred (.rel h :: t) = noDeferred t := by
  simp [noDeferred]
@[simp] theorem noDeferred_gap (c : Cleanup) (t : Trace) :
    noDeferred (.gap c :: t) = (c.later.isEmpty && noDeferred t) := by
  simp [noDeferred]

theorem noDeferred_plain (n : Nat) : noDeferred (plainBlocks n) = true := by
  simp [noDeferred, plainBlocks, noCleanup]

theorem noDeferred_lazy_managed (m : Handle) (pre post : Nat) : noDeferred (lazyBlocks m true pre post) = true := by
  simp [noDeferred, lazyBlocks, plainBlocks, noCleanup]

theorem noDeferred_reyield : ∀ (g : Trace) (ks : List Bool), noDeferred g = true → noDeferred (reyield g ks) = true := by
  intro g
  induction g with
  | nil => intro ks _; simp [reyield, noDeferred]
  | cons e g ih =>
    intro ks h
    simp only [noDeferred, List.all_cons, Bool.and_eq_true] at h
    have hg : noDeferred g = true := by simpa [noDeferred] using h.2
    cases e with
    | acq x => simpa [reyield, noDeferred] using ih ks hg
    | rel x => simpa [reyield, noDeferred] using ih ks hg
    | gap c =>
      have := ih ks hg
      simp only [reyield, noDeferred_gap, Bool.and_eq_true]
      exact ⟨by simpa using h.1, this⟩
    | point f s =>
      have hf := h.1
      simp only [Bool.and_eq_true, List.isEmpty_iff] at hf
      cases ks with
      | nil =>
        have := ih [] hg
        simp only [noDeferred] at this
        simp [reyield, noDeferred, hf.1, this]
      | cons k ks =>
        have := ih ks hg
        simp only [noDeferred] at this
        cases k <;> simp [reyield, noDeferred, hf.1, this]

theorem noDeferred_forHeld : ∀ (g : Trace) (bs : List Trace), noDeferred g = true →
    (∀ b ∈ bs, noDeferred b = true) → noDeferred (forHeld g bs) = true := by
  intro g
  induction g with
  | nil => intro bs _ _; simp [forHeld, noDeferred]
  | cons e g ih =>
    intro bs h hb
    simp only [noDeferred, List.all_cons, Bool.and_eq_true] at h
    have hg : noDeferred g = true := by simpa [noDeferred] using h.2
    cases e with
    | acq x => simpa [forHeld, noDeferred] using ih bs hg hb
    | rel x => simpa [forHeld, noDeferred] using ih bs hg hb
    | gap c =>
      have := ih bs hg hb
      simp only [forHeld, noDeferred_gap, Bool.and_eq_true]
      exact ⟨by simpa using h.1, this⟩
    | point f s =>
      cases bs with
      | nil => simpa [forHeld] using ih [] hg (by simp)
      | cons b bs =>
        simp only [forHeld, noDeferred_append, noDeferred_under, Bool.and_eq_true]
        exact ⟨hb b (by simp), ih bs hg (fun b' hb' => hb b' (by simp [hb']))⟩

theorem sheetBodies_noDeferred (src : Src) : ∀ (shs : List Sheet) (i : Nat),
    ∀ b ∈ sheetBodies src true i shs, noDeferred b = true := by
  intro shs
  induction shs with
  | nil => intro i b hb; simp [sheetBodies] at hb
  | cons sh shs ih =>
    intro i b hb
    simp only [sheetBodies, List.mem_cons] at hb
    rcases hb with rfl | hb
    · split
      · exact noDeferred_lazy_managed _ _ _
      · rfl
    · exact ih (i + 1) b hb

theorem api_noDeferred {tbl : Table} (he : EnclosedByWith tbl) (a : Api) : noDeferred (a.trace tbl) = true := by
  obtain ⟨h1, h2, h3, h4, h5⟩ := enclosed_shapes he
  have hcsv : ∀ src n, noDeferred (Resource.readCsv tbl src n) = true := by
    intro src n
    unfold Resource.readCsv; rw [h1]
    cases src <;> simp [applyFrame, ctxOf, withC, Resource.deleg, noDeferred_append, noDeferred_under,
      noDeferred_plain]
  have hsheets : ∀ src n, noDeferred (Resource.readSheets tbl src n) = true := by
    intro src n
    unfold Resource.readSheets; rw [h2]
    cases src <;> simp [applyFrame, ctxOf, withC, noDeferred_append, noDeferred_under, noDeferred_plain, noCleanup]
  have hmg : rowsManaged tbl = true := by simp [rowsManaged, h3]
  have hxl : ∀ src shs, noDeferred (Resource.readExcel tbl src shs) = true := by
    intro src shs
    unfold Resource.readExcel
    simp only [h3, hmg]
    exact noDeferred_forHeld _ _ (hsheets _ _) (sheetBodies_noDeferred src shs 0)
  have hfile : ∀ fs, noDeferred (fileRead tbl fs) = true := by
    intro fs
    cases fs with
    | csv f n => exact hcsv _ _
    | xlsx f shs => exact hxl _ _
    | folder => rfl
  cases a with
  | readCsv src n => exact hcsv src n
  | readExcel src shs => exact hxl src shs
  | loadFiles files =>
    simp only [Api.trace, Resource.loadFiles, Resource.deleg]
    induction files with
    | nil => rfl
    | cons x files ih =>
      obtain ⟨fs, keep⟩ := x
      simp only [queuedLoad, Resource.deleg, includeRead, noDeferred_gap, noDeferred_append, Bool.and_eq_true]
      exact ⟨by simp [noCleanup], noDeferred_reyield _ keep (hfile fs), ih⟩
  | writeCsv dst n =>
    simp only [Api.trace]
    unfold Resource.writeCsv; rw [h4]
    cases dst <;> simp [applyFrame, ctxOf, withC, noDeferred_append, noDeferred_under, noDeferred_plain]
  | writeExcel dst n =>
    simp only [Api.trace]
    unfold Resource.writeExcel; rw [h5]
    cases dst <;> simp [withC, under, Ev.push, Cleanup.push, noDeferred_append, noDeferred_plain, noCleanup]

/-- **C19 for pdtable**, parameterised by the frame table: for every table satisfying `EnclosedByWith`, every
    reader / writer call, every number of blocks, sheets and files, every history: once the consumer is through
    with the iterator, everything the library opened is closed, exactly once, and no caller stream was closed. -/
theorem api_closes_what_it_opened {tbl : Table} (he : EnclosedByWith tbl) (a : Api) (hs : List Action)
    (hT : Terminal (runAll (a.trace tbl) hs)) :
    (runAll (a.trace tbl) hs).opn = [] ∧
    (runAll (a.trace tbl) hs).opened.Perm (runAll (a.trace tbl) hs).closed ∧
    (runAll (a.trace tbl) hs).bad = [] ∧
    ∀ c, Handle.caller c ∉ (runAll (a.trace tbl) hs).closed :=
  let hw := disciplined_wf (api_disciplined he a)
  let r := library_handles_closed hw hs hT
  ⟨r.1, r.2.1, r.2.2, caller_stream_untouched hw hs⟩

/-- every history that ends the consumption is terminal *without* any `releaseExc`: the traceback never keeps
    anything open (this is where the fix of D18 shows) -/
theorem api_never_defers {tbl : Table} (he : EnclosedByWith tbl) (a : Api) (hs : List Action) :
    (runAll (a.trace tbl) hs).tb = [] := (run_nd (api_noDeferred he a) hs).tb

/-- an error in any block (after any prefix of the history) leaves nothing open when it reaches the consumer -/
theorem api_error_closes_immediately {tbl : Table} (he : EnclosedByWith tbl) (a : Api) (hs : List Action) :
    (runAll (a.trace tbl) (hs ++ [.throwInBlock])).pc = .done ∧
    (runAll (a.trace tbl) (hs ++ [.throwInBlock])).opn = [] ∧
    (runAll (a.trace tbl) (hs ++ [.throwInBlock])).bad = [] :=
  error_closes_immediately (disciplined_wf (api_disciplined he a)) (api_noDeferred he a) hs

/-- a failure between two blocks (queued_load between two files; write_excel while the workbook is serialised or
    written to the target) that ends the run leaves nothing open when it reaches the caller -/
theorem api_gap_error_closes_immediately {tbl : Table} (he : EnclosedByWith tbl) (a : Api) (hs : List Action)
    (k : Nat) (hd : (runAll (a.trace tbl) (hs ++ [.throwInGap k])).pc = .done) :
    (runAll (a.trace tbl) (hs ++ [.throwInGap k])).opn = [] ∧ (runAll (a.trace tbl) (hs ++ [.throwInGap k])).bad = [] :=
  gap_error_closes_immediately (disciplined_wf (api_disciplined he a)) (api_noDeferred he a) hs k hd

/-- **C19, writers — partial.**
    Full statement: `write_csv` and `write_excel` (every backend) leave nothing open and no caller stream closed
    when a table fails to serialise at any position `k`.
    Proved here: `write_csv` and `write_excel` with the default backend (`write_excel_openpyxl`), path or stream,
    a failing table at position `k` (this theorem) and a failure while the finished workbook is serialised or
    written to the target (`write_excel_save_failure_closes`).
    Missing: `write_excel(backend=ExcelWriteBackend.XLSXWRITER)`.  `write_excel_xlsxwriter` is
    `wb = xlsxwriter.Workbook(path) … wb.close()` with neither `with` nor `try/finally` (row of the frame table:
    opener outside any `with`, explicit close; pinned in `withFrames_pinned`, excluded from `EnclosedByWith`).
    Whether that leaks depends on when xlsxwriter opens the target, and xlsxwriter is not installed in this
    environment, so it can neither be observed nor be exercised: see `xlsxwriter_closes_if_target_opened_in_close`
    and `xlsxwriter_leaks_if_target_opened_in_constructor` for the two cases. -/
theorem writer_closes_on_failure_partial {tbl : Table} (he : EnclosedByWith tbl) (dst : Src) (n k : Nat) :
    let hs := List.replicate k Action.next ++ [Action.throwInBlock]
    (runAll (writeCsv tbl dst n) hs).opn = [] ∧ (runAll (writeExcel tbl dst n) hs).opn = [] ∧
    (∀ c, Handle.caller c ∉ (runAll (writeCsv tbl dst n) hs).closed) ∧
    (∀ c, Handle.caller c ∉ (runAll (writeExcel tbl dst n) hs).closed) := by
  intro hs
  exact ⟨(api_error_closes_immediately he (.writeCsv dst n) _).2.1,
    (api_error_closes_immediately he (.writeExcel dst n) _).2.1,
    caller_stream_untouched (disciplined_wf (api_disciplined he (.writeCsv dst n))) _,
    caller_stream_untouched (disciplined_wf (api_disciplined he (.writeExcel dst n))) _⟩

/-- write_excel (openpyxl): a failure while the workbook is serialised (`k = 0`: `wb.save(buffer)` / `wb.save(stream)`,
    nothing is open and the target file is not even created) or while the bytes are written to the target
    (`k = 1`: inside `with open(path, 'wb')`) leaves nothing open, for every number of tables. -/
theorem write_excel_save_failure_closes {tbl : Table} (he : EnclosedByWith tbl) (dst : Src) (n k : Nat)
    (hd : (runAll (writeExcel tbl dst n) (List.replicate n Action.next ++ [.throwInGap k])).pc = .done) :
    (runAll (writeExcel tbl dst n) (List.replicate n Action.next ++ [.throwInGap k])).opn = [] ∧
    ∀ c, Handle.caller c ∉ (runAll (writeExcel tbl dst n) (List.replicate n Action.next ++ [.throwInGap k])).closed :=
  ⟨(api_gap_error_closes_immediately he (.writeExcel dst n) _ k hd).1,
   caller_stream_untouched (disciplined_wf (api_disciplined he (.writeExcel dst n))) _⟩

/-- non-vacuity of the `hd` hypothesis: both failure sites of a three-table workbook are reached and end the run -/
example : (runAll (writeExcel Gen.withFrames (.path 0) 3) [.next, .next, .next, .throwInGap 0]).pc = .done ∧
    (runAll (writeExcel Gen.withFrames (.path 0) 3) [.next, .next, .next, .throwInGap 0]).opened = [] ∧
    (runAll (writeExcel Gen.withFrames (.path 0) 3) [.next, .next, .next, .throwInGap 1]).pc = .done ∧
    (runAll (writeExcel Gen.withFrames (.path 0) 3) [.next, .next, .next, .throwInGap 1]).closed = [.lib (.path 0) 0] ∧
    (runAll (writeExcel Gen.withFrames (.stream 0) 3) [.next, .next, .next, .throwInGap 0]).pc = .done := by decide

/-! the xlsxwriter backend (not covered by `EnclosedByWith`; external behaviour unknown here: both cases) -/

/-- if xlsxwriter opens the target only inside `close()` (opens and closes within that call), the writer is
    disciplined: a failing table leaves nothing open (the target is not even created) -/
theorem xlsxwriter_closes_if_target_opened_in_close (dst : Src) (n : Nat) (hs : List Action) :
    Disciplined (writeExcelXlsxwriter false dst n) ∧
    (runAll (writeExcelXlsxwriter false dst n) (hs ++ [.throwInBlock])).opn = [] := by
  have hd : Disciplined (writeExcelXlsxwriter false dst n) := by
    simp only [writeExcelXlsxwriter, Bool.false_eq_true, if_false]
    exact .seq (.plain n) (.external _ rfl)
  have hn : noDeferred (writeExcelXlsxwriter false dst n) = true := by
    simp [writeExcelXlsxwriter, noDeferred_append, noDeferred_plain]
  exact ⟨hd, (error_closes_immediately (disciplined_wf hd) hn hs).2.1⟩

/-- if xlsxwriter opens the target in the constructor, `wb = Workbook(path) … wb.close()` without `try/finally`
    leaves the file to the deallocator when a table fails: the library never closes it -/
theorem xlsxwriter_leaks_if_target_opened_in_constructor :
    wf (writeExcelXlsxwriter true (.path 0) 2) = false ∧
    (runAll (writeExcelXlsxwriter true (.path 0) 2) [.next, .throwInBlock, .releaseExc]).opn = [.lib (.path 0) 0] ∧
    (runAll (writeExcelXlsxwriter true (.path 0) 2) [.next, .next, .next]).opn = [] := by decide

/-- the frame table says what the source is: an opener outside any `with` and an explicit close -/
theorem xlsxwriter_row_not_enclosed :
    frameOf Gen.withFrames "write_excel_xlsxwriter" = .bareOpen ∧
    (Gen.withFrames.filter (fun r => !(Spec.rowEnclosed r))).map Row.name =
      ["write_excel_openpyxl", "write_excel_xlsxwriter"] := by decide

/-! corollaries for the source as it is now -/

theorem source_closes_what_it_opened (a : Api) (hs : List Action)
    (hT : Terminal (runAll (a.trace Gen.withFrames) hs)) :
    (runAll (a.trace Gen.withFrames) hs).opn = [] ∧ (runAll (a.trace Gen.withFrames) hs).bad = [] ∧
    ∀ c, Handle.caller c ∉ (runAll (a.trace Gen.withFrames) hs).closed :=
  let r := api_closes_what_it_opened source_enclosed a hs hT
  ⟨r.1, r.2.2.1, r.2.2.2⟩

theorem source_exhaust_close_drop_error (a : Api) (hs : List Action) :
    let t := a.trace Gen.withFrames
    (runAll t (hs ++ List.replicate ((runAll t hs).rest.length + 1) .next)).opn = [] ∧
    (runAll t (hs ++ [.close])).opn = [] ∧ (runAll t (hs ++ [.drop])).opn = [] ∧
    (runAll t (hs ++ [.throwInBlock])).opn = [] := by
  intro t
  have he := source_enclosed
  have hw := disciplined_wf (api_disciplined he a)
  have htb := api_never_defers he a hs
  refine ⟨(library_handles_closed hw _ (terminal_after_exhaust t hs htb)).1, ?_, ?_,
    (api_error_closes_immediately he a hs).2.1⟩
  · have : Terminal (runAll t (hs ++ [.close])) := by
      unfold runAll; rw [List.foldl_append]; exact terminal_after_close _ htb
    exact (library_handles_closed hw _ this).1
  · have : Terminal (runAll t (hs ++ [.drop])) := by
      unfold runAll; rw [List.foldl_append]; exact terminal_after_drop _ htb
    exact (library_handles_closed hw _ this).1

/-! non-vacuity: concrete multi-block inputs satisfy the hypotheses, and the states in between are not empty -/

def exXlsx : Trace := readExcel Gen.withFrames (.path 7) [⟨true, 2, 1⟩, ⟨false, 0, 0⟩, ⟨true, 0, 1⟩]
def exLoad : Trace := loadFiles Gen.withFrames
  [(.csv 1 2, [true, false]), (.xlsx 7 [⟨true, 2, 1⟩], [true, true, true]), (.folder, [])]

example : wf exXlsx = true ∧ wf exLoad = true := by decide
example : fdsOpen false (runAll exLoad [.next]) = [1] ∧ fdsOpen false (runAll exLoad [.next, .next]) = [7] := by decide
example : Terminal (runAll exLoad [.next, .next, .close]) ∧ fdsOpen false (runAll exLoad [.next, .next, .close]) = [] := by
  decide
example : Terminal (runAll exXlsx [.next, .throwInBlock]) ∧ (runAll exXlsx [.next, .throwInBlock]).closed =
    [.lib (.path 7) 2, .lib (.path 7) 1, .lib (.path 7) 0] := by decide
example : (runAll (readCsv Gen.withFrames (.stream 3) 2) [.next, .next, .next]).closed = [] := by decide
example : Terminal (runAll (writeCsv Gen.withFrames (.path 2) 3) [.next, .throwInBlock]) ∧
    (runAll (writeCsv Gen.withFrames (.path 2) 3) [.next, .throwInBlock]).opened = [.lib (.path 2) 0] := by decide

/-! ## 5. what a regression looks like -/

/-- the table of the mutant `f = open(source)` (no `with`) in read_csv -/
def bareCsvTable : Table :=
  [("read_csv", [("yield from parse_blocks", [])], ["open(<param>)"], [], [])]

theorem bare_open_not_enclosed : ¬ EnclosedByWith bareCsvTable := by decide

/-- with a bare `open` the library never closes the file: not after exhaustion, not after an error -/
theorem bare_open_leaks :
    (runAll (readCsv bareCsvTable (.path 0) 2) [.next, .next, .next]).opn = [.lib (.path 0) 0] ∧
    (runAll (readCsv bareCsvTable (.path 0) 2) [.next, .throwInBlock, .releaseExc]).opn = [.lib (.path 0) 0] ∧
    wf (readCsv bareCsvTable (.path 0) 2) = false := by decide

/-- the table of read_sheets without `closing(...)` -/
def noClosingTable : Table :=
  [("read_sheets", [("yield", [])],
    ["openpyxl.load_workbook(<param>)"], [], []),
   ("read_excel", [("yield from parse_blocks", ["closing(<local>)"])], [], ["read_sheets"], [])]

theorem no_closing_leaks : ¬ EnclosedByWith noClosingTable ∧
    (runAll (readExcel noClosingTable (.path 0) [⟨true, 1, 1⟩]) [.next, .close]).opn = [.lib (.path 0) 0] := by
  decide

/-- a writer / reader that closes the stream it was given -/
def closesStreamTable : Table :=
  [("write_csv", [("call _table_to_csv",
      ["either(nullcontext(<param>), open(<param>))"])], [], [], ["<local>.close()"]),
   ("read_csv", [("yield from parse_blocks",
      ["either(nullcontext(<param>), open(<param>))"])], [], [], ["<local>.close()"])]

theorem explicit_close_closes_caller_stream : ¬ EnclosedByWith closesStreamTable ∧
    callerClosed (runAll (writeCsv closesStreamTable (.stream 4) 1) [.next, .next]) = [4] ∧
    callerClosed (runAll (readCsv closesStreamTable (.stream 4) 2) [.next, .close]) = [4] := by decide

/-- defect D18 (fixed in /repo by aeef58e): read_excel *without* `with closing(row_cell_iter)`.  The row iterator
    of the sheet is then referenced from frame locals only; after an error in a block that is not the last of
    its sheet the member stream — and with it the descriptor of the workbook — stays open for as long as the
    consumer holds the exception. -/
def unmanagedRowsTable : Table :=
  Gen.withFrames.map fun r =>
    if r.name == "read_excel" then ("read_excel", [("yield from parse_blocks", [])], [], ["read_sheets"], [])
    else if r.name == "read_sheets" then
      ("read_sheets", [("yield", ["closing(openpyxl.load_workbook(<param>))"])], [], [], [])   -- as it was then
    else r

/-- the same rewrite of read_excel on top of the *current* read_sheets (the library opens the file itself, D35) -/
def unmanagedRowsOnOpenedFileTable : Table :=
  Gen.withFrames.map fun r => if r.name == "read_excel" then
    ("read_excel", [("yield from parse_blocks", [])], [], ["read_sheets"], []) else r

theorem unmanaged_rows_defer :
    ¬ EnclosedByWith unmanagedRowsTable ∧ workbookSharesFd unmanagedRowsTable = true ∧
    wf (readExcel unmanagedRowsTable (.path 0) [⟨true, 2, 1⟩]) = true ∧
    fdsOpen true (runAll (readExcel unmanagedRowsTable (.path 0) [⟨true, 2, 1⟩]) [.next, .throwInBlock]) = [0] ∧
    fdsOpen true (runAll (readExcel unmanagedRowsTable (.path 0) [⟨true, 2, 1⟩]) [.next, .throwInBlock, .releaseExc]) = [] ∧
    fdsOpen true (runAll (readExcel unmanagedRowsTable (.path 0) [⟨true, 2, 1⟩]) [.next, .next, .throwInBlock]) = [] ∧
    -- on the current read_sheets the descriptor is closed with the error (the file object is in a `with`); what
    -- still waits for the traceback is the member stream object of the sheet, which holds no descriptor
    ¬ EnclosedByWith unmanagedRowsOnOpenedFileTable ∧ workbookSharesFd unmanagedRowsOnOpenedFileTable = false ∧
    fdsOpen false (runAll (readExcel unmanagedRowsOnOpenedFileTable (.path 0) [⟨true, 2, 1⟩]) [.next, .throwInBlock]) = [] ∧
    (runAll (readExcel unmanagedRowsOnOpenedFileTable (.path 0) [⟨true, 2, 1⟩]) [.next, .throwInBlock]).opn =
      [.lib (.path 0) 2] := by
  decide

/-- defect D31 (fixed in /repo by 5dca582): write_excel_openpyxl with `wb.save(path)` directly.  openpyxl's
    `ExcelWriter.save` is `write_data(); archive.close()` without `finally`: when a cell cannot be converted at
    save time (a timezone-aware datetime) the archive on the target stays open for as long as the caller holds
    the exception. -/
def directSaveTable : Table :=
  Gen.withFrames.map fun r => if r.name == "write_excel_openpyxl" then
    ("write_excel_openpyxl", [("call <local>.save", []), ("call _append_table_to_openpyxl_worksheet", [])],
      [], [], []) else r

theorem unbuffered_save_defers :
    ¬ EnclosedByWith directSaveTable ∧
    wf (writeExcel directSaveTable (.path 0) 2) = true ∧
    fdsOpen false (runAll (writeExcel directSaveTable (.path 0) 2) [.next, .next, .throwInGap 0]) = [0] ∧
    fdsOpen false (runAll (writeExcel directSaveTable (.path 0) 2) [.next, .next, .throwInGap 0, .releaseExc]) = [] ∧
    fdsOpen false (runAll (writeExcel Gen.withFrames (.path 0) 2) [.next, .next, .throwInGap 0]) = [] := by decide

/-- defect D35 (fixed in /repo by 0fd2fc9): read_sheets with `closing(openpyxl.load_workbook(path, …))`, openpyxl
    opening the path itself.  When the file is a zip archive but not a workbook, `load_workbook` raises after it
    opened the archive: there is nothing yet for `closing` to close, and the descriptor stays with the frames of the
    traceback for as long as the caller holds the exception.  With the file opened by the library in a `with` of its
    own (current source) the failed load finds the file in scope and closes it. -/
def workbookByPathTable : Table :=
  Gen.withFrames.map fun r => if r.name == "read_sheets" then
    ("read_sheets", [("yield", ["closing(openpyxl.load_workbook(<param>))"])], [], [], []) else r

theorem workbook_opened_by_path_defers :
    ¬ EnclosedByWith workbookByPathTable ∧
    wf (readExcel workbookByPathTable (.path 0) []) = true ∧
    fdsOpen true (runAll (readExcel workbookByPathTable (.path 0) []) [.throwInGap 0]) = [0] ∧
    fdsOpen true (runAll (readExcel workbookByPathTable (.path 0) []) [.throwInGap 0, .releaseExc]) = [] ∧
    (runAll (readExcel Gen.withFrames (.path 0) []) [.throwInGap 0]).pc = .done ∧
    (runAll (readExcel Gen.withFrames (.path 0) []) [.throwInGap 0]).opn = [] ∧
    (runAll (readExcel Gen.withFrames (.path 0) []) [.throwInGap 0]).closed = [.lib (.path 0) 0] ∧
    -- through load_files: one block of the including file, then the include that is not a workbook
    fdsOpen false (runAll (loadFiles Gen.withFrames [(.csv 1 1, [true]), (.xlsx 2 [], [])])
      [.next, .throwInGap 1]) = [] := by decide

/-- load_files: a failure between two files (missing / duplicate / unsupported include, LoadError) finds nothing
    open, also when files without any block lie in between (`throwInGap 1` skips the gap before such a file) -/
example :
    let t := loadFiles Gen.withFrames
      [(.csv 1 2, [true, true]), (.xlsx 2 [⟨false, 0, 0⟩], []), (.folder, []), (.csv 3 1, [true])]
    fdsOpen false (runAll t [.next, .next]) = [1] ∧
    (runAll t [.next, .next, .throwInGap 1]).pc = .done ∧ (runAll t [.next, .next, .throwInGap 1]).opn = [] ∧
    (runAll t [.next, .next, .throwInGap 1]).opened = [.lib (.path 1) 0, .lib (.path 2) 0] ∧
    (runAll t [.throwInGap 0]).opened = [] ∧
    (runAll t [.next, .next, .throwInGap 5]).pc = .suspendedAt 3 ⟨[.lib (.path 3) 0], []⟩ := by decide

end Pdt.C19
