/-
  Props/C04.lean — "Every column keeps exactly its own unit, whatever is done to the frame".

  Statement (properties.jsonl C04): after any sequence of manipulations of a table with at least one row the
  table reports exactly one unit per dataframe column, in dataframe column order, and the positional unit list
  agrees with the per-column lookup; consequently the writers pair every column name with that column's own
  unit and display format.

  Shape of the proof: `Spec.Inv` (register keys = dataframe columns, same order) is established by every
  successful consultation of a frame with rows (`inv_after_check`), from an invariant `Good` of the info
  object that every operation preserves *whatever pandas does to the frame* (`step_good`: the frame after
  each operation, the sources and result of each derived frame are universally quantified).  `reachable_inv`
  lifts this to every finite history from every constructed table; `units_positional`, `lookup_total`,
  `writers_pair` are the reading side.
-/
import PdtModel.Lemmas.Meta
set_option linter.unusedSimpArgs false
set_option linter.unusedVariables false
namespace Pdt.C04
open Pdt Pdt.Meta

/-! No theorem of this file depends on the values of `_unit_from_dtype_kind` / `_units_special`: which
    unit a dtype gets and which labels are refused is C15's subject (pinned in Props/C15.lean); the order and
    completeness of the register proved here hold whatever those tables contain. -/

/-! ## declarative side -/

namespace Spec

/-- what a per-column lookup in a dict finds: the first (only) entry with that key -/
def lookup (r : Reg) (n : Str) : Option ColMeta := (r.find? (fun kv => kv.1 = n)).map (·.2)

/-- the register has exactly the dataframe's columns, in dataframe column order -/
def Inv (t : Tbl) : Prop := t.info.reg.map (·.1) = t.frame.cols.map (·.name)

/-- one unit (and display format) per dataframe column, in dataframe column order, each the one the
    per-column lookup reports -/
def Positional (t : Tbl) : Prop :=
  (t.info.reg.map (fun kv => some kv.2.unit) = t.frame.cols.map (fun c => (lookup t.info.reg c.name).map (·.unit))) ∧
  (t.info.reg.map (fun kv => some kv.2.fmt) = t.frame.cols.map (fun c => (lookup t.info.reg c.name).map (·.fmt)))

end Spec

theorem get_eq_lookup (r : Reg) (n : Str) : get r n = Spec.lookup r n := by
  induction r with
  | nil => simp [Meta.get, Spec.lookup]
  | cons kv r ih =>
    obtain ⟨k, v⟩ := kv
    by_cases h : k = n
    · simp [Meta.get, Spec.lookup, List.find?_cons, h]
    · simp only [Meta.get, Spec.lookup, List.find?_cons, h, decide_false, if_false] at ih ⊢
      exact ih

/-! ## reading side -/

/-- **positional = per-column lookup**: when the register has the frame's columns in order and is a dict,
    the unit list (and the format list) is, position by position, what the lookup by column name reports -/
theorem units_positional (t : Tbl) (hinv : Spec.Inv t) (hnd : (keys t.info.reg).Nodup) : Spec.Positional t := by
  unfold Spec.Inv at hinv
  have hk : keys t.info.reg = t.frame.cols.map (·.name) := hinv
  have hm := map_get_keys t.info.reg hnd
  rw [hk, List.map_map] at hm
  constructor
  · have := congrArg (List.map (Option.map (·.unit))) hm
    simp only [List.map_map] at this
    rw [show (t.frame.cols.map fun c => (Spec.lookup t.info.reg c.name).map (·.unit)) =
          t.frame.cols.map (Option.map (·.unit) ∘ (get t.info.reg ∘ fun c => c.name)) from by
        apply List.map_congr_left; intro c _; simp [get_eq_lookup]]
    rw [this]
    apply List.map_congr_left; intro kv _; rfl
  · have := congrArg (List.map (Option.map (·.fmt))) hm
    simp only [List.map_map] at this
    rw [show (t.frame.cols.map fun c => (Spec.lookup t.info.reg c.name).map (·.fmt)) =
          t.frame.cols.map (Option.map (·.fmt) ∘ (get t.info.reg ∘ fun c => c.name)) from by
        apply List.map_congr_left; intro c _; simp [get_eq_lookup]]
    rw [this]
    apply List.map_congr_left; intro kv _; rfl

/-- exactly one unit per dataframe column -/
theorem units_length (t : Tbl) (hinv : Spec.Inv t) : (units t.info.reg).length = t.frame.cols.length := by
  have := congrArg List.length hinv
  simpa [units] using this

/-- under `Inv` the lookup of every dataframe column succeeds -/
theorem lookup_total (t : Tbl) (hinv : Spec.Inv t) : ∀ c ∈ t.frame.cols, ∃ m, Spec.lookup t.info.reg c.name = some m := by
  intro c hc
  rw [← get_eq_lookup]
  apply mem_keys_get
  show c.name ∈ t.info.reg.map (·.1)
  rw [hinv]
  exact List.mem_map.2 ⟨c, hc, rfl⟩

/-! ## one consultation -/

/-- **after any successful consultation of a frame with rows the register keys equal the frame's column
    list** (same names, same order) — whether the validation ran or the short cut fired -/
theorem inv_after_check (i i' : Info) (f : Frame) (hg : Good i)
    (h : checkDataframe i f = (i', none)) (he : f.empty = false) :
    Spec.Inv ⟨i', f⟩ ∧ (keys i'.reg).Nodup := by
  have hg' := checkDataframe_good i f hg
  rw [h] at hg'
  exact ⟨hg'.keysOk f (checkDataframe_ok_last i i' f h) (Or.inl he), hg'.nodup⟩

/-- a frame that still has rows but has lost all its columns (`df.empty` is true for it too): after a
    successful consultation the register is empty — no unit without a column -/
theorem inv_no_columns (i i' : Info) (f : Frame) (hg : Good i)
    (h : checkDataframe i f = (i', none)) (hc : f.cols = []) :
    i'.reg = [] ∧ units i'.reg = [] := by
  have hg' := checkDataframe_good i f hg
  rw [h] at hg'
  have hk := hg'.keysOk f (checkDataframe_ok_last i i' f h) (Or.inr hc)
  have : i'.reg = [] := by
    have hl := congrArg List.length hk
    simp [keys, Frame.names, hc] at hl
    exact hl
  simp [this, units]

/-- a full validation needs no assumption at all about the register it starts from
    (any register: stale, reordered, foreign) -/
theorem inv_after_full_validation (strict : Bool) (r r' : Reg) (f : Frame)
    (h : updateColumns strict r f = (r', none)) (he : f.empty = false) :
    r'.map (·.1) = f.cols.map (·.name) ∧ (f.cols.map (·.name)).Nodup :=
  ⟨updateColumns_ok_keys strict r r' f h he, updateColumns_ok_names_nodup strict r r' f h⟩

/-- validation never touches the unit, display unit or display format of a column that stays in the frame:
    each column keeps its own metadata through insertions, deletions and reorderings of other columns -/
theorem own_unit_kept (strict : Bool) (r r' : Reg) (f : Frame)
    (h : updateColumns strict r f = (r', none)) (he : f.empty = false) :
    ∀ c ∈ f.cols, ∀ m, Spec.lookup r c.name = some m → Spec.lookup r' c.name = some m := by
  intro c hc m hm
  rw [← get_eq_lookup] at hm ⊢
  exact updateColumns_ok_keeps strict r r' f h he c hc m hm

/-! ## construction: each column gets the unit given for it -/

theorem zip_keys_sublist (a b : List Str) : ((a.zip b).map (·.1)).Sublist a := by
  induction a generalizing b with
  | nil => simp
  | cons x xs ih =>
    cases b with
    | nil => simp
    | cons y ys => simpa using (ih ys).cons_cons x

theorem zipReg_get_other (ps : List (Str × Str)) (r : Reg) (n : Str) (hn : n ∉ ps.map (·.1)) :
    get (zipReg ps r) n = get r n := by
  induction ps generalizing r with
  | nil => simp [zipReg]
  | cons p rest ih =>
    obtain ⟨n0, u0⟩ := p
    unfold zipReg
    have h0 : ¬ n0 = n := by intro e; apply hn; simp [e]
    have hr : n ∉ rest.map (·.1) := by intro e; apply hn; simp at e ⊢; exact Or.inr e
    rw [ih _ hr, get_set]; simp [h0]

theorem zipReg_get_mem (ps : List (Str × Str)) (r : Reg) (hnd : (ps.map (·.1)).Nodup) (p : Str × Str) (hp : p ∈ ps) :
    get (zipReg ps r) p.1 = some { unit := p.2 } := by
  induction ps generalizing r with
  | nil => cases hp
  | cons q rest ih =>
    obtain ⟨n0, u0⟩ := q
    have hnd' := List.nodup_cons.1 (by simpa using hnd : (n0 :: rest.map (·.1)).Nodup)
    unfold zipReg
    rcases List.mem_cons.1 hp with rfl | hin
    · rw [zipReg_get_other rest _ _ hnd'.1, get_set]; simp
    · exact ih _ hnd'.2 hin

/-- **construction assigns units by position**: `Table(df, units=us)` that succeeds on a frame with rows
    reports, for every `(column, unit)` pair of `zip(df.columns, us)`, exactly that unit under that column's
    name — and (by `own_unit_kept`) keeps reporting it whatever is done to the other columns -/
theorem make_own_units (f : Frame) (us : List Str) (strict : Bool) (i : Info)
    (h : make f (some us) none strict = .ok i) (he : f.empty = false) :
    ∀ p ∈ (f.cols.map (·.name)).zip us, ∃ m, Spec.lookup i.reg p.1 = some m ∧ m.unit = p.2 := by
  unfold make at h
  have hb : bothTruthy (some us) none = false := by simp [bothTruthy]
  simp only [hb, Bool.false_eq_true, if_false, makeReg, attach, checkDataframe] at h
  have hne : ¬ ((none : Option Frame) = some f) := by simp
  simp only [hne, if_false] at h
  cases hu : updateColumns strict (zipReg (f.names.zip us) []) f with
  | mk r e =>
    rw [hu] at h
    cases e with
    | some e => simp at h
    | none =>
      simp at h; subst h
      intro p hp
      have hnd := updateColumns_ok_names_nodup strict _ r f hu
      have hsub : ((f.names.zip us).map (·.1)).Nodup := by
        exact (zip_keys_sublist f.names us).nodup hnd
      have hg0 := zipReg_get_mem (f.names.zip us) [] hsub p hp
      have hpn : p.1 ∈ f.names := (List.of_mem_zip hp).1
      obtain ⟨c, hc, hcn⟩ := List.mem_map.1 hpn
      have := updateColumns_ok_keeps strict _ r f hu he c hc _ (by rw [hcn]; exact hg0)
      exact ⟨_, by rw [← get_eq_lookup, ← hcn]; exact this, rfl⟩

/-! ## every operation preserves `Good` (frame effects universally quantified) -/

/-- **every operation preserves the invariant**, whatever frame it leaves behind (proved in
    Lemmas/Meta.lean operation by operation: `addColumn_good`, `setUnits_good`, `make_good`,
    `finalize_good`, …; restated here so that the audit lists it with the property) -/
theorem step_good (t : Tbl) (op : Op) (hg : Good t.info) : Good (step t op).1.info := Meta.step_good t op hg

theorem run_good (t : Tbl) (ops : List Op) (hg : Good t.info) : Good (run t ops).info := Meta.run_good t ops hg

/-- a constructed table (`make_table_dataframe` with any `units` / `unit_map`) starts `Good` -/
theorem make_good (f : Frame) (us : Option (List Str)) (um : Option (List (Str × Str))) (strict : Bool) (i : Info)
    (h : make f us um strict = .ok i) : Good i := Meta.make_good f us um strict i h

/-- a derived frame's info (`__finalize__` with *any* source registers, any result frame) starts `Good` -/
theorem finalize_good (srcs : List Reg) (strict : Bool) (f : Frame) (i : Info)
    (h : finalize srcs strict f = .ok i) : Good i := Meta.finalize_good srcs strict f i h

/-! ## the property over histories -/

/-- **C04, all finite histories.**  Start from any constructed table (any frame, any `units` / `unit_map`,
    strict or not); apply any finite sequence of operations — facade edits, arbitrary in-place frame
    mutations, re-wraps, derived frames with arbitrary sources; then consult.  If the consultation succeeds on
    a frame with rows, the register has exactly the frame's columns in frame order, there is exactly one unit
    per column, and the positional unit / format lists agree with the per-column lookup. -/
theorem reachable_inv (f0 : Frame) (us : Option (List Str)) (um : Option (List (Str × Str))) (strict : Bool)
    (i0 : Info) (h0 : make f0 us um strict = .ok i0) (ops : List Op) (t' : Tbl)
    (hc : step (run ⟨i0, f0⟩ ops) .consult = (t', none)) (he : t'.frame.empty = false) :
    Spec.Inv t' ∧ Spec.Positional t' ∧ (units t'.info.reg).length = t'.frame.cols.length := by
  have hg := run_good ⟨i0, f0⟩ ops (make_good f0 us um strict i0 h0)
  generalize run ⟨i0, f0⟩ ops = t at hg hc
  unfold step consult at hc
  cases hcd : checkDataframe t.info t.frame with
  | mk i1 e =>
    rw [hcd] at hc
    simp only at hc
    obtain ⟨rfl, rfl⟩ := Prod.mk.inj hc
    simp only at he
    obtain ⟨hinv, hnd⟩ := inv_after_check t.info i1 t.frame hg hcd he
    have hinv' : Spec.Inv { t with info := i1 } := hinv
    exact ⟨hinv', units_positional _ hinv' hnd, units_length _ hinv'⟩

/-- the same for histories that start from a derived frame (any `__finalize__`) -/
theorem reachable_inv_derived (srcs : List Reg) (strict : Bool) (f0 : Frame)
    (i0 : Info) (h0 : finalize srcs strict f0 = .ok i0) (ops : List Op) (t' : Tbl)
    (hc : step (run ⟨i0, f0⟩ ops) .consult = (t', none)) (he : t'.frame.empty = false) :
    Spec.Inv t' ∧ Spec.Positional t' ∧ (units t'.info.reg).length = t'.frame.cols.length := by
  have hg := run_good ⟨i0, f0⟩ ops (finalize_good srcs strict f0 i0 h0)
  generalize run ⟨i0, f0⟩ ops = t at hg hc
  unfold step consult at hc
  cases hcd : checkDataframe t.info t.frame with
  | mk i1 e =>
    rw [hcd] at hc
    simp only at hc
    obtain ⟨rfl, rfl⟩ := Prod.mk.inj hc
    simp only at he
    obtain ⟨hinv, hnd⟩ := inv_after_check t.info i1 t.frame hg hcd he
    have hinv' : Spec.Inv { t with info := i1 } := hinv
    exact ⟨hinv', units_positional _ hinv' hnd, units_length _ hinv'⟩

/-! ## own unit across histories

  `Spec.track` is the declarative account of which unit a column *owns* after each operation: the unit
  explicitly given for it (construction by position, `add_column` with a unit, a unit setter, a re-wrap with a
  unit list) or, for a derived frame, the unit of the first source that has the column.  It never looks at
  the register.  `step_owns` proves, operation by operation and for arbitrary frame effects, that the
  register keeps reporting exactly that unit for every column that stays; `reachable_own` is the induction. -/

namespace Spec

abbrev Own := Str → Option Str

def restrictOwn (own : Own) (names : List Str) : Own := fun n => if n ∈ names then own n else none
def forget (own : Own) (ks : List Str) : Own := fun n => if n ∈ ks then none else own n
def assignOwn : Own → List (Str × Str) → Own
  | o, [] => o
  | o, (k, u) :: rest => assignOwn (fun n => if n = k then some u else o n) rest
def zipOwn (names us : List Str) : Own := fun n => ((names.zip us).find? (fun p => p.1 = n)).map (·.2)
/-- the unit of the first source register that has the column -/
def firstUnit (srcs : List Reg) (n : Str) : Option Str := (srcs.findSome? (fun r => lookup r n)).map (·.unit)

/-- ownership after one operation (`ok`: the operation raised nothing) -/
def track (t : Tbl) (own : Own) (op : Op) : Own :=
  let ok := (step t op).2.isNone
  match op with
  | .mutate f => restrictOwn own f.names
  | .consult => own
  | .addColumn n u _ _ f => restrictOwn (fun k => if k = n then (if ok then u else none) else own k) f.names
  | .setUnits m => if ok then restrictOwn (assignOwn own m) t.frame.names else forget own (m.map (·.1))
  | .setAllUnits us =>
    if ok then restrictOwn (assignOwn own (t.frame.names.zip us)) t.frame.names
    else forget own ((t.frame.names.zip us).map (·.1))
  | .setColUnit n u => if ok then restrictOwn (assignOwn own [(n, u)]) t.frame.names else forget own [n]
  | .setFmt _ _ => own
  | .setStrict _ => own
  | .rewrap us _ =>
    if ok then (if t.frame.empty then (fun _ => none) else match us with
      | none => own
      | some l => zipOwn t.frame.names l)
    else own
  | .derive srcs _ f => if ok then restrictOwn (firstUnit srcs) f.names else own

def trackRun (t : Tbl) (own : Own) : List Op → Own
  | [] => own
  | op :: ops => trackRun (step t op).1 (track t own op) ops

/-- every owned column is in the frame and the per-column lookup reports the owned unit -/
def Owns (t : Tbl) (own : Own) : Prop :=
  ∀ n u, own n = some u → n ∈ t.frame.cols.map (·.name) ∧ ∃ m, lookup t.info.reg n = some m ∧ m.unit = u

end Spec

/-- register-level form of `Spec.Owns` -/
def OwnsG (i : Info) (f : Frame) (own : Spec.Own) : Prop :=
  ∀ n u, own n = some u → n ∈ f.names ∧ ∃ m, get i.reg n = some m ∧ m.unit = u

theorem owns_iff (t : Tbl) (own : Spec.Own) : Spec.Owns t own ↔ OwnsG t.info t.frame own := by
  unfold Spec.Owns OwnsG Frame.names
  constructor <;> (intro h n u hn; have := h n u hn; simpa [get_eq_lookup] using this)

/-! ### per-operation frame lemmas -/

theorem assignUnits_get_other (r : Reg) (m : List (Str × Str)) (k : Str) (hk : k ∉ m.map (·.1)) :
    get (assignUnits r m).1 k = get r k := by
  induction m generalizing r with
  | nil => simp [assignUnits]
  | cons p rest ih =>
    obtain ⟨n, u⟩ := p
    have h0 : ¬ n = k := by intro e; apply hk; simp [e]
    have hr : k ∉ rest.map (·.1) := by intro e; apply hk; simp at e ⊢; exact Or.inr e
    unfold assignUnits
    cases hg : get r n with
    | none => simp
    | some cm => simp only; rw [ih _ hr, get_set]; simp [h0]

theorem assignUnits_owns (r r' : Reg) (m : List (Str × Str)) (own : Spec.Own)
    (h : assignUnits r m = (r', none))
    (ho : ∀ n u, own n = some u → ∃ cm, get r n = some cm ∧ cm.unit = u) :
    ∀ n u, Spec.assignOwn own m n = some u → ∃ cm, get r' n = some cm ∧ cm.unit = u := by
  induction m generalizing r own with
  | nil => simp [assignUnits] at h; subst h; simpa [Spec.assignOwn] using ho
  | cons p rest ih =>
    obtain ⟨k, u0⟩ := p
    unfold assignUnits at h
    cases hg : get r k with
    | none => simp [hg] at h
    | some cm =>
      simp only [hg] at h
      unfold Spec.assignOwn
      apply ih _ _ h
      intro n u hn
      by_cases hk : n = k
      · subst hk
        simp at hn; subst hn
        exact ⟨{ cm with unit := u0 }, by rw [get_set]; simp, rfl⟩
      · simp only [hk, if_false] at hn
        obtain ⟨cm', h1, h2⟩ := ho n u hn
        have hk' : ¬ k = n := fun e => hk e.symm
        exact ⟨cm', by rw [get_set]; simp [hk', h1], h2⟩

/-- unit setters: columns not named in the map keep their entry, whatever happens -/
theorem setUnits_get_other (i : Info) (f : Frame) (m : List (Str × Str)) (k : Str) (mm : ColMeta)
    (hk : k ∉ m.map (·.1)) (hn : k ∈ f.names) (hg : get i.reg k = some mm) :
    get (setUnits i f m).1.reg k = some mm := by
  unfold setUnits
  have hc := checkDataframe_keeps i f k mm hn hg
  cases h : checkDataframe i f with
  | mk i1 e =>
    rw [h] at hc
    cases e with
    | some e => simpa using hc
    | none =>
      simp only
      have := assignUnits_get_other i1.reg m k hk
      cases ha : assignUnits i1.reg m with
      | mk r e2 => rw [ha] at this; simp only at this ⊢; rw [this]; exact hc

/-- unit setters that succeed: every column reports the unit the map (last) gave it, the others their own -/
theorem setUnits_owns (i i' : Info) (f : Frame) (m : List (Str × Str)) (own : Spec.Own)
    (h : setUnits i f m = (i', none)) (ho : OwnsG i f own) :
    ∀ n u, Spec.assignOwn own m n = some u → ∃ cm, get i'.reg n = some cm ∧ cm.unit = u := by
  unfold setUnits at h
  cases hcd : checkDataframe i f with
  | mk i1 e =>
    rw [hcd] at h
    cases e with
    | some e => simp at h
    | none =>
      simp only at h
      cases ha : assignUnits i1.reg m with
      | mk r e2 =>
        rw [ha] at h
        simp only at h
        obtain ⟨rfl, rfl⟩ := Prod.mk.inj h
        apply assignUnits_owns i1.reg r m own ha
        intro n u hn
        obtain ⟨hin, cm, h1, h2⟩ := ho n u hn
        have := checkDataframe_keeps i f n cm hin h1
        rw [hcd] at this
        exact ⟨cm, this, h2⟩

theorem addColumnCore_get_other (i : Info) (f : Frame) (n k : Str) (u du fm : Option Str) (hk : ¬ k = n) :
    get (addColumnCore i f n u du fm).1.reg k = get i.reg k := by
  have hk' : ¬ n = k := fun e => hk e.symm
  unfold addColumnCore
  simp only
  cases hfind : f.cols.find? (fun c => c.name = n) with
  | none => rfl
  | some c =>
    simp only
    cases u with
    | none =>
      simp only
      cases hu : unitFromKind c.kind with
      | error e => rfl
      | ok u0 => simp only; cases hget : get i.reg n <;> simp [get_set, hk']
    | some u0 => simp only; cases hget : get i.reg n <;> simp [get_set, hk']

/-- `add_column` never touches the entry of another column -/
theorem addColumn_get_other (i : Info) (f : Frame) (n k : Str) (u du fm : Option Str) (hk : ¬ k = n) :
    get (addColumn i f n u du fm).1.reg k = get i.reg k := by
  unfold addColumn
  by_cases h : (u.isNone && dupLabel f n) = true
  · simp [h]
  · simp only [h]; exact addColumnCore_get_other i f n k u du fm hk

/-- `add_column` with an explicit unit: the column reports that unit -/
theorem addColumn_get_target (i i' : Info) (f : Frame) (n x : Str) (du fm : Option Str)
    (h : addColumn i f n (some x) du fm = (i', none)) : ∃ m, get i'.reg n = some m ∧ m.unit = x := by
  unfold addColumn at h
  simp only [Option.isNone_some, Bool.false_and, Bool.false_eq_true, if_false] at h
  unfold addColumnCore at h
  simp only at h
  cases hfind : f.cols.find? (fun c => c.name = n) with
  | none => simp [hfind] at h
  | some c =>
    simp only [hfind] at h
    cases hget : get i.reg n with
    | none =>
      simp only [hget] at h
      obtain ⟨rfl, _⟩ := Prod.mk.inj h
      exact ⟨{ unit := x, dunit := du, fmt := fm }, by simp [get_set], rfl⟩
    | some col =>
      simp only [hget] at h
      obtain ⟨rfl, _⟩ := Prod.mk.inj h
      exact ⟨updateFrom col { unit := x, dunit := du, fmt := fm }, by simp [get_set], rfl⟩

/-- editing a display format changes no unit -/
theorem setColFmt_unit (i : Info) (f : Frame) (n0 k : Str) (fm : Option Str) (mm : ColMeta)
    (hn : k ∈ f.names) (hg : get i.reg k = some mm) :
    ∃ mm', get (setColFmt i f n0 fm).1.reg k = some mm' ∧ mm'.unit = mm.unit := by
  unfold setColFmt
  have hc := checkDataframe_keeps i f k mm hn hg
  cases h : checkDataframe i f with
  | mk i1 e =>
    rw [h] at hc
    cases e with
    | some e => exact ⟨mm, by simpa using hc, rfl⟩
    | none =>
      simp only
      cases hget : get i1.reg n0 with
      | none => exact ⟨mm, by simpa using hc, rfl⟩
      | some m0 =>
        simp only
        by_cases hk : n0 = k
        · subst hk
          rw [hget] at hc; cases hc
          exact ⟨{ mm with fmt := fm }, by rw [get_set]; simp, rfl⟩
        · exact ⟨mm, by rw [get_set]; simp [hk, hc], rfl⟩

theorem get_mem (r : Reg) (n : Str) (m : ColMeta) (h : get r n = some m) : (n, m) ∈ r := by
  induction r with
  | nil => simp [Meta.get] at h
  | cons kv r ih =>
    obtain ⟨k, v⟩ := kv
    by_cases hk : k = n
    · simp [Meta.get, hk] at h; subst h; subst hk; exact List.mem_cons_self
    · simp only [Meta.get, hk, if_false] at h
      exact List.mem_cons_of_mem _ (ih h)

theorem mem_zip_keys_units (r : Reg) (n : Str) (m : ColMeta) (h : get r n = some m) :
    (n, m.unit) ∈ (keys r).zip (units r) := by
  have : (keys r).zip (units r) = r.map (fun kv => (kv.1, kv.2.unit)) := by
    unfold keys units
    exact List.zip_map' ..
  rw [this]
  exact List.mem_map.2 ⟨(n, m), get_mem r n m h, rfl⟩

theorem zipOwn_mem (names us : List Str) (n u : Str) (h : Spec.zipOwn names us n = some u) :
    (n, u) ∈ names.zip us := by
  unfold Spec.zipOwn at h
  cases hf : (names.zip us).find? (fun p => p.1 = n) with
  | none => simp [hf] at h
  | some p =>
    simp [hf] at h
    have hm := List.mem_of_find?_eq_some hf
    have hp := List.find?_some hf
    simp at hp
    obtain ⟨a, b⟩ := p
    simp at hp h
    subst hp; subst h
    exact hm

/-! the column part of `_combine_tables`: a column's unit is that of the first source that has it -/

def unitOf (r : Reg) (n : Str) : Option Str := (get r n).map (·.unit)

theorem unitOf_none (r : Reg) (n : Str) : unitOf r n = none ↔ get r n = none := by
  unfold unitOf; cases get r n <;> simp

theorem combineOne_unit_keep (out : List Str) (acc s r : Reg) (n u : Str)
    (h : combineOne out acc s = .ok r) (hu : unitOf acc n = some u) : unitOf r n = some u := by
  induction s generalizing acc with
  | nil => simp [combineOne] at h; subst h; exact hu
  | cons p rest ih =>
    obtain ⟨k, c⟩ := p
    unfold combineOne at h
    by_cases ho : out.contains k = true
    · simp only [ho, Bool.not_true, Bool.false_eq_true, if_false] at h
      cases hg : get acc k with
      | none =>
        simp only [hg] at h
        apply ih _ h
        have hk : ¬ k = n := by
          intro e; subst e; unfold unitOf at hu; rw [hg] at hu; simp at hu
        unfold unitOf at hu ⊢; rw [get_set]; simpa [hk] using hu
      | some col =>
        simp only [hg] at h
        by_cases hne : col.unit ≠ c.unit
        · simp [hne] at h
        · simp only [hne, if_false] at h
          apply ih _ h
          unfold unitOf; rw [get_set]
          by_cases hk : k = n
          · subst hk
            unfold unitOf at hu; rw [hg] at hu
            simp at hu hne
            simp [updateFrom, ← hne, hu]
          · unfold unitOf at hu; simpa [hk] using hu
    · have ho' : out.contains k = false := by simpa using ho
      simp only [ho', Bool.not_false, if_true] at h
      exact ih acc h hu

theorem combineOne_unit_new (out : List Str) (acc s r : Reg) (n : Str)
    (h : combineOne out acc s = .ok r) (hn : n ∈ out) (hnone : get acc n = none) : unitOf r n = unitOf s n := by
  induction s generalizing acc with
  | nil => simp [combineOne] at h; subst h; simp [unitOf, hnone, Meta.get]
  | cons p rest ih =>
    obtain ⟨k, c⟩ := p
    unfold combineOne at h
    by_cases ho : out.contains k = true
    · simp only [ho, Bool.not_true, Bool.false_eq_true, if_false] at h
      by_cases hk : k = n
      · subst hk
        simp only [hnone] at h
        have := combineOne_unit_keep out _ rest r k c.unit h (by unfold unitOf; rw [get_set]; simp [copyMeta, updateFrom])
        rw [this]; simp [unitOf, Meta.get]
      · have hs : unitOf ((k, c) :: rest) n = unitOf rest n := by simp [unitOf, Meta.get, hk]
        rw [hs]
        cases hg : get acc k with
        | none =>
          simp only [hg] at h
          exact ih _ h (by rw [get_set]; simp [hk, hnone])
        | some col =>
          simp only [hg] at h
          by_cases hne : col.unit ≠ c.unit
          · simp [hne] at h
          · simp only [hne, if_false] at h
            exact ih _ h (by rw [get_set]; simp [hk, hnone])
    · have ho' : out.contains k = false := by simpa using ho
      simp only [ho', Bool.not_false, if_true] at h
      have hk : ¬ k = n := by
        intro e; subst e
        have := List.contains_iff_mem.2 hn
        rw [ho'] at this; cases this
      have hs : unitOf ((k, c) :: rest) n = unitOf rest n := by simp [unitOf, Meta.get, hk]
      rw [hs]
      exact ih acc h hnone

theorem combine_unit (out : List Str) (acc : Reg) (srcs : List Reg) (r : Reg) (n : Str)
    (h : combine out acc srcs = .ok r) (hn : n ∈ out) :
    unitOf r n = match unitOf acc n with
      | some u => some u
      | none => (srcs.findSome? (fun s => get s n)).map (·.unit) := by
  induction srcs generalizing acc with
  | nil => simp [combine] at h; subst h; cases unitOf acc n <;> simp
  | cons s rest ih =>
    unfold combine at h
    cases h1 : combineOne out acc s with
    | error e => simp [h1] at h
    | ok acc' =>
      simp only [h1] at h
      rw [ih acc' h]
      cases hu : unitOf acc n with
      | some u => simp only; rw [combineOne_unit_keep out acc s acc' n u h1 hu]
      | none =>
        have hnone := (unitOf_none acc n).1 hu
        have hnew := combineOne_unit_new out acc s acc' n h1 hn hnone
        simp only
        rw [hnew]
        cases hs : get s n with
        | none => simp [unitOf, hs, List.findSome?_cons]
        | some c => simp [unitOf, hs, List.findSome?_cons]

/-- **derived frames**: after a successful `__finalize__` every result column that some source has reports the
    unit of the *first* source that has it (`copy()` of that source's metadata, later sources may only agree) -/
theorem finalize_first_unit (srcs : List Reg) (strict : Bool) (f : Frame) (i : Info)
    (h : finalize srcs strict f = .ok i) (n u : Str) (hn : n ∈ f.names) (hu : Spec.firstUnit srcs n = some u) :
    ∃ m, get i.reg n = some m ∧ m.unit = u := by
  unfold finalize at h
  cases hc : combine f.names [] srcs with
  | error e => simp [hc] at h
  | ok reg =>
    simp only [hc, attach] at h
    have hcu := combine_unit f.names [] srcs reg n hc hn
    have hfu : (srcs.findSome? (fun s => get s n)).map (·.unit) = some u := by
      unfold Spec.firstUnit at hu
      rw [← hu]
      congr 1
      congr 1
      funext s
      exact get_eq_lookup s n
    simp only [unitOf, Meta.get, Option.map_none] at hcu
    rw [hfu] at hcu
    cases hg : get reg n with
    | none => simp [hg] at hcu
    | some m =>
      simp [hg] at hcu
      have hk := checkDataframe_keeps { reg := reg, last := none, strict := strict } f n m hn hg
      cases hcd : checkDataframe { reg := reg, last := none, strict := strict } f with
      | mk i1 e =>
        rw [hcd] at h hk
        cases e with
        | some e => simp at h
        | none => simp at h; subst h; exact ⟨m, hk, hcu⟩

/-! ### one operation, then all histories -/

theorem make_own_units_get (f : Frame) (us : List Str) (strict : Bool) (i : Info)
    (h : make f (some us) none strict = .ok i) (he : f.empty = false) (n u : Str)
    (hp : (n, u) ∈ f.names.zip us) : ∃ m, get i.reg n = some m ∧ m.unit = u := by
  have := make_own_units f us strict i h he (n, u) (by simpa [Frame.names] using hp)
  simpa [get_eq_lookup] using this

theorem forget_some (own : Spec.Own) (ks : List Str) (n u : Str) (h : Spec.forget own ks n = some u) :
    n ∉ ks ∧ own n = some u := by
  unfold Spec.forget at h
  by_cases hk : n ∈ ks
  · simp [hk] at h
  · simp only [hk, if_false] at h; exact ⟨hk, h⟩

theorem restrictOwn_some (own : Spec.Own) (ns : List Str) (n u : Str) (h : Spec.restrictOwn own ns n = some u) :
    n ∈ ns ∧ own n = some u := by
  unfold Spec.restrictOwn at h
  by_cases hk : n ∈ ns
  · simp only [hk, if_true] at h; exact ⟨hk, h⟩
  · simp [hk] at h

theorem step_rewrap (t : Tbl) (us : Option (List Str)) (st : Option Bool) :
    step t (.rewrap us st) =
      match checkDataframe t.info t.frame with
      | (i1, some e) => ({ t with info := i1 }, some e)
      | (i1, none) =>
        match make t.frame (some (us.getD (units i1.reg))) none (st.getD i1.strict) with
        | .ok i2 => ({ t with info := i2 }, none)
        | .error e => ({ t with info := i1 }, some e) := by
  simp only [step, rewrap]
  cases checkDataframe t.info t.frame with
  | mk i1 e =>
    cases e with
    | some e => rfl
    | none =>
      simp only
      cases make t.frame (some (us.getD (units i1.reg))) none (st.getD i1.strict) <;> rfl

theorem step_derive (t : Tbl) (srcs : List Reg) (st : Bool) (f : Frame) :
    step t (.derive srcs st f) =
      match finalize srcs st f with
      | .ok i2 => ({ info := i2, frame := f }, none)
      | .error e => (t, some e) := by
  rfl

/-- **every operation keeps every column's own unit** (frame effects, sources and results of derived frames
    universally quantified; whether the operation succeeds or raises) -/
theorem step_owns (t : Tbl) (own : Spec.Own) (op : Op) (hg : Good t.info) (h : OwnsG t.info t.frame own) :
    OwnsG (step t op).1.info (step t op).1.frame (Spec.track t own op) := by
  cases op with
  | mutate f =>
    intro n u hn
    simp only [Spec.track, Spec.restrictOwn] at hn
    by_cases hin : n ∈ f.names
    · simp only [hin, if_true] at hn
      exact ⟨by simpa [step] using hin, by simpa [step] using (h n u hn).2⟩
    · simp [hin] at hn
  | consult =>
    intro n u hn
    simp only [Spec.track] at hn
    obtain ⟨hin, m, h1, h2⟩ := h n u hn
    exact ⟨by simpa [step] using hin, m, by simpa [step, consult] using checkDataframe_keeps t.info t.frame n m hin h1, h2⟩
  | addColumn n0 u0 du fm f =>
    intro n u hn
    simp only [Spec.track, Spec.restrictOwn] at hn
    by_cases hin : n ∈ f.names
    · simp only [hin, if_true] at hn
      refine ⟨by simpa [step] using hin, ?_⟩
      by_cases hk : n = n0
      · subst hk
        simp only [if_true] at hn
        by_cases hok : (step t (.addColumn n u0 du fm f)).2.isNone = true
        · simp only [hok, if_true] at hn
          subst hn
          simp only [step] at hok ⊢
          cases hac : addColumn t.info f n (some u) du fm with
          | mk i' e =>
            rw [hac] at hok
            simp only at hok ⊢
            cases e with
            | some e => simp at hok
            | none => exact addColumn_get_target t.info i' f n u du fm hac
        · simp [hok] at hn
      · simp only [hk, if_false] at hn
        obtain ⟨_, m, h1, h2⟩ := h n u hn
        exact ⟨m, by simp only [step]; rw [addColumn_get_other _ _ _ _ _ _ _ hk]; exact h1, h2⟩
    · simp [hin] at hn
  | setUnits m =>
    intro n u hn
    simp only [Spec.track] at hn
    by_cases hok : (step t (.setUnits m)).2.isNone = true
    · simp only [hok, if_true, Spec.restrictOwn] at hn
      by_cases hin : n ∈ t.frame.names
      · simp only [hin, if_true] at hn
        simp only [step] at hok ⊢
        cases hs : setUnits t.info t.frame m with
        | mk i' e =>
          rw [hs] at hok
          cases e with
          | some e => simp at hok
          | none => exact ⟨hin, setUnits_owns t.info i' t.frame m own hs h n u hn⟩
      · simp [hin] at hn
    · simp only [hok] at hn
      obtain ⟨hkm, hn⟩ := forget_some _ _ _ _ hn
      · obtain ⟨hin, mm, h1, h2⟩ := h n u hn
        exact ⟨by simpa [step] using hin, mm, by simpa [step] using setUnits_get_other t.info t.frame m n mm hkm hin h1, h2⟩
  | setAllUnits us =>
    intro n u hn
    simp only [Spec.track] at hn
    by_cases hok : (step t (.setAllUnits us)).2.isNone = true
    · simp only [hok, if_true, Spec.restrictOwn] at hn
      by_cases hin : n ∈ t.frame.names
      · simp only [hin, if_true] at hn
        simp only [step, setAllUnits] at hok ⊢
        cases hs : setUnits t.info t.frame (t.frame.names.zip us) with
        | mk i' e =>
          rw [hs] at hok
          cases e with
          | some e => simp at hok
          | none => exact ⟨hin, setUnits_owns t.info i' t.frame _ own hs h n u hn⟩
      · simp [hin] at hn
    · simp only [hok] at hn
      obtain ⟨hkm, hn⟩ := forget_some _ _ _ _ hn
      · obtain ⟨hin, mm, h1, h2⟩ := h n u hn
        exact ⟨by simpa [step] using hin, mm,
          by simpa [step, setAllUnits] using setUnits_get_other t.info t.frame _ n mm hkm hin h1, h2⟩
  | setColUnit n0 u0 =>
    intro n u hn
    simp only [Spec.track] at hn
    by_cases hc : n0 ∈ t.frame.names
    · by_cases hd : dupLabel t.frame n0 = true
      · -- refused before the info is touched
        have hok : (step t (.setColUnit n0 u0)).2.isNone = false := by simp [step, setColUnit, hc, hd]
        simp only [hok, Bool.false_eq_true, if_false] at hn
        obtain ⟨_, hn⟩ := forget_some _ _ _ _ hn
        simpa [step, setColUnit, hc, hd] using h n u hn
      · have hstep : step t (.setColUnit n0 u0) =
            ({ t with info := (setUnits t.info t.frame [(n0, u0)]).1 }, (setUnits t.info t.frame [(n0, u0)]).2) := by
          simp [step, setColUnit, hc, hd]
        rw [hstep] at hn ⊢
        simp only at hn ⊢
        by_cases hok : (setUnits t.info t.frame [(n0, u0)]).2.isNone = true
        · simp only [hok, if_true, Spec.restrictOwn] at hn
          by_cases hin : n ∈ t.frame.names
          · simp only [hin, if_true] at hn
            cases hs : setUnits t.info t.frame [(n0, u0)] with
            | mk i' e =>
              rw [hs] at hok
              cases e with
              | some e => simp at hok
              | none => exact ⟨hin, setUnits_owns t.info i' t.frame _ own hs h n u hn⟩
          · simp [hin] at hn
        · simp only [hok] at hn
          obtain ⟨hkm, hn⟩ := forget_some _ _ _ _ hn
          obtain ⟨hin, mm, h1, h2⟩ := h n u hn
          exact ⟨hin, mm, setUnits_get_other t.info t.frame _ n mm (by simpa using hkm) hin h1, h2⟩
    · have hok : (step t (.setColUnit n0 u0)).2.isNone = false := by simp [step, setColUnit, hc]
      simp only [hok, Bool.false_eq_true, if_false] at hn
      obtain ⟨_, hn⟩ := forget_some _ _ _ _ hn
      simpa [step, setColUnit, hc] using h n u hn
  | setFmt n0 fm =>
    intro n u hn
    simp only [Spec.track] at hn
    obtain ⟨hin, mm, h1, h2⟩ := h n u hn
    obtain ⟨mm', h3, h4⟩ := setColFmt_unit t.info t.frame n0 n fm mm hin h1
    exact ⟨by simpa [step] using hin, mm', by simpa [step] using h3, by rw [h4]; exact h2⟩
  | setStrict b =>
    intro n u hn
    simp only [Spec.track] at hn
    simpa [step] using h n u hn
  | rewrap us st =>
    intro n u hn
    simp only [Spec.track] at hn
    have hgood := checkDataframe_good t.info t.frame hg
    rw [step_rewrap] at hn ⊢
    cases hcd : checkDataframe t.info t.frame with
    | mk i1 e =>
      simp only [hcd] at hn
      rw [hcd] at hgood
      have keep : ∀ n u, own n = some u → n ∈ t.frame.names ∧ ∃ m, get i1.reg n = some m ∧ m.unit = u := by
        intro n u hn
        obtain ⟨hin, m, h1, h2⟩ := h n u hn
        have := checkDataframe_keeps t.info t.frame n m hin h1
        rw [hcd] at this
        exact ⟨hin, m, this, h2⟩
      cases e with
      | some e => simp only at hn ⊢; simpa using keep n u (by simpa using hn)
      | none =>
        simp only at hn ⊢
        cases hm : make t.frame (some (us.getD (units i1.reg))) none (st.getD i1.strict) with
        | error e => simp only [hm] at hn ⊢; simpa using keep n u (by simpa using hn)
        | ok i2 =>
          simp only [hm] at hn ⊢
          simp only [Option.isNone_none, if_true] at hn ⊢
          by_cases he : t.frame.empty = true
          · simp [he] at hn
          · have he' : t.frame.empty = false := by simpa using he
            simp only [he', Bool.false_eq_true, if_false] at hn
            cases us with
            | none =>
              simp only at hn
              obtain ⟨hin, m, h1, h2⟩ := keep n u hn
              have hkeys : keys i1.reg = t.frame.names :=
                hgood.keysOk t.frame (checkDataframe_ok_last t.info i1 t.frame hcd) (Or.inl he')
              have hz := mem_zip_keys_units i1.reg n m h1
              rw [hkeys, h2] at hz
              exact ⟨hin, make_own_units_get t.frame _ _ i2 hm he' n u (by simpa using hz)⟩
            | some l =>
              simp only at hn
              have hz := zipOwn_mem t.frame.names l n u hn
              exact ⟨(List.of_mem_zip hz).1, make_own_units_get t.frame _ _ i2 hm he' n u (by simpa using hz)⟩
  | derive srcs st f =>
    intro n u hn
    simp only [Spec.track] at hn
    rw [step_derive] at hn ⊢
    cases hf : finalize srcs st f with
    | error e => simp only [hf] at hn ⊢; simpa using h n u (by simpa using hn)
    | ok i2 =>
      simp only [hf] at hn ⊢
      simp only [Option.isNone_none, if_true, Spec.restrictOwn] at hn ⊢
      by_cases hin : n ∈ f.names
      · simp only [hin, if_true] at hn
        exact ⟨hin, finalize_first_unit srcs st f i2 hf n u hin hn⟩
      · simp [hin] at hn

theorem run_owns (t : Tbl) (own : Spec.Own) (ops : List Op) (hg : Good t.info) (h : OwnsG t.info t.frame own) :
    OwnsG (run t ops).info (run t ops).frame (Spec.trackRun t own ops) := by
  induction ops generalizing t own with
  | nil => simpa [run, Spec.trackRun] using h
  | cons op ops ih =>
    unfold run Spec.trackRun
    exact ih _ _ (Meta.step_good t op hg) (step_owns t own op hg h)

/-- **C04, "keeps exactly its own unit", all finite histories.**  Construct a table with a unit list on a frame
    with rows (ownership: `zip(df.columns, units)`); apply any finite sequence of operations (arbitrary frame
    effects, arbitrary derived frames); then consult.  If the consultation succeeds, every column that the
    history says owns a unit — because it was given at construction and the column stayed, or through
    `add_column`, a setter, a re-wrap, or inherited from the first source of a derived frame — is in the frame
    and its per-column lookup reports exactly that unit (and by `reachable_inv` the positional list does too). -/
theorem reachable_own (f0 : Frame) (us : List Str) (strict : Bool) (i0 : Info)
    (h0 : make f0 (some us) none strict = .ok i0) (he0 : f0.empty = false) (ops : List Op) (t' : Tbl)
    (hc : step (run ⟨i0, f0⟩ ops) .consult = (t', none)) :
    Spec.Owns t' (Spec.trackRun ⟨i0, f0⟩ (Spec.zipOwn (f0.cols.map (·.name)) us) ops) := by
  have hg0 := Meta.make_good f0 (some us) none strict i0 h0
  have h00 : OwnsG i0 f0 (Spec.zipOwn (f0.cols.map (·.name)) us) := by
    intro n u hn
    have hz := zipOwn_mem _ _ n u hn
    exact ⟨(List.of_mem_zip hz).1, make_own_units_get f0 us strict i0 h0 he0 n u hz⟩
  have hr := run_owns ⟨i0, f0⟩ _ ops hg0 h00
  have hgr := Meta.run_good ⟨i0, f0⟩ ops hg0
  have hs := step_owns (run ⟨i0, f0⟩ ops) _ .consult hgr hr
  rw [hc] at hs
  rw [owns_iff]
  simpa [Spec.track] using hs

/-- the same for a history that starts from a derived frame: ownership starts as "first source that has it" -/
theorem reachable_own_derived (srcs : List Reg) (strict : Bool) (f0 : Frame) (i0 : Info)
    (h0 : finalize srcs strict f0 = .ok i0) (ops : List Op) (t' : Tbl)
    (hc : step (run ⟨i0, f0⟩ ops) .consult = (t', none)) :
    Spec.Owns t' (Spec.trackRun ⟨i0, f0⟩ (Spec.restrictOwn (Spec.firstUnit srcs) f0.names) ops) := by
  have hg0 := Meta.finalize_good srcs strict f0 i0 h0
  have h00 : OwnsG i0 f0 (Spec.restrictOwn (Spec.firstUnit srcs) f0.names) := by
    intro n u hn
    simp only [Spec.restrictOwn] at hn
    by_cases hin : n ∈ f0.names
    · simp only [hin, if_true] at hn
      exact ⟨hin, finalize_first_unit srcs strict f0 i0 h0 n u hin hn⟩
    · simp [hin] at hn
  have hr := run_owns ⟨i0, f0⟩ _ ops hg0 h00
  have hgr := Meta.run_good ⟨i0, f0⟩ ops hg0
  have hs := step_owns (run ⟨i0, f0⟩ ops) _ .consult hgr hr
  rw [hc] at hs
  rw [owns_iff]
  simpa [Spec.track] using hs

/-! ## writers -/

/-- **CSV writer** (names, units, display formats) and **Excel writer** (names and units only: it ignores display
    formats): after any history, if the writer's consultation succeeds on a frame with rows,
    the name line is the frame's columns and the unit line and the format list are, position by position,
    the looked-up unit and display format of the column named at that position -/
theorem writers_pair (f0 : Frame) (us : Option (List Str)) (um : Option (List (Str × Str))) (strict : Bool)
    (i0 : Info) (h0 : make f0 us um strict = .ok i0) (ops : List Op)
    (i1 : Info) (ns us' : List Str) (fs : List (Option Str))
    (hw : writerHeader (run ⟨i0, f0⟩ ops).info (run ⟨i0, f0⟩ ops).frame = (i1, .ok (ns, us', fs)))
    (he : (run ⟨i0, f0⟩ ops).frame.empty = false) :
    ns = (run ⟨i0, f0⟩ ops).frame.cols.map (·.name) ∧
    us'.map some = (run ⟨i0, f0⟩ ops).frame.cols.map (fun c => (Spec.lookup i1.reg c.name).map (·.unit)) ∧
    fs.map some = (run ⟨i0, f0⟩ ops).frame.cols.map (fun c => (Spec.lookup i1.reg c.name).map (·.fmt)) := by
  have hg := run_good ⟨i0, f0⟩ ops (make_good f0 us um strict i0 h0)
  generalize run ⟨i0, f0⟩ ops = t at hg hw he
  unfold writerHeader consult at hw
  cases hcd : checkDataframe t.info t.frame with
  | mk i2 e =>
    rw [hcd] at hw
    cases e with
    | some e => simp at hw
    | none =>
      simp only at hw
      obtain ⟨rfl, hr⟩ := Prod.mk.inj hw
      injection hr with hr
      obtain ⟨rfl, hr2⟩ := Prod.mk.inj hr
      obtain ⟨rfl, rfl⟩ := Prod.mk.inj hr2
      obtain ⟨hinv, hnd⟩ := inv_after_check t.info i2 t.frame hg hcd he
      have hp := units_positional ⟨i2, t.frame⟩ hinv hnd
      refine ⟨rfl, ?_, ?_⟩
      · have := hp.1
        simp only [units, List.map_map]
        exact this
      · have := hp.2
        simp only [formats, List.map_map]
        exact this

/-- **JSON writer**: `table.units[idx]` for `idx, cname in enumerate(column_names)` never runs out of units
    and pairs each name with its looked-up unit -/
theorem json_pairs (f0 : Frame) (us : Option (List Str)) (um : Option (List (Str × Str))) (strict : Bool)
    (i0 : Info) (h0 : make f0 us um strict = .ok i0) (ops : List Op) (i1 : Info)
    (hc : consult (run ⟨i0, f0⟩ ops).info (run ⟨i0, f0⟩ ops).frame = (i1, none))
    (he : (run ⟨i0, f0⟩ ops).frame.empty = false) :
    ∃ ps, jsonPairs (run ⟨i0, f0⟩ ops).info (run ⟨i0, f0⟩ ops).frame = (i1, .ok ps) ∧
      ps.map (fun p => (p.1, some p.2)) =
        (run ⟨i0, f0⟩ ops).frame.cols.map (fun c => (c.name, (Spec.lookup i1.reg c.name).map (·.unit))) := by
  have hg := run_good ⟨i0, f0⟩ ops (make_good f0 us um strict i0 h0)
  generalize run ⟨i0, f0⟩ ops = t at hg hc he
  unfold consult at hc
  obtain ⟨hinv, hnd⟩ := inv_after_check t.info i1 t.frame hg hc he
  have hp := (units_positional ⟨i1, t.frame⟩ hinv hnd).1
  have hlen := units_length ⟨i1, t.frame⟩ hinv
  simp only at hp hlen
  have hlen' : t.frame.names.length ≤ (units i1.reg).length := by
    rw [hlen]; simp [Frame.names]
  refine ⟨t.frame.names.zip (units i1.reg), ?_, ?_⟩
  · unfold jsonPairs consult
    rw [hc]
    simp [hlen']
  · have hu : (units i1.reg).map some = t.frame.cols.map (fun c => (Spec.lookup i1.reg c.name).map (·.unit)) := by
      simp only [units, List.map_map]
      exact hp
    have hl2 : (units i1.reg).length = t.frame.cols.length := hlen
    clear hp hlen hlen' hinv hnd hc hg he
    generalize units i1.reg = ul at hu hl2
    unfold Frame.names
    generalize t.frame.cols = cs at hu hl2
    induction cs generalizing ul with
    | nil => simp
    | cons c cs ih =>
      cases ul with
      | nil => simp at hl2
      | cons u ul =>
        simp only [List.map_cons, List.cons.injEq] at hu
        simp only [List.map_cons, List.zip_cons_cons, List.cons.injEq, Prod.mk.injEq, true_and]
        exact ⟨hu.1, ih ul hu.2 (by simpa using hl2)⟩

/-- **transposed CSV / Excel writers** (`for col in table`: one line per column, `col.name`, `col.unit`): after
    any history, if the consultation succeeds on a frame with rows, iterating the table yields exactly the
    frame's columns in frame order, each paired with the unit its per-column lookup reports -/
theorem iter_pairs (f0 : Frame) (us : Option (List Str)) (um : Option (List (Str × Str))) (strict : Bool)
    (i0 : Info) (h0 : make f0 us um strict = .ok i0) (ops : List Op) (i1 : Info)
    (hc : consult (run ⟨i0, f0⟩ ops).info (run ⟨i0, f0⟩ ops).frame = (i1, none))
    (he : (run ⟨i0, f0⟩ ops).frame.empty = false) :
    ∃ ps, tableIter (run ⟨i0, f0⟩ ops).info (run ⟨i0, f0⟩ ops).frame = (i1, .ok ps) ∧
      ps.map (fun p => (p.1, some p.2)) =
        (run ⟨i0, f0⟩ ops).frame.cols.map (fun c => (c.name, (Spec.lookup i1.reg c.name).map (·.unit))) := by
  have hg := run_good ⟨i0, f0⟩ ops (make_good f0 us um strict i0 h0)
  generalize run ⟨i0, f0⟩ ops = t at hg hc he
  unfold consult at hc
  obtain ⟨hinv, hnd⟩ := inv_after_check t.info i1 t.frame hg hc he
  have hp := (units_positional ⟨i1, t.frame⟩ hinv hnd).1
  have hk : keys i1.reg = t.frame.names := hinv
  refine ⟨i1.reg.map (fun kv => (kv.1, kv.2.unit)), ?_, ?_⟩
  · unfold tableIter consult
    rw [hc]
    have : (keys i1.reg).all (fun n => t.frame.names.contains n) = true := by
      rw [hk]; simp
    simp only [this, if_true]
  · simp only at hp
    have h1 : i1.reg.map (fun kv => (kv.1, some kv.2.unit)) =
        (i1.reg.map (·.1)).zip (i1.reg.map (fun kv => some kv.2.unit)) := (List.zip_map' ..).symm
    have h2 : t.frame.cols.map (fun c => (c.name, (Spec.lookup i1.reg c.name).map (·.unit))) =
        (t.frame.cols.map (·.name)).zip (t.frame.cols.map (fun c => (Spec.lookup i1.reg c.name).map (·.unit))) :=
      (List.zip_map' ..).symm
    rw [List.map_map, h2, ← hp, ← (hinv : i1.reg.map (·.1) = t.frame.cols.map (·.name)), ← h1]
    rfl

/-! ## non-vacuity -/

private def fA : Frame := ⟨[⟨"a".toList, "f8".toList, "f".toList⟩, ⟨"b".toList, "str".toList, "O".toList⟩], false⟩
private def fB : Frame := ⟨[⟨"n".toList, "i8".toList, "i".toList⟩, ⟨"b".toList, "str".toList, "O".toList⟩,
                            ⟨"a".toList, "f8".toList, "f".toList⟩], false⟩

/-- a two-column table `[a: m, b: text]`; a column is inserted in front and the others swapped directly on the
    dataframe; the next consultation succeeds and reports `["-", "text", "m"]` for `[n, b, a]` -/
example :
    (make fA (some ["m".toList, "text".toList]) none true).toOption.map (fun i =>
      let t' := (step (run ⟨i, fA⟩ [.consult, .mutate fB]) .consult)
      (t'.2, units t'.1.info.reg, keys t'.1.info.reg)) =
    some (none, ["-".toList, "text".toList, "m".toList], ["n".toList, "b".toList, "a".toList]) := by decide

/-- hypotheses of `inv_after_full_validation` / `own_unit_kept` are met by a stale, differently ordered register -/
example : updateColumns true [("b".toList, { unit := "text".toList }), ("zz".toList, { unit := "kg".toList }),
      ("a".toList, { unit := "m".toList })] fA =
    ([("a".toList, { unit := "m".toList }), ("b".toList, { unit := "text".toList })], none) := by decide

/-- `reachable_own` is about something: after inserting a column in front, swapping the others and relabelling `a`,
    the history says `a` owns "mm", `b` still owns "text" and the inserted `n` owns nothing — and the consultation
    reports exactly these -/
example :
    (make fA (some ["m".toList, "text".toList]) none true).toOption.map (fun i =>
      let ops := [Op.consult, .mutate fB, .setColUnit "a".toList "mm".toList]
      let own := Spec.trackRun ⟨i, fA⟩ (Spec.zipOwn (fA.cols.map (·.name)) ["m".toList, "text".toList]) ops
      let t' := (step (run ⟨i, fA⟩ ops) .consult).1
      (own "a".toList, own "b".toList, own "n".toList, units t'.info.reg)) =
    some (some "mm".toList, some "text".toList, none, ["-".toList, "text".toList, "mm".toList]) := by decide

end Pdt.C04
