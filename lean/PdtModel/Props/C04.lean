/-
  Props/C04.lean — "Every column keeps exactly its own unit, whatever is done to the frame".

  Statement (properties.jsonl C04): after any sequence of manipulations of a table with at least one row the
  table reports exactly one unit per dataframe column, in dataframe column order, and the positional unit list
  agrees with the per-column lookup; consequently the writers pair every column name with that column's own
  unit and display format.

  Shape of the proof: `Spec.Inv` (register keys = dataframe columns, same order) is established by every
  successful consultation of a frame with rows (`inv_after_check`), from an invariant `Good` of the info
  object that every operation preserves *whatever pandas does to the frame* (`step_good`: the frame after
  each operation, the sources and result of each derived frame are universally quantified).  `reachable_inv`
  lifts this to every finite history from every constructed table; `units_positional`, `lookup_total`,
  `writers_pair` are the reading side.
-/
import PdtModel.Lemmas.Meta
set_option linter.unusedSimpArgs false
set_option linter.unusedVariables false
namespace Pdt.C04
open Pdt Pdt.Meta

/-! No theorem of this file depends on the values of `_unit_from_dtype_kind` / `_units_special`: which
    unit a dtype gets and which labels are refused is C15's subject (pinned in Props/C15.lean); the order and
    completeness of the register proved here hold whatever those tables contain. -/

/-! ## declarative side -/

namespace Spec

/-- what a per-column lookup in a dict finds: the first (only) entry with that key -/
def lookup (r : Reg) (n : Str) : Option ColMeta := (r.find? (fun kv => kv.1 = n)).map (·.2)

/-- the register has exactly the dataframe's columns, in dataframe column order -/
def Inv (t : Tbl) : Prop := t.info.reg.map (·.1) = t.frame.cols.map (·.name)

/-- one unit (and display format) per dataframe column, in dataframe column order, each the one the
    per-column lookup reports -/
def Positional (t : Tbl) : Prop :=
  (t.info.reg.map (fun kv => some kv.2.unit) = t.frame.cols.map (fun c => (lookup t.info.reg c.name).map (·.unit))) ∧
  (t.info.reg.map (fun kv => some kv.2.fmt) = t.frame.cols.map (fun c => (lookup t.info.reg c.name).map (·.fmt)))

end Spec

theorem get_eq_lookup (r : Reg) (n : Str) : get r n = Spec.lookup r n := by
  induction r with
  | nil => simp [Meta.get, Spec.lookup]
  | cons kv r ih =>
    obtain ⟨k, v⟩ := kv
    by_cases h : k = n
    · simp [Meta.get, Spec.lookup, List.find?_cons, h]
    · simp only [Meta.get, Spec.lookup, List.find?_cons, h, decide_false, if_false] at ih ⊢
      exact ih

/-! ## reading side -/

/-- **positional = per-column lookup**: when the register has the frame's columns in order and is a dict,
    the unit list (and the format list) is, position by position, what the lookup by column name reports -/
theorem units_positional (t : Tbl) (hinv : Spec.Inv t) (hnd : (keys t.info.reg).Nodup) : Spec.Positional t := by
  unfold Spec.Inv at hinv
  have hk : keys t.info.reg = t.frame.cols.map (·.name) := hinv
  have hm := map_get_keys t.info.reg hnd
  rw [hk, List.map_map] at hm
  constructor
  · have := congrArg (List.map (Option.map (·.unit))) hm
    simp only [List.map_map] at this
    rw [show (t.frame.cols.map fun c => (Spec.lookup t.info.reg c.name).map (·.unit)) =
          t.frame.cols.map (Option.map (·.unit) ∘ (get t.info.reg ∘ fun c => c.name)) from by
        apply List.map_congr_left; intro c _; simp [get_eq_lookup]]
    rw [this]
    apply List.map_congr_left; intro kv _; rfl
  · have := congrArg (List.map (Option.map (·.fmt))) hm
    simp only [List.map_map] at this
    rw [show (t.frame.cols.map fun c => (Spec.lookup t.info.reg c.name).map (·.fmt)) =
          t.frame.cols.map (Option.map (·.fmt) ∘ (get t.info.reg ∘ fun c => c.name)) from by
        apply List.map_congr_left; intro c _; simp [get_eq_lookup]]
    rw [this]
    apply List.map_congr_left; intro kv _; rfl

/-- exactly one unit per dataframe column -/
theorem units_length (t : Tbl) (hinv : Spec.Inv t) : (units t.info.reg).length = t.frame.cols.length := by
  have := congrArg List.length hinv
  simpa [units] using this

/-- under `Inv` the lookup of every dataframe column succeeds -/
theorem lookup_total (t : Tbl) (hinv : Spec.Inv t) : ∀ c ∈ t.frame.cols, ∃ m, Spec.lookup t.info.reg c.name = some m := by
  intro c hc
  rw [← get_eq_lookup]
  apply mem_keys_get
  show c.name ∈ t.info.reg.map (·.1)
  rw [hinv]
  exact List.mem_map.2 ⟨c, hc, rfl⟩

/-! ## one consultation -/

/-- **after any successful consultation of a frame with rows the register keys equal the frame's column
    list** (same names, same order) — whether the validation ran or the short cut fired -/
theorem inv_after_check (i i' : Info) (f : Frame) (hg : Good i)
    (h : checkDataframe i f = (i', none)) (he : f.empty = false) :
    Spec.Inv ⟨i', f⟩ ∧ (keys i'.reg).Nodup := by
  have hg' := checkDataframe_good i f hg
  rw [h] at hg'
  exact ⟨hg'.keysOk f (checkDataframe_ok_last i i' f h) (Or.inl he), hg'.nodup⟩

/-- a frame that still has rows but has lost all its columns (`df.empty` is true for it too): after a
    successful consultation the register is empty — no unit without a column -/
theorem inv_no_columns (i i' : Info) (f : Frame) (hg : Good i)
    (h : checkDataframe i f = (i', none)) (hc : f.cols = []) :
    i'.reg = [] ∧ units i'.reg = [] := by
  have hg' := checkDataframe_good i f hg
  rw [h] at hg'
  have hk := hg'.keysOk f (checkDataframe_ok_last i i' f h) (Or.inr hc)
  have : i'.reg = [] := by
    have hl := congrArg List.length hk
    simp [keys, Frame.names, hc] at hl
    exact hl
  simp [this, units]

/-- a full validation needs no assumption at all about the register it starts from
    (any register: stale, reordered, foreign) -/
theorem inv_after_full_validation (strict : Bool) (r r' : Reg) (f : Frame)
    (h : updateColumns strict r f = (r', none)) (he : f.empty = false) :
    r'.map (·.1) = f.cols.map (·.name) ∧ (f.cols.map (·.name)).Nodup :=
  ⟨updateColumns_ok_keys strict r r' f h he, updateColumns_ok_names_nodup strict r r' f h⟩

/-- validation never touches the unit, display unit or display format of a column that stays in the frame:
    each column keeps its own metadata through insertions, deletions and reorderings of other columns -/
theorem own_unit_kept (strict : Bool) (r r' : Reg) (f : Frame)
    (h : updateColumns strict r f = (r', none)) (he : f.empty = false) :
    ∀ c ∈ f.cols, ∀ m, Spec.lookup r c.name = some m → Spec.lookup r' c.name = some m := by
  intro c hc m hm
  rw [← get_eq_lookup] at hm ⊢
  exact updateColumns_ok_keeps strict r r' f h he c hc m hm

/-! ## construction: each column gets the unit given for it -/

theorem zip_keys_sublist (a b : List Str) : ((a.zip b).map (·.1)).Sublist a := by
  induction a generalizing b with
  | nil => simp
  | cons x xs ih =>
    cases b with
    | nil => simp
    | cons y ys => simpa using (ih ys).cons_cons x

theorem zipReg_get_other (ps : List (Str × Str)) (r : Reg) (n : Str) (hn : n ∉ ps.map (·.1)) :
    get (zipReg ps r) n = get r n := by
  induction ps generalizing r with
  | nil => simp [zipReg]
  | cons p rest ih =>
    obtain ⟨n0, u0⟩ := p
    unfold zipReg
    have h0 : ¬ n0 = n := by intro e; apply hn; simp [e]
    have hr : n ∉ rest.map (·.1) := by intro e; apply hn; simp at e ⊢; exact Or.inr e
    rw [ih _ hr, get_set]; simp [h0]

theorem zipReg_get_mem (ps : List (Str × Str)) (r : Reg) (hnd : (ps.map (·.1)).Nodup) (p : Str × Str) (hp : p ∈ ps) :
    get (zipReg ps r) p.1 = some { unit := p.2 } := by
  induction ps generalizing r with
  | nil => cases hp
  | cons q rest ih =>
    obtain ⟨n0, u0⟩ := q
    have hnd' := List.nodup_cons.1 (by simpa using hnd : (n0 :: rest.map (·.1)).Nodup)
    unfold zipReg
    rcases List.mem_cons.1 hp with rfl | hin
    · rw [zipReg_get_other rest _ _ hnd'.1, get_set]; simp
    · exact ih _ hnd'.2 hin

/-- **construction assigns units by position**: `Table(df, units=us)` that succeeds on a frame with rows
    reports, for every `(column, unit)` pair of `zip(df.columns, us)`, exactly that unit under that column's
    name — and (by `own_unit_kept`) keeps reporting it whatever is done to the other columns -/
theorem make_own_units (f : Frame) (us : List Str) (strict : Bool) (i : Info)
    (h : make f (some us) none strict = .ok i) (he : f.empty = false) :
    ∀ p ∈ (f.cols.map (·.name)).zip us, ∃ m, Spec.lookup i.reg p.1 = some m ∧ m.unit = p.2 := by
  unfold make at h
  have hb : bothTruthy (some us) none = false := by simp [bothTruthy]
  simp only [hb, Bool.false_eq_true, if_false, makeReg, attach, checkDataframe] at h
  have hne : ¬ ((none : Option Frame) = some f) := by simp
  simp only [hne, if_false] at h
  cases hu : updateColumns strict (zipReg (f.names.zip us) []) f with
  | mk r e =>
    rw [hu] at h
    cases e with
    | some e => simp at h
    | none =>
      simp at h; subst h
      intro p hp
      have hnd := updateColumns_ok_names_nodup strict _ r f hu
      have hsub : ((f.names.zip us).map (·.1)).Nodup := by
        exact (zip_keys_sublist f.names us).nodup hnd
      have hg0 := zipReg_get_mem (f.names.zip us) [] hsub p hp
      have hpn : p.1 ∈ f.names := (List.of_mem_zip hp).1
      obtain ⟨c, hc, hcn⟩ := List.mem_map.1 hpn
      have := updateColumns_ok_keeps strict _ r f hu he c hc _ (by rw [hcn]; exact hg0)
      exact ⟨_, by rw [← get_eq_lookup, ← hcn]; exact this, rfl⟩

/-! ## every operation preserves `Good` (frame effects universally quantified) -/

/-- **every operation preserves the invariant**, whatever frame it leaves behind (proved in
    Lemmas/Meta.lean operation by operation: `addColumn_good`, `setUnits_good`, `make_good`,
    `finalize_good`, …; restated here so that the audit lists it with the property) -/
theorem step_good (t : Tbl) (op : Op) (hg : Good t.info) : Good (step t op).1.info := Meta.step_good t op hg

theorem run_good (t : Tbl) (ops : List Op) (hg : Good t.info) : Good (run t ops).info := Meta.run_good t ops hg

/-- a constructed table (`make_table_dataframe` with any `units` / `unit_map`) starts `Good` -/
theorem make_good (f : Frame) (us : Option (List Str)) (um : Option (List (Str × Str))) (strict : Bool) (i : Info)
    (h : make f us um strict = .ok i) : Good i := Meta.make_good f us um strict i h

/-- a derived frame's info (`__finalize__` with *any* source registers, any result frame) starts `Good` -/
theorem finalize_good (srcs : List Reg) (strict : Bool) (f : Frame) (i : Info)
    (h : finalize srcs strict f = .ok i) : Good i := Meta.finalize_good srcs strict f i h

/-! ## the property over histories -/

/-- **C04, all finite histories.**  Start from any constructed table (any frame, any `units` / `unit_map`,
    strict or not); apply any finite sequence of operations — facade edits, arbitrary in-place frame
    mutations, re-wraps, derived frames with arbitrary sources; then consult.  If the consultation succeeds on
    a frame with rows, the register has exactly the frame's columns in frame order, there is exactly one unit
    per column, and the positional unit / format lists agree with the per-column lookup. -/
theorem reachable_inv (f0 : Frame) (us : Option (List Str)) (um : Option (List (Str × Str))) (strict : Bool)
    (i0 : Info) (h0 : make f0 us um strict = .ok i0) (ops : List Op) (t' : Tbl)
    (hc : step (run ⟨i0, f0⟩ ops) .consult = (t', none)) (he : t'.frame.empty = false) :
    Spec.Inv t' ∧ Spec.Positional t' ∧ (units t'.info.reg).length = t'.frame.cols.length := by
  have hg := run_good ⟨i0, f0⟩ ops (make_good f0 us um strict i0 h0)
  generalize run ⟨i0, f0⟩ ops = t at hg hc
  unfold step consult at hc
  cases hcd : checkDataframe t.info t.frame with
  | mk i1 e =>
    rw [hcd] at hc
    simp only at hc
    obtain ⟨rfl, rfl⟩ := Prod.mk.inj hc
    simp only at he
    obtain ⟨hinv, hnd⟩ := inv_after_check t.info i1 t.frame hg hcd he
    have hinv' : Spec.Inv { t with info := i1 } := hinv
    exact ⟨hinv', units_positional _ hinv' hnd, units_length _ hinv'⟩

/-- the same for histories that start from a derived frame (any `__finalize__`) -/
theorem reachable_inv_derived (srcs : List Reg) (strict : Bool) (f0 : Frame)
    (i0 : Info) (h0 : finalize srcs strict f0 = .ok i0) (ops : List Op) (t' : Tbl)
    (hc : step (run ⟨i0, f0⟩ ops) .consult = (t', none)) (he : t'.frame.empty = false) :
    Spec.Inv t' ∧ Spec.Positional t' ∧ (units t'.info.reg).length = t'.frame.cols.length := by
  have hg := run_good ⟨i0, f0⟩ ops (finalize_good srcs strict f0 i0 h0)
  generalize run ⟨i0, f0⟩ ops = t at hg hc
  unfold step consult at hc
  cases hcd : checkDataframe t.info t.frame with
  | mk i1 e =>
    rw [hcd] at hc
    simp only at hc
    obtain ⟨rfl, rfl⟩ := Prod.mk.inj hc
    simp only at he
    obtain ⟨hinv, hnd⟩ := inv_after_check t.info i1 t.frame hg hcd he
    have hinv' : Spec.Inv { t with info := i1 } := hinv
    exact ⟨hinv', units_positional _ hinv' hnd, units_length _ hinv'⟩

/-! ## writers -/

/-- **CSV / Excel writers**: after any history, if the writer's consultation succeeds on a frame with rows,
    the name line is the frame's columns and the unit line and the format list are, position by position,
    the looked-up unit and display format of the column named at that position -/
theorem writers_pair (f0 : Frame) (us : Option (List Str)) (um : Option (List (Str × Str))) (strict : Bool)
    (i0 : Info) (h0 : make f0 us um strict = .ok i0) (ops : List Op)
    (i1 : Info) (ns us' : List Str) (fs : List (Option Str))
    (hw : writerHeader (run ⟨i0, f0⟩ ops).info (run ⟨i0, f0⟩ ops).frame = (i1, .ok (ns, us', fs)))
    (he : (run ⟨i0, f0⟩ ops).frame.empty = false) :
    ns = (run ⟨i0, f0⟩ ops).frame.cols.map (·.name) ∧
    us'.map some = (run ⟨i0, f0⟩ ops).frame.cols.map (fun c => (Spec.lookup i1.reg c.name).map (·.unit)) ∧
    fs.map some = (run ⟨i0, f0⟩ ops).frame.cols.map (fun c => (Spec.lookup i1.reg c.name).map (·.fmt)) := by
  have hg := run_good ⟨i0, f0⟩ ops (make_good f0 us um strict i0 h0)
  generalize run ⟨i0, f0⟩ ops = t at hg hw he
  unfold writerHeader consult at hw
  cases hcd : checkDataframe t.info t.frame with
  | mk i2 e =>
    rw [hcd] at hw
    cases e with
    | some e => simp at hw
    | none =>
      simp only at hw
      obtain ⟨rfl, hr⟩ := Prod.mk.inj hw
      injection hr with hr
      obtain ⟨rfl, hr2⟩ := Prod.mk.inj hr
      obtain ⟨rfl, rfl⟩ := Prod.mk.inj hr2
      obtain ⟨hinv, hnd⟩ := inv_after_check t.info i2 t.frame hg hcd he
      have hp := units_positional ⟨i2, t.frame⟩ hinv hnd
      refine ⟨rfl, ?_, ?_⟩
      · have := hp.1
        simp only [units, List.map_map]
        exact this
      · have := hp.2
        simp only [formats, List.map_map]
        exact this

/-- **JSON writer**: `table.units[idx]` for `idx, cname in enumerate(column_names)` never runs out of units
    and pairs each name with its looked-up unit -/
theorem json_pairs (f0 : Frame) (us : Option (List Str)) (um : Option (List (Str × Str))) (strict : Bool)
    (i0 : Info) (h0 : make f0 us um strict = .ok i0) (ops : List Op) (i1 : Info)
    (hc : consult (run ⟨i0, f0⟩ ops).info (run ⟨i0, f0⟩ ops).frame = (i1, none))
    (he : (run ⟨i0, f0⟩ ops).frame.empty = false) :
    ∃ ps, jsonPairs (run ⟨i0, f0⟩ ops).info (run ⟨i0, f0⟩ ops).frame = (i1, .ok ps) ∧
      ps.map (fun p => (p.1, some p.2)) =
        (run ⟨i0, f0⟩ ops).frame.cols.map (fun c => (c.name, (Spec.lookup i1.reg c.name).map (·.unit))) := by
  have hg := run_good ⟨i0, f0⟩ ops (make_good f0 us um strict i0 h0)
  generalize run ⟨i0, f0⟩ ops = t at hg hc he
  unfold consult at hc
  obtain ⟨hinv, hnd⟩ := inv_after_check t.info i1 t.frame hg hc he
  have hp := (units_positional ⟨i1, t.frame⟩ hinv hnd).1
  have hlen := units_length ⟨i1, t.frame⟩ hinv
  simp only at hp hlen
  have hlen' : t.frame.names.length ≤ (units i1.reg).length := by
    rw [hlen]; simp [Frame.names]
  refine ⟨t.frame.names.zip (units i1.reg), ?_, ?_⟩
  · unfold jsonPairs consult
    rw [hc]
    simp [hlen']
  · have hu : (units i1.reg).map some = t.frame.cols.map (fun c => (Spec.lookup i1.reg c.name).map (·.unit)) := by
      simp only [units, List.map_map]
      exact hp
    have hl2 : (units i1.reg).length = t.frame.cols.length := hlen
    clear hp hlen hlen' hinv hnd hc hg he
    generalize units i1.reg = ul at hu hl2
    unfold Frame.names
    generalize t.frame.cols = cs at hu hl2
    induction cs generalizing ul with
    | nil => simp
    | cons c cs ih =>
      cases ul with
      | nil => simp at hl2
      | cons u ul =>
        simp only [List.map_cons, List.cons.injEq] at hu
        simp only [List.map_cons, List.zip_cons_cons, List.cons.injEq, Prod.mk.injEq, true_and]
        exact ⟨hu.1, ih ul hu.2 (by simpa using hl2)⟩

/-! ## non-vacuity -/

private def fA : Frame := ⟨[⟨"a".toList, "f8".toList, "f".toList⟩, ⟨"b".toList, "str".toList, "O".toList⟩], false⟩
private def fB : Frame := ⟨[⟨"n".toList, "i8".toList, "i".toList⟩, ⟨"b".toList, "str".toList, "O".toList⟩,
                            ⟨"a".toList, "f8".toList, "f".toList⟩], false⟩

/-- a two-column table `[a: m, b: text]`; a column is inserted in front and the others swapped directly on the
    dataframe; the next consultation succeeds and reports `["-", "text", "m"]` for `[n, b, a]` -/
example :
    (make fA (some ["m".toList, "text".toList]) none true).toOption.map (fun i =>
      let t' := (step (run ⟨i, fA⟩ [.consult, .mutate fB]) .consult)
      (t'.2, units t'.1.info.reg, keys t'.1.info.reg)) =
    some (none, ["-".toList, "text".toList, "m".toList], ["n".toList, "b".toList, "a".toList]) := by decide

/-- hypotheses of `inv_after_full_validation` / `own_unit_kept` are met by a stale, differently ordered register -/
example : updateColumns true [("b".toList, { unit := "text".toList }), ("zz".toList, { unit := "kg".toList }),
      ("a".toList, { unit := "m".toList })] fA =
    ([("a".toList, { unit := "m".toList }), ("b".toList, { unit := "text".toList })], none) := by decide

end Pdt.C04
