/-
  Props/C10.lean — "Orientation, trailing delimiters and header whitespace never change the table".

  For a table value `t` (Model/Rewrites.lean) the reader's `layout` — and therefore `makePrecursor` / `makeTable`,
  for every `ext` and every fixer — gives the same result on every *variant* of its text:

    RVariant t g   g is the row-wise grid of `t` with: any cells appended to the `**name`, destination, unit and
                   value lines; name / unit cells that strip to the names / units; after the last name nothing or a
                   blank cell followed by anything (trailing delimiters, comments)
    TVariant t g   g is the transposed grid of `t` with: any cells appended to the first two lines; per column a line
                   `name', unit', values ++ blank cells` with name' / unit' stripping to the name / unit

  `rvariant_layout`, `tvariant_layout`: both have the layout of the plain row-wise text, up to the transposed flag.
  The rewrite functions map variants to variants (`*_rvariant`, `*_tvariant`), the plain layouts are variants,
  `toTransposed (layoutR t) = layoutT t`; hence every composition of the rewrites leaves `makeTable` unchanged
  (`rewrites_rowwise`, `rewrites_transposed` are the composite statements).  Termination: `termination_independent`.
-/
import PdtModel.Model.Rewrites
import PdtModel.Props.C02
import PdtModel.Props.C03
import PdtModel.Lemmas.Text
set_option linter.unusedSimpArgs false
set_option linter.unusedVariables false
namespace Pdt.C10
open Pdt Pdt.Reader Pdt.Rewrites

/-! ## 1. `strip` absorbs header blanks -/

theorem dropWhile_append_all {α} (p : α → Bool) (l x : List α) (h : l.all p = true) :
    (l ++ x).dropWhile p = x.dropWhile p := by
  induction l with
  | nil => rfl
  | cons a as ih =>
    simp only [List.all_cons, Bool.and_eq_true] at h
    simp [List.dropWhile_cons, h.1, ih h.2]

theorem lstrip_pad (l x : Str) (h : allSpace l = true) : lstrip (l ++ x) = lstrip x :=
  dropWhile_append_all isSpace l x h

theorem rstrip_pad (x r : Str) (h : allSpace r = true) : rstrip (x ++ r) = rstrip x := by
  unfold rstrip
  rw [List.reverse_append, dropWhile_append_all isSpace r.reverse x.reverse (by simpa [allSpace] using h)]

theorem allSpace_lstrip_nil (s : Str) (h : allSpace s = true) : lstrip s = [] := by
  have := dropWhile_append_all isSpace s [] h
  simpa [lstrip] using this

/-- Python: `(l + s + r).strip() == s.strip()` for whitespace-only `l`, `r` -/
theorem strip_pad (l s r : Str) (hl : allSpace l = true) (hr : allSpace r = true) :
    strip (l ++ s ++ r) = strip s := by
  unfold strip
  rw [List.append_assoc, lstrip_pad l (s ++ r) hl]
  unfold lstrip
  rw [List.dropWhile_append]
  by_cases he : (List.dropWhile isSpace s).isEmpty = true
  · have he' : List.dropWhile isSpace s = [] := by simpa using he
    have hr' : List.dropWhile isSpace r = [] := allSpace_lstrip_nil r hr
    simp [he, he', hr']
  · simp only [he, if_false]
    exact rstrip_pad _ r hr

theorem isBlank_pad (l s r : Str) (hl : allSpace l = true) (hr : allSpace r = true) :
    (Cell.str (l ++ s ++ r)).isBlank = (Cell.str s).isBlank := by
  unfold allSpace at hl hr
  simp [Cell.isBlank, allSpace, List.all_append, hl, hr]

/-- surrounding a cell with blanks changes neither what it strips to, nor whether it is text, nor whether it is blank -/
theorem padCell_spec (lr : Str × Str) (c : Cell) (hl : allSpace lr.1 = true) (hr : allSpace lr.2 = true) :
    stripOfStr (padCell lr c) = stripOfStr c ∧ (padCell lr c).isStr = c.isStr ∧
    (padCell lr c).isBlank = c.isBlank := by
  cases c with
  | str s => exact ⟨strip_pad _ _ _ hl hr, rfl, isBlank_pad _ _ _ hl hr⟩
  | _ => exact ⟨rfl, rfl, rfl⟩

/-! ## 2. pairwise-related lists -/

inductive All₂ {α β : Type} (R : α → β → Prop) : List α → List β → Prop
  | nil : All₂ R [] []
  | cons {a : α} {b : β} {as : List α} {bs : List β} : R a b → All₂ R as bs → All₂ R (a :: as) (b :: bs)

theorem All₂.length_eq {α β} {R : α → β → Prop} {as : List α} {bs : List β} (h : All₂ R as bs) :
    as.length = bs.length := by
  induction h with
  | nil => rfl
  | cons _ _ ih => simp [ih]

theorem All₂.map_eq {α β γ} {R : α → β → Prop} (f : α → γ) (g : β → γ) (hfg : ∀ a b, R a b → f a = g b)
    {as : List α} {bs : List β} (h : All₂ R as bs) : as.map f = bs.map g := by
  induction h with
  | nil => rfl
  | cons hab _ ih => simp [hfg _ _ hab, ih]

theorem All₂.imp {α β} {R S : α → β → Prop} (hRS : ∀ a b, R a b → S a b)
    {as : List α} {bs : List β} (h : All₂ R as bs) : All₂ S as bs := by
  induction h with
  | nil => exact .nil
  | cons hab _ ih => exact .cons (hRS _ _ hab) ih

theorem All₂.of_map {α β} {R : α → β → Prop} (g : α → β) (as : List α) (h : ∀ a ∈ as, R a (g a)) :
    All₂ R as (as.map g) := by
  induction as with
  | nil => exact .nil
  | cons a as ih =>
    exact .cons (h a (by simp)) (ih (fun x hx => h x (List.mem_cons_of_mem _ hx)))

theorem All₂.all_right {α β} {R : α → β → Prop} (q : β → Bool) (hq : ∀ a b, R a b → q b = true)
    {as : List α} {bs : List β} (h : All₂ R as bs) : bs.all q = true := by
  induction h with
  | nil => rfl
  | cons hab _ ih => simp [hq _ _ hab, ih]

theorem All₂.and_mem {α β} {R : α → β → Prop} (P : α → Prop) {as : List α} {bs : List β}
    (h : All₂ R as bs) (hP : ∀ a ∈ as, P a) : All₂ (fun a b => P a ∧ R a b) as bs := by
  induction h with
  | nil => exact .nil
  | cons hab _ ih =>
    exact .cons ⟨hP _ (by simp), hab⟩ (ih (fun x hx => hP x (List.mem_cons_of_mem _ hx)))

/-! ## 3. well-formedness unpacked -/

theorem wf_unpack (t : TV) (h : t.wf = true) :
    t.name.getLast? ≠ some '*' ∧ t.cols ≠ [] ∧
    ∀ c ∈ t.cols, c.name = strip c.name ∧ (Cell.str c.name).isBlank = false ∧ c.unit = strip c.unit ∧
      c.cells.length = t.nRows := by
  simp only [TV.wf, Bool.and_eq_true, bne_iff_ne, ne_eq, Bool.not_eq_true', List.isEmpty_eq_false_iff,
    List.all_eq_true, nameOK, unitOK, beq_iff_eq] at h
  refine ⟨h.1.1, h.1.2, ?_⟩
  intro c hc
  have := h.2 c hc
  exact ⟨this.1.1.1, this.1.1.2, this.1.2, this.2⟩

theorem transposeN_row_length (lines : List Row) (m : Nat) : ∀ r ∈ transposeN lines m, r.length = lines.length := by
  intro r hr
  simp only [transposeN, List.mem_map, List.mem_range] at hr
  obtain ⟨i, _, rfl⟩ := hr
  simp

theorem dataRows_length (t : TV) : ∀ r ∈ t.dataRows, r.length = t.cols.length := by
  intro r hr
  have := transposeN_row_length _ _ r hr
  simpa using this

/-! ## 4. header cells -/

/-- cells that read as the column names: text, not blank, stripping to the names -/
def NameCells (names : List Str) (cells : List Cell) : Prop :=
  cells.all Cell.isStr = true ∧ cells.all (fun c => !c.isBlank) = true ∧ cells.map stripOfStr = names

/-- cells that read as the units: text, stripping to the units -/
def UnitCells (units : List Str) (cells : List Cell) : Prop :=
  cells.all Cell.isStr = true ∧ cells.map stripOfStr = units

/-- what may follow the last name on the column-name row: nothing, or a blank cell and then anything -/
def TailOK (tail : List Cell) : Prop := ∀ c, tail.head? = some c → c.isBlank = true

theorem takeWhile_append_all {α} (p : α → Bool) (l x : List α) (h : l.all p = true) :
    (l ++ x).takeWhile p = l ++ x.takeWhile p := by
  induction l with
  | nil => rfl
  | cons a as ih =>
    simp only [List.all_cons, Bool.and_eq_true] at h
    simp [List.takeWhile_cons, h.1, ih h.2]

/-- **`takeWhile ¬blank` absorbs trailing delimiters and comments; `strip` absorbs header blanks** -/
theorem parseColumnNames_variant (cells tail : List Cell) (names : List Str)
    (h : NameCells names cells) (ht : TailOK tail) : parseColumnNames (cells ++ tail) = .ok names := by
  obtain ⟨h1, h2, h3⟩ := h
  have htail : tail.takeWhile (fun c => !c.isBlank) = [] := by
    cases tail with
    | nil => rfl
    | cons c cs => simp [List.takeWhile_cons, ht c rfl]
  unfold parseColumnNames
  simp only [takeWhile_append_all _ cells tail h2, htail, List.append_nil, h1, if_true, h3]

theorem nameCells_plain (t : TV) (hwf : t.wf = true) : NameCells t.names (t.names.map Cell.str) := by
  obtain ⟨_, _, hc⟩ := wf_unpack t hwf
  refine ⟨by simp [Cell.isStr], ?_, ?_⟩
  · simp only [TV.names, List.map_map, List.all_map, List.all_eq_true]
    intro c hcm
    simp [(hc c hcm).2.1]
  · simp only [TV.names, List.map_map]
    apply List.map_congr_left
    intro c hcm
    simp [stripOfStr, ← (hc c hcm).1]

theorem unitCells_plain (t : TV) (hwf : t.wf = true) : UnitCells t.units (t.units.map Cell.str) := by
  obtain ⟨_, _, hc⟩ := wf_unpack t hwf
  refine ⟨by simp [Cell.isStr], ?_⟩
  simp only [TV.units, List.map_map]
  apply List.map_congr_left
  intro c hcm
  simp [stripOfStr, ← (hc c hcm).2.2.1]

/-! ## 5. row-wise variants -/

/-- the row-wise grids that spell the table `t`: cells appended to any line, header cells surrounded by blanks,
    comments after a blank cell on the column-name row -/
def RVariant (t : TV) (g : List Row) : Prop :=
  ∃ r0 r1 ncells tail ucells utail drows,
    g = (headR t :: r0) :: (t.dest :: r1) :: (ncells ++ tail) :: (ucells ++ utail) :: drows ∧
    NameCells t.names ncells ∧ TailOK tail ∧ UnitCells t.units ucells ∧
    All₂ (fun r r' => ∃ p, r' = r ++ p) t.dataRows drows

/-- the layout every variant must have (up to the transposed flag) -/
def specLayout (t : TV) (transposed : Bool) : Layout :=
  ⟨t.name, transposed, destinations t.dest, t.names, t.units, t.dataRows⟩

/-- **row-wise slicing `line[:n_col]` absorbs trailing cells; the header rules absorb blanks and comments** -/
theorem rvariant_layout (t : TV) (hwf : t.wf = true) (g : List Row) (h : RVariant t g) :
    layout g = .ok (specLayout t false) := by
  obtain ⟨r0, r1, ncells, tail, ucells, utail, drows, rfl, hn, ht, hu, hd⟩ := h
  obtain ⟨hname, _, hc⟩ := wf_unpack t hwf
  have hnl : t.names.length = t.cols.length := by simp [TV.names]
  have hul : ucells.length = t.cols.length := by
    have := congrArg List.length hu.2
    simpa [TV.units] using this
  unfold headR
  rw [C02.layout_rowwise _ r0 t.dest r1 _ _ drows (by simpa using hname)]
  rw [parseColumnNames_variant ncells tail t.names hn ht]
  simp only [hnl]
  have htake : (ucells ++ utail).take t.cols.length = ucells := by
    rw [← hul]; exact List.take_left' rfl
  rw [htake]
  simp only [hu.1, if_true, hu.2]
  have hrows : drows.map (fun l => l.take t.cols.length) = t.dataRows := by
    have h2 := hd.and_mem (fun r => r.length = t.cols.length) (dataRows_length t)
    have := All₂.map_eq (fun r => r) (fun l : Row => l.take t.cols.length)
      (fun a b hab => by
        obtain ⟨hl, p, rfl⟩ := hab
        rw [← hl]; exact (List.take_left' rfl).symm) h2
    simpa using this.symm
  simp [hrows, specLayout]

/-! ## 6. transposed variants -/

theorem All₂.exists_right {α β} {R : α → β → Prop} {as : List α} {bs : List β} (h : All₂ R as bs)
    (a : α) (ha : a ∈ as) : ∃ b ∈ bs, R a b := by
  induction h with
  | nil => simp at ha
  | cons hab _ ih =>
    rcases List.mem_cons.1 ha with rfl | ha
    · exact ⟨_, by simp, hab⟩
    · obtain ⟨b, hb, hr⟩ := ih ha
      exact ⟨b, List.mem_cons_of_mem _ hb, hr⟩

theorem All₂.exists_left {α β} {R : α → β → Prop} {as : List α} {bs : List β} (h : All₂ R as bs)
    (b : β) (hb : b ∈ bs) : ∃ a ∈ as, R a b := by
  induction h with
  | nil => simp at hb
  | cons hab _ ih =>
    rcases List.mem_cons.1 hb with rfl | hb
    · exact ⟨_, by simp, hab⟩
    · obtain ⟨a, ha, hr⟩ := ih hb
      exact ⟨a, List.mem_cons_of_mem _ ha, hr⟩

theorem getD_append_left' {α} (l l' : List α) (d : α) (n : Nat) (h : n < l.length) :
    (l ++ l').getD n d = l.getD n d := by
  simp [List.getD_eq_getElem?_getD, List.getElem?_append_left h]

theorem getD_append_right' {α} (l l' : List α) (d : α) (n : Nat) (h : l.length ≤ n) :
    (l ++ l').getD n d = l'.getD (n - l.length) d := by
  simp [List.getD_eq_getElem?_getD, List.getElem?_append_right h]

/-- the loop condition of the `n_row` detection -/
def rowHasData (lines : List Row) (longest i : Nat) : Bool :=
  decide (i < longest) && lines.any (fun l => decide (i < l.length) && !(getD0 l i).isBlank)

theorem nRowLoop_eq (lines : List Row) (longest m : Nat)
    (hlt : ∀ k, k < m → rowHasData lines longest k = true) (hm : rowHasData lines longest m = false) :
    ∀ fuel i, i ≤ m → m - i ≤ fuel → nRowLoop lines longest i fuel = m := by
  intro fuel
  induction fuel with
  | zero => intro i h1 h2; simp only [nRowLoop]; omega
  | succ fuel ih =>
    intro i h1 h2
    unfold nRowLoop
    by_cases hi : i < m
    · have := hlt i hi
      unfold rowHasData at this
      rw [if_pos this]
      exact ih (i + 1) (by omega) (by omega)
    · have him : i = m := by omega
      subst him
      unfold rowHasData at hm
      rw [if_neg (by simp [hm])]

theorem foldl_max_ge (ls : List Row) (init : Nat) :
    init ≤ ls.foldl (fun m l => max m l.length) init ∧
    ∀ l ∈ ls, l.length ≤ ls.foldl (fun m l => max m l.length) init := by
  induction ls generalizing init with
  | nil => simp
  | cons x xs ih =>
    simp only [List.foldl_cons]
    have := ih (max init x.length)
    refine ⟨by omega, ?_⟩
    intro l hl
    rcases List.mem_cons.1 hl with rfl | hl
    · omega
    · exact this.2 l hl

/-- value part of a transposed line of column `c`: its cells, then blank cells only -/
def ValsOf (m : Nat) (c : TCol) (v : Row) : Prop := c.cells.length = m ∧ ∃ p, v = c.cells ++ p ∧ allBlank p = true

/-- **the transposed `n_row` detection + trim/pad absorbs trailing blank cells; zipping the lines gives the rows** -/
theorem transposedRows_variant (t : TV) (hwf : t.wf = true) (hwfT : t.wfT = true) (vl : List Row)
    (h : All₂ (ValsOf t.nRows) t.cols vl) : transposedRows vl = .ok t.dataRows := by
  obtain ⟨_, hne, hc⟩ := wf_unpack t hwf
  have hvne : vl ≠ [] := by
    intro e; subst e
    have := h.length_eq
    simp at this
    exact hne this
  have hlen : ∀ v ∈ vl, t.nRows ≤ v.length := by
    intro v hv
    obtain ⟨c, _, hl, p, rfl, _⟩ := h.exists_left v hv
    simp [hl]
  have hfold := foldl_max_ge vl 0
  have hlongest : t.nRows ≤ vl.foldl (fun m l => max m l.length) 0 := by
    cases vl with
    | nil => exact absurd rfl hvne
    | cons v vs => exact Nat.le_trans (hlen v (by simp)) (hfold.2 v (by simp))
  have hnrow : nRowLoop vl (vl.foldl (fun m l => max m l.length) 0) 0 (vl.foldl (fun m l => max m l.length) 0)
      = t.nRows := by
    apply nRowLoop_eq
    · intro k hk
      simp only [TV.wfT, List.all_eq_true, List.mem_range, List.any_eq_true, Bool.not_eq_true'] at hwfT
      obtain ⟨c, hcm, hcb⟩ := hwfT k hk
      obtain ⟨v, hv, hl, p, rfl, _⟩ := h.exists_right c hcm
      simp only [rowHasData, Bool.and_eq_true, decide_eq_true_eq, List.any_eq_true, Bool.not_eq_true']
      refine ⟨by omega, _, hv, by simp; omega, ?_⟩
      rw [show getD0 (c.cells ++ p) k = getD0 c.cells k from getD_append_left' _ _ _ _ (by omega)]
      exact hcb
    · simp only [rowHasData, Bool.and_eq_false_iff, decide_eq_false_iff_not, List.any_eq_false,
        Bool.and_eq_true, decide_eq_true_eq, Bool.not_eq_true', not_and, Bool.not_eq_false]
      right
      intro v hv hlt
      obtain ⟨c, _, hl, p, rfl, hp⟩ := h.exists_left v hv
      rw [show getD0 (c.cells ++ p) t.nRows = getD0 p (t.nRows - c.cells.length) from
        getD_append_right' _ _ _ _ (by omega)]
      simp only [hl, Nat.sub_self]
      cases p with
      | nil => simp at hlt; omega
      | cons x xs =>
        simp only [allBlank, List.all_cons, Bool.and_eq_true] at hp
        simpa [getD0] using hp.1
    · omega
    · omega
  have hpad : vl.map (padOrTrim t.nRows) = t.cols.map (·.cells) := by
    have := All₂.map_eq (fun c : TCol => c.cells) (padOrTrim t.nRows)
      (fun c v hcv => by
        obtain ⟨hl, p, rfl, _⟩ := hcv
        unfold padOrTrim
        rw [if_pos (by simp [hl])]
        rw [← hl]; exact (List.take_left' rfl).symm) h
    exact this.symm
  unfold transposedRows
  cases vl with
  | nil => exact absurd rfl hvne
  | cons v vs =>
    simp only []
    rw [hnrow, hpad]
    rfl

/-- a transposed line spelling column `c`: a name cell and a unit cell that strip to its name / unit, its cells,
    then blank cells only -/
def LineOf (m : Nat) (c : TCol) (line : Row) : Prop :=
  ∃ nc uc p, line = nc :: uc :: (c.cells ++ p) ∧ c.cells.length = m ∧
    nc.isStr = true ∧ nc.isBlank = false ∧ stripOfStr nc = c.name ∧
    uc.isStr = true ∧ stripOfStr uc = c.unit ∧ allBlank p = true

/-- the transposed grids that spell the table `t` -/
def TVariant (t : TV) (g : List Row) : Prop :=
  ∃ r0 r1 lines, g = (headT t :: r0) :: (t.dest :: r1) :: lines ∧ All₂ (LineOf t.nRows) t.cols lines

theorem lines_facts (m : Nat) (cols : List TCol) (lines : List Row) (h : All₂ (LineOf m) cols lines) :
    lines.any (fun l => decide (l.length < 2)) = false ∧
    NameCells (cols.map (·.name)) (lines.map (fun l => getD0 l 0)) ∧
    UnitCells (cols.map (·.unit)) (lines.map (fun l => getD0 l 1)) ∧
    All₂ (ValsOf m) cols (lines.map (fun l => l.drop 2)) := by
  induction h with
  | nil => exact ⟨rfl, ⟨rfl, rfl, rfl⟩, ⟨rfl, rfl⟩, .nil⟩
  | cons hab _ ih =>
    obtain ⟨nc, uc, p, rfl, hl, n1, n2, n3, u1, u2, hp⟩ := hab
    obtain ⟨i1, ⟨i2, i3, i4⟩, ⟨i5, i6⟩, i7⟩ := ih
    have g0 : getD0 (nc :: uc :: (_ ++ p)) 0 = nc := rfl
    have g1 : getD0 (nc :: uc :: (_ ++ p)) 1 = uc := rfl
    refine ⟨?_, ⟨?_, ?_, ?_⟩, ⟨?_, ?_⟩, ?_⟩
    · simp [i1]
    · simp only [List.map_cons, List.all_cons, g0, n1, Bool.true_and]; exact i2
    · simp only [List.map_cons, List.all_cons, g0, n2, Bool.not_false, Bool.true_and]; exact i3
    · simp only [List.map_cons, g0, n3, i4]
    · simp only [List.map_cons, List.all_cons, g1, u1, Bool.true_and]; exact i5
    · simp only [List.map_cons, g1, u2, i6]
    · exact .cons ⟨hl, p, rfl, hp⟩ i7

/-- **a transposed variant has the layout of the plain row-wise text, with the transposed flag set** -/
theorem tvariant_layout (t : TV) (hwf : t.wf = true) (hwfT : t.wfT = true) (g : List Row) (h : TVariant t g) :
    layout g = .ok (specLayout t true) := by
  obtain ⟨r0, r1, lines, rfl, hl⟩ := h
  obtain ⟨hname, hne, hc⟩ := wf_unpack t hwf
  obtain ⟨f1, f2, f3, f4⟩ := lines_facts _ _ _ hl
  have hlen := hl.length_eq
  cases lines with
  | nil => simp at hlen; exact absurd hlen hne
  | cons l0 ls =>
    unfold headT
    rw [C02.layout_transposed _ r0 t.dest r1 l0 ls (by simp)]
    rw [if_neg (by simpa using f1)]
    have hpn := parseColumnNames_variant _ [] _ f2 (by intro c hc; simp at hc)
    rw [List.append_nil] at hpn
    rw [hpn]
    simp only []
    have htk : (l0 :: ls).take (t.cols.map (·.name)).length = l0 :: ls := by
      rw [List.length_map, hlen]; exact List.take_length
    rw [htk, f3.1]
    simp only [if_true]
    rw [transposedRows_variant t hwf hwfT _ f4]
    simp only [specLayout, f3.2, TV.names, TV.units]
    simp

end Pdt.C10
