/-
  Props/C10.lean — "Orientation, trailing delimiters and header whitespace never change the table".

  For a table value `t` (Model/Rewrites.lean) the reader's `layout` — and therefore `makePrecursor` / `makeTable`,
  for every `ext` and every fixer — gives the same result on every *variant* of its text:

    RVariant t g   g is the row-wise grid of `t` with: any cells appended to the `**name`, destination, unit and
                   value lines; name / unit cells that strip to the names / units; after the last name nothing or a
                   blank cell followed by anything (trailing delimiters, comments)
    TVariant t g   g is the transposed grid of `t` with: any cells appended to the first two lines; per column a line
                   `name', unit', values ++ blank cells` with name' / unit' stripping to the name / unit

  `rvariant_layout`, `tvariant_layout`: both have the layout of the plain row-wise text, up to the transposed flag.
  The rewrite functions map variants to variants (`*_rvariant`, `*_tvariant`), the plain layouts are variants,
  `toTransposed (layoutR t) = layoutT t`; hence every composition of the rewrites leaves `makeTable` unchanged
  (`rewrites_rowwise`, `rewrites_transposed` are the composite statements).  Termination: `termination_independent`;
  header blanks never turn a non-marker first cell into a marker (`classify_pad`), so the rewritten grid stays one
  block for the splitter; `stream_rowwise` / `stream_transposed` combine everything for a row stream.
  Every sequence of rewrites: `inductive Rewrite`, `applyAll`, `applyAll_rvariant` / `applyAll_tvariant`,
  `rewrites_any_rowwise` / `rewrites_any_transposed`.  Tables without columns (`TV.wf0`): `zero_columns_same_table`,
  `rewrites_any_zero_columns`.  Splitter and parser together: `parse_delivers`, `parse_rewritten_rowwise`,
  `parse_rewritten_transposed` (what `parse_blocks` delivers for the rewritten stream is the plain text's table).
-/
import PdtModel.Model.Rewrites
import PdtModel.Props.C02
import PdtModel.Props.C03
import PdtModel.Props.C11
import PdtModel.Lemmas.Text
import PdtModel.Lemmas.Marker
set_option linter.unusedSimpArgs false
set_option linter.unusedVariables false
namespace Pdt.C10
open Pdt Pdt.Reader Pdt.Rewrites

/-! ## 1. `strip` absorbs header blanks -/

theorem dropWhile_append_all {α} (p : α → Bool) (l x : List α) (h : l.all p = true) :
    (l ++ x).dropWhile p = x.dropWhile p := by
  induction l with
  | nil => rfl
  | cons a as ih =>
    simp only [List.all_cons, Bool.and_eq_true] at h
    simp [List.dropWhile_cons, h.1, ih h.2]

theorem lstrip_pad (l x : Str) (h : allSpace l = true) : lstrip (l ++ x) = lstrip x :=
  dropWhile_append_all isSpace l x h

theorem rstrip_pad (x r : Str) (h : allSpace r = true) : rstrip (x ++ r) = rstrip x := by
  unfold rstrip
  rw [List.reverse_append, dropWhile_append_all isSpace r.reverse x.reverse (by simpa [allSpace] using h)]

theorem allSpace_lstrip_nil (s : Str) (h : allSpace s = true) : lstrip s = [] := by
  have := dropWhile_append_all isSpace s [] h
  simpa [lstrip] using this

/-- Python: `(l + s + r).strip() == s.strip()` for whitespace-only `l`, `r` -/
theorem strip_pad (l s r : Str) (hl : allSpace l = true) (hr : allSpace r = true) :
    strip (l ++ s ++ r) = strip s := by
  unfold strip
  rw [List.append_assoc, lstrip_pad l (s ++ r) hl]
  unfold lstrip
  rw [List.dropWhile_append]
  by_cases he : (List.dropWhile isSpace s).isEmpty = true
  · have he' : List.dropWhile isSpace s = [] := by simpa using he
    have hr' : List.dropWhile isSpace r = [] := allSpace_lstrip_nil r hr
    simp [he, he', hr']
  · simp only [he, if_false]
    exact rstrip_pad _ r hr

theorem isBlank_pad (l s r : Str) (hl : allSpace l = true) (hr : allSpace r = true) :
    (Cell.str (l ++ s ++ r)).isBlank = (Cell.str s).isBlank := by
  unfold allSpace at hl hr
  simp [Cell.isBlank, allSpace, List.all_append, hl, hr]

/-- surrounding a cell with blanks changes neither what it strips to, nor whether it is text, nor whether it is blank -/
theorem padCell_spec (lr : Str × Str) (c : Cell) (hl : allSpace lr.1 = true) (hr : allSpace lr.2 = true) :
    stripOfStr (padCell lr c) = stripOfStr c ∧ (padCell lr c).isStr = c.isStr ∧
    (padCell lr c).isBlank = c.isBlank := by
  cases c with
  | str s => exact ⟨strip_pad _ _ _ hl hr, rfl, isBlank_pad _ _ _ hl hr⟩
  | _ => exact ⟨rfl, rfl, rfl⟩

/-! ## 2. pairwise-related lists -/

inductive All₂ {α β : Type} (R : α → β → Prop) : List α → List β → Prop
  | nil : All₂ R [] []
  | cons {a : α} {b : β} {as : List α} {bs : List β} : R a b → All₂ R as bs → All₂ R (a :: as) (b :: bs)

theorem All₂.length_eq {α β} {R : α → β → Prop} {as : List α} {bs : List β} (h : All₂ R as bs) :
    as.length = bs.length := by
  induction h with
  | nil => rfl
  | cons _ _ ih => simp [ih]

theorem All₂.map_eq {α β γ} {R : α → β → Prop} (f : α → γ) (g : β → γ) (hfg : ∀ a b, R a b → f a = g b)
    {as : List α} {bs : List β} (h : All₂ R as bs) : as.map f = bs.map g := by
  induction h with
  | nil => rfl
  | cons hab _ ih => simp [hfg _ _ hab, ih]

theorem All₂.imp {α β} {R S : α → β → Prop} (hRS : ∀ a b, R a b → S a b)
    {as : List α} {bs : List β} (h : All₂ R as bs) : All₂ S as bs := by
  induction h with
  | nil => exact .nil
  | cons hab _ ih => exact .cons (hRS _ _ hab) ih

theorem All₂.of_map {α β} {R : α → β → Prop} (g : α → β) (as : List α) (h : ∀ a ∈ as, R a (g a)) :
    All₂ R as (as.map g) := by
  induction as with
  | nil => exact .nil
  | cons a as ih =>
    exact .cons (h a (by simp)) (ih (fun x hx => h x (List.mem_cons_of_mem _ hx)))

theorem All₂.all_right {α β} {R : α → β → Prop} (q : β → Bool) (hq : ∀ a b, R a b → q b = true)
    {as : List α} {bs : List β} (h : All₂ R as bs) : bs.all q = true := by
  induction h with
  | nil => rfl
  | cons hab _ ih => simp [hq _ _ hab, ih]

theorem All₂.and_mem {α β} {R : α → β → Prop} (P : α → Prop) {as : List α} {bs : List β}
    (h : All₂ R as bs) (hP : ∀ a ∈ as, P a) : All₂ (fun a b => P a ∧ R a b) as bs := by
  induction h with
  | nil => exact .nil
  | cons hab _ ih =>
    exact .cons ⟨hP _ (by simp), hab⟩ (ih (fun x hx => hP x (List.mem_cons_of_mem _ hx)))

/-! ## 3. well-formedness unpacked -/

theorem wf_unpack (t : TV) (h : t.wf = true) :
    t.name.getLast? ≠ some '*' ∧ t.cols ≠ [] ∧
    ∀ c ∈ t.cols, c.name = strip c.name ∧ (Cell.str c.name).isBlank = false ∧ c.unit = strip c.unit ∧
      c.cells.length = t.nRows := by
  simp only [TV.wf, Bool.and_eq_true, bne_iff_ne, ne_eq, Bool.not_eq_true', List.isEmpty_eq_false_iff,
    List.all_eq_true, nameOK, unitOK, beq_iff_eq] at h
  refine ⟨h.1.1, h.1.2, ?_⟩
  intro c hc
  have := h.2 c hc
  exact ⟨this.1.1.1, this.1.1.2, this.1.2, this.2⟩

theorem transposeN_row_length (lines : List Row) (m : Nat) : ∀ r ∈ transposeN lines m, r.length = lines.length := by
  intro r hr
  simp only [transposeN, List.mem_map, List.mem_range] at hr
  obtain ⟨i, _, rfl⟩ := hr
  simp

theorem dataRows_length (t : TV) : ∀ r ∈ t.dataRows, r.length = t.cols.length := by
  intro r hr
  have := transposeN_row_length _ _ r hr
  simpa using this

/-! ## 4. header cells -/

/-- cells that read as the column names: text, not blank, stripping to the names -/
def NameCells (names : List Str) (cells : List Cell) : Prop :=
  cells.all Cell.isStr = true ∧ cells.all (fun c => !c.isBlank) = true ∧ cells.map stripOfStr = names

/-- cells that read as the units: text, stripping to the units -/
def UnitCells (units : List Str) (cells : List Cell) : Prop :=
  cells.all Cell.isStr = true ∧ cells.map stripOfStr = units

/-- what may follow the last name on the column-name row: nothing, or a blank cell and then anything -/
def TailOK (tail : List Cell) : Prop := ∀ c, tail.head? = some c → c.isBlank = true

theorem takeWhile_append_all {α} (p : α → Bool) (l x : List α) (h : l.all p = true) :
    (l ++ x).takeWhile p = l ++ x.takeWhile p := by
  induction l with
  | nil => rfl
  | cons a as ih =>
    simp only [List.all_cons, Bool.and_eq_true] at h
    simp [List.takeWhile_cons, h.1, ih h.2]

/-- **`takeWhile ¬blank` absorbs trailing delimiters and comments; `strip` absorbs header blanks** -/
theorem parseColumnNames_variant (cells tail : List Cell) (names : List Str)
    (h : NameCells names cells) (ht : TailOK tail) : parseColumnNames (cells ++ tail) = .ok names := by
  obtain ⟨h1, h2, h3⟩ := h
  have htail : tail.takeWhile (fun c => !c.isBlank) = [] := by
    cases tail with
    | nil => rfl
    | cons c cs => simp [List.takeWhile_cons, ht c rfl]
  unfold parseColumnNames
  simp only [takeWhile_append_all _ cells tail h2, htail, List.append_nil, h1, if_true, h3]

theorem nameCells_plain (t : TV) (hwf : t.wf = true) : NameCells t.names (t.names.map Cell.str) := by
  obtain ⟨_, _, hc⟩ := wf_unpack t hwf
  refine ⟨by simp [Cell.isStr], ?_, ?_⟩
  · simp only [TV.names, List.map_map, List.all_map, List.all_eq_true]
    intro c hcm
    simp [(hc c hcm).2.1]
  · simp only [TV.names, List.map_map]
    apply List.map_congr_left
    intro c hcm
    simp [stripOfStr, ← (hc c hcm).1]

theorem unitCells_plain (t : TV) (hwf : t.wf = true) : UnitCells t.units (t.units.map Cell.str) := by
  obtain ⟨_, _, hc⟩ := wf_unpack t hwf
  refine ⟨by simp [Cell.isStr], ?_⟩
  simp only [TV.units, List.map_map]
  apply List.map_congr_left
  intro c hcm
  simp [stripOfStr, ← (hc c hcm).2.2.1]

/-! ## 5. row-wise variants -/

/-- the row-wise grids that spell the table `t`: cells appended to any line, header cells surrounded by blanks,
    comments after a blank cell on the column-name row -/
def RVariant (t : TV) (g : List Row) : Prop :=
  ∃ r0 r1 ncells tail ucells utail drows,
    g = (headR t :: r0) :: (t.dest :: r1) :: (ncells ++ tail) :: (ucells ++ utail) :: drows ∧
    NameCells t.names ncells ∧ TailOK tail ∧ UnitCells t.units ucells ∧
    All₂ (fun r r' => ∃ p, r' = r ++ p) t.dataRows drows

/-- the layout every variant must have (up to the transposed flag) -/
def specLayout (t : TV) (transposed : Bool) : Layout :=
  ⟨t.name, transposed, destinations t.dest, t.names, t.units, t.dataRows⟩

/-- **row-wise slicing `line[:n_col]` absorbs trailing cells; the header rules absorb blanks and comments** -/
theorem rvariant_layout (t : TV) (hwf : t.wf = true) (g : List Row) (h : RVariant t g) :
    layout g = .ok (specLayout t false) := by
  obtain ⟨r0, r1, ncells, tail, ucells, utail, drows, rfl, hn, ht, hu, hd⟩ := h
  obtain ⟨hname, _, hc⟩ := wf_unpack t hwf
  have hnl : t.names.length = t.cols.length := by simp [TV.names]
  have hul : ucells.length = t.cols.length := by
    have := congrArg List.length hu.2
    simpa [TV.units] using this
  unfold headR
  rw [C02.layout_rowwise _ r0 t.dest r1 _ _ drows (by simpa using hname)]
  rw [parseColumnNames_variant ncells tail t.names hn ht]
  simp only [hnl]
  have htake : (ucells ++ utail).take t.cols.length = ucells := by
    rw [← hul]; exact List.take_left' rfl
  have hguard : ¬ ((ucells ++ utail).length < t.cols.length) := by
    simp only [List.length_append, hul]; omega
  rw [if_neg hguard, htake]
  simp only [hu.1, if_true, hu.2]
  have hrows : drows.map (fun l => l.take t.cols.length) = t.dataRows := by
    have h2 := hd.and_mem (fun r => r.length = t.cols.length) (dataRows_length t)
    have := All₂.map_eq (fun r => r) (fun l : Row => l.take t.cols.length)
      (fun a b hab => by
        obtain ⟨hl, p, rfl⟩ := hab
        rw [← hl]; exact (List.take_left' rfl).symm) h2
    simpa using this.symm
  simp [hrows, specLayout]

/-! ## 6. transposed variants -/

theorem All₂.exists_right {α β} {R : α → β → Prop} {as : List α} {bs : List β} (h : All₂ R as bs)
    (a : α) (ha : a ∈ as) : ∃ b ∈ bs, R a b := by
  induction h with
  | nil => simp at ha
  | cons hab _ ih =>
    rcases List.mem_cons.1 ha with rfl | ha
    · exact ⟨_, by simp, hab⟩
    · obtain ⟨b, hb, hr⟩ := ih ha
      exact ⟨b, List.mem_cons_of_mem _ hb, hr⟩

theorem All₂.exists_left {α β} {R : α → β → Prop} {as : List α} {bs : List β} (h : All₂ R as bs)
    (b : β) (hb : b ∈ bs) : ∃ a ∈ as, R a b := by
  induction h with
  | nil => simp at hb
  | cons hab _ ih =>
    rcases List.mem_cons.1 hb with rfl | hb
    · exact ⟨_, by simp, hab⟩
    · obtain ⟨a, ha, hr⟩ := ih hb
      exact ⟨a, List.mem_cons_of_mem _ ha, hr⟩

theorem getD_append_left' {α} (l l' : List α) (d : α) (n : Nat) (h : n < l.length) :
    (l ++ l').getD n d = l.getD n d := by
  simp [List.getD_eq_getElem?_getD, List.getElem?_append_left h]

theorem getD_append_right' {α} (l l' : List α) (d : α) (n : Nat) (h : l.length ≤ n) :
    (l ++ l').getD n d = l'.getD (n - l.length) d := by
  simp [List.getD_eq_getElem?_getD, List.getElem?_append_right h]

/-- the loop condition of the `n_row` detection -/
def rowHasData (lines : List Row) (longest i : Nat) : Bool :=
  decide (i < longest) && lines.any (fun l => decide (i < l.length) && !(getD0 l i).isBlank)

theorem nRowLoop_eq (lines : List Row) (longest m : Nat)
    (hlt : ∀ k, k < m → rowHasData lines longest k = true) (hm : rowHasData lines longest m = false) :
    ∀ fuel i, i ≤ m → m - i ≤ fuel → nRowLoop lines longest i fuel = m := by
  intro fuel
  induction fuel with
  | zero => intro i h1 h2; simp only [nRowLoop]; omega
  | succ fuel ih =>
    intro i h1 h2
    unfold nRowLoop
    by_cases hi : i < m
    · have := hlt i hi
      unfold rowHasData at this
      rw [if_pos this]
      exact ih (i + 1) (by omega) (by omega)
    · have him : i = m := by omega
      subst him
      unfold rowHasData at hm
      rw [if_neg (by simp [hm])]

theorem foldl_max_ge (ls : List Row) (init : Nat) :
    init ≤ ls.foldl (fun m l => max m l.length) init ∧
    ∀ l ∈ ls, l.length ≤ ls.foldl (fun m l => max m l.length) init := by
  induction ls generalizing init with
  | nil => simp
  | cons x xs ih =>
    simp only [List.foldl_cons]
    have := ih (max init x.length)
    refine ⟨by omega, ?_⟩
    intro l hl
    rcases List.mem_cons.1 hl with rfl | hl
    · omega
    · exact this.2 l hl

/-- value part of a transposed line of column `c`: its cells, then blank cells only -/
def ValsOf (m : Nat) (c : TCol) (v : Row) : Prop := c.cells.length = m ∧ ∃ p, v = c.cells ++ p ∧ allBlank p = true

/-- **the transposed `n_row` detection + trim/pad absorbs trailing blank cells; zipping the lines gives the rows** -/
theorem transposedRows_variant (t : TV) (hwf : t.wf = true) (hwfT : t.wfT = true) (vl : List Row)
    (h : All₂ (ValsOf t.nRows) t.cols vl) : transposedRows vl = .ok t.dataRows := by
  obtain ⟨_, hne, hc⟩ := wf_unpack t hwf
  have hvne : vl ≠ [] := by
    intro e; subst e
    have := h.length_eq
    simp at this
    exact hne this
  have hlen : ∀ v ∈ vl, t.nRows ≤ v.length := by
    intro v hv
    obtain ⟨c, _, hl, p, rfl, _⟩ := h.exists_left v hv
    simp [hl]
  have hfold := foldl_max_ge vl 0
  have hlongest : t.nRows ≤ vl.foldl (fun m l => max m l.length) 0 := by
    cases vl with
    | nil => exact absurd rfl hvne
    | cons v vs => exact Nat.le_trans (hlen v (by simp)) (hfold.2 v (by simp))
  have hnrow : nRowLoop vl (vl.foldl (fun m l => max m l.length) 0) 0 (vl.foldl (fun m l => max m l.length) 0)
      = t.nRows := by
    apply nRowLoop_eq
    · intro k hk
      simp only [TV.wfT, List.all_eq_true, List.mem_range, List.any_eq_true, Bool.not_eq_true'] at hwfT
      obtain ⟨c, hcm, hcb⟩ := hwfT k hk
      obtain ⟨v, hv, hl, p, rfl, _⟩ := h.exists_right c hcm
      simp only [rowHasData, Bool.and_eq_true, decide_eq_true_eq, List.any_eq_true, Bool.not_eq_true']
      refine ⟨by omega, _, hv, by simp; omega, ?_⟩
      rw [show getD0 (c.cells ++ p) k = getD0 c.cells k from getD_append_left' _ _ _ _ (by omega)]
      exact hcb
    · simp only [rowHasData, Bool.and_eq_false_iff, decide_eq_false_iff_not, List.any_eq_false,
        Bool.and_eq_true, decide_eq_true_eq, Bool.not_eq_true', not_and, Bool.not_eq_false]
      right
      intro v hv hlt
      obtain ⟨c, _, hl, p, rfl, hp⟩ := h.exists_left v hv
      rw [show getD0 (c.cells ++ p) t.nRows = getD0 p (t.nRows - c.cells.length) from
        getD_append_right' _ _ _ _ (by omega)]
      simp only [hl, Nat.sub_self]
      cases p with
      | nil => simp at hlt; omega
      | cons x xs =>
        simp only [allBlank, List.all_cons, Bool.and_eq_true] at hp
        simpa [getD0] using hp.1
    · omega
    · omega
  have hpad : vl.map (padOrTrim t.nRows) = t.cols.map (·.cells) := by
    have := All₂.map_eq (fun c : TCol => c.cells) (padOrTrim t.nRows)
      (fun c v hcv => by
        obtain ⟨hl, p, rfl, _⟩ := hcv
        unfold padOrTrim
        rw [if_pos (by simp [hl])]
        rw [← hl]; exact (List.take_left' rfl).symm) h
    exact this.symm
  unfold transposedRows
  cases vl with
  | nil => exact absurd rfl hvne
  | cons v vs =>
    simp only []
    rw [hnrow, hpad]
    rfl

/-- a transposed line spelling column `c`: a name cell and a unit cell that strip to its name / unit, its cells,
    then blank cells only -/
def LineOf (m : Nat) (c : TCol) (line : Row) : Prop :=
  ∃ nc uc p, line = nc :: uc :: (c.cells ++ p) ∧ c.cells.length = m ∧
    nc.isStr = true ∧ nc.isBlank = false ∧ stripOfStr nc = c.name ∧
    uc.isStr = true ∧ stripOfStr uc = c.unit ∧ allBlank p = true

/-- the transposed grids that spell the table `t` -/
def TVariant (t : TV) (g : List Row) : Prop :=
  ∃ r0 r1 lines, g = (headT t :: r0) :: (t.dest :: r1) :: lines ∧ All₂ (LineOf t.nRows) t.cols lines

theorem lines_facts (m : Nat) (cols : List TCol) (lines : List Row) (h : All₂ (LineOf m) cols lines) :
    lines.any (fun l => decide (l.length < 2)) = false ∧
    NameCells (cols.map (·.name)) (lines.map (fun l => getD0 l 0)) ∧
    UnitCells (cols.map (·.unit)) (lines.map (fun l => getD0 l 1)) ∧
    All₂ (ValsOf m) cols (lines.map (fun l => l.drop 2)) := by
  induction h with
  | nil => exact ⟨rfl, ⟨rfl, rfl, rfl⟩, ⟨rfl, rfl⟩, .nil⟩
  | @cons c line cs ls hab _ ih =>
    obtain ⟨nc, uc, p, rfl, hl, n1, n2, n3, u1, u2, hp⟩ := hab
    obtain ⟨i1, ⟨i2, i3, i4⟩, ⟨i5, i6⟩, i7⟩ := ih
    have g0 : getD0 (nc :: uc :: (c.cells ++ p)) 0 = nc := rfl
    have g1 : getD0 (nc :: uc :: (c.cells ++ p)) 1 = uc := rfl
    refine ⟨?_, ⟨?_, ?_, ?_⟩, ⟨?_, ?_⟩, ?_⟩
    · simp [i1]
    · simp only [List.map_cons, List.all_cons, g0, n1, Bool.true_and]; exact i2
    · simp only [List.map_cons, List.all_cons, g0, n2, Bool.not_false, Bool.true_and]; exact i3
    · simp only [List.map_cons, g0, n3, i4]
    · simp only [List.map_cons, List.all_cons, g1, u1, Bool.true_and]; exact i5
    · simp only [List.map_cons, g1, u2, i6]
    · exact .cons ⟨hl, p, rfl, hp⟩ i7

/-- **a transposed variant has the layout of the plain row-wise text, with the transposed flag set** -/
theorem tvariant_layout (t : TV) (hwf : t.wf = true) (hwfT : t.wfT = true) (g : List Row) (h : TVariant t g) :
    layout g = .ok (specLayout t true) := by
  obtain ⟨r0, r1, lines, rfl, hl⟩ := h
  obtain ⟨hname, hne, hc⟩ := wf_unpack t hwf
  obtain ⟨f1, f2, f3, f4⟩ := lines_facts _ _ _ hl
  have hlen := hl.length_eq
  cases lines with
  | nil => simp at hlen; exact absurd hlen hne
  | cons l0 ls =>
    unfold headT
    rw [C02.layout_transposed _ r0 t.dest r1 l0 ls (by simp)]
    rw [if_neg (by simpa using f1)]
    have hpn := parseColumnNames_variant _ [] _ f2 (by intro c hc; simp at hc)
    rw [List.append_nil] at hpn
    rw [hpn]
    simp only []
    have htk : (l0 :: ls).take (t.cols.map (·.name)).length = l0 :: ls := by
      rw [List.length_map, hlen]; exact List.take_length
    rw [htk]
    have hguard : ¬ (((l0 :: ls).map (fun l => getD0 l 1)).length < (t.cols.map (·.name)).length) := by
      simp only [List.length_map, hlen]; omega
    rw [if_neg hguard, f3.1]
    simp only [if_true]
    rw [transposedRows_variant t hwf hwfT _ f4]
    simp only [specLayout, f3.2, TV.names, TV.units]
    simp

/-! ## 7. the plain layouts are variants; the rewrites map variants to variants -/

theorem layoutR_nonempty (t : TV) (h : t.cols ≠ []) :
    layoutR t = [headR t] :: [t.dest] :: t.names.map Cell.str :: t.units.map Cell.str :: t.dataRows := by
  unfold layoutR
  rw [if_neg (by simpa using h)]

theorem rvariant_plain (t : TV) (hwf : t.wf = true) : RVariant t (layoutR t) := by
  refine ⟨[], [], t.names.map Cell.str, [], t.units.map Cell.str, [], t.dataRows,
    by rw [layoutR_nonempty t (wf_unpack t hwf).2.1]; simp,
    nameCells_plain t hwf, by intro c hc; simp at hc, unitCells_plain t hwf, ?_⟩
  have := All₂.of_map (R := fun r r' : Row => ∃ p, r' = r ++ p) (fun r => r) t.dataRows
    (fun r _ => ⟨[], by simp⟩)
  simpa using this

theorem tvariant_plain (t : TV) (hwf : t.wf = true) : TVariant t (layoutT t) := by
  obtain ⟨_, _, hc⟩ := wf_unpack t hwf
  refine ⟨[], [], t.cols.map lineT, rfl, ?_⟩
  apply All₂.of_map
  intro c hcm
  have := hc c hcm
  exact ⟨.str c.name, .str c.unit, [], by simp [lineT], this.2.2.2, rfl, this.2.1,
    by simp [stripOfStr, ← this.1], rfl, by simp [stripOfStr, ← this.2.2.1], rfl⟩

/-! ### padTrailing -/

theorem padTrailing_nil (g : List Row) : padTrailing g [] = g := by
  cases g <;> rfl

theorem padTrailing_snoc_nil (g : List Row) (pads : List (List Cell)) :
    padTrailing g (pads ++ [[]]) = padTrailing g pads := by
  induction g generalizing pads with
  | nil => cases pads <;> rfl
  | cons r rs ih =>
    cases pads with
    | nil => simp [padTrailing, padTrailing_nil]
    | cons p ps => simp [padTrailing, ih]

theorem padTrailing_rows (rows drows : List Row) (ps : List (List Cell))
    (h : All₂ (fun r r' : Row => ∃ p, r' = r ++ p) rows drows) :
    All₂ (fun r r' : Row => ∃ p, r' = r ++ p) rows (padTrailing drows ps) := by
  induction h generalizing ps with
  | nil => cases ps <;> exact .nil
  | cons hab hrest ih =>
    cases ps with
    | nil => exact .cons hab hrest
    | cons q qs =>
      obtain ⟨p, rfl⟩ := hab
      exact .cons ⟨p ++ q, by simp⟩ (ih qs)

theorem tailOK_append (tail p : List Cell) (ht : TailOK tail) (hp : allBlank p = true) : TailOK (tail ++ p) := by
  intro c hc
  cases tail with
  | nil =>
    cases p with
    | nil => simp at hc
    | cons x xs =>
      simp only [allBlank, List.all_cons, Bool.and_eq_true] at hp
      simp at hc; subst hc; exact hp.1
  | cons x xs => exact ht c (by simpa using hc)

theorem padTrailing_rvariant4 (t : TV) (g : List Row) (h : RVariant t g) (p0 p1 p2 p3 : List Cell)
    (ps : List (List Cell)) (hp2 : allBlank p2 = true) :
    RVariant t (padTrailing g (p0 :: p1 :: p2 :: p3 :: ps)) := by
  obtain ⟨r0, r1, ncells, tail, ucells, utail, drows, rfl, hn, ht, hu, hd⟩ := h
  exact ⟨r0 ++ p0, r1 ++ p1, ncells, tail ++ p2, ucells, utail ++ p3, padTrailing drows ps,
    by simp [padTrailing], hn, tailOK_append tail p2 ht hp2, hu, padTrailing_rows _ _ ps hd⟩

/-- **appending empty cells to any lines of a row-wise variant gives a row-wise variant** -/
theorem padTrailing_rvariant (t : TV) (g : List Row) (h : RVariant t g) (pads : List (List Cell))
    (hp : ∀ p ∈ pads, allBlank p = true) : RVariant t (padTrailing g pads) := by
  have e : allBlank [] = true := rfl
  match pads, hp with
  | [], _ => rw [padTrailing_nil]; exact h
  | [p0], _ =>
    have := padTrailing_rvariant4 t g h p0 [] [] [] [] e
    rwa [show [p0, [], [], []] = [p0] ++ [[]] ++ [[]] ++ [[]] from rfl, padTrailing_snoc_nil,
      padTrailing_snoc_nil, padTrailing_snoc_nil] at this
  | [p0, p1], _ =>
    have := padTrailing_rvariant4 t g h p0 p1 [] [] [] e
    rwa [show [p0, p1, [], []] = [p0, p1] ++ [[]] ++ [[]] from rfl, padTrailing_snoc_nil,
      padTrailing_snoc_nil] at this
  | [p0, p1, p2], hp =>
    have := padTrailing_rvariant4 t g h p0 p1 p2 [] [] (hp p2 (by simp))
    rwa [show [p0, p1, p2, []] = [p0, p1, p2] ++ [[]] from rfl, padTrailing_snoc_nil] at this
  | p0 :: p1 :: p2 :: p3 :: ps, hp => exact padTrailing_rvariant4 t g h p0 p1 p2 p3 ps (hp p2 (by simp))

theorem allBlank_append (p q : List Cell) (hp : allBlank p = true) (hq : allBlank q = true) :
    allBlank (p ++ q) = true := by
  simp [allBlank, List.all_append] at *
  exact ⟨hp, hq⟩

theorem padTrailing_lines (m : Nat) (cols : List TCol) (lines : List Row) (ps : List (List Cell))
    (h : All₂ (LineOf m) cols lines) (hp : ∀ p ∈ ps, allBlank p = true) :
    All₂ (LineOf m) cols (padTrailing lines ps) := by
  induction h generalizing ps with
  | nil => cases ps <;> exact .nil
  | cons hab hrest ih =>
    cases ps with
    | nil => exact .cons hab hrest
    | cons q qs =>
      obtain ⟨nc, uc, p, rfl, hl, n1, n2, n3, u1, u2, hpb⟩ := hab
      refine .cons ⟨nc, uc, p ++ q, by simp, hl, n1, n2, n3, u1, u2,
        allBlank_append p q hpb (hp q (by simp))⟩ (ih qs (fun x hx => hp x (List.mem_cons_of_mem _ hx)))

/-- **appending empty cells to any lines of a transposed variant gives a transposed variant** -/
theorem padTrailing_tvariant (t : TV) (g : List Row) (h : TVariant t g) (pads : List (List Cell))
    (hp : ∀ p ∈ pads, allBlank p = true) : TVariant t (padTrailing g pads) := by
  obtain ⟨r0, r1, lines, rfl, hl⟩ := h
  match pads, hp with
  | [], _ => exact ⟨r0, r1, lines, by simp [padTrailing], hl⟩
  | [p0], _ => exact ⟨r0 ++ p0, r1, lines, by simp [padTrailing], hl⟩
  | p0 :: p1 :: ps, hp =>
    exact ⟨r0 ++ p0, r1 ++ p1, padTrailing lines ps, by simp [padTrailing],
      padTrailing_lines _ _ _ ps hl (fun x hx => hp x (by simp [hx]))⟩

/-! ### padHeader -/

/-- the padding really is blanks -/
def Blanks (f : Nat → Str × Str) : Prop := ∀ k, allSpace (f k).1 = true ∧ allSpace (f k).2 = true

theorem padCells_append (f : Nat → Str × Str) (k : Nat) (a b : List Cell) :
    padCells f k (a ++ b) = padCells f k a ++ padCells f (k + a.length) b := by
  induction a generalizing k with
  | nil => simp [padCells]
  | cons x xs ih => simp [padCells, ih, Nat.add_assoc, Nat.add_comm 1]

theorem padCells_spec (f : Nat → Str × Str) (hf : Blanks f) (k : Nat) (cells : List Cell) :
    (padCells f k cells).map stripOfStr = cells.map stripOfStr ∧
    (padCells f k cells).all Cell.isStr = cells.all Cell.isStr ∧
    (padCells f k cells).all (fun c => !c.isBlank) = cells.all (fun c => !c.isBlank) := by
  induction cells generalizing k with
  | nil => simp [padCells]
  | cons c cs ih =>
    have := padCell_spec (f k) c (hf k).1 (hf k).2
    have ih' := ih (k + 1)
    simp [padCells, this, ih'.1, ih'.2.1, ih'.2.2]

theorem padCells_tailOK (f : Nat → Str × Str) (hf : Blanks f) (k : Nat) (tail : List Cell) (ht : TailOK tail) :
    TailOK (padCells f k tail) := by
  intro c hc
  cases tail with
  | nil => simp [padCells] at hc
  | cons x xs =>
    simp [padCells] at hc
    subst hc
    rw [(padCell_spec (f k) x (hf k).1 (hf k).2).2.2]
    exact ht x rfl

/-- **surrounding name / unit cells of a row-wise variant with blanks gives a row-wise variant** -/
theorem padHeaderR_rvariant (t : TV) (g : List Row) (h : RVariant t g) (fn fu : Nat → Str × Str)
    (hn : Blanks fn) (hu : Blanks fu) : RVariant t (padHeaderR fn fu g) := by
  obtain ⟨r0, r1, ncells, tail, ucells, utail, drows, rfl, ⟨n1, n2, n3⟩, ht, ⟨u1, u2⟩, hd⟩ := h
  have sn := padCells_spec fn hn 0 ncells
  have su := padCells_spec fu hu 0 ucells
  exact ⟨r0, r1, padCells fn 0 ncells, padCells fn (0 + ncells.length) tail, padCells fu 0 ucells,
    padCells fu (0 + ucells.length) utail, drows, by simp [padHeaderR, padCells_append],
    ⟨by rw [sn.2.1, n1], by rw [sn.2.2, n2], by rw [sn.1, n3]⟩, padCells_tailOK fn hn _ tail ht,
    ⟨by rw [su.2.1, u1], by rw [su.1, u2]⟩, hd⟩

theorem padLines_lines (m : Nat) (cols : List TCol) (lines : List Row) (fn fu : Nat → Str × Str)
    (hn : Blanks fn) (hu : Blanks fu) (k : Nat) (h : All₂ (LineOf m) cols lines) :
    All₂ (LineOf m) cols (padLines fn fu k lines) := by
  induction h generalizing k with
  | nil => exact .nil
  | cons hab _ ih =>
    obtain ⟨nc, uc, p, rfl, hl, n1, n2, n3, u1, u2, hpb⟩ := hab
    have sn := padCell_spec (fn k) nc (hn k).1 (hn k).2
    have su := padCell_spec (fu k) uc (hu k).1 (hu k).2
    exact .cons ⟨padCell (fn k) nc, padCell (fu k) uc, p, rfl, hl, by rw [sn.2.1, n1], by rw [sn.2.2, n2],
      by rw [sn.1, n3], by rw [su.2.1, u1], by rw [su.1, u2], hpb⟩ (ih (k + 1))

/-- **surrounding name / unit cells of a transposed variant with blanks gives a transposed variant** -/
theorem padHeaderT_tvariant (t : TV) (g : List Row) (h : TVariant t g) (fn fu : Nat → Str × Str)
    (hn : Blanks fn) (hu : Blanks fu) : TVariant t (padHeaderT fn fu g) := by
  obtain ⟨r0, r1, lines, rfl, hl⟩ := h
  exact ⟨r0, r1, padLines fn fu 0 lines, rfl, padLines_lines _ _ _ fn fu hn hu 0 hl⟩

/-! ### addComments -/

/-- **a blank cell and free comment cells after the column-name row of a row-wise variant give a row-wise variant** -/
theorem addComments_rvariant (t : TV) (g : List Row) (h : RVariant t g) (b : Cell) (cs : List Cell)
    (hb : b.isBlank = true) : RVariant t (addComments b cs g) := by
  obtain ⟨r0, r1, ncells, tail, ucells, utail, drows, rfl, hn, ht, hu, hd⟩ := h
  refine ⟨r0, r1, ncells, tail ++ b :: cs, ucells, utail, drows, by simp [addComments], hn, ?_, hu, hd⟩
  intro c hc
  cases tail with
  | nil => simp at hc; subst hc; exact hb
  | cons x xs => exact ht c (by simpa using hc)

/-! ### orientation -/

theorem getD0_map_str (l : List Str) (j : Nat) (h : j < l.length) : getD0 (l.map Cell.str) j = .str l[j] := by
  simp [getD0, List.getD_eq_getElem?_getD, h]

/-- zipping the row-wise lines `names / units / rows` gives the transposed lines: **`zip`-transpose of the
    value rows gives back the columns** -/
theorem toTransposed_layoutR (t : TV) (hwf : t.wf = true) : toTransposed (layoutR t) = layoutT t := by
  obtain ⟨_, hne, hc⟩ := wf_unpack t hwf
  rw [layoutR_nonempty t hne]
  simp only [layoutT, toTransposed, headR, headT, List.cons_append, List.cons.injEq, true_and]
  apply List.ext_getElem
  · simp [transposeN, TV.names]
  · intro j h1 h2
    have hj : j < t.cols.length := by simpa using h2
    have hcj := hc t.cols[j] (List.getElem_mem hj)
    simp only [transposeN, List.getElem_map, List.getElem_range, List.map_cons, lineT, TV.dataRows]
    rw [getD0_map_str _ _ (by simpa [TV.names] using hj), getD0_map_str _ _ (by simpa [TV.units] using hj)]
    simp only [TV.names, TV.units, List.getElem_map, List.cons.injEq, true_and, List.map_map]
    apply List.ext_getElem
    · simp [hcj.2.2.2]
    · intro i hi1 hi2
      have hi : i < t.cols[j].cells.length := hi2
      simp [getD0, List.getD_eq_getElem?_getD, hj, hi]

/-! ## 8. from the layout to the table -/

/-- the result with the transposed flag blanked out -/
def eraseFlag (r : Except PyExc (Precursor × Fixer)) : Except PyExc (Precursor × Fixer) :=
  r.map (fun pf => ({ pf.1 with transposed := false }, pf.2))

theorem finish_flag (ext : Ext) (L : Layout) (b : Bool) (f : Fixer) :
    eraseFlag (finish ext { L with transposed := b } f) = eraseFlag (finish ext L f) := by
  unfold finish eraseFlag
  simp only [bind, Except.bind]
  cases parseColumns ext L.units
      (if (fixShortRows L.rows0 (fixDuplicates L.names0 f).1.length (fixDuplicates L.names0 f).2).1.isEmpty = true
        then []
        else transposeN (fixShortRows L.rows0 (fixDuplicates L.names0 f).1.length (fixDuplicates L.names0 f).2).1
          (fixDuplicates L.names0 f).1.length)
      (fixShortRows L.rows0 (fixDuplicates L.names0 f).1.length (fixDuplicates L.names0 f).2).2 with
  | error e => rfl
  | ok r =>
    simp only []
    split <;> rfl

theorem makePrecursor_flag (ext : Ext) (g g' : List Row) (L : Layout) (b : Bool) (f : Fixer)
    (h : layout g = .ok { L with transposed := b }) (h' : layout g' = .ok L) :
    eraseFlag (makePrecursor ext g f) = eraseFlag (makePrecursor ext g' f) := by
  unfold makePrecursor
  rw [h, h']
  exact finish_flag ext L b f

theorem makeTable_flag (ext : Ext) (g g' : List Row) (f : Fixer)
    (h : eraseFlag (makePrecursor ext g f) = eraseFlag (makePrecursor ext g' f)) :
    eraseFlag (makeTable ext g f) = eraseFlag (makeTable ext g' f) := by
  unfold makeTable
  cases h1 : makePrecursor ext g f with
  | error e =>
    cases h2 : makePrecursor ext g' f with
    | error e' => rw [h1, h2] at h; simpa [eraseFlag, Except.map, bind, Except.bind] using h
    | ok r => rw [h1, h2] at h; simp [eraseFlag, Except.map] at h
  | ok r =>
    obtain ⟨p, f1⟩ := r
    cases h2 : makePrecursor ext g' f with
    | error e' => rw [h1, h2] at h; simp [eraseFlag, Except.map] at h
    | ok r' =>
      obtain ⟨q, f2⟩ := r'
      rw [h1, h2] at h
      simp only [eraseFlag, Except.map, Except.ok.injEq, Prod.mk.injEq] at h
      obtain ⟨hpq, rfl⟩ := h
      have hcols : p.columns = q.columns := by
        have := congrArg Precursor.columns hpq; simpa using this
      simp only [bind, Except.bind, hcols]
      cases q.columns with
      | nil => simp [eraseFlag, Except.map, pure, Except.pure, hpq]
      | cons c cs =>
        simp only []
        split
        · rfl
        · split
          · rfl
          · simp [eraseFlag, Except.map, pure, Except.pure, hpq]

/-- **C10, row-wise text**: every row-wise variant of a well-formed table reads as the same table as the plain
    row-wise text — same precursor (jsondata), same Table (pdtable), same fixer state — for every `ext`, every fixer -/
theorem rowwise_variant_same_table (t : TV) (hwf : t.wf = true) (g : List Row) (h : RVariant t g)
    (ext : Ext) (f : Fixer) :
    makeTable ext g f = makeTable ext (layoutR t) f ∧
    makePrecursor ext g f = makePrecursor ext (layoutR t) f := by
  have h1 := rvariant_layout t hwf g h
  have h2 := rvariant_layout t hwf _ (rvariant_plain t hwf)
  simp [makeTable, makePrecursor, h1, h2]

/-- **C10, transposed text**: every transposed variant of a table that is well formed in both layouts reads as
    the same table as the plain row-wise text, apart from the transposed flag -/
theorem transposed_variant_same_table (t : TV) (hwf : t.wf = true) (hwfT : t.wfT = true) (g : List Row)
    (h : TVariant t g) (ext : Ext) (f : Fixer) :
    eraseFlag (makeTable ext g f) = eraseFlag (makeTable ext (layoutR t) f) ∧
    eraseFlag (makePrecursor ext g f) = eraseFlag (makePrecursor ext (layoutR t) f) := by
  have h1 := tvariant_layout t hwf hwfT g h
  have h2 := rvariant_layout t hwf _ (rvariant_plain t hwf)
  have hp := makePrecursor_flag ext g (layoutR t) (specLayout t false) true f h1 h2
  exact ⟨makeTable_flag ext g (layoutR t) f hp, hp⟩

/-- the composite statement for the row-wise text: header blanks, then comments, then trailing cells (any other
    order and any repetition follows in the same way from the `*_rvariant` lemmas) -/
theorem rewrites_rowwise (t : TV) (hwf : t.wf = true) (fn fu : Nat → Str × Str) (hn : Blanks fn) (hu : Blanks fu)
    (b : Cell) (cs : List Cell) (hb : b.isBlank = true) (pads : List (List Cell))
    (hp : ∀ p ∈ pads, allBlank p = true) (ext : Ext) (f : Fixer) :
    makeTable ext (padTrailing (addComments b cs (padHeaderR fn fu (layoutR t))) pads) f =
      makeTable ext (layoutR t) f :=
  (rowwise_variant_same_table t hwf _
    (padTrailing_rvariant t _ (addComments_rvariant t _ (padHeaderR_rvariant t _ (rvariant_plain t hwf) fn fu hn hu)
      b cs hb) pads hp) ext f).1

/-- the composite statement for the orientation rewrite followed by header blanks and trailing cells -/
theorem rewrites_transposed (t : TV) (hwf : t.wf = true) (hwfT : t.wfT = true) (fn fu : Nat → Str × Str)
    (hn : Blanks fn) (hu : Blanks fu) (pads : List (List Cell)) (hp : ∀ p ∈ pads, allBlank p = true)
    (ext : Ext) (f : Fixer) :
    eraseFlag (makeTable ext (padTrailing (padHeaderT fn fu (toTransposed (layoutR t))) pads) f) =
      eraseFlag (makeTable ext (layoutR t) f) := by
  rw [toTransposed_layoutR t hwf]
  exact (transposed_variant_same_table t hwf hwfT _
    (padTrailing_tvariant t _ (padHeaderT_tvariant t _ (tvariant_plain t hwf) fn fu hn hu) pads hp) ext f).1

/-! ## 9. how the block ends does not matter

  Whatever follows the block in the row stream — nothing, a blank line, the start of another block — the splitter
  delivers the same TABLE block (same cells, same origin row), hence the same table.  The grid must be one block
  for the splitter (`blockShaped`: a `**` first cell, then only rows whose first cell is neither blank nor a
  marker); DESIGN §3 clauses 1-5 make every variant of a well-formed table such a grid. -/

section
variable {R : Type} (kindOf : R → Kind)

theorem go_append (i : Nat) (s : St R) (p q : List R) :
    go kindOf i s (p ++ q) =
      (emitted kindOf i s p).1 ++ go kindOf (i + p.length) (emitted kindOf i s p).2 q := by
  induction p generalizing i s with
  | nil => simp [emitted]
  | cons r rs ih => simp [go, emitted, ih, Nat.add_assoc, Nat.add_comm 1]

theorem go_plain (i : Nat) (s : St R) (body post : List R) (hb : ∀ r ∈ body, kindOf r = .plain) :
    go kindOf i s (body ++ post) = go kindOf (i + body.length) { s with grid := s.grid ++ body } post := by
  induction body generalizing i s with
  | nil => simp
  | cons r rs ih =>
    have hr := hb r (by simp)
    simp only [List.cons_append, go, step, hr, List.nil_append]
    rw [ih _ _ (fun x hx => hb x (List.mem_cons_of_mem _ hx))]
    simp [Nat.add_assoc, Nat.add_comm 1]

theorem step_ends_table (grid : List R) (first i : Nat) (r : R) (hk : kindOf r ≠ .plain) :
    (step kindOf ⟨grid, .table, first⟩ i r).2 = emit ⟨grid, .table, first⟩ := by
  unfold step switch
  cases h : kindOf r <;> simp_all

/-- a TABLE block followed by nothing or by a row that is not a plain continuation row is delivered whole -/
theorem table_block_delivered (pre : List R) (h : R) (body post : List R) (hh : kindOf h = .tbl)
    (hb : ∀ r ∈ body, kindOf r = .plain)
    (hpost : post = [] ∨ ∃ r rest, post = r :: rest ∧ kindOf r ≠ .plain) :
    (⟨.table, h :: body, pre.length⟩ : Block R) ∈ run kindOf (pre ++ (h :: body) ++ post) := by
  unfold run
  rw [List.append_assoc, go_append]
  apply List.mem_append_right
  simp only [List.cons_append, go, Nat.zero_add]
  apply List.mem_append_right
  have hs : (step kindOf (emitted kindOf 0 initSt pre).2 pre.length h).1 = ⟨[h], .table, pre.length⟩ := by
    simp [step, switch, hh]
  rw [hs, go_plain kindOf _ _ body post hb]
  rcases hpost with rfl | ⟨r, rest, rfl, hr⟩
  · simp [go, emit]
  · simp only [go, List.singleton_append]
    apply List.mem_append_left
    rw [step_ends_table kindOf _ _ _ r hr]
    simp [emit]

end

theorem blockShaped_unpack (g : List Row) (h : blockShaped g = true) :
    ∃ hd body, g = hd :: body ∧ rowKind hd = .tbl ∧ ∀ r ∈ body, rowKind r = .plain := by
  cases g with
  | nil => simp [blockShaped] at h
  | cons hd body =>
    simp only [blockShaped, Bool.and_eq_true, beq_iff_eq, List.all_eq_true] at h
    exact ⟨hd, body, rfl, h.1, h.2⟩

/-- **termination independence**: ended by end of input, by a blank line, or directly by the start of another
    block, the splitter delivers the very same TABLE block — the grid `g` at origin row `pre.length` — so the table
    parsed from it is the same -/
theorem termination_independent (pre g : List Row) (hg : blockShaped g = true) (e : EndBy) (he : e.ok = true) :
    (⟨.table, g, pre.length⟩ : Block Row) ∈ segment (pre ++ endBy g e) := by
  obtain ⟨hd, body, rfl, hh, hb⟩ := blockShaped_unpack g hg
  unfold segment
  cases e with
  | eof =>
    have := table_block_delivered rowKind pre hd body [] hh hb (Or.inl rfl)
    simpa [endBy] using this
  | blankLine b rest =>
    have hk : rowKind b ≠ .plain := by
      intro hk; simp [EndBy.ok, hk, Kind.isBlank] at he
    have := table_block_delivered rowKind pre hd body (b :: rest) hh hb (Or.inr ⟨b, rest, rfl, hk⟩)
    simpa [endBy] using this
  | nextBlock m rest =>
    have hk : rowKind m ≠ .plain := by
      intro hk; simp [EndBy.ok, hk] at he
    have := table_block_delivered rowKind pre hd body (m :: rest) hh hb (Or.inr ⟨m, rest, rfl, hk⟩)
    simpa [endBy] using this

/-- appending cells to lines and adding comments do not touch first cells: the grid stays one block -/
theorem rowKind_append (r p : Row) (h : rowKind r = .tbl ∨ rowKind r = .plain) : rowKind (r ++ p) = rowKind r := by
  cases r with
  | nil => rcases h with h | h <;> simp [rowKind] at h
  | cons c cs =>
    simp only [List.cons_append, rowKind] at h ⊢
    by_cases hc : c.isBlank = true
    · simp [hc] at h
    · simp [hc]

theorem blockShaped_padTrailing (g : List Row) (pads : List (List Cell)) (h : blockShaped g = true) :
    blockShaped (padTrailing g pads) = true := by
  obtain ⟨hd, body, rfl, hh, hb⟩ := blockShaped_unpack g h
  have key : ∀ (rows : List Row) (ps : List (List Cell)), (∀ r ∈ rows, rowKind r = .plain) →
      ∀ r ∈ padTrailing rows ps, rowKind r = .plain := by
    intro rows
    induction rows with
    | nil => intro ps _ r hr; cases ps <;> simp [padTrailing] at hr
    | cons x xs ih =>
      intro ps hx r hr
      cases ps with
      | nil => exact hx r (by simpa [padTrailing] using hr)
      | cons q qs =>
        simp only [padTrailing, List.mem_cons] at hr
        rcases hr with rfl | hr
        · rw [rowKind_append x q (Or.inr (hx x (by simp)))]; exact hx x (by simp)
        · exact ih qs (fun y hy => hx y (List.mem_cons_of_mem _ hy)) r hr
  cases pads with
  | nil => simpa [padTrailing] using h
  | cons p ps =>
    simp only [padTrailing, blockShaped, Bool.and_eq_true, beq_iff_eq, List.all_eq_true]
    exact ⟨by rw [rowKind_append hd p (Or.inl hh)]; exact hh, key body ps hb⟩

theorem blockShaped_addComments (g : List Row) (b : Cell) (cs : List Cell) (h : blockShaped g = true) :
    blockShaped (addComments b cs g) = true := by
  match g, h with
  | [], h => exact h
  | [_], h => exact h
  | [_, _], h => exact h
  | hd :: d :: ns :: rest, h =>
    simp only [addComments, blockShaped, Bool.and_eq_true, beq_iff_eq, List.all_cons, List.all_eq_true] at h ⊢
    refine ⟨h.1, h.2.1, ?_, h.2.2.2⟩
    rw [rowKind_append ns (b :: cs) (Or.inr h.2.2.1)]
    exact h.2.2.1

/-! ## 11. header blanks keep the grid one block: a padded cell that is not a marker stays not a marker -/

theorem space_ne (c : Char) (h : isSpace c = true) : c ≠ '*' ∧ c ≠ ':' := by
  constructor <;> (intro e; subst e; revert h; decide)

theorem leading_append_right (x : Char) (s r : Str) (hr : ∀ c ∈ r, c ≠ x) : leading x (s ++ r) = leading x s := by
  induction s with
  | nil =>
    cases r with
    | nil => rfl
    | cons c cs => simp [leading, hr c (by simp)]
  | cons c cs ih =>
    simp only [List.cons_append, leading, ih]

theorem leading_le_length (x : Char) (s : Str) : leading x s ≤ s.length := by
  induction s with
  | nil => simp [leading]
  | cons c cs ih => simp only [leading]; split <;> simp <;> omega

theorem dropWhile_ne_nil (s : Str) (h : ':' ∉ s) : s.dropWhile (· != ':') = [] := by
  induction s with
  | nil => rfl
  | cons c cs ih =>
    have hc : c ≠ ':' := fun e => h (by simp [e])
    have hcs : ':' ∉ cs := fun e => h (List.mem_cons_of_mem _ e)
    simp [List.dropWhile_cons, hc, ih hcs]

/-- splitting at the first colon -/
theorem split_colon (s : Str) : (':' ∉ s ∧ s.dropWhile (· != ':') = []) ∨
    ∃ b w, s = b ++ ':' :: w ∧ ':' ∉ b := by
  by_cases h : ':' ∈ s
  · right
    have hsplit : s = s.takeWhile (· != ':') ++ s.dropWhile (· != ':') := (List.takeWhile_append_dropWhile).symm
    cases hd : s.dropWhile (· != ':') with
    | nil =>
      exfalso
      rw [hd, List.append_nil] at hsplit
      have := not_mem_takeWhile_ne ':' s
      rw [← hsplit] at this
      exact this h
    | cons x ws =>
      have hx := dropWhile_ne_head ':' s x ws hd
      subst hx
      exact ⟨s.takeWhile (· != ':'), ws, by rw [← hd]; exact hsplit, not_mem_takeWhile_ne ':' s⟩
  · left
    exact ⟨h, dropWhile_ne_nil s h⟩

theorem isMetaKey_split (b w : Str) (hb : ':' ∉ b) :
    isMetaKey (b ++ ':' :: w) = (!b.isEmpty && w.all isSpace) := by
  have := takeWhile_ne_append ':' b w hb
  unfold isMetaKey
  simp only [this.1, this.2]

theorem isMetaKey_nocolon (s : Str) (h : ':' ∉ s) : isMetaKey s = false := by
  have : s.dropWhile (· != ':') = [] := dropWhile_ne_nil s h
  unfold isMetaKey
  simp [this]

/-- blanks after a cell do not change what kind of marker it is -/
theorem classify_pad_right (s r : Str) (hr : allSpace r = true) : classify (s ++ r) = classify s := by
  have hr' : ∀ c ∈ r, isSpace c = true := by simpa [allSpace, List.all_eq_true] using hr
  have hstar : ∀ c ∈ r, c ≠ '*' := fun c hc => (space_ne c (hr' c hc)).1
  have hcol : ∀ c ∈ r, c ≠ ':' := fun c hc => (space_ne c (hr' c hc)).2
  have hcolr : ':' ∉ r := fun h => hcol ':' h rfl
  have hT : isTemplate (s ++ r) = isTemplate s := by
    unfold isTemplate
    simp only [leading_append_right ':' s r hcol]
    rw [List.drop_append_of_le_length (leading_le_length ':' s)]
    simp [List.contains_append, hcolr]
  have hM : isMetaKey (s ++ r) = isMetaKey s := by
    rcases split_colon s with ⟨hn, _⟩ | ⟨b, w, rfl, hb⟩
    · rw [isMetaKey_nocolon s hn, isMetaKey_nocolon (s ++ r) (by simp [hn, hcolr])]
    · rw [List.append_assoc, List.cons_append, isMetaKey_split b (w ++ r) hb, isMetaKey_split b w hb]
      have hra : r.all isSpace = true := hr
      simp [List.all_append, hra]
  unfold classify classifyColon
  simp only [leading_append_right '*' s r hstar, hT, hM]

/-- blanks before a cell that is not a marker do not make it one -/
theorem classify_pad_left (l x : Str) (hl : allSpace l = true) (hx : classify x = none) : classify (l ++ x) = none := by
  cases l with
  | nil => exact hx
  | cons c0 l' =>
    have hl' : ∀ c ∈ c0 :: l', isSpace c = true := by simpa [allSpace, List.all_eq_true] using hl
    have h0 := space_ne c0 (hl' c0 (by simp))
    have hcoll : ':' ∉ c0 :: l' := fun h => (space_ne ':' (hl' ':' h)).2 rfl
    have hxc : isTemplate x = false ∧ isMetaKey x = false := by
      unfold classify classifyColon at hx
      by_cases h2 : leading '*' x = 2
      · simp [h2] at hx
      · by_cases h3 : leading '*' x = 3
        · simp [h3] at hx
        · simp only [h2, h3, if_false] at hx
          cases hT : isTemplate x <;> cases hM : isMetaKey x <;> simp_all
    have hM : isMetaKey (c0 :: l' ++ x) = false := by
      rcases split_colon x with ⟨hn, _⟩ | ⟨b, w, rfl, hb⟩
      · exact isMetaKey_nocolon _ (by simp [hn]; exact ⟨fun e => h0.2 e.symm, fun h => hcoll (List.mem_cons_of_mem _ h)⟩)
      · rw [← List.append_assoc, isMetaKey_split (c0 :: l' ++ b) w (by
          intro h; rcases List.mem_append.1 h with h | h
          · exact hcoll h
          · exact hb h)]
        simp only [List.cons_append, List.isEmpty_cons, Bool.not_false, Bool.true_and]
        cases hw : w.all isSpace with
        | false => rfl
        | true =>
          exfalso
          cases b with
          | nil =>
            -- x = ":" ++ blanks is a template marker
            have hwc : ':' ∉ w := fun h => (space_ne ':' (by simpa [List.all_eq_true] using (List.all_eq_true.1 hw) ':' h)).2 rfl
            have : isTemplate (':' :: w) = true := by
              have hlead : leading ':' w = 0 := by
                cases w with
                | nil => rfl
                | cons y ys =>
                  have : y ≠ ':' := fun e => hwc (by simp [e])
                  simp [leading, this]
              simp [isTemplate, leading, hlead, hwc]
            simp at hxc
            rw [this] at hxc
            exact absurd hxc.1 (by simp)
          | cons y ys =>
            have := isMetaKey_split (y :: ys) w hb
            rw [hxc.2] at this
            simp [hw] at this
    unfold classify classifyColon
    have hs : leading '*' (c0 :: l' ++ x) = 0 := by simp [leading, h0.1]
    have hT : isTemplate (c0 :: l' ++ x) = false := by simp [isTemplate, leading, h0.2]
    simp only [List.cons_append] at hs hT hM ⊢
    simp [hs, hT, hM]

theorem classify_pad (l s r : Str) (hl : allSpace l = true) (hr : allSpace r = true) (hs : classify s = none) :
    classify (l ++ s ++ r) = none := by
  rw [List.append_assoc]
  exact classify_pad_left l (s ++ r) hl (by rw [classify_pad_right s r hr]; exact hs)


/-- a row that continues a block still does so when its first cell is surrounded by blanks -/
theorem rowKind_padCell (lr : Str × Str) (c : Cell) (rest rest' : Row) (hl : allSpace lr.1 = true)
    (hr : allSpace lr.2 = true) (h : rowKind (c :: rest) = .plain) : rowKind (padCell lr c :: rest') = .plain := by
  cases c with
  | str s =>
    have hb : (Cell.str s).isBlank = false := by
      cases hb : (Cell.str s).isBlank with
      | false => rfl
      | true => simp [rowKind, hb] at h
    have hcl : classify s = none := by
      simp only [rowKind, hb, Bool.false_eq_true, if_false] at h
      cases hc : classify s with
      | none => rfl
      | some m => rw [hc] at h; cases m <;> simp at h
    have hb' : (Cell.str (lr.1 ++ s ++ lr.2)).isBlank = false := by rw [isBlank_pad _ _ _ hl hr]; exact hb
    simp only [padCell, rowKind, hb', Bool.false_eq_true, if_false, classify_pad _ _ _ hl hr hcl]
  | none => simp [rowKind, Cell.isBlank] at h
  | int i t => simp [padCell, rowKind, Cell.isBlank]
  | float t => simp [padCell, rowKind, Cell.isBlank]
  | bool b => simp [padCell, rowKind, Cell.isBlank]
  | dt t => simp [padCell, rowKind, Cell.isBlank]
  | other t => simp [padCell, rowKind, Cell.isBlank]

theorem rowKind_padCells (f : Nat → Str × Str) (hf : Blanks f) (k : Nat) (r : Row) (h : rowKind r = .plain) :
    rowKind (padCells f k r) = .plain := by
  cases r with
  | nil => simp [rowKind] at h
  | cons c cs => exact rowKind_padCell (f k) c cs _ (hf k).1 (hf k).2 h

theorem blockShaped_padHeaderR (g : List Row) (fn fu : Nat → Str × Str) (hn : Blanks fn) (hu : Blanks fu)
    (h : blockShaped g = true) : blockShaped (padHeaderR fn fu g) = true := by
  match g, h with
  | [], h => exact h
  | [_], h => exact h
  | [_, _], h => exact h
  | [_, _, _], h => exact h
  | hd :: d :: ns :: us :: rest, h =>
    simp only [padHeaderR, blockShaped, Bool.and_eq_true, beq_iff_eq, List.all_cons, List.all_eq_true] at h ⊢
    exact ⟨h.1, h.2.1, rowKind_padCells fn hn 0 ns h.2.2.1, rowKind_padCells fu hu 0 us h.2.2.2.1, h.2.2.2.2⟩

theorem plain_padLines (fn fu : Nat → Str × Str) (hn : Blanks fn) (hu : Blanks fu) (k : Nat) (lines : List Row)
    (h : ∀ r ∈ lines, rowKind r = .plain) : ∀ r ∈ padLines fn fu k lines, rowKind r = .plain := by
  induction lines generalizing k with
  | nil => intro r hr; simp [padLines] at hr
  | cons l ls ih =>
    intro r hr
    have hl := h l (by simp)
    have hls := ih (k + 1) (fun x hx => h x (List.mem_cons_of_mem _ hx))
    match l, hl with
    | [], hl => simp [rowKind] at hl
    | [c], hl =>
      simp only [padLines, List.mem_cons] at hr
      rcases hr with rfl | hr
      · exact hl
      · exact hls r hr
    | n :: u :: vs, hl =>
      simp only [padLines, List.mem_cons] at hr
      rcases hr with rfl | hr
      · exact rowKind_padCell (fn k) n (u :: vs) _ (hn k).1 (hn k).2 hl
      · exact hls r hr

theorem blockShaped_padHeaderT (g : List Row) (fn fu : Nat → Str × Str) (hn : Blanks fn) (hu : Blanks fu)
    (h : blockShaped g = true) : blockShaped (padHeaderT fn fu g) = true := by
  match g, h with
  | [], h => exact h
  | [_], h => exact h
  | hd :: d :: lines, h =>
    simp only [padHeaderT, blockShaped, Bool.and_eq_true, beq_iff_eq, List.all_cons, List.all_eq_true] at h ⊢
    exact ⟨h.1, h.2.1, plain_padLines fn fu hn hu 0 lines h.2.2⟩

/-- **C10 for a row stream, row-wise text**: for a table whose plain row-wise text is one block for the splitter,
    after any of header blanks / comments / trailing cells, and ended in any of the three ways, the splitter still
    delivers the rewritten grid as one TABLE block at the same origin row — and that grid reads as the same table -/
theorem stream_rowwise (t : TV) (hwf : t.wf = true) (hbs : blockShaped (layoutR t) = true)
    (fn fu : Nat → Str × Str) (hn : Blanks fn) (hu : Blanks fu) (b : Cell) (cs : List Cell) (hb : b.isBlank = true)
    (pads : List (List Cell)) (hp : ∀ p ∈ pads, allBlank p = true) (pre : List Row) (e : EndBy) (he : e.ok = true)
    (ext : Ext) (f : Fixer) :
    let g := padTrailing (addComments b cs (padHeaderR fn fu (layoutR t))) pads
    (⟨.table, g, pre.length⟩ : Block Row) ∈ segment (pre ++ endBy g e) ∧
    makeTable ext g f = makeTable ext (layoutR t) f := by
  intro g
  exact ⟨termination_independent pre g
      (blockShaped_padTrailing _ pads (blockShaped_addComments _ b cs (blockShaped_padHeaderR _ fn fu hn hu hbs))) e he,
    rewrites_rowwise t hwf fn fu hn hu b cs hb pads hp ext f⟩

/-- **C10 for a row stream, transposed text** -/
theorem stream_transposed (t : TV) (hwf : t.wf = true) (hwfT : t.wfT = true) (hbs : blockShaped (layoutT t) = true)
    (fn fu : Nat → Str × Str) (hn : Blanks fn) (hu : Blanks fu)
    (pads : List (List Cell)) (hp : ∀ p ∈ pads, allBlank p = true) (pre : List Row) (e : EndBy) (he : e.ok = true)
    (ext : Ext) (f : Fixer) :
    let g := padTrailing (padHeaderT fn fu (toTransposed (layoutR t))) pads
    (⟨.table, g, pre.length⟩ : Block Row) ∈ segment (pre ++ endBy g e) ∧
    eraseFlag (makeTable ext g f) = eraseFlag (makeTable ext (layoutR t) f) := by
  intro g
  refine ⟨termination_independent pre g ?_ e he, rewrites_transposed t hwf hwfT fn fu hn hu pads hp ext f⟩
  show blockShaped (padTrailing (padHeaderT fn fu (toTransposed (layoutR t))) pads) = true
  rw [toTransposed_layoutR t hwf]
  exact blockShaped_padTrailing _ pads (blockShaped_padHeaderT _ fn fu hn hu hbs)

/-! ## 12. every sequence of rewrites; tables without columns -/

/-- side conditions under which a rewrite is one of the five families applied to a row-wise text -/
def OkR : Rewrite → Prop
  | .padTrailing pads => ∀ p ∈ pads, allBlank p = true
  | .padHeaderR fn fu => Blanks fn ∧ Blanks fu
  | .padHeaderT _ _ => False
  | .addComments b _ => b.isBlank = true

/-- … applied to a transposed text (no column-name row, hence no comments) -/
def OkT : Rewrite → Prop
  | .padTrailing pads => ∀ p ∈ pads, allBlank p = true
  | .padHeaderT fn fu => Blanks fn ∧ Blanks fu
  | .padHeaderR _ _ => False
  | .addComments _ _ => False

theorem apply_rvariant (t : TV) (g : List Row) (h : RVariant t g) (r : Rewrite) (hr : OkR r) :
    RVariant t (r.apply g) := by
  cases r with
  | padTrailing pads => exact padTrailing_rvariant t g h pads hr
  | padHeaderR fn fu => exact padHeaderR_rvariant t g h fn fu hr.1 hr.2
  | padHeaderT fn fu => exact hr.elim
  | addComments b cs => exact addComments_rvariant t g h b cs hr

theorem apply_tvariant (t : TV) (g : List Row) (h : TVariant t g) (r : Rewrite) (hr : OkT r) :
    TVariant t (r.apply g) := by
  cases r with
  | padTrailing pads => exact padTrailing_tvariant t g h pads hr
  | padHeaderT fn fu => exact padHeaderT_tvariant t g h fn fu hr.1 hr.2
  | padHeaderR fn fu => exact hr.elim
  | addComments b cs => exact hr.elim

/-- **every composition, row-wise**: any sequence of trailing cells / header blanks / comments, in any order and
    with any repetition, maps row-wise variants to row-wise variants -/
theorem applyAll_rvariant (t : TV) (rs : List Rewrite) (g : List Row) (h : RVariant t g) (hok : ∀ r ∈ rs, OkR r) :
    RVariant t (applyAll rs g) := by
  induction rs generalizing g with
  | nil => exact h
  | cons r rs ih =>
    exact ih (r.apply g) (apply_rvariant t g h r (hok r (by simp))) (fun x hx => hok x (List.mem_cons_of_mem _ hx))

/-- **every composition, transposed** -/
theorem applyAll_tvariant (t : TV) (rs : List Rewrite) (g : List Row) (h : TVariant t g) (hok : ∀ r ∈ rs, OkT r) :
    TVariant t (applyAll rs g) := by
  induction rs generalizing g with
  | nil => exact h
  | cons r rs ih =>
    exact ih (r.apply g) (apply_tvariant t g h r (hok r (by simp))) (fun x hx => hok x (List.mem_cons_of_mem _ hx))

theorem apply_blockShaped (g : List Row) (r : Rewrite) (hr : OkR r ∨ OkT r) (h : blockShaped g = true) :
    blockShaped (r.apply g) = true := by
  cases r with
  | padTrailing pads => exact blockShaped_padTrailing g pads h
  | padHeaderR fn fu =>
    rcases hr with hr | hr
    · exact blockShaped_padHeaderR g fn fu hr.1 hr.2 h
    · exact hr.elim
  | padHeaderT fn fu =>
    rcases hr with hr | hr
    · exact hr.elim
    · exact blockShaped_padHeaderT g fn fu hr.1 hr.2 h
  | addComments b cs => exact blockShaped_addComments g b cs h

theorem applyAll_blockShaped (rs : List Rewrite) (g : List Row) (hok : ∀ r ∈ rs, OkR r ∨ OkT r)
    (h : blockShaped g = true) : blockShaped (applyAll rs g) = true := by
  induction rs generalizing g with
  | nil => exact h
  | cons r rs ih =>
    exact ih (r.apply g) (fun x hx => hok x (List.mem_cons_of_mem _ hx)) (apply_blockShaped g r (hok r (by simp)) h)

/-- **C10 for any sequence of rewrites of the row-wise text** -/
theorem rewrites_any_rowwise (t : TV) (hwf : t.wf = true) (rs : List Rewrite) (hok : ∀ r ∈ rs, OkR r)
    (ext : Ext) (f : Fixer) :
    makeTable ext (applyAll rs (layoutR t)) f = makeTable ext (layoutR t) f :=
  (rowwise_variant_same_table t hwf _ (applyAll_rvariant t rs _ (rvariant_plain t hwf) hok) ext f).1

/-- **C10 for the orientation rewrite followed by any sequence of rewrites of the transposed text** -/
theorem rewrites_any_transposed (t : TV) (hwf : t.wf = true) (hwfT : t.wfT = true) (rs : List Rewrite)
    (hok : ∀ r ∈ rs, OkT r) (ext : Ext) (f : Fixer) :
    eraseFlag (makeTable ext (applyAll rs (toTransposed (layoutR t))) f) =
      eraseFlag (makeTable ext (layoutR t) f) := by
  rw [toTransposed_layoutR t hwf]
  exact (transposed_variant_same_table t hwf hwfT _ (applyAll_tvariant t rs _ (tvariant_plain t hwf) hok) ext f).1

/-! ### tables without columns: both layouts are the two lines `**name[*]` / destinations -/

/-- the grids that spell a column-less table: its two lines, any cells appended -/
def Variant0 (t : TV) (transposed : Bool) (g : List Row) : Prop :=
  ∃ r0 r1, g = [(if transposed then headT t else headR t) :: r0, t.dest :: r1]

theorem wf0_unpack (t : TV) (h : t.wf0 = true) : t.name.getLast? ≠ some '*' ∧ t.cols = [] ∧ t.nRows = 0 := by
  simp only [TV.wf0, Bool.and_eq_true, bne_iff_ne, ne_eq, List.isEmpty_iff, beq_iff_eq] at h
  exact ⟨h.1.1, h.1.2, h.2⟩

theorem variant0_layout (t : TV) (h0 : t.wf0 = true) (b : Bool) (g : List Row) (h : Variant0 t b g) :
    layout g = .ok (specLayout t b) := by
  obtain ⟨hname, hc, hn⟩ := wf0_unpack t h0
  obtain ⟨r0, r1, rfl⟩ := h
  have hspec : specLayout t b = ⟨t.name, b, destinations t.dest, [], [], []⟩ := by
    simp [specLayout, TV.names, TV.units, TV.dataRows, hc, hn, transposeN]
  rw [hspec]
  cases b with
  | false =>
    simp [layout, tableName, headR, hname, bind, Except.bind, pure, Except.pure]
  | true =>
    simp [layout, tableName, headT, bind, Except.bind, pure, Except.pure]

theorem variant0_plainR (t : TV) (h0 : t.wf0 = true) : Variant0 t false (layoutR t) := by
  obtain ⟨_, hc, _⟩ := wf0_unpack t h0
  exact ⟨[], [], by simp [layoutR, hc]⟩

theorem variant0_plainT (t : TV) (h0 : t.wf0 = true) : Variant0 t true (layoutT t) := by
  obtain ⟨_, hc, _⟩ := wf0_unpack t h0
  exact ⟨[], [], by simp [layoutT, hc]⟩

theorem toTransposed_variant0 (t : TV) (g : List Row) (h : Variant0 t false g) :
    Variant0 t true (toTransposed g) := by
  obtain ⟨r0, r1, rfl⟩ := h
  exact ⟨r0, r1, by simp [toTransposed, headR, headT]⟩

/-- every rewrite (no side condition needed) keeps a column-less grid a column-less grid: trailing cells are
    appended to the two lines, the header rewrites find no header line to change -/
theorem apply_variant0 (t : TV) (b : Bool) (g : List Row) (h : Variant0 t b g) (r : Rewrite) :
    Variant0 t b (r.apply g) := by
  obtain ⟨r0, r1, rfl⟩ := h
  cases r with
  | padTrailing pads =>
    match pads with
    | [] => exact ⟨r0, r1, rfl⟩
    | [p0] => exact ⟨r0 ++ p0, r1, by simp [Rewrite.apply, padTrailing]⟩
    | p0 :: p1 :: ps => exact ⟨r0 ++ p0, r1 ++ p1, by cases ps <;> simp [Rewrite.apply, padTrailing]⟩
  | padHeaderR fn fu => exact ⟨r0, r1, rfl⟩
  | padHeaderT fn fu => exact ⟨r0, r1, rfl⟩
  | addComments c cs => exact ⟨r0, r1, rfl⟩

theorem applyAll_variant0 (t : TV) (b : Bool) (rs : List Rewrite) (g : List Row) (h : Variant0 t b g) :
    Variant0 t b (applyAll rs g) := by
  induction rs generalizing g with
  | nil => exact h
  | cons r rs ih => exact ih (r.apply g) (apply_variant0 t b g h r)

/-- **C10 for a table without columns**: either layout, after any sequence of rewrites, reads as the same
    (column-less) table as the plain row-wise text, apart from the transposed flag -/
theorem zero_columns_same_table (t : TV) (h0 : t.wf0 = true) (b : Bool) (g : List Row) (h : Variant0 t b g)
    (ext : Ext) (f : Fixer) :
    eraseFlag (makeTable ext g f) = eraseFlag (makeTable ext (layoutR t) f) ∧
    eraseFlag (makePrecursor ext g f) = eraseFlag (makePrecursor ext (layoutR t) f) := by
  have h1 := variant0_layout t h0 b g h
  have h2 := variant0_layout t h0 false _ (variant0_plainR t h0)
  have hp := makePrecursor_flag ext g (layoutR t) (specLayout t false) b f h1 h2
  exact ⟨makeTable_flag ext g (layoutR t) f hp, hp⟩

theorem rewrites_any_zero_columns (t : TV) (h0 : t.wf0 = true) (rsR rsT : List Rewrite) (ext : Ext) (f : Fixer) :
    makeTable ext (applyAll rsR (layoutR t)) f = makeTable ext (layoutR t) f ∧
    eraseFlag (makeTable ext (applyAll rsT (toTransposed (applyAll rsR (layoutR t)))) f) =
      eraseFlag (makeTable ext (layoutR t) f) := by
  have hR := applyAll_variant0 t false rsR _ (variant0_plainR t h0)
  refine ⟨?_, (zero_columns_same_table t h0 true _
    (applyAll_variant0 t true rsT _ (toTransposed_variant0 t _ hR)) ext f).1⟩
  have h1 := variant0_layout t h0 false _ hR
  have h2 := variant0_layout t h0 false _ (variant0_plainR t h0)
  simp [makeTable, makePrecursor, h1, h2]

/-! ## 13. the splitter and the parser together: what `parse_blocks` delivers for the rewritten stream -/

section
variable {R : Type} (kindOf : R → Kind)

/-- the blocks of `pre ++ table block ++ post` are the blocks of `pre` read alone, then the table block, then
    whatever the rest gives -/
theorem table_block_split (pre : List R) (h : R) (body post : List R) (hh : kindOf h = .tbl)
    (hb : ∀ r ∈ body, kindOf r = .plain)
    (hpost : post = [] ∨ ∃ r rest, post = r :: rest ∧ kindOf r ≠ .plain) :
    ∃ rest, run kindOf (pre ++ (h :: body) ++ post) =
      run kindOf pre ++ (⟨.table, h :: body, pre.length⟩ : Block R) :: rest := by
  unfold run
  rw [List.append_assoc, go_append, C03.go_eq_emitted kindOf 0 initSt pre]
  simp only [List.cons_append, go, Nat.zero_add]
  have hs : step kindOf (emitted kindOf 0 initSt pre).2 pre.length h =
      (⟨[h], .table, pre.length⟩, emit (emitted kindOf 0 initSt pre).2) := by
    simp [step, switch, hh]
  rw [hs]
  simp only []
  rw [go_plain kindOf _ _ body post hb]
  rcases hpost with rfl | ⟨r, rest, rfl, hr⟩
  · exact ⟨[], by simp [go, emit]⟩
  · refine ⟨go kindOf (pre.length + 1 + body.length + 1)
      (step kindOf ⟨[h] ++ body, .table, pre.length⟩ (pre.length + 1 + body.length) r).1 rest, ?_⟩
    simp only [go, step_ends_table kindOf _ _ _ r hr]
    simp [emit]

end

/-- the same for native rows and the three endings -/
theorem segment_split (pre g : List Row) (hg : blockShaped g = true) (e : EndBy) (he : e.ok = true) :
    ∃ rest, segment (pre ++ endBy g e) = segment pre ++ (⟨.table, g, pre.length⟩ : Block Row) :: rest := by
  obtain ⟨hd, body, rfl, hh, hb⟩ := blockShaped_unpack g hg
  unfold segment
  cases e with
  | eof =>
    have := table_block_split rowKind pre hd body [] hh hb (Or.inl rfl)
    simpa [endBy] using this
  | blankLine b rest =>
    have hk : rowKind b ≠ .plain := by
      intro hk; simp [EndBy.ok, hk, Kind.isBlank] at he
    have := table_block_split rowKind pre hd body (b :: rest) hh hb (Or.inr ⟨b, rest, rfl, hk⟩)
    simpa [endBy] using this
  | nextBlock m rest =>
    have hk : rowKind m ≠ .plain := by
      intro hk; simp [EndBy.ok, hk] at he
    have := table_block_split rowKind pre hd body (m :: rest) hh hb (Or.inr ⟨m, rest, rfl, hk⟩)
    simpa [endBy] using this

open Pdt.Blocks in
/-- an unfiltered read whose earlier blocks do not end it delivers block `b` with the value its handler gives
    from clean counters (the fixer's message log is irrelevant: `C11.rel_handle`) -/
theorem runBlocks_delivers (cfg : Config) (hflt : cfg.filter = none) (bs1 : List (Block Row)) (b : Block Row)
    (bs2 : List (Block Row)) (f f0 f1 : Fixer) (v : BlockVal)
    (hprev : (runBlocks cfg bs1 f).ending = .exhausted)
    (hcfg : f0.cfg = f.cfg) (hclean : f0.errors = 0 ∧ f0.warnings = 0)
    (hb : handle cfg b.ty b.rows f0 = .ok (v, f1)) :
    (⟨b.ty, b.first, v⟩ : Delivered) ∈ (runBlocks cfg (bs1 ++ b :: bs2) f).blocks := by
  have hacc : ∀ ty rows, accepts cfg ty rows = true := by intro ty rows; simp [accepts, hflt]
  induction bs1 generalizing f with
  | nil =>
    have hrel : C11.Rel f0 f.reset := ⟨hcfg, hclean.1, hclean.2⟩
    have := C11.rel_handle cfg b.ty b.rows f0 f.reset hrel
    rw [hb] at this
    simp only [List.nil_append, runBlocks, hacc, Bool.not_true, Bool.false_eq_true, if_false]
    cases hf : handle cfg b.ty b.rows f.reset with
    | error e => rw [hf] at this; exact this.elim
    | ok r =>
      obtain ⟨w, f'⟩ := r
      rw [hf] at this
      obtain ⟨rfl, _⟩ := this
      simp
  | cons x xs ih =>
    simp only [List.cons_append, runBlocks, hacc, Bool.not_true, Bool.false_eq_true, if_false] at hprev ⊢
    cases hx : handle cfg x.ty x.rows f.reset with
    | ok r =>
      obtain ⟨w, f'⟩ := r
      rw [hx] at hprev
      simp only [] at hprev ⊢
      have hf' : f'.cfg = f.cfg := C11.handle_cfg cfg x.ty x.rows f.reset w f' hx
      exact List.mem_cons_of_mem _ (ih f' hprev (by rw [hcfg, hf']))
    | error e =>
      rw [hx] at hprev
      simp only [] at hprev ⊢
      by_cases hc : caught e = true
      · simp only [hc, if_true] at hprev ⊢
        cases htr : cfg.tracker with
        | raising => rw [htr] at hprev; simp at hprev
        | collecting =>
          rw [htr] at hprev
          simp only [] at hprev ⊢
          exact ih f.reset hprev hcfg
      · simp only [hc, if_false] at hprev
        simp at hprev

open Pdt.Blocks in
/-- **splitter + parser**: for a one-block grid `g` that parses to `p`, reading `pre ++ g ++ ending` without a
    filter delivers the TABLE block `⟨pre.length, Table p⟩` — provided the rows before it do not end the read -/
theorem parse_delivers (cfg : Config) (hflt : cfg.filter = none) (hform : cfg.form = .pdtable)
    (pre g : List Row) (hg : blockShaped g = true) (e : EndBy) (he : e.ok = true) (f f0 f1 : Fixer) (p : Precursor)
    (hpre : (parseBlocks cfg pre f).ending = .exhausted)
    (hcfg : f0.cfg = f.cfg) (hclean : f0.errors = 0 ∧ f0.warnings = 0)
    (hp : makeTable cfg.ext g f0 = .ok (p, f1)) :
    (⟨.table, pre.length, .table p⟩ : Delivered) ∈ (parseBlocks cfg (pre ++ endBy g e) f).blocks := by
  obtain ⟨rest, hs⟩ := segment_split pre g hg e he
  unfold parseBlocks at hpre ⊢
  rw [hs]
  have hb : handle cfg BT.table g f0 = .ok (.table p, f1) := by
    simp [handle, hform, hp, bind, Except.bind, pure, Except.pure]
  exact runBlocks_delivers cfg hflt (segment pre) ⟨.table, g, pre.length⟩ rest f f0 f1 (.table p) hpre hcfg hclean hb

open Pdt.Blocks in
/-- **C10 end to end, row-wise text**: if the plain row-wise text parses to `p`, then after any sequence of rewrites,
    preceded by rows `pre` that read to the end, and ended in any of the three ways, `parse_blocks` delivers
    exactly `Table p` at origin row `pre.length` -/
theorem parse_rewritten_rowwise (t : TV) (hwf : t.wf = true) (hbs : blockShaped (layoutR t) = true)
    (rs : List Rewrite) (hok : ∀ r ∈ rs, OkR r) (cfg : Config) (hflt : cfg.filter = none)
    (hform : cfg.form = .pdtable) (pre : List Row) (e : EndBy) (he : e.ok = true) (f f0 f1 : Fixer) (p : Precursor)
    (hpre : (parseBlocks cfg pre f).ending = .exhausted)
    (hcfg : f0.cfg = f.cfg) (hclean : f0.errors = 0 ∧ f0.warnings = 0)
    (hp : makeTable cfg.ext (layoutR t) f0 = .ok (p, f1)) :
    (⟨.table, pre.length, .table p⟩ : Delivered) ∈
      (parseBlocks cfg (pre ++ endBy (applyAll rs (layoutR t)) e) f).blocks := by
  apply parse_delivers cfg hflt hform pre _
    (applyAll_blockShaped rs _ (fun r hr => Or.inl (hok r hr)) hbs) e he f f0 f1 p hpre hcfg hclean
  rw [rewrites_any_rowwise t hwf rs hok]
  exact hp

open Pdt.Blocks in
/-- **C10 end to end, transposed text**: the delivered table equals `p` apart from the transposed flag -/
theorem parse_rewritten_transposed (t : TV) (hwf : t.wf = true) (hwfT : t.wfT = true)
    (hbs : blockShaped (layoutT t) = true) (rs : List Rewrite) (hok : ∀ r ∈ rs, OkT r) (cfg : Config)
    (hflt : cfg.filter = none) (hform : cfg.form = .pdtable) (pre : List Row) (e : EndBy) (he : e.ok = true)
    (f f0 f1 : Fixer) (p : Precursor)
    (hpre : (parseBlocks cfg pre f).ending = .exhausted)
    (hcfg : f0.cfg = f.cfg) (hclean : f0.errors = 0 ∧ f0.warnings = 0)
    (hp : makeTable cfg.ext (layoutR t) f0 = .ok (p, f1)) :
    ∃ p', (⟨.table, pre.length, .table p'⟩ : Delivered) ∈
        (parseBlocks cfg (pre ++ endBy (applyAll rs (toTransposed (layoutR t))) e) f).blocks ∧
      { p' with transposed := false } = { p with transposed := false } := by
  have hflag := rewrites_any_transposed t hwf hwfT rs hok cfg.ext f0
  rw [hp] at hflag
  cases hq : makeTable cfg.ext (applyAll rs (toTransposed (layoutR t))) f0 with
  | error e' => rw [hq] at hflag; simp [eraseFlag, Except.map] at hflag
  | ok r =>
    obtain ⟨p', f1'⟩ := r
    rw [hq] at hflag
    simp only [eraseFlag, Except.map, Except.ok.injEq, Prod.mk.injEq] at hflag
    refine ⟨p', ?_, hflag.1⟩
    have hbs' : blockShaped (applyAll rs (toTransposed (layoutR t))) = true := by
      rw [toTransposed_layoutR t hwf]
      exact applyAll_blockShaped rs _ (fun r hr => Or.inr (hok r hr)) hbs
    exact parse_delivers cfg hflt hform pre _ hbs' e he f f0 f1' p' hpre hcfg hclean hq

/-! ## 14. non-vacuity, and why the orientation rewrite needs well-formedness in both layouts -/

def exT : TV := ⟨"t".toList, .str "all".toList,
  [⟨"b".toList, "m".toList, [.str "1.5".toList, .str " NaN ".toList]⟩,
   ⟨"a".toList, "text".toList, [.str "x".toList, .str "".toList]⟩,
   ⟨"c".toList, "onoff".toList, [.str "TRUE".toList, .int 0 "0.0".toList]⟩], 2⟩

def exPad : Nat → Str × Str := fun k => if k % 2 = 0 then (" ".toList, "\t ".toList) else ([], "  ".toList)

theorem exPad_blanks : Blanks exPad := by
  intro k
  unfold exPad
  split <;> exact ⟨by decide, by decide⟩

def exFixer : Fixer := ⟨FixCfg.strict, 0, 0, []⟩

/-- the hypotheses of the theorems hold for a three-column table (numeric with a marker, text with an empty cell,
    onoff with a native cell) -/
example : exT.wf = true ∧ exT.wfT = true := by decide
example : blockShaped (layoutR exT) = true ∧ blockShaped (layoutT exT) = true := by decide
example : allBlank [.str "".toList, .none, .str " ".toList] = true := by decide
example : EndBy.ok (.blankLine [] []) = true ∧ EndBy.ok (.blankLine [.str "".toList, .str "x".toList] []) = true ∧
    EndBy.ok (.nextBlock [.str "**next".toList] []) = true ∧ EndBy.ok .eof = true := by decide

/-- … and the plain text parses (so the equalities are between successful reads) -/
example : (makeTable C02.exampleExt (layoutR exT) exFixer).toOption.map (fun r => (r.1.names, r.1.columns)) =
    some (["b".toList, "a".toList, "c".toList],
          [.num ["1.5".toList, NaN], .text ["x".toList, []], .onoff [true, false]]) := by decide

/-- a fully rewritten transposed text, evaluated: same names and columns -/
example : (makeTable C02.exampleExt
      (padTrailing (padHeaderT exPad exPad (toTransposed (layoutR exT)))
        [[.str "".toList], [], [.str "".toList, .none], [], [.str " ".toList]]) exFixer).toOption.map
      (fun r => (r.1.names, r.1.columns, r.1.transposed)) =
    some (["b".toList, "a".toList, "c".toList],
          [.num ["1.5".toList, NaN], .text ["x".toList, []], .onoff [true, false]], true) := by decide

/-- a table that is well formed row-wise only: its second value row is entirely blank -/
def exRowwiseOnly : TV := ⟨"t".toList, .str "all".toList,
  [⟨"a".toList, "text".toList, [.str "x".toList, .str "".toList, .str "y".toList]⟩], 3⟩

example : exRowwiseOnly.wf = true ∧ exRowwiseOnly.wfT = false := by decide

/-- … and laid out transposed it reads as a different table (the reader stops at the blank row): the hypothesis
    `wfT` of the orientation theorem cannot be dropped -/
example :
    (makeTable C02.exampleExt (layoutR exRowwiseOnly) exFixer).toOption.map (·.1.columns) =
      some [.text ["x".toList, [], "y".toList]] ∧
    (makeTable C02.exampleExt (layoutT exRowwiseOnly) exFixer).toOption.map (·.1.columns) =
      some [.text ["x".toList]] := by decide

/-- a table without columns: hypotheses hold, both layouts are one block, and it parses -/
def exZero : TV := ⟨"z".toList, .str "all".toList, [], 0⟩

example : exZero.wf0 = true ∧ blockShaped (layoutR exZero) = true ∧ blockShaped (layoutT exZero) = true := by decide

example : (makeTable C02.exampleExt (toTransposed (layoutR exZero)) exFixer).toOption.map
    (fun r => (r.1.names, r.1.columns, r.1.transposed)) = some ([], [], true) := by decide

/-- a sequence of rewrites in "another order", with repetition, satisfying the side conditions -/
def exRewritesR : List Rewrite :=
  [.padTrailing [[.str []]], .padHeaderR exPad exPad, .addComments (.str []) [.str "c".toList],
   .padTrailing [[], [], [.none]], .padHeaderR exPad exPad, .addComments .none []]

theorem exRewritesR_ok : ∀ r ∈ exRewritesR, OkR r := by
  intro r hr
  simp only [exRewritesR, List.mem_cons, List.mem_nil_iff, or_false] at hr
  rcases hr with rfl | rfl | rfl | rfl | rfl | rfl
  · intro p hp; simp at hp; subst hp; decide
  · exact ⟨exPad_blanks, exPad_blanks⟩
  · show (Cell.str []).isBlank = true; decide
  · intro p hp; simp at hp; rcases hp with rfl | rfl <;> decide
  · exact ⟨exPad_blanks, exPad_blanks⟩
  · show Cell.none.isBlank = true; decide

def exRewritesT : List Rewrite := [.padHeaderT exPad exPad, .padTrailing [[], [], [.str []]], .padHeaderT exPad exPad]

theorem exRewritesT_ok : ∀ r ∈ exRewritesT, OkT r := by
  intro r hr
  simp only [exRewritesT, List.mem_cons, List.mem_nil_iff, or_false] at hr
  rcases hr with rfl | rfl | rfl
  · exact ⟨exPad_blanks, exPad_blanks⟩
  · intro p hp; simp at hp; rcases hp with rfl | rfl <;> decide
  · exact ⟨exPad_blanks, exPad_blanks⟩

/-- the hypotheses of `parse_rewritten_rowwise` are satisfiable: rows before the table that read to the end, a
    plain text that parses from clean counters -/
def exCfg : Blocks.Config := ⟨.pdtable, none, .raising, C02.exampleExt⟩
def exPre : List Row := [[.str "author:".toList, .str "x".toList], []]

example : C11.Ending.isExhausted (Blocks.parseBlocks exCfg exPre exFixer).ending = true := by decide
example : (makeTable exCfg.ext (layoutR exT) exFixer).toOption.isSome = true := by decide

/-- … and the conclusion, evaluated on the rewritten stream ended by the next block -/
example : ((Blocks.parseBlocks exCfg
      (exPre ++ endBy (applyAll exRewritesR (layoutR exT)) (.nextBlock [.str "***inc".toList] [])) exFixer).blocks.map
      (fun d => (d.ty, d.first))) = [(.metadata, 0), (.table, 2), (.directive, 8)] := by decide

end Pdt.C10
