/-
  Props/C03.lean — "Rows are split into blocks by first-cell markers: in order, none lost".
  Property theorems only.  All statements are for arbitrary row lists (no length bound)
  and an arbitrary row type `R` with an arbitrary first-cell classifier `kindOf`, then
  specialised to native rows (`segment`).
-/
import PdtModel.Model.Segment
import PdtModel.Model.Blocks
import PdtModel.Lemmas.Marker
import PdtModel.Props.Regex
import PdtModel.Gen.Consts
set_option linter.unusedSimpArgs false
namespace Pdt.C03
open Pdt

/-! ## 0. Tie to the source: the regex text the hand model `classify` was written against.
   `Gen.markerPattern` is regenerated from blocks.py on every run; if the pattern changes this
   stops checking and the check searches for a string the real code now classifies differently. -/

theorem marker_pattern_pinned :
    Gen.markerPattern =
      "^((?<!\\*)(\\*\\*\\*?)(?!\\*)|((?<!:):{1,3}(?!:))[^:]*\\s*$|([^:]+:)\\s*$)" := by decide

/-! ## 1. The marker classifier equals the declarative rule -/

namespace Spec
/-- `**x`: two stars, then anything but a third star -/
def IsTable (s : Str) : Prop := ∃ r, s = '*' :: '*' :: r ∧ r.head? ≠ some '*'
/-- `***x`: three stars, then anything but a fourth star -/
def IsDirective (s : Str) : Prop := ∃ r, s = '*' :: '*' :: '*' :: r ∧ r.head? ≠ some '*'
/-- one to three leading colons and no colon afterwards -/
def IsTemplate (s : Str) : Prop :=
  ∃ m r, 1 ≤ m ∧ m ≤ 3 ∧ s = List.replicate m ':' ++ r ∧ ':' ∉ r
/-- `key:` — non-empty colon-free key, one colon, then only (Python) whitespace -/
def IsMetaKey (s : Str) : Prop :=
  ∃ body ws, body ≠ [] ∧ ':' ∉ body ∧ (∀ c ∈ ws, isSpace c = true) ∧ s = body ++ ':' :: ws
end Spec

theorem leadingStars_eq_two (s : Str) : leading '*' s = 2 ↔ Spec.IsTable s := by
  constructor
  · intro h
    have := leading_split '*' s
    rw [h] at this
    exact ⟨s.drop 2, by simpa [List.replicate] using this.1, this.2⟩
  · rintro ⟨r, rfl, hr⟩
    exact leading_unique '*' 2 r hr

theorem leadingStars_eq_three (s : Str) : leading '*' s = 3 ↔ Spec.IsDirective s := by
  constructor
  · intro h
    have := leading_split '*' s
    rw [h] at this
    exact ⟨s.drop 3, by simpa [List.replicate] using this.1, this.2⟩
  · rintro ⟨r, rfl, hr⟩
    exact leading_unique '*' 3 r hr

theorem isTemplate_iff (s : Str) : isTemplate s = true ↔ Spec.IsTemplate s := by
  constructor
  · intro h
    simp only [isTemplate, Bool.and_eq_true, decide_eq_true_eq, Bool.not_eq_true',
      List.contains_eq_mem, decide_eq_false_iff_not] at h
    exact ⟨leading ':' s, s.drop (leading ':' s), h.1.1, h.1.2, (leading_split ':' s).1, h.2⟩
  · rintro ⟨m, r, h1, h3, rfl, hr⟩
    have hm := leading_unique ':' m r (head_ne_of_not_mem hr)
    simp [isTemplate, hm, h1, h3, hr]

theorem isMetaKey_iff (s : Str) : isMetaKey s = true ↔ Spec.IsMetaKey s := by
  constructor
  · intro h
    unfold isMetaKey at h
    simp only [Bool.and_eq_true, Bool.not_eq_true', List.isEmpty_eq_false_iff] at h
    obtain ⟨hb, hr⟩ := h
    split at hr
    · rename_i x ws heq
      have hx := dropWhile_ne_head ':' s x ws heq
      subst hx
      refine ⟨s.takeWhile (· != ':'), ws, hb, not_mem_takeWhile_ne ':' s, ?_, ?_⟩
      · simpa [List.all_eq_true] using hr
      · rw [← heq]; exact (List.takeWhile_append_dropWhile).symm
    · simp at hr
  · rintro ⟨body, ws, hb, hc, hws, rfl⟩
    have := takeWhile_ne_append ':' body ws hc
    unfold isMetaKey
    simp only [this.1, this.2]
    simp [hb, List.all_eq_true]
    exact hws

theorem classifyColon_cases (s : Str) :
    classifyColon s = some .template ∨ classifyColon s = some .metadata ∨ classifyColon s = none := by
  unfold classifyColon; split <;> (try split) <;> simp

/-- `**name` starts a table -/
theorem classify_table (s : Str) : classify s = some .table ↔ Spec.IsTable s := by
  rw [← leadingStars_eq_two]
  unfold classify
  constructor
  · intro h
    by_cases h2 : leading '*' s = 2
    · exact h2
    · simp only [h2, if_false] at h
      by_cases h3 : leading '*' s = 3
      · simp [h3] at h
      · simp only [h3, if_false] at h
        rcases classifyColon_cases s with e | e | e <;> simp [e] at h
  · intro h; simp [h]

/-- `***name` starts a directive -/
theorem classify_directive (s : Str) : classify s = some .directive ↔ Spec.IsDirective s := by
  rw [← leadingStars_eq_three]
  unfold classify
  constructor
  · intro h
    by_cases h2 : leading '*' s = 2
    · simp [h2] at h
    · simp only [h2, if_false] at h
      by_cases h3 : leading '*' s = 3
      · exact h3
      · simp only [h3, if_false] at h
        rcases classifyColon_cases s with e | e | e <;> simp [e] at h
  · intro h; simp [h]

theorem leadingStars_of_colon (m : Nat) (r : Str) (h : 1 ≤ m) :
    leading '*' (List.replicate m ':' ++ r) = 0 := by
  cases m with
  | zero => omega
  | succ n => simp [List.replicate_succ, leading]

/-- one to three leading colons (and no other colon) make a template row -/
theorem classify_template (s : Str) : classify s = some .template ↔ Spec.IsTemplate s := by
  constructor
  · intro h
    unfold classify at h
    by_cases h2 : leading '*' s = 2
    · simp [h2] at h
    · by_cases h3 : leading '*' s = 3
      · simp [h3] at h
      · simp only [h2, h3, if_false] at h
        unfold classifyColon at h
        by_cases ht : isTemplate s = true
        · exact (isTemplate_iff s).1 ht
        · have ht' : isTemplate s = false := by simpa using ht
          cases hm : isMetaKey s <;> simp [ht', hm] at h
  · intro h
    have ht := (isTemplate_iff s).2 h
    obtain ⟨m, r, h1, _, rfl, _⟩ := h
    unfold classify
    simp [leadingStars_of_colon m r h1, classifyColon, ht]

/-- `key:` (nothing but blanks after the colon) is a metadata key unless it is a `**`/`***` marker -/
theorem classify_metadata (s : Str) :
    classify s = some .metadata ↔ Spec.IsMetaKey s ∧ ¬ Spec.IsTable s ∧ ¬ Spec.IsDirective s := by
  rw [← leadingStars_eq_two, ← leadingStars_eq_three, ← isMetaKey_iff]
  unfold classify
  constructor
  · intro h
    by_cases h2 : leading '*' s = 2
    · simp [h2] at h
    · by_cases h3 : leading '*' s = 3
      · simp [h3] at h
      · simp only [h2, h3, if_false] at h
        refine ⟨?_, h2, h3⟩
        unfold classifyColon at h
        by_cases ht : isTemplate s = true
        · simp [ht] at h
        · simp only [ht] at h
          by_cases hm : isMetaKey s = true
          · exact hm
          · simp [hm] at h
  · rintro ⟨hm, h2, h3⟩
    simp only [h2, h3, if_false]
    have hnt : isTemplate s = false := by
      cases hh : isTemplate s with
      | false => rfl
      | true =>
        exfalso
        obtain ⟨m, r, h1, _, rfl, _⟩ := (isTemplate_iff _).1 hh
        obtain ⟨body, ws, hb, hc, _, he⟩ := (isMetaKey_iff _).1 hm
        cases m with
        | zero => omega
        | succ n =>
          cases body with
          | nil => exact hb rfl
          | cons b bs =>
            simp [List.replicate_succ] at he
            exact hc (by rw [← he.1]; simp)
    simp [classifyColon, hnt, hm]

/-- near misses named in the property: `****x`, `:a:`, `a:b` are not markers; `****x:` is a key -/
example : classify "****x".toList = none := by decide
example : classify ":a:".toList = none := by decide
example : classify "a:b".toList = none := by decide
example : classify "::::x".toList = none := by decide
example : classify "****x:".toList = some .metadata := by decide
example : classify "**".toList = some .table := by decide
example : classify ":::x \t".toList = some .template := by decide

/-! ## 2. Segmentation: in order, none lost, origin rows, prefix stability -/

section
variable {R : Type} (kindOf : R → Kind)

/-- all delivered rows, in delivery order -/
def flat (bs : List (Block R)) : List R := bs.flatMap (·.rows)

/-- "the first cell of the row is not blank" -/
def nb (r : R) : Bool := !(kindOf r).isBlank

@[simp] theorem flatMap_emit (s : St R) : (emit s).flatMap (·.rows) = s.grid := by
  unfold emit; cases h : s.grid <;> simp

theorem go_filter (i : Nat) (s : St R) (rs : List R) :
    (flat (go kindOf i s rs)).filter (nb kindOf) = (s.grid ++ rs).filter (nb kindOf) := by
  induction rs generalizing i s with
  | nil => simp [go, flat]
  | cons r rs ih =>
    simp only [go, flat, List.flatMap_append, List.filter_append] at *
    rw [ih]
    unfold step switch
    cases hk : kindOf r <;> (try split) <;> (try split) <;>
      simp_all [nb, Kind.isBlank, List.filter_append]

/-- **none lost, in order, exactly once**: the rows whose first cell is not blank come out
    unchanged, in input order, each exactly once -/
theorem no_loss_in_order (rows : List R) :
    (flat (run kindOf rows)).filter (nb kindOf) = rows.filter (nb kindOf) := by
  simpa [run, initSt] using go_filter kindOf 0 initSt rows

theorem step_sub (s : St R) (i : Nat) (r : R) :
    (((step kindOf s i r).2.flatMap (·.rows)) ++ (step kindOf s i r).1.grid).Sublist (s.grid ++ [r]) := by
  unfold step switch
  cases hk : kindOf r <;> (try split) <;> (try split) <;> simp_all
  split <;> simp

theorem go_sublist (i : Nat) (s : St R) (rs : List R) :
    (flat (go kindOf i s rs)).Sublist (s.grid ++ rs) := by
  induction rs generalizing i s with
  | nil => simp [go, flat]
  | cons r rs ih =>
    simp only [go, flat, List.flatMap_append] at *
    have h1 := (ih (i + 1) (step kindOf s i r).1).append_left ((step kindOf s i r).2.flatMap (·.rows))
    have h2 := (step_sub kindOf s i r).append_right rs
    simp only [List.append_assoc, List.singleton_append] at h1 h2
    exact h1.trans h2

/-- **nothing invented, nothing reordered**: the delivered rows are a sublist of the input -/
theorem delivered_sublist (rows : List R) : (flat (run kindOf rows)).Sublist rows := by
  simpa [run, initSt] using go_sublist kindOf 0 initSt rows

theorem go_eq_emitted (i : Nat) (s : St R) (rs : List R) :
    go kindOf i s rs = (emitted kindOf i s rs).1 ++ emit (emitted kindOf i s rs).2 := by
  induction rs generalizing i s with
  | nil => simp [go, emitted]
  | cons r rs ih => simp [go, emitted, ih]

theorem emitted_append (i : Nat) (s : St R) (p q : List R) :
    (emitted kindOf i s (p ++ q)).1 =
      (emitted kindOf i s p).1 ++ (emitted kindOf (i + p.length) (emitted kindOf i s p).2 q).1 := by
  induction p generalizing i s with
  | nil => simp [emitted]
  | cons r rs ih => simp [emitted, ih, Nat.add_assoc, Nat.add_comm 1]

theorem emit_length_le (s : St R) : (emit s).length ≤ 1 := by
  unfold emit; cases s.grid <;> simp

theorem dropLast_append_le_one {α} (xs ys : List α) (h : ys.length ≤ 1) :
    (xs ++ ys).dropLast.IsPrefix xs ∨ (xs ++ ys).dropLast = xs := by
  match ys, h with
  | [], _ => left; simpa using List.dropLast_prefix xs
  | [y], _ => right; simp

/-- **prefix stability**: the blocks produced from any prefix of the rows, minus the last one,
    are a prefix of the blocks produced from all rows -/
theorem prefix_stable (p q : List R) :
    ((run kindOf p).dropLast).IsPrefix (run kindOf (p ++ q)) := by
  unfold run
  rw [go_eq_emitted, go_eq_emitted, emitted_append]
  have h := dropLast_append_le_one (emitted kindOf 0 initSt p).1
    (emit (emitted kindOf 0 initSt p).2) (emit_length_le _)
  have hp : (emitted kindOf 0 initSt p).1.IsPrefix
      ((emitted kindOf 0 initSt p).1 ++
        (emitted kindOf (0 + p.length) (emitted kindOf 0 initSt p).2 q).1 ++
        emit (emitted kindOf 0 initSt (p ++ q)).2) := by
    rw [List.append_assoc]; exact List.prefix_append _ _
  rcases h with h | h
  · exact h.trans hp
  · rw [h]; exact hp

/-! ### origin rows -/

/-- invariant tying the automaton state to the rows consumed so far (`pre`) -/
structure Inv (pre : List R) (s : St R) : Prop where
  le : s.first ≤ pre.length
  contig : s.state ≠ .blank → pre.drop s.first = s.grid
  nbeq : (pre.drop s.first).filter (nb kindOf) = s.grid.filter (nb kindOf)
  top : s.state = .metadata → s.first = 0

theorem inv_init : Inv kindOf ([] : List R) initSt := by
  constructor <;> simp [initSt]

theorem drop_append_singleton {α} (pre : List α) (r : α) (n : Nat) (h : n ≤ pre.length) :
    (pre ++ [r]).drop n = pre.drop n ++ [r] := by
  rw [List.drop_append_of_le_length h]

theorem inv_step (pre : List R) (s : St R) (r : R) (h : Inv kindOf pre s) :
    Inv kindOf (pre ++ [r]) (step kindOf s pre.length r).1 := by
  obtain ⟨hle, hc, hn, ht⟩ := h
  have hd := drop_append_singleton pre r s.first hle
  unfold step switch
  cases hk : kindOf r with
  | blankRow keep =>
    by_cases hb : s.state = .blank
    · constructor <;> simp_all [nb, Kind.isBlank, List.filter_append] <;> omega
    · cases keep <;> constructor <;> simp_all [nb, Kind.isBlank, List.filter_append]
  | mta =>
    by_cases hm : s.state = .metadata
    · constructor <;> simp_all [nb, Kind.isBlank, List.filter_append]
    · constructor <;> simp_all [nb, Kind.isBlank, List.filter_append]
  | plain => constructor <;> simp_all [nb, Kind.isBlank, List.filter_append] <;> omega
  | tbl => constructor <;> simp_all [nb, Kind.isBlank, List.filter_append]
  | dir => constructor <;> simp_all [nb, Kind.isBlank, List.filter_append]
  | tpl => constructor <;> simp_all [nb, Kind.isBlank, List.filter_append]

/-- what a block says about the input it was cut from -/
def BlockOK (rows : List R) (b : Block R) : Prop :=
  (b.ty ≠ .blank → (rows.drop b.first).take b.rows.length = b.rows) ∧
  (b.rows.filter (nb kindOf)).IsPrefix ((rows.drop b.first).filter (nb kindOf)) ∧
  (b.ty = .metadata → b.first = 0) ∧
  b.rows ≠ []

theorem emit_ok (pre rs : List R) (s : St R) (h : Inv kindOf pre s) :
    ∀ b ∈ emit s, BlockOK kindOf (pre ++ rs) b := by
  obtain ⟨hle, hc, hn, ht⟩ := h
  intro b hb
  unfold emit at hb
  split at hb
  · simp at hb
  · rename_i x xs hg
    simp only [List.mem_singleton] at hb
    subst hb
    have hd : (pre ++ rs).drop s.first = pre.drop s.first ++ rs := List.drop_append_of_le_length hle
    refine ⟨?_, ?_, ?_, by simp [hg]⟩
    · intro hb
      simp only [hd, hc hb, List.take_left']
    · simp only [hd, List.filter_append, hn]
      exact List.prefix_append _ _
    · exact ht

theorem step_emits (s : St R) (i : Nat) (r : R) :
    (step kindOf s i r).2 = [] ∨ (step kindOf s i r).2 = emit s := by
  unfold step switch
  split <;> (try split) <;> simp

theorem go_ok (pre rs : List R) (s : St R) (h : Inv kindOf pre s) :
    ∀ b ∈ go kindOf pre.length s rs, BlockOK kindOf (pre ++ rs) b := by
  induction rs generalizing pre s with
  | nil => simpa [go] using emit_ok kindOf pre [] s h
  | cons r rs ih =>
    intro b hb
    simp only [go, List.mem_append] at hb
    rcases hb with hb | hb
    · rcases step_emits kindOf s pre.length r with e | e
      · simp [e] at hb
      · rw [e] at hb; exact emit_ok kindOf pre (r :: rs) s h b hb
    · have := ih (pre ++ [r]) _ (inv_step kindOf pre s r h) b (by simpa using hb)
      simpa using this

/-- **origin rows**: every emitted block is non-empty; a TABLE / DIRECTIVE / TEMPLATE_ROW /
    METADATA block is exactly the contiguous slice of the input starting at its origin row
    (so the origin row is the index of its first row); a METADATA block starts at row 0;
    and for every block (BLANK ones included, whose origin row is the row that ended the
    previous block) the non-blank-first-cell rows of the block are exactly the next such rows of
    the input counted from its origin row. -/
theorem origin_row (rows : List R) : ∀ b ∈ run kindOf rows, BlockOK kindOf rows b := by
  have := go_ok kindOf [] rows initSt (inv_init kindOf)
  simpa [run] using this

/-! ### the origin row of a BLANK block is the row that ended the previous block -/

/-- a row that ends a block without starting a table / directive / template row: blank first cell, or a
    `key:` row below the top -/
def EndsBlock (r : R) : Prop := (kindOf r).isBlank = true ∨ kindOf r = .mta

def BlankInv (pre : List R) (s : St R) : Prop :=
  s.state = .blank → ∃ r, pre[s.first]? = some r ∧ EndsBlock kindOf r

theorem getElem?_append_self {α} (pre : List α) (r : α) : (pre ++ [r])[pre.length]? = some r := by
  simp

theorem blankInv_step (pre : List R) (s : St R) (r : R) (h : BlankInv kindOf pre s) (_hle : s.first ≤ pre.length) :
    BlankInv kindOf (pre ++ [r]) (step kindOf s pre.length r).1 := by
  have hkeep : ∀ x, pre[s.first]? = some x → (pre ++ [r])[s.first]? = some x := by
    intro x hx
    have : s.first < pre.length := (List.getElem?_eq_some_iff.1 hx).1
    rw [List.getElem?_append_left this]; exact hx
  unfold step switch
  cases hk : kindOf r with
  | blankRow keep =>
    by_cases hb : s.state = .blank
    · simp only [hb, if_true]
      intro _
      obtain ⟨x, hx, he⟩ := h hb
      exact ⟨x, hkeep x hx, he⟩
    · simp only [hb, if_false]
      intro _
      exact ⟨r, getElem?_append_self pre r, Or.inl (by simp [hk, Kind.isBlank])⟩
  | mta =>
    by_cases hm : s.state = .metadata
    · simp only [hm, if_true]
      intro hb; simp at hb
    · simp only [hm, if_false]
      intro _
      exact ⟨r, getElem?_append_self pre r, Or.inr hk⟩
  | plain =>
    simp only []
    intro hb
    obtain ⟨x, hx, he⟩ := h hb
    exact ⟨x, hkeep x hx, he⟩
  | tbl => intro hb; simp at hb
  | dir => intro hb; simp at hb
  | tpl => intro hb; simp at hb

theorem go_blank_origin (pre rs : List R) (s : St R) (h : BlankInv kindOf pre s) (hi : Inv kindOf pre s) :
    ∀ b ∈ go kindOf pre.length s rs, b.ty = .blank → ∃ r, (pre ++ rs)[b.first]? = some r ∧ EndsBlock kindOf r := by
  induction rs generalizing pre s with
  | nil =>
    intro b hb hty
    simp only [go] at hb
    unfold emit at hb
    split at hb
    · simp at hb
    · simp only [List.mem_singleton] at hb
      subst hb
      simpa using h hty
  | cons r rs ih =>
    intro b hb hty
    simp only [go, List.mem_append] at hb
    rcases hb with hb | hb
    · rcases step_emits kindOf s pre.length r with e | e
      · simp [e] at hb
      · rw [e] at hb
        unfold emit at hb
        split at hb
        · simp at hb
        · simp only [List.mem_singleton] at hb
          subst hb
          obtain ⟨x, hx, he⟩ := h hty
          have : s.first < pre.length := (List.getElem?_eq_some_iff.1 hx).1
          exact ⟨x, by rw [List.getElem?_append_left this]; exact hx, he⟩
    · have := ih (pre ++ [r]) _ (blankInv_step kindOf pre s r h hi.le) (inv_step kindOf pre s r hi) b
        (by simpa using hb) hty
      simpa using this

/-- **BLANK blocks**: the origin row of a BLANK block is the row that ended the previous block — a row with a
    blank first cell, or a `key:` row below the top (which is then also the block's first row) -/
theorem blank_origin_row (rows : List R) :
    ∀ b ∈ run kindOf rows, b.ty = .blank → ∃ r, rows[b.first]? = some r ∧ EndsBlock kindOf r := by
  have := go_blank_origin kindOf [] rows initSt (by intro h; simp [initSt] at h) (inv_init kindOf)
  simpa [run] using this

/-! ### blocks come out in input order: origin rows strictly increase -/

theorem step_first (s : St R) (i : Nat) (r : R) :
    ((step kindOf s i r).1 = { s with grid := s.grid ++ [r] } ∧ (step kindOf s i r).2 = []) ∨
    ((step kindOf s i r).1 = s ∧ (step kindOf s i r).2 = []) ∨
    ((step kindOf s i r).1.first = i ∧ ((step kindOf s i r).1.grid = [r] ∨ (step kindOf s i r).1.grid = []) ∧
      (step kindOf s i r).2 = emit s) := by
  unfold step switch
  split <;> (try split) <;> simp

theorem go_firsts (i : Nat) (s : St R) (rs : List R) (hle : s.first ≤ i) (hlt : s.grid ≠ [] → s.first < i) :
    ((go kindOf i s rs).map (·.first)).Pairwise (· < ·) ∧
    ∀ b ∈ go kindOf i s rs, b.first = s.first ∨ i ≤ b.first := by
  induction rs generalizing i s with
  | nil =>
    simp only [go]
    unfold emit
    cases hg : s.grid <;> simp
  | cons r rs ih =>
    simp only [go]
    rcases step_first kindOf s i r with ⟨h1, h2⟩ | ⟨h1, h2⟩ | ⟨h1, h2, h3⟩
    · have := ih (i + 1) (step kindOf s i r).1 (by rw [h1]; simp; omega) (by rw [h1]; intro _; simp; omega)
      rw [h2, List.nil_append]
      refine ⟨this.1, ?_⟩
      intro b hb
      rcases this.2 b hb with e | e
      · left; rw [e, h1]
      · right; omega
    · have := ih (i + 1) (step kindOf s i r).1 (by rw [h1]; omega) (by rw [h1]; intro hg; have := hlt hg; omega)
      rw [h2, List.nil_append]
      refine ⟨this.1, ?_⟩
      intro b hb
      rcases this.2 b hb with e | e
      · left; rw [e, h1]
      · right; omega
    · have := ih (i + 1) (step kindOf s i r).1 (by rw [h1]; omega) (by rw [h1]; intro _; omega)
      rw [h3]
      have hrest : ∀ b ∈ go kindOf (i + 1) (step kindOf s i r).1 rs, i ≤ b.first := by
        intro b hb
        rcases this.2 b hb with e | e
        · rw [e, h1]; exact Nat.le_refl _
        · omega
      unfold emit
      cases hg : s.grid with
      | nil =>
        simp only [List.nil_append]
        exact ⟨this.1, fun b hb => Or.inr (hrest b hb)⟩
      | cons x xs =>
        have hs : s.first < i := hlt (by rw [hg]; simp)
        simp only [List.singleton_append, List.map_cons, List.pairwise_cons, List.mem_map, List.mem_cons]
        refine ⟨⟨?_, this.1⟩, ?_⟩
        · rintro f ⟨b, hb, rfl⟩
          have := hrest b hb
          omega
        · rintro b (rfl | hb)
          · left; rfl
          · right; exact hrest b hb

/-- **blocks come out in input order**: the origin rows of the emitted blocks strictly increase -/
theorem origin_rows_increasing (rows : List R) :
    ((run kindOf rows).map (·.first)).Pairwise (· < ·) :=
  (go_firsts kindOf 0 initSt rows (by simp [initSt]) (by simp [initSt])).1

/-! ### block boundaries depend on the first-cell kinds only -/

def Block.mapRows {S : Type} (f : R → S) (b : Block R) : Block S := ⟨b.ty, b.rows.map f, b.first⟩
def St.mapRows {S : Type} (f : R → S) (s : St R) : St S := ⟨s.grid.map f, s.state, s.first⟩

theorem emit_map (s : St R) :
    (emit s).map (Block.mapRows kindOf) = emit (St.mapRows kindOf s) := by
  unfold emit St.mapRows Block.mapRows; cases s.grid <;> simp

theorem step_map (s : St R) (i : Nat) (r : R) :
    (step id (St.mapRows kindOf s) i (kindOf r)) =
      (St.mapRows kindOf (step kindOf s i r).1, (step kindOf s i r).2.map (Block.mapRows kindOf)) := by
  unfold step switch
  simp only [id]
  cases hk : kindOf r <;> (try split) <;> (try split) <;>
    simp_all [emit_map, St.mapRows]
  split <;> simp_all

theorem go_map (i : Nat) (s : St R) (rs : List R) :
    (go kindOf i s rs).map (Block.mapRows kindOf) = go id i (St.mapRows kindOf s) (rs.map kindOf) := by
  induction rs generalizing i s with
  | nil => simp [go, emit_map]
  | cons r rs ih => simp [go, ih, step_map]

/-- **kinds only**: types, sizes and origin rows of the blocks are a function of the sequence of
    first-cell kinds alone (running the automaton on the kinds gives the same blocks) -/
theorem kind_only (rows : List R) :
    (run kindOf rows).map (Block.mapRows kindOf) = run id (rows.map kindOf) := by
  simpa [run, initSt, St.mapRows] using go_map kindOf 0 initSt rows

/-! ### block shape: the type of a block is the kind of its first row, the other rows continue it -/

/-- the kind a block's first row must have, by block type.  METADATA (only ever the block at the very top) starts
    with an ordinary or a `key:` row; a BLANK block starts with the kept blank row or the `key:` row that began it,
    or — when that row was dropped (no payload) — with the first ordinary row after it. -/
def HeadOK (ty : BT) (k : Kind) : Prop :=
  match ty with
  | .table => k = .tbl
  | .directive => k = .dir
  | .template => k = .tpl
  | .metadata => k = .plain ∨ k = .mta
  | .blank => k = .plain ∨ k = .mta ∨ k = .blankRow true

/-- the kind of every further row: an ordinary row; inside METADATA also a `key:` row -/
def TailOK (ty : BT) (k : Kind) : Prop := k = .plain ∨ (ty = .metadata ∧ k = .mta)

def GridOK (ty : BT) (grid : List R) : Prop :=
  match grid with
  | [] => ty = .metadata ∨ ty = .blank
  | r :: rest => HeadOK ty (kindOf r) ∧ ∀ x ∈ rest, TailOK ty (kindOf x)

theorem gridOK_append_plain (ty : BT) (grid : List R) (r : R) (h : GridOK kindOf ty grid)
    (hk : kindOf r = .plain) : GridOK kindOf ty (grid ++ [r]) := by
  cases grid with
  | nil =>
    rcases h with h | h <;> subst h <;> simp [GridOK, HeadOK, hk]
  | cons x xs =>
    show GridOK kindOf ty (x :: (xs ++ [r]))
    refine ⟨h.1, ?_⟩
    intro y hy
    rcases List.mem_append.1 hy with hy | hy
    · exact h.2 y hy
    · rw [List.mem_singleton.1 hy]; exact Or.inl hk

theorem gridOK_append_mta (grid : List R) (r : R) (h : GridOK kindOf .metadata grid)
    (hk : kindOf r = .mta) : GridOK kindOf .metadata (grid ++ [r]) := by
  cases grid with
  | nil => simp [GridOK, HeadOK, hk]
  | cons x xs =>
    show GridOK kindOf .metadata (x :: (xs ++ [r]))
    refine ⟨h.1, ?_⟩
    intro y hy
    rcases List.mem_append.1 hy with hy | hy
    · exact h.2 y hy
    · rw [List.mem_singleton.1 hy]; exact Or.inr ⟨rfl, hk⟩

theorem gridOK_step (s : St R) (i : Nat) (r : R) (h : GridOK kindOf s.state s.grid) :
    GridOK kindOf (step kindOf s i r).1.state (step kindOf s i r).1.grid := by
  unfold step switch
  cases hk : kindOf r with
  | plain => exact gridOK_append_plain kindOf s.state s.grid r h hk
  | mta =>
    by_cases hm : s.state = .metadata
    · simp only [hm, if_true]
      rw [hm] at h
      exact gridOK_append_mta kindOf s.grid r h hk
    · simp [hm, GridOK, HeadOK, hk]
  | blankRow keep =>
    by_cases hb : s.state = .blank
    · simpa [hb] using h
    · cases keep <;> simp [hb, GridOK, HeadOK, hk]
  | tbl => simp [GridOK, HeadOK, hk]
  | dir => simp [GridOK, HeadOK, hk]
  | tpl => simp [GridOK, HeadOK, hk]

/-- what the shape of an emitted block is -/
def ShapeOK (b : Block R) : Prop :=
  ∃ r rest, b.rows = r :: rest ∧ HeadOK b.ty (kindOf r) ∧ ∀ x ∈ rest, TailOK b.ty (kindOf x)

theorem emit_shape (s : St R) (h : GridOK kindOf s.state s.grid) : ∀ b ∈ emit s, ShapeOK kindOf b := by
  intro b hb
  unfold emit at hb
  split at hb
  · simp at hb
  · rename_i x xs hg
    simp only [List.mem_singleton] at hb
    subst hb
    rw [hg] at h
    exact ⟨x, xs, hg, h.1, h.2⟩

theorem go_shape (i : Nat) (s : St R) (rs : List R) (h : GridOK kindOf s.state s.grid) :
    ∀ b ∈ go kindOf i s rs, ShapeOK kindOf b := by
  induction rs generalizing i s with
  | nil => simpa [go] using emit_shape kindOf s h
  | cons r rs ih =>
    intro b hb
    simp only [go, List.mem_append] at hb
    rcases hb with hb | hb
    · rcases step_emits kindOf s i r with e | e
      · simp [e] at hb
      · rw [e] at hb; exact emit_shape kindOf s h b hb
    · exact ih (i + 1) _ (gridOK_step kindOf s i r h) b hb

/-- **block shape** (the marker and continuation rules, for whole inputs): every delivered block starts with a row
    of the kind its type says — a `**name` row for TABLE, `***name` for DIRECTIVE, a colon row for TEMPLATE_ROW — and
    all its further rows are ordinary rows that continue it (inside the METADATA block at the top also `key:`
    rows); no row of a block has a blank first cell except a kept first row of a BLANK block. -/
theorem block_shape (rows : List R) : ∀ b ∈ run kindOf rows, ShapeOK kindOf b := by
  have := go_shape kindOf 0 initSt rows (by simp [initSt, GridOK])
  simpa [run] using this

/-- **the type of a block is decided by its first row**: a block is a TABLE / DIRECTIVE / TEMPLATE_ROW block exactly
    when its first row is a `**` / `***` / colon row -/
theorem type_of_first_row (rows : List R) (b : Block R) (hb : b ∈ run kindOf rows) :
    ∃ r rest, b.rows = r :: rest ∧
      (b.ty = .table ↔ kindOf r = .tbl) ∧ (b.ty = .directive ↔ kindOf r = .dir) ∧
      (b.ty = .template ↔ kindOf r = .tpl) := by
  obtain ⟨r, rest, hr, hh, _⟩ := block_shape kindOf rows b hb
  refine ⟨r, rest, hr, ?_⟩
  unfold HeadOK at hh
  cases hty : b.ty <;> rw [hty] at hh <;> simp only [] at hh
  · simp [hh]
  · simp [hh]
  · simp [hh]
  · rcases hh with hh | hh <;> simp [hh]
  · rcases hh with hh | hh | hh <;> simp [hh]

/-! ### the individual transition rules of the statement -/

/-- `**x` starts a table, `***x` a directive, colons a template row — whatever the state -/
theorem marker_starts_block (s : St R) (i : Nat) (r : R) :
    (kindOf r = .tbl → (step kindOf s i r).1 = ⟨[r], .table, i⟩) ∧
    (kindOf r = .dir → (step kindOf s i r).1 = ⟨[r], .directive, i⟩) ∧
    (kindOf r = .tpl → (step kindOf s i r).1 = ⟨[r], .template, i⟩) := by
  refine ⟨?_, ?_, ?_⟩ <;> intro h <;> simp [step, switch, h]

/-- `key:` rows continue the metadata block at the very top and form BLANK blocks further down -/
theorem key_row (s : St R) (i : Nat) (r : R) (h : kindOf r = .mta) :
    (s.state = .metadata → (step kindOf s i r) = ({ s with grid := s.grid ++ [r] }, [])) ∧
    (s.state ≠ .metadata → (step kindOf s i r) = (⟨[r], .blank, i⟩, emit s)) := by
  constructor <;> intro hs <;> simp [step, switch, h, hs]

/-- a blank first cell ends the current block (and is skipped inside a BLANK block) -/
theorem blank_ends_block (s : St R) (i : Nat) (r : R) (keep : Bool) (h : kindOf r = .blankRow keep) :
    (s.state ≠ .blank → (step kindOf s i r) = (⟨if keep then [r] else [], .blank, i⟩, emit s)) ∧
    (s.state = .blank → (step kindOf s i r) = (s, [])) := by
  constructor <;> intro hs <;> simp [step, switch, h, hs]

/-- any other row continues the current block -/
theorem plain_continues (s : St R) (i : Nat) (r : R) (h : kindOf r = .plain) :
    step kindOf s i r = ({ s with grid := s.grid ++ [r] }, []) := by
  simp [step, h]

end

/-! ## 3. The same statements for native rows -/

theorem segment_no_loss (rows : List Row) :
    (flat (segment rows)).filter (nb rowKind) = rows.filter (nb rowKind) :=
  no_loss_in_order rowKind rows

theorem segment_sublist (rows : List Row) : (flat (segment rows)).Sublist rows :=
  delivered_sublist rowKind rows

theorem segment_prefix_stable (p q : List Row) :
    ((segment p).dropLast).IsPrefix (segment (p ++ q)) :=
  prefix_stable rowKind p q

theorem segment_origin_rows_increasing (rows : List Row) :
    ((segment rows).map (·.first)).Pairwise (· < ·) :=
  origin_rows_increasing rowKind rows

theorem segment_origin_row (rows : List Row) : ∀ b ∈ segment rows, BlockOK rowKind rows b :=
  origin_row rowKind rows

theorem segment_block_shape (rows : List Row) : ∀ b ∈ segment rows, ShapeOK rowKind b :=
  block_shape rowKind rows

theorem segment_type_of_first_row (rows : List Row) (b : Block Row) (hb : b ∈ segment rows) :
    ∃ r rest, b.rows = r :: rest ∧
      (b.ty = .table ↔ rowKind r = .tbl) ∧ (b.ty = .directive ↔ rowKind r = .dir) ∧
      (b.ty = .template ↔ rowKind r = .tpl) :=
  type_of_first_row rowKind rows b hb

/-- the first-cell kind of a native row is decided by the first cell alone -/
theorem rowKind_first_cell (c : Cell) (r1 r2 : List Cell) (h : r1.isEmpty = r2.isEmpty) :
    rowKind (c :: r1) = rowKind (c :: r2) := by
  simp [rowKind, h]

/-- non-vacuity / smoke: a concrete stream with every kind of row -/
example :
    (segment [[.str "author:".toList, .str "x".toList], [.str "**t".toList], [.str "all".toList],
              [.none, .str "c".toList], [.str "stray".toList], [.str "k:".toList],
              [.str "***d".toList], [.int 3 "3.0".toList], [], [.str ":::a".toList]]).map
        (fun b => (b.ty, b.rows.length, b.first))
      = [(.metadata, 1, 0), (.table, 2, 1), (.blank, 2, 3), (.blank, 1, 5), (.directive, 2, 6),
         (.template, 1, 9)] := by decide

/-! ## 4. From the splitter to what the caller receives (`block_output`, blocks.py:465-484)

   "none lost" at the level of delivered blocks: `block_output` hands every block of the segmentation to its
   handler and delivers whatever the handler returns — an empty `MetadataBlock` (top-of-sheet `key:` rows without a
   value cell) is a block like any other; only a handler result of `None` (a rejecting read filter) drops one.
   For the output form whose handlers cannot fail (`to="cellgrid"`: tables are delivered as their raw rows) this
   holds for every input whatsoever. -/

open Blocks Reader in
/-- a DIRECTIVE block of the segmentation starts with a text cell, so `make_directive` cannot fail on it -/
theorem directive_ok (rows : List Row) (b : Block Row) (hb : b ∈ segment rows) (hty : b.ty = .directive) :
    ∃ v, Blocks.directive b.rows = .ok v := by
  obtain ⟨r, rest, hr, _, hd, _⟩ := segment_type_of_first_row rows b hb
  have hk : rowKind r = .dir := hd.1 hty
  rw [hr]
  cases r with
  | nil => simp [rowKind] at hk
  | cons c cs =>
    cases c with
    | str s => exact ⟨_, rfl⟩
    | none => simp [rowKind, Cell.isBlank] at hk
    | int _ _ => simp [rowKind, Cell.isBlank] at hk
    | float _ => simp [rowKind, Cell.isBlank] at hk
    | bool _ => simp [rowKind, Cell.isBlank] at hk
    | dt _ => simp [rowKind, Cell.isBlank] at hk
    | other _ => simp [rowKind, Cell.isBlank] at hk

open Blocks Reader in
theorem runBlocks_cellgrid (cfg : Blocks.Config) (hform : cfg.form = .cellgrid) (hfil : cfg.filter = none)
    (bs : List (Block Row)) (hdir : ∀ b ∈ bs, b.ty = .directive → ∃ v, Blocks.directive b.rows = .ok v)
    (f : Fixer) :
    (∃ g, (runBlocks cfg bs f).ending = .exhausted ∧ (runBlocks cfg bs f).fixer = g) ∧
    (runBlocks cfg bs f).issues = [] ∧
    (runBlocks cfg bs f).blocks.map (fun d => (d.ty, d.first)) = bs.map (fun b => (b.ty, b.first)) := by
  induction bs generalizing f with
  | nil => simp [runBlocks]
  | cons b bs ih =>
    have hacc : accepts cfg b.ty b.rows = true := by simp [accepts, hfil]
    have ih' := fun g => ih (fun x hx => hdir x (List.mem_cons_of_mem _ hx)) g
    have hok : ∃ v f', handle cfg b.ty b.rows f.reset = .ok (v, f') := by
      cases hty : b.ty with
      | metadata => exact ⟨.metadata (metadataBlock b.rows), f.reset, by simp [handle]⟩
      | directive =>
        obtain ⟨v, hv⟩ := hdir b (List.mem_cons_self ..) hty
        exact ⟨.directive v.1 v.2, f.reset, by simp [handle, hv, bind, Except.bind, pure, Except.pure]⟩
      | table => exact ⟨.grid b.rows, f.reset, by simp [handle, hform]⟩
      | template => exact ⟨.grid b.rows, f.reset, by simp [handle]⟩
      | blank => exact ⟨.grid b.rows, f.reset, by simp [handle]⟩
    obtain ⟨v, f', hh⟩ := hok
    obtain ⟨⟨g, he, hg⟩, hi, hbk⟩ := ih' f'
    simp only [runBlocks, hacc, Bool.not_true, Bool.false_eq_true, if_false, hh]
    exact ⟨⟨g, he, hg⟩, hi, by simp [hbk]⟩

open Blocks Reader in
/-- **every block of the segmentation is delivered** (`to="cellgrid"`, no filter): for every row sequence the read
    runs to the end, reports no issue, and delivers exactly one block per block of the splitter — same types, same
    origin rows, in order.  Together with `segment_no_loss` no non-blank row of the input is missing from what the
    caller receives. -/
theorem cellgrid_delivers_every_block (cfg : Blocks.Config) (hform : cfg.form = .cellgrid)
    (hfil : cfg.filter = none) (rows : List Row) (f : Fixer) :
    (parseBlocks cfg rows f).ending = .exhausted ∧ (parseBlocks cfg rows f).issues = [] ∧
    (parseBlocks cfg rows f).blocks.map (fun d => (d.ty, d.first)) =
      (segment rows).map (fun b => (b.ty, b.first)) := by
  obtain ⟨⟨_, he, _⟩, hi, hb⟩ :=
    runBlocks_cellgrid cfg hform hfil (segment rows) (fun b hb hty => directive_ok rows b hb hty) f
  exact ⟨he, hi, hb⟩

open Blocks Reader in
/-- an empty METADATA block (top `key:` rows without a value cell) is delivered like any other -/
example :
    let cfg : Blocks.Config := ⟨.cellgrid, none, .raising, ⟨fun _ => none, fun _ => .valueError, fun _ => false⟩⟩
    ((parseBlocks cfg [[.str "author:".toList], [.str "**t".toList], [.str "all".toList]] ⟨FixCfg.strict, 0, 0, []⟩).blocks.map
      (fun d => (d.ty, d.first))) = [(.metadata, 0), (.table, 1)] := by decide

/-! ## The classifier IS the regex (Props/Regex.lean): the pattern text extracted from blocks.py, run by the generic
   engine model of `re` and dispatched as `parse_blocks_stable` does, is `classify` — for every first cell -/
theorem classify_is_marker_regex :
    ∃ r, Regex.Re.parse Gen.markerPattern.toList = some r ∧
      ∀ (T : Regex.Tables) (s : Str),
        Regex.dispatch s (Regex.pyMatch T r s) = Regex.Dispatch.ofClassify (classify s) :=
  RegexProps.marker_pattern_denotes_classify

end Pdt.C03
