/-
  Props/C18.lean — "Each table's origin pinpoints where it was read and how it got included".

  Built on C03 (origin rows of the block splitter) and C16 (the loader: invariants of `loadFiles`).
  Statements hold for every world, root list, configuration and work-list discipline.
-/
import PdtModel.Model.Load
import PdtModel.Props.C03
import PdtModel.Props.C16
set_option linter.unusedSimpArgs false
namespace Pdt.C18
open Pdt Pdt.Load

/-! ## 1. A TABLE / DIRECTIVE block starts with its marker row (complements C03 `origin_row`) -/

section
variable {R : Type} (kindOf : R → Kind)

def HeadInv (s : St R) : Prop :=
  (s.state = .table → ∃ r g, s.grid = r :: g ∧ kindOf r = .tbl) ∧
  (s.state = .directive → ∃ r g, s.grid = r :: g ∧ kindOf r = .dir)

def HeadOK (b : Block R) : Prop :=
  (b.ty = .table → ∃ r g, b.rows = r :: g ∧ kindOf r = .tbl) ∧
  (b.ty = .directive → ∃ r g, b.rows = r :: g ∧ kindOf r = .dir)

theorem headInv_append (s : St R) (r : R) (h : HeadInv kindOf s) :
    HeadInv kindOf { s with grid := s.grid ++ [r] } := by
  obtain ⟨h1, h2⟩ := h
  constructor
  · intro hs
    obtain ⟨r0, g, hg, hk⟩ := h1 hs
    exact ⟨r0, g ++ [r], by simp [hg], hk⟩
  · intro hs
    obtain ⟨r0, g, hg, hk⟩ := h2 hs
    exact ⟨r0, g ++ [r], by simp [hg], hk⟩

theorem headInv_step (s : St R) (i : Nat) (r : R) (h : HeadInv kindOf s) :
    HeadInv kindOf (step kindOf s i r).1 := by
  unfold step switch
  cases hk : kindOf r with
  | plain => exact headInv_append kindOf s r h
  | mta =>
    by_cases hm : s.state = .metadata
    · simp only [hm, if_true]
      have := headInv_append kindOf s r h
      simpa [hm] using this
    · simp only [hm, if_false]
      constructor <;> intro hs <;> simp at hs
  | blankRow keep =>
    by_cases hb : s.state = .blank
    · simp only [hb, if_true]; exact h
    · simp only [hb, if_false]
      constructor <;> intro hs <;> simp at hs
  | tbl => constructor <;> intro hs <;> simp_all
  | dir => constructor <;> intro hs <;> simp_all
  | tpl => constructor <;> intro hs <;> simp at hs

theorem emit_headOK (s : St R) (h : HeadInv kindOf s) : ∀ b ∈ emit s, HeadOK kindOf b := by
  intro b hb
  unfold emit at hb
  split at hb
  · simp at hb
  · simp only [List.mem_singleton] at hb
    subst hb
    exact h

theorem go_headOK (i : Nat) (s : St R) (rs : List R) (h : HeadInv kindOf s) :
    ∀ b ∈ go kindOf i s rs, HeadOK kindOf b := by
  induction rs generalizing i s with
  | nil => simpa [go] using emit_headOK kindOf s h
  | cons r rs ih =>
    intro b hb
    simp only [go, List.mem_append] at hb
    rcases hb with hb | hb
    · rcases C03.step_emits kindOf s i r with e | e
      · simp [e] at hb
      · rw [e] at hb; exact emit_headOK kindOf s h b hb
    · exact ih (i + 1) _ (headInv_step kindOf s i r h) b hb

theorem run_headOK (rows : List R) : ∀ b ∈ run kindOf rows, HeadOK kindOf b :=
  go_headOK kindOf 0 initSt rows (by constructor <;> intro hs <;> simp [initSt] at hs)

end

theorem rowKind_tbl (r : Row) (h : rowKind r = .tbl) :
    ∃ s tail, r = .str s :: tail ∧ classify s = some .table := by
  cases r with
  | nil => simp [rowKind] at h
  | cons c rest =>
    simp only [rowKind] at h
    split at h
    · simp at h
    · cases c with
      | str s =>
        refine ⟨s, rest, rfl, ?_⟩
        cases hc : classify s with
        | none => simp [hc] at h
        | some m => cases m <;> simp_all
      | _ => cases h

theorem rowKind_dir (r : Row) (h : rowKind r = .dir) :
    ∃ s tail, r = .str s :: tail ∧ classify s = some .directive := by
  cases r with
  | nil => simp [rowKind] at h
  | cons c rest =>
    simp only [rowKind] at h
    split at h
    · simp at h
    · cases c with
      | str s =>
        refine ⟨s, rest, rfl, ?_⟩
        cases hc : classify s with
        | none => simp [hc] at h
        | some m => cases m <;> simp_all
      | _ => cases h

theorem take_drop_head {α} (rows : List α) (k n : Nat) (r : α) (g : List α)
    (h : (rows.drop k).take n = r :: g) : rows[k]? = some r := by
  have : ((rows.drop k).take n).head? = some r := by rw [h]; rfl
  cases n with
  | zero => simp at h
  | succ n =>
    rw [List.head?_take] at this
    simpa [List.head?_drop] using this

/-- **origin row of a table**: a TABLE block of a sheet read from `rows` carries as its row the index of a row
    whose first cell is the `**name` marker (two stars, not three), and its name is that cell minus the stars -/
theorem ofRows_table_row (name : Option Str) (use : Bool) (rows : List Row) :
    ∀ b ∈ (Sheet.ofRows name use rows).blocks, b.ty = .table →
      ∃ s tail, rows[b.row]? = some (.str s :: tail) ∧ C03.Spec.IsTable s ∧ b.name = s.drop 2 := by
  intro b hb hty
  simp only [Sheet.ofRows, List.mem_map] at hb
  obtain ⟨blk, hblk, rfl⟩ := hb
  have hty' : blk.ty = .table := hty
  obtain ⟨hslice, _, _, _⟩ := C03.segment_origin_row rows blk hblk
  obtain ⟨r, g, hrows, hk⟩ := (run_headOK rowKind rows blk hblk).1 hty'
  obtain ⟨s, tail, rfl, hcls⟩ := rowKind_tbl r hk
  have hsl := hslice (by rw [hty']; decide)
  rw [hrows] at hsl
  refine ⟨s, tail, take_drop_head rows blk.first _ _ _ hsl, (C03.classify_table s).1 hcls, ?_⟩
  simp [toFBlock, hty', hrows, firstStr]

/-- the same for directives, and every directive line is the first cell of a later row of the sheet -/
theorem ofRows_directive_row (name : Option Str) (use : Bool) (rows : List Row) :
    ∀ b ∈ (Sheet.ofRows name use rows).blocks, b.ty = .directive →
      (∃ s tail, rows[b.row]? = some (.str s :: tail) ∧ C03.Spec.IsDirective s ∧ b.name = s.drop 3) ∧
      ∀ ln ∈ b.lines, ∃ r ∈ rows.drop (b.row + 1), lineTok r = ln := by
  intro b hb hty
  simp only [Sheet.ofRows, List.mem_map] at hb
  obtain ⟨blk, hblk, rfl⟩ := hb
  have hty' : blk.ty = .directive := hty
  obtain ⟨hslice, _, _, _⟩ := C03.segment_origin_row rows blk hblk
  obtain ⟨r, g, hrows, hk⟩ := (run_headOK rowKind rows blk hblk).2 hty'
  obtain ⟨s, tail, rfl, hcls⟩ := rowKind_dir r hk
  have hsl := hslice (by rw [hty']; decide)
  rw [hrows] at hsl
  constructor
  · refine ⟨s, tail, take_drop_head rows blk.first _ _ _ hsl, (C03.classify_directive s).1 hcls, ?_⟩
    simp [toFBlock, hty', hrows, firstStr]
  · intro ln hln
    simp only [toFBlock, hty', hrows, List.tail_cons, List.mem_map] at hln
    obtain ⟨r', hr', rfl⟩ := hln
    refine ⟨r', ?_, rfl⟩
    have hmem : r' ∈ ((rows.drop blk.first).take (List.length ((Cell.str s :: tail) :: g))).tail := by
      rw [hsl]; simpa using hr'
    have h1 : r' ∈ (rows.drop blk.first).tail := by
      have := List.mem_of_mem_tail hmem
      cases hd : rows.drop blk.first with
      | nil => simp [hd] at hmem
      | cons a t =>
        rw [hd] at hmem
        simp only [List.length_cons, List.take_succ_cons, List.tail_cons] at hmem
        simpa using List.mem_of_mem_take hmem
    have h2 : r' ∈ rows.drop (blk.first + 1) := by simpa [List.tail_drop] using h1
    exact h2

/-- marking the tables that do not parse changes nothing else about the blocks of a sheet -/
theorem ofRowsBad_mem (name : Option Str) (use : Bool) (rows : List Row) (bad : List Nat) (b : FBlock)
    (hb : b ∈ (Sheet.ofRowsBad name use rows bad).blocks) :
    ∃ b0 ∈ (Sheet.ofRows name use rows).blocks, b0.ty = b.ty ∧ b0.row = b.row ∧ b0.name = b.name := by
  simp only [Sheet.ofRowsBad, List.mem_map] at hb
  obtain ⟨blk, hblk, rfl⟩ := hb
  exact ⟨toFBlock blk, by simp only [Sheet.ofRows, List.mem_map]; exact ⟨blk, hblk, rfl⟩, rfl, rfl, rfl⟩

/-! ## 2. origin_file_sheet_row -/

/-- **origin_file_sheet_row**: in a world whose sheets are what `parse_blocks` makes of their rows (`rowsOf`),
    every yielded table is stamped with a location that was read (the file being read), a sheet of that file
    that is read (its name, or none for CSV), and the index of its `**name` row in that sheet's rows. -/
theorem origin_file_sheet_row (w : World) (cfg : Cfg) (roots : List Str)
    (rowsOf : Loc → Option Str → List Row)
    (badOf : Loc → Option Str → List Nat)
    (hw : ∀ l sheets, lookupNode w l = some (.file sheets) → ∀ s ∈ sheets,
      s.blocks = (Sheet.ofRowsBad s.name s.use (rowsOf l s.name) (badOf l s.name)).blocks) :
    ∀ o ∈ (loadFiles w cfg roots).1.out, o.blk.ty = .table →
      o.loc ∈ (loadFiles w cfg roots).1.visited ∧
      (∃ sheets s, lookupNode w o.loc = some (.file sheets) ∧ s ∈ sheets ∧ s.use = true ∧ o.sheet = s.name) ∧
      ∃ str tail, (rowsOf o.loc o.sheet)[o.blk.row]? = some (.str str :: tail) ∧
        C03.Spec.IsTable str ∧ o.blk.name = str.drop 2 := by
  intro o ho hty
  obtain ⟨hv, _, sheets, s, hn, hs, hu, hname, hb, _⟩ := C16.yielded_from_visited w cfg roots o ho
  refine ⟨hv, ⟨sheets, s, hn, hs, hu, hname⟩, ?_⟩
  rw [hw o.loc sheets hn s hs] at hb
  rw [hname]
  obtain ⟨b0, hb0, h1, h2, h3⟩ := ofRowsBad_mem _ _ _ _ _ hb
  obtain ⟨str, tail, e1, e2, e3⟩ := ofRows_table_row s.name s.use (rowsOf o.loc s.name) b0 hb0 (h1 ▸ hty)
  exact ⟨str, tail, h2 ▸ e1, e2, h3 ▸ e3⟩

/-! ## 3. history_is_include_path -/

namespace Spec

/-- the step `(spec, source)` of a load history is present at its source: a matching entry of that folder, or
    a line of an include directive at that row of that (read) sheet of that file -/
def StepPresent (w : World) (spec : Str) (a : Anchor) : Prop :=
  match a.pos with
  | none => ∃ ch, lookupNode w a.loc = some (.folder ch) ∧ (spec, true) ∈ ch
  | some (sh, row) =>
    ∃ sheets s b, lookupNode w a.loc = some (.file sheets) ∧ s ∈ sheets ∧ s.use = true ∧ s.name = sh ∧
      b ∈ s.blocks ∧ C16.Spec.IsInclude b ∧ b.row = row ∧ spec ∈ b.lines

/-- a load history that is an include path: it ends at a root specification, every step is present at its
    source, and the item the source's file was loaded by leads to that file -/
inductive ValidHistory (w : World) (roots : List Str) : Item → Prop
  | root {s} : s ∈ roots → ValidHistory w roots (.root s)
  | inc {s a p} : ValidHistory w roots p → StepPresent w s a → resolveItem w p = some a.loc →
      ValidHistory w roots (.inc s a p)

end Spec

theorem pushes_shape (w : World) (allow raising : Bool) (l : Loc) (it : Item) (node : Node)
    (hn : lookupNode w l = some node) :
    ∀ x ∈ nodePushes allow l it (effNode raising node),
      ∃ s a, x = .inc s a it ∧ a.loc = l ∧ Spec.StepPresent w s a := by
  intro x hx
  cases node with
  | unreadable => simp [nodePushes, effNode] at hx
  | folder ch =>
    simp only [effNode, nodePushes, folderPushes, List.mem_map, List.mem_filter] at hx
    obtain ⟨c, ⟨hc, hm⟩, rfl⟩ := hx
    refine ⟨c.1, ⟨l, none⟩, rfl, rfl, ?_⟩
    refine ⟨ch, hn, ?_⟩
    have : c = (c.1, true) := by rw [← hm]
    rw [← this]; exact hc
  | file sheets =>
    simp only [effNode, nodePushes, List.mem_flatMap] at hx
    obtain ⟨s', hs', hx⟩ := hx
    unfold sheetPushes at hx
    split at hx
    · rename_i hu
      simp only [List.mem_flatMap] at hx
      obtain ⟨b, hb, hx⟩ := hx
      unfold blockPushes at hx
      split at hx
      · rename_i hinc
        simp only [List.mem_map] at hx
        obtain ⟨ln, hln, rfl⟩ := hx
        obtain ⟨s, hs, hsu, hname, hblk⟩ := C16.mem_cutSheets raising sheets s' hs' hu
        refine ⟨ln, ⟨l, some (s'.name, b.row)⟩, rfl, rfl, ?_⟩
        simp only [Bool.and_eq_true] at hinc
        exact ⟨sheets, s, b, hn, hs, hsu, hname.symm, (hblk b hb).1, (C16.isInclude_iff b).1 hinc.2, rfl, hln⟩
      · simp at hx
    · simp at hx

/-- invariant: every pending item and the item of every yielded block is a valid include path, and the item of a
    yielded block leads to the location the block was read from -/
structure HistInv (w : World) (roots : List Str) (st : LSt) : Prop where
  stk : ∀ it ∈ st.stack, Spec.ValidHistory w roots it
  out : ∀ o ∈ st.out, Spec.ValidHistory w roots o.item ∧ resolveItem w o.item = some o.loc

theorem nodeOuts_item (allow : Bool) (l : Loc) (it : Item) (node : Node) :
    ∀ o ∈ nodeOuts allow l it node, o.item = it ∧ o.loc = l := by
  intro o ho
  cases node with
  | folder ch => simp [nodeOuts] at ho
  | unreadable => simp [nodeOuts] at ho
  | file sheets =>
    simp only [nodeOuts, List.mem_flatMap] at ho
    obtain ⟨s, _, ho⟩ := ho
    unfold sheetOuts at ho
    split at ho
    · simp only [List.mem_flatMap] at ho
      obtain ⟨b, _, ho⟩ := ho
      unfold blockOuts at ho
      split at ho
      · simp at ho
      · simp only [List.mem_singleton] at ho
        subst ho
        exact ⟨rfl, rfl⟩
    · simp at ho

theorem histInv_final (w : World) (cfg : Cfg) (roots : List Str) :
    HistInv w roots (loadFiles w cfg roots).1 := by
  apply C16.run_inv w cfg (HistInv w roots)
  · intro st r h hc
    have keep : ∀ it rest, pop cfg.pick st.stack = some (it, rest) →
        ∀ x ∈ rest, Spec.ValidHistory w roots x := fun it rest hp x hx =>
      h.stk x ((C16.pop_mem _ _ _ _ hp x).2 (Or.inr hx))
    cases hc with
    | empty => exact h
    | resolveFailRaising it rest hp => exact ⟨keep it rest hp, h.out⟩
    | resolveFailCollect it rest hp => exact ⟨keep it rest hp, h.out⟩
    | missing it rest l hp => exact ⟨keep it rest hp, h.out⟩
    | dupRaising it rest l node hp => exact ⟨keep it rest hp, h.out⟩
    | dupCollect it rest l node hp => exact ⟨keep it rest hp, h.out⟩
    | read it rest l node hp hr hn hv =>
      have hit : Spec.ValidHistory w roots it := h.stk it ((C16.pop_mem _ _ _ _ hp it).2 (Or.inl rfl))
      constructor
      · intro x hx
        simp only [List.mem_append] at hx
        rcases hx with hx | hx
        · exact keep it rest hp x hx
        · obtain ⟨s, a, rfl, ha, hpres⟩ := pushes_shape w _ cfg.raising l it node hn x hx
          exact .inc hit hpres (by rw [ha]; exact hr)
      · intro o ho
        simp only [List.mem_append] at ho
        rcases ho with ho | ho
        · exact h.out o ho
        · obtain ⟨h1, h2⟩ := nodeOuts_item _ l it _ o ho
          rw [h1, h2]; exact ⟨hit, hr⟩
  · constructor
    · intro it hit
      simp [loadInit] at hit
      obtain ⟨s, hs, rfl⟩ := hit
      exact .root hs
    · intro o ho; simp [loadInit] at ho

/-- **history_is_include_path**: the load specification of every yielded block (`load_history()` walks exactly
    this chain) leads to the file the block was read from and is an include path back to a root: every step is a
    line of an include directive, or a matching folder entry, actually present at its source -/
theorem history_is_include_path (w : World) (cfg : Cfg) (roots : List Str) :
    ∀ o ∈ (loadFiles w cfg roots).1.out,
      Spec.ValidHistory w roots o.item ∧ resolveItem w o.item = some o.loc :=
  (histInv_final w cfg roots).out

/-- `load_history()` as a list: the steps of the chain, the last one source-less -/
theorem history_list (it : Item) :
    it.history ≠ [] ∧ (it.history.getLast?.map (·.2)) = some none ∧
    ∀ e ∈ it.history.dropLast, e.2 ≠ none := by
  induction it with
  | root s => simp [Item.history]
  | inc s a p ih =>
    obtain ⟨h1, h2, h3⟩ := ih
    refine ⟨by simp [Item.history], ?_, ?_⟩
    · simp only [Item.history]
      rw [List.getLast?_cons_of_ne_nil h1]
      exact h2
    · intro e he
      simp only [Item.history] at he
      rw [List.dropLast_cons_of_ne_nil h1] at he
      simp only [List.mem_cons] at he
      rcases he with rfl | he
      · simp
      · exact h3 e he

/-! ## 4. The locations along a history are pairwise distinct and differ from the file itself -/

def chainLocs : Item → List Loc
  | .root _ => []
  | .inc _ a p => a.loc :: chainLocs p

structure ChainInv (st : LSt) : Prop where
  stk : ∀ it ∈ st.stack, (chainLocs it).Nodup ∧ ∀ l ∈ chainLocs it, l ∈ st.visited
  out : ∀ o ∈ st.out, (o.loc :: chainLocs o.item).Nodup

theorem chainInv_final (w : World) (cfg : Cfg) (roots : List Str) :
    ChainInv (loadFiles w cfg roots).1 := by
  apply C16.run_inv w cfg ChainInv
  · intro st r h hc
    have keep : ∀ it rest, pop cfg.pick st.stack = some (it, rest) →
        ∀ x ∈ rest, (chainLocs x).Nodup ∧ ∀ l ∈ chainLocs x, l ∈ st.visited := fun it rest hp x hx =>
      h.stk x ((C16.pop_mem _ _ _ _ hp x).2 (Or.inr hx))
    cases hc with
    | empty => exact h
    | resolveFailRaising it rest hp => exact ⟨keep it rest hp, h.out⟩
    | resolveFailCollect it rest hp => exact ⟨keep it rest hp, h.out⟩
    | missing it rest l hp => exact ⟨keep it rest hp, h.out⟩
    | dupRaising it rest l node hp => exact ⟨keep it rest hp, h.out⟩
    | dupCollect it rest l node hp => exact ⟨keep it rest hp, h.out⟩
    | read it rest l node hp hr hn hv =>
      obtain ⟨hnd, hsub⟩ := h.stk it ((C16.pop_mem _ _ _ _ hp it).2 (Or.inl rfl))
      have hl : l ∉ chainLocs it := fun hm => hv (hsub l hm)
      constructor
      · intro x hx
        simp only [List.mem_append] at hx
        rcases hx with hx | hx
        · obtain ⟨h1, h2⟩ := keep it rest hp x hx
          exact ⟨h1, fun y hy => List.mem_append_left _ (h2 y hy)⟩
        · obtain ⟨s, a, rfl, ha, _⟩ := pushes_shape w _ cfg.raising l it node hn x hx
          simp only [chainLocs, ha]
          refine ⟨List.nodup_cons.2 ⟨hl, hnd⟩, ?_⟩
          intro y hy
          simp only [List.mem_cons] at hy
          rcases hy with rfl | hy
          · simp
          · exact List.mem_append_left _ (hsub y hy)
      · intro o ho
        simp only [List.mem_append] at ho
        rcases ho with ho | ho
        · exact h.out o ho
        · obtain ⟨h1, h2⟩ := nodeOuts_item _ l it _ o ho
          rw [h1, h2]; exact List.nodup_cons.2 ⟨hl, hnd⟩
  · constructor
    · intro it hit
      simp [loadInit] at hit
      obtain ⟨s, _, rfl⟩ := hit
      simp [chainLocs]
    · intro o ho; simp [loadInit] at ho

/-- **history_locations_distinct**: the file a block was read from and the locations of the sources along its
    load history are pairwise distinct (no location includes itself on the way to a block that was read) -/
theorem history_locations_distinct (w : World) (cfg : Cfg) (roots : List Str) :
    ∀ o ∈ (loadFiles w cfg roots).1.out, (o.loc :: chainLocs o.item).Nodup :=
  (chainInv_final w cfg roots).out

/-! ## 5. make_location_trees builds a forest -/

def keys (buf : Buf) : List Key := buf.map (·.key)

/-- (node identifier, identifier of its parent) for every node of the buffer -/
def skel (buf : Buf) : List (Key × Option Key) := buf.map (fun n => (n.key, n.parent))

theorem keys_skel (buf : Buf) : (skel buf).map (·.1) = keys buf := by
  simp [skel, keys, List.map_map, Function.comp_def]

theorem hasKey_iff (buf : Buf) (k : Key) : hasKey buf k = true ↔ k ∈ keys buf := by
  simp [hasKey, keys, List.any_eq_true]

theorem skel_addChild (buf : Buf) (k : Key) (c : Child) : skel (addChild buf k c) = skel buf := by
  simp only [skel, addChild, List.map_map]
  apply List.map_congr_left
  intro n _
  by_cases h : n.key = k <;> simp [h]

theorem keys_addChild (buf : Buf) (k : Key) (c : Child) : keys (addChild buf k c) = keys buf := by
  rw [← keys_skel, skel_addChild, keys_skel]

/-- the (node, parent) pairs one `register_node` call creates: walk up the history until an existing node -/
def newPairs (ks : List Key) (k : Key) : Item → List (Key × Option Key)
  | .root _ => if k ∈ ks then [] else [(k, none)]
  | .inc _ a p => if k ∈ ks then [] else (k, some a.key) :: newPairs (ks ++ [k]) a.key p

theorem skel_register (buf : Buf) (k : Key) (c : Child) (it : Item) :
    skel (register buf k c it) = skel buf ++ newPairs (keys buf) k it := by
  induction it generalizing buf k c with
  | root s =>
    unfold register newPairs
    by_cases h : k ∈ keys buf
    · simp [(hasKey_iff buf k).2 h, h, skel_addChild]
    · have : hasKey buf k = false := by
        cases hh : hasKey buf k with
        | false => rfl
        | true => exact absurd ((hasKey_iff buf k).1 hh) h
      simp [this, h, skel]
  | inc s a p ih =>
    unfold register newPairs
    by_cases h : k ∈ keys buf
    · simp [(hasKey_iff buf k).2 h, h, skel_addChild]
    · have : hasKey buf k = false := by
        cases hh : hasKey buf k with
        | false => rfl
        | true => exact absurd ((hasKey_iff buf k).1 hh) h
      simp only [this, h, if_false, Bool.false_eq_true]
      rw [ih]
      simp [skel, keys]

/-- the chain of (node, parent) pairs a location with this load specification stands for -/
def chainPairs (k : Key) : Item → List (Key × Option Key)
  | .root _ => [(k, none)]
  | .inc _ a p => (k, some a.key) :: chainPairs a.key p

def chainKeys (k : Key) (it : Item) : List Key := (chainPairs k it).map (·.1)

theorem newPairs_sub (ks : List Key) (k : Key) (it : Item) :
    ∀ x ∈ newPairs ks k it, x ∈ chainPairs k it := by
  induction it generalizing ks k with
  | root s => intro x hx; unfold newPairs at hx; split at hx <;> simp_all [chainPairs]
  | inc s a p ih =>
    intro x hx
    unfold newPairs at hx
    split at hx
    · simp at hx
    · simp only [List.mem_cons] at hx
      rcases hx with rfl | hx
      · simp [chainPairs]
      · simp only [chainPairs, List.mem_cons]; exact Or.inr (ih _ _ x hx)

theorem newPairs_keys_fresh (ks : List Key) (k : Key) (it : Item) (hks : ks.Nodup) :
    (ks ++ (newPairs ks k it).map (·.1)).Nodup := by
  induction it generalizing ks k with
  | root s =>
    unfold newPairs
    by_cases h : k ∈ ks
    · simpa [h] using hks
    · simp only [h, if_false, List.map_cons, List.map_nil]
      rw [List.nodup_append]
      refine ⟨hks, by simp, ?_⟩
      intro a ha b hb
      simp at hb; subst hb
      exact fun e => h (e ▸ ha)
  | inc s a p ih =>
    unfold newPairs
    by_cases h : k ∈ ks
    · simpa [h] using hks
    · simp only [h, if_false, List.map_cons]
      have hks' : (ks ++ [k]).Nodup := by
        rw [List.nodup_append]
        refine ⟨hks, by simp, ?_⟩
        intro a ha b hb
        simp at hb; subst hb
        exact fun e => h (e ▸ ha)
      have := ih (ks ++ [k]) a.key hks'
      simpa [List.append_assoc] using this

theorem keys_register_nodup (buf : Buf) (k : Key) (c : Child) (it : Item) (h : (keys buf).Nodup) :
    (keys (register buf k c it)).Nodup := by
  rw [← keys_skel, skel_register, List.map_append, keys_skel]
  exact newPairs_keys_fresh (keys buf) k it h

theorem mem_keys_register (buf : Buf) (k : Key) (c : Child) (it : Item) :
    k ∈ keys (register buf k c it) ∧ ∀ x ∈ keys buf, x ∈ keys (register buf k c it) := by
  rw [← keys_skel, skel_register, List.map_append, keys_skel]
  refine ⟨?_, fun x hx => List.mem_append_left _ hx⟩
  by_cases h : k ∈ keys buf
  · exact List.mem_append_left _ h
  · apply List.mem_append_right
    cases it <;> simp [newPairs, h]

/-! ### leaves -/

def leafOf (k : Key) : Child → List (Nat × Key)
  | .leaf i => [(i, k)]
  | .node _ => []

/-- (table number, identifier of the node the leaf hangs under) for every leaf -/
def leavesOf (buf : Buf) : List (Nat × Key) := buf.flatMap (fun n => n.children.flatMap (leafOf n.key))

theorem addChild_absent (buf : Buf) (k : Key) (c : Child) (h : k ∉ keys buf) : addChild buf k c = buf := by
  unfold addChild
  conv => rhs; rw [← List.map_id buf]
  apply List.map_congr_left
  intro n hn
  have : ¬ n.key = k := fun e => h (by rw [← e]; exact List.mem_map_of_mem hn)
  simp [this]

theorem leaves_addChild (buf : Buf) (k : Key) (c : Child) (hn : (keys buf).Nodup) (hk : k ∈ keys buf) :
    (leavesOf (addChild buf k c)).Perm (leavesOf buf ++ leafOf k c) := by
  induction buf with
  | nil => simp [keys] at hk
  | cons n rest ih =>
    have hnd : n.key ∉ keys rest ∧ (keys rest).Nodup := by simpa [keys] using hn
    by_cases e : n.key = k
    · have hrest : addChild rest k c = rest := addChild_absent rest k c (e ▸ hnd.1)
      have : addChild (n :: rest) k c = { n with children := n.children ++ [c] } :: rest := by
        simp only [addChild, List.map_cons, e, if_true] at hrest ⊢
        rw [hrest]
      rw [this]
      simp only [leavesOf, List.flatMap_cons, List.flatMap_append, List.flatMap_nil, List.append_nil, e]
      rw [List.append_assoc, List.append_assoc]
      exact List.Perm.append_left _ List.perm_append_comm
    · have hk' : k ∈ keys rest := by
        simp only [keys, List.map_cons, List.mem_cons] at hk
        rcases hk with hk | hk
        · exact absurd hk.symm e
        · exact hk
      have : addChild (n :: rest) k c = n :: addChild rest k c := by
        simp [addChild, e]
      rw [this]
      simp only [leavesOf, List.flatMap_cons, List.append_assoc]
      exact List.Perm.append_left _ (ih hnd.2 hk')

theorem leaves_register (buf : Buf) (k : Key) (c : Child) (it : Item) (hn : (keys buf).Nodup) :
    (leavesOf (register buf k c it)).Perm (leavesOf buf ++ leafOf k c) := by
  induction it generalizing buf k c with
  | root s =>
    unfold register
    by_cases h : k ∈ keys buf
    · simp only [(hasKey_iff buf k).2 h, if_true]; exact leaves_addChild buf k c hn h
    · have : hasKey buf k = false := by
        cases hh : hasKey buf k with
        | false => rfl
        | true => exact absurd ((hasKey_iff buf k).1 hh) h
      simp [this, leavesOf]
  | inc s a p ih =>
    unfold register
    by_cases h : k ∈ keys buf
    · simp only [(hasKey_iff buf k).2 h, if_true]; exact leaves_addChild buf k c hn h
    · have hf : hasKey buf k = false := by
        cases hh : hasKey buf k with
        | false => rfl
        | true => exact absurd ((hasKey_iff buf k).1 hh) h
      simp only [hf, Bool.false_eq_true, if_false]
      have hn' : (keys (buf ++ [⟨k, some a.key, [c]⟩])).Nodup := by
        simp only [keys, List.map_append, List.map_cons, List.map_nil]
        rw [List.nodup_append]
        refine ⟨hn, by simp, ?_⟩
        intro x hx y hy
        simp at hy; subst hy
        exact fun e => h (e ▸ hx)
      have := ih (buf ++ [⟨k, some a.key, [c]⟩]) a.key (.node k) hn'
      simpa [leavesOf, leafOf] using this

def fileKeysFrom (i : Nat) : List Out → List (Nat × Key)
  | [] => []
  | t :: ts => (i, ⟨t.loc, none⟩) :: fileKeysFrom (i + 1) ts

theorem keys_treesGo_nodup (buf : Buf) (i : Nat) (ts : List Out) (h : (keys buf).Nodup) :
    (keys (treesGo buf i ts)).Nodup := by
  induction ts generalizing buf i with
  | nil => exact h
  | cons t ts ih => exact ih _ _ (keys_register_nodup buf _ _ _ h)

theorem leaves_treesGo (buf : Buf) (i : Nat) (ts : List Out) (h : (keys buf).Nodup) :
    (leavesOf (treesGo buf i ts)).Perm (leavesOf buf ++ fileKeysFrom i ts) := by
  induction ts generalizing buf i with
  | nil => simp [treesGo, fileKeysFrom]
  | cons t ts ih =>
    simp only [treesGo, fileKeysFrom]
    refine (ih _ (i + 1) (keys_register_nodup buf _ _ _ h)).trans ?_
    have := (leaves_register buf ⟨t.loc, none⟩ (.leaf i) t.item h).append_right (fileKeysFrom (i + 1) ts)
    simpa [leafOf, List.append_assoc] using this

theorem fileKeysFrom_idx (i : Nat) (ts : List Out) :
    (fileKeysFrom i ts).map (·.1) = List.range' i ts.length := by
  induction ts generalizing i with
  | nil => rfl
  | cons t ts ih => simp [fileKeysFrom, ih, List.range'_succ]

/-! ### parents and children -/

def allPairs (ts : List Out) : List (Key × Option Key) :=
  ts.flatMap (fun t => chainPairs ⟨t.loc, none⟩ t.item)

theorem skel_treesGo_sub (buf : Buf) (i : Nat) (ts : List Out) :
    ∀ x ∈ skel (treesGo buf i ts), x ∈ skel buf ∨ x ∈ allPairs ts := by
  induction ts generalizing buf i with
  | nil => intro x hx; exact Or.inl hx
  | cons t ts ih =>
    intro x hx
    rcases ih _ _ x hx with h | h
    · rw [skel_register] at h
      rcases List.mem_append.1 h with h | h
      · exact Or.inl h
      · exact Or.inr (by simp only [allPairs, List.flatMap_cons]
                         exact List.mem_append_left _ (newPairs_sub _ _ _ x h))
    · exact Or.inr (by simp only [allPairs, List.flatMap_cons]; exact List.mem_append_right _ h)

theorem keys_treesGo_mono (buf : Buf) (i : Nat) (ts : List Out) :
    (∀ x ∈ keys buf, x ∈ keys (treesGo buf i ts)) ∧
    ∀ t ∈ ts, (⟨t.loc, none⟩ : Key) ∈ keys (treesGo buf i ts) := by
  induction ts generalizing buf i with
  | nil => exact ⟨fun x hx => hx, by simp⟩
  | cons t ts ih =>
    obtain ⟨h1, h2⟩ := ih (register buf ⟨t.loc, none⟩ (.leaf i) t.item) (i + 1)
    obtain ⟨m1, m2⟩ := mem_keys_register buf ⟨t.loc, none⟩ (.leaf i) t.item
    refine ⟨fun x hx => h1 x (m2 x hx), ?_⟩
    intro t' ht'
    simp only [List.mem_cons] at ht'
    rcases ht' with rfl | ht'
    · exact h1 _ m1
    · exact h2 t' ht'

/-- a child entry is backed by the child's parent link -/
def ChildOK (sk : List (Key × Option Key)) (k : Key) : Child → Prop
  | .leaf _ => True
  | .node k' => (k', some k) ∈ sk

def ChildrenInv (buf : Buf) : Prop := ∀ m ∈ buf, ∀ c ∈ m.children, ChildOK (skel buf) m.key c

theorem childOK_mono (sk sk' : List (Key × Option Key)) (k : Key) (c : Child)
    (h : ∀ x ∈ sk, x ∈ sk') (hc : ChildOK sk k c) : ChildOK sk' k c := by
  cases c with
  | leaf i => trivial
  | node k' => exact h _ hc

theorem childrenInv_addChild (buf : Buf) (k : Key) (c : Child) (h : ChildrenInv buf)
    (hc : ChildOK (skel buf) k c) : ChildrenInv (addChild buf k c) := by
  intro m hm c' hc'
  rw [skel_addChild]
  simp only [addChild, List.mem_map] at hm
  obtain ⟨n, hn, rfl⟩ := hm
  by_cases e : n.key = k
  · simp only [e, if_true] at hc' ⊢
    simp only [List.mem_append, List.mem_singleton] at hc'
    rcases hc' with hc' | rfl
    · exact e ▸ h n hn c' hc'
    · exact hc
  · simp only [e, if_false] at hc' ⊢
    exact h n hn c' hc'

theorem childrenInv_register (buf : Buf) (k : Key) (c : Child) (it : Item) (h : ChildrenInv buf)
    (hc : ChildOK (skel buf) k c) : ChildrenInv (register buf k c it) := by
  induction it generalizing buf k c with
  | root s =>
    unfold register
    split
    · exact childrenInv_addChild buf k c h hc
    · intro m hm c' hc'
      have hsub : ∀ x ∈ skel buf, x ∈ skel (buf ++ [⟨k, none, [c]⟩]) := by
        intro x hx; simp only [skel, List.map_append]; exact List.mem_append_left _ hx
      simp only [List.mem_append, List.mem_singleton] at hm
      rcases hm with hm | rfl
      · exact childOK_mono _ _ _ _ hsub (h m hm c' hc')
      · simp only [List.mem_singleton] at hc'
        subst hc'
        exact childOK_mono _ _ _ _ hsub hc
  | inc s a p ih =>
    unfold register
    split
    · exact childrenInv_addChild buf k c h hc
    · apply ih
      · intro m hm c' hc'
        have hsub : ∀ x ∈ skel buf, x ∈ skel (buf ++ [⟨k, some a.key, [c]⟩]) := by
          intro x hx; simp only [skel, List.map_append]; exact List.mem_append_left _ hx
        simp only [List.mem_append, List.mem_singleton] at hm
        rcases hm with hm | rfl
        · exact childOK_mono _ _ _ _ hsub (h m hm c' hc')
        · simp only [List.mem_singleton] at hc'
          subst hc'
          exact childOK_mono _ _ _ _ hsub hc
      · show (k, some a.key) ∈ skel (buf ++ [⟨k, some a.key, [c]⟩])
        simp [skel]

theorem childrenInv_treesGo (buf : Buf) (i : Nat) (ts : List Out) (h : ChildrenInv buf) :
    ChildrenInv (treesGo buf i ts) := by
  induction ts generalizing buf i with
  | nil => exact h
  | cons t ts ih => exact ih _ _ (childrenInv_register buf _ _ _ h trivial)

/-- every parent link is backed by a child entry of the parent node, except the one still being registered -/
def ParentInv (buf : Buf) (pend : Option (Key × Key)) : Prop :=
  ∀ k' p, (k', some p) ∈ skel buf →
    pend = some (k', p) ∨ ∃ m ∈ buf, m.key = p ∧ Child.node k' ∈ m.children

def pendOf (k : Key) : Child → Option (Key × Key)
  | .leaf _ => none
  | .node k' => some (k', k)

theorem addChild_mem (buf : Buf) (k : Key) (c : Child) (m : TNode) (hm : m ∈ buf) :
    ∃ m' ∈ addChild buf k c, m'.key = m.key ∧ (∀ x ∈ m.children, x ∈ m'.children) ∧
      (m.key = k → c ∈ m'.children) := by
  by_cases e : m.key = k
  · refine ⟨{ m with children := m.children ++ [c] }, ?_, rfl, ?_, ?_⟩
    · simp only [addChild, List.mem_map]; exact ⟨m, hm, by simp [e]⟩
    · intro x hx; exact List.mem_append_left _ hx
    · intro _; simp
  · refine ⟨m, ?_, rfl, fun x hx => hx, fun h => absurd h e⟩
    simp only [addChild, List.mem_map]; exact ⟨m, hm, by simp [e]⟩

theorem parentInv_register (buf : Buf) (k : Key) (c : Child) (it : Item)
    (h : ParentInv buf (pendOf k c)) : ParentInv (register buf k c it) none := by
  induction it generalizing buf k c with
  | root s =>
    unfold register
    split
    · rename_i hk
      obtain ⟨n, hn, hnk⟩ : ∃ n ∈ buf, n.key = k := by
        have := (hasKey_iff buf k).1 hk
        simpa [keys] using this
      intro k' p hp
      rw [skel_addChild] at hp
      rcases h k' p hp with hpend | ⟨m, hm, h1, h2⟩
      · right
        cases c with
        | leaf i => simp [pendOf] at hpend
        | node kc =>
          simp only [pendOf, Option.some.injEq, Prod.mk.injEq] at hpend
          obtain ⟨rfl, rfl⟩ := hpend
          obtain ⟨m', hm', e1, _, e3⟩ := addChild_mem buf k (.node kc) n hn
          exact ⟨m', hm', by rw [e1, hnk], e3 hnk⟩
      · right
        obtain ⟨m', hm', e1, e2, _⟩ := addChild_mem buf k c m hm
        exact ⟨m', hm', by rw [e1, h1], e2 _ h2⟩
    · intro k' p hp
      simp only [skel, List.map_append, List.map_cons, List.map_nil, List.mem_append, List.mem_singleton,
        Prod.mk.injEq] at hp
      rcases hp with hp | hp
      · rcases h k' p hp with hpend | ⟨m, hm, h1, h2⟩
        · right
          cases c with
          | leaf i => simp [pendOf] at hpend
          | node kc =>
            simp only [pendOf, Option.some.injEq, Prod.mk.injEq] at hpend
            obtain ⟨rfl, rfl⟩ := hpend
            exact ⟨⟨k, none, [.node kc]⟩, by simp, rfl, by simp⟩
        · exact Or.inr ⟨m, List.mem_append_left _ hm, h1, h2⟩
      · simp at hp
  | inc s a p ih =>
    unfold register
    split
    · rename_i hk
      obtain ⟨n, hn, hnk⟩ : ∃ n ∈ buf, n.key = k := by
        have := (hasKey_iff buf k).1 hk
        simpa [keys] using this
      intro k' p' hp
      rw [skel_addChild] at hp
      rcases h k' p' hp with hpend | ⟨m, hm, h1, h2⟩
      · right
        cases c with
        | leaf i => simp [pendOf] at hpend
        | node kc =>
          simp only [pendOf, Option.some.injEq, Prod.mk.injEq] at hpend
          obtain ⟨rfl, rfl⟩ := hpend
          obtain ⟨m', hm', e1, _, e3⟩ := addChild_mem buf k (.node kc) n hn
          exact ⟨m', hm', by rw [e1, hnk], e3 hnk⟩
      · right
        obtain ⟨m', hm', e1, e2, _⟩ := addChild_mem buf k c m hm
        exact ⟨m', hm', by rw [e1, h1], e2 _ h2⟩
    · apply ih
      intro k' p' hp
      simp only [skel, List.map_append, List.map_cons, List.map_nil, List.mem_append, List.mem_singleton,
        Prod.mk.injEq] at hp
      rcases hp with hp | hp
      · rcases h k' p' hp with hpend | ⟨m, hm, h1, h2⟩
        · right
          cases c with
          | leaf i => simp [pendOf] at hpend
          | node kc =>
            simp only [pendOf, Option.some.injEq, Prod.mk.injEq] at hpend
            obtain ⟨rfl, rfl⟩ := hpend
            exact ⟨⟨k, some a.key, [.node kc]⟩, by simp, rfl, by simp⟩
        · exact Or.inr ⟨m, List.mem_append_left _ hm, h1, h2⟩
      · left
        simp only [Option.some.injEq] at hp
        obtain ⟨rfl, rfl⟩ := hp
        rfl

theorem parentInv_treesGo (buf : Buf) (i : Nat) (ts : List Out) (h : ParentInv buf none) :
    ParentInv (treesGo buf i ts) none := by
  induction ts generalizing buf i with
  | nil => exact h
  | cons t ts ih => exact ih _ _ (parentInv_register buf _ _ _ (by simpa [pendOf] using h))

/-! ### every node reaches a root -/

/-- following parent links from `k` ends at a node without parent -/
inductive Rooted (sk : List (Key × Option Key)) : Key → Prop
  | root {k} : (k, none) ∈ sk → Rooted sk k
  | up {k p} : (k, some p) ∈ sk → Rooted sk p → Rooted sk k

theorem rooted_mono (sk sk' : List (Key × Option Key)) (h : ∀ x ∈ sk, x ∈ sk') (k : Key)
    (hr : Rooted sk k) : Rooted sk' k := by
  induction hr with
  | root hm => exact .root (h _ hm)
  | up hm _ ih => exact .up (h _ hm) ih

/-- the pairs created when the history's own identifiers are pairwise distinct: membership in the old buffer
    is all that matters -/
def newPairs' (ks : List Key) (k : Key) : Item → List (Key × Option Key)
  | .root _ => if k ∈ ks then [] else [(k, none)]
  | .inc _ a p => if k ∈ ks then [] else (k, some a.key) :: newPairs' ks a.key p

theorem newPairs'_extra (ks : List Key) (x k : Key) (it : Item) (hx : x ∉ chainKeys k it) :
    newPairs' (ks ++ [x]) k it = newPairs' ks k it := by
  induction it generalizing k with
  | root s =>
    have : ¬ k = x := by
      intro e; apply hx; simp [chainKeys, chainPairs, e]
    simp [newPairs', this]
  | inc s a p ih =>
    have h1 : ¬ k = x := by
      intro e; apply hx; simp [chainKeys, chainPairs, e]
    have h2 : x ∉ chainKeys a.key p := by
      intro hm; apply hx
      simp only [chainKeys, chainPairs, List.map_cons, List.mem_cons]
      exact Or.inr hm
    simp [newPairs', h1, ih a.key h2]

theorem newPairs_eq (ks : List Key) (k : Key) (it : Item) (h : (chainKeys k it).Nodup) :
    newPairs ks k it = newPairs' ks k it := by
  induction it generalizing ks k with
  | root s => rfl
  | inc s a p ih =>
    have hnd : k ∉ chainKeys a.key p ∧ (chainKeys a.key p).Nodup := by
      simpa [chainKeys, chainPairs] using h
    unfold newPairs newPairs'
    split
    · rfl
    · rw [ih _ _ hnd.2, newPairs'_extra ks k a.key p hnd.1]

theorem newPairs'_head (ks : List Key) (k : Key) (it : Item) (h : k ∉ ks) :
    ∃ par rest, newPairs' ks k it = (k, par) :: rest := by
  cases it <;> simp [newPairs', h]

theorem rooted_newPairs' (sk : List (Key × Option Key)) (k : Key) (it : Item)
    (hold : ∀ x ∈ sk, Rooted sk x.1) :
    ∀ x ∈ newPairs' (sk.map (·.1)) k it, Rooted (sk ++ newPairs' (sk.map (·.1)) k it) x.1 := by
  induction it generalizing k with
  | root s =>
    intro x hx
    unfold newPairs' at hx ⊢
    split at hx
    · simp at hx
    · rename_i hk
      simp only [List.mem_singleton] at hx
      subst hx
      simp only [hk, if_false]
      exact .root (by simp)
  | inc s a p ih =>
    intro x hx
    unfold newPairs' at hx ⊢
    split at hx
    · simp at hx
    · rename_i hk
      simp only [hk, if_false]
      have hsub : ∀ y ∈ sk ++ newPairs' (sk.map (·.1)) a.key p,
          y ∈ sk ++ (k, some a.key) :: newPairs' (sk.map (·.1)) a.key p := by
        intro y hy
        rcases List.mem_append.1 hy with hy | hy
        · exact List.mem_append_left _ hy
        · exact List.mem_append_right _ (List.mem_cons_of_mem _ hy)
      have htail : ∀ y ∈ newPairs' (sk.map (·.1)) a.key p,
          Rooted (sk ++ (k, some a.key) :: newPairs' (sk.map (·.1)) a.key p) y.1 :=
        fun y hy => rooted_mono _ _ hsub _ (ih a.key y hy)
      simp only [List.mem_cons] at hx
      rcases hx with rfl | hx
      · apply Rooted.up (p := a.key) (by simp)
        by_cases ha : a.key ∈ sk.map (·.1)
        · obtain ⟨y, hy, e⟩ := List.mem_map.1 ha
          have := hold y hy
          rw [e] at this
          exact rooted_mono _ _ (fun z hz => List.mem_append_left _ hz) _ this
        · obtain ⟨par, rest, e⟩ := newPairs'_head (sk.map (·.1)) a.key p ha
          have := htail (a.key, par) (by rw [e]; simp)
          exact this
      · exact htail x hx

theorem rooted_register (buf : Buf) (k : Key) (c : Child) (it : Item)
    (hold : ∀ x ∈ skel buf, Rooted (skel buf) x.1) (hnd : (chainKeys k it).Nodup) :
    ∀ x ∈ skel (register buf k c it), Rooted (skel (register buf k c it)) x.1 := by
  rw [skel_register, newPairs_eq _ _ _ hnd, ← keys_skel]
  intro x hx
  rcases List.mem_append.1 hx with hx | hx
  · exact rooted_mono _ _ (fun z hz => List.mem_append_left _ hz) _ (hold x hx)
  · exact rooted_newPairs' (skel buf) k it hold x hx

/-- the identifiers along each table's history (its file's node first) are pairwise distinct -/
def ChainsNodup (ts : List Out) : Prop := ∀ t ∈ ts, (chainKeys ⟨t.loc, none⟩ t.item).Nodup

/-- the histories agree: an identifier has the same parent wherever it occurs -/
def Coherent (ts : List Out) : Prop :=
  ∀ x ∈ allPairs ts, ∀ y ∈ allPairs ts, x.1 = y.1 → x.2 = y.2

theorem rooted_treesGo (buf : Buf) (i : Nat) (ts : List Out)
    (hold : ∀ x ∈ skel buf, Rooted (skel buf) x.1) (hnd : ChainsNodup ts) :
    ∀ x ∈ skel (treesGo buf i ts), Rooted (skel (treesGo buf i ts)) x.1 := by
  induction ts generalizing buf i with
  | nil => exact hold
  | cons t ts ih =>
    exact ih _ _ (rooted_register buf _ _ _ hold (hnd t (by simp)))
      (fun t' ht' => hnd t' (List.mem_cons_of_mem _ ht'))

/-- **forest**: what `make_location_trees` builds, for *any* list of table origins:
    node identifiers are unique; the leaves are a permutation of the tables (`fileKeysFrom` lists table number
    and file identifier: every table exactly once, beneath the node of its file); every table's file has a node;
    parent links and child lists agree in both directions (a node with a parent is listed by that parent, a
    listed child points back); every (node, parent) pair is a step of some table's history (parent = identifier
    of the history's source, no parent = source none); and when the identifiers along each history are pairwise
    distinct every node reaches a root by following parent links — a forest. -/
theorem forest (ts : List Out) :
    (keys (makeLocationTrees ts)).Nodup ∧
    (leavesOf (makeLocationTrees ts)).Perm (fileKeysFrom 0 ts) ∧
    (∀ t ∈ ts, (⟨t.loc, none⟩ : Key) ∈ keys (makeLocationTrees ts)) ∧
    (∀ k p, (k, some p) ∈ skel (makeLocationTrees ts) →
      ∃ m ∈ makeLocationTrees ts, m.key = p ∧ Child.node k ∈ m.children) ∧
    (∀ m ∈ makeLocationTrees ts, ∀ k, Child.node k ∈ m.children → (k, some m.key) ∈ skel (makeLocationTrees ts)) ∧
    (∀ x ∈ skel (makeLocationTrees ts), x ∈ allPairs ts) ∧
    (ChainsNodup ts → ∀ x ∈ skel (makeLocationTrees ts), Rooted (skel (makeLocationTrees ts)) x.1) := by
  unfold makeLocationTrees
  refine ⟨keys_treesGo_nodup [] 0 ts (by simp [keys]), ?_, (keys_treesGo_mono [] 0 ts).2, ?_, ?_, ?_, ?_⟩
  · simpa [leavesOf] using leaves_treesGo [] 0 ts (by simp [keys])
  · intro k p hp
    rcases parentInv_treesGo [] 0 ts (by intro k' p hp; simp [skel] at hp) k p hp with h | h
    · simp at h
    · exact h
  · intro m hm k hk
    exact childrenInv_treesGo [] 0 ts (by intro m hm; simp at hm) m hm _ hk
  · intro x hx
    rcases skel_treesGo_sub [] 0 ts x hx with h | h
    · simp [skel] at h
    · exact h
  · intro hnd
    exact rooted_treesGo [] 0 ts (by intro x hx; simp [skel] at hx) hnd

/-- the roots returned are exactly the nodes without parent -/
theorem roots_are_parentless (buf : Buf) (n : TNode) : n ∈ treeRoots buf ↔ n ∈ buf ∧ n.parent = none := by
  simp [treeRoots, List.mem_filter, Option.isNone_iff_eq_none]

/-- with coherent histories a node's parent is the node of its load specification's source: for every table,
    the node of its file has as parent the identifier of `load_specification.source` (none = a root), and so on
    up the history -/
theorem parent_is_source (ts : List Out) (hc : Coherent ts) :
    ∀ t ∈ ts, ∀ x ∈ chainPairs ⟨t.loc, none⟩ t.item, x.1 ∈ keys (makeLocationTrees ts) →
      x ∈ skel (makeLocationTrees ts) := by
  intro t ht x hx hk
  rw [← keys_skel] at hk
  obtain ⟨y, hy, e⟩ := List.mem_map.1 hk
  have hy' := (forest ts).2.2.2.2.2.1 y hy
  have hx' : x ∈ allPairs ts := by
    simp only [allPairs, List.mem_flatMap]; exact ⟨t, ht, hx⟩
  have := hc y hy' x hx' e
  have hxy : y = x := Prod.ext e this
  rw [← hxy]; exact hy

/-! ### the tables of a load satisfy both hypotheses -/

theorem nodup_of_map {α β} (f : α → β) (l : List α) (h : (l.map f).Nodup) : l.Nodup := by
  induction l with
  | nil => exact List.nodup_nil
  | cons a t ih =>
    simp only [List.map_cons, List.nodup_cons] at h ⊢
    exact ⟨fun hm => h.1 (List.mem_map_of_mem hm), ih h.2⟩

theorem chainKeys_locs (l : Loc) (pos : Option (Str × Nat)) (it : Item) :
    (chainKeys ⟨l, pos⟩ it).map (·.loc) = l :: chainLocs it := by
  induction it generalizing l pos with
  | root s => simp [chainKeys, chainPairs, chainLocs]
  | inc s a p ih =>
    have := ih a.loc (a.pos.map (fun q => (sheetKey q.1, q.2)))
    simp only [chainKeys, chainPairs, List.map_cons, chainLocs] at this ⊢
    rw [← this]
    rfl

/-- **load_tables_form_forest** (first half): the tables of any load have histories whose identifiers are
    pairwise distinct, so `forest` gives rootedness for them (and for any selection of them) -/
theorem load_chains_nodup (w : World) (cfg : Cfg) (roots : List Str) (ts : List Out)
    (hts : ∀ t ∈ ts, t ∈ (loadFiles w cfg roots).1.out) : ChainsNodup ts := by
  intro t ht
  have h := history_locations_distinct w cfg roots t (hts t ht)
  rw [← chainKeys_locs t.loc none t.item] at h
  exact nodup_of_map _ _ h

def anchorPairs : Item → List (Key × Option Key)
  | .root _ => []
  | .inc _ a p => chainPairs a.key p

theorem chainPairs_eq (k : Key) (it : Item) :
    chainPairs k it = (k, it.src.map Anchor.key) :: anchorPairs it := by
  cases it <;> rfl

/-- all (identifier, parent identifier) pairs the state knows of: histories of yielded blocks and of pending items -/
def pairsOf (st : LSt) : List (Key × Option Key) :=
  st.out.flatMap (fun o => chainPairs ⟨o.loc, none⟩ o.item) ++ st.stack.flatMap anchorPairs

structure CohInv (st : LSt) : Prop where
  func : ∀ x ∈ pairsOf st, ∀ y ∈ pairsOf st, x.1 = y.1 → x.2 = y.2
  vis : ∀ x ∈ pairsOf st, x.1.loc ∈ st.visited

theorem cohInv_shrink (st st' : LSt) (h : CohInv st) (hsub : ∀ x ∈ pairsOf st', x ∈ pairsOf st)
    (hv : ∀ l ∈ st.visited, l ∈ st'.visited) : CohInv st' :=
  ⟨fun x hx y hy => h.func x (hsub x hx) y (hsub y hy), fun x hx => hv _ (h.vis x (hsub x hx))⟩

theorem pairs_rest_sub (st : LSt) (pick : List Item → Nat) (it : Item) (rest : List Item) (issues : List Issue)
    (hp : pop pick st.stack = some (it, rest)) :
    ∀ x ∈ pairsOf { st with stack := rest, issues := issues }, x ∈ pairsOf st := by
  intro x hx
  simp only [pairsOf, List.mem_append, List.mem_flatMap] at hx ⊢
  rcases hx with hx | ⟨y, hy, hx⟩
  · exact Or.inl hx
  · exact Or.inr ⟨y, (C16.pop_mem _ _ _ _ hp y).2 (Or.inr hy), hx⟩

theorem cohInv_final (w : World) (cfg : Cfg) (roots : List Str) : CohInv (loadFiles w cfg roots).1 := by
  apply C16.run_inv w cfg CohInv
  · intro st r h hc
    cases hc with
    | empty => exact h
    | resolveFailRaising it rest hp =>
      exact cohInv_shrink _ _ h (pairs_rest_sub st _ it rest st.issues hp) (fun l hl => hl)
    | resolveFailCollect it rest hp =>
      exact cohInv_shrink _ _ h (pairs_rest_sub st _ it rest _ hp) (fun l hl => hl)
    | missing it rest l hp =>
      exact cohInv_shrink _ _ h (pairs_rest_sub st _ it rest st.issues hp) (fun l hl => hl)
    | dupRaising it rest l node hp =>
      exact cohInv_shrink _ _ h (pairs_rest_sub st _ it rest st.issues hp) (fun l hl => hl)
    | dupCollect it rest l node hp =>
      exact cohInv_shrink _ _ h (pairs_rest_sub st _ it rest _ hp) (fun l hl => hl)
    | read it rest l node hp hr hn hv =>
      have hit : ∀ x ∈ anchorPairs it, x ∈ pairsOf st := by
        intro x hx
        simp only [pairsOf, List.mem_append, List.mem_flatMap]
        exact Or.inr ⟨it, (C16.pop_mem _ _ _ _ hp it).2 (Or.inl rfl), hx⟩
      have hnew : ∀ x ∈ pairsOf ⟨rest ++ nodePushes cfg.allowInclude l it (effNode cfg.raising node),
            st.visited ++ [l], st.out ++ nodeOuts cfg.allowInclude l it (effNode cfg.raising node),
            st.issues ++ nodeIssues cfg.raising l node⟩,
          x ∈ pairsOf st ∨ (x.1.loc = l ∧ x.2 = it.src.map Anchor.key) := by
        intro x hx
        simp only [pairsOf, List.mem_append, List.mem_flatMap] at hx
        rcases hx with ⟨o, ho | ho, hx⟩ | ⟨y, hy | hy, hx⟩
        · left
          simp only [pairsOf, List.mem_append, List.mem_flatMap]
          exact Or.inl ⟨o, ho, hx⟩
        · obtain ⟨h1, h2⟩ := nodeOuts_item _ l it _ o ho
          rw [h1, h2, chainPairs_eq] at hx
          simp only [List.mem_cons] at hx
          rcases hx with rfl | hx
          · exact Or.inr ⟨rfl, rfl⟩
          · exact Or.inl (hit x hx)
        · left
          simp only [pairsOf, List.mem_append, List.mem_flatMap]
          exact Or.inr ⟨y, (C16.pop_mem _ _ _ _ hp y).2 (Or.inr hy), hx⟩
        · obtain ⟨s, a, rfl, ha, _⟩ := pushes_shape w _ cfg.raising l it node hn y hy
          simp only [anchorPairs] at hx
          rw [chainPairs_eq] at hx
          simp only [List.mem_cons] at hx
          rcases hx with rfl | hx
          · exact Or.inr ⟨by simp [Anchor.key, ha], rfl⟩
          · exact Or.inl (hit x hx)
      constructor
      · intro x hx y hy e
        rcases hnew x hx with hx' | ⟨hx1, hx2⟩ <;> rcases hnew y hy with hy' | ⟨hy1, hy2⟩
        · exact h.func x hx' y hy' e
        · exfalso; apply hv
          have := h.vis x hx'
          rw [e, hy1] at this; exact this
        · exfalso; apply hv
          have := h.vis y hy'
          rw [← e, hx1] at this; exact this
        · rw [hx2, hy2]
      · intro x hx
        show x.1.loc ∈ st.visited ++ [l]
        rcases hnew x hx with hx' | ⟨hx1, _⟩
        · exact List.mem_append_left _ (h.vis x hx')
        · simp [hx1]
  · have hempty : pairsOf (loadInit roots) = [] := by
      simp only [pairsOf, loadInit, List.flatMap_nil, List.nil_append, List.flatMap_map]
      induction roots with
      | nil => rfl
      | cons r rs ih => simp [anchorPairs]
    constructor
    · intro x hx; rw [hempty] at hx; simp at hx
    · intro x hx; rw [hempty] at hx; simp at hx

/-- **load_tables_form_forest** (second half): the histories of the blocks of a load agree with each other —
    an identifier has the same parent wherever it occurs — so `parent_is_source` applies to them -/
theorem load_coherent (w : World) (cfg : Cfg) (roots : List Str) (ts : List Out)
    (hts : ∀ t ∈ ts, t ∈ (loadFiles w cfg roots).1.out) : Coherent ts := by
  have h := cohInv_final w cfg roots
  have hsub : ∀ x ∈ allPairs ts, x ∈ pairsOf (loadFiles w cfg roots).1 := by
    intro x hx
    simp only [allPairs, List.mem_flatMap] at hx
    obtain ⟨t, ht, hx⟩ := hx
    simp only [pairsOf, List.mem_append, List.mem_flatMap]
    exact Or.inl ⟨t, hts t ht, hx⟩
  intro x hx y hy e
  exact h.func x (hsub x hx) y (hsub y hy) e

/-- **forest_of_load**: the location trees over (any selection of) the tables of a load: every node reaches a
    root, and every node's parent is the node of its load specification's source -/
theorem forest_of_load (w : World) (cfg : Cfg) (roots : List Str) (ts : List Out)
    (hts : ∀ t ∈ ts, t ∈ (loadFiles w cfg roots).1.out) :
    (∀ x ∈ skel (makeLocationTrees ts), Rooted (skel (makeLocationTrees ts)) x.1) ∧
    (∀ t ∈ ts, (⟨t.loc, none⟩, t.item.src.map Anchor.key) ∈ skel (makeLocationTrees ts)) := by
  refine ⟨(forest ts).2.2.2.2.2.2 (load_chains_nodup w cfg roots ts hts), ?_⟩
  intro t ht
  apply parent_is_source ts (load_coherent w cfg roots ts hts) t ht
  · rw [chainPairs_eq]; simp
  · exact (forest ts).2.2.1 t ht

/-! ## 6. Non-vacuity -/

namespace Example
open C16.Example

/-- the tables of the C16 example world (folder root, diamond, three-file cycle), collecting tracker -/
def tables : List Out := (loadFiles world collecting ["/".toList]).1.out

example : tables.map (fun o => (o.loc, o.sheet, o.blk.row, o.item.history.map (·.1))) =
    [(1, none, 0, ["a.csv".toList, "/".toList]),
     (3, some "s".toList, 2, ["c.csv".toList, "a.csv".toList, "/".toList]),
     (2, none, 3, ["b.csv".toList, "a.csv".toList, "/".toList])] := by decide

/-- the forest: one root (the folder), a.csv beneath it, the directive block of a.csv beneath the folder too,
    b.csv and c.csv beneath that block; three leaves -/
example : (treeRoots (makeLocationTrees tables)).map (·.key) = [⟨0, none⟩] ∧
    skel (makeLocationTrees tables) =
      [(⟨1, none⟩, some ⟨0, none⟩), (⟨0, none⟩, none), (⟨3, none⟩, some ⟨1, some ("Sheet1".toList, 5)⟩),
       (⟨1, some ("Sheet1".toList, 5)⟩, some ⟨0, none⟩), (⟨2, none⟩, some ⟨1, some ("Sheet1".toList, 5)⟩)] ∧
    leavesOf (makeLocationTrees tables) = [(0, ⟨1, none⟩), (1, ⟨3, none⟩), (2, ⟨2, none⟩)] := by decide

/-- hypotheses of `forest` / `parent_is_source` hold for a concrete non-trivial input -/
example : ChainsNodup tables ∧ (allPairs tables).length = 8 := by
  constructor
  · intro t ht
    have : ∀ t ∈ tables, (chainKeys ⟨t.loc, none⟩ t.item).Nodup := by decide
    exact this t ht
  · decide

/-- a sheet read from rows: blank line, comment, table at row 2 -/
example : ((Sheet.ofRows none true
      [[.str "k:".toList, .str "v".toList], [.str "".toList, .str "c".toList], [.str "**t".toList, .str "".toList],
       [.str "all".toList], [.str "x".toList], [.str "-".toList], [.str "1".toList], [.str "".toList],
       [.str "***include".toList], [.str "b.csv".toList]]).blocks.map (fun b => (b.ty, b.row, b.name, b.lines))) =
    [(.metadata, 0, [], []), (.blank, 1, [], []), (.table, 2, "t".toList, []),
     (.directive, 8, "include".toList, ["b.csv".toList])] := by decide

end Example

end Pdt.C18
