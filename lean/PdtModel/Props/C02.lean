/-
  Props/C02.lean — "Cells are typed by their column's unit exactly as the StarTable rules say".

  Theorems about the executable reader model (Model/Reader.lean), for every cell grid, every external
  `float()` / `to_datetime` behaviour `ext` and every fixer configuration:

    * header rules: name / orientation / destinations / trimmed names up to the first blank cell
      (comments after it are ignored) / trimmed units, positionally;
    * column locality: the values of a column are a function of that column's unit and its own raw cells
      (and the fixer's replacement values) only;
    * the typing rules per unit: text unchanged, onoff truth table, numeric, datetime, markers;
    * nothing is silently changed: a strict read that succeeds called the fixer for no cell, no name and
      no row, and the missing values it contains come only from markers / empty native cells / the
      external parser itself answering NaN.
-/
import PdtModel.Model.Reader
import PdtModel.Lemmas.Text
set_option linter.unusedSimpArgs false
namespace Pdt.C02
open Pdt Pdt.Reader

/-! ## 0. constants translated from columns.py, pinned -/

theorem missing_markers_pinned :
    Gen.missingIsMarker = ["-".toList, "nan".toList] ∧ Gen.missingFloatConvert = ["-".toList, "nan".toList] := by
  decide

/-- since the case-insensitivity fix the datetime parser delegates to `is_missing_data_marker` (in whichever of its
    functions) and spells no marker set of its own -/
theorem datetime_marker_sites_pinned :
    Gen.datetimeMarkerDelegates ≠ [] ∧ Gen.datetimeLocalSets = [] := by
  decide

/-- the lookup table of `_onoff_to_bool` as a set of keys: entries sorted and de-duplicated by the translator
    (`0` / `False` and `1` / `True` are one key each) -/
theorem onoff_table_pinned :
    Gen.onoffTable = [("int", "0", false), ("int", "1", true),
      ("str", "0", false), ("str", "1", true), ("str", "false", false), ("str", "true", true)] := by decide

/-! ## 1. declarative typing rules (written from the property text) -/

namespace Spec

/-- a missing-value marker: `-` or `nan` in any letter case, surrounding blanks ignored -/
def IsMarker (s : Str) : Prop := lowerAscii (strip s) = "-".toList ∨ lowerAscii (strip s) = "nan".toList

/-- the value of an `onoff` cell, if it has one -/
def onoff : Cell → Option Bool
  | .str s =>
    let n := lowerAscii (strip s)
    if n = "1".toList ∨ n = "true".toList then some true
    else if n = "0".toList ∨ n = "false".toList then some false else none
  | .int i _ => if i = 1 then some true else if i = 0 then some false else none
  | .bool b => some b
  | .float t => if t = "1.0".toList then some true
                else if t = "0.0".toList ∨ t = "-0.0".toList then some false else none
  | _ => none

end Spec

theorem isMissingMarker_iff (s : Str) : isMissingMarker s = true ↔ Spec.IsMarker s := by
  unfold isMissingMarker Spec.IsMarker normalize
  rw [missing_markers_pinned.1]
  simp [List.contains_cons, List.elem_cons]

/-! ## 2. typing rules per unit -/

/-- what the `text` parser really does: `str()` of the cell with its trailing NUL characters dropped (the numpy
    fixed-width string array `np.array(values, dtype=str)` cannot hold them); the fixer is not involved -/
theorem type_text (ext : Ext) (cells : List Cell) (f : Fixer) :
    parseColumn ext uText cells f = .ok (.text (cells.map textCell), f) := by
  simp [parseColumn]

theorem rstripNul_id (s : Str) (h : s.getLast? ≠ some '\x00') : rstripNul s = s := by
  unfold rstripNul
  rw [← List.head?_reverse] at h
  cases hr : s.reverse with
  | nil => simpa using hr
  | cons c r =>
    rw [hr] at h
    have hc : c ≠ '\x00' := by simpa using h
    simp only [List.dropWhile_cons, decide_eq_true_eq, hc, if_false]
    rw [← hr, List.reverse_reverse]

/-- FULL STATEMENT of the clause ("'text' keeps the cell text unchanged"):
      `∀ cells, parseColumn ext uText cells f = .ok (.text (cells.map Cell.pyStr), f)`.
    It is FALSE of the model and of the code (known finding F3, `text_trailing_nul`): -/
theorem type_text_unchanged_fails (ext : Ext) (f : Fixer) :
    parseColumn ext uText [.str ['a', '\x00']] f ≠ .ok (.text [['a', '\x00']], f) := by
  simp [parseColumn, textCell, rstripNul, Cell.pyStr]

/-- proved part: `text` keeps every cell's text unchanged (native cells through `str()`) **for cells whose text
    does not end in a NUL character** -/
theorem type_text_unchanged_partial (ext : Ext) (cells : List Cell) (f : Fixer)
    (h : ∀ c ∈ cells, c.pyStr.getLast? ≠ some '\x00') :
    parseColumn ext uText cells f = .ok (.text (cells.map Cell.pyStr), f) := by
  rw [type_text]
  congr 3
  apply List.map_congr_left
  intro c hc
  exact rstripNul_id _ (h c hc)

example : ∀ c ∈ [Cell.str "x y".toList, .int 3 "3.0".toList, .none],
    c.pyStr.getLast? ≠ some '\x00' := by decide

/-- `onoff`: the model's lookup is exactly the declarative truth table -/
theorem type_onoff_cell (c : Cell) : onoffCell c = Spec.onoff c := by
  cases c <;> simp [onoffCell, Spec.onoff, normalize]
  · rename_i s
    by_cases h1 : lowerAscii (strip s) = "0".toList <;> by_cases h2 : lowerAscii (strip s) = "1".toList <;>
      by_cases h3 : lowerAscii (strip s) = "false".toList <;> by_cases h4 : lowerAscii (strip s) = "true".toList <;>
      simp_all
  · rename_i i t
    by_cases h0 : i = 0 <;> by_cases h1 : i = 1 <;> simp_all
  · rename_i t
    by_cases h0 : t = "0.0".toList <;> by_cases h1 : t = "-0.0".toList <;> by_cases h2 : t = "1.0".toList <;>
      simp_all

/-- numeric column, marker or empty native cell: missing -/
theorem type_numeric_missing (ext : Ext) :
    (∀ s, Spec.IsMarker s → floatCell ext (.str s) = some NaN) ∧ floatCell ext .none = some NaN := by
  refine ⟨?_, rfl⟩
  intro s hs
  have : Gen.missingFloatConvert.contains (normalize s) = true := by
    have := (isMissingMarker_iff s).2 hs
    simpa [isMissingMarker, missing_markers_pinned.1, missing_markers_pinned.2] using this
  rw [show floatCell ext (.str s) =
    (if Gen.missingFloatConvert.contains (normalize s) = true then some NaN else ext.parseFloat s) from rfl, this]
  rfl

/-- numeric column, any other text: exactly what `float()` says, or a defect -/
theorem type_numeric_text (ext : Ext) (s : Str) (h : ¬ Spec.IsMarker s) :
    floatCell ext (.str s) = ext.parseFloat s := by
  have : Gen.missingFloatConvert.contains (normalize s) = false := by
    have h' : ¬ isMissingMarker s = true := fun e => h ((isMissingMarker_iff s).1 e)
    simpa [isMissingMarker, missing_markers_pinned.1, missing_markers_pinned.2] using h'
  rw [show floatCell ext (.str s) =
    (if Gen.missingFloatConvert.contains (normalize s) = true then some NaN else ext.parseFloat s) from rfl, this]
  rfl

/-- numeric column, native numbers are taken as they are (booleans are the integers 0 / 1) -/
theorem type_numeric_native (ext : Ext) (t : Str) (i : Int) (ft : Str) (b : Bool)
    (hft : ft ≠ overflowTok) :
    floatCell ext (.float t) = some t ∧ floatCell ext (.int i ft) = some ft ∧
    floatCell ext (.bool b) = some (if b then "1.0".toList else "0.0".toList) ∧
    (∀ d, floatCell ext (.dt d) = none) ∧ (∀ o, floatCell ext (.other o) = none) := by
  simp [floatCell, hft]

/-- **nothing else is silently turned into a missing number**: a missing numeric value comes from an
    empty native cell, a NaN already in the native cell, a marker, or `float()` itself answering NaN -/
theorem numeric_missing_only_from (ext : Ext) (c : Cell) (h : floatCell ext c = some NaN) :
    c = .none ∨ c = .float NaN ∨ (∃ i, c = .int i NaN) ∨
    (∃ s, c = .str s ∧ (Spec.IsMarker s ∨ ext.parseFloat s = some NaN)) := by
  cases c with
  | none => simp
  | str s =>
    right; right; right
    refine ⟨s, rfl, ?_⟩
    by_cases hm : Spec.IsMarker s
    · exact Or.inl hm
    · right; rw [← type_numeric_text ext s hm]; exact h
  | int i t =>
    simp only [floatCell] at h
    split at h
    · cases h
    · simp at h; simp [h]
  | float t => simp [floatCell] at h; simp [h]
  | bool b => cases b <;> simp [floatCell, NaN] at h <;> exact absurd h (by decide)
  | dt t => simp [floatCell] at h
  | other t => simp [floatCell] at h

/-- datetime column: native timestamps are kept, markers are missing, other text goes to
    `to_datetime` only if it starts with a digit; empty native cells and anything else are defects -/
theorem type_datetime (ext : Ext) :
    (∀ t, dtCell ext (.dt t) = .ok t) ∧
    (∀ s, Spec.IsMarker s → strip s ≠ [] → dtCell ext (.str s) = .ok NaT) := by
  refine ⟨fun t => rfl, ?_⟩
  intro s hs hne
  have hm : isMissingMarker (strip s) = true := by
    rw [isMissingMarker_iff]
    unfold Spec.IsMarker at *
    rw [strip_idem]; exact hs
  unfold dtCell
  cases hv : strip s with
  | nil => exact absurd hv hne
  | cons c cs => simp [hv] at hm ⊢; simp [hm]

/-- datetime column: text that does not start with a digit and is not a marker is a defect;
    empty native cells and every other native type (numbers, booleans, dates, …) are defects too -/
theorem type_datetime_defects (ext : Ext) :
    dtCell ext .none = .fix ∧
    (∀ s c cs, strip s = c :: cs → ext.isDigit c = false → ¬ Spec.IsMarker s → dtCell ext (.str s) = .fix) ∧
    (∀ s, strip s = [] → dtCell ext (.str s) = .fix) ∧
    (∀ i t, dtCell ext (.int i t) = .fix) ∧ (∀ t, dtCell ext (.float t) = .fix) ∧
    (∀ b, dtCell ext (.bool b) = .fix) ∧ (∀ o, dtCell ext (.other o) = .fix) := by
  refine ⟨rfl, ?_, ?_, fun _ _ => rfl, fun _ => rfl, fun _ => rfl, fun _ => rfl⟩
  · intro s c cs hv hd hm
    have hm' : isMissingMarker (c :: cs) = false := by
      cases h : isMissingMarker (c :: cs) with
      | false => rfl
      | true =>
        exfalso; apply hm
        have := (isMissingMarker_iff (c :: cs)).1 h
        unfold Spec.IsMarker at this ⊢
        rw [← hv, strip_idem] at this; exact this
    simp [dtCell, hv, hd, hm']
  · intro s hv; simp [dtCell, hv]

/-- datetime column, text starting with a digit (and not a marker): exactly what `to_datetime` says -/
theorem type_datetime_text (ext : Ext) (s : Str) (c : Char) (cs : Str) (hv : strip s = c :: cs)
    (hd : ext.isDigit c = true) (hm : ¬ Spec.IsMarker s) :
    dtCell ext (.str s) = match ext.parseDt (c :: cs) with
      | .ok t => .ok t
      | .valueError => .fix
      | .raises n => .raises n := by
  have hm' : isMissingMarker (c :: cs) = false := by
    cases h : isMissingMarker (c :: cs) with
    | false => rfl
    | true =>
      exfalso; apply hm
      have := (isMissingMarker_iff (c :: cs)).1 h
      unfold Spec.IsMarker at this ⊢
      rw [← hv, strip_idem] at this; exact this
  simp only [dtCell, hv, hd, hm', Bool.true_or, if_true, Bool.false_eq_true, if_false]
  cases ext.parseDt (c :: cs) <;> rfl

/-- **nothing else is silently turned into a missing timestamp**: a missing datetime value comes from a NaT
    already in the native cell, a marker, or `to_datetime` itself answering NaT for the (digit-initial) text -/
theorem datetime_missing_only_from (ext : Ext) (c : Cell) (h : dtCell ext c = .ok NaT) :
    c = .dt NaT ∨ ∃ s, c = .str s ∧ (Spec.IsMarker s ∨ ext.parseDt (strip s) = .ok NaT) := by
  cases c with
  | dt t => simp [dtCell] at h; left; rw [h]
  | str s =>
    right
    refine ⟨s, rfl, ?_⟩
    by_cases hm : Spec.IsMarker s
    · exact Or.inl hm
    · right
      unfold dtCell at h
      cases hv : strip s with
      | nil => simp [hv] at h
      | cons ch cs =>
        have hm' : isMissingMarker (ch :: cs) = false := by
          cases hmm : isMissingMarker (ch :: cs) with
          | false => rfl
          | true =>
            exfalso; apply hm
            have := (isMissingMarker_iff (ch :: cs)).1 hmm
            unfold Spec.IsMarker at this ⊢
            rw [← hv, strip_idem] at this; exact this
        simp only [hv, hm', Bool.or_false, Bool.false_eq_true, if_false] at h
        split at h
        · cases hp : ext.parseDt (ch :: cs) with
          | ok t => simp [hp] at h; rw [h]
          | valueError => simp [hp] at h
          | raises n => simp [hp] at h
        · simp at h
  | none => simp [dtCell] at h
  | int i t => simp [dtCell] at h
  | float t => simp [dtCell] at h
  | bool b => simp [dtCell] at h
  | other t => simp [dtCell] at h

/-! ## 3. the fixer only counts; values never depend on its counters -/

theorem illegal_cfg (f : Fixer) (v : String) (x : Str) : (f.illegal v x).cfg = f.cfg := rfl

/-- the onoff / numeric loop: every cell with a value keeps it, every other cell gets the fixer's replacement,
    and the warning counter grows by exactly the number of such cells -/
theorem parseWith_spec {α : Type} (cellFn : Cell → Option α) (rep : FixCfg → α) (vt : String)
    (txt : Cell → Str) (cells : List Cell) (f : Fixer) :
    (parseWith cellFn rep vt txt cells f).1 = cells.map (fun c => (cellFn c).getD (rep f.cfg)) ∧
    (parseWith cellFn rep vt txt cells f).2.cfg = f.cfg ∧
    (parseWith cellFn rep vt txt cells f).2.errors = f.errors ∧
    (parseWith cellFn rep vt txt cells f).2.warnings =
      f.warnings + (cells.filter (fun c => (cellFn c).isNone)).length ∧
    (parseWith cellFn rep vt txt cells f).2.msgs.length =
      f.msgs.length + (cells.filter (fun c => (cellFn c).isNone)).length := by
  induction cells generalizing f with
  | nil => simp [parseWith]
  | cons c cs ih =>
    unfold parseWith
    cases hc : cellFn c with
    | some b =>
      have := ih f
      simp [this, List.filter_cons, hc]
    | none =>
      have := ih (f.illegal vt (txt c))
      have e1 : (f.illegal vt (txt c)).warnings = f.warnings + 1 := rfl
      have e2 : (f.illegal vt (txt c)).msgs.length = f.msgs.length + 1 := by simp [Fixer.illegal]
      have e3 : (f.illegal vt (txt c)).errors = f.errors := rfl
      simp only [this, List.filter_cons, hc, illegal_cfg, e1, e2, e3, Option.isNone_none, if_true,
        List.length_cons, List.map_cons, Option.getD_none]
      refine ⟨trivial, trivial, trivial, ?_, ?_⟩ <;> omega

/-- what a datetime cell contributes, given the fixer's replacement -/
def dtValues (ext : Ext) (rep : Str) : List Cell → Except PyExc (List Str)
  | [] => .ok []
  | c :: cs =>
    match dtCell ext c with
    | .ok t => (dtValues ext rep cs).map (t :: ·)
    | .fix => (dtValues ext rep cs).map (rep :: ·)
    | .raises n => .error (.other n)

def dtIsFix (ext : Ext) (c : Cell) : Bool := match dtCell ext c with | .fix => true | _ => false

theorem parseDatetime_values (ext : Ext) (cells : List Cell) (f : Fixer) :
    (parseDatetime ext cells f).map (·.1) = dtValues ext f.cfg.repDt cells := by
  induction cells generalizing f with
  | nil => rfl
  | cons c cs ih =>
    unfold parseDatetime dtValues
    cases hc : dtCell ext c with
    | ok t =>
      simp only []
      rw [← ih f]
      cases parseDatetime ext cs f <;> rfl
    | fix =>
      simp only []
      have := ih (f.illegal "datetime" (dtTxt c))
      rw [illegal_cfg] at this
      rw [← this]
      cases parseDatetime ext cs (f.illegal "datetime" (dtTxt c)) <;> rfl
    | raises n => rfl

theorem parseDatetime_counts (ext : Ext) (cells : List Cell) (f : Fixer) (v : List Str) (f' : Fixer)
    (h : parseDatetime ext cells f = .ok (v, f')) :
    f'.cfg = f.cfg ∧ f'.errors = f.errors ∧
    f'.warnings = f.warnings + (cells.filter (dtIsFix ext)).length := by
  induction cells generalizing f v f' with
  | nil => simp [parseDatetime] at h; obtain ⟨_, rfl⟩ := h; simp
  | cons c cs ih =>
    unfold parseDatetime at h
    cases hc : dtCell ext c with
    | ok t =>
      simp only [hc] at h
      cases hr : parseDatetime ext cs f with
      | error e => simp [hr, bind, Except.bind] at h
      | ok r =>
        obtain ⟨r1, r2⟩ := r
        simp [hr, bind, Except.bind, pure, Except.pure] at h
        obtain ⟨_, rfl⟩ := h
        have := ih f r1 r2 hr
        simp [dtIsFix, hc, List.filter_cons, this]
    | fix =>
      simp only [hc] at h
      cases hr : parseDatetime ext cs (f.illegal "datetime" (dtTxt c)) with
      | error e => simp [hr, bind, Except.bind] at h
      | ok r =>
        obtain ⟨r1, r2⟩ := r
        simp [hr, bind, Except.bind, pure, Except.pure] at h
        obtain ⟨_, rfl⟩ := h
        have := ih (f.illegal "datetime" (dtTxt c)) r1 r2 hr
        simp [illegal_cfg] at this
        simp [dtIsFix, hc, List.filter_cons, this, Fixer.illegal]
        omega
    | raises n => simp [hc] at h

/-- the values of a column as a function of its unit, its own cells, `ext` and the fixer's replacement
    values only (declarative form of `parse_column`) -/
def Spec.typeColumn (ext : Ext) (cfg : FixCfg) (unit : Str) (cells : List Cell) : Except PyExc ColVals :=
  if unit = uText then .ok (.text (cells.map textCell))
  else if unit = uOnoff then .ok (.onoff (cells.map (fun c => (Spec.onoff c).getD cfg.repOnoff)))
  else if unit = uDatetime then (dtValues ext cfg.repDt cells).map .dt
  else .ok (.num (cells.map (fun c => (floatCell ext c).getD cfg.repFloat)))

/-- **column locality**: the parsed values of one column are a function of its unit, its own cells, `ext`
    and the fixer's *replacement values* — not of the fixer's counters or messages, hence not of any other
    column, row or block parsed before it; every unit other than text / onoff / datetime yields numbers -/
theorem parseColumn_values (ext : Ext) (unit : Str) (cells : List Cell) (f : Fixer) :
    (parseColumn ext unit cells f).map (·.1) = Spec.typeColumn ext f.cfg unit cells := by
  unfold parseColumn Spec.typeColumn
  by_cases h1 : unit = uText
  · rw [if_pos h1, if_pos h1]; rfl
  · rw [if_neg h1, if_neg h1]
    by_cases h2 : unit = uOnoff
    · rw [if_pos h2, if_pos h2]
      have := (parseWith_spec onoffCell (·.repOnoff) "onoff" onoffTxt cells f).1
      show Except.ok (ColVals.onoff (parseOnoff cells f).1) = _
      unfold parseOnoff
      rw [this]
      simp only [type_onoff_cell]
    · rw [if_neg h2, if_neg h2]
      by_cases h3 : unit = uDatetime
      · rw [if_pos h3, if_pos h3, ← parseDatetime_values]
        cases parseDatetime ext cells f <;> rfl
      · rw [if_neg h3, if_neg h3]
        have := (parseWith_spec (floatCell ext) (·.repFloat) "float" floatTxt cells f).1
        show Except.ok (ColVals.num (parseFloat ext cells f).1) = _
        unfold parseFloat
        rw [this]

/-- the fixer's configuration is never changed by parsing a column; only its counters grow -/
theorem parseColumn_fixer (ext : Ext) (unit : Str) (cells : List Cell) (f : Fixer) (v : ColVals) (f' : Fixer)
    (h : parseColumn ext unit cells f = .ok (v, f')) :
    f'.cfg = f.cfg ∧ f'.errors = f.errors ∧ f.warnings ≤ f'.warnings := by
  unfold parseColumn at h
  by_cases h1 : unit = uText
  · rw [if_pos h1] at h
    cases h; exact ⟨rfl, rfl, Nat.le_refl _⟩
  · rw [if_neg h1] at h
    by_cases h2 : unit = uOnoff
    · rw [if_pos h2] at h
      have hs := parseWith_spec onoffCell (·.repOnoff) "onoff" onoffTxt cells f
      have : f' = (parseOnoff cells f).2 := by cases h; rfl
      subst this
      unfold parseOnoff
      exact ⟨hs.2.1, hs.2.2.1, by rw [hs.2.2.2.1]; omega⟩
    · rw [if_neg h2] at h
      by_cases h3 : unit = uDatetime
      · rw [if_pos h3] at h
        cases hr : parseDatetime ext cells f with
        | error e => rw [hr] at h; cases h
        | ok r =>
          obtain ⟨r1, r2⟩ := r
          rw [hr] at h
          have : f' = r2 := by cases h; rfl
          subst this
          have := parseDatetime_counts ext cells f r1 f' hr
          exact ⟨this.1, this.2.1, by rw [this.2.2]; omega⟩
      · rw [if_neg h3] at h
        have hs := parseWith_spec (floatCell ext) (·.repFloat) "float" floatTxt cells f
        have : f' = (parseFloat ext cells f).2 := by cases h; rfl
        subst this
        unfold parseFloat
        exact ⟨hs.2.1, hs.2.2.1, by rw [hs.2.2.2.1]; omega⟩

/-- **column locality for a whole table**: column `j` of the result is `Spec.typeColumn` of unit `j` and raw
    column `j` alone -/
theorem parseColumns_local (ext : Ext) (units : List Str) (cols : List Row) (f : Fixer)
    (vs : List ColVals) (f' : Fixer) (h : parseColumns ext units cols f = .ok (vs, f')) :
    f'.cfg = f.cfg ∧
    vs.map Except.ok = List.zipWith (fun u c => Spec.typeColumn ext f.cfg u c) units cols := by
  induction units generalizing cols f vs f' with
  | nil => simp [parseColumns] at h; obtain ⟨rfl, rfl⟩ := h; simp
  | cons u us ih =>
    cases cols with
    | nil => simp [parseColumns] at h; obtain ⟨rfl, rfl⟩ := h; simp
    | cons c cs =>
      simp only [parseColumns] at h
      cases h1 : parseColumn ext u c f with
      | error e => simp [h1, bind, Except.bind] at h
      | ok r1 =>
        obtain ⟨v1, g1⟩ := r1
        simp only [h1, bind, Except.bind] at h
        cases h2 : parseColumns ext us cs g1 with
        | error e => simp [h2] at h
        | ok r2 =>
          obtain ⟨v2, g2⟩ := r2
          simp [h2, pure, Except.pure] at h
          obtain ⟨rfl, rfl⟩ := h
          have hf := parseColumn_fixer ext u c f v1 g1 h1
          have hv := parseColumn_values ext u c f
          rw [h1] at hv
          have := ih cs g1 v2 g2 h2
          simp [Except.map] at hv
          simp [this, hf.1, ← hv]

/-! ## 4. header rules -/

@[simp] theorem throw_eq {α} (e : PyExc) : (throw e : Except PyExc α) = .error e := rfl

/-- **comments after the first blank name cell are ignored; names are trimmed** -/
theorem names_until_first_blank (a : List Str) (blank : Cell) (rest : List Cell)
    (ha : ∀ s ∈ a, (Cell.str s).isBlank = false) (hb : blank.isBlank = true) :
    parseColumnNames (a.map Cell.str ++ blank :: rest) = .ok (a.map strip) ∧
    parseColumnNames (a.map Cell.str) = .ok (a.map strip) := by
  have htw : ∀ tail : List Cell, (tail = [] ∨ ∃ t, tail = blank :: t) →
      (a.map Cell.str ++ tail).takeWhile (fun c => !c.isBlank) = a.map Cell.str := by
    intro tail ht
    induction a with
    | nil => rcases ht with rfl | ⟨t, rfl⟩ <;> simp [List.takeWhile_cons, hb]
    | cons x xs ih =>
      have hx := ha x (by simp)
      simp only [List.map_cons, List.cons_append, List.takeWhile_cons, hx, Bool.not_false, if_true]
      rw [ih (fun s hs => ha s (List.mem_cons_of_mem _ hs))]
  have hall : (a.map Cell.str).all Cell.isStr = true := by simp [Cell.isStr]
  have hmap : (a.map Cell.str).map stripOfStr = a.map strip := by simp [stripOfStr]
  constructor
  · unfold parseColumnNames
    simp only [htw (blank :: rest) (Or.inr ⟨rest, rfl⟩), hall, if_true, hmap]
  · unfold parseColumnNames
    have := htw [] (Or.inl rfl)
    simp only [List.append_nil] at this
    simp only [this, hall, if_true, hmap]

/-- a non-text name cell before the first blank one is an input error, not a crash -/
theorem non_text_name_rejected (a : List Cell) (c : Cell) (rest : List Cell)
    (ha : ∀ x ∈ a, x.isBlank = false) (hc : c.isBlank = false) (hs : c.isStr = false) :
    parseColumnNames (a ++ c :: rest) = .error .valueError := by
  unfold parseColumnNames
  have : c ∈ (a ++ c :: rest).takeWhile (fun c => !c.isBlank) := by
    induction a with
    | nil => simp [List.takeWhile_cons, hc]
    | cons x xs ih =>
      have hx := ha x (by simp)
      simp only [List.cons_append, List.takeWhile_cons, hx, Bool.not_false, if_true]
      exact List.mem_cons_of_mem _ (ih (fun y hy => ha y (List.mem_cons_of_mem _ hy)))
  have hall : ((a ++ c :: rest).takeWhile (fun c => !c.isBlank)).all Cell.isStr = false := by
    rw [List.all_eq_false]
    exact ⟨c, this, by simp [hs]⟩
  simp [hall]

/-- **name and orientation**: the table name is the first cell without `**` and without one trailing `*`;
    the table is transposed exactly when that `*` is there -/
theorem name_and_orientation (s : Str) (r0 : Row) (rest : List Row) :
    tableName ((.str s :: r0) :: rest) =
      .ok (if (s.drop 2).getLast? = some '*' then ((s.drop 2).dropLast, true) else (s.drop 2, false)) := by
  unfold tableName
  by_cases h : (s.drop 2).getLast? = some '*' <;> simp [h]

/-- **row-wise header**: name row cells up to the first blank give the names (trimmed), the unit row gives
    the units positionally (trimmed), each value row is cut to the number of names -/
theorem layout_rowwise (s : Str) (r0 : Row) (c : Cell) (r1 : Row) (nameRow unitRow : Row) (dataRows : List Row)
    (hnt : (s.drop 2).getLast? ≠ some '*') :
    layout ((.str s :: r0) :: (c :: r1) :: nameRow :: unitRow :: dataRows) =
      match parseColumnNames nameRow with
      | .error e => .error e
      | .ok ns =>
        if unitRow.length < ns.length then .error .valueError
        else if (unitRow.take ns.length).all Cell.isStr then
          .ok ⟨s.drop 2, false, destinations c, ns, (unitRow.take ns.length).map stripOfStr,
               dataRows.map (fun l => l.take ns.length)⟩
        else .error .valueError := by
  have h3 : ¬ (dataRows.length + 1 + 1 + 1 + 1 < 3) := by omega
  have h4 : ¬ (dataRows.length + 1 + 1 + 1 + 1 = 3) := by omega
  unfold layout
  simp only [name_and_orientation, hnt, if_false, bind, Except.bind, pure, Except.pure, List.length_cons,
    h3, h4, Bool.false_and, Bool.false_eq_true, decide_false, List.getD_cons_succ, List.getD_cons_zero,
    List.drop_succ_cons, List.drop_zero]
  cases parseColumnNames nameRow with
  | error e => rfl
  | ok ns =>
    have hmin : (min ns.length unitRow.length < ns.length) ↔ unitRow.length < ns.length := by omega
    by_cases hl : unitRow.length < ns.length
    · simp [hl, hmin]
    · by_cases hu : (unitRow.take ns.length).all Cell.isStr = true
      · simp [hl, hu, hmin]
      · simp [hl, hu, hmin]

/-- **transposed header**: each line is `name, unit, values…`; a line with fewer than two cells is an
    input error -/
theorem layout_transposed (s : Str) (r0 : Row) (c : Cell) (r1 : Row) (l0 : Row) (lines : List Row)
    (ht : (s.drop 2).getLast? = some '*') :
    layout ((.str s :: r0) :: (c :: r1) :: l0 :: lines) =
      if (l0 :: lines).any (fun l => l.length < 2) then .error .valueError else
      match parseColumnNames ((l0 :: lines).map (fun l => getD0 l 0)) with
      | .error e => .error e
      | .ok ns =>
        if (((l0 :: lines).take ns.length).map (fun l => getD0 l 1)).length < ns.length then .error .valueError
        else if (((l0 :: lines).take ns.length).map (fun l => getD0 l 1)).all Cell.isStr then
          match transposedRows (((l0 :: lines).take ns.length).map (fun l => l.drop 2)) with
          | .error e => .error e
          | .ok rows => .ok ⟨(s.drop 2).dropLast, true, destinations c, ns,
              (((l0 :: lines).take ns.length).map (fun l => getD0 l 1)).map stripOfStr, rows⟩
        else .error .valueError := by
  have h3 : ¬ (lines.length + 1 + 1 + 1 < 3) := by omega
  unfold layout
  simp only [name_and_orientation, ht, if_true, bind, Except.bind, pure, Except.pure, List.length_cons,
    h3, Bool.true_and, Bool.not_false, Bool.false_eq_true, decide_false, if_false,
    List.drop_succ_cons, List.drop_zero, throw_eq]
  by_cases hany : (l0 :: lines).any (fun l => decide (l.length < 2)) = true
  · simp only [hany, if_true]
  · simp only [hany, Bool.false_eq_true, if_false]
    cases parseColumnNames ((l0 :: lines).map (fun l => getD0 l 0)) with
    | error e => rfl
    | ok ns =>
      by_cases hl : (((l0 :: lines).take ns.length).map (fun l => getD0 l 1)).length < ns.length
      · simp only [hl, decide_true, if_true]
      · simp only [hl, decide_false, Bool.false_eq_true, if_false]
        by_cases hu : (((l0 :: lines).take ns.length).map (fun l => getD0 l 1)).all Cell.isStr = true
        · simp only [hu, Bool.not_true, Bool.false_eq_true, if_false, if_true]
          simp only [List.map_take]
          cases transposedRows (List.take ns.length (List.map (fun l => List.drop 2 l) (l0 :: lines))) <;> rfl
        · simp only [hu, Bool.not_false, if_true, Bool.false_eq_true, if_false]

/-- every successful header interpretation delivers exactly one unit per column name -/
theorem layout_shape (cells : List Row) (L : Layout) (h : layout cells = .ok L) :
    L.units.length = L.names0.length := by
  unfold layout at h
  simp only [bind, Except.bind, pure, Except.pure] at h
  repeat' (split at h <;> try (simp at h))
  all_goals (try (subst h; simp_all))
  all_goals omega


/-! ### from the grid to the raw cells of one column -/

/-- **row-wise**: raw column `j` (what `parse_column` receives for column `j`) is cell `j` of every value row,
    in row order (`zip(*data_rows)`) -/
theorem column_of_rows (rows : List Row) (n j : Nat) (hj : j < n) :
    (transposeN rows n)[j]? = some (rows.map (fun r => getD0 r j)) := by
  unfold transposeN
  simp [hj]

theorem padOrTrim_length (n : Nat) (l : Row) : (padOrTrim n l).length = n := by
  unfold padOrTrim
  split
  · simp; omega
  · simp; omega

/-- **transposed**: the number of value rows is the index of the first row in which no line has a non-blank cell
    (`nRowLoop`); every line is cut or padded to that length; a table without lines is an input error -/
theorem transposedRows_spec (l0 : Row) (lines : List Row) :
    transposedRows (l0 :: lines) =
      .ok (transposeN ((l0 :: lines).map (padOrTrim
            (nRowLoop (l0 :: lines) ((l0 :: lines).foldl (fun m l => max m l.length) 0) 0
              ((l0 :: lines).foldl (fun m l => max m l.length) 0))))
          (nRowLoop (l0 :: lines) ((l0 :: lines).foldl (fun m l => max m l.length) 0) 0
            ((l0 :: lines).foldl (fun m l => max m l.length) 0))) ∧
    transposedRows [] = .error .valueError := ⟨rfl, rfl⟩

/-- the row counter stops at the first all-blank value row: row `i` is counted only if some line has a
    non-blank cell there, and every counted row is such a row -/
theorem nRowLoop_spec (lines : List Row) (longest : Nat) (i fuel : Nat) :
    i ≤ nRowLoop lines longest i fuel ∧
    ∀ k, i ≤ k → k < nRowLoop lines longest i fuel →
      k < longest ∧ lines.any (fun l => k < l.length && !(getD0 l k).isBlank) = true := by
  induction fuel generalizing i with
  | zero => simp [nRowLoop]; intro k h1 h2; omega
  | succ fuel ih =>
    unfold nRowLoop
    split
    · rename_i hc
      have := ih (i + 1)
      refine ⟨by omega, ?_⟩
      intro k hk1 hk2
      by_cases hki : k = i
      · subst hki
        simp only [Bool.and_eq_true, decide_eq_true_eq] at hc
        exact ⟨hc.1, hc.2⟩
      · exact this.2 k (by omega) hk2
    · refine ⟨Nat.le_refl _, ?_⟩
      intro k h1 h2; omega

/-- … and it counts no less (**maximality**): with fuel for every index up to `longest` (the code's
    `range(len_longest_line)`), the row after the last counted one lies beyond the longest line or is a row in
    which no line has a non-blank cell.  Together with `nRowLoop_spec`: the count is exactly the index of the first
    all-blank value row. -/
theorem nRowLoop_stops (lines : List Row) (longest : Nat) (i fuel : Nat) (hf : longest ≤ i + fuel) :
    nRowLoop lines longest i fuel < longest →
      lines.any (fun l => nRowLoop lines longest i fuel < l.length &&
        !(getD0 l (nRowLoop lines longest i fuel)).isBlank) = false := by
  induction fuel generalizing i with
  | zero => simp only [nRowLoop]; intro h; omega
  | succ fuel ih =>
    unfold nRowLoop
    split
    · exact ih (i + 1) (by omega)
    · rename_i hc
      intro hlt
      simp only [Bool.and_eq_true, decide_eq_true_eq, not_and, Bool.not_eq_true] at hc
      exact hc hlt

/-- the count as the code computes it (`i = 0`, fuel = the longest line): every counted row has a non-blank cell,
    and the first row not counted has none (or there is no further row) -/
theorem nRow_exact (lines : List Row) (longest : Nat) :
    let n := nRowLoop lines longest 0 longest
    (∀ k, k < n → k < longest ∧ lines.any (fun l => k < l.length && !(getD0 l k).isBlank) = true) ∧
    (n < longest → lines.any (fun l => n < l.length && !(getD0 l n).isBlank) = false) :=
  ⟨fun k hk => (nRowLoop_spec lines longest 0 longest).2 k (Nat.zero_le _) hk,
   nRowLoop_stops lines longest 0 longest (by omega)⟩

/-- a counter that never counted would not do: two lines, the third value row all blank, a fourth one not -/
example :
    nRowLoop [[.str "1".toList, .str "2".toList, .str "".toList, .str "4".toList],
              [.str "x".toList, .none]] 4 0 4 = 2 := by decide

/-- **transposed**: raw column `j` is line `j` cut or padded (with empty cells) to the number of value rows -/
theorem column_of_lines (lines : List Row) (n j : Nat) (hj : j < lines.length) :
    (transposeN (transposeN (lines.map (padOrTrim n)) n) lines.length)[j]? = some (padOrTrim n lines[j]) := by
  unfold transposeN
  simp only [List.getElem?_map, List.getElem?_range hj, Option.map_some, List.map_map]
  congr 1
  apply List.ext_getElem
  · simp [padOrTrim_length]
  · intro i h1 h2
    simp only [List.length_map, List.length_range] at h1
    simp only [List.getElem_map, List.getElem_range, Function.comp]
    have hl := padOrTrim_length n lines[j]
    simp [getD0, List.getD_eq_getElem?_getD, hj, hl, h1]

/-- destinations: the blank-separated tokens of the trimmed second-row cell (a set: duplicates dropped) -/
theorem destinations_text (s : Str) : destinations (.str s) = dedup (splitOn ' ' (strip s)) := rfl

/-! ## 5. nothing is silently changed by a strict read -/

theorem dupStep_mono (acc : List Str × Fixer) (p : Str × Nat) :
    (dupStep acc p).2.cfg = acc.2.cfg ∧ (dupStep acc p).2.warnings = acc.2.warnings ∧
    acc.2.errors ≤ (dupStep acc p).2.errors ∧
    ((dupStep acc p).2.errors = acc.2.errors → dupStep acc p = (acc.1 ++ [p.1], acc.2)) := by
  unfold dupStep
  split <;> simp <;> omega

theorem foldl_dupStep (ps : List (Str × Nat)) (acc : List Str × Fixer) :
    (ps.foldl dupStep acc).2.cfg = acc.2.cfg ∧ (ps.foldl dupStep acc).2.warnings = acc.2.warnings ∧
    acc.2.errors ≤ (ps.foldl dupStep acc).2.errors ∧
    ((ps.foldl dupStep acc).2.errors = acc.2.errors → ps.foldl dupStep acc = (acc.1 ++ ps.map (·.1), acc.2)) := by
  induction ps generalizing acc with
  | nil => simp
  | cons p ps ih =>
    have h1 := dupStep_mono acc p
    have h2 := ih (dupStep acc p)
    simp only [List.foldl_cons]
    refine ⟨by rw [h2.1, h1.1], by rw [h2.2.1, h1.2.1], Nat.le_trans h1.2.2.1 h2.2.2.1, ?_⟩
    intro he
    have e1 : (dupStep acc p).2.errors = acc.2.errors := by omega
    have := h1.2.2.2 e1
    have e2 := h2.2.2.2 (by omega)
    rw [e2, this]
    simp

theorem map_fst_zipIdx {α} (l : List α) (n : Nat) : (l.zipIdx n).map (·.1) = l := by
  induction l generalizing n with
  | nil => rfl
  | cons x xs ih => simp [List.zipIdx_cons, ih]

/-- duplicate names are the only thing `fixDuplicates` counts; if it counted nothing the names are unchanged -/
theorem fixDuplicates_spec (names : List Str) (f : Fixer) :
    (fixDuplicates names f).2.cfg = f.cfg ∧ (fixDuplicates names f).2.warnings = f.warnings ∧
    f.errors ≤ (fixDuplicates names f).2.errors ∧
    ((fixDuplicates names f).2.errors = f.errors → fixDuplicates names f = (names, f)) := by
  have := foldl_dupStep names.zipIdx ([], f)
  unfold fixDuplicates
  refine ⟨this.1, this.2.1, this.2.2.1, ?_⟩
  intro he
  rw [this.2.2.2 he, map_fst_zipIdx]
  simp

theorem shortStep_mono (n : Nat) (acc : List Row × Fixer) (p : Row × Nat) :
    (shortStep n acc p).2.cfg = acc.2.cfg ∧ (shortStep n acc p).2.warnings = acc.2.warnings ∧
    acc.2.errors ≤ (shortStep n acc p).2.errors ∧
    ((shortStep n acc p).2.errors = acc.2.errors → shortStep n acc p = (acc.1 ++ [p.1], acc.2) ∧ ¬ p.1.length < n) := by
  unfold shortStep
  split <;> simp_all <;> omega

theorem foldl_shortStep (n : Nat) (ps : List (Row × Nat)) (acc : List Row × Fixer) :
    (ps.foldl (shortStep n) acc).2.cfg = acc.2.cfg ∧ (ps.foldl (shortStep n) acc).2.warnings = acc.2.warnings ∧
    acc.2.errors ≤ (ps.foldl (shortStep n) acc).2.errors ∧
    ((ps.foldl (shortStep n) acc).2.errors = acc.2.errors →
      ps.foldl (shortStep n) acc = (acc.1 ++ ps.map (·.1), acc.2) ∧ ∀ p ∈ ps, ¬ p.1.length < n) := by
  induction ps generalizing acc with
  | nil => simp
  | cons p ps ih =>
    have h1 := shortStep_mono n acc p
    have h2 := ih (shortStep n acc p)
    simp only [List.foldl_cons]
    refine ⟨by rw [h2.1, h1.1], by rw [h2.2.1, h1.2.1], Nat.le_trans h1.2.2.1 h2.2.2.1, ?_⟩
    intro he
    have e1 : (shortStep n acc p).2.errors = acc.2.errors := by omega
    have := h1.2.2.2 e1
    have e2 := h2.2.2.2 (by omega)
    rw [e2.1, this.1]
    refine ⟨by simp, ?_⟩
    intro q hq
    rcases List.mem_cons.1 hq with rfl | hq
    · exact this.2
    · exact e2.2 q hq

/-- short rows are the only thing `fixShortRows` counts; if it counted nothing no row was extended -/
theorem fixShortRows_spec (rows : List Row) (n : Nat) (f : Fixer) :
    (fixShortRows rows n f).2.cfg = f.cfg ∧ (fixShortRows rows n f).2.warnings = f.warnings ∧
    f.errors ≤ (fixShortRows rows n f).2.errors ∧
    ((fixShortRows rows n f).2.errors = f.errors →
      fixShortRows rows n f = (rows, f) ∧ ∀ r ∈ rows, ¬ r.length < n) := by
  have := foldl_shortStep n rows.zipIdx ([], f)
  unfold fixShortRows
  refine ⟨this.1, this.2.1, this.2.2.1, ?_⟩
  intro he
  have h := this.2.2.2 he
  rw [h.1, map_fst_zipIdx]
  refine ⟨by simp, ?_⟩
  intro r hr
  have hm : r ∈ (rows.zipIdx).map (·.1) := by rw [map_fst_zipIdx]; exact hr
  obtain ⟨p, hp, rfl⟩ := List.mem_map.1 hm
  exact h.2 p hp

theorem parseColumns_counts (ext : Ext) (units : List Str) (cols : List Row) (f : Fixer)
    (vs : List ColVals) (f' : Fixer) (h : parseColumns ext units cols f = .ok (vs, f')) :
    f'.errors = f.errors ∧ f.warnings ≤ f'.warnings := by
  induction units generalizing cols f vs f' with
  | nil => simp [parseColumns] at h; obtain ⟨_, rfl⟩ := h; simp
  | cons u us ih =>
    cases cols with
    | nil => simp [parseColumns] at h; obtain ⟨_, rfl⟩ := h; simp
    | cons c cs =>
      simp only [parseColumns] at h
      cases h1 : parseColumn ext u c f with
      | error e => simp [h1, bind, Except.bind] at h
      | ok r1 =>
        obtain ⟨v1, g1⟩ := r1
        simp only [h1, bind, Except.bind] at h
        cases h2 : parseColumns ext us cs g1 with
        | error e => simp [h2] at h
        | ok r2 =>
          obtain ⟨v2, g2⟩ := r2
          simp [h2, pure, Except.pure] at h
          obtain ⟨_, rfl⟩ := h
          have hf := parseColumn_fixer ext u c f v1 g1 h1
          have := ih cs g1 v2 g2 h2
          omega

/-! ### no warning ⇒ no replacement value was used -/

theorem map_getD_indep {α : Type} (cellFn : Cell → Option α) (cells : List Cell) (a b : α)
    (h : (cells.filter (fun c => (cellFn c).isNone)).length = 0) :
    cells.map (fun c => (cellFn c).getD a) = cells.map (fun c => (cellFn c).getD b) := by
  apply List.map_congr_left
  intro c hc
  cases hv : cellFn c with
  | some v => rfl
  | none =>
    exfalso
    have : c ∈ cells.filter (fun c => (cellFn c).isNone) := List.mem_filter.2 ⟨hc, by simp [hv]⟩
    rw [List.length_eq_zero_iff.1 h] at this
    simp at this

theorem dtValues_indep (ext : Ext) (cells : List Cell) (a b : Str)
    (h : (cells.filter (dtIsFix ext)).length = 0) : dtValues ext a cells = dtValues ext b cells := by
  induction cells with
  | nil => rfl
  | cons c cs ih =>
    unfold dtValues
    cases hc : dtCell ext c with
    | ok t =>
      have : (cs.filter (dtIsFix ext)).length = 0 := by simpa [List.filter_cons, dtIsFix, hc] using h
      simp only [ih this]
    | fix => simp [List.filter_cons, dtIsFix, hc] at h
    | raises n => rfl

/-- a column parsed without a new warning has the same values under every choice of replacement values -/
theorem parseColumn_no_warning_indep (ext : Ext) (unit : Str) (cells : List Cell) (f : Fixer) (v : ColVals)
    (f' : Fixer) (h : parseColumn ext unit cells f = .ok (v, f')) (hw : f'.warnings = f.warnings)
    (cfg' : FixCfg) : Spec.typeColumn ext cfg' unit cells = .ok v := by
  have hv := parseColumn_values ext unit cells f
  rw [h] at hv
  simp only [Except.map] at hv
  rw [hv]
  unfold parseColumn at h
  unfold Spec.typeColumn
  by_cases h1 : unit = uText
  · simp [h1]
  · rw [if_neg h1] at h
    simp only [if_neg h1]
    by_cases h2 : unit = uOnoff
    · rw [if_pos h2] at h
      simp only [if_pos h2]
      have hs := parseWith_spec onoffCell (·.repOnoff) "onoff" onoffTxt cells f
      have : f' = (parseOnoff cells f).2 := by cases h; rfl
      subst this
      unfold parseOnoff at hw
      have h0 : (cells.filter (fun c => (onoffCell c).isNone)).length = 0 := by rw [hs.2.2.2.1] at hw; omega
      have := map_getD_indep onoffCell cells cfg'.repOnoff f.cfg.repOnoff h0
      simp only [type_onoff_cell] at this
      rw [this]
    · rw [if_neg h2] at h
      simp only [if_neg h2]
      by_cases h3 : unit = uDatetime
      · rw [if_pos h3] at h
        simp only [if_pos h3]
        cases hr : parseDatetime ext cells f with
        | error e => rw [hr] at h; cases h
        | ok r =>
          obtain ⟨r1, r2⟩ := r
          rw [hr] at h
          have : f' = r2 := by cases h; rfl
          subst this
          have hc := parseDatetime_counts ext cells f r1 f' hr
          have h0 : (cells.filter (dtIsFix ext)).length = 0 := by rw [hc.2.2] at hw; omega
          rw [dtValues_indep ext cells cfg'.repDt f.cfg.repDt h0]
      · rw [if_neg h3] at h
        simp only [if_neg h3]
        have hs := parseWith_spec (floatCell ext) (·.repFloat) "float" floatTxt cells f
        have : f' = (parseFloat ext cells f).2 := by cases h; rfl
        subst this
        unfold parseFloat at hw
        have h0 : (cells.filter (fun c => (floatCell ext c).isNone)).length = 0 := by rw [hs.2.2.2.1] at hw; omega
        rw [map_getD_indep (floatCell ext) cells cfg'.repFloat f.cfg.repFloat h0]

theorem parseColumns_no_warning_indep (ext : Ext) (units : List Str) (cols : List Row) (f : Fixer)
    (vs : List ColVals) (f' : Fixer) (h : parseColumns ext units cols f = .ok (vs, f'))
    (hw : f'.warnings = f.warnings) (cfg' : FixCfg) :
    vs.map Except.ok = List.zipWith (fun u c => Spec.typeColumn ext cfg' u c) units cols := by
  induction units generalizing cols f vs f' with
  | nil => simp [parseColumns] at h; obtain ⟨rfl, rfl⟩ := h; simp
  | cons u us ih =>
    cases cols with
    | nil => simp [parseColumns] at h; obtain ⟨rfl, rfl⟩ := h; simp
    | cons c cs =>
      simp only [parseColumns] at h
      cases h1 : parseColumn ext u c f with
      | error e => simp [h1, bind, Except.bind] at h
      | ok r1 =>
        obtain ⟨v1, g1⟩ := r1
        simp only [h1, bind, Except.bind] at h
        cases h2 : parseColumns ext us cs g1 with
        | error e => simp [h2] at h
        | ok r2 =>
          obtain ⟨v2, g2⟩ := r2
          simp [h2, pure, Except.pure] at h
          obtain ⟨rfl, rfl⟩ := h
          have hf := parseColumn_fixer ext u c f v1 g1 h1
          have hc := parseColumns_counts ext us cs g1 v2 g2 h2
          have hw1 : g1.warnings = f.warnings := by omega
          have hw2 : g2.warnings = g1.warnings := by omega
          have e1 := parseColumn_no_warning_indep ext u c f v1 g1 h1 hw1 cfg'
          have e2 := ih cs g1 v2 g2 h2 hw2
          simp [e1, e2]

/-- **a strict read that succeeds repaired nothing**: starting from clean counters with `stop_on_errors` set,
    success means the fixer was never called — no name was replaced, no row was filled up, and every column
    is exactly `Spec.typeColumn` of its own cells *whatever the replacement values are* (so no replacement
    value can have been used). -/
theorem strict_success_repairs_nothing (ext : Ext) (L : Layout) (f0 : Fixer) (p : Precursor) (f3 : Fixer)
    (hstop : f0.cfg.stopOnErrors = true) (h0 : f0.errors = 0 ∧ f0.warnings = 0)
    (h : finish ext L f0 = .ok (p, f3)) :
    f3.errors = 0 ∧ f3.warnings = 0 ∧ p.names = L.names0 ∧ p.units = L.units ∧
    (∀ r ∈ L.rows0, ¬ r.length < L.names0.length) ∧
    (∀ cfg' : FixCfg, ∃ parsed, p.columns = parsed ++ List.replicate (L.names0.length - parsed.length) ColVals.raw ∧
      parsed.map Except.ok = List.zipWith (fun u c => Spec.typeColumn ext cfg' u c) L.units
        (if L.rows0.isEmpty then [] else transposeN L.rows0 L.names0.length)) := by
  unfold finish at h
  have hd := fixDuplicates_spec L.names0 f0
  cases hdup : fixDuplicates L.names0 f0 with
  | mk names f1 =>
  rw [hdup] at hd
  have hs := fixShortRows_spec L.rows0 names.length f1
  cases hsh : fixShortRows L.rows0 names.length f1 with
  | mk rows f2 =>
  rw [hsh] at hs
  simp only [hdup, hsh, bind, Except.bind] at h
  cases hp : parseColumns ext L.units (if rows.isEmpty = true then [] else transposeN rows names.length) f2 with
  | error e => rw [hp] at h; simp at h
  | ok r =>
    obtain ⟨parsed, g3⟩ := r
    rw [hp] at h
    simp only [] at h
    have hc := parseColumns_counts ext L.units _ f2 parsed g3 hp
    have hcfg := (parseColumns_local ext L.units _ f2 parsed g3 hp).1
    by_cases hfix : (decide (g3.fixes > 0) && g3.cfg.stopOnErrors) = true
    · simp [hfix] at h
    · simp only [hfix, Bool.false_eq_true, if_false, pure, Except.pure] at h
      have hp' : p = ⟨L.name, L.transposed, L.destinations, names, L.units,
          parsed ++ List.replicate (names.length - parsed.length) ColVals.raw⟩ ∧ f3 = g3 := by
        cases h; exact ⟨rfl, rfl⟩
      obtain ⟨rfl, rfl⟩ := hp'
      have hstop3 : f3.cfg.stopOnErrors = true := by
        rw [hcfg, hs.1, hd.1]; exact hstop
      have hz : f3.fixes = 0 := by
        simp only [hstop3, Bool.and_true, decide_eq_true_eq] at hfix
        omega
      unfold Fixer.fixes at hz
      simp only at hd hs
      have he1 : f1.errors = f0.errors := by omega
      have he2 : f2.errors = f1.errors := by omega
      have hnames := hd.2.2.2 he1
      have hrows := hs.2.2.2 he2
      have hn : names = L.names0 := by
        have := congrArg Prod.fst hnames; simpa using this
      subst hn
      have hr : rows = L.rows0 := by
        have := congrArg Prod.fst hrows.1; simpa using this
      subst hr
      refine ⟨by omega, by omega, rfl, rfl, hrows.2, ?_⟩
      intro cfg'
      refine ⟨parsed, rfl, ?_⟩
      exact parseColumns_no_warning_indep ext L.units _ f2 parsed f3 hp (by omega) cfg'

/-- non-vacuity: a strict read of a three-column table (text, numeric with a marker, onoff) succeeds -/
def exampleExt : Ext :=
  ⟨fun s => if s = "1.5".toList then some "1.5".toList else none, fun _ => .valueError, fun c => '0' ≤ c && c ≤ '9'⟩

example :
    (makePrecursor exampleExt
      [[.str "**t".toList], [.str "all".toList],
       [.str " a ".toList, .str "b".toList, .str "c".toList, .none, .str "comment".toList],
       [.str "text".toList, .str " m".toList, .str "onoff".toList],
       [.str "x".toList, .str "1.5".toList, .str "TRUE".toList],
       [.str "".toList, .str " NaN ".toList, .int 0 "0.0".toList]]
      ⟨FixCfg.strict, 0, 0, []⟩).toOption.map (fun r => (r.1.names, r.1.units, r.1.columns)) =
    some (["a".toList, "b".toList, "c".toList], ["text".toList, "m".toList, "onoff".toList],
          [.text ["x".toList, []], .num ["1.5".toList, NaN], .onoff [true, false]]) := by decide

end Pdt.C02
