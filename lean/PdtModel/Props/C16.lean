/-
  Props/C16.lean — "Loading reads exactly the reachable files, once each, and always terminates".

  All statements are for every world (any finite map of folders / files, any resolution function), every root
  list, both trackers, `allow_include` on and off and every work-list discipline (`Cfg.pick`).
  `Spec.*` are the declarative notions the statements are phrased in.
-/
import PdtModel.Model.Load
import PdtModel.Gen.Consts
set_option linter.unusedSimpArgs false
namespace Pdt.C16
open Pdt Pdt.Load

/-! ## 0. Tie to the source -/

/-- the directive name `IncludeReader` consumes -/
theorem include_directive_pinned : Gen.includeDirective = "include".toList := by decide

/-- `make_loader`: the file-system loader is registered under "file", which is also the default protocol -/
theorem protocol_keys_pinned :
    Gen.fileProtocolKey = "file".toList ∧ Gen.defaultProtocol = "file".toList := by decide

/-! ## 1. Declarative notions -/

namespace Spec

/-- an include directive: a DIRECTIVE block whose name is exactly `include` -/
def IsInclude (b : FBlock) : Prop := b.ty = .directive ∧ b.name = "include".toList

instance (b : FBlock) : Decidable (IsInclude b) := by unfold IsInclude; exact inferInstance

/-- the specifications a read of the node puts on the work-list: the matching children of a folder;
    the lines of the include directives of the sheets that are read (nothing when includes are off) -/
def pushSpecs (allow : Bool) : Node → List Str
  | .folder ch => (ch.filter (·.2)).map (·.1)
  | .file sheets =>
    sheets.flatMap fun s =>
      if s.use then s.blocks.flatMap (fun b => if allow = true ∧ IsInclude b then b.lines else []) else []
  | .unreadable => []

/-- where a specification found at `src` (`none` = a root) leads: resolved by the loader `handlerFor` selects -/
def target (w : World) (s : Str) (src : Option Loc) : Option Loc :=
  w.resolve (handlerFor w s) s src

/-- locations reachable **as the loader computes it**: every pushed specification — an include line, but also
    the bare NAME of a matching folder entry (`LoadItem(specification=p.name, source=folder)`) — is resolved as
    a specification relative to where it was found -/
inductive ReachSpec (w : World) (allow : Bool) (roots : List Str) : Loc → Prop
  | root {s l} : s ∈ roots → target w s none = some l → ReachSpec w allow roots l
  | step {l node s l'} : ReachSpec w allow roots l → lookupNode w l = some node → s ∈ pushSpecs allow node →
      target w s (some l) = some l' → ReachSpec w allow roots l'

/-- locations reachable from the roots **through folder name matching and include directives** — what the
    property says: a matching entry of a reachable folder is reachable *itself* (`World.childLoc`, the entry
    `folder / name`), an include line leads where it resolves to -/
inductive Reach (w : World) (allow : Bool) (roots : List Str) : Loc → Prop
  | root {s l} : s ∈ roots → target w s none = some l → Reach w allow roots l
  | entry {l ch name l'} : Reach w allow roots l → lookupNode w l = some (.folder ch) → (name, true) ∈ ch →
      w.childLoc l name = some l' → Reach w allow roots l'
  | directive {l sheets s l'} : Reach w allow roots l → lookupNode w l = some (.file sheets) →
      s ∈ pushSpecs allow (.file sheets) → target w s (some l) = some l' → Reach w allow roots l'

/-- no folder entry's name is specification-like *in effect*: every matching entry of every folder, re-read as
    a specification found in that folder, resolves to the entry itself.  (False for entries named `\\x.csv`,
    `file:x.csv`, `FILE:x.csv`, `<registered protocol>:x.csv` — known finding F6.)  Decidable on the world. -/
def entriesFaithful (w : World) : Bool :=
  w.nodes.all fun p => match p.2 with
    | .folder ch => ch.all fun c => !c.2 || target w c.1 (some p.1) == w.childLoc p.1 c.1
    | _ => true

/-- the blocks a read of location `l` yields: the blocks of the sheets that are read, in file order, minus the
    include directives when includes are honoured -/
def yielded (allow : Bool) (l : Loc) : Node → List (Loc × Option Str × FBlock)
  | .file sheets =>
    sheets.flatMap fun s =>
      if s.use then (s.blocks.filter (fun b => ¬ (allow = true ∧ IsInclude b))).map (fun b => (l, s.name, b))
      else []
  | _ => []

def yieldedAt (w : World) (allow : Bool) (l : Loc) : List (Loc × Option Str × FBlock) :=
  match lookupNode w l with
  | some n => yielded allow l n
  | none => []

/-- number of times location `l` is asked for: by the roots and by the reads of the locations in `vis` -/
def arrivals (w : World) (allow : Bool) (roots : List Str) (vis : List Loc) (l : Loc) : Nat :=
  roots.countP (fun s => target w s none == some l) +
  (vis.map fun v => match lookupNode w v with
    | some n => (pushSpecs allow n).countP (fun s => target w s (some v) == some l)
    | none => 0).sum

/-- tracker errors naming `l` -/
def dupsNaming (l : Loc) (issues : List Issue) : Nat :=
  issues.countP fun i => match i with
    | .dup l' _ => l' == l
    | .resolveFail _ => false
    | .parse _ _ _ => false

end Spec

def Out.key (o : Out) : Loc × Option Str × FBlock := (o.loc, o.sheet, o.blk)

/-- the world as loads under this tracker get through it: every file cut down to the blocks a read delivers
    (`effNode`: unparsable tables dropped — collecting tracker — or everything from the first one on — default
    tracker).  All `Spec` notions of a load are taken in this world. -/
def effWorld (raising : Bool) (w : World) : World :=
  { w with nodes := w.nodes.map (fun p => (p.1, effNode raising p.2)) }

theorem lookup_effWorld (raising : Bool) (w : World) (l : Loc) :
    lookupNode (effWorld raising w) l = (lookupNode w l).map (effNode raising) := by
  unfold lookupNode effWorld
  simp only
  induction w.nodes with
  | nil => rfl
  | cons p rest ih =>
    obtain ⟨k, n⟩ := p
    simp only [List.map_cons, List.lookup_cons]
    cases l == k <;> simp [ih]

theorem lookup_eff {raising : Bool} {w : World} {l : Loc} {node : Node} (h : lookupNode w l = some node) :
    lookupNode (effWorld raising w) l = some (effNode raising node) := by
  rw [lookup_effWorld, h]; rfl

theorem resolveItem_effWorld (raising : Bool) (w : World) (it : Item) :
    resolveItem (effWorld raising w) it = resolveItem w it := rfl

/-- collecting tracker: a read gets through every block of the sheets it reads except the unparsable tables -/
theorem cutSheets_collecting (sheets : List Sheet) :
    cutSheets false sheets =
      sheets.map (fun s => if s.use then { s with blocks := s.blocks.filter (fun b => !b.bad) } else s) := by
  induction sheets with
  | nil => rfl
  | cons s rest ih => cases hu : s.use <;> simp [cutSheets, hu, ih]

/-- no unparsable table in a sheet that is read: the file is read as it is, whatever the tracker -/
theorem cutSheets_clean (raising : Bool) (sheets : List Sheet) (h : sheets.any Sheet.hasBad = false) :
    cutSheets raising sheets = sheets := by
  induction sheets with
  | nil => rfl
  | cons s rest ih =>
    simp only [List.any_cons, Bool.or_eq_false_iff] at h
    obtain ⟨h1, h2⟩ := h
    cases hu : s.use with
    | false => simp [cutSheets, hu, ih h2]
    | true =>
      have hb : s.blocks.any (·.bad) = false := by simpa [Sheet.hasBad, hu] using h1
      have hf : s.blocks.filter (fun b => !b.bad) = s.blocks := by
        rw [List.filter_eq_self]; intro b hb'
        have := List.any_eq_false.1 hb b hb'
        simpa using this
      cases raising <;> simp [cutSheets, hu, hb, hf, ih h2]
      cases s; simp_all

/-! ## 2. Glue lemmas: the readers against the declarative notions -/

theorem isInclude_iff (b : FBlock) : isInclude b = true ↔ Spec.IsInclude b := by
  simp [isInclude, Spec.IsInclude, include_directive_pinned]

theorem blockPushes_spec (allow : Bool) (l : Loc) (it : Item) (sh : Option Str) (b : FBlock) :
    (blockPushes allow l it sh b).map Item.spec =
      if allow = true ∧ Spec.IsInclude b then b.lines else [] := by
  unfold blockPushes
  by_cases h : allow = true ∧ Spec.IsInclude b
  · simp [h.1, (isInclude_iff b).2 h.2, h.2, List.map_map, Function.comp_def, Item.spec]
  · cases allow with
    | false => simp
    | true =>
      have hn : ¬ Spec.IsInclude b := by simpa using h
      have hf : isInclude b = false := by
        cases hi : isInclude b with
        | false => rfl
        | true => exact absurd ((isInclude_iff b).1 hi) hn
      simp [hf, hn]

theorem nodePushes_spec (allow : Bool) (l : Loc) (it : Item) (n : Node) :
    (nodePushes allow l it n).map Item.spec = Spec.pushSpecs allow n := by
  cases n with
  | folder ch => simp [nodePushes, folderPushes, Spec.pushSpecs, List.map_map, Function.comp_def, Item.spec]
  | unreadable => simp [nodePushes, Spec.pushSpecs]
  | file sheets =>
    simp only [nodePushes, Spec.pushSpecs, List.map_flatMap]
    congr 1
    funext s
    unfold sheetPushes
    by_cases hu : s.use = true
    · simp only [hu, if_true, List.map_flatMap]
      congr 1
      funext b
      exact blockPushes_spec allow l it s.name b
    · simp [hu]

theorem nodePushes_src (allow : Bool) (l : Loc) (it : Item) (n : Node) :
    ∀ x ∈ nodePushes allow l it n, x.srcLoc = some l := by
  intro x hx
  cases n with
  | folder ch =>
    simp [nodePushes, folderPushes] at hx
    obtain ⟨a, b, _, rfl⟩ := hx
    rfl
  | unreadable => simp [nodePushes] at hx
  | file sheets =>
    simp only [nodePushes, List.mem_flatMap] at hx
    obtain ⟨s, _, hx⟩ := hx
    unfold sheetPushes at hx
    split at hx
    · simp only [List.mem_flatMap] at hx
      obtain ⟨b, _, hx⟩ := hx
      unfold blockPushes at hx
      split at hx
      · simp at hx
        obtain ⟨a, _, rfl⟩ := hx
        rfl
      · simp at hx
    · simp at hx

theorem resolveItem_eq (w : World) (it : Item) :
    resolveItem w it = Spec.target w it.spec it.srcLoc := rfl

theorem nodePushes_length (allow : Bool) (l : Loc) (it : Item) (n : Node) :
    (nodePushes allow l it n).length = (Spec.pushSpecs allow n).length := by
  rw [← nodePushes_spec allow l it n, List.length_map]

theorem weight_eq (allow : Bool) (n : Node) : weight allow n = (Spec.pushSpecs allow n).length + 1 := by
  unfold weight; rw [nodePushes_length]

theorem filter_map_eq_flatMap {α β} (p : α → Prop) [DecidablePred p] (f : α → β) (xs : List α) :
    (xs.filter (fun x => decide (p x))).map f = xs.flatMap (fun x => if p x then [f x] else []) := by
  induction xs with
  | nil => rfl
  | cons x xs ih =>
    by_cases h : p x <;> simp [List.filter_cons, h, ih]

theorem nodeOuts_spec (allow : Bool) (l : Loc) (it : Item) (n : Node) :
    (nodeOuts allow l it n).map Out.key = Spec.yielded allow l n := by
  cases n with
  | folder ch => simp [nodeOuts, Spec.yielded]
  | unreadable => simp [nodeOuts, Spec.yielded]
  | file sheets =>
    simp only [nodeOuts, Spec.yielded, List.map_flatMap]
    congr 1
    funext s
    unfold sheetOuts
    by_cases hu : s.use = true
    · simp only [hu, if_true, List.map_flatMap]
      rw [filter_map_eq_flatMap (fun b => ¬ (allow = true ∧ Spec.IsInclude b))]
      congr 1
      funext b
      unfold blockOuts
      by_cases h : allow = true ∧ Spec.IsInclude b
      · simp [h.1, (isInclude_iff b).2 h.2, h.2]
      · cases allow with
        | false => simp [Out.key]
        | true =>
          have hn : ¬ Spec.IsInclude b := by simpa using h
          have hf : isInclude b = false := by
            cases hi : isInclude b with
            | false => rfl
            | true => exact absurd ((isInclude_iff b).1 hi) hn
          simp [hf, hn, Out.key]
    · simp [hu]

/-! ## 3. The work-list: `pop` -/

theorem perm_eraseIdx {α} (s : List α) (i : Nat) (x : α) (h : s[i]? = some x) :
    (x :: s.eraseIdx i).Perm s := by
  induction s generalizing i with
  | nil => simp at h
  | cons a t ih =>
    cases i with
    | zero => simp at h; subst h; simp
    | succ i =>
      simp at h
      simp only [List.eraseIdx_cons_succ]
      exact (List.Perm.swap a x _).trans ((ih i h).cons a)

theorem pop_none (pick : List Item → Nat) (s : List Item) : pop pick s = none ↔ s = [] := by
  unfold pop
  constructor
  · intro h
    cases s with
    | nil => rfl
    | cons a t =>
      have hlt : pick (a :: t) % (a :: t).length < (a :: t).length := Nat.mod_lt _ (by simp)
      have : ∃ x, (a :: t)[pick (a :: t) % (a :: t).length]? = some x :=
        ⟨_, List.getElem?_eq_getElem hlt⟩
      obtain ⟨x, hx⟩ := this
      rw [hx] at h
      simp at h
  · rintro rfl; simp

theorem pop_perm (pick : List Item → Nat) (s : List Item) (it : Item) (rest : List Item)
    (h : pop pick s = some (it, rest)) : (it :: rest).Perm s := by
  unfold pop at h
  split at h
  · rename_i x hx
    simp at h
    obtain ⟨rfl, rfl⟩ := h
    exact perm_eraseIdx s _ _ hx
  · simp at h

theorem pop_length (pick : List Item → Nat) (s : List Item) (it : Item) (rest : List Item)
    (h : pop pick s = some (it, rest)) : rest.length + 1 = s.length := by
  simpa using (pop_perm pick s it rest h).length_eq

theorem pop_mem (pick : List Item → Nat) (s : List Item) (it : Item) (rest : List Item)
    (h : pop pick s = some (it, rest)) (x : Item) : x ∈ s ↔ x = it ∨ x ∈ rest := by
  simpa using ((pop_perm pick s it rest h).mem_iff (a := x)).symm

theorem pop_countP (pick : List Item → Nat) (s : List Item) (it : Item) (rest : List Item)
    (h : pop pick s = some (it, rest)) (p : Item → Bool) :
    s.countP p = rest.countP p + if p it = true then 1 else 0 := by
  rw [← (pop_perm pick s it rest h).countP_eq p, List.countP_cons]

/-- Python's `pop()` takes the item appended last -/
theorem pop_last (s : List Item) (x : Item) : pop pickLast (s ++ [x]) = some (x, s) := by
  unfold pop pickLast
  have h1 : (s ++ [x]).length - 1 = s.length := by simp
  have h2 : s.length % (s ++ [x]).length = s.length := Nat.mod_eq_of_lt (by simp)
  have h3 : (s ++ [x]).eraseIdx s.length = s := by
    induction s with
    | nil => rfl
    | cons a t ih => simp [List.eraseIdx_cons_succ, ih]
  simp [h1, h2, h3]

/-! ## 4. Shape of one iteration -/

/-- what one iteration can do, spelled out -/
inductive StepCase (w : World) (cfg : Cfg) (st : LSt) : LSt × Status → Prop
  | empty : st.stack = [] → StepCase w cfg st (st, .done)
  | resolveFailRaising (it rest) : pop cfg.pick st.stack = some (it, rest) → resolveItem w it = none →
      cfg.raising = true → StepCase w cfg st ({ st with stack := rest }, .raised .inputError)
  | resolveFailCollect (it rest) : pop cfg.pick st.stack = some (it, rest) → resolveItem w it = none →
      cfg.raising = false →
      StepCase w cfg st ({ st with stack := rest, issues := st.issues ++ [.resolveFail it] }, .raised .loadError)
  | missing (it rest l) : pop cfg.pick st.stack = some (it, rest) → resolveItem w it = some l →
      lookupNode w l = none → StepCase w cfg st ({ st with stack := rest }, .raised .fileNotFound)
  | dupRaising (it rest l node) : pop cfg.pick st.stack = some (it, rest) → resolveItem w it = some l →
      lookupNode w l = some node → l ∈ st.visited → cfg.raising = true →
      StepCase w cfg st ({ st with stack := rest }, .raised .inputError)
  | dupCollect (it rest l node) : pop cfg.pick st.stack = some (it, rest) → resolveItem w it = some l →
      lookupNode w l = some node → l ∈ st.visited → cfg.raising = false →
      StepCase w cfg st ({ st with stack := rest, issues := st.issues ++ [.dup l it] }, .running)
  | read (it rest l node) : pop cfg.pick st.stack = some (it, rest) → resolveItem w it = some l →
      lookupNode w l = some node → l ∉ st.visited →
      StepCase w cfg st
        ({ st with visited := st.visited ++ [l],
                   stack := rest ++ nodePushes cfg.allowInclude l it (effNode cfg.raising node),
                   out := st.out ++ nodeOuts cfg.allowInclude l it (effNode cfg.raising node),
                   issues := st.issues ++ nodeIssues cfg.raising l node }, readStatus cfg.raising node)

theorem step_cases (w : World) (cfg : Cfg) (st : LSt) : StepCase w cfg st (loadStep w cfg st) := by
  unfold loadStep
  cases hp : pop cfg.pick st.stack with
  | none => exact .empty ((pop_none _ _).1 hp)
  | some p =>
    obtain ⟨it, rest⟩ := p
    simp only
    cases hr : resolveItem w it with
    | none =>
      simp only
      cases hb : cfg.raising with
      | true => simpa [hb] using StepCase.resolveFailRaising it rest hp hr hb
      | false => simpa [hb] using StepCase.resolveFailCollect it rest hp hr hb
    | some l =>
      simp only
      cases hn : lookupNode w l with
      | none => exact .missing it rest l hp hr hn
      | some node =>
        simp only
        by_cases hv : l ∈ st.visited
        · simp only [hv, if_true]
          cases hb : cfg.raising with
          | true => simpa [hb] using StepCase.dupRaising it rest l node hp hr hn hv hb
          | false => simpa [hb] using StepCase.dupCollect it rest l node hp hr hn hv hb
        · simp only [hv, if_false]
          exact .read it rest l node hp hr hn hv

theorem readStatus_cases (r : Bool) (n : Node) :
    readStatus r n = .running ∨ readStatus r n = .raised .valueError ∨ readStatus r n = .raised .inputError := by
  cases n with
  | folder ch => simp [readStatus]
  | unreadable => simp [readStatus]
  | file sheets => simp only [readStatus]; split <;> simp

/-- invariants that every iteration preserves hold in the final state -/
theorem run_inv (w : World) (cfg : Cfg) (I : LSt → Prop)
    (hI : ∀ st r, I st → StepCase w cfg st r → I r.1) :
    ∀ n st, I st → I (loadRun w cfg n st).1 := by
  intro n
  induction n with
  | zero => intro st h; simpa [loadRun] using h
  | succ n ih =>
    intro st h
    have hs := hI st _ h (step_cases w cfg st)
    unfold loadRun
    cases hstep : loadStep w cfg st with
    | mk st' s =>
      rw [hstep] at hs
      cases s with
      | running => exact ih st' hs
      | done => exact hs
      | raised e => exact hs
      | outOfFuel => exact hs

/-- a completed load: invariants of the iterations that continue hold at the end, and the work-list is empty -/
theorem run_done (w : World) (cfg : Cfg) (I : LSt → Prop)
    (hI : ∀ st st', I st → StepCase w cfg st (st', .running) → I st') :
    ∀ n st, I st → (loadRun w cfg n st).2 = .done →
      I (loadRun w cfg n st).1 ∧ (loadRun w cfg n st).1.stack = [] := by
  intro n
  induction n with
  | zero => intro st _ h; simp [loadRun] at h
  | succ n ih =>
    intro st h hd
    have hc := step_cases w cfg st
    have hrun : loadRun w cfg (n + 1) st =
        match loadStep w cfg st with
        | (st', .running) => loadRun w cfg n st'
        | r => r := rfl
    rw [hrun] at hd ⊢
    cases hstep : loadStep w cfg st with
    | mk st' s =>
      rw [hstep] at hc hd
      cases s with
      | running => exact ih st' (hI st st' h hc) hd
      | done =>
        generalize hr : (st', Status.done) = r at hc
        cases hc with
        | empty he => simp at hr; obtain ⟨rfl⟩ := hr; exact ⟨h, he⟩
        | read it rest l node _ _ _ _ =>
          rcases readStatus_cases cfg.raising node with e | e | e <;> simp [e] at hr
        | resolveFailRaising => simp at hr
        | resolveFailCollect => simp at hr
        | missing => simp at hr
        | dupRaising => simp at hr
        | dupCollect => simp at hr
      | raised e => simp at hd
      | outOfFuel => simp at hd

/-! ## 5. Termination -/

/-- the measure: pending items plus, for every location not yet read, what its read can add (+1) -/
def pot (w : World) (raising allow : Bool) (st : LSt) : Nat :=
  st.stack.length +
    ((w.nodes.filter (fun p => decide (p.1 ∉ st.visited))).map
      (fun p => weight allow (effNode raising p.2))).sum

theorem sum_filter_le {α} (p q : α → Bool) (f : α → Nat) (xs : List α) (h : ∀ x, q x = true → p x = true) :
    ((xs.filter q).map f).sum ≤ ((xs.filter p).map f).sum := by
  induction xs with
  | nil => simp
  | cons x xs ih =>
    rw [List.filter_cons, List.filter_cons]
    cases hq : q x with
    | true => simp only [h x hq, if_true, List.map_cons, List.sum_cons]; omega
    | false =>
      cases hp : p x with
      | true => simp only [if_true, List.map_cons, List.sum_cons]; simp; omega
      | false => simpa using ih

theorem sum_filter_drop (nodes : List (Loc × Node)) (vis : List Loc) (l : Loc) (node : Node) (f : Node → Nat)
    (hl : nodes.lookup l = some node) (hv : l ∉ vis) :
    ((nodes.filter (fun p => decide (p.1 ∉ vis ++ [l]))).map (fun p => f p.2)).sum + f node ≤
      ((nodes.filter (fun p => decide (p.1 ∉ vis))).map (fun p => f p.2)).sum := by
  induction nodes with
  | nil => simp at hl
  | cons p rest ih =>
    obtain ⟨k, n⟩ := p
    rw [List.lookup_cons] at hl
    rw [List.filter_cons, List.filter_cons]
    by_cases hk : l = k
    · subst hk
      simp at hl
      have hmono := sum_filter_le (fun p : Loc × Node => decide (p.1 ∉ vis))
        (fun p => decide (p.1 ∉ vis ++ [l])) (fun p => f p.2) rest (by
          intro x hx; simp at hx ⊢; exact hx.1)
      subst hl
      have h1 : decide ((l, n).1 ∉ vis ++ [l]) = false := by simp
      have h2 : decide ((l, n).1 ∉ vis) = true := by simpa using hv
      simp only [h1, h2, if_true, Bool.false_eq_true, if_false, List.map_cons, List.sum_cons]
      omega
    · have hne : (l == k) = false := by simpa using hk
      simp only [hne] at hl
      have ih' := ih hl
      have hk' : ¬ k = l := fun e => hk e.symm
      by_cases h1 : k ∈ vis
      · have e1 : decide ((k, n).1 ∉ vis ++ [l]) = false := by simp [h1]
        have e2 : decide ((k, n).1 ∉ vis) = false := by simp [h1]
        simp only [e1, e2]
        simpa using ih'
      · have e1 : decide ((k, n).1 ∉ vis ++ [l]) = true := by simp [h1, hk']
        have e2 : decide ((k, n).1 ∉ vis) = true := by simp [h1]
        simp only [e1, e2, if_true, List.map_cons, List.sum_cons]
        omega

theorem pot_decreases (w : World) (cfg : Cfg) (st st' : LSt)
    (h : StepCase w cfg st (st', .running)) :
    pot w cfg.raising cfg.allowInclude st' < pot w cfg.raising cfg.allowInclude st := by
  generalize hr : (st', Status.running) = r at h
  cases h with
  | empty => simp at hr
  | resolveFailRaising => simp at hr
  | resolveFailCollect => simp at hr
  | missing => simp at hr
  | dupRaising => simp at hr
  | dupCollect it rest l node hp _ _ _ _ =>
    simp at hr
    subst hr
    have := pop_length _ _ _ _ hp
    simp only [pot]
    omega
  | read it rest l node hp _ hn hv =>
    simp at hr
    obtain ⟨rfl, _⟩ := hr
    have hlen := pop_length _ _ _ _ hp
    have hdrop := sum_filter_drop w.nodes st.visited l node
      (fun n => weight cfg.allowInclude (effNode cfg.raising n)) hn hv
    have hw : weight cfg.allowInclude (effNode cfg.raising node) =
        (nodePushes cfg.allowInclude l it (effNode cfg.raising node)).length + 1 := by
      rw [weight_eq, nodePushes_length]
    simp only [pot, List.length_append]
    omega

theorem step_ne_outOfFuel (w : World) (cfg : Cfg) (st : LSt) : (loadStep w cfg st).2 ≠ .outOfFuel := by
  have h := step_cases w cfg st
  generalize loadStep w cfg st = r at h
  cases h <;> try simp
  rename_i node _ _ _ _
  rcases readStatus_cases cfg.raising node with e | e | e <;> simp [e]

/-- more fuel than the measure: the loop stops by itself and extra fuel changes nothing -/
theorem run_stable (w : World) (cfg : Cfg) :
    ∀ n st, pot w cfg.raising cfg.allowInclude st < n →
      (loadRun w cfg n st).2 ≠ .outOfFuel ∧ (loadRun w cfg n st).2 ≠ .running ∧
      ∀ k, loadRun w cfg (n + k) st = loadRun w cfg n st := by
  intro n
  induction n with
  | zero => intro st h; omega
  | succ n ih =>
    intro st h
    have hc := step_cases w cfg st
    have hne := step_ne_outOfFuel w cfg st
    have hrun : ∀ m, loadRun w cfg (m + 1) st =
        match loadStep w cfg st with
        | (st', .running) => loadRun w cfg m st'
        | r => r := fun m => rfl
    cases hstep : loadStep w cfg st with
    | mk st' s =>
      rw [hstep] at hc hne
      cases s with
      | running =>
        have hlt := pot_decreases w cfg st st' hc
        obtain ⟨h1, h2, h3⟩ := ih st' (by omega)
        refine ⟨by rw [hrun, hstep]; exact h1, by rw [hrun, hstep]; exact h2, ?_⟩
        intro k
        have : n + 1 + k = (n + k) + 1 := by omega
        rw [this, hrun, hrun, hstep]
        exact h3 k
      | done =>
        refine ⟨by rw [hrun, hstep]; simp, by rw [hrun, hstep]; simp, ?_⟩
        intro k
        have : n + 1 + k = (n + k) + 1 := by omega
        rw [this, hrun, hrun, hstep]
      | raised e =>
        refine ⟨by rw [hrun, hstep]; simp, by rw [hrun, hstep]; simp, ?_⟩
        intro k
        have : n + 1 + k = (n + k) + 1 := by omega
        rw [this, hrun, hrun, hstep]
      | outOfFuel => simp at hne

theorem pot_init (w : World) (raising allow : Bool) (roots : List Str) :
    pot w raising allow (loadInit roots) < fuelBound w raising allow roots := by
  have : (w.nodes.filter (fun p => decide (p.1 ∉ (loadInit roots).visited))) = w.nodes := by
    simp [loadInit]
  simp only [pot, fuelBound, this]
  simp [loadInit]

/-- **terminates**: for every world, root list and configuration the loop stops within the bound computed
    from the world (one iteration per root, per item any location can push, plus one) — it ends with the
    work-list empty or with a raised exception, never by exhausting the fuel; more fuel changes nothing. -/
theorem terminates (w : World) (cfg : Cfg) (roots : List Str) :
    (loadFiles w cfg roots).2 ≠ .outOfFuel ∧ (loadFiles w cfg roots).2 ≠ .running ∧
    ∀ k, loadRun w cfg (fuelBound w cfg.raising cfg.allowInclude roots + k) (loadInit roots) =
      loadFiles w cfg roots :=
  run_stable w cfg _ _ (pot_init w cfg.raising cfg.allowInclude roots)

/-! ## 6. Each location at most once; a file's blocks together, in file order, includes consumed -/

/-- **at_most_once**: no location is read twice (`visited` lists the locations in the order they were read) -/
theorem at_most_once (w : World) (cfg : Cfg) (roots : List Str) :
    (loadFiles w cfg roots).1.visited.Nodup := by
  apply run_inv w cfg (fun st => st.visited.Nodup)
  · intro st r h hc
    cases hc with
    | read it rest l node _ _ _ hv =>
      show (st.visited ++ [l]).Nodup
      rw [List.nodup_append]
      refine ⟨h, by simp, ?_⟩
      intro a ha b hb
      simp at hb
      subst hb
      exact fun e => hv (e ▸ ha)
    | _ => exact h
  · simp [loadInit]

/-- **blocks_contiguous_in_file_order**: the yielded blocks are, location by location in the order the
    locations were read, exactly the blocks of that location in file order (sheets that are read, include
    directives removed when includes are honoured).  With `at_most_once`: every file's blocks come out
    together, once. -/
theorem blocks_contiguous_in_file_order (w : World) (cfg : Cfg) (roots : List Str) :
    (loadFiles w cfg roots).1.out.map Out.key =
      (loadFiles w cfg roots).1.visited.flatMap
        (Spec.yieldedAt (effWorld cfg.raising w) cfg.allowInclude) := by
  apply run_inv w cfg
    (fun st => st.out.map Out.key =
      st.visited.flatMap (Spec.yieldedAt (effWorld cfg.raising w) cfg.allowInclude))
  · intro st r h hc
    cases hc with
    | read it rest l node _ _ hn hv =>
      show (st.out ++ nodeOuts cfg.allowInclude l it (effNode cfg.raising node)).map Out.key =
        (st.visited ++ [l]).flatMap (Spec.yieldedAt (effWorld cfg.raising w) cfg.allowInclude)
      rw [List.map_append, List.flatMap_append, h, nodeOuts_spec]
      simp [Spec.yieldedAt, lookup_eff hn]
    | _ => exact h
  · simp [loadInit]

theorem mem_yielded (allow : Bool) (l : Loc) (n : Node) (x : Loc × Option Str × FBlock)
    (hx : x ∈ Spec.yielded allow l n) :
    x.1 = l ∧ ¬ (allow = true ∧ Spec.IsInclude x.2.2) ∧
    ∃ sheets s, n = .file sheets ∧ s ∈ sheets ∧ s.use = true ∧ x.2.1 = s.name ∧ x.2.2 ∈ s.blocks := by
  cases n with
  | folder ch => simp [Spec.yielded] at hx
  | unreadable => simp [Spec.yielded] at hx
  | file sheets =>
    simp only [Spec.yielded, List.mem_flatMap] at hx
    obtain ⟨s, hs, hx⟩ := hx
    split at hx
    · rename_i hu
      simp only [List.mem_map, List.mem_filter, decide_eq_true_eq] at hx
      obtain ⟨b, ⟨hb, hnb⟩, rfl⟩ := hx
      exact ⟨rfl, hnb, sheets, s, rfl, hs, hu, rfl, hb⟩
    · simp at hx

theorem mem_takeWhile_imp {α} (p : α → Bool) (l : List α) (a : α) (h : a ∈ l.takeWhile p) : p a = true := by
  induction l with
  | nil => simp at h
  | cons x xs ih =>
    simp only [List.takeWhile_cons] at h
    split at h
    · simp only [List.mem_cons] at h
      rcases h with rfl | h
      · assumption
      · exact ih h
    · simp at h

/-- a sheet a read gets through is a sheet of the file, with some of its parsable blocks -/
theorem mem_cutSheets (raising : Bool) (sheets : List Sheet) (s' : Sheet) (hs : s' ∈ cutSheets raising sheets)
    (hu : s'.use = true) :
    ∃ s ∈ sheets, s.use = true ∧ s'.name = s.name ∧ ∀ b ∈ s'.blocks, b ∈ s.blocks ∧ b.bad = false := by
  induction sheets with
  | nil => simp [cutSheets] at hs
  | cons s rest ih =>
    unfold cutSheets at hs
    cases hsu : s.use with
    | false =>
      simp only [hsu, Bool.not_false, if_true, List.mem_cons] at hs
      rcases hs with rfl | hs
      · rw [hsu] at hu; cases hu
      · obtain ⟨t, ht, h⟩ := ih hs
        exact ⟨t, List.mem_cons_of_mem _ ht, h⟩
    | true =>
      simp only [hsu, Bool.not_true, Bool.false_eq_true, if_false] at hs
      cases raising with
      | false =>
        simp only [Bool.false_eq_true, if_false, List.mem_cons] at hs
        rcases hs with rfl | hs
        · refine ⟨s, List.mem_cons_self, hsu, rfl, ?_⟩
          intro b hb
          simp only [List.mem_filter, Bool.not_eq_true'] at hb
          exact hb
        · obtain ⟨t, ht, h⟩ := ih hs
          exact ⟨t, List.mem_cons_of_mem _ ht, h⟩
      | true =>
        simp only [if_true] at hs
        split at hs
        · simp only [List.mem_singleton] at hs
          subst hs
          refine ⟨s, List.mem_cons_self, hsu, rfl, ?_⟩
          intro b hb
          refine ⟨(List.takeWhile_sublist _).subset hb, ?_⟩
          simpa using mem_takeWhile_imp _ _ _ hb
        · rename_i hnb
          simp only [List.mem_cons] at hs
          rcases hs with rfl | hs
          · refine ⟨s', List.mem_cons_self, hsu, rfl, ?_⟩
            intro b hb
            refine ⟨hb, ?_⟩
            have := List.any_eq_false.1 (by simpa using hnb) b hb
            simpa using this
          · obtain ⟨t, ht, h⟩ := ih hs
            exact ⟨t, List.mem_cons_of_mem _ ht, h⟩

/-- every yielded block was read from a location that was visited and is a (parsable) block of a sheet of that
    file that is read -/
theorem yielded_from_visited (w : World) (cfg : Cfg) (roots : List Str) :
    ∀ o ∈ (loadFiles w cfg roots).1.out,
      o.loc ∈ (loadFiles w cfg roots).1.visited ∧
      ¬ (cfg.allowInclude = true ∧ Spec.IsInclude o.blk) ∧
      ∃ sheets s, lookupNode w o.loc = some (.file sheets) ∧ s ∈ sheets ∧ s.use = true ∧
        o.sheet = s.name ∧ o.blk ∈ s.blocks ∧ o.blk.bad = false := by
  intro o ho
  have hk : Out.key o ∈ (loadFiles w cfg roots).1.out.map Out.key := List.mem_map_of_mem ho
  rw [blocks_contiguous_in_file_order, List.mem_flatMap] at hk
  obtain ⟨l, hl, hk⟩ := hk
  unfold Spec.yieldedAt at hk
  split at hk
  · rename_i n hn
    obtain ⟨h1, h2, sheets', s', rfl, h4, h5, h6, h7⟩ := mem_yielded _ _ _ _ hk
    have hol : o.loc = l := h1
    rw [lookup_effWorld] at hn
    cases hw : lookupNode w l with
    | none => simp [hw] at hn
    | some n0 =>
      simp only [hw, Option.map_some, Option.some.injEq] at hn
      cases n0 with
      | folder ch => simp [effNode] at hn
      | unreadable => simp [effNode] at hn
      | file sheets =>
        simp only [effNode, Node.file.injEq] at hn
        subst hn
        obtain ⟨s, hs, hsu, hname, hblk⟩ := mem_cutSheets _ sheets s' h4 h5
        have hb := hblk _ h7
        exact ⟨hol ▸ hl, h2, sheets, s, hol ▸ hw, hs, hsu, by rw [← hname]; exact h6, hb.1, hb.2⟩
  · simp at hk

/-- **includes_consumed**: with includes honoured no include directive is ever yielded -/
theorem includes_consumed (w : World) (cfg : Cfg) (roots : List Str) (h : cfg.allowInclude = true) :
    ∀ o ∈ (loadFiles w cfg roots).1.out, ¬ Spec.IsInclude o.blk := by
  intro o ho hi
  exact (yielded_from_visited w cfg roots o ho).2.1 ⟨h, hi⟩

/-- `allow_include=False`: nothing is consumed — a read yields every block of the sheets that are read -/
theorem includes_passed_through_when_off (l : Loc) (sheets : List Sheet) :
    Spec.yielded false l (.file sheets) =
      sheets.flatMap (fun s => if s.use then s.blocks.map (fun b => (l, s.name, b)) else []) := by
  have hf : ∀ bs : List FBlock, bs.filter (fun _ => true) = bs := fun bs =>
    List.filter_eq_self.2 (fun _ _ => rfl)
  simp [Spec.yielded, hf]

/-- … and then nothing but folder entries is ever put on the work-list -/
theorem no_include_pushes_when_off (sheets : List Sheet) : Spec.pushSpecs false (.file sheets) = [] := by
  simp [Spec.pushSpecs]

/-! ## 7. Exactly the reachable locations (work-list invariant) -/

/-- an item on the work-list was put there by a root or by the read of a reachable location -/
def ItemOK (w : World) (allow : Bool) (roots : List Str) (it : Item) : Prop :=
  (it.srcLoc = none ∧ it.spec ∈ roots) ∨
  (∃ l node, it.srcLoc = some l ∧ Spec.ReachSpec w allow roots l ∧ lookupNode w l = some node ∧
    it.spec ∈ Spec.pushSpecs allow node)

theorem itemOK_reach (w : World) (allow : Bool) (roots : List Str) (it : Item) (l : Loc)
    (h : ItemOK w allow roots it) (hr : resolveItem w it = some l) : Spec.ReachSpec w allow roots l := by
  rw [resolveItem_eq] at hr
  rcases h with ⟨h1, h2⟩ | ⟨l0, node, h1, h2, h3, h4⟩
  · rw [h1] at hr; exact .root h2 hr
  · rw [h1] at hr; exact .step h2 h3 h4 hr

theorem pushes_itemOK (w : World) (allow : Bool) (roots : List Str) (l : Loc) (it : Item) (node : Node)
    (hl : Spec.ReachSpec w allow roots l) (hn : lookupNode w l = some node) :
    ∀ x ∈ nodePushes allow l it node, ItemOK w allow roots x := by
  intro x hx
  refine Or.inr ⟨l, node, nodePushes_src allow l it node x hx, hl, hn, ?_⟩
  rw [← nodePushes_spec allow l it node]
  exact List.mem_map_of_mem hx

structure SoundInv (w : World) (allow : Bool) (roots : List Str) (st : LSt) : Prop where
  vis : ∀ l ∈ st.visited, Spec.ReachSpec w allow roots l
  stk : ∀ it ∈ st.stack, ItemOK w allow roots it

theorem soundInv_final (w : World) (cfg : Cfg) (roots : List Str) :
    SoundInv (effWorld cfg.raising w) cfg.allowInclude roots (loadFiles w cfg roots).1 := by
  apply run_inv w cfg (SoundInv (effWorld cfg.raising w) cfg.allowInclude roots)
  · intro st r h hc
    have keep : ∀ it rest, pop cfg.pick st.stack = some (it, rest) →
        ∀ x ∈ rest, ItemOK (effWorld cfg.raising w) cfg.allowInclude roots x := fun it rest hp x hx =>
      h.stk x ((pop_mem _ _ _ _ hp x).2 (Or.inr hx))
    cases hc with
    | empty => exact h
    | resolveFailRaising it rest hp => exact ⟨h.vis, keep it rest hp⟩
    | resolveFailCollect it rest hp => exact ⟨h.vis, keep it rest hp⟩
    | missing it rest l hp => exact ⟨h.vis, keep it rest hp⟩
    | dupRaising it rest l node hp => exact ⟨h.vis, keep it rest hp⟩
    | dupCollect it rest l node hp => exact ⟨h.vis, keep it rest hp⟩
    | read it rest l node hp hr hn hv =>
      have hit : ItemOK (effWorld cfg.raising w) cfg.allowInclude roots it :=
        h.stk it ((pop_mem _ _ _ _ hp it).2 (Or.inl rfl))
      have hl := itemOK_reach (effWorld cfg.raising w) _ roots it l hit hr
      constructor
      · intro x hx
        simp only [List.mem_append, List.mem_singleton] at hx
        rcases hx with hx | rfl
        · exact h.vis x hx
        · exact hl
      · intro x hx
        simp only [List.mem_append] at hx
        rcases hx with hx | hx
        · exact keep it rest hp x hx
        · exact pushes_itemOK (effWorld cfg.raising w) _ roots l it (effNode cfg.raising node) hl
            (lookup_eff hn) x hx
  · constructor
    · intro l hl; simp [loadInit] at hl
    · intro it hit
      simp [loadInit] at hit
      obtain ⟨s, hs, rfl⟩ := hit
      exact Or.inl ⟨rfl, hs⟩

/-- **reads_sound**: nothing outside the reachable set is ever read — in every run, completed or not.
    (Reachability is taken in `effWorld`: through the blocks a read under this tracker gets through.) -/
theorem reads_sound_spec (w : World) (cfg : Cfg) (roots : List Str) :
    ∀ l ∈ (loadFiles w cfg roots).1.visited, Spec.ReachSpec (effWorld cfg.raising w) cfg.allowInclude roots l :=
  (soundInv_final w cfg roots).vis

/-- a request (specification found at `src`) is still pending or has been answered by a read -/
def Served (w : World) (st : LSt) (s : Str) (src : Option Loc) : Prop :=
  (∃ it ∈ st.stack, it.spec = s ∧ it.srcLoc = src) ∨
  (∃ l', Spec.target w s src = some l' ∧ l' ∈ st.visited)

structure ClosedInv (w : World) (allow : Bool) (roots : List Str) (st : LSt) : Prop where
  roots : ∀ s ∈ roots, Served w st s none
  edges : ∀ l ∈ st.visited, ∀ node, lookupNode w l = some node →
    ∀ s ∈ Spec.pushSpecs allow node, Served w st s (some l)

theorem served_step (w : World) (st st' : LSt) (it : Item) (l : Loc)
    (hstack : ∀ x ∈ st.stack, x = it ∨ x ∈ st'.stack)
    (hvis : ∀ x ∈ st.visited, x ∈ st'.visited)
    (hr : resolveItem w it = some l) (hl : l ∈ st'.visited)
    (s : Str) (src : Option Loc) (h : Served w st s src) : Served w st' s src := by
  rcases h with ⟨x, hx, h1, h2⟩ | ⟨l', h1, h2⟩
  · rcases hstack x hx with rfl | hx'
    · right
      refine ⟨l, ?_, hl⟩
      rw [← h1, ← h2, ← resolveItem_eq]; exact hr
    · exact Or.inl ⟨x, hx', h1, h2⟩
  · exact Or.inr ⟨l', h1, hvis l' h2⟩

theorem closedInv_running (w : World) (cfg : Cfg) (roots : List Str) (st st' : LSt)
    (h : ClosedInv (effWorld cfg.raising w) cfg.allowInclude roots st) (hc : StepCase w cfg st (st', .running)) :
    ClosedInv (effWorld cfg.raising w) cfg.allowInclude roots st' := by
  generalize hr : (st', Status.running) = r at hc
  cases hc with
  | empty => simp at hr
  | resolveFailRaising => simp at hr
  | resolveFailCollect => simp at hr
  | missing => simp at hr
  | dupRaising => simp at hr
  | dupCollect it rest l node hp hres hn hv _ =>
    simp at hr
    subst hr
    have tr := served_step (effWorld cfg.raising w) st
      { st with stack := rest, issues := st.issues ++ [.dup l it] } it l
      (fun x hx => (pop_mem _ _ _ _ hp x).1 hx) (fun x hx => hx) hres hv
    exact ⟨fun s hs => tr s none (h.roots s hs),
           fun l0 hl0 node0 hn0 s hs => tr s (some l0) (h.edges l0 hl0 node0 hn0 s hs)⟩
  | read it rest l node hp hres hn hv =>
    simp at hr
    obtain ⟨rfl, _⟩ := hr
    have tr := served_step (effWorld cfg.raising w) st
      { st with visited := st.visited ++ [l],
                stack := rest ++ nodePushes cfg.allowInclude l it (effNode cfg.raising node),
                out := st.out ++ nodeOuts cfg.allowInclude l it (effNode cfg.raising node),
                issues := st.issues ++ nodeIssues cfg.raising l node } it l
      (fun x hx => by
        rcases (pop_mem _ _ _ _ hp x).1 hx with e | e
        · exact Or.inl e
        · exact Or.inr (List.mem_append_left _ e))
      (fun x hx => List.mem_append_left _ hx) hres (by simp)
    refine ⟨fun s hs => tr s none (h.roots s hs), ?_⟩
    intro l0 hl0 node0 hn0 s hs
    simp only [List.mem_append, List.mem_singleton] at hl0
    rcases hl0 with hl0 | rfl
    · exact tr s (some l0) (h.edges l0 hl0 node0 hn0 s hs)
    · rw [lookup_eff hn] at hn0
      cases hn0
      rw [← nodePushes_spec cfg.allowInclude l0 it (effNode cfg.raising node)] at hs
      obtain ⟨x, hx, rfl⟩ := List.mem_map.1 hs
      exact Or.inl ⟨x, List.mem_append_right _ hx, rfl, nodePushes_src _ _ _ _ x hx⟩

theorem closedInv_init (w : World) (allow : Bool) (roots : List Str) :
    ClosedInv w allow roots (loadInit roots) := by
  constructor
  · intro s hs
    exact Or.inl ⟨.root s, by simp [loadInit, hs], rfl, rfl⟩
  · intro l hl; simp [loadInit] at hl

/-- **reads_reachable**: a load that runs to completion has read exactly the locations reachable from the
    roots through folder name matching and include directives -/
theorem reads_reachable_spec (w : World) (cfg : Cfg) (roots : List Str)
    (hd : (loadFiles w cfg roots).2 = .done) (l : Loc) :
    l ∈ (loadFiles w cfg roots).1.visited ↔ Spec.ReachSpec (effWorld cfg.raising w) cfg.allowInclude roots l := by
  constructor
  · exact reads_sound_spec w cfg roots l
  · intro hreach
    obtain ⟨hinv, hempty⟩ := run_done w cfg (ClosedInv (effWorld cfg.raising w) cfg.allowInclude roots)
      (fun st st' h hc => closedInv_running w cfg roots st st' h hc) _ _
      (closedInv_init (effWorld cfg.raising w) cfg.allowInclude roots) hd
    have served_vis : ∀ s src l', Served (effWorld cfg.raising w) (loadFiles w cfg roots).1 s src →
        Spec.target (effWorld cfg.raising w) s src = some l' →
        l' ∈ (loadFiles w cfg roots).1.visited := by
      intro s src l' h ht
      rcases h with ⟨x, hx, _⟩ | ⟨l'', h1, h2⟩
      · have : (loadFiles w cfg roots).1.stack = [] := hempty
        rw [this] at hx; simp at hx
      · rw [ht] at h1; cases h1; exact h2
    induction hreach with
    | root hs ht => exact served_vis _ _ _ (hinv.roots _ hs) ht
    | step _ hn hs ht ih => exact served_vis _ _ _ (hinv.edges _ ih _ hn _ hs) ht

/-! ### … and what that means for the reachability the property speaks of

  Full-strength statement (NOT a theorem — `reads_reachable_fails` below is a world where it is false):

      theorem reads_reachable (w cfg roots) (hd : (loadFiles w cfg roots).2 = .done) (l : Loc) :
          l ∈ (loadFiles w cfg roots).1.visited ↔ Spec.Reach (effWorld cfg.raising w) cfg.allowInclude roots l

  The loader pushes a folder entry's bare name and resolves it like any specification, so an entry called
  `file:x.csv` (or `\x.csv`, or `<protocol>:x.csv`) is not read — another location is.  Proved instead: the
  statement for every world whose folder entries resolve to themselves (`Spec.entriesFaithful`, decidable). -/

theorem lookup_mem (nodes : List (Loc × Node)) (l : Loc) (n : Node) (h : nodes.lookup l = some n) :
    (l, n) ∈ nodes := by
  induction nodes with
  | nil => simp at h
  | cons p rest ih =>
    obtain ⟨k, m⟩ := p
    rw [List.lookup_cons] at h
    by_cases e : l = k
    · subst e; simp at h; subst h; simp
    · have : (l == k) = false := by simpa using e
      simp only [this] at h
      exact List.mem_cons_of_mem _ (ih h)

theorem faithful_entry (w : World) (hf : Spec.entriesFaithful w = true) (l : Loc) (ch : List (Str × Bool))
    (name : Str) (hn : lookupNode w l = some (.folder ch)) (hm : (name, true) ∈ ch) :
    Spec.target w name (some l) = w.childLoc l name := by
  have hmem := lookup_mem w.nodes l _ hn
  unfold Spec.entriesFaithful at hf
  rw [List.all_eq_true] at hf
  have h1 := hf _ hmem
  simp only [List.all_eq_true] at h1
  have h2 := h1 _ hm
  simpa using h2

theorem reach_iff (w : World) (allow : Bool) (roots : List Str) (hf : Spec.entriesFaithful w = true) (l : Loc) :
    Spec.Reach w allow roots l ↔ Spec.ReachSpec w allow roots l := by
  constructor
  · intro h
    induction h with
    | root hs ht => exact .root hs ht
    | entry _ hn hm hc ih =>
      refine .step ih hn ?_ ((faithful_entry w hf _ _ _ hn hm).trans hc)
      simp only [Spec.pushSpecs, List.mem_map, List.mem_filter]
      exact ⟨_, ⟨hm, rfl⟩, rfl⟩
    | directive _ hn hs ht ih => exact .step ih hn hs ht
  · intro h
    induction h with
    | root hs ht => exact .root hs ht
    | @step l0 node s l' _ hn hs ht ih =>
      cases node with
      | unreadable => simp [Spec.pushSpecs] at hs
      | file sheets => exact .directive ih hn hs ht
      | folder ch =>
        simp only [Spec.pushSpecs, List.mem_map, List.mem_filter] at hs
        obtain ⟨c, ⟨hc, hm⟩, rfl⟩ := hs
        have hc' : (c.1, true) ∈ ch := by
          have : c = (c.1, true) := by rw [← hm]
          rw [← this]; exact hc
        exact .entry ih hn hc' ((faithful_entry w hf _ _ _ hn hc').symm.trans ht)

theorem entriesFaithful_effWorld (raising : Bool) (w : World) (hf : Spec.entriesFaithful w = true) :
    Spec.entriesFaithful (effWorld raising w) = true := by
  unfold Spec.entriesFaithful at hf ⊢
  simp only [effWorld, List.all_map]
  rw [List.all_eq_true] at hf ⊢
  intro p hp
  have := hf p hp
  cases hp2 : p.2 with
  | folder ch => simpa [hp2, effNode, Function.comp_def, Spec.target, handlerFor] using this
  | file sheets => simp [Function.comp_def, hp2, effNode]
  | unreadable => simp [Function.comp_def, hp2, effNode]

/-- **reads_sound_partial**: in a world whose folder entries resolve to themselves, nothing outside the set
    reachable through folder name matching and include directives is ever read -/
theorem reads_sound_partial (w : World) (cfg : Cfg) (roots : List Str) (hf : Spec.entriesFaithful w = true) :
    ∀ l ∈ (loadFiles w cfg roots).1.visited, Spec.Reach (effWorld cfg.raising w) cfg.allowInclude roots l :=
  fun l hl => (reach_iff _ _ _ (entriesFaithful_effWorld _ w hf) l).2 (reads_sound_spec w cfg roots l hl)

/-- **reads_reachable_partial**: in a world whose folder entries resolve to themselves, a load that runs to
    completion has read exactly the locations reachable from the roots through folder name matching and include
    directives.  (Missing for full strength: the worlds excluded by `entriesFaithful` — known finding F6.) -/
theorem reads_reachable_partial (w : World) (cfg : Cfg) (roots : List Str) (hf : Spec.entriesFaithful w = true)
    (hd : (loadFiles w cfg roots).2 = .done) (l : Loc) :
    l ∈ (loadFiles w cfg roots).1.visited ↔ Spec.Reach (effWorld cfg.raising w) cfg.allowInclude roots l :=
  (reads_reachable_spec w cfg roots hd l).trans (reach_iff _ _ _ (entriesFaithful_effWorld _ w hf) l).symm

/-! ## 8. Repeated arrivals are reported, once each, naming the location -/

theorem countP_map_congr {α β} (p : α → Bool) (q : β → Bool) (f : α → β) (xs : List α)
    (h : ∀ x ∈ xs, p x = q (f x)) : xs.countP p = (xs.map f).countP q := by
  induction xs with
  | nil => rfl
  | cons x xs ih =>
    simp only [List.map_cons, List.countP_cons]
    rw [ih (fun y hy => h y (List.mem_cons_of_mem _ hy)), h x List.mem_cons_self]

theorem dupsNaming_append (l : Loc) (xs ys : List Issue) :
    Spec.dupsNaming l (xs ++ ys) = Spec.dupsNaming l xs + Spec.dupsNaming l ys := by
  simp [Spec.dupsNaming, List.countP_append]

theorem arrivals_append (w : World) (allow : Bool) (roots : List Str) (vis : List Loc) (v l : Loc)
    (node : Node) (hn : lookupNode w v = some node) :
    Spec.arrivals w allow roots (vis ++ [v]) l =
      Spec.arrivals w allow roots vis l +
        (Spec.pushSpecs allow node).countP (fun s => Spec.target w s (some v) == some l) := by
  simp [Spec.arrivals, List.sum_append, hn]
  omega

/-- the counting invariant: per location, pending requests + (1 if read) + tracker errors naming it
    = requests made so far -/
def CountInv (w : World) (allow : Bool) (roots : List Str) (st : LSt) : Prop :=
  ∀ l, st.stack.countP (fun it => resolveItem w it == some l) + (if l ∈ st.visited then 1 else 0) +
        Spec.dupsNaming l st.issues = Spec.arrivals w allow roots st.visited l

theorem countInv_init (w : World) (allow : Bool) (roots : List Str) :
    CountInv w allow roots (loadInit roots) := by
  intro l
  have : (roots.map Item.root).countP (fun it => resolveItem w it == some l) =
      roots.countP (fun s => Spec.target w s none == some l) := by
    rw [List.countP_map]; rfl
  simp [loadInit, Spec.arrivals, Spec.dupsNaming, this]

theorem dupsNaming_nodeIssues (l l0 : Loc) (raising : Bool) (node : Node) :
    Spec.dupsNaming l (nodeIssues raising l0 node) = 0 := by
  unfold Spec.dupsNaming
  rw [List.countP_eq_zero]
  intro i hi
  cases node with
  | folder ch => simp [nodeIssues] at hi
  | unreadable => simp [nodeIssues] at hi
  | file sheets =>
    simp only [nodeIssues] at hi
    split at hi
    · simp at hi
    · simp only [List.mem_flatMap] at hi
      obtain ⟨s, _, hi⟩ := hi
      split at hi
      · simp only [List.mem_map] at hi
        obtain ⟨b, _, rfl⟩ := hi
        simp
      · simp at hi

theorem countInv_running (w : World) (cfg : Cfg) (roots : List Str) (st st' : LSt)
    (h : CountInv (effWorld cfg.raising w) cfg.allowInclude roots st) (hc : StepCase w cfg st (st', .running)) :
    CountInv (effWorld cfg.raising w) cfg.allowInclude roots st' := by
  generalize hr : (st', Status.running) = r at hc
  cases hc with
  | empty => simp at hr
  | resolveFailRaising => simp at hr
  | resolveFailCollect => simp at hr
  | missing => simp at hr
  | dupRaising => simp at hr
  | dupCollect it rest l0 node hp hres hn hv _ =>
    simp at hr
    subst hr
    intro l
    have hl := h l
    rw [pop_countP _ _ _ _ hp] at hl
    show rest.countP _ + _ + Spec.dupsNaming l (st.issues ++ [.dup l0 it]) = _
    rw [dupsNaming_append]
    have hres : resolveItem (effWorld cfg.raising w) it = some l0 := hres
    by_cases e : l0 = l
    · subst e
      simp [hres, Spec.dupsNaming] at hl ⊢
      omega
    · have e' : ¬ some l0 = some l := fun x => e (Option.some.inj x)
      simp [hres, e, Spec.dupsNaming] at hl ⊢
      omega
  | read it rest l0 node hp hres hn hv =>
    simp at hr
    obtain ⟨rfl, _⟩ := hr
    intro l
    have hl := h l
    rw [pop_countP _ _ _ _ hp] at hl
    show (rest ++ nodePushes cfg.allowInclude l0 it (effNode cfg.raising node)).countP _ +
        (if l ∈ st.visited ++ [l0] then 1 else 0) +
        Spec.dupsNaming l (st.issues ++ nodeIssues cfg.raising l0 node) =
      Spec.arrivals (effWorld cfg.raising w) cfg.allowInclude roots (st.visited ++ [l0]) l
    rw [arrivals_append (effWorld cfg.raising w) _ roots st.visited l0 l (effNode cfg.raising node)
      (lookup_eff hn), List.countP_append, dupsNaming_append, dupsNaming_nodeIssues]
    have hpush : (nodePushes cfg.allowInclude l0 it (effNode cfg.raising node)).countP
          (fun it => resolveItem (effWorld cfg.raising w) it == some l) =
        (Spec.pushSpecs cfg.allowInclude (effNode cfg.raising node)).countP
          (fun s => Spec.target (effWorld cfg.raising w) s (some l0) == some l) := by
      rw [← nodePushes_spec cfg.allowInclude l0 it (effNode cfg.raising node)]
      apply countP_map_congr
      intro x hx
      rw [resolveItem_eq, nodePushes_src _ _ _ _ x hx]
    rw [hpush]
    have hres : resolveItem (effWorld cfg.raising w) it = some l0 := hres
    by_cases e : l0 = l
    · subst e
      simp [hres, hv] at hl ⊢
      omega
    · have e2 : ¬ l = l0 := fun x => e x.symm
      simp [hres, e, e2] at hl ⊢
      omega

/-- every tracker error about a repeated location names a location that had been read before, and the item
    that arrived there again -/
theorem duplicate_issue_names_read_location (w : World) (cfg : Cfg) (roots : List Str) :
    ∀ l it, Issue.dup l it ∈ (loadFiles w cfg roots).1.issues →
      resolveItem w it = some l ∧ l ∈ (loadFiles w cfg roots).1.visited := by
  apply run_inv w cfg (fun st => ∀ l it, Issue.dup l it ∈ st.issues → resolveItem w it = some l ∧ l ∈ st.visited)
  · intro st r h hc
    cases hc with
    | empty => exact h
    | resolveFailRaising => exact h
    | resolveFailCollect it rest hp hr =>
      intro l it' hm
      simp at hm
      exact h l it' hm
    | missing => exact h
    | dupRaising => exact h
    | dupCollect it rest l0 node hp hres hn hv =>
      intro l it' hm
      simp only [List.mem_append, List.mem_singleton] at hm
      rcases hm with hm | hm
      · exact h l it' hm
      · cases hm; exact ⟨hres, hv⟩
    | read it rest l0 node hp hres hn hv =>
      intro l it' hm
      have hm' : Issue.dup l it' ∈ st.issues := by
        rcases List.mem_append.1 hm with hm | hm
        · exact hm
        · exfalso
          have h0 := dupsNaming_nodeIssues l l0 cfg.raising node
          unfold Spec.dupsNaming at h0
          rw [List.countP_eq_zero] at h0
          have := h0 _ hm
          simp at this
      obtain ⟨h1, h2⟩ := h l it' hm'
      exact ⟨h1, List.mem_append_left _ h2⟩
  · intro l it hm; simp [loadInit] at hm

/-- the default tracker never holds anything: it raises instead -/
theorem default_tracker_records_nothing (w : World) (cfg : Cfg) (roots : List Str) (hr : cfg.raising = true) :
    (loadFiles w cfg roots).1.issues = [] := by
  apply run_inv w cfg (fun st => st.issues = [])
  · intro st r h hc
    cases hc with
    | resolveFailCollect _ _ _ _ hb => rw [hr] at hb; cases hb
    | dupCollect _ _ _ _ _ _ _ _ hb => rw [hr] at hb; cases hb
    | read it rest l node =>
      show st.issues ++ nodeIssues cfg.raising l node = []
      rw [h, hr]
      cases node <;> simp [nodeIssues]
    | _ => exact h
  · simp [loadInit]

/-- **duplicate_reported**: in a completed load, for every location the number of tracker errors naming it is
    the number of times it was asked for (by roots, folder entries and include lines of what was read) minus the
    one read — a location never asked for twice is never reported, a repeated or cyclic include is reported
    once per repeated arrival -/
theorem duplicate_reported (w : World) (cfg : Cfg) (roots : List Str)
    (hd : (loadFiles w cfg roots).2 = .done) (l : Loc) :
    Spec.dupsNaming l (loadFiles w cfg roots).1.issues +
        (if l ∈ (loadFiles w cfg roots).1.visited then 1 else 0) =
      Spec.arrivals (effWorld cfg.raising w) cfg.allowInclude roots (loadFiles w cfg roots).1.visited l := by
  obtain ⟨hinv, hempty⟩ := run_done w cfg (CountInv (effWorld cfg.raising w) cfg.allowInclude roots)
    (fun st st' h hc => countInv_running w cfg roots st st' h hc) _ _
    (countInv_init (effWorld cfg.raising w) cfg.allowInclude roots) hd
  have := hinv l
  rw [hempty] at this
  simp only [List.countP_nil, Nat.zero_add] at this
  unfold loadFiles
  omega

/-- with the default (raising) tracker a load only completes if nothing was asked for twice: the first
    repeated arrival ends it (`dup_raises` below says with which exception) -/
theorem default_tracker_completes_only_without_repeats (w : World) (cfg : Cfg) (roots : List Str)
    (hr : cfg.raising = true) (hd : (loadFiles w cfg roots).2 = .done) (l : Loc) :
    Spec.arrivals (effWorld cfg.raising w) cfg.allowInclude roots (loadFiles w cfg roots).1.visited l =
      if l ∈ (loadFiles w cfg roots).1.visited then 1 else 0 := by
  have h := duplicate_reported w cfg roots hd l
  rw [default_tracker_records_nothing w cfg roots hr] at h
  simp [Spec.dupsNaming] at h
  omega

/-- one iteration that pops an item resolving to a location already read: the default tracker raises
    `InputError`; a collecting tracker gets exactly one error naming that location and the loop continues
    with nothing read and nothing pushed -/
theorem dup_step (w : World) (cfg : Cfg) (st : LSt) (it : Item) (rest : List Item) (l : Loc) (node : Node)
    (hp : pop cfg.pick st.stack = some (it, rest)) (hres : resolveItem w it = some l)
    (hn : lookupNode w l = some node) (hv : l ∈ st.visited) :
    loadStep w cfg st =
      if cfg.raising then ({ st with stack := rest }, .raised .inputError)
      else ({ st with stack := rest, issues := st.issues ++ [.dup l it] }, .running) := by
  simp [loadStep, hp, hres, hn, hv]

/-- a table that does not parse: the default tracker ends the load with `InputError` while the file is read
    (`readStatus`); a collecting tracker is told once per such table, the table is not yielded, the load goes on -/
theorem bad_table_status (sheets : List Sheet) (h : sheets.any Sheet.hasBad = true) :
    readStatus true (.file sheets) = .raised .inputError ∧ readStatus false (.file sheets) = .running := by
  simp [readStatus, h]

/-! ## 9. Protocol dispatch -/

namespace Spec
/-- `name:` prefixes the lower-cased specification -/
def Carries (spec : Str) (name : Str) : Prop := startsWith (name ++ [':']) (lowerAscii spec) = true
instance (spec name : Str) : Decidable (Carries spec name) := by unfold Carries; exact inferInstance
end Spec

theorem dictSet_fresh (d : List (Str × Nat)) (k : Str) (v : Nat) (h : k ∉ d.map (·.1)) :
    dictSet d k v = d ++ [(k, v)] := by
  induction d with
  | nil => rfl
  | cons kv rest ih =>
    obtain ⟨k', v'⟩ := kv
    simp only [List.map_cons, List.mem_cons, not_or] at h
    have : ¬ k' = k := fun e => h.1 e.symm
    simp [dictSet, this, ih h.2]

theorem foldl_dictSet_fresh (add d : List (Str × Nat))
    (h : (d.map (·.1) ++ add.map (·.1)).Nodup) :
    add.foldl (fun d kv => dictSet d kv.1 kv.2) d = d ++ add := by
  induction add generalizing d with
  | nil => simp
  | cons kv rest ih =>
    have hk : kv.1 ∉ d.map (·.1) := by
      intro hm
      rw [List.nodup_append] at h
      exact h.2.2 _ hm _ (by simp) rfl
    simp only [List.foldl_cons, dictSet_fresh d kv.1 kv.2 hk]
    rw [ih]
    · simp
    · simpa [List.map_append, List.append_assoc] using h

/-- `make_loader`: with additional protocol names that are distinct and not "file", the handler table is the
    file-system loader under "file" followed by the additional loaders in their order -/
theorem handlersOf_eq (add : List (Str × Nat)) (h : ("file".toList :: add.map (·.1)).Nodup) :
    handlersOf add = ("file".toList, 0) :: add := by
  unfold handlersOf
  rw [protocol_keys_pinned.1]
  exact foldl_dictSet_fresh add [("file".toList, 0)] (by simpa using h)

/-- the first registered prefix (dict order) that the specification carries selects the loader -/
theorem dispatch_first_match (hs pre post : List (Str × Nat)) (p : Str) (h : Nat) (spec : Str)
    (hsplit : hs = pre ++ (p, h) :: post) (hm : Spec.Carries spec p)
    (hpre : ∀ q ∈ pre, ¬ Spec.Carries spec q.1) : dispatch hs spec = h := by
  unfold dispatch
  have : hs.find? (fun ph => startsWith (ph.1 ++ [':']) (lowerAscii spec)) = some (p, h) := by
    rw [List.find?_eq_some_iff_append]
    refine ⟨hm, pre, post, hsplit, ?_⟩
    intro a ha
    have := hpre a ha
    simp [Spec.Carries] at this
    simp [this]
  simp [this]

/-- no registered prefix: the default protocol's loader -/
theorem dispatch_no_match (hs : List (Str × Nat)) (spec : Str)
    (hnone : ∀ q ∈ hs, ¬ Spec.Carries spec q.1) :
    dispatch hs spec = (dictGet hs "file".toList).getD 0 := by
  unfold dispatch
  have : hs.find? (fun ph => startsWith (ph.1 ++ [':']) (lowerAscii spec)) = none := by
    rw [List.find?_eq_none]
    intro x hx
    simpa [Spec.Carries] using hnone x hx
  simp [this, protocol_keys_pinned.2]

/-- **protocol_dispatch**: every popped item is resolved by `World.resolve (handlerFor w spec)` (`resolveItem_eq`),
    and `handlerFor` is: the file-system loader (0) when no protocol loaders were given; otherwise the loader
    registered for the first carried prefix; the file-system loader when the specification carries `file:` or no
    registered prefix at all. -/
theorem protocol_dispatch (w : World) (spec : Str) :
    (w.protocols = none → handlerFor w spec = 0) ∧
    (∀ add, w.protocols = some add → ("file".toList :: add.map (·.1)).Nodup →
      (Spec.Carries spec "file".toList → handlerFor w spec = 0) ∧
      ((∀ q ∈ add, ¬ Spec.Carries spec q.1) → handlerFor w spec = 0) ∧
      (∀ pre post p h, add = pre ++ (p, h) :: post → ¬ Spec.Carries spec "file".toList →
        (∀ q ∈ pre, ¬ Spec.Carries spec q.1) → Spec.Carries spec p → handlerFor w spec = h)) := by
  constructor
  · intro h; simp [handlerFor, h]
  · intro add hadd hnd
    have hs := handlersOf_eq add hnd
    refine ⟨?_, ?_, ?_⟩
    · intro hf
      simp only [handlerFor, hadd, hs]
      exact dispatch_first_match _ [] add _ 0 spec rfl hf (by simp)
    · intro hnone
      simp only [handlerFor, hadd, hs]
      by_cases hf : Spec.Carries spec "file".toList
      · exact dispatch_first_match _ [] add _ 0 spec rfl hf (by simp)
      · rw [dispatch_no_match]
        · simp [dictGet]
        · intro q hq
          simp at hq
          rcases hq with rfl | hq
          · exact hf
          · exact hnone q hq
    · intro pre post p h hsplit hf hpre hp
      simp only [handlerFor, hadd, hs]
      refine dispatch_first_match _ (("file".toList, 0) :: pre) post p h spec (by simp [hsplit]) hp ?_
      intro q hq
      simp at hq
      rcases hq with rfl | hq
      · exact hf
      · exact hpre q hq

/-! ### the caller registers its own loader under "file" -/

theorem dictGet_dictSet (d : List (Str × Nat)) (k : Str) (v : Nat) (k' : Str) :
    dictGet (dictSet d k v) k' = if k' = k then some v else dictGet d k' := by
  induction d with
  | nil =>
    by_cases h : k' = k
    · simp [dictSet, dictGet, h]
    · have : ¬ k = k' := fun e => h e.symm
      simp [dictSet, dictGet, h, this]
  | cons kv rest ih =>
    obtain ⟨a, b⟩ := kv
    by_cases h1 : a = k
    · subst h1
      by_cases h2 : k' = a
      · subst h2; simp [dictSet, dictGet]
      · have : ¬ a = k' := fun e => h2 e.symm
        simp [dictSet, dictGet, h2, this]
    · by_cases h2 : a = k'
      · subst h2
        simp [dictSet, dictGet, h1]
      · simp [dictSet, dictGet, h1, h2, ih]

theorem dictGet_foldl (add d : List (Str × Nat)) (k : Str) :
    dictGet (add.foldl (fun d kv => dictSet d kv.1 kv.2) d) k =
      add.foldl (fun acc kv => if kv.1 = k then some kv.2 else acc) (dictGet d k) := by
  induction add generalizing d with
  | nil => rfl
  | cons kv rest ih =>
    simp only [List.foldl_cons]
    rw [ih, dictGet_dictSet]
    by_cases h : kv.1 = k
    · simp [h]
    · have : ¬ k = kv.1 := fun e => h e.symm
      simp [h, this]

theorem foldl_binding_absent (add : List (Str × Nat)) (k : Str) (init : Option Nat)
    (h : k ∉ add.map (·.1)) :
    add.foldl (fun acc kv => if kv.1 = k then some kv.2 else acc) init = init := by
  induction add generalizing init with
  | nil => rfl
  | cons kv rest ih =>
    simp only [List.map_cons, List.mem_cons, not_or] at h
    have : ¬ kv.1 = k := fun e => h.1 e.symm
    simp [this, ih _ h.2]

theorem foldl_binding (add : List (Str × Nat)) (k : Str) (v : Nat) (init : Option Nat)
    (hnd : (add.map (·.1)).Nodup) (hm : (k, v) ∈ add) :
    add.foldl (fun acc kv => if kv.1 = k then some kv.2 else acc) init = some v := by
  induction add generalizing init with
  | nil => simp at hm
  | cons kv rest ih =>
    simp only [List.map_cons, List.nodup_cons] at hnd
    simp only [List.mem_cons] at hm
    rcases hm with rfl | hm
    · simp [foldl_binding_absent rest k _ hnd.1]
    · simp only [List.foldl_cons]
      exact ih _ hnd.2 hm

theorem dictSet_head (k0 : Str) (v0 : Nat) (d : List (Str × Nat)) (k : Str) (v : Nat) :
    ∃ v' rest, dictSet ((k0, v0) :: d) k v = (k0, v') :: rest := by
  by_cases h : k0 = k
  · exact ⟨v, d, by simp [dictSet, h]⟩
  · exact ⟨v0, dictSet d k v, by simp [dictSet, h]⟩

theorem foldl_dictSet_head (add : List (Str × Nat)) (k0 : Str) (v0 : Nat) (d : List (Str × Nat)) :
    ∃ v' rest, add.foldl (fun d kv => dictSet d kv.1 kv.2) ((k0, v0) :: d) = (k0, v') :: rest := by
  induction add generalizing v0 d with
  | nil => exact ⟨v0, d, rfl⟩
  | cons kv rest ih =>
    obtain ⟨v', r', e⟩ := dictSet_head k0 v0 d kv.1 kv.2
    simp only [List.foldl_cons, e]
    exact ih v' r'

/-- **protocol_dispatch, "file" overridden**: when the caller's dict itself registers a loader under "file"
    (`{"file": file_loader, **additional}` keeps the key's first position and takes the caller's value), a
    specification that carries `file:` — or no registered prefix at all — goes to the caller's loader, never
    to the built-in file-system loader -/
theorem protocol_dispatch_file_override (w : World) (spec : Str) (add : List (Str × Nat)) (h : Nat)
    (hadd : w.protocols = some add) (hnd : (add.map (·.1)).Nodup) (hfile : ("file".toList, h) ∈ add) :
    dictGet (handlersOf add) "file".toList = some h ∧
    (Spec.Carries spec "file".toList → handlerFor w spec = h) ∧
    ((∀ q ∈ handlersOf add, ¬ Spec.Carries spec q.1) → handlerFor w spec = h) := by
  have hget : dictGet (handlersOf add) "file".toList = some h := by
    unfold handlersOf
    rw [dictGet_foldl]
    exact foldl_binding add _ h _ hnd hfile
  refine ⟨hget, ?_, ?_⟩
  · intro hf
    obtain ⟨v', rest, e⟩ := foldl_dictSet_head add Gen.fileProtocolKey 0 []
    have e' : handlersOf add = ("file".toList, v') :: rest := by
      unfold handlersOf; rw [e, protocol_keys_pinned.1]
    have hv : v' = h := by
      rw [e'] at hget
      simpa [dictGet] using hget
    simp only [handlerFor, hadd]
    rw [e', hv]
    exact dispatch_first_match _ [] rest _ h spec rfl hf (by simp)
  · intro hnone
    simp only [handlerFor, hadd]
    rw [dispatch_no_match _ _ hnone, hget]
    rfl

/-! ## 10. Non-vacuity: a folder root, a diamond and a three-file include cycle -/

namespace Example

def inc (row : Nat) (lines : List String) : FBlock :=
  ⟨.directive, row, "include".toList, lines.map String.toList, false⟩
def tbl (row : Nat) (name : String) : FBlock := ⟨.table, row, name.toList, [], false⟩

/-- `/` (folder: a.csv matches, n.txt does not) → a.csv → {b.csv, c.csv}; b.csv → c.csv; c.csv → a.csv -/
def world : World where
  nodes := [(0, .folder [("a.csv".toList, true), ("n.txt".toList, false)]),
            (1, .file [⟨none, true, [tbl 0 "ta", inc 5 ["b.csv", "c.csv"]]⟩]),
            (2, .file [⟨none, true, [inc 0 ["c.csv"], tbl 3 "tb"]⟩]),
            (3, .file [⟨some "s".toList, true, [tbl 2 "tc", inc 7 ["a.csv"]]⟩,
                       ⟨some "skipped".toList, false, [tbl 0 "never"]⟩])]
  protocols := some [("mem".toList, 1)]
  resolve := fun h s _ =>
    if h ≠ 0 then none
    else if s = "/".toList then some 0 else if s = "a.csv".toList then some 1
    else if s = "b.csv".toList then some 2 else if s = "c.csv".toList then some 3 else none

def collecting : Cfg := ⟨false, true, pickLast⟩
def raising : Cfg := ⟨true, true, pickLast⟩
def fifo : Cfg := ⟨false, true, pickFirst⟩
def noInclude : Cfg := ⟨true, false, pickLast⟩

/-- a completed load with a collecting tracker: every location once, files' blocks together, the cycle and the
    diamond reported (locations 1 and 3 each asked for twice) -/
example :
    (loadFiles world collecting ["/".toList]).2 = .done ∧
    (loadFiles world collecting ["/".toList]).1.visited = [0, 1, 3, 2] ∧
    (loadFiles world collecting ["/".toList]).1.out.map (fun o => (o.loc, o.blk.name)) =
      [(1, "ta".toList), (3, "tc".toList), (2, "tb".toList)] ∧
    Spec.dupsNaming 1 (loadFiles world collecting ["/".toList]).1.issues = 1 ∧
    Spec.dupsNaming 3 (loadFiles world collecting ["/".toList]).1.issues = 1 ∧
    Spec.dupsNaming 2 (loadFiles world collecting ["/".toList]).1.issues = 0 ∧
    Spec.arrivals world true ["/".toList] [0, 1, 3, 2] 3 = 2 := by decide

/-- the same input with the default tracker: `InputError` at the first repeated arrival -/
example : (loadFiles world raising ["/".toList]).2 = .raised .inputError := by decide

/-- another discipline reads the same set (in another order) -/
example : (loadFiles world fifo ["/".toList]).2 = .done ∧
    (loadFiles world fifo ["/".toList]).1.visited = [0, 1, 2, 3] := by decide

/-- includes off: the directive is yielded, nothing further is read, the load completes -/
example : (loadFiles world noInclude ["a.csv".toList]).2 = .done ∧
    (loadFiles world noInclude ["a.csv".toList]).1.visited = [1] ∧
    (loadFiles world noInclude ["a.csv".toList]).1.out.length = 2 := by decide

/-- hypotheses of `protocol_dispatch` are satisfiable: `MEM:x` carries the registered prefix `mem` -/
example : ("file".toList :: [("mem".toList, 1)].map (·.1)).Nodup ∧ Spec.Carries "MEM:x".toList "mem".toList ∧
    ¬ Spec.Carries "MEM:x".toList "file".toList ∧ handlerFor world "MEM:x".toList = 1 ∧
    handlerFor world "FILE:/a.csv".toList = 0 ∧ handlerFor world "a.csv".toList = 0 := by decide

/-- a table that does not parse (row 3 of location 1): a collecting tracker is told once, the table is not
    yielded, the include after it is still followed; the default tracker stops with `InputError` after the
    blocks before it -/
def worldBad : World where
  nodes := [(1, .file [⟨none, true, [tbl 0 "ta", ⟨.table, 3, "oops".toList, [], true⟩, inc 9 ["b.csv"]]⟩]),
            (2, .file [⟨none, true, [tbl 0 "tb"]⟩])]
  protocols := none
  resolve := fun _ s _ => if s = "a.csv".toList then some 1 else if s = "b.csv".toList then some 2 else none

example : (loadFiles worldBad collecting ["a.csv".toList]).2 = .done ∧
    (loadFiles worldBad collecting ["a.csv".toList]).1.out.map (·.blk.name) = ["ta".toList, "tb".toList] ∧
    (loadFiles worldBad collecting ["a.csv".toList]).1.issues = [.parse 1 none 3] ∧
    (loadFiles worldBad raising ["a.csv".toList]).2 = .raised .inputError ∧
    (loadFiles worldBad raising ["a.csv".toList]).1.out.map (·.blk.name) = ["ta".toList] ∧
    (loadFiles worldBad raising ["a.csv".toList]).1.visited = [1] := by decide

/-- known finding F6, the negation witness of the full-strength `reads_reachable`: the folder `/` lists
    `file:b.csv` and `b.csv`; the loader re-reads the first name as a specification, strips `file:` and arrives
    at `b.csv` a second time — `file:b.csv` (location 5) is reachable through folder name matching and is never
    read, and the load completes (one spurious "included multiple times" error) -/
def worldF4 : World where
  nodes := [(0, .folder [("file:b.csv".toList, true), ("b.csv".toList, true)]),
            (4, .file [⟨none, true, [tbl 0 "tb"]⟩]), (5, .file [⟨none, true, [tbl 0 "tf"]⟩])]
  protocols := none
  resolve := fun _ s _ =>
    if s = "/".toList then some 0
    else if s = "b.csv".toList ∨ s = "file:b.csv".toList then some 4 else none
  childLoc := fun l n => if l = 0 ∧ n = "b.csv".toList then some 4
    else if l = 0 ∧ n = "file:b.csv".toList then some 5 else none

theorem reads_reachable_fails :
    (loadFiles worldF4 collecting ["/".toList]).2 = .done ∧
    Spec.Reach (effWorld false worldF4) true ["/".toList] 5 ∧
    5 ∉ (loadFiles worldF4 collecting ["/".toList]).1.visited ∧
    (loadFiles worldF4 collecting ["/".toList]).1.visited = [0, 4] ∧
    Spec.dupsNaming 4 (loadFiles worldF4 collecting ["/".toList]).1.issues = 1 ∧
    Spec.entriesFaithful worldF4 = false := by
  refine ⟨by decide, ?_, by decide, by decide, by decide, by decide⟩
  exact .entry (l := 0) (ch := [("file:b.csv".toList, true), ("b.csv".toList, true)]) (name := "file:b.csv".toList)
    (.root (s := "/".toList) (by decide) (by decide)) (by decide) (by decide) (by decide)

/-- `reads_reachable_partial` is not vacuous: the example world's folder entries resolve to themselves -/
def worldWithEntries : World :=
  { world with childLoc := fun l n => if l = 0 ∧ n = "a.csv".toList then some 1 else none }

example : Spec.entriesFaithful worldWithEntries = true := by decide

/-- `protocol_dispatch_file_override` has instances: the caller's loader 7 under "file", 1 under "mem" -/
example : dispatch (handlersOf [("mem".toList, 1), ("file".toList, 7)]) "a.csv".toList = 7 ∧
    dispatch (handlersOf [("mem".toList, 1), ("file".toList, 7)]) "FILE:/a.csv".toList = 7 ∧
    dispatch (handlersOf [("mem".toList, 1), ("file".toList, 7)]) "Mem:a".toList = 1 ∧
    handlersOf [("mem".toList, 1), ("file".toList, 7)] = [("file".toList, 7), ("mem".toList, 1)] := by decide

end Example

end Pdt.C16
