/-
  Props/C14.lean — "Table.equals is true exactly for the same header and the same cells".

  Statement (properties.jsonl C14): for all pairs of tables with default row numbering, equals is
  reflexive and symmetric and returns true iff both have the same name, destination set, column
  names in order, units, number of rows, and pairwise equal cell values, where numbers compare by
  value regardless of numeric type and missing equals missing.  Origin and orientation are ignored,
  and comparison with anything that is not a Table is false.

  `Spec.*` below is the declarative side; the theorems relate `Equals.equals` (the model of the code)
  to it for tables of every size.
-/
import PdtModel.Model.Equals
set_option linter.unusedSimpArgs false
namespace Pdt.C14
open Pdt Pdt.Equals

namespace Spec

/-- by-value cell equality with missing = missing.  A number is its exact value (one token per
    value whatever the numeric type), so "regardless of numeric type" is token equality. -/
def ceq : Sc → Sc → Prop
  | .num a, .num b => a = b
  | .str a, .str b => a = b
  | .ts a, .ts b => a = b
  | .tsz a, .tsz b => a = b
  | .miss _, .miss _ => True
  | _, _ => False

/-- same name, destination set, column names in order, units -/
def SameHeader (a b : Tbl) : Prop :=
  a.name = b.name ∧ (∀ d, d ∈ a.dests ↔ d ∈ b.dests) ∧ a.colNames = b.colNames ∧ a.units = b.units

/-- row `i` of `a` against row `i` of `b`, cell `j` against cell `j` -/
def SameCells (a b : Tbl) : Prop :=
  ∀ rs ∈ a.rows.zip b.rows, ∀ c ∈ rs.1.2.zip rs.2.2, ceq c.1 c.2

/-- index labels pairwise equal by value -/
def SameLabels (a b : Tbl) : Prop :=
  ∀ rs ∈ a.rows.zip b.rows, ceq rs.1.1 rs.2.1

/-- every row has one value per column -/
def Rect (t : Tbl) : Prop := ∀ r ∈ t.rows, r.2.length = t.colNames.length

/-- default row numbering: the labels are 0, 1, 2, … -/
def DefaultIndex (t : Tbl) : Prop :=
  t.rows.map (·.1) = (List.range t.rows.length).map (fun i => Sc.num (natToStr i))

end Spec
open Spec

/-! ## cells -/

theorem equalOrSame_spec (a b : Sc) : equalOrSame a b = true ↔ ceq a b := by
  cases a <;> cases b <;> try (simp [equalOrSame, pyEq, isna, isPdNA, ceq]; done)
  all_goals (rename_i k1 k2; cases k1 <;> cases k2 <;> simp [equalOrSame, pyEq, isna, isPdNA, ceq])

theorem ceq_refl (a : Sc) : ceq a a := by cases a <;> simp [ceq]

theorem ceq_symm (a b : Sc) : ceq a b ↔ ceq b a := by
  cases a <;> cases b <;> simp [ceq, eq_comm]

theorem equalOrSame_symm (a b : Sc) : equalOrSame a b = equalOrSame b a := by
  rw [Bool.eq_iff_iff, equalOrSame_spec, equalOrSame_spec]; exact ceq_symm a b

/-! ## streams -/

theorem allEq_true_iff (xs ys : List Sc) :
    allEq xs ys = true ↔ ∀ p ∈ xs.zip ys, equalOrSame p.1 p.2 = true := by
  induction xs generalizing ys with
  | nil => simp [allEq]
  | cons x xs ih =>
    cases ys with
    | nil => simp [allEq]
    | cons y ys =>
      simp only [allEq, List.zip_cons_cons, List.mem_cons, forall_eq_or_imp]
      cases h : equalOrSame x y <;> simp [ih]

theorem allEq_symm (xs ys : List Sc) : allEq xs ys = allEq ys xs := by
  induction xs generalizing ys with
  | nil => cases ys <;> simp [allEq]
  | cons x xs ih =>
    cases ys with
    | nil => simp [allEq]
    | cons y ys => simp [allEq, equalOrSame_symm x y, ih]

theorem dfAllEq_iff (a b : Tbl) :
    dfAllEq a b = true ↔ ∀ p ∈ (stream a).zip (stream b), equalOrSame p.1 p.2 = true := by
  rw [← allEq_true_iff]; rfl

/-- the two cell streams pair up label with label and cell with cell when the tables have the same
    number of rows and the same row width -/
theorem zip_streams (P : Sc × Sc → Prop) (ra rb : List (Sc × List Sc)) (n : Nat)
    (hlen : ra.length = rb.length)
    (hwa : ∀ r ∈ ra, r.2.length = n) (hwb : ∀ r ∈ rb, r.2.length = n) :
    (∀ p ∈ (ra.flatMap (fun r => r.1 :: r.2)).zip (rb.flatMap (fun r => r.1 :: r.2)), P p) ↔
      ∀ rs ∈ ra.zip rb, P (rs.1.1, rs.2.1) ∧ ∀ c ∈ rs.1.2.zip rs.2.2, P c := by
  induction ra generalizing rb with
  | nil => simp
  | cons r ra ih =>
    cases rb with
    | nil => simp at hlen
    | cons s rb =>
      have hl : ra.length = rb.length := by simpa using hlen
      have hr : r.2.length = s.2.length := by
        rw [hwa r (List.mem_cons_self), hwb s (List.mem_cons_self)]
      have ih' := ih rb hl (fun x hx => hwa x (List.mem_cons_of_mem _ hx))
        (fun x hx => hwb x (List.mem_cons_of_mem _ hx))
      simp only [List.flatMap_cons, List.cons_append, List.zip_cons_cons, List.mem_cons,
        forall_eq_or_imp, List.zip_append hr, List.mem_append]
      constructor
      · intro ⟨h1, h2⟩
        exact ⟨⟨h1, fun c hc => h2 c (Or.inl hc)⟩, ih'.mp (fun p hp => h2 p (Or.inr hp))⟩
      · intro ⟨⟨h1, h2⟩, h3⟩
        refine ⟨h1, fun p hp => ?_⟩
        rcases hp with hp | hp
        · exact h2 p hp
        · exact ih'.mpr h3 p hp

/-! ## header -/

theorem setEq_iff (xs ys : List Str) : setEq xs ys = true ↔ ∀ d, d ∈ xs ↔ d ∈ ys := by
  simp only [setEq, Bool.and_eq_true, List.all_eq_true, List.contains_iff_mem]
  constructor
  · intro ⟨h1, h2⟩ d; exact ⟨h1 d, h2 d⟩
  · intro h; exact ⟨fun d hd => (h d).mp hd, fun d hd => (h d).mpr hd⟩

theorem keyEq_iff (a b : Tbl) : keyEq a b = true ↔ SameHeader a b := by
  simp [keyEq, SameHeader, setEq_iff, and_assoc]

theorem keyEq_symm (a b : Tbl) : keyEq a b = keyEq b a := by
  rw [Bool.eq_iff_iff, keyEq_iff, keyEq_iff]
  simp only [SameHeader]
  constructor <;> (intro ⟨h1, h2, h3, h4⟩; exact ⟨h1.symm, fun d => (h2 d).symm, h3.symm, h4.symm⟩)

/-! ## the property -/

/-- **General form (any row index).**  For rectangular tables, whatever their index labels:
    equals ⇔ same header ∧ same number of rows ∧ index labels pairwise equal ∧ cells pairwise equal.
    (`hc`: the class test passes — always when `self` is exactly a `Table`.) -/
theorem equals_iff_labelled (a b : Tbl) (hc : isInstance b a = true) (ra : Rect a) (rb : Rect b) :
    equals a (.table b) = true ↔
      SameHeader a b ∧ a.rows.length = b.rows.length ∧ SameLabels a b ∧ SameCells a b := by
  simp only [equals, hc, if_true, Bool.and_eq_true, keyEq_iff, beq_iff_eq, dfAllEq_iff]
  constructor
  · intro ⟨⟨hh, hl⟩, hs⟩
    have hcols : a.colNames.length = b.colNames.length := by rw [hh.2.2.1]
    have hz := (zip_streams (fun p => equalOrSame p.1 p.2 = true) a.rows b.rows
      a.colNames.length hl ra (fun r hr => (rb r hr).trans hcols.symm)).mp hs
    exact ⟨hh, hl, fun rs hrs => (equalOrSame_spec _ _).mp (hz rs hrs).1,
      fun rs hrs c hcz => (equalOrSame_spec _ _).mp ((hz rs hrs).2 c hcz)⟩
  · intro ⟨hh, hl, hlab, hcells⟩
    have hcols : a.colNames.length = b.colNames.length := by rw [hh.2.2.1]
    refine ⟨⟨hh, hl⟩, ?_⟩
    apply (zip_streams (fun p => equalOrSame p.1 p.2 = true) a.rows b.rows
      a.colNames.length hl ra (fun r hr => (rb r hr).trans hcols.symm)).mpr
    exact fun rs hrs => ⟨(equalOrSame_spec _ _).mpr (hlab rs hrs),
      fun c hcz => (equalOrSame_spec _ _).mpr (hcells rs hrs c hcz)⟩

/-- two label lists that are the same list pair up equal labels -/
theorem labels_of_map_eq (ra rb : List (Sc × List Sc)) (h : ra.map (·.1) = rb.map (·.1)) :
    ∀ rs ∈ ra.zip rb, rs.1.1 = rs.2.1 := by
  induction ra generalizing rb with
  | nil => simp
  | cons r ra ih =>
    cases rb with
    | nil => simp
    | cons s rb =>
      simp only [List.map_cons, List.cons.injEq] at h
      simp only [List.zip_cons_cons, List.mem_cons, forall_eq_or_imp]
      exact ⟨h.1, ih rb h.2⟩

/-- default row numbering on both sides and the same number of rows: the labels agree -/
theorem default_labels (a b : Tbl) (da : DefaultIndex a) (db : DefaultIndex b)
    (hl : a.rows.length = b.rows.length) : SameLabels a b := by
  intro rs hrs
  have hm : a.rows.map (·.1) = b.rows.map (·.1) := by rw [da, db, hl]
  have h1 := labels_of_map_eq a.rows b.rows hm rs hrs
  rw [← h1]
  exact ceq_refl _

/-- **C14, the "if and only if" clause.**  For tables with default row numbering: equals is true
    exactly when name, destination set, column names in order, units and the number of rows agree
    and the cells are pairwise equal by value (missing = missing). -/
theorem equals_iff (a b : Tbl) (hc : isInstance b a = true) (ra : Rect a) (rb : Rect b)
    (da : DefaultIndex a) (db : DefaultIndex b) :
    equals a (.table b) = true ↔
      SameHeader a b ∧ a.rows.length = b.rows.length ∧ SameCells a b := by
  rw [equals_iff_labelled a b hc ra rb]
  constructor
  · intro ⟨h1, h2, _, h4⟩; exact ⟨h1, h2, h4⟩
  · intro ⟨h1, h2, h4⟩; exact ⟨h1, h2, default_labels a b da db h2, h4⟩

theorem mem_zip_self {α} (l : List α) : ∀ p ∈ l.zip l, p.1 = p.2 := by
  induction l with
  | nil => simp
  | cons x l ih =>
    intro p hp
    rcases List.mem_cons.mp hp with rfl | hp
    · rfl
    · exact ih p hp

/-- **reflexive**: every table equals itself (any index labels, any shape, any missing flavour) -/
theorem equals_refl (a : Tbl) : equals a (.table a) = true := by
  have hc : isInstance a a = true := by cases h : a.sub <;> simp [isInstance, h]
  simp only [equals, hc, if_true, Bool.and_eq_true, beq_self_eq_true, and_true, dfAllEq_iff]
  refine ⟨(keyEq_iff a a).mpr ⟨rfl, fun _ => Iff.rfl, rfl, rfl⟩, ?_⟩
  intro p hp
  rw [equalOrSame_spec, mem_zip_self _ p hp]
  exact ceq_refl _

/-- **symmetric** for every pair of tables of the same class (all index labels, all shapes) -/
theorem equals_symm (a b : Tbl) (hc : a.sub = b.sub) :
    equals a (.table b) = equals b (.table a) := by
  have h1 : isInstance b a = true := by cases h : b.sub <;> simp [isInstance, hc, h]
  have h2 : isInstance a b = true := by cases h : b.sub <;> simp [isInstance, hc, h]
  have h3 : (a.rows.length == b.rows.length) = (b.rows.length == a.rows.length) :=
    Bool.eq_iff_iff.mpr ⟨fun h => beq_iff_eq.mpr (beq_iff_eq.mp h).symm,
      fun h => beq_iff_eq.mpr (beq_iff_eq.mp h).symm⟩
  unfold equals
  simp only [h1, h2, if_true]
  rw [keyEq_symm a b, h3]
  unfold dfAllEq
  rw [allEq_symm (stream a) (stream b)]

/-- **origin and orientation are ignored**: they are not inputs of the comparison -/
theorem origin_orientation_ignored (a b : Tbl) (o o' : Str) (tr tr' : Bool) :
    equals { a with origin := o, transposed := tr } (.table { b with origin := o', transposed := tr' })
      = equals a (.table b) := rfl

/-- **anything that is not a Table is unequal** -/
theorem non_table_false (a : Tbl) (ty : Str) : equals a (.notTable ty) = false := rfl

/-- different numbers of rows are never equal (the `len(self._df) == len(other._df)` test) -/
theorem row_count_matters (a b : Tbl) (h : a.rows.length ≠ b.rows.length) :
    equals a (.table b) = false := by
  simp only [equals]
  split <;> simp [h]

/-! ## non-vacuity, and the quirk of the code that the statements above exclude -/

def exA : Tbl :=
  { sub := false, name := "t".toList, dests := ["x".toList, "y".toList],
    colNames := ["a".toList, "b".toList, "c".toList], units := ["m".toList, "text".toList, "-".toList],
    rows := [(.num "0".toList, [.num "1".toList, .str "p".toList, .miss .nan]),
             (.num "1".toList, [.num "2.5".toList, .miss .none, .ts "1577836800000000000".toList])],
    transposed := false, origin := "f.csv".toList }

/-- same content: destinations in another order, NaN ↔ None, transposed, other origin -/
def exB : Tbl :=
  { exA with dests := ["y".toList, "x".toList], transposed := true, origin := "".toList,
             rows := [(.num "0".toList, [.num "1".toList, .str "p".toList, .miss .none]),
                      (.num "1".toList, [.num "2.5".toList, .miss .na, .ts "1577836800000000000".toList])] }

example : isInstance exB exA = true ∧ Rect exA ∧ Rect exB ∧ DefaultIndex exA ∧ DefaultIndex exB := by
  refine ⟨by decide, ?_, ?_, by unfold DefaultIndex; decide, by unfold DefaultIndex; decide⟩ <;>
    (intro x hx; revert x; decide)
example : equals exA (.table exB) = true := by decide
example : equals exA (.table { exB with units := ["m".toList, "text".toList, "mm".toList] }) = false := by decide
example : exA.sub = exB.sub := rfl

/-! ### transitivity (with reflexivity and symmetry: an equivalence on rectangular tables of one class) -/

theorem ceq_trans (a b c : Sc) (h1 : ceq a b) (h2 : ceq b c) : ceq a c := by
  cases a <;> cases b <;> cases c <;> simp_all [ceq]

/-- a pointwise relation along `zip` composes when the first two lists have the same length -/
theorem zip_trans {α} (R : α → α → Prop) (hR : ∀ a b c, R a b → R b c → R a c) :
    ∀ (xs ys zs : List α), xs.length = ys.length →
      (∀ p ∈ xs.zip ys, R p.1 p.2) → (∀ p ∈ ys.zip zs, R p.1 p.2) → ∀ p ∈ xs.zip zs, R p.1 p.2 := by
  intro xs
  induction xs with
  | nil => intro ys zs _ _ _ p hp; simp at hp
  | cons x xs ih =>
    intro ys zs hl h1 h2 p hp
    cases ys with
    | nil => simp at hl
    | cons y ys =>
      cases zs with
      | nil => simp at hp
      | cons z zs =>
        simp only [List.zip_cons_cons, List.mem_cons, forall_eq_or_imp] at h1 h2
        simp only [List.length_cons, Nat.add_right_cancel_iff] at hl
        rcases List.mem_cons.mp hp with rfl | hp
        · exact hR _ _ _ h1.1 h2.1
        · exact ih ys zs hl h1.2 h2.2 p hp

/-- row against row: same width, labels equal by value, cells pairwise equal by value -/
def rowEq (r s : Sc × List Sc) : Prop :=
  r.2.length = s.2.length ∧ ceq r.1 s.1 ∧ ∀ c ∈ r.2.zip s.2, ceq c.1 c.2

theorem rowEq_trans (r s t : Sc × List Sc) (h1 : rowEq r s) (h2 : rowEq s t) : rowEq r t :=
  ⟨h1.1.trans h2.1, ceq_trans _ _ _ h1.2.1 h2.2.1,
    zip_trans ceq ceq_trans r.2 s.2 t.2 h1.1 h1.2.2 h2.2.2⟩

/-- for rectangular tables with the same column names, "labels and cells agree" is `rowEq` along the rows -/
theorem rowEq_of_same (a b : Tbl) (ra : Rect a) (rb : Rect b) (hcols : a.colNames = b.colNames)
    (hlab : SameLabels a b) (hcells : SameCells a b) : ∀ rs ∈ a.rows.zip b.rows, rowEq rs.1 rs.2 := by
  intro rs hrs
  have hm := List.of_mem_zip hrs
  exact ⟨(ra _ hm.1).trans (by rw [hcols, rb _ hm.2]), hlab rs hrs, hcells rs hrs⟩

/-- **transitive** for rectangular tables of the same class (any index labels, any missing flavours):
    the comparison composes, so together with `equals_refl` and `equals_symm` it is an equivalence.
    Without `Rect` the zip in `_df_elements_all_equal_or_same` truncates and transitivity fails
    (`trans_needs_rect`). -/
theorem equals_trans (a b c : Tbl) (hab : isInstance b a = true) (hbc : isInstance c b = true)
    (hac : isInstance c a = true) (ra : Rect a) (rb : Rect b) (rc : Rect c)
    (h1 : equals a (.table b) = true) (h2 : equals b (.table c) = true) :
    equals a (.table c) = true := by
  rw [equals_iff_labelled a b hab ra rb] at h1
  rw [equals_iff_labelled b c hbc rb rc] at h2
  rw [equals_iff_labelled a c hac ra rc]
  obtain ⟨⟨n1, d1, c1, u1⟩, l1, lab1, cells1⟩ := h1
  obtain ⟨⟨n2, d2, c2, u2⟩, l2, lab2, cells2⟩ := h2
  have hrow := zip_trans rowEq rowEq_trans a.rows b.rows c.rows l1
    (rowEq_of_same a b ra rb c1 lab1 cells1) (rowEq_of_same b c rb rc c2 lab2 cells2)
  exact ⟨⟨n1.trans n2, fun d => (d1 d).trans (d2 d), c1.trans c2, u1.trans u2⟩, l1.trans l2,
    fun rs hrs => (hrow rs hrs).2.1, fun rs hrs => (hrow rs hrs).2.2⟩

/-- what `Rect` excludes: rows narrower than the header make the cell streams of different length,
    the `zip` stops at the shorter one, and the comparison no longer composes -/
theorem trans_needs_rect :
    let wide (v : Str) : Tbl := { exA with rows := [(.num "0".toList, [.num "1".toList, .str v, .miss .nan])] }
    let short : Tbl := { exA with rows := [(.num "0".toList, [.num "1".toList])] }
    equals (wide "p".toList) (.table short) = true ∧ equals short (.table (wide "q".toList)) = true ∧
    equals (wide "p".toList) (.table (wide "q".toList)) = false := by decide

/-- the hypotheses of `equals_trans` are met by a non-trivial triple (NaN ↔ None ↔ pd.NA) -/
example : equals exA (.table exB) = true ∧
    equals exB (.table { exB with rows := exB.rows.map (fun r => (r.1, r.2.map (fun c => if isna c then .miss .nat else c))) }) = true := by
  decide

/-- tz-aware timestamps are equal iff they are the same instant; never equal to a tz-naive one -/
example : equalOrSame (.tsz "1577880000000000000".toList) (.tsz "1577880000000000000".toList) = true ∧
    equalOrSame (.tsz "1577880000000000000".toList) (.ts "1577880000000000000".toList) = false ∧
    equalOrSame (.tsz "1577880000000000000".toList) (.tsz "1577876400000000000".toList) = false := by decide

/-- `pd.NA` is a missing value like the others -/
example : equals { exA with rows := [(.num "0".toList, [.num "1".toList, .str "p".toList, .miss .na])] }
    (.table { exA with rows := [(.num "0".toList, [.num "1".toList, .str "p".toList, .miss .nan])] })
    = true := by decide

/-- the quirk excluded by `hc` / `a.sub = b.sub`: for an instance `sub` of a subclass with the same
    content, `Table.equals(sub)` is True while `sub.equals(table)` is False -/
theorem subclass_asymmetric :
    equals exA (.table { exA with sub := true }) = true ∧
    equals { exA with sub := true } (.table exA) = false := by decide

end Pdt.C14
