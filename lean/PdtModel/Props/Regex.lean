/-
  Props/Regex.lean — the hand models of pdtable's two regular expressions ARE those regular expressions.

  `Pdt.classify` (Model/Marker.lean) and `Pdt.Bundle.gridName` (Model/Bundle.lean) were written by reading
      blocks.py  `_re_block_marker`   ^((?<!\*)(\*\*\*?)(?!\*)|((?<!:):{1,3}(?!:))[^:]*\s*$|([^:]+:)\s*$)
      store.py   `re.search(...)`     ^\s*\*\*(\S+)\s*
  Here they are proved equal — for EVERY string — to the generic engine model of Model/Regex.lean run on the
  pattern text the translator extracts from the source (`Gen.markerPattern`, `Gen.bundleNameRegex`):

    marker_parse        Re.parse Gen.markerPattern.toList   = some markerRe          (closed computation)
    name_parse          Re.parse Gen.bundleNameRegex.toList = some nameRe
    marker_spans        pyMatch T markerRe s = (all five group spans, by cases on the hand model's tests)
    classify_eq_regex   dispatch s (pyMatch T markerRe s) = Dispatch.ofClassify (classify s)
    name_spans          pySearch T nameRe s = (both spans)
    gridName_eq_regex   (pySearch T nameRe s).bind (fun caps => groupText s caps 1) = Bundle.gridName s

  `T` (the Unicode tables behind `\d` / `\w`) is arbitrary: neither pattern uses them.
  The proofs go through lemmas about the matcher on this syntax, not through enumeration: a greedy quantifier
  over a single-character item followed by an arbitrary continuation is the longest-first search
  (`optLoop_chr`: the fuel never runs out; `greedyChars_some / _none / _next`), a look-behind at position 0 is
  vacuous, `\s*$` succeeds exactly on an all-whitespace rest (`se_all`, `se_not`: `$` before a final "\n"
  changes nothing because "\n" is whitespace), and a bounded run (`\*\*\*?`, `:{1,3}`) under a negative
  look-ahead matches exactly the strings with that many leading characters (`altA_spec`, `colonRun_spec`).

  What remains assumed about `re`: that Model/Regex.lean (parser + matcher) is CPython's semantics on this subset.
  That is sampled against CPython on every run (harness/regex_common.py), on these two patterns and on random
  patterns of the subset.
-/
import PdtModel.Model.Regex
import PdtModel.Model.Bundle
import PdtModel.Lemmas.Marker
import PdtModel.Gen.Consts
set_option linter.unusedSimpArgs false
namespace Pdt.RegexProps
open Pdt Pdt.Regex

/-- the greedy run of a single-character item, without fuel: one more character if the budget and the
    item allow it, else (or if the rest of the pattern then fails) stop here -/
def greedyChars (p : Char → Bool) (k : Cont) (caps : Caps) : Option Nat → List Char → List Char → Option St
  | budget, b, c :: cs =>
    if budget ≠ some 0 ∧ p c = true then
      (greedyChars p k caps (budget.map (· - 1)) (c :: b) cs).orElse (fun _ => k ⟨b, c :: cs, caps⟩)
    else k ⟨b, c :: cs, caps⟩
  | _, b, [] => k ⟨b, [], caps⟩

theorem m_chr_cons (T : Tables) (it : Item) (b : List Char) (c : Char) (cs : List Char) (caps : Caps) (k : Cont) :
    m T (.chr it) ⟨b, c :: cs, caps⟩ k = if it.test T c = true then k ⟨c :: b, cs, caps⟩ else none := by
  simp [m]

theorem m_chr_nil (T : Tables) (it : Item) (b : List Char) (caps : Caps) (k : Cont) :
    m T (.chr it) ⟨b, [], caps⟩ k = none := by
  simp [m]

theorem m_rep (T : Tables) (g : Bool) (lo : Nat) (hi : Option Nat) (r : Re) (st : St) (k : Cont) :
    m T (.rep g lo hi r) st k =
      minLoop (m T r) lo st (fun st' => optLoop (m T r) g (st'.rest.length + 2) (hi.map (· - lo)) none st' k) := by
  simp only [m]

theorem optLoop_chr (T : Tables) (it : Item) (k : Cont) (caps : Caps) :
    ∀ (rest : List Char) (fuel : Nat) (budget last : Option Nat) (b : List Char),
      rest.length + 1 ≤ fuel → (∀ l, last = some l → l < b.length) →
      optLoop (m T (.chr it)) true fuel budget last ⟨b, rest, caps⟩ k
        = greedyChars (it.test T) k caps budget b rest := by
  intro rest
  induction rest with
  | nil =>
    intro fuel budget last b hf hl
    obtain ⟨f, rfl⟩ : ∃ f, fuel = f + 1 := ⟨fuel - 1, by simp at hf; omega⟩
    simp [optLoop, greedyChars, m_chr_nil]
  | cons c cs ih =>
    intro fuel budget last b hf hl
    obtain ⟨f, rfl⟩ : ∃ f, fuel = f + 1 := ⟨fuel - 1, by simp at hf; omega⟩
    have hlast : last ≠ some b.length := by
      intro h; have := hl _ h; omega
    by_cases hb : budget = some 0
    · simp [optLoop, greedyChars, hb]
    · by_cases hp : it.test T c = true
      · have := ih f (budget.map (· - 1)) (some b.length) (c :: b) (by simp at hf ⊢; omega)
          (by intro l h; simp at h; subst h; simp)
        simp [optLoop, greedyChars, m_chr_cons, hb, hp, hlast, St.pos, this]
      · simp [optLoop, greedyChars, m_chr_cons, hb, hp, hlast, St.pos]

/-- `x*`, `x{,n}` for a single-character item `x` -/
theorem m_rep0_chr (T : Tables) (it : Item) (hi : Option Nat) (b rest : List Char) (caps : Caps) (k : Cont) :
    m T (.rep true 0 hi (.chr it)) ⟨b, rest, caps⟩ k = greedyChars (it.test T) k caps hi b rest := by
  have h := optLoop_chr T it k caps rest (rest.length + 2) hi none b (by omega) (by simp)
  simpa [m_rep, minLoop] using h

/-- `x+`, `x{1,n}` for a single-character item `x` -/
theorem m_rep1_chr (T : Tables) (it : Item) (hi : Option Nat) (b rest : List Char) (caps : Caps) (k : Cont) :
    m T (.rep true 1 hi (.chr it)) ⟨b, rest, caps⟩ k =
      match rest with
      | c :: cs => if it.test T c = true then greedyChars (it.test T) k caps (hi.map (· - 1)) (c :: b) cs else none
      | [] => none := by
  cases rest with
  | nil => simp [m_rep, minLoop, m_chr_nil]
  | cons c cs =>
    have h := optLoop_chr T it k caps cs (cs.length + 2) (hi.map (· - 1)) none (c :: b) (by omega) (by simp)
    by_cases hp : it.test T c = true <;> simp [m_rep, minLoop, m_chr_cons, hp, h]

/-- the run stops at the longest split as soon as the rest of the pattern succeeds there -/
theorem greedyChars_some (p : Char → Bool) (k : Cont) (caps : Caps) :
    ∀ (rest b : List Char),
      (k ⟨(rest.takeWhile p).reverse ++ b, rest.dropWhile p, caps⟩).isSome →
      greedyChars p k caps none b rest = k ⟨(rest.takeWhile p).reverse ++ b, rest.dropWhile p, caps⟩ := by
  intro rest
  induction rest with
  | nil => intro b _; simp [greedyChars]
  | cons c cs ih =>
    intro b h
    by_cases hp : p c = true
    · simp only [List.takeWhile_cons, hp, if_true, List.dropWhile_cons, List.reverse_cons,
        List.append_assoc, List.singleton_append] at h ⊢
      have := ih (c :: b) h
      cases hk : k ⟨(cs.takeWhile p).reverse ++ c :: b, cs.dropWhile p, caps⟩ with
      | none => simp [hk] at h
      | some x => simp [greedyChars, hp, this, hk]
    · simp [greedyChars, hp, List.takeWhile_cons, List.dropWhile_cons]

/-- no split lets the rest of the pattern succeed -/
theorem greedyChars_none (p : Char → Bool) (k : Cont) (caps : Caps) :
    ∀ (rest b : List Char),
      (∀ pre post, rest = pre ++ post → (∀ c ∈ pre, p c = true) → k ⟨pre.reverse ++ b, post, caps⟩ = none) →
      greedyChars p k caps none b rest = none := by
  intro rest
  induction rest with
  | nil => intro b h; simpa [greedyChars] using h [] [] rfl (by simp)
  | cons c cs ih =>
    intro b h
    have h0 := h [] (c :: cs) rfl (by simp)
    by_cases hp : p c = true
    · have := ih (c :: b) (by
        intro pre post e hpre
        have := h (c :: pre) post (by simp [e]) (by intro x hx; simp at hx; rcases hx with rfl | hx; exact hp; exact hpre x hx)
        simpa using this)
      simp at h0
      simp [greedyChars, hp, this, h0]
    · simp at h0
      simp [greedyChars, hp, h0]

/-- the rest of the pattern cannot start with a character of the run: only the longest split is viable -/
theorem greedyChars_next (p : Char → Bool) (k : Cont) (caps : Caps)
    (hk : ∀ b c post, p c = true → k ⟨b, c :: post, caps⟩ = none) :
    ∀ (rest b : List Char),
      greedyChars p k caps none b rest = k ⟨(rest.takeWhile p).reverse ++ b, rest.dropWhile p, caps⟩ := by
  intro rest
  induction rest with
  | nil => intro b; simp [greedyChars]
  | cons c cs ih =>
    intro b
    by_cases hp : p c = true
    · simp [greedyChars, hp, ih (c :: b), hk b c cs hp, List.takeWhile_cons, List.dropWhile_cons]
    · simp [greedyChars, hp, List.takeWhile_cons, List.dropWhile_cons]

theorem m_seq (T : Tables) (a b : Re) (st : St) (k : Cont) :
    m T (.seq a b) st k = m T a st (fun st' => m T b st' k) := by simp only [m]

theorem m_alt (T : Tables) (a b : Re) (st : St) (k : Cont) :
    m T (.alt a b) st k = (m T a st k).orElse (fun _ => m T b st k) := by simp only [m]

theorem m_group (T : Tables) (n : Nat) (r : Re) (st : St) (k : Cont) :
    m T (.group n r) st k =
      m T r st (fun st' => k ⟨st'.before, st'.rest, st'.caps.set n (some (st.pos, st'.pos))⟩) := by simp only [m]

theorem m_eol (T : Tables) (b r : List Char) (caps : Caps) (k : Cont) :
    m T .eol ⟨b, r, caps⟩ k = if r.isEmpty || r == ['\n'] then k ⟨b, r, caps⟩ else none := by simp only [m]

theorem test_space (T : Tables) : (Item.cls .space false).test T = isSpace := by
  funext c; simp [Item.test, Cls.test]

theorem test_nonspace (T : Tables) : (Item.cls .space true).test T = fun c => !isSpace c := by
  funext c; simp [Item.test, Cls.test]

theorem test_nonColon (T : Tables) : (Item.set true [.ch ':']).test T = (· != ':') := by
  funext c; cases h : c == ':' <;> simp [Item.test, SetItem.test, bne, h]

theorem test_lit (T : Tables) (x c : Char) : (Item.lit x).test T c = (c == x) := by
  simp [Item.test]

theorem takeWhile_all {p : Char → Bool} {r : List Char} (h : ∀ c ∈ r, p c = true) :
    r.takeWhile p = r ∧ r.dropWhile p = [] := by
  induction r with
  | nil => simp
  | cons c cs ih =>
    have hc := h c (by simp)
    have := ih (fun x hx => h x (List.mem_cons_of_mem _ hx))
    simp [List.takeWhile_cons, List.dropWhile_cons, hc, this]

/-- `\s*$` -/
def spacesEol : Re := .seq (.rep true 0 none (.chr (.cls .space false))) .eol

theorem se_all (T : Tables) (b r : List Char) (caps : Caps) (k : Cont) (hk : ∀ st, (k st).isSome)
    (h : r.all isSpace = true) : m T spacesEol ⟨b, r, caps⟩ k = k ⟨r.reverse ++ b, [], caps⟩ := by
  obtain ⟨htw, hdw⟩ := takeWhile_all (p := isSpace) (r := r) (by simpa [List.all_eq_true] using h)
  rw [spacesEol, m_seq, m_rep0_chr, test_space, greedyChars_some]
  · simp [htw, hdw, m_eol]
  · simp [htw, hdw, m_eol, hk]

theorem se_not (T : Tables) (b r : List Char) (caps : Caps) (k : Cont)
    (h : r.all isSpace = false) : m T spacesEol ⟨b, r, caps⟩ k = none := by
  rw [spacesEol, m_seq, m_rep0_chr, test_space, greedyChars_none]
  intro pre post e hpre
  have hpost : post.all isSpace = false := by
    subst e
    simp only [List.all_append, Bool.and_eq_false_iff] at h
    rcases h with h | h
    · have : pre.all isSpace = true := by simpa [List.all_eq_true] using hpre
      simp [this] at h
    · exact h
  rw [m_eol]
  have h1 : post ≠ [] := by intro e; subst e; simp at hpost
  have h2 : post ≠ ['\n'] := by intro e; subst e; revert hpost; decide
  simp [h1, h2]

theorem m_look (T : Tables) (neg : Bool) (r : Re) (st : St) (k : Cont) :
    m T (.look neg r) st k =
      match m T r st some with
      | some st' => if neg then none else k ⟨st.before, st.rest, st'.caps⟩
      | none => if neg then k st else none := by simp only [m]; rfl

theorem m_behind (T : Tables) (neg : Bool) (it : Item) (st : St) (k : Cont) :
    m T (.behind neg it) st k =
      match st.before with
      | c :: _ => if (it.test T c != neg) = true then k st else none
      | [] => if neg then k st else none := by simp only [m]; rfl

theorem m_bol (T : Tables) (st : St) (k : Cont) :
    m T .bol st k = if st.before.isEmpty then k st else none := by simp only [m]

/-- `(?<!\*)(\*\*\*?)(?!\*)` -/
def altA : Re :=
  .seq (.behind true (.lit '*'))
    (.seq (.group 2 (.seq (.chr (.lit '*')) (.seq (.chr (.lit '*')) (.rep true 0 (some 1) (.chr (.lit '*'))))))
      (.look true (.chr (.lit '*'))))

theorem altA_spec (T : Tables) (s : Str) (caps : Caps) (k : Cont) :
    m T altA ⟨[], s, caps⟩ k =
      if leading '*' s = 2 then k ⟨['*', '*'], s.drop 2, caps.set 2 (some (0, 2))⟩
      else if leading '*' s = 3 then k ⟨['*', '*', '*'], s.drop 3, caps.set 2 (some (0, 3))⟩
      else none := by
  rcases s with _ | ⟨c1, _ | ⟨c2, _ | ⟨c3, _ | ⟨c4, t⟩⟩⟩⟩ <;>
    simp only [altA, m_seq, m_behind, m_group, m_chr_cons, m_chr_nil, m_rep0_chr, greedyChars, m_look, test_lit,
      leading, St.pos]
  · simp
  · by_cases h1 : c1 = '*' <;> simp [h1]
  · by_cases h1 : c1 = '*' <;> by_cases h2 : c2 = '*' <;> simp [h1, h2]
  · by_cases h1 : c1 = '*' <;> by_cases h2 : c2 = '*' <;> by_cases h3 : c3 = '*' <;> simp [h1, h2, h3]
  · by_cases h1 : c1 = '*' <;> by_cases h2 : c2 = '*' <;> by_cases h3 : c3 = '*' <;> by_cases h4 : c4 = '*' <;>
      simp [h1, h2, h3, h4, greedyChars]

/-- `((?<!:):{1,3}(?!:))` -/
def colonRun : Re :=
  .group 3 (.seq (.behind true (.lit ':'))
    (.seq (.rep true 1 (some 3) (.chr (.lit ':'))) (.look true (.chr (.lit ':')))))

theorem colonRun_spec (T : Tables) (s : Str) (caps : Caps) (k : Cont) :
    m T colonRun ⟨[], s, caps⟩ k =
      if 1 ≤ leading ':' s ∧ leading ':' s ≤ 3 then
        k ⟨List.replicate (leading ':' s) ':', s.drop (leading ':' s), caps.set 3 (some (0, leading ':' s))⟩
      else none := by
  rcases s with _ | ⟨c1, _ | ⟨c2, _ | ⟨c3, _ | ⟨c4, t⟩⟩⟩⟩ <;>
    simp only [colonRun, m_seq, m_behind, m_group, m_chr_cons, m_chr_nil, m_rep1_chr, greedyChars, m_look, test_lit,
      leading, St.pos]
  · simp
  · by_cases h1 : c1 = ':' <;> simp [h1, List.replicate]
  · by_cases h1 : c1 = ':' <;> by_cases h2 : c2 = ':' <;> simp [h1, h2, List.replicate]
  · by_cases h1 : c1 = ':' <;> by_cases h2 : c2 = ':' <;> by_cases h3 : c3 = ':' <;>
      simp [h1, h2, h3, List.replicate]
  · by_cases h1 : c1 = ':' <;> by_cases h2 : c2 = ':' <;> by_cases h3 : c3 = ':' <;> by_cases h4 : c4 = ':' <;>
      simp [h1, h2, h3, h4, greedyChars, List.replicate]

/-- `((?<!:):{1,3}(?!:))[^:]*\s*$` -/
def altB : Re := .seq colonRun (.seq (.rep true 0 none (.chr (.set true [.ch ':']))) spacesEol)

theorem not_allSpace_of_colon {r : List Char} (h : ':' ∈ r) : r.all isSpace = false := by
  rw [List.all_eq_false]
  exact ⟨':', h, by decide⟩

theorem altB_spec (T : Tables) (s : Str) (caps : Caps) (k : Cont) (hk : ∀ st, (k st).isSome) :
    m T altB ⟨[], s, caps⟩ k =
      if isTemplate s = true then
        k ⟨(s.drop (leading ':' s)).reverse ++ List.replicate (leading ':' s) ':', [],
           caps.set 3 (some (0, leading ':' s))⟩
      else none := by
  rw [altB, m_seq, colonRun_spec]
  by_cases hm : 1 ≤ leading ':' s ∧ leading ':' s ≤ 3
  · rw [if_pos hm, m_seq, m_rep0_chr, test_nonColon]
    by_cases hc : ':' ∈ s.drop (leading ':' s)
    · have ht : isTemplate s = false := by simp [isTemplate, hc]
      rw [ht, greedyChars_none]
      · simp
      · intro pre post e hpre
        apply se_not
        apply not_allSpace_of_colon
        rw [e] at hc
        rcases List.mem_append.1 hc with h | h
        · have := hpre _ h; simp at this
        · exact h
    · have ht : isTemplate s = true := by simp [isTemplate, hc, hm.1, hm.2]
      obtain ⟨htw, hdw⟩ := takeWhile_all (p := (· != ':')) (r := s.drop (leading ':' s))
        (by intro c hc' ; simp; intro e; subst e; exact hc hc')
      rw [ht, greedyChars_some] <;> rw [htw, hdw, se_all T _ [] _ k hk (by simp)]
      · simp
      · simpa using hk _
  · have ht : isTemplate s = false := by
      simp only [isTemplate, Bool.and_eq_false_iff, decide_eq_false_iff_not]
      by_cases h1 : 1 ≤ leading ':' s
      · exact Or.inl (Or.inr (fun h => hm ⟨h1, h⟩))
      · exact Or.inl (Or.inl h1)
    rw [if_neg hm, ht]; simp

/-- `([^:]+:)\s*$` -/
def altC : Re :=
  .seq (.group 4 (.seq (.rep true 1 none (.chr (.set true [.ch ':']))) (.chr (.lit ':')))) spacesEol

theorem altC_spec (T : Tables) (s : Str) (caps : Caps) (k : Cont) (hk : ∀ st, (k st).isSome) :
    m T altC ⟨[], s, caps⟩ k =
      if isMetaKey s = true then
        k ⟨s.reverse, [], caps.set 4 (some (0, (s.takeWhile (· != ':')).length + 1))⟩
      else none := by
  rw [altC, m_seq, m_group, m_seq, m_rep1_chr, test_nonColon]
  cases s with
  | nil => simp [isMetaKey]
  | cons c t =>
    by_cases hc : c = ':'
    · subst hc; simp [isMetaKey]
    · have hc' : (c != ':') = true := by simp [hc]
      simp only [hc', if_true, Option.map_none]
      rw [greedyChars_next]
      · cases hd : t.dropWhile (· != ':') with
        | nil => simp [m_chr_nil, isMetaKey, List.takeWhile_cons, List.dropWhile_cons, hc', hd]
        | cons x ws =>
          have hx : x = ':' := dropWhile_ne_head ':' t x ws hd
          subst hx
          have hs : c :: t = c :: t.takeWhile (· != ':') ++ ':' :: ws := by
            rw [← hd]; simp [List.takeWhile_append_dropWhile]
          by_cases hw : ws.all isSpace = true
          · have hm : isMetaKey (c :: t) = true := by
              simp [isMetaKey, List.takeWhile_cons, List.dropWhile_cons, hc', hd, hw]
            simp only [m_chr_cons, test_lit, beq_self_eq_true, if_true, hm]
            rw [se_all T _ _ _ k hk hw]
            congr 1
            · congr 1
              · conv => rhs; rw [hs]
                simp
              · simp [St.pos, List.takeWhile_cons, hc']
          · have hw' : ws.all isSpace = false := by simpa using hw
            have hm : isMetaKey (c :: t) = false := by
              simp [isMetaKey, List.takeWhile_cons, List.dropWhile_cons, hc', hd, hw']
            simp only [m_chr_cons, test_lit, beq_self_eq_true, if_true, hm]
            rw [se_not T _ _ _ k hw']; simp
      · intro b x post hp
        have : (x == ':') = false := by simpa [bne] using hp
        simp [m_chr_cons, test_lit, this]

/-- the block-marker pattern of blocks.py as syntax:
    `^( (?<!\*)(\*\*\*?)(?!\*) | ((?<!:):{1,3}(?!:))[^:]*\s*$ | ([^:]+:)\s*$ )` -/
def markerRe : Re := .seq .bol (.group 1 (.alt altA (.alt altB altC)))

/-- the translator's pattern text (regenerated from blocks.py on every run) parses to `markerRe` -/
theorem marker_parse : Re.parse Gen.markerPattern.toList = some markerRe := by decide +kernel

theorem leading_le (c : Char) (s : Str) : leading c s ≤ s.length := by
  induction s with
  | nil => simp [leading]
  | cons x xs ih => unfold leading; split <;> simp <;> omega

/-- what `_re_block_marker.match(s)` returns, for every string: all five group spans -/
theorem marker_spans (T : Tables) (s : Str) :
    pyMatch T markerRe s =
      if leading '*' s = 2 then some [some (0, 2), some (0, 2), some (0, 2), none, none]
      else if leading '*' s = 3 then some [some (0, 3), some (0, 3), some (0, 3), none, none]
      else if isTemplate s = true then
        some [some (0, s.length), some (0, s.length), none, some (0, leading ':' s), none]
      else if isMetaKey s = true then
        some [some (0, s.length), some (0, s.length), none, none, some (0, (s.takeWhile (· != ':')).length + 1)]
      else none := by
  have hn : markerRe.ngroups = 4 := by decide
  simp only [pyMatch, matchAt, hn]
  simp only [markerRe, m_seq, m_bol, m_group, m_alt, altA_spec, List.isEmpty_nil, if_true, St.pos, List.length_nil,
    List.replicate]
  by_cases h2 : leading '*' s = 2
  · simp [h2]
  · by_cases h3 : leading '*' s = 3
    · simp [h2, h3]
    · simp only [h2, h3, if_false, Option.orElse_none]
      rw [altB_spec T s _ _ (by intro st; rfl)]
      by_cases ht : isTemplate s = true
      · have := leading_le ':' s
        simp [ht]
        omega
      · simp only [ht, if_false, Option.orElse_none, Bool.false_eq_true]
        rw [altC_spec T s _ _ (by intro st; rfl)]
        by_cases hm : isMetaKey s = true
        · simp [hm]
        · simp [hm]

theorem take_of_leading (c : Char) (s : Str) : s.take (leading c s) = List.replicate (leading c s) c := by
  induction s with
  | nil => simp [leading]
  | cons x xs ih =>
    unfold leading
    by_cases h : x = c
    · subst h; simp [List.replicate_succ, ih]
    · simp [h]

/-- **the hand model `classify` is the regex**: for every string, the dispatch of `parse_blocks_stable` over what
    `_re_block_marker.match` returns (engine model, on the pattern text the translator extracted) is the marker
    `classify` computes; the branch in which the row would be dropped (`mm.group(1) is None`) is never taken. -/
theorem classify_eq_regex (T : Tables) (s : Str) :
    dispatch s (pyMatch T markerRe s) = Dispatch.ofClassify (classify s) := by
  rw [marker_spans]
  unfold classify classifyColon
  by_cases h2 : leading '*' s = 2
  · have := take_of_leading '*' s
    rw [h2] at this
    simp [h2, dispatch, groupText, Dispatch.ofClassify, this, List.replicate]
  · by_cases h3 : leading '*' s = 3
    · have := take_of_leading '*' s
      rw [h3] at this
      simp [h2, h3, dispatch, groupText, Dispatch.ofClassify, this, List.replicate]
    · have n2 : s ≠ ['*', '*'] := by intro e; subst e; exact h2 (by decide)
      have n3 : s ≠ ['*', '*', '*'] := by intro e; subst e; exact h3 (by decide)
      by_cases ht : isTemplate s = true
      · simp [h2, h3, ht, dispatch, groupText, Dispatch.ofClassify, n2, n3]
      · by_cases hm : isMetaKey s = true
        · simp [h2, h3, ht, hm, dispatch, groupText, Dispatch.ofClassify, n2, n3]
        · simp [h2, h3, ht, hm, dispatch, Dispatch.ofClassify]

/-! ## the table-name pattern of store.py -/

/-- `^\s*\*\*(\S+)\s*` as syntax -/
def nameRe : Re :=
  .seq .bol (.seq (.rep true 0 none (.chr (.cls .space false)))
    (.seq (.chr (.lit '*')) (.seq (.chr (.lit '*'))
      (.seq (.group 1 (.rep true 1 none (.chr (.cls .space true))))
        (.rep true 0 none (.chr (.cls .space false)))))))

theorem name_parse : Re.parse Gen.bundleNameRegex.toList = some nameRe := by decide +kernel

/-- `^` without MULTILINE: no attempt that starts to the right of position 0 can match -/
theorem nameRe_matchAt_later (T : Tables) (b0 : Char) (b rest : List Char) :
    matchAt T nameRe (b0 :: b) rest = none := by
  simp [matchAt, nameRe, m_seq, m_bol]

theorem nameRe_searchFrom_later (T : Tables) : ∀ (rest : List Char) (b0 : Char) (b : List Char),
    searchFrom T nameRe (b0 :: b) rest = none := by
  intro rest
  induction rest with
  | nil => intro b0 b; simp [searchFrom, nameRe_matchAt_later]
  | cons c cs ih => intro b0 b; simp [searchFrom, nameRe_matchAt_later, ih]

/-- `re.search` with this pattern is `re.match` -/
theorem name_search_eq_match (T : Tables) (s : Str) : pySearch T nameRe s = pyMatch T nameRe s := by
  cases s with
  | nil => simp [pySearch, pyMatch, searchFrom]
  | cons c cs => simp [pySearch, pyMatch, searchFrom, nameRe_searchFrom_later]

/-- what `re.search(r"^\s*\*\*(\S+)\s*", s)` returns, for every string: both spans -/
theorem name_spans (T : Tables) (s : Str) :
    pySearch T nameRe s =
      match lstrip s with
      | '*' :: '*' :: rest =>
        let nm := rest.takeWhile (fun c => !isSpace c)
        let tl := (rest.dropWhile (fun c => !isSpace c)).takeWhile isSpace
        let a := (s.takeWhile isSpace).length + 2
        if nm.isEmpty then none else some [some (0, a + nm.length + tl.length), some (a, a + nm.length)]
      | _ => none := by
  have hn : nameRe.ngroups = 1 := by decide
  rw [name_search_eq_match]
  simp only [pyMatch, matchAt, hn]
  simp only [nameRe, m_seq, m_bol, List.isEmpty_nil, if_true, m_rep0_chr, test_space, List.replicate]
  rw [greedyChars_next]
  · simp only [lstrip, List.append_nil]
    generalize s.dropWhile isSpace = d
    generalize s.takeWhile isSpace = ws
    rcases d with _ | ⟨x, _ | ⟨y, rest⟩⟩
    · simp [m_chr_nil]
    · by_cases hx : x = '*' <;> simp [m_chr_cons, m_chr_nil, test_lit, hx]
    · by_cases hx : x = '*'
      · by_cases hy : y = '*'
        · subst hx hy
          simp only [m_chr_cons, test_lit, beq_self_eq_true, if_true, m_group, m_rep1_chr, test_nonspace, m_rep0_chr,
            test_space, Option.map_none]
          cases rest with
          | nil => simp
          | cons c cs =>
            by_cases hc : isSpace c = true
            · simp [hc, List.takeWhile_cons]
            · have hc' : isSpace c = false := by simpa using hc
              simp only [hc', Bool.not_false, if_true]
              have inner : ∀ (b r : List Char) (caps : Caps),
                  greedyChars isSpace some caps none b r
                    = some ⟨(r.takeWhile isSpace).reverse ++ b, r.dropWhile isSpace, caps⟩ := by
                intro b r caps
                rw [greedyChars_some]; rfl
              rw [greedyChars_some]
              · simp [inner, St.pos, List.takeWhile_cons, List.dropWhile_cons, hc']
                omega
              · simp [inner]
        · simp [m_chr_cons, test_lit, hx, hy]
      · simp [m_chr_cons, test_lit, hx]
  · intro b c post hc
    have : (c == '*') = false := by
      cases h : c == '*'
      · rfl
      · simp at h; subst h; revert hc; decide
    simp [m_chr_cons, test_lit, this]

theorem take_takeWhile_length (p : Char → Bool) (r : List Char) :
    r.take (r.takeWhile p).length = r.takeWhile p := by
  induction r with
  | nil => simp
  | cons c cs ih => by_cases h : p c = true <;> simp [List.takeWhile_cons, h, ih]

/-- **the hand model `gridName` is the regex**: for every first cell, `mm.group(1)` of
    `re.search(<the pattern text store.py spells>, cell0)` (engine model) — `none` when there is no match — is what
    `gridName` computes. -/
theorem gridName_eq_regex (T : Tables) (s : Str) :
    (pySearch T nameRe s).bind (fun caps => groupText s caps 1) = Bundle.gridName s := by
  rw [name_spans]
  unfold Bundle.gridName
  have hs : s = s.takeWhile isSpace ++ lstrip s := by simp [lstrip, List.takeWhile_append_dropWhile]
  generalize hd : lstrip s = d at hs
  rcases d with _ | ⟨x, _ | ⟨y, rest⟩⟩
  · simp
  · by_cases hx : x = '*' <;> simp [hx]
  · by_cases hx : x = '*'
    · by_cases hy : y = '*'
      · subst hx hy
        by_cases he : (rest.takeWhile (fun c => !isSpace c)).isEmpty = true
        · simp [he]
        · have hdrop : s.drop ((s.takeWhile isSpace).length + 2) = rest := by
            conv => lhs; arg 2; rw [hs]
            simp [List.drop_append]
          simp only [he, Bool.false_eq_true, if_false, Option.bind_some, groupText]
          simp [hdrop, take_takeWhile_length]
      · simp [hx, hy]
    · simp [hx]

/-! ## end to end: the pattern TEXT in the source denotes the hand model -/

/-- the pattern text extracted from blocks.py parses, and what it matches — under the dispatch of
    `parse_blocks_stable` — is `classify`, for every table set and every string -/
theorem marker_pattern_denotes_classify :
    ∃ r, Re.parse Gen.markerPattern.toList = some r ∧
      ∀ (T : Tables) (s : Str), dispatch s (pyMatch T r s) = Dispatch.ofClassify (classify s) :=
  ⟨markerRe, marker_parse, classify_eq_regex⟩

/-- the pattern text extracted from store.py parses, and group 1 of its first match is `gridName` -/
theorem name_pattern_denotes_gridName :
    ∃ r, Re.parse Gen.bundleNameRegex.toList = some r ∧
      ∀ (T : Tables) (s : Str), (pySearch T r s).bind (fun caps => groupText s caps 1) = Bundle.gridName s :=
  ⟨nameRe, name_parse, gridName_eq_regex⟩

/-! ## non-vacuity: the engine model on concrete cells (closed computations) -/

section examples
local notation "T₀" => asciiTables

example : pyMatch T₀ markerRe "**t".toList = some [some (0, 2), some (0, 2), some (0, 2), none, none] := by decide +kernel
example : pyMatch T₀ markerRe "***d".toList = some [some (0, 3), some (0, 3), some (0, 3), none, none] := by decide +kernel
example : pyMatch T₀ markerRe "****x".toList = none := by decide +kernel
example : pyMatch T₀ markerRe ":a".toList = some [some (0, 2), some (0, 2), none, some (0, 1), none] := by decide +kernel
example : pyMatch T₀ markerRe "::::x".toList = none := by decide +kernel
example : pyMatch T₀ markerRe ":a:".toList = none := by decide +kernel
example : pyMatch T₀ markerRe "k: ".toList = some [some (0, 3), some (0, 3), none, none, some (0, 2)] := by decide +kernel
example : pyMatch T₀ markerRe "a b:\t".toList = some [some (0, 5), some (0, 5), none, none, some (0, 4)] := by decide +kernel
example : pyMatch T₀ markerRe "k:v".toList = none := by decide +kernel
example : pyMatch T₀ markerRe "k:\n".toList = some [some (0, 3), some (0, 3), none, none, some (0, 2)] := by decide +kernel
example : pyMatch T₀ markerRe "::\n".toList = some [some (0, 3), some (0, 3), none, some (0, 2), none] := by decide +kernel
example : pyMatch T₀ markerRe " **t".toList = none := by decide +kernel
example : pyMatch T₀ markerRe "****x:".toList = some [some (0, 6), some (0, 6), none, none, some (0, 6)] := by decide +kernel
example : pyMatch T₀ markerRe "**a:".toList = some [some (0, 2), some (0, 2), some (0, 2), none, none] := by decide +kernel

example : dispatch "**t".toList (pyMatch T₀ markerRe "**t".toList) = .marker .table := by decide +kernel
example : dispatch "***d".toList (pyMatch T₀ markerRe "***d".toList) = .marker .directive := by decide +kernel
example : dispatch "****x".toList (pyMatch T₀ markerRe "****x".toList) = .noMatch := by decide +kernel
example : dispatch ":a".toList (pyMatch T₀ markerRe ":a".toList) = .marker .template := by decide +kernel
example : dispatch ":::x \t".toList (pyMatch T₀ markerRe ":::x \t".toList) = .marker .template := by decide +kernel
example : dispatch "::::x".toList (pyMatch T₀ markerRe "::::x".toList) = .noMatch := by decide +kernel
example : dispatch ":a:".toList (pyMatch T₀ markerRe ":a:".toList) = .noMatch := by decide +kernel
example : dispatch "k: ".toList (pyMatch T₀ markerRe "k: ".toList) = .marker .metadata := by decide +kernel
example : dispatch "a b:\t".toList (pyMatch T₀ markerRe "a b:\t".toList) = .marker .metadata := by decide +kernel
example : dispatch "k:v".toList (pyMatch T₀ markerRe "k:v".toList) = .noMatch := by decide +kernel
example : dispatch "k:\n".toList (pyMatch T₀ markerRe "k:\n".toList) = .marker .metadata := by decide +kernel
example : dispatch "::\n".toList (pyMatch T₀ markerRe "::\n".toList) = .marker .template := by decide +kernel
example : dispatch " **t".toList (pyMatch T₀ markerRe " **t".toList) = .noMatch := by decide +kernel
/-- a match whose group 1 did not take part would drop the row: the dispatch has that branch (never taken by `markerRe`) -/
example : dispatch "x".toList (some [some (0, 1), none, none, none, none]) = .dropped := by decide +kernel

example : pySearch T₀ nameRe "**t".toList = some [some (0, 3), some (2, 3)] := by decide +kernel
example : pySearch T₀ nameRe " **t".toList = some [some (0, 4), some (3, 4)] := by decide +kernel
example : pySearch T₀ nameRe " \t**farm_animals* ignored".toList = some [some (0, 18), some (4, 17)] := by decide +kernel
example : pySearch T₀ nameRe "**".toList = none := by decide +kernel
example : pySearch T₀ nameRe "** x".toList = none := by decide +kernel
example : pySearch T₀ nameRe "x**a".toList = none := by decide +kernel
example : pySearch T₀ nameRe "\n**a".toList = some [some (0, 4), some (3, 4)] := by decide +kernel
example : pySearch T₀ nameRe "***".toList = some [some (0, 3), some (2, 3)] := by decide +kernel
example : pySearch T₀ nameRe "*".toList = none := by decide +kernel
example : pySearch T₀ nameRe "".toList = none := by decide +kernel
example : pySearch T₀ nameRe "**a\u00a0b".toList = some [some (0, 4), some (2, 3)] := by decide +kernel
example : pySearch T₀ nameRe "**a \n b".toList = some [some (0, 6), some (2, 3)] := by decide +kernel
example : (pySearch T₀ nameRe " \t**farm_animals* ignored".toList).bind
    (fun caps => groupText " \t**farm_animals* ignored".toList caps 1) = some "farm_animals*".toList := by decide +kernel

/-! the engine beyond these two patterns (each agrees with CPython 3.12; the harness samples thousands more) -/
def run (p s : String) : Option (Option Caps) := (Re.parse p.toList).map fun r => pySearch T₀ r s.toList

example : run "(a|b*)*" "c" = some (some [some (0, 0), some (0, 0)]) := by decide +kernel
example : run "(?:(a)|b)*" "ab" = some (some [some (0, 2), some (0, 1)]) := by decide +kernel
example : run "(a*)+?b" "aab" = some (some [some (0, 3), some (0, 2)]) := by decide +kernel
example : run "x$" "ax\n" = some (some [some (1, 2)]) := by decide +kernel
example : run "(?<=a)b|(?<![a-c])c" "abc cc" = some (some [some (1, 2)]) := by decide +kernel
example : run "a{2}{3}" "a" = none := by decide +kernel          -- multiple repeat: rejected as by re.compile
example : run "(?P<n>a)" "a" = none := by decide +kernel          -- outside the subset
end examples

end Pdt.RegexProps
