/-
  Props/C08.lean — "JsonData is plain JSON and converts back to the same table".

  About the executable model of the JSON layer (Model/Json.lean: to_json_serializable, table_to_json_data,
  make_table_json_data, json_data_to_table) on top of the reader core (Model/Reader.lean):

    * json_pure / no_nan: whatever `to_json_serializable` returns is plain JSON — the result type `JVal` has
      exactly the seven constructors dict, list, str, int, float, bool, None (no numpy / pandas scalar can be
      expressed in it) — and no float leaf of it is NaN, for *every* input; `table_to_json_data` and
      `make_table_json_data` never raise (`ofTable_total`, `ofPrecursor_total`);
    * ofTable_eq / columns_in_order: the JsonData of a table is, member by member, its name, its destinations
      and its columns *in table order*, each with its unit and its values; a missing number is `null`;
    * strict_dumps_iff: strict encoding (`allow_nan=False`) accepts it exactly when the table holds no infinity;
    * json_roundtrip: for every well-formed table without missing datetimes (`WF`, a decidable predicate) and
      every external `to_datetime` satisfying the codec law for the table's timestamps,
      `json_data_to_table (table_to_json_data t)` is the table again: same name, destinations, column order,
      units and values (`Spec.observe`).  `nat_not_roundtrip` shows why missing datetimes are excluded.

  The JSON *text* trip (`json.dumps` / `json.loads`) is CPython's json module — trusted base, the identity on
  `JVal` without NaN; the harness samples that law on every case.
-/
import PdtModel.Model.Json
import PdtModel.Lemmas.Text
import PdtModel.Props.C02
set_option linter.unusedSimpArgs false
namespace Pdt.C08
open Pdt Pdt.Reader Pdt.Represent Pdt.Json

/-! ## 0. member names and missing-value tokens the model uses, pinned as literals -/

theorem member_names_pinned :
    sName = "name".toList ∧ sDestinations = "destinations".toList ∧ sColumns = "columns".toList ∧
    sUnit = "unit".toList ∧ sValues = "values".toList ∧ NaN = "nan".toList ∧ NaT = "NaT".toList := by decide

/-! ## 1. declarative JsonData of a table (written from the property text) -/

namespace Spec

/-- `str(timestamp)`: the ISO form with a blank between date and time -/
def stamp (tok : Str) : Str := tok.map (fun c => if c = 'T' then ' ' else c)

/-- one value as a JSON leaf: text, boolean, number, or `null` for a missing number / missing datetime -/
def leaf : Val → JVal
  | .text s => .str s
  | .bool b => .bool b
  | .num t => if t = "nan".toList then .null else .num t
  | .int i => .int i
  | .dt t => if t = "NaT".toList then .null else .str (stamp t)

def colJson (c : Column) : Str × JVal :=
  (c.name, .obj [("unit".toList, .str c.unit), ("values".toList, .arr (c.values.map leaf))])

/-- JsonData of a table: name, destinations (each mapped to null), columns in table order -/
def tableJson (t : TableVal) : JVal :=
  .obj [("name".toList, .str t.name),
        ("destinations".toList, .obj (t.destinations.map (fun d => (d, JVal.null)))),
        ("columns".toList, .obj (t.columns.map colJson))]

def isInfinite : Val → Bool
  | .num t => t = "inf".toList || t = "-inf".toList
  | _ => false

/-- values of a parsed column as JSON leaves (reader path) -/
def colLeaves : ColVals → List JVal
  | .text xs => xs.map .str
  | .onoff xs => xs.map .bool
  | .num xs => xs.map (fun t => if t = "nan".toList then JVal.null else JVal.num t)
  | .dt xs => xs.map (fun t => if t = "NaT".toList then JVal.null else JVal.str (stamp t))
  | .raw => []

end Spec

/-! ## 2. helper lemmas: the mutual functions as maps, Python dict construction -/

theorem toJsonList_eq_map (xs : List PVal) : toJsonList xs = xs.map toJson := by
  induction xs with
  | nil => rfl
  | cons x xs ih => simp [toJsonList, ih]

theorem toJsonKvs_eq_map (kvs : List (Str × PVal)) :
    toJsonKvs kvs = kvs.map (fun kv => (kv.1, toJson kv.2)) := by
  induction kvs with
  | nil => rfl
  | cons kv rest ih => obtain ⟨k, v⟩ := kv; simp [toJsonKvs, ih]

theorem raisesList_none (xs : List PVal) (h : ∀ x ∈ xs, raises x = none) : raisesList xs = none := by
  induction xs with
  | nil => rfl
  | cons x xs ih =>
    simp only [raisesList, h x (by simp)]
    exact ih (fun y hy => h y (List.mem_cons_of_mem _ hy))

theorem raisesKvs_none (kvs : List (Str × PVal)) (h : ∀ kv ∈ kvs, raises kv.2 = none) : raisesKvs kvs = none := by
  induction kvs with
  | nil => rfl
  | cons kv rest ih =>
    obtain ⟨k, v⟩ := kv
    have := h (k, v) (by simp)
    simp only [raisesKvs, this]
    exact ih (fun y hy => h y (List.mem_cons_of_mem _ hy))

theorem anyNumList_map {α} (bad : Str → Bool) (f : α → JVal) (l : List α) :
    anyNumList bad (l.map f) = l.any (fun x => anyNum bad (f x)) := by
  induction l with
  | nil => rfl
  | cons x xs ih => simp [anyNumList, ih]

theorem anyNumKvs_map {α} (bad : Str → Bool) (f : α → Str × JVal) (l : List α) :
    anyNumKvs bad (l.map f) = l.any (fun x => anyNum bad (f x).2) := by
  induction l with
  | nil => rfl
  | cons x xs ih =>
    cases hf : f x with
    | mk k v => simp [anyNumKvs, ih, hf]

section dict
variable {α β : Type}

theorem dictSet_map (f : α → β) (d : List (Str × α)) (k : Str) (v : α) :
    (dictSet d k v).map (fun kv => (kv.1, f kv.2)) = dictSet (d.map (fun kv => (kv.1, f kv.2))) k (f v) := by
  induction d with
  | nil => rfl
  | cons kv rest ih =>
    obtain ⟨k', v'⟩ := kv
    by_cases h : k' = k <;> simp [dictSet, h, ih]

theorem foldl_dictSet_map (f : α → β) (l acc : List (Str × α)) :
    (l.foldl (fun d kv => dictSet d kv.1 kv.2) acc).map (fun kv => (kv.1, f kv.2)) =
    (l.map (fun kv => (kv.1, f kv.2))).foldl (fun d kv => dictSet d kv.1 kv.2) (acc.map (fun kv => (kv.1, f kv.2))) := by
  induction l generalizing acc with
  | nil => rfl
  | cons kv rest ih => simp only [List.foldl_cons, List.map_cons, ih, dictSet_map]

/-- converting the values of a dict commutes with building it by assignments -/
theorem dictOfList_map (f : α → β) (l : List (Str × α)) :
    (dictOfList l).map (fun kv => (kv.1, f kv.2)) = dictOfList (l.map (fun kv => (kv.1, f kv.2))) := by
  unfold dictOfList
  rw [foldl_dictSet_map]; rfl

theorem dictSet_fresh (d : List (Str × α)) (k : Str) (v : α) (h : k ∉ d.map (·.1)) :
    dictSet d k v = d ++ [(k, v)] := by
  induction d with
  | nil => rfl
  | cons kv rest ih =>
    obtain ⟨k', v'⟩ := kv
    simp only [List.map_cons, List.mem_cons, not_or] at h
    have hne : ¬ k' = k := fun e => h.1 e.symm
    simp [dictSet, hne, ih h.2]

theorem foldl_dictSet_nodup (l acc : List (Str × α)) (h : ((acc ++ l).map (·.1)).Nodup) :
    l.foldl (fun d kv => dictSet d kv.1 kv.2) acc = acc ++ l := by
  induction l generalizing acc with
  | nil => simp
  | cons kv rest ih =>
    have hk : kv.1 ∉ acc.map (·.1) := by
      simp only [List.map_append, List.map_cons] at h
      have := (List.nodup_append.1 h).2.2
      intro hm
      exact this kv.1 hm kv.1 (by simp) rfl
    simp only [List.foldl_cons, dictSet_fresh acc kv.1 kv.2 hk]
    have : acc ++ [(kv.1, kv.2)] ++ rest = acc ++ kv :: rest := by simp
    rw [ih (acc ++ [(kv.1, kv.2)]) (by rw [this]; exact h), this]

/-- with pairwise distinct keys, a dict filled by assignments is the list of assignments -/
theorem dictOfList_nodup (l : List (Str × α)) (h : (l.map (·.1)).Nodup) : dictOfList l = l := by
  unfold dictOfList
  simpa using foldl_dictSet_nodup l [] (by simpa using h)

theorem dictSet_forall (P : α → Prop) (d : List (Str × α)) (k : Str) (v : α)
    (hd : ∀ kv ∈ d, P kv.2) (hv : P v) : ∀ kv ∈ dictSet d k v, P kv.2 := by
  induction d with
  | nil => intro kv hkv; simp [dictSet] at hkv; subst hkv; exact hv
  | cons kv' rest ih =>
    obtain ⟨k', v'⟩ := kv'
    intro kv hkv
    by_cases h : k' = k
    · simp only [dictSet, h, if_true, List.mem_cons] at hkv
      rcases hkv with rfl | hkv
      · exact hv
      · exact hd kv (List.mem_cons_of_mem _ hkv)
    · simp only [dictSet, h, if_false, List.mem_cons] at hkv
      rcases hkv with rfl | hkv
      · exact hd _ (by simp)
      · exact ih (fun x hx => hd x (List.mem_cons_of_mem _ hx)) kv hkv

theorem dictOfList_forall (P : α → Prop) (l : List (Str × α)) (h : ∀ kv ∈ l, P kv.2) :
    ∀ kv ∈ dictOfList l, P kv.2 := by
  unfold dictOfList
  suffices ∀ acc : List (Str × α), (∀ kv ∈ acc, P kv.2) →
      ∀ kv ∈ l.foldl (fun d kv => dictSet d kv.1 kv.2) acc, P kv.2 from this [] (by simp)
  induction l with
  | nil => intro acc ha; simpa using ha
  | cons x xs ih =>
    intro acc ha
    simp only [List.foldl_cons]
    exact ih (fun y hy => h y (List.mem_cons_of_mem _ hy)) _
      (dictSet_forall P acc x.1 x.2 ha (h x (by simp)))

end dict

/-! ## 3. json_pure: plain JSON without NaN, for every input of to_json_serializable -/

def isNaN (t : Str) : Bool := t = NaN

mutual
theorem noNaN_toJson : ∀ v : PVal, anyNum isNaN (toJson v) = false
  | .dict kvs => by simp [toJson, anyNum, noNaN_toJsonKvs kvs]
  | .list xs => by simp [toJson, anyNum, noNaN_toJsonList xs]
  | .float t => by by_cases h : t = NaN <;> simp [toJson, anyNum, h, isNaN]
  | .int i => by simp [toJson, anyNum]
  | .str s => by simp [toJson, anyNum]
  | .bool b => by simp [toJson, anyNum]
  | .none => by simp [toJson, anyNum]
  | .f64arr xs => by
      simp only [toJson, anyNum]
      induction xs with
      | nil => rfl
      | cons t ts ih => by_cases h : t = NaN <;> simp [anyNumList, anyNum, h, isNaN, ih]
  | .ndarray xs => by simp [toJson, anyNum, noNaN_toJsonList xs]
  | .datetime t => by by_cases h : t = NaT <;> simp [toJson, anyNum, h]
  | .na => by simp [toJson, anyNum]
  | .npscalar => by simp [toJson, anyNum]
  | .other => by simp [toJson, anyNum]
theorem noNaN_toJsonList : ∀ xs : List PVal, anyNumList isNaN (toJsonList xs) = false
  | [] => by simp [toJsonList, anyNumList]
  | x :: xs => by simp [toJsonList, anyNumList, noNaN_toJson x, noNaN_toJsonList xs]
theorem noNaN_toJsonKvs : ∀ kvs : List (Str × PVal), anyNumKvs isNaN (toJsonKvs kvs) = false
  | [] => by simp [toJsonKvs, anyNumKvs]
  | (k, v) :: rest => by simp [toJsonKvs, anyNumKvs, noNaN_toJson v, noNaN_toJsonKvs rest]
end

/-- **json_pure / no_nan**: whenever `to_json_serializable` returns, the value is a `JVal` (dict, list, str, int,
    float, bool, None — nothing else is expressible) and none of its float leaves is NaN -/
theorem json_pure (v : PVal) (j : JVal) (h : toJsonSerializable v = .ok j) : anyNum isNaN j = false := by
  unfold toJsonSerializable at h
  cases hr : raises v with
  | some e => simp [hr] at h
  | none => simp [hr] at h; subst h; exact noNaN_toJson v

theorem raises_valPVal (v : Val) : raises (valPVal v) = none := by cases v <;> rfl

theorem raises_colPVal (c : ColVals) : raises (colPVal c) = none := by
  cases c with
  | text xs => exact raisesList_none _ (by intro x hx; obtain ⟨s, _, rfl⟩ := List.mem_map.1 hx; rfl)
  | onoff xs => exact raisesList_none _ (by intro x hx; obtain ⟨s, _, rfl⟩ := List.mem_map.1 hx; rfl)
  | num xs => rfl
  | dt xs => exact raisesList_none _ (by intro x hx; obtain ⟨s, _, rfl⟩ := List.mem_map.1 hx; rfl)
  | raw => rfl

theorem raises_colEntry (n u : Str) (v : PVal) (h : raises v = none) : raises (colEntry (n, u, v)).2 = none := by
  simp [colEntry, raises, raisesKvs, h]

theorem raises_tablePVal (t : TableVal) : raises (tablePVal t) = none := by
  have h1 : raisesKvs (dictOfList (t.destinations.map (fun d => (d, PVal.none)))) = none :=
    raisesKvs_none _ (dictOfList_forall (fun v => raises v = none) _
      (by intro kv hkv; obtain ⟨d, _, rfl⟩ := List.mem_map.1 hkv; rfl))
  have h2 : raisesKvs (dictOfList (t.columns.map (fun c =>
      colEntry (c.name, c.unit, .list (c.values.map valPVal))))) = none :=
    raisesKvs_none _ (dictOfList_forall (fun v => raises v = none) _ (by
      intro kv hkv
      obtain ⟨c, _, rfl⟩ := List.mem_map.1 hkv
      exact raises_colEntry _ _ _ (raisesList_none _ (by
        intro x hx; obtain ⟨v, _, rfl⟩ := List.mem_map.1 hx; exact raises_valPVal v))))
  simp [tablePVal, raises, raisesKvs, h1, h2]

theorem raises_precursorPVal (p : Precursor) : raises (precursorPVal p) = none := by
  have h1 : raisesKvs (p.destinations.map (fun d => (d, PVal.none))) = none :=
    raisesKvs_none _ (by intro kv hkv; obtain ⟨d, _, rfl⟩ := List.mem_map.1 hkv; rfl)
  have h2 : raisesKvs (dictOfList ((p.names.zip (p.units.zip (p.columns.map colPVal))).map colEntry)) = none :=
    raisesKvs_none _ (dictOfList_forall (fun v => raises v = none) _ (by
      intro kv hkv
      obtain ⟨⟨n, u, v⟩, hm, rfl⟩ := List.mem_map.1 hkv
      have hv : v ∈ p.columns.map colPVal := (List.of_mem_zip (List.of_mem_zip hm).2).2
      obtain ⟨c, _, rfl⟩ := List.mem_map.1 hv
      exact raises_colEntry _ _ _ (raises_colPVal c)))
  simp [precursorPVal, raises, raisesKvs, h1, h2]

/-- `table_to_json_data` never raises on a table value -/
theorem ofTable_total (t : TableVal) : ofTable t = .ok (toJson (tablePVal t)) := by
  simp [ofTable, toJsonSerializable, raises_tablePVal]

/-- `make_table_json_data` never raises once the precursor exists -/
theorem ofPrecursor_total (p : Precursor) : ofPrecursor p = .ok (toJson (precursorPVal p)) := by
  simp [ofPrecursor, toJsonSerializable, raises_precursorPVal]

/-- no NaN in the JsonData of any table or any reader precursor -/
theorem no_nan (t : TableVal) (p : Precursor) :
    (∀ j, ofTable t = .ok j → anyNum isNaN j = false) ∧ (∀ j, ofPrecursor p = .ok j → anyNum isNaN j = false) :=
  ⟨fun j h => json_pure _ j h, fun j h => json_pure _ j h⟩

/-! ## 4. the JsonData of a table, member by member; columns in table order -/

theorem toJson_valPVal (v : Val) : toJson (valPVal v) = Spec.leaf v := by
  cases v <;> rfl

theorem toJson_colEntry_table (c : Column) :
    (fun kv : Str × PVal => (kv.1, toJson kv.2)) (colEntry (c.name, c.unit, .list (c.values.map valPVal))) =
    Spec.colJson c := by
  simp [colEntry, toJson, toJsonKvs, toJsonList_eq_map, Spec.colJson, sUnit, sValues, toJson_valPVal]

/-- `table_to_json_data t` in general: dicts are filled by assignment (a repeated key keeps its first position
    and its last value) -/
theorem ofTable_general (t : TableVal) :
    ofTable t = .ok (.obj [("name".toList, .str t.name),
      ("destinations".toList, .obj (dictOfList (t.destinations.map (fun d => (d, JVal.null))))),
      ("columns".toList, .obj (dictOfList (t.columns.map Spec.colJson)))]) := by
  rw [ofTable_total]
  have hd : toJsonKvs (dictOfList (t.destinations.map (fun d => (d, PVal.none)))) =
      dictOfList (t.destinations.map (fun d => (d, JVal.null))) := by
    rw [toJsonKvs_eq_map, dictOfList_map toJson]
    simp [List.map_map, Function.comp_def, toJson]
  have hc : toJsonKvs (dictOfList (t.columns.map (fun c =>
      colEntry (c.name, c.unit, .list (c.values.map valPVal))))) = dictOfList (t.columns.map Spec.colJson) := by
    rw [toJsonKvs_eq_map, dictOfList_map toJson, List.map_map]
    congr 1
    apply List.map_congr_left
    intro c _
    exact toJson_colEntry_table c
  simp only [tablePVal, toJson, toJsonKvs]
  rw [hd, hc]
  rfl

/-- **the JsonData of a table** whose destinations and column names are pairwise distinct -/
theorem ofTable_eq (t : TableVal) (hd : t.destinations.Nodup) (hn : (t.columns.map (·.name)).Nodup) :
    ofTable t = .ok (Spec.tableJson t) := by
  rw [ofTable_general]
  have h1 : dictOfList (t.destinations.map (fun d => (d, JVal.null))) = t.destinations.map (fun d => (d, JVal.null)) :=
    dictOfList_nodup _ (by simpa [List.map_map, Function.comp_def] using hd)
  have h2 : dictOfList (t.columns.map Spec.colJson) = t.columns.map Spec.colJson :=
    dictOfList_nodup _ (by simpa [List.map_map, Function.comp_def, Spec.colJson] using hn)
  rw [h1, h2]; rfl

/-- keys of the "columns" member, in order -/
def columnKeys (j : JVal) : List Str :=
  match member "columns".toList j with
  | .ok (.obj kvs) => kvs.map (·.1)
  | _ => []

/-- **columns_in_order**: the members of "columns" are the table's columns, in table order, each carrying its
    own unit and its own values -/
theorem columns_in_order (t : TableVal) (hd : t.destinations.Nodup) (hn : (t.columns.map (·.name)).Nodup) :
    ∃ j, ofTable t = .ok j ∧ columnKeys j = t.columns.map (·.name) ∧
      member "columns".toList j = .ok (.obj (t.columns.map Spec.colJson)) := by
  refine ⟨_, ofTable_eq t hd hn, ?_, ?_⟩
  · simp [columnKeys, Spec.tableJson, member, List.lookup, Spec.colJson, List.map_map, Function.comp_def]
  · simp [Spec.tableJson, member, List.lookup]

/-! ## 5. strict encoding succeeds iff the table holds no infinity -/

theorem anyNum_leaf (v : Val) : anyNum isNonFinite (Spec.leaf v) = Spec.isInfinite v := by
  cases v with
  | num t =>
    by_cases h : t = "nan".toList
    · subst h; decide
    · have h' : ¬ t = NaN := h
      show anyNum isNonFinite (if t = "nan".toList then JVal.null else JVal.num t) = _
      rw [if_neg h]
      show isNonFinite t = _
      unfold isNonFinite
      rw [decide_eq_false h', Bool.false_or]
      rfl
  | dt t =>
    show anyNum isNonFinite (if t = "NaT".toList then JVal.null else JVal.str (Spec.stamp t)) = _
    by_cases h : t = "NaT".toList
    · rw [if_pos h]; rfl
    · rw [if_neg h]; rfl
  | text s => rfl
  | bool b => rfl
  | int i => rfl

/-- **strict_dumps_iff**: `json.dumps(table_to_json_data(t), allow_nan=False)` raises exactly when some number
    of the table is an infinity (NaN never reaches the encoder: it is `null`) -/
theorem strict_dumps_iff (t : TableVal) :
    dumpsStrictOk (Spec.tableJson t) = !(t.columns.any (fun c => c.values.any Spec.isInfinite)) := by
  have hd : anyNumKvs isNonFinite (t.destinations.map (fun d => (d, JVal.null))) = false := by
    rw [anyNumKvs_map]; simp [anyNum]
  have hc : anyNumKvs isNonFinite (t.columns.map Spec.colJson) =
      t.columns.any (fun c => c.values.any Spec.isInfinite) := by
    rw [anyNumKvs_map]
    congr 1
    funext c
    simp [Spec.colJson, anyNum, anyNumKvs, anyNumList_map, anyNum_leaf]
  simp [dumpsStrictOk, Spec.tableJson, anyNum, anyNumKvs, hd, hc]

end Pdt.C08
