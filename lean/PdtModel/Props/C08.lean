/-
  Props/C08.lean — "JsonData is plain JSON and converts back to the same table".

  About the executable model of the JSON layer (Model/Json.lean: to_json_serializable, table_to_json_data,
  make_table_json_data, json_data_to_table) on top of the reader core (Model/Reader.lean):

    * json_pure / no_nan: whatever `to_json_serializable` returns is plain JSON — the result type `JVal` has
      exactly the seven constructors dict, list, str, int, float, bool, None (no numpy / pandas scalar can be
      expressed in it) — and no float leaf of it is NaN, for *every* input; `table_to_json_data` and
      `make_table_json_data` never raise (`ofTable_total`, `ofPrecursor_total`);
    * ofTable_eq / columns_in_order: the JsonData of a table is, member by member, its name, its destinations
      and its columns *in table order*, each with its unit and its values; a missing number is `null`;
    * strict_dumps_iff: strict encoding (`allow_nan=False`) accepts it exactly when the table holds no infinity;
    * json_roundtrip: for every well-formed table without missing datetimes (`WF`, a decidable predicate) and
      every external `to_datetime` satisfying the codec law for the table's timestamps,
      `json_data_to_table (table_to_json_data t)` is the table again: same name, destinations, column order,
      units and values (`Spec.observe`).  `nat_not_roundtrip` shows why missing datetimes are excluded.

  The JSON *text* trip is modelled (Model/JsonText.lean) and proved in §7: `loads_dumps`, `json_roundtrip_through_text`.
-/
import PdtModel.Model.Json
import PdtModel.Model.JsonText
import PdtModel.Lemmas.Text
import PdtModel.Lemmas.Json
import PdtModel.Lemmas.JsonText
import PdtModel.Props.C02
set_option linter.unusedSimpArgs false
namespace Pdt.C08
open Pdt Pdt.Reader Pdt.Represent Pdt.Json

/-! ## 0. member names and missing-value tokens the model uses, pinned as literals -/

theorem member_names_pinned :
    sName = "name".toList ∧ sDestinations = "destinations".toList ∧ sColumns = "columns".toList ∧
    sUnit = "unit".toList ∧ sValues = "values".toList ∧ NaN = "nan".toList ∧ NaT = "NaT".toList := by decide

/-! ## 1. declarative JsonData of a table (written from the property text) -/

namespace Spec

/-- `str(timestamp)`: the ISO form with a blank between date and time -/
def stamp (tok : Str) : Str := tok.map (fun c => if c = 'T' then ' ' else c)

/-- one value as a JSON leaf: text, boolean, number, or `null` for a missing number / missing datetime -/
def leaf : Val → JVal
  | .text s => .str s
  | .bool b => .bool b
  | .num t => if t = "nan".toList then .null else .num t
  | .int i => .int i
  | .dt t => if t = "NaT".toList then .null else .str (stamp t)

def colJson (c : Column) : Str × JVal :=
  (c.name, .obj [("unit".toList, .str c.unit), ("values".toList, .arr (c.values.map leaf))])

/-- JsonData of a table: name, destinations (each mapped to null), columns in table order -/
def tableJson (t : TableVal) : JVal :=
  .obj [("name".toList, .str t.name),
        ("destinations".toList, .obj (t.destinations.map (fun d => (d, JVal.null)))),
        ("columns".toList, .obj (t.columns.map colJson))]

def isInfinite : Val → Bool
  | .num t => t = "inf".toList || t = "-inf".toList
  | _ => false

/-- values of a parsed column as JSON leaves (reader path) -/
def colLeaves : ColVals → List JVal
  | .text xs => xs.map .str
  | .onoff xs => xs.map .bool
  | .num xs => xs.map (fun t => if t = "nan".toList then JVal.null else JVal.num t)
  | .dt xs => xs.map (fun t => if t = "NaT".toList then JVal.null else JVal.str (stamp t))
  | .raw => []

end Spec

/-! ## 2. helper lemmas: the mutual functions as maps, Python dict construction -/

theorem toJsonList_eq_map (xs : List PVal) : toJsonList xs = xs.map toJson := by
  induction xs with
  | nil => rfl
  | cons x xs ih => simp [toJsonList, ih]

theorem toJsonKvs_eq_map (kvs : List (Str × PVal)) :
    toJsonKvs kvs = kvs.map (fun kv => (kv.1, toJson kv.2)) := by
  induction kvs with
  | nil => rfl
  | cons kv rest ih => obtain ⟨k, v⟩ := kv; simp [toJsonKvs, ih]

theorem raisesList_none (xs : List PVal) (h : ∀ x ∈ xs, raises x = none) : raisesList xs = none := by
  induction xs with
  | nil => rfl
  | cons x xs ih =>
    simp only [raisesList, h x (by simp)]
    exact ih (fun y hy => h y (List.mem_cons_of_mem _ hy))

theorem raisesKvs_none (kvs : List (Str × PVal)) (h : ∀ kv ∈ kvs, raises kv.2 = none) : raisesKvs kvs = none := by
  induction kvs with
  | nil => rfl
  | cons kv rest ih =>
    obtain ⟨k, v⟩ := kv
    have := h (k, v) (by simp)
    simp only [raisesKvs, this]
    exact ih (fun y hy => h y (List.mem_cons_of_mem _ hy))

theorem anyNumList_map {α} (bad : Str → Bool) (f : α → JVal) (l : List α) :
    anyNumList bad (l.map f) = l.any (fun x => anyNum bad (f x)) := by
  induction l with
  | nil => rfl
  | cons x xs ih => simp [anyNumList, ih]

theorem anyNumKvs_map {α} (bad : Str → Bool) (f : α → Str × JVal) (l : List α) :
    anyNumKvs bad (l.map f) = l.any (fun x => anyNum bad (f x).2) := by
  induction l with
  | nil => rfl
  | cons x xs ih =>
    cases hf : f x with
    | mk k v => simp [anyNumKvs, ih, hf]



/-! ## 3. json_pure: plain JSON without NaN, for every input of to_json_serializable -/

def isNaN (t : Str) : Bool := t = NaN

mutual
theorem noNaN_toJson : ∀ v : PVal, anyNum isNaN (toJson v) = false
  | .dict kvs => by simp [toJson, anyNum, noNaN_toJsonKvs kvs]
  | .list xs => by simp [toJson, anyNum, noNaN_toJsonList xs]
  | .float t => by by_cases h : t = NaN <;> simp [toJson, anyNum, h, isNaN]
  | .int i => by simp [toJson, anyNum]
  | .str s => by simp [toJson, anyNum]
  | .bool b => by simp [toJson, anyNum]
  | .none => by simp [toJson, anyNum]
  | .f64arr xs => by
      simp only [toJson, anyNum]
      induction xs with
      | nil => rfl
      | cons t ts ih => by_cases h : t = NaN <;> simp [anyNumList, anyNum, h, isNaN, ih]
  | .ndarray xs => by simp [toJson, anyNum, noNaN_toJsonList xs]
  | .datetime t => by by_cases h : t = NaT <;> simp [toJson, anyNum, h]
  | .na => by simp [toJson, anyNum]
  | .npscalar v => by simp [toJson, noNaN_toJson v]
  | .other => by simp [toJson, anyNum]
theorem noNaN_toJsonList : ∀ xs : List PVal, anyNumList isNaN (toJsonList xs) = false
  | [] => by simp [toJsonList, anyNumList]
  | x :: xs => by simp [toJsonList, anyNumList, noNaN_toJson x, noNaN_toJsonList xs]
theorem noNaN_toJsonKvs : ∀ kvs : List (Str × PVal), anyNumKvs isNaN (toJsonKvs kvs) = false
  | [] => by simp [toJsonKvs, anyNumKvs]
  | (k, v) :: rest => by simp [toJsonKvs, anyNumKvs, noNaN_toJson v, noNaN_toJsonKvs rest]
end

/-- **json_pure / no_nan**: whenever `to_json_serializable` returns, the value is a `JVal` (dict, list, str, int,
    float, bool, None — nothing else is expressible) and none of its float leaves is NaN -/
theorem json_pure (v : PVal) (j : JVal) (h : toJsonSerializable v = .ok j) : anyNum isNaN j = false := by
  unfold toJsonSerializable at h
  cases hr : raises v with
  | some e => simp [hr] at h
  | none => simp [hr] at h; subst h; exact noNaN_toJson v

theorem raises_valPVal (v : Val) : raises (valPVal v) = none := by cases v <;> rfl

theorem raises_colPVal (c : ColVals) : raises (colPVal c) = none := by
  cases c with
  | text xs => exact raisesList_none _ (by intro x hx; obtain ⟨s, _, rfl⟩ := List.mem_map.1 hx; rfl)
  | onoff xs => exact raisesList_none _ (by intro x hx; obtain ⟨s, _, rfl⟩ := List.mem_map.1 hx; rfl)
  | num xs => rfl
  | dt xs => exact raisesList_none _ (by intro x hx; obtain ⟨s, _, rfl⟩ := List.mem_map.1 hx; rfl)
  | raw => rfl

theorem raises_colEntry (n u : Str) (v : PVal) (h : raises v = none) : raises (colEntry (n, u, v)).2 = none := by
  simp [colEntry, raises, raisesKvs, h]

theorem raises_tablePVal (t : TableVal) : raises (tablePVal t) = none := by
  have h1 : raisesKvs (dictOfList (t.destinations.map (fun d => (d, PVal.none)))) = none :=
    raisesKvs_none _ (dictOfList_forall (fun v => raises v = none) _
      (by intro kv hkv; obtain ⟨d, _, rfl⟩ := List.mem_map.1 hkv; rfl))
  have h2 : raisesKvs (dictOfList (t.columns.map (fun c =>
      colEntry (c.name, c.unit, .list (c.values.map valPVal))))) = none :=
    raisesKvs_none _ (dictOfList_forall (fun v => raises v = none) _ (by
      intro kv hkv
      obtain ⟨c, _, rfl⟩ := List.mem_map.1 hkv
      exact raises_colEntry _ _ _ (raisesList_none _ (by
        intro x hx; obtain ⟨v, _, rfl⟩ := List.mem_map.1 hx; exact raises_valPVal v))))
  simp [tablePVal, raises, raisesKvs, h1, h2]

theorem raises_precursorPVal (p : Precursor) : raises (precursorPVal p) = none := by
  have h1 : raisesKvs (p.destinations.map (fun d => (d, PVal.none))) = none :=
    raisesKvs_none _ (by intro kv hkv; obtain ⟨d, _, rfl⟩ := List.mem_map.1 hkv; rfl)
  have h2 : raisesKvs (dictOfList (precursorColumns p)) = none :=
    raisesKvs_none _ (dictOfList_forall (fun v => raises v = none) _ (by
      intro kv hkv
      obtain ⟨⟨n, u, c⟩, _, rfl⟩ := List.mem_map.1 hkv
      exact raises_colEntry _ _ _ (raises_colPVal c)))
  simp [precursorPVal, raises, raisesKvs, h1, h2]

/-- `tablePVal` is `tablePValObs` at the element types the model assumes for each dtype (`valPVal`); the harness
    sends the observed element types through `tablePValObs` on every case, so the assumption is checked -/
theorem tablePVal_obs (t : TableVal) :
    tablePVal t = tablePValObs t.name t.destinations (t.columns.map (fun c => (c.name, c.unit, c.values.map valPVal))) := by
  simp [tablePVal, tablePValObs, List.map_map, Function.comp_def]

/-- `precursorPVal` is `precursorPValObs` at the array types the model assumes per column kind (`colPVal`); the
    harness sends the observed arrays through `precursorPValObs` on every reader case -/
theorem precursorPVal_obs (p : Precursor) :
    precursorPVal p = precursorPValObs p.name
      ((p.names.zip (p.units.zip p.columns)).map (fun nuc => (nuc.1, nuc.2.1, colPVal nuc.2.2))) p.destinations := by
  simp [precursorPVal, precursorPValObs, precursorColumns, List.map_map, Function.comp_def]

/-- `table_to_json_data` never raises on a table value -/
theorem ofTable_total (t : TableVal) : ofTable t = .ok (toJson (tablePVal t)) := by
  simp [ofTable, toJsonSerializable, raises_tablePVal]

/-- `make_table_json_data` never raises once the precursor exists -/
theorem ofPrecursor_total (p : Precursor) : ofPrecursor p = .ok (toJson (precursorPVal p)) := by
  simp [ofPrecursor, toJsonSerializable, raises_precursorPVal]

/-- no NaN in the JsonData of any table or any reader precursor -/
theorem no_nan (t : TableVal) (p : Precursor) :
    (∀ j, ofTable t = .ok j → anyNum isNaN j = false) ∧ (∀ j, ofPrecursor p = .ok j → anyNum isNaN j = false) :=
  ⟨fun j h => json_pure _ j h, fun j h => json_pure _ j h⟩

/-! ## 4. the JsonData of a table, member by member; columns in table order -/

theorem toJson_valPVal (v : Val) : toJson (valPVal v) = Spec.leaf v := by
  cases v <;> rfl

theorem toJson_colEntry_table (c : Column) :
    (fun kv : Str × PVal => (kv.1, toJson kv.2)) (colEntry (c.name, c.unit, .list (c.values.map valPVal))) =
    Spec.colJson c := by
  simp [colEntry, toJson, toJsonKvs, toJsonList_eq_map, Spec.colJson, sUnit, sValues, toJson_valPVal]

/-- `table_to_json_data t` in general: dicts are filled by assignment (a repeated key keeps its first position
    and its last value) -/
theorem ofTable_general (t : TableVal) :
    ofTable t = .ok (.obj [("name".toList, .str t.name),
      ("destinations".toList, .obj (dictOfList (t.destinations.map (fun d => (d, JVal.null))))),
      ("columns".toList, .obj (dictOfList (t.columns.map Spec.colJson)))]) := by
  rw [ofTable_total]
  have hd : toJsonKvs (dictOfList (t.destinations.map (fun d => (d, PVal.none)))) =
      dictOfList (t.destinations.map (fun d => (d, JVal.null))) := by
    rw [toJsonKvs_eq_map, dictOfList_map toJson]
    simp [List.map_map, Function.comp_def, toJson]
  have hc : toJsonKvs (dictOfList (t.columns.map (fun c =>
      colEntry (c.name, c.unit, .list (c.values.map valPVal))))) = dictOfList (t.columns.map Spec.colJson) := by
    rw [toJsonKvs_eq_map, dictOfList_map toJson, List.map_map]
    congr 1
    apply List.map_congr_left
    intro c _
    exact toJson_colEntry_table c
  simp only [tablePVal, toJson, toJsonKvs]
  rw [hd, hc]
  rfl

/-- **the JsonData of a table** whose destinations and column names are pairwise distinct -/
theorem ofTable_eq (t : TableVal) (hd : t.destinations.Nodup) (hn : (t.columns.map (·.name)).Nodup) :
    ofTable t = .ok (Spec.tableJson t) := by
  rw [ofTable_general]
  have h1 : dictOfList (t.destinations.map (fun d => (d, JVal.null))) = t.destinations.map (fun d => (d, JVal.null)) :=
    dictOfList_nodup _ (by simpa [List.map_map, Function.comp_def] using hd)
  have h2 : dictOfList (t.columns.map Spec.colJson) = t.columns.map Spec.colJson :=
    dictOfList_nodup _ (by simpa [List.map_map, Function.comp_def, Spec.colJson] using hn)
  rw [h1, h2]; rfl

/-- keys of the "columns" member, in order -/
def columnKeys (j : JVal) : List Str :=
  match member "columns".toList j with
  | .ok (.obj kvs) => kvs.map (·.1)
  | _ => []

/-- **columns_in_order**: the members of "columns" are the table's columns, in table order, each carrying its
    own unit and its own values -/
theorem columns_in_order (t : TableVal) (hd : t.destinations.Nodup) (hn : (t.columns.map (·.name)).Nodup) :
    ∃ j, ofTable t = .ok j ∧ columnKeys j = t.columns.map (·.name) ∧
      member "columns".toList j = .ok (.obj (t.columns.map Spec.colJson)) := by
  refine ⟨_, ofTable_eq t hd hn, ?_, ?_⟩
  · simp [columnKeys, Spec.tableJson, member, List.lookup, Spec.colJson, List.map_map, Function.comp_def]
  · simp [Spec.tableJson, member, List.lookup]

/-! ## 5. strict encoding succeeds iff the table holds no infinity -/

theorem anyNum_leaf (v : Val) : anyNum isNonFinite (Spec.leaf v) = Spec.isInfinite v := by
  cases v with
  | num t =>
    by_cases h : t = "nan".toList
    · subst h; decide
    · have h' : ¬ t = NaN := h
      show anyNum isNonFinite (if t = "nan".toList then JVal.null else JVal.num t) = _
      rw [if_neg h]
      show isNonFinite t = _
      unfold isNonFinite
      rw [decide_eq_false h', Bool.false_or]
      rfl
  | dt t =>
    show anyNum isNonFinite (if t = "NaT".toList then JVal.null else JVal.str (Spec.stamp t)) = _
    by_cases h : t = "NaT".toList
    · rw [if_pos h]; rfl
    · rw [if_neg h]; rfl
  | text s => rfl
  | bool b => rfl
  | int i => rfl

/-- **strict_dumps_iff**: `json.dumps(table_to_json_data(t), allow_nan=False)` raises exactly when some number
    of the table is an infinity (NaN never reaches the encoder: it is `null`) -/
theorem strict_dumps_iff (t : TableVal) :
    dumpsStrictOk (Spec.tableJson t) = !(t.columns.any (fun c => c.values.any Spec.isInfinite)) := by
  have hd : anyNumKvs isNonFinite (t.destinations.map (fun d => (d, JVal.null))) = false := by
    rw [anyNumKvs_map]; simp [anyNum]
  have hc : anyNumKvs isNonFinite (t.columns.map Spec.colJson) =
      t.columns.any (fun c => c.values.any Spec.isInfinite) := by
    rw [anyNumKvs_map]
    congr 1
    funext c
    simp [Spec.colJson, anyNum, anyNumKvs, anyNumList_map, anyNum_leaf]
  simp [dumpsStrictOk, Spec.tableJson, anyNum, anyNumKvs, hd, hc]

/-! ## 6. json_data_to_table rebuilds a well-formed table -/



namespace Spec
def cell (fi : Int → Str) : Val → Cell
  | .text s => .str s
  | .bool b => .bool b
  | .num t => if t = "nan".toList then .none else .float t
  | .int i => .int i (fi i)
  | .dt t => if t = "NaT".toList then .none else .str (stamp t)

def grid (fi : Int → Str) (t : TableVal) : List Row :=
  [[Cell.str ("**".toList ++ t.name)], [Cell.str (joinWith ' ' t.destinations)],
   t.columns.map (fun c => Cell.str c.name), t.columns.map (fun c => Cell.str c.unit)] ++
  zipStar (t.columns.map (fun c => c.values.map (cell fi)))
end Spec

theorem leafCell_leaf (fi : Int → Str) (v : Val) : leafCell fi (Spec.leaf v) = .ok (Spec.cell fi v) := by
  cases v with
  | num t =>
    show leafCell fi (if t = "nan".toList then JVal.null else JVal.num t) =
      .ok (if t = "nan".toList then Cell.none else Cell.float t)
    by_cases h : t = "nan".toList
    · rw [if_pos h, if_pos h]; rfl
    · rw [if_neg h, if_neg h]; rfl
  | dt t =>
    show leafCell fi (if t = "NaT".toList then JVal.null else JVal.str (Spec.stamp t)) =
      .ok (if t = "NaT".toList then Cell.none else Cell.str (Spec.stamp t))
    by_cases h : t = "NaT".toList
    · rw [if_pos h, if_pos h]; rfl
    · rw [if_neg h, if_neg h]; rfl
  | _ => rfl

theorem mapM_map_ok {α β γ} (f : γ → Except PyExc β) (h : α → γ) (g : α → β) (l : List α)
    (hyp : ∀ x ∈ l, f (h x) = .ok (g x)) : (l.map h).mapM f = .ok (l.map g) := by
  induction l with
  | nil => rfl
  | cons x xs ih =>
    have h1 := hyp x (by simp)
    have h2 := ih (fun y hy => hyp y (List.mem_cons_of_mem _ hy))
    simp [List.mapM_cons, h1, h2, bind, Except.bind, pure, Except.pure]

theorem toGrid_tableJson (fi : Int → Str) (t : TableVal) :
    toGrid fi (Spec.tableJson t) = .ok (Spec.grid fi t) := by
  have hn : member sName (Spec.tableJson t) = .ok (.str t.name) := rfl
  have hd : member sDestinations (Spec.tableJson t) = .ok (.obj (t.destinations.map (fun d => (d, JVal.null)))) := rfl
  have hc : columnsOf (Spec.tableJson t) = .ok (t.columns.map Spec.colJson) := rfl
  have hu : (t.columns.map Spec.colJson).mapM unitOf =
      .ok (t.columns.map (·.unit)) := mapM_map_ok _ _ _ _ (fun c _ => rfl)
  have hv : (t.columns.map Spec.colJson).mapM valuesOf =
      .ok (t.columns.map (fun c => JVal.arr (c.values.map Spec.leaf))) := mapM_map_ok _ _ _ _ (fun c _ => rfl)
  have hcells : (t.columns.map (fun c => JVal.arr (c.values.map Spec.leaf))).mapM (valueCells fi) =
      .ok (t.columns.map (fun c => c.values.map (Spec.cell fi))) :=
    mapM_map_ok _ _ _ _ (fun c _ => by
      show (c.values.map Spec.leaf).mapM (leafCell fi) = _
      exact mapM_map_ok _ _ _ _ (fun v _ => leafCell_leaf fi v))
  have hf : fstr (JVal.str t.name) = .ok t.name := rfl
  have hj : joinItems (JVal.obj (t.destinations.map (fun d => (d, JVal.null)))) = .ok t.destinations := by
    simp [joinItems, List.map_map, Function.comp_def]
  simp only [toGrid, hn, hd, hc, hu, hv, hcells, hf, hj, bind, Except.bind, pure, Except.pure]
  simp [Spec.grid, Spec.colJson, List.map_map, Function.comp_def]



theorem strip_eq_self (s : Str) (h1 : ∀ c, s.head? = some c → isSpace c = false)
    (h2 : ∀ c, s.getLast? = some c → isSpace c = false) : strip s = s := by
  unfold strip lstrip rstrip
  rw [dropWhile_eq_self isSpace s h1]
  rw [dropWhile_eq_self isSpace s.reverse (by intro x hx; rw [List.head?_reverse] at hx; exact h2 x hx)]
  exact List.reverse_reverse s

theorem joinWith_ne_nil (sep : Char) (xs : List Str) (hx : xs ≠ []) (h : ∀ x ∈ xs, x ≠ []) : joinWith sep xs ≠ [] := by
  match xs, hx with
  | [x], _ => simpa [joinWith] using h x (by simp)
  | x :: y :: rest, _ => simp [joinWith]

theorem joinWith_head (sep : Char) (xs : List Str) (h : ∀ x ∈ xs, x ≠ []) (c : Char)
    (hc : (joinWith sep xs).head? = some c) : ∃ x ∈ xs, c ∈ x := by
  match xs with
  | [] => simp [joinWith] at hc
  | [x] => exact ⟨x, by simp, by simp [joinWith] at hc; exact List.mem_of_mem_head? hc⟩
  | x :: y :: rest =>
    have hx := h x (by simp)
    simp only [joinWith] at hc
    cases x with
    | nil => exact absurd rfl hx
    | cons a as => simp at hc; exact ⟨a :: as, by simp, by simp [hc]⟩

theorem joinWith_last (sep : Char) (xs : List Str) (h : ∀ x ∈ xs, x ≠ []) (c : Char)
    (hc : (joinWith sep xs).getLast? = some c) : ∃ x ∈ xs, c ∈ x := by
  induction xs with
  | nil => simp [joinWith] at hc
  | cons x rest ih =>
    cases rest with
    | nil => exact ⟨x, by simp, by simp [joinWith] at hc; exact List.mem_of_getLast? hc⟩
    | cons y rest' =>
      have hne : joinWith sep (y :: rest') ≠ [] :=
        joinWith_ne_nil sep (y :: rest') (by simp) (fun z hz => h z (List.mem_cons_of_mem _ hz))
      simp only [joinWith] at hc
      rw [List.getLast?_append] at hc
      have : (sep :: joinWith sep (y :: rest')).getLast? = (joinWith sep (y :: rest')).getLast? := by
        cases hj : joinWith sep (y :: rest') with
        | nil => exact absurd hj hne
        | cons a as => simp [List.getLast?_cons_cons]
      rw [this] at hc
      cases hl : (joinWith sep (y :: rest')).getLast? with
      | none =>
        have := List.getLast?_eq_none_iff.1 hl
        exact absurd this hne
      | some d =>
        rw [hl] at hc
        simp at hc
        subst hc
        obtain ⟨z, hz, hcz⟩ := ih (fun z hz => h z (List.mem_cons_of_mem _ hz)) hl
        exact ⟨z, List.mem_cons_of_mem _ hz, hcz⟩

theorem dedup_nodup (l : List Str) (h : l.Nodup) : dedup l = l := by
  induction l with
  | nil => rfl
  | cons x xs ih =>
    have hx := List.nodup_cons.1 h
    simp only [dedup, ih hx.2]
    congr 1
    apply List.filter_eq_self.2
    intro a ha
    simp
    intro e; subst e; exact hx.1 ha

/-- destinations come back: tokens joined by one blank, split again -/
theorem destinations_join (ds : List Str) (hne : ds ≠ []) (hnd : ds.Nodup)
    (htok : ∀ d ∈ ds, d ≠ [] ∧ ∀ c ∈ d, isSpace c = false) :
    destinations (.str (joinWith ' ' ds)) = ds := by
  have hs : strip (joinWith ' ' ds) = joinWith ' ' ds := by
    apply strip_eq_self
    · intro c hc
      obtain ⟨x, hx, hcx⟩ := joinWith_head ' ' ds (fun x hx => (htok x hx).1) c hc
      exact (htok x hx).2 c hcx
    · intro c hc
      obtain ⟨x, hx, hcx⟩ := joinWith_last ' ' ds (fun x hx => (htok x hx).1) c hc
      exact (htok x hx).2 c hcx
  rw [C02.destinations_text, hs, splitOn_joinWith ' ' ds hne (by
    intro x hx hm
    have := (htok x hx).2 ' ' hm
    exact absurd this (by decide)), dedup_nodup ds hnd]



theorem foldl_dupStep_nodup (ps : List (Str × Nat)) (acc : List Str × Fixer)
    (h : (acc.1 ++ ps.map (·.1)).Nodup) : ps.foldl dupStep acc = (acc.1 ++ ps.map (·.1), acc.2) := by
  induction ps generalizing acc with
  | nil => simp
  | cons p ps ih =>
    have hp : acc.1.contains p.1 = false := by
      simp only [List.map_cons] at h
      have := (List.nodup_append.1 h).2.2
      cases hc : acc.1.contains p.1 with
      | false => rfl
      | true =>
        have hm : p.1 ∈ acc.1 := by simpa using hc
        exact absurd rfl (this p.1 hm p.1 (by simp))
    have hs : dupStep acc p = (acc.1 ++ [p.1], acc.2) := by
      unfold dupStep; rw [hp]; rfl
    simp only [List.foldl_cons, hs]
    rw [ih (acc.1 ++ [p.1], acc.2) (by simpa using h)]
    simp

/-- pairwise distinct names pass `_fix_duplicate_column_names` untouched and uncounted -/
theorem fixDuplicates_nodup (names : List Str) (f : Fixer) (h : names.Nodup) : fixDuplicates names f = (names, f) := by
  unfold fixDuplicates
  rw [foldl_dupStep_nodup names.zipIdx ([], f) (by simpa [C02.map_fst_zipIdx] using h), C02.map_fst_zipIdx]
  rfl

theorem foldl_shortStep_full (n : Nat) (ps : List (Row × Nat)) (acc : List Row × Fixer)
    (h : ∀ p ∈ ps, ¬ p.1.length < n) : ps.foldl (shortStep n) acc = (acc.1 ++ ps.map (·.1), acc.2) := by
  induction ps generalizing acc with
  | nil => simp
  | cons p ps ih =>
    have hs : shortStep n acc p = (acc.1 ++ [p.1], acc.2) := by simp [shortStep, h p (by simp)]
    simp only [List.foldl_cons, hs]
    rw [ih _ (fun q hq => h q (List.mem_cons_of_mem _ hq))]
    simp

/-- rows that are long enough pass `fix_missing_rows_in_column_data` untouched and uncounted -/
theorem fixShortRows_full (rows : List Row) (n : Nat) (f : Fixer) (h : ∀ r ∈ rows, ¬ r.length < n) :
    fixShortRows rows n f = (rows, f) := by
  unfold fixShortRows
  rw [foldl_shortStep_full n rows.zipIdx ([], f) (by
    intro p hp
    have : p.1 ∈ rows.zipIdx.map (·.1) := List.mem_map.2 ⟨p, hp, rfl⟩
    rw [C02.map_fst_zipIdx] at this
    exact h p.1 this), C02.map_fst_zipIdx]
  rfl

theorem foldl_min_const (m : Nat) (cs : List (List Cell)) (h : ∀ c ∈ cs, c.length = m) :
    cs.foldl (fun k d => min k d.length) m = m := by
  induction cs with
  | nil => rfl
  | cons c cs ih =>
    simp only [List.foldl_cons, h c (by simp), Nat.min_self]
    exact ih (fun d hd => h d (List.mem_cons_of_mem _ hd))

/-- `zip(*data)` of columns of one common length `m` -/
theorem zipStar_rect (cols : List (List Cell)) (m : Nat) (hne : cols ≠ []) (h : ∀ c ∈ cols, c.length = m) :
    zipStar cols = (List.range m).map (fun i => cols.map (fun col => col.getD i .none)) := by
  cases cols with
  | nil => exact absurd rfl hne
  | cons c cs =>
    simp only [zipStar]
    rw [h c (by simp), foldl_min_const m cs (fun d hd => h d (List.mem_cons_of_mem _ hd))]

theorem map_range_getD (l : List Cell) (m : Nat) (h : l.length = m) :
    (List.range m).map (fun i => l.getD i .none) = l := by
  subst h
  apply List.ext_getElem
  · simp
  · intro i h1 h2
    simp at h1
    simp [List.getD_eq_getElem?_getD, h1]

/-- transposing the zipped rows gives the columns back -/
theorem transposeN_zipStar (cols : List (List Cell)) (m : Nat) (hne : cols ≠ []) (h : ∀ c ∈ cols, c.length = m) :
    transposeN (zipStar cols) cols.length = cols := by
  rw [zipStar_rect cols m hne h]
  unfold transposeN
  apply List.ext_getElem
  · simp
  · intro j h1 h2
    simp at h1
    simp only [List.getElem_map, List.getElem_range, List.map_map, Function.comp_def, getD0]
    have : ∀ i, (cols.map (fun col => col.getD i Cell.none)).getD j Cell.none = cols[j].getD i Cell.none := by
      intro i; simp [List.getD_eq_getElem?_getD, h1]
    simp only [this]
    exact map_range_getD cols[j] m (h _ (List.getElem_mem h1))



namespace Spec
/-- a text that does not end in a NUL character (numpy's `<U` arrays drop trailing NULs: `"a\x00"` comes back as
    `"a"`, Reader `textCell`) -/
def isText : Val → Bool | .text s => s.getLast? != some '\x00' | _ => false
def isBool : Val → Bool | .bool _ => true | _ => false
/-- a float, or an integer of magnitude below 2^53 — the integers every one of which is a float64 exactly, so
    that "the values are reproduced" (an integer comes back as the float of the same value) is meaningful -/
def isNumber : Val → Bool
  | .num _ => true
  | .int i => decide (-9007199254740992 < i ∧ i < 9007199254740992)
  | _ => false
def isStamp : Val → Bool | .dt t => t != "NaT".toList | _ => false
def textOf : Val → Str | .text s => s | _ => []
def boolOf : Val → Bool | .bool b => b | _ => false
def stampOf : Val → Str | .dt t => t | _ => []
def numOf (fi : Int → Str) : Val → Str | .num t => t | .int i => fi i | _ => []

def kindOK (c : Column) : Bool :=
  if c.unit = "text".toList then c.values.all isText
  else if c.unit = "onoff".toList then c.values.all isBool
  else if c.unit = "datetime".toList then c.values.all isStamp && dtHomogeneous (c.values.map stampOf)
  else c.values.all isNumber

def observeCol (fi : Int → Str) (c : Column) : ColVals :=
  if c.unit = "text".toList then .text (c.values.map textOf)
  else if c.unit = "onoff".toList then .onoff (c.values.map boolOf)
  else if c.unit = "datetime".toList then .dt (c.values.map stampOf)
  else .num (c.values.map (numOf fi))
end Spec

/-- the codec law for one timestamp: `str(ts)` is trimmed text starting with a digit, is no missing-value
    marker, and `pandas.to_datetime(str(ts))` is `ts` again -/
def dtOK (ext : Ext) (tok : Str) : Bool :=
  match strip (Spec.stamp tok) with
  | [] => false
  | c :: cs => ext.isDigit c && !isMissingMarker (Spec.stamp tok) && (ext.parseDt (c :: cs) == .ok tok)

def DtCol (ext : Ext) (c : Column) : Prop :=
  c.unit = "datetime".toList → ∀ v ∈ c.values, dtOK ext (Spec.stampOf v) = true

/-- external law for integers: `float(i)` does not overflow (true for every |i| < 2^1023, in particular below 2^53) -/
def intOK (fi : Int → Str) : Val → Bool
  | .int i => fi i != overflowTok
  | _ => true

def IntCol (fi : Int → Str) (c : Column) : Prop := ∀ v ∈ c.values, intOK fi v = true

theorem parseWith_all_some {α β : Type} (cellFn : Cell → Option α) (rep : FixCfg → α) (vt : String)
    (txt : Cell → Str)
    (vs : List β) (f : Fixer) (φ : β → Cell) (ψ : β → α) (h : ∀ v ∈ vs, cellFn (φ v) = some (ψ v)) :
    parseWith cellFn rep vt txt (vs.map φ) f = (vs.map ψ, f) := by
  induction vs with
  | nil => rfl
  | cons v vs ih =>
    simp only [List.map_cons]
    unfold parseWith
    rw [h v (by simp)]
    simp [ih (fun d hd => h d (List.mem_cons_of_mem _ hd))]

theorem parseDatetime_all_ok {β : Type} (ext : Ext) (vs : List β) (f : Fixer) (φ : β → Cell) (ψ : β → Str)
    (h : ∀ v ∈ vs, dtCell ext (φ v) = .ok (ψ v)) : parseDatetime ext (vs.map φ) f = .ok (vs.map ψ, f) := by
  induction vs with
  | nil => rfl
  | cons v vs ih =>
    simp only [List.map_cons]
    unfold parseDatetime
    rw [h v (by simp)]
    simp [ih (fun d hd => h d (List.mem_cons_of_mem _ hd)), bind, Except.bind, pure, Except.pure]

theorem dtCell_stamp (ext : Ext) (tok : Str) (h : dtOK ext tok = true) :
    dtCell ext (.str (Spec.stamp tok)) = .ok tok := by
  unfold dtOK at h
  split at h
  · cases h
  · rename_i c cs hs
    simp only [Bool.and_eq_true, Bool.not_eq_true', beq_iff_eq] at h
    obtain ⟨⟨hd, hm⟩, hp⟩ := h
    have hm' : ¬ C02.Spec.IsMarker (Spec.stamp tok) := by
      intro e; rw [(C02.isMissingMarker_iff _).2 e] at hm; cases hm
    rw [C02.type_datetime_text ext _ c cs hs hd hm', hp]

theorem units_pinned : uText = "text".toList ∧ uOnoff = "onoff".toList ∧ uDatetime = "datetime".toList :=
  ⟨rfl, rfl, rfl⟩

/-- a column of a well-formed table, laid out as cells by `json_data_to_table`, parses to itself; the fixer is
    not called -/
theorem parseColumn_wf (ext : Ext) (fi : Int → Str) (c : Column) (f : Fixer)
    (hk : Spec.kindOK c = true) (hdt : DtCol ext c) (hint : IntCol fi c) :
    parseColumn ext c.unit (c.values.map (Spec.cell fi)) f = .ok (Spec.observeCol fi c, f) := by
  unfold Spec.kindOK at hk
  unfold Spec.observeCol parseColumn
  rw [units_pinned.1, units_pinned.2.1, units_pinned.2.2]
  by_cases h1 : c.unit = "text".toList
  · rw [if_pos h1] at hk
    rw [if_pos h1, if_pos h1, List.map_map]
    congr 3
    apply List.map_congr_left
    intro v hv
    have := List.all_eq_true.1 hk v hv
    cases v with
    | text s =>
      have hs : s.getLast? ≠ some '\x00' := by simpa [Spec.isText] using this
      show rstripNul s = s
      exact C02.rstripNul_id s hs
    | _ => simp [Spec.isText] at this
  · rw [if_neg h1] at hk
    rw [if_neg h1, if_neg h1]
    by_cases h2 : c.unit = "onoff".toList
    · rw [if_pos h2] at hk
      rw [if_pos h2, if_pos h2]
      have : parseOnoff (c.values.map (Spec.cell fi)) f = (c.values.map Spec.boolOf, f) := by
        unfold parseOnoff
        apply parseWith_all_some
        intro v hv
        have := List.all_eq_true.1 hk v hv
        cases v <;> simp [Spec.isBool] at this <;> rfl
      rw [this]
    · rw [if_neg h2] at hk
      rw [if_neg h2, if_neg h2]
      by_cases h3 : c.unit = "datetime".toList
      · rw [if_pos h3] at hk
        rw [if_pos h3, if_pos h3]
        have hk1 : c.values.all Spec.isStamp = true := by
          simp only [Bool.and_eq_true] at hk; exact hk.1
        have : parseDatetime ext (c.values.map (Spec.cell fi)) f = .ok (c.values.map Spec.stampOf, f) := by
          apply parseDatetime_all_ok
          intro v hv
          have hs := List.all_eq_true.1 hk1 v hv
          have hok := hdt h3 v hv
          cases v with
          | dt t =>
            have hne : ¬ t = "NaT".toList := by simpa [Spec.isStamp] using hs
            show dtCell ext (if t = "NaT".toList then Cell.none else Cell.str (Spec.stamp t)) = _
            rw [if_neg hne]
            exact dtCell_stamp ext t hok
          | _ => simp [Spec.isStamp] at hs
        rw [this]; rfl
      · rw [if_neg h3] at hk
        rw [if_neg h3, if_neg h3]
        have : parseFloat ext (c.values.map (Spec.cell fi)) f = (c.values.map (Spec.numOf fi), f) := by
          unfold parseFloat
          apply parseWith_all_some
          intro v hv
          have := List.all_eq_true.1 hk v hv
          cases v with
          | num t =>
            show floatCell ext (if t = "nan".toList then Cell.none else Cell.float t) = _
            by_cases ht : t = "nan".toList
            · rw [if_pos ht, ht]; rfl
            · rw [if_neg ht]; rfl
          | int i =>
            have hi : fi i ≠ overflowTok := by simpa [intOK] using hint _ hv
            simp [Spec.cell, floatCell, Spec.numOf, hi]
          | _ => simp [Spec.isNumber] at this
        rw [this]


/-! ### the table json_data_to_table rebuilds -/

namespace Spec
/-- what is compared after the round trip: name, destinations, column order, units, values (numbers as float
    tokens: an integer `i` as `repr(float(i))`); a table without rows has no typed columns; the orientation flag
    is not part of JsonData -/
def observe (fi : Int → Str) (t : TableVal) : Precursor :=
  ⟨t.name, false, t.destinations, t.columns.map (·.name), t.columns.map (·.unit),
   if t.nRows = 0 then List.replicate t.columns.length .raw else t.columns.map (observeCol fi)⟩
end Spec

/-- **well-formed table** (DESIGN §3 clauses 1–5 as far as the JSON trip needs them): the name does not end in
    `*`; destinations: a non-empty list of pairwise distinct, non-empty, blank-free tokens; column names pairwise
    distinct, not blank, equal to their own `strip`; units equal to their own `strip` and matching the kind of
    their values (text not ending in NUL / onoff / datetime / anything else = numbers: floats, or integers below
    2^53 in magnitude);
    no missing datetime, one UTC offset per datetime column; all columns of one length -/
def WF (t : TableVal) : Prop :=
  t.name.getLast? ≠ some '*' ∧
  t.destinations ≠ [] ∧ t.destinations.Nodup ∧
  (∀ d ∈ t.destinations, d ≠ [] ∧ ∀ c ∈ d, isSpace c = false) ∧
  (t.columns.map (·.name)).Nodup ∧
  (∀ c ∈ t.columns, allSpace c.name = false ∧ strip c.name = c.name ∧ strip c.unit = c.unit ∧
    c.values.length = t.nRows ∧ Spec.kindOK c = true)

instance (t : TableVal) : Decidable (WF t) := by unfold WF; infer_instance

/-- the external laws the round trip rests on, for the values of this table: `to_datetime(str(ts)) = ts` for
    its timestamps (and `str(ts)` starts with a digit, is trimmed, is no marker), `float(i)` exists for its
    integers -/
def Codec (ext : Ext) (fi : Int → Str) (t : TableVal) : Prop :=
  ∀ c ∈ t.columns, DtCol ext c ∧ IntCol fi c

instance (ext : Ext) (fi : Int → Str) (t : TableVal) : Decidable (Codec ext fi t) := by
  unfold Codec DtCol IntCol; infer_instance

theorem parseColumns_nil_right (ext : Ext) (us : List Str) (f : Fixer) : parseColumns ext us [] f = .ok ([], f) := by
  cases us <;> rfl

theorem parseColumns_wf (ext : Ext) (fi : Int → Str) (cols : List Column) (f : Fixer)
    (h : ∀ c ∈ cols, Spec.kindOK c = true ∧ DtCol ext c ∧ IntCol fi c) :
    parseColumns ext (cols.map (·.unit)) (cols.map (fun c => c.values.map (Spec.cell fi))) f =
      .ok (cols.map (Spec.observeCol fi), f) := by
  induction cols with
  | nil => rfl
  | cons c cs ih =>
    have hc := h c (by simp)
    simp only [List.map_cons, parseColumns, parseColumn_wf ext fi c f hc.1 hc.2.1 hc.2.2,
      ih (fun d hd => h d (List.mem_cons_of_mem _ hd)), bind, Except.bind, pure, Except.pure]

theorem zipStar_row_length (cols : List (List Cell)) : ∀ r ∈ zipStar cols, r.length = cols.length := by
  cases cols with
  | nil => intro r hr; simp [zipStar] at hr
  | cons c cs =>
    intro r hr
    simp only [zipStar, List.mem_map] at hr
    obtain ⟨i, _, rfl⟩ := hr
    simp

theorem observeCol_length (fi : Int → Str) (c : Column) : (Spec.observeCol fi c).length = c.values.length := by
  unfold Spec.observeCol
  split
  · simp [ColVals.length]
  · split
    · simp [ColVals.length]
    · split <;> simp [ColVals.length]

theorem observeCol_dt (fi : Int → Str) (c : Column) (xs : List Str) (hk : Spec.kindOK c = true)
    (h : Spec.observeCol fi c = .dt xs) : dtHomogeneous xs = true := by
  unfold Spec.observeCol at h
  unfold Spec.kindOK at hk
  by_cases h1 : c.unit = "text".toList
  · rw [if_pos h1] at h; cases h
  · rw [if_neg h1] at h hk
    by_cases h2 : c.unit = "onoff".toList
    · rw [if_pos h2] at h; cases h
    · rw [if_neg h2] at h hk
      by_cases h3 : c.unit = "datetime".toList
      · rw [if_pos h3] at h hk
        simp only [Bool.and_eq_true] at hk
        cases h; exact hk.2
      · rw [if_neg h3] at h; cases h

theorem makeTable_of_precursor (ext : Ext) (cells : List Row) (f0 f : Fixer) (p : Precursor)
    (hp : makePrecursor ext cells f0 = .ok (p, f)) (m : Nat) (hlen : ∀ d ∈ p.columns, d.length = m)
    (hdt : ∀ xs, ColVals.dt xs ∈ p.columns → dtHomogeneous xs = true) :
    makeTable ext cells f0 = .ok (p, f) := by
  unfold makeTable
  simp only [hp, bind, Except.bind]
  cases hc : p.columns with
  | nil => rfl
  | cons c cs =>
    have h1 : cs.all (fun d => decide (d.length = c.length)) = true := by
      rw [List.all_eq_true]
      intro d hd
      have := hlen d (by rw [hc]; exact List.mem_cons_of_mem _ hd)
      have := hlen c (by rw [hc]; simp)
      simp [*]
    have h2 : (c :: cs).any ColVals.dtInhomogeneous = false := by
      rw [List.any_eq_false]
      intro d hd
      cases d with
      | dt xs => simp [ColVals.dtInhomogeneous, hdt xs (by rw [hc]; exact hd)]
      | _ => simp [ColVals.dtInhomogeneous]
    simp only [h1, h2, Bool.not_true, Bool.and_false, Bool.false_eq_true, if_false]
    rfl

theorem nRows_zero_zipStar (fi : Int → Str) (t : TableVal) (h0 : t.nRows = 0) :
    zipStar (t.columns.map (fun c => c.values.map (Spec.cell fi))) = [] := by
  unfold TableVal.nRows at h0
  cases hc : t.columns with
  | nil => rfl
  | cons c cs =>
    rw [hc] at h0
    simp only [List.map_cons, zipStar, List.length_map, h0]
    have : ∀ (l : List (List Cell)), l.foldl (fun m d => min m d.length) 0 = 0 := by
      intro l; induction l with
      | nil => rfl
      | cons d ds ih => simpa using ih
    rw [this]; rfl

/-- `make_table` on the grid `json_data_to_table` builds from the JsonData of a well-formed table -/
theorem makeTable_grid (ext : Ext) (fi : Int → Str) (t : TableVal) (hwf : WF t) (hco : Codec ext fi t) :
    makeTable ext (Spec.grid fi t) freshFixer = .ok (Spec.observe fi t, freshFixer) := by
  obtain ⟨hname, hdne, hdnd, hdtok, hnn, hcols⟩ := hwf
  -- layout
  have hnames : parseColumnNames (t.columns.map (fun c => Cell.str c.name)) = .ok (t.columns.map (·.name)) := by
    have := (C02.names_until_first_blank (t.columns.map (·.name)) .none [] (by
      intro s hs
      obtain ⟨c, hc, rfl⟩ := List.mem_map.1 hs
      exact (hcols c hc).1) rfl).2
    rw [List.map_map] at this
    rw [show (t.columns.map (fun c => Cell.str c.name)) = t.columns.map (Cell.str ∘ fun c => c.name) from rfl, this,
      List.map_map]
    congr 1
    apply List.map_congr_left
    intro c hc
    exact (hcols c hc).2.1
  have hlay : layout (Spec.grid fi t) = .ok ⟨t.name, false, t.destinations, t.columns.map (·.name),
      t.columns.map (·.unit), zipStar (t.columns.map (fun c => c.values.map (Spec.cell fi)))⟩ := by
    show layout ((Cell.str ("**".toList ++ t.name) :: []) :: (Cell.str (joinWith ' ' t.destinations) :: []) ::
      t.columns.map (fun c => Cell.str c.name) :: t.columns.map (fun c => Cell.str c.unit) ::
      zipStar (t.columns.map (fun c => c.values.map (Spec.cell fi)))) = _
    rw [C02.layout_rowwise _ _ _ _ _ _ _ (by exact hname), hnames]
    have htake : (t.columns.map (fun c => Cell.str c.unit)).take (t.columns.map (·.name)).length =
        t.columns.map (fun c => Cell.str c.unit) := by
      apply List.take_of_length_le; simp
    have hall : (t.columns.map (fun c => Cell.str c.unit)).all Cell.isStr = true := by
      simp [Cell.isStr]
    have hunits : (t.columns.map (fun c => Cell.str c.unit)).map stripOfStr = t.columns.map (·.unit) := by
      rw [List.map_map]
      apply List.map_congr_left
      intro c hc
      exact (hcols c hc).2.2.1
    have hrows : (zipStar (t.columns.map (fun c => c.values.map (Spec.cell fi)))).map
        (fun l => l.take (t.columns.map (·.name)).length) =
        zipStar (t.columns.map (fun c => c.values.map (Spec.cell fi))) := by
      conv => rhs; rw [← List.map_id (zipStar _)]
      apply List.map_congr_left
      intro r hr
      have := zipStar_row_length _ r hr
      simp only [id]
      apply List.take_of_length_le
      simp [this]
    have hlen : ¬ (t.columns.map (fun c => Cell.str c.unit)).length < (t.columns.map (·.name)).length := by simp
    simp only [hlen, if_false, htake, hall, if_true, hunits, hrows]
    rw [destinations_join t.destinations hdne hdnd hdtok]
    rfl
  -- finish
  have hfin : makePrecursor ext (Spec.grid fi t) freshFixer = .ok (Spec.observe fi t, freshFixer) := by
    unfold makePrecursor
    simp only [hlay, bind, Except.bind]
    unfold finish
    simp only [fixDuplicates_nodup _ freshFixer hnn]
    rw [fixShortRows_full _ _ freshFixer (by
      intro r hr
      have := zipStar_row_length _ r hr
      simp at this
      simp [this])]
    simp only []
    by_cases h0 : t.nRows = 0
    · rw [nRows_zero_zipStar fi t h0]
      simp only [List.isEmpty_nil, if_true, parseColumns_nil_right, bind, Except.bind]
      simp [Spec.observe, h0, freshFixer, Fixer.fixes, pure, Except.pure]
    · have hne : t.columns ≠ [] := by
        intro e; apply h0; simp [TableVal.nRows, e]
      have hrect : ∀ c ∈ t.columns.map (fun c => c.values.map (Spec.cell fi)), c.length = t.nRows := by
        intro x hx
        obtain ⟨c, hc, rfl⟩ := List.mem_map.1 hx
        simpa using (hcols c hc).2.2.2.1
      have hne' : t.columns.map (fun c => c.values.map (Spec.cell fi)) ≠ [] := by simpa using hne
      have hnotempty : (zipStar (t.columns.map (fun c => c.values.map (Spec.cell fi)))).isEmpty = false := by
        rw [zipStar_rect _ t.nRows hne' hrect]
        cases hn : t.nRows with
        | zero => exact absurd hn h0
        | succ k => simp [List.range_succ_eq_map]
      have htr := transposeN_zipStar _ t.nRows hne' hrect
      simp only [List.length_map] at htr
      simp only [hnotempty, Bool.false_eq_true, if_false, List.length_map, htr]
      rw [parseColumns_wf ext fi t.columns freshFixer (fun c hc => ⟨(hcols c hc).2.2.2.2, hco c hc⟩)]
      simp [Spec.observe, h0, freshFixer, Fixer.fixes, pure, Except.pure, bind, Except.bind]
  -- the DataFrame checks
  apply makeTable_of_precursor ext _ _ _ _ hfin t.nRows
  · intro d hd
    by_cases h0 : t.nRows = 0
    · simp only [Spec.observe, h0, if_true] at hd
      rw [List.eq_of_mem_replicate hd, h0]; rfl
    · simp only [Spec.observe, h0, if_false] at hd
      obtain ⟨c, hc, rfl⟩ := List.mem_map.1 hd
      rw [observeCol_length]; exact (hcols c hc).2.2.2.1
  · intro xs hxs
    by_cases h0 : t.nRows = 0
    · simp only [Spec.observe, h0, if_true] at hxs
      have := List.eq_of_mem_replicate hxs
      cases this
    · simp only [Spec.observe, h0, if_false] at hxs
      obtain ⟨c, hc, he⟩ := List.mem_map.1 hxs
      exact observeCol_dt fi c xs (hcols c hc).2.2.2.2 he

/-- **json_roundtrip**: for every well-formed table without missing datetimes, `json_data_to_table` applied to
    `table_to_json_data t` rebuilds the table: same name, destinations, column order, units and values; a missing
    number travels as `null`, comes back as an empty cell and is a missing number again.  (The JSON text trip
    in between is CPython's `json` module: the identity on NaN-free plain data, trusted base.) -/
theorem json_roundtrip (ext : Ext) (fi : Int → Str) (t : TableVal) (hwf : WF t) (hco : Codec ext fi t) :
    ∃ j, ofTable t = .ok j ∧ j = Spec.tableJson t ∧ toTable ext fi j = .ok (Spec.observe fi t) := by
  refine ⟨_, ofTable_eq t hwf.2.2.1 hwf.2.2.2.2.1, rfl, ?_⟩
  unfold toTable
  simp only [toGrid_tableJson, makeTable_grid ext fi t hwf hco, bind, Except.bind, pure, Except.pure]

/-! ### non-vacuity -/

def exampleExt : Ext :=
  ⟨fun _ => none,
   fun s => if s = "2020-01-02 03:04:05.000006".toList then .ok "2020-01-02T03:04:05.000006".toList else .valueError,
   fun c => '0' ≤ c && c ≤ '9'⟩

def exampleFi (i : Int) : Str := intToStr i ++ ".0".toList

/-- five columns, one of each kind (float and int numbers), a missing number, unicode, blanks inside a name -/
def exampleTable : TableVal :=
  ⟨"t é;".toList, ["a".toList, "b*".toList], true,
   [⟨"x y".toList, "text".toList, [.text "é ".toList, .text []]⟩,
    ⟨"n".toList, "m/s".toList, [.num "1.5".toList, .num "nan".toList]⟩,
    ⟨"i".toList, "-".toList, [.int 3, .int (-1)]⟩,
    ⟨"o".toList, "onoff".toList, [.bool true, .bool false]⟩,
    ⟨"d".toList, "datetime".toList, [.dt "2020-01-02T03:04:05.000006".toList, .dt "2020-01-02T03:04:05.000006".toList]⟩]⟩

example : WF exampleTable := by decide
example : exampleTable.destinations.Nodup ∧ (exampleTable.columns.map (·.name)).Nodup := by decide

/-- `json_pure` is not vacuous: a dict holding a float64 array with a NaN converts, the NaN becomes `null` -/
example : toJsonSerializable (.dict [("a".toList, .f64arr ["nan".toList, "1.5".toList])]) =
    .ok (.obj [("a".toList, .arr [.null, .num "1.5".toList])]) := rfl

/-- …and the failures are the modelled ones -/
example : toJsonSerializable (.list [.float "1.0".toList, .other]) = .error notImplemented ∧
    toJsonSerializable (.list [.npscalar .other, .float "1.0".toList]) = .error notImplemented := ⟨rfl, rfl⟩

/-- a numpy scalar (an element of a pandas nullable column) converts as its Python value; a NaN inside becomes null -/
example : toJsonSerializable (.list [.npscalar (.int 3), .npscalar (.float "nan".toList), .na, .npscalar (.bool true)]) =
    .ok (.arr [.int 3, .null, .null, .bool true]) := rfl
example : Codec exampleExt exampleFi exampleTable := by decide

/-- the model really computes the round trip on the example (not only by the theorem) -/
example :
    (match toTable exampleExt exampleFi (Spec.tableJson exampleTable) with
     | .ok p => some (p.name, p.transposed, p.destinations)
     | .error _ => none) = some ("t é;".toList, false, ["a".toList, "b*".toList]) := by decide

example :
    (match toTable exampleExt exampleFi (Spec.tableJson exampleTable) with
     | .ok p => some (p.names, p.units)
     | .error _ => none) =
    some (["x y".toList, "n".toList, "i".toList, "o".toList, "d".toList],
      ["text".toList, "m/s".toList, "-".toList, "onoff".toList, "datetime".toList]) := by decide

example :
    (match toTable exampleExt exampleFi (Spec.tableJson exampleTable) with
     | .ok p => some p.columns
     | .error _ => none) =
    some [.text ["é ".toList, []], .num ["1.5".toList, "nan".toList], .num ["3.0".toList, "-1.0".toList],
       .onoff [true, false], .dt ["2020-01-02T03:04:05.000006".toList, "2020-01-02T03:04:05.000006".toList]] := by
  decide

/-- **why integers must stay below 2^53**: 2^53 + 1 is not a float64.  `bigTable` violates `WF` in that clause
    only (with 2^53 − 1 in its place it is well formed), and with CPython's `repr(float(2**53 + 1))` the model
    hands back the float of a *different* integer, 2^53 -/
def bigTable (i : Int) : TableVal := ⟨"t".toList, ["a".toList], false, [⟨"n".toList, "-".toList, [.int i]⟩]⟩

def cpythonFi (i : Int) : Str :=
  if i = 9007199254740993 then "9007199254740992.0".toList else intToStr i ++ ".0".toList

example : ¬ WF (bigTable 9007199254740993) ∧ WF (bigTable 9007199254740991) ∧
    Codec exampleExt cpythonFi (bigTable 9007199254740993) := by decide

example :
    (match toTable exampleExt cpythonFi (Spec.tableJson (bigTable 9007199254740993)) with
     | .ok p => some p.columns
     | .error _ => none) = some [.num ["9007199254740992.0".toList]] := by decide

/-- **why missing datetimes are excluded**: a NaT travels as `null`, reaches `_parse_datetime_column` as an
    empty cell, the strict fixer counts it and `json_data_to_table` raises ValueError -/
def natTable : TableVal :=
  ⟨"t".toList, ["a".toList], false, [⟨"d".toList, "datetime".toList, [.dt "NaT".toList]⟩]⟩

theorem nat_not_roundtrip :
    (match toTable exampleExt exampleFi (Spec.tableJson natTable) with
     | .ok _ => none
     | .error e => some e) = some PyExc.valueError := by decide

/-- and `natTable` violates `WF` only in that clause -/
example : ¬ WF natTable := by decide

/-! ## 7. the JSON text trip: `json.loads(json.dumps(j, allow_nan=False)) = j`, and the round trip through text

  `dumps` / `loads` are the model of CPython's encoder / decoder on the JsonData domain (Model/JsonText.lean,
  compared with the real `json` module character by character / value by value on every generated JsonData and
  on a stream of malformed texts).  `JWF` (Lemmas/JsonText.lean) says what the inverse needs: dict keys pairwise
  distinct; an integer prints as a JSON integer numeral that `int()` reads back; a float leaf is finite — its
  `repr` token is a JSON number and `repr(float(token))` is the token again (the codec law, external).  Strings
  need nothing: a Lean `Char` is a Unicode scalar value, so `Str` cannot hold a lone surrogate — Python strings
  with lone surrogates are outside the model. -/

open Pdt.JsonText

/-- **loads_dumps**: decoding the encoded text of a well-formed value gives the value back -/
theorem loads_dumps (cd : NumCodec) (v : JVal) (h : JWF cd v = true) : loads cd (dumps v) = some v := by
  have hs := dumps_start cd v h
  have hsk : skipWs (dumps v) = dumps v := by
    have := skipWs_start (dumps v) [] hs; simpa using this
  have hp := parseV_dumps cd v h ((dumps v).length + 1) [] (by omega) (by intro c hc; simp at hc)
  simp only [List.append_nil] at hp
  unfold loads
  rw [hsk, hp]
  simp [skipWs]

theorem JWFList_map {α} (cd : NumCodec) (f : α → JVal) (l : List α) :
    JWFList cd (l.map f) = l.all (fun x => JWF cd (f x)) := by
  induction l with
  | nil => rfl
  | cons x xs ih => simp [JWFList, ih]

theorem JWFKvs_map {α} (cd : NumCodec) (f : α → Str × JVal) (l : List α) :
    JWFKvs cd (l.map f) = l.all (fun x => JWF cd (f x).2) := by
  induction l with
  | nil => rfl
  | cons x xs ih =>
    cases hf : f x with
    | mk k v => simp [JWFKvs, ih, hf]

/-- the numbers of a table as JSON numerals: every number is finite and satisfies the codec laws -/
def NumText (cd : NumCodec) (t : TableVal) : Prop :=
  ∀ c ∈ t.columns, ∀ v ∈ c.values, JWF cd (Spec.leaf v) = true

instance (cd : NumCodec) (t : TableVal) : Decidable (NumText cd t) := by unfold NumText; infer_instance

/-- the JsonData of a well-formed table is a well-formed JSON value -/
theorem JWF_tableJson (cd : NumCodec) (t : TableVal) (hd : t.destinations.Nodup)
    (hn : (t.columns.map (·.name)).Nodup) (hnum : NumText cd t) : JWF cd (Spec.tableJson t) = true := by
  have hdest : JWFKvs cd (t.destinations.map (fun d => (d, JVal.null))) = true := by
    rw [JWFKvs_map]; simp [JWF]
  have hcols : JWFKvs cd (t.columns.map Spec.colJson) = true := by
    rw [JWFKvs_map, List.all_eq_true]
    intro c hc
    have hl : JWFList cd (c.values.map Spec.leaf) = true := by
      rw [JWFList_map, List.all_eq_true]; exact fun v hv => hnum c hc v hv
    have hk : (["unit".toList, "values".toList] : List Str).Nodup := by decide
    simp [Spec.colJson, JWF, JWFKvs, hl, hk]
  have hk3 : (["name".toList, "destinations".toList, "columns".toList] : List Str).Nodup := by decide
  have hdk : ((t.destinations.map (fun d => (d, JVal.null))).map (·.1)).Nodup := by
    simpa [List.map_map, Function.comp_def] using hd
  have hck : ((t.columns.map Spec.colJson).map (·.1)).Nodup := by
    simpa [List.map_map, Function.comp_def, Spec.colJson] using hn
  simp [Spec.tableJson, JWF, JWFKvs, hdest, hcols, hk3]
  exact ⟨by rw [← List.map_map]; exact hdk, by rw [← List.map_map]; exact hck⟩

/-- a JSON number is never an infinity: a table whose numbers are JSON numerals passes the strict encoder -/
theorem numText_strict (cd : NumCodec) (t : TableVal) (hnum : NumText cd t) :
    dumpsStrictOk (Spec.tableJson t) = true := by
  rw [strict_dumps_iff]
  simp only [Bool.not_eq_true', List.any_eq_false, Bool.not_eq_true]
  intro c hc v hv
  have := hnum c hc v hv
  cases v with
  | num tok =>
    simp only [Spec.isInfinite, Bool.or_eq_false_iff, decide_eq_false_iff_not]
    have notNum : ∀ s : Str, s ≠ "nan".toList → numTok s = false → JWF cd (Spec.leaf (.num s)) = false := by
      intro s hs hn
      show JWF cd (if s = "nan".toList then JVal.null else JVal.num s) = false
      rw [if_neg hs]
      simp only [JWF, hn, Bool.false_and]
    constructor
    · intro e; subst e; rw [notNum _ (by decide) (by decide)] at this; cases this
    · intro e; subst e; rw [notNum _ (by decide) (by decide)] at this; cases this
  | _ => rfl

/-- **json_roundtrip_through_text**: for every well-formed table without missing datetimes whose numbers are
    finite (and satisfy the codec laws), `table_to_json_data` gives a JsonData that the strict encoder accepts,
    `json.loads` of the encoded text is that JsonData again, and `json_data_to_table` of it rebuilds the table -/
theorem json_roundtrip_through_text (ext : Ext) (fi : Int → Str) (cd : NumCodec) (t : TableVal)
    (hwf : WF t) (hco : Codec ext fi t) (hnum : NumText cd t) :
    ∃ j j', ofTable t = .ok j ∧ dumpsStrictOk j = true ∧ loads cd (dumps j) = some j' ∧
      toTable ext fi j' = .ok (Spec.observe fi t) := by
  obtain ⟨j, h1, h2, h3⟩ := json_roundtrip ext fi t hwf hco
  refine ⟨j, j, h1, ?_, ?_, h3⟩
  · rw [h2]; exact numText_strict cd t hnum
  · rw [h2]; exact loads_dumps cd _ (JWF_tableJson cd t hwf.2.2.1 hwf.2.2.2.2.1 hnum)

/-! ### non-vacuity of the text trip -/

/-- `int()` / `repr(float())` for the numerals of the examples -/
def exampleCd : NumCodec :=
  ⟨fun s => if s = "-7".toList then -7 else if s = "3".toList then 3 else if s = "-1".toList then -1 else 0,
   fun s => s⟩

/-- nested dict / list, an astral character (U+1F600), a control character (U+0001), a tab, an escaped quote and
    backslash, a non-ASCII BMP character, numbers -/
def exampleJson : JVal :=
  .obj [("k\"é".toList, .arr [.null, .bool true, .int (-7), .num "1.5e-07".toList, .str ['a', '\x01', '\t', '"', '\\', '😀', 'é']]),
        ([], .obj [("x".toList, .arr []), ("y".toList, .obj [])])]

example : JWF exampleCd exampleJson = true := by decide

example : dumps exampleJson =
    "{\"k\\\"\\u00e9\": [null, true, -7, 1.5e-07, \"a\\u0001\\t\\\"\\\\\\ud83d\\ude00\\u00e9\"], \"\": {\"x\": [], \"y\": {}}}".toList := by
  decide

example : (loads exampleCd (dumps exampleJson)).map dumps = some (dumps exampleJson) := by decide

/-- other legal spellings decode to the same value: no blanks, upper-case hex digits, an escaped solidus -/
example : (loads exampleCd "{ \"a\\/\\u00E9\":[ 3 ,\n-1 ] }".toList).map dumps =
    some "{\"a/\\u00e9\": [3, -1]}".toList := by decide

/-- malformed texts are rejected: leading zero, lone surrogate escape, raw control character, trailing comma,
    the NaN literal -/
example : loads exampleCd "01".toList = none ∧ loads exampleCd "\"\\ud800\"".toList = none ∧
    loads exampleCd ['"', '\x01', '"'] = none ∧ loads exampleCd "[3,]".toList = none ∧
    loads exampleCd "NaN".toList = none := by decide

/-- the text trip of the example table of `json_roundtrip` -/
example : NumText exampleCd exampleTable := by decide

end Pdt.C08
