/-
  Props/C05.lean — "Pandas operations carry table metadata along and never alias it".
-/
import PdtModel.Model.Combine
import PdtModel.Gen.Consts
set_option linter.unusedSimpArgs false
set_option linter.unusedVariables false
namespace Pdt.C05
open Pdt Pdt.Combine

/-! ## Tie to the source: the translated constants the model is defined over -/

theorem safe_methods_pinned :
    Gen.safeMethods = ["append".toList, "astype".toList, "copy".toList, "fillna".toList, "groupby".toList,
      "melt".toList, "reindex".toList, "rename".toList, "replace".toList, "sort_index".toList, "take".toList,
      "transpose".toList, "unstack".toList] := by decide

theorem unit_from_dtype_kind_pinned :
    Gen.unitFromDtypeKind = [('b', "onoff".toList), ('i', "-".toList), ('u', "-".toList), ('f', "-".toList),
      ('M', "-".toList), ('O', "text".toList), ('S', "text".toList), ('U', "text".toList)] := by decide

theorem units_special_pinned : Gen.unitsSpecial = ["onoff".toList, "text".toList] := by decide

/-! ## Stores: allocation gives a fresh identity, old objects are untouched -/

namespace Store
variable {α : Type}

@[simp] theorem alloc_ref (s : Store α) (a : α) : (s.alloc a).2 = s.next := rfl
@[simp] theorem alloc_next (s : Store α) (a : α) : (s.alloc a).1.next = s.next + 1 := rfl
@[simp] theorem alloc_get (s : Store α) (a : α) (r : Nat) :
    (s.alloc a).1.get r = if r = s.next then some a else s.get r := rfl
@[simp] theorem write_next (s : Store α) (r : Nat) (a : α) : (s.write r a).next = s.next := rfl
@[simp] theorem write_get (s : Store α) (r : Nat) (a : α) (x : Nat) :
    (s.write r a).get x = if x = r then some a else s.get x := rfl

/-- `s'` extends `s`: every object of `s` is still there, unchanged -/
def Ext (s s' : Store α) : Prop := s.next ≤ s'.next ∧ ∀ r, r < s.next → s'.get r = s.get r

theorem Ext.refl (s : Store α) : Ext s s := ⟨Nat.le_refl _, fun _ _ => rfl⟩
theorem Ext.trans {a b c : Store α} (h1 : Ext a b) (h2 : Ext b c) : Ext a c :=
  ⟨Nat.le_trans h1.1 h2.1, fun r hr => by rw [h2.2 r (Nat.lt_of_lt_of_le hr h1.1), h1.2 r hr]⟩
theorem Ext.alloc (s : Store α) (a : α) : Ext s (s.alloc a).1 :=
  ⟨by simp, fun r hr => by simp [Nat.ne_of_lt hr]⟩
theorem Ext.of_eq {s s' : Store α} (h : s' = s) : Ext s s' := h ▸ Ext.refl s
/-- writing to an object that did not exist in `s` keeps the extension -/
theorem Ext.write {s s' : Store α} (h : Ext s s') (r : Nat) (a : α) (hr : s.next ≤ r) : Ext s (s'.write r a) :=
  ⟨by simpa using h.1, fun x hx => by
    have : x ≠ r := by omega
    simp [this, h.2 x hx]⟩
end Store


/-! ## Association lists -/

theorem assoc_append {β} (xs ys : List (Label × β)) (l : Label) :
    assoc (xs ++ ys) l = match assoc xs l with | some v => some v | none => assoc ys l := by
  induction xs with
  | nil => simp [assoc]
  | cons kv rest ih =>
    obtain ⟨k, v⟩ := kv
    by_cases hk : k = l <;> simp [assoc, hk, ih]

theorem assoc_mem {β} {xs : List (Label × β)} {l : Label} {v : β} (h : assoc xs l = some v) : (l, v) ∈ xs := by
  induction xs with
  | nil => simp [assoc] at h
  | cons kv rest ih =>
    obtain ⟨k, w⟩ := kv
    by_cases hk : k = l
    · simp [assoc, hk] at h; subst h; subst hk; exact List.mem_cons_self
    · simp [assoc, hk] at h; exact List.mem_cons_of_mem _ (ih h)

theorem assoc_none_iff {β} (xs : List (Label × β)) (l : Label) : assoc xs l = none ↔ ∀ v, (l, v) ∉ xs := by
  induction xs with
  | nil => simp [assoc]
  | cons kv rest ih =>
    obtain ⟨k, w⟩ := kv
    by_cases hk : k = l
    · subst hk; simp [assoc]; exact ⟨w, fun hne => absurd rfl hne⟩
    · have hk' : ¬ l = k := fun e => hk e.symm
      simp [assoc, hk, hk', ih]

/-! ## What one `update_from` / `copy()` does to the store -/

/-- `h'` differs from `h` only in the column object `a` (now with unit `u`, format kept or a new
    object) and in at most one newly allocated format -/
structure ColStep (h h' : Heap) (a : Nat) (u : Str) (oldFmt : Option Ref) : Prop where
  tmetas : h'.tmetas = h.tmetas
  dsets : h'.dsets = h.dsets
  infos : h'.infos = h.infos
  dicts : h'.dicts = h.dicts
  cols_next : h'.cols.next = h.cols.next
  cols_other : ∀ (x : Nat), x ≠ a → h'.cols.get x = h.cols.get x
  cols_a : ∃ cm, h'.cols.get a = some cm ∧ cm.unit = u ∧
    (cm.dispFmt = oldFmt ∨ (cm.dispFmt = some h.fmts.next ∧ h'.fmts.next = h.fmts.next + 1))
  fmts : Store.Ext h.fmts h'.fmts
  fmts_le : h'.fmts.next ≤ h.fmts.next + 1
  fmts_new : ∀ (f : Nat), h.fmts.next ≤ f → f < h'.fmts.next → (h'.fmts.get f).isSome

theorem copyFmt_ok {h : Heap} {f : Nat} {h' : Heap} {r : Nat} (hc : copyFmt h f = .ok (h', r)) :
    r = h.fmts.next ∧ ∃ s, h.fmts.get f = some s ∧ h' = { h with fmts := (h.fmts.alloc s).1 } := by
  unfold copyFmt at hc
  cases hf : h.fmts.get f with
  | none => simp [hf] at hc
  | some s =>
    simp [hf] at hc
    exact ⟨hc.2.symm, s, rfl, hc.1.symm⟩

theorem updateFrom_ok {h : Heap} {a : Nat} {b : ColMeta} {h' : Heap} (hu : updateFrom h a b = .ok h') :
    ∃ s, h.cols.get a = some s ∧ ColStep h h' a b.unit s.dispFmt := by
  unfold updateFrom at hu
  cases hs : h.cols.get a with
  | none => simp [hs] at hu
  | some s =>
    refine ⟨s, rfl, ?_⟩
    simp only [hs] at hu
    split at hu
    · -- own format absent, other's present: the format is copied
      rename_i f hsf hbf
      cases hcf : copyFmt h f with
      | error e => simp [hcf] at hu
      | ok p =>
        obtain ⟨h1, f'⟩ := p
        simp [hcf] at hu
        obtain ⟨hf', sp, hsp, hh1⟩ := copyFmt_ok hcf
        subst hu; subst hh1; subst hf'
        exact {
          tmetas := rfl, dsets := rfl, infos := rfl, dicts := rfl, cols_next := rfl
          cols_other := fun x hx => by simp [hx]
          cols_a := ⟨⟨b.unit, if truthy s.dispUnit then s.dispUnit else b.dispUnit, some h.fmts.next⟩,
                     by simp, rfl, Or.inr ⟨rfl, rfl⟩⟩
          fmts := Store.Ext.alloc _ _
          fmts_le := by simp
          fmts_new := fun f hf1 hf2 => by
            have : f = h.fmts.next := by simp at hf2; omega
            simp [this] }
    · simp at hu
      subst hu
      exact {
        tmetas := rfl, dsets := rfl, infos := rfl, dicts := rfl, cols_next := rfl
        cols_other := fun x hx => by simp [hx]
        cols_a := ⟨⟨b.unit, if truthy s.dispUnit then s.dispUnit else b.dispUnit, s.dispFmt⟩,
                   by simp, rfl, Or.inl rfl⟩
        fmts := Store.Ext.refl _
        fmts_le := by simp
        fmts_new := fun f hf1 hf2 => by simp at hf2; omega }

/-- `c.copy()` allocates the column `h.cols.next`; nothing that existed changes -/
theorem copyCol_ok {h : Heap} {c : ColMeta} {h' : Heap} {r : Nat} (hc : copyCol h c = .ok (h', r)) :
    r = h.cols.next ∧ h'.cols.next = h.cols.next + 1 ∧
    h'.tmetas = h.tmetas ∧ h'.dsets = h.dsets ∧ h'.infos = h.infos ∧ h'.dicts = h.dicts ∧
    (∀ (x : Nat), x ≠ r → h'.cols.get x = h.cols.get x) ∧
    (∃ cm, h'.cols.get r = some cm ∧ cm.unit = c.unit ∧
      (cm.dispFmt = none ∨ (cm.dispFmt = some h.fmts.next ∧ h'.fmts.next = h.fmts.next + 1))) ∧
    Store.Ext h.fmts h'.fmts ∧ h'.fmts.next ≤ h.fmts.next + 1 ∧
    (∀ (f : Nat), h.fmts.next ≤ f → f < h'.fmts.next → (h'.fmts.get f).isSome) := by
  unfold copyCol at hc
  simp only at hc
  split at hc
  · simp at hc
  · rename_i h2 hu
    simp at hc
    obtain ⟨rfl, rfl⟩ := hc
    obtain ⟨s, hs, st⟩ := updateFrom_ok hu
    have hs' : s = ⟨c.unit, none, none⟩ := by simpa using hs.symm
    subst hs'
    refine ⟨rfl, ?_, st.tmetas, st.dsets, st.infos, st.dicts, ?_, ?_, st.fmts, st.fmts_le, st.fmts_new⟩
    · simpa using st.cols_next
    · intro x hx
      have := st.cols_other x hx
      simpa [hx] using this
    · simpa using st.cols_a


/-! ## The loop of `_combine_tables` -/

/-- labels and identities in the accumulated dict are pairwise different -/
def Distinct (acc : Acc) : Prop := acc.Pairwise (fun x y => x.1 ≠ y.1 ∧ x.2 ≠ y.2)

theorem Distinct.same_label {acc : Acc} (hp : Distinct acc) {l : Label} {r1 r2 : Nat}
    (h1 : (l, r1) ∈ acc) (h2 : (l, r2) ∈ acc) : r1 = r2 := by
  induction acc with
  | nil => simp at h1
  | cons x xs ih =>
    obtain ⟨hx, hxs⟩ := List.pairwise_cons.1 hp
    rcases List.mem_cons.1 h1 with e1 | m1 <;> rcases List.mem_cons.1 h2 with e2 | m2
    · rw [← e1] at e2; exact (Prod.mk.inj e2).2.symm
    · exact absurd (by rw [← e1]) (hx _ m2).1
    · exact absurd (by rw [← e2]) (hx _ m1).1
    · exact ih hxs m1 m2

theorem Distinct.same_ref {acc : Acc} (hp : Distinct acc) {l1 l2 : Label} {r : Nat}
    (h1 : (l1, r) ∈ acc) (h2 : (l2, r) ∈ acc) : l1 = l2 := by
  induction acc with
  | nil => simp at h1
  | cons x xs ih =>
    obtain ⟨hx, hxs⟩ := List.pairwise_cons.1 hp
    rcases List.mem_cons.1 h1 with e1 | m1 <;> rcases List.mem_cons.1 h2 with e2 | m2
    · rw [← e1] at e2; exact (Prod.mk.inj e2).1.symm
    · exact absurd (by rw [← e1]) (hx _ m2).2
    · exact absurd (by rw [← e2]) (hx _ m1).2
    · exact ih hxs m1 m2

/-- invariant of the column loop, relative to the heap `b` it started from; `done` = the
    (label, source column) pairs processed so far -/
structure LoopInv (out : List Label) (b h : Heap) (acc : Acc) (done : List (Label × ColMeta)) : Prop where
  tmetas : h.tmetas = b.tmetas
  dsets : h.dsets = b.dsets
  infos : h.infos = b.infos
  dicts : h.dicts = b.dicts
  cols : Store.Ext b.cols h.cols
  fmts : Store.Ext b.fmts h.fmts
  fresh : ∀ l (r : Nat), (l, r) ∈ acc → b.cols.next ≤ r ∧ r < h.cols.next ∧
    ∃ cm, h.cols.get r = some cm ∧
      ∀ (f : Nat), cm.dispFmt = some f → b.fmts.next ≤ f ∧ f < h.fmts.next ∧ (h.fmts.get f).isSome
  distinct : Distinct acc
  keys : ∀ l, (∃ (r : Nat), (l, r) ∈ acc) ↔ (l ∈ out ∧ ∃ c, (l, c) ∈ done)
  units : ∀ l (r : Nat) c, (l, r) ∈ acc → (l, c) ∈ done → ∃ cm, h.cols.get r = some cm ∧ cm.unit = c.unit

theorem LoopInv.init (out : List Label) (b : Heap) : LoopInv out b b [] [] where
  tmetas := rfl
  dsets := rfl
  infos := rfl
  dicts := rfl
  cols := Store.Ext.refl _
  fmts := Store.Ext.refl _
  fresh := by intro l r h; simp at h
  distinct := List.Pairwise.nil
  keys := by intro l; simp
  units := by intro l r c h; simp at h

theorem combineStep_inv {out : List Label} {b h : Heap} {acc : Acc} {done : List (Label × ColMeta)}
    {it : Label × ColMeta} {h' : Heap} {acc' : Acc}
    (hs : combineStep out (h, acc) it = .ok (h', acc')) (inv : LoopInv out b h acc done) :
    LoopInv out b h' acc' (done ++ [it]) := by
  obtain ⟨l0, c0⟩ := it
  unfold combineStep at hs
  simp only at hs
  by_cases hin : l0 ∈ out
  · simp only [hin, if_true] at hs
    cases has : assoc acc l0 with
    | none =>
      -- first occurrence: copied
      simp only [has] at hs
      cases hcc : copyCol h c0 with
      | error e => simp [hcc] at hs
      | ok p =>
        obtain ⟨h1, r⟩ := p
        simp [hcc] at hs
        obtain ⟨rfl, rfl⟩ := hs
        obtain ⟨hr, hnext, e1, e2, e3, e4, hother, ⟨cm, hcm, hunit, hfmt⟩, hfe, hfle, hfnew⟩ := copyCol_ok hcc
        have hnone := (assoc_none_iff acc l0).1 has
        have hrb : b.cols.next ≤ r := by rw [hr]; exact inv.cols.1
        exact {
          tmetas := by rw [e1, inv.tmetas]
          dsets := by rw [e2, inv.dsets]
          infos := by rw [e3, inv.infos]
          dicts := by rw [e4, inv.dicts]
          cols := ⟨by have := inv.cols.1; omega, fun x hx => by
            have : x ≠ r := by omega
            rw [hother x this, inv.cols.2 x hx]⟩
          fmts := Store.Ext.trans inv.fmts hfe
          fresh := by
            intro l r' hm
            rcases List.mem_append.1 hm with hm | hm
            · obtain ⟨h1', h2', cm', hcm', hf'⟩ := inv.fresh l r' hm
              have hne : r' ≠ r := by omega
              refine ⟨h1', by omega, cm', by rw [hother r' hne, hcm'], ?_⟩
              intro f hf
              obtain ⟨a1, a2, a3⟩ := hf' f hf
              refine ⟨a1, Nat.lt_of_lt_of_le a2 hfe.1, ?_⟩
              rw [hfe.2 f a2]; exact a3
            · simp at hm
              obtain ⟨rfl, rfl⟩ := hm
              refine ⟨hrb, by omega, cm, hcm, ?_⟩
              intro f hf
              rcases hfmt with hnn | ⟨hsome, hn1⟩
              · rw [hnn] at hf; cases hf
              · rw [hsome] at hf
                have : f = h.fmts.next := (Option.some.inj hf).symm
                subst this
                exact ⟨inv.fmts.1, by omega, hfnew _ (Nat.le_refl _) (by omega)⟩
          distinct := by
            unfold Distinct
            rw [List.pairwise_append]
            refine ⟨inv.distinct, List.pairwise_singleton _ _, ?_⟩
            intro x hx y hy
            simp at hy
            subst hy
            obtain ⟨xl, xr⟩ := x
            constructor
            · intro e; simp at e; subst e; exact hnone xr hx
            · have := (inv.fresh xl xr hx).2.1
              show @Ne Nat xr r
              omega
          keys := by
            intro l
            constructor
            · rintro ⟨r', hm⟩
              rcases List.mem_append.1 hm with hm | hm
              · obtain ⟨ho, c, hc⟩ := (inv.keys l).1 ⟨r', hm⟩
                exact ⟨ho, c, List.mem_append_left _ hc⟩
              · simp at hm
                exact ⟨hm.1 ▸ hin, c0, by simp [hm.1]⟩
            · rintro ⟨ho, c, hc⟩
              rcases List.mem_append.1 hc with hc | hc
              · obtain ⟨r', hr'⟩ := (inv.keys l).2 ⟨ho, c, hc⟩
                exact ⟨r', List.mem_append_left _ hr'⟩
              · simp at hc
                exact ⟨r, by simp [hc.1]⟩
          units := by
            intro l r' c hm hc
            rcases List.mem_append.1 hm with hm | hm
            · rcases List.mem_append.1 hc with hc | hc
              · obtain ⟨cm', hcm', hu'⟩ := inv.units l r' c hm hc
                have hne : r' ≠ r := by have := (inv.fresh l r' hm).2.1; omega
                exact ⟨cm', by rw [hother r' hne, hcm'], hu'⟩
              · simp at hc
                exact absurd hm (by rw [hc.1]; exact hnone r')
            · simp at hm
              obtain ⟨rfl, rfl⟩ := hm
              rcases List.mem_append.1 hc with hc | hc
              · obtain ⟨r'', hr''⟩ := (inv.keys l).2 ⟨hin, c, hc⟩
                exact absurd hr'' (hnone r'')
              · simp at hc
                exact ⟨cm, hcm, by rw [hunit, hc]⟩ }
    | some col =>
      simp only [has] at hs
      cases hcol : h.cols.get col with
      | none => simp [hcol] at hs
      | some cc =>
        simp only [hcol] at hs
        by_cases hu : cc.unit = c0.unit
        · simp only [hu, if_true] at hs
          cases huf : updateFrom h col c0 with
          | error e => simp [huf] at hs
          | ok h1 =>
            simp [huf] at hs
            obtain ⟨rfl, rfl⟩ := hs
            obtain ⟨s, hs', st⟩ := updateFrom_ok huf
            have hs'' : s = cc := by rw [hcol] at hs'; exact (Option.some.inj hs').symm
            subst hs''
            have hmem := assoc_mem has
            obtain ⟨hcb, hcn, cm0, hcm0, hf0⟩ := inv.fresh l0 col hmem
            obtain ⟨cm, hcm, hunit, hfmt⟩ := st.cols_a
            exact {
              tmetas := by rw [st.tmetas, inv.tmetas]
              dsets := by rw [st.dsets, inv.dsets]
              infos := by rw [st.infos, inv.infos]
              dicts := by rw [st.dicts, inv.dicts]
              cols := ⟨by rw [st.cols_next]; exact inv.cols.1, fun x hx => by
                have : x ≠ col := by omega
                rw [st.cols_other x this, inv.cols.2 x hx]⟩
              fmts := Store.Ext.trans inv.fmts st.fmts
              fresh := by
                intro l r' hm
                obtain ⟨h1', h2', cm', hcm', hf'⟩ := inv.fresh l r' hm
                by_cases hne : r' = col
                · subst hne
                  refine ⟨h1', by rw [st.cols_next]; exact h2', cm, hcm, ?_⟩
                  intro f hf
                  rcases hfmt with hold | ⟨hsome, hn1⟩
                  · rw [hold] at hf
                    rw [hcol] at hcm'
                    have : cm' = s := (Option.some.inj hcm').symm
                    subst this
                    obtain ⟨a1, a2, a3⟩ := hf' f hf
                    refine ⟨a1, Nat.lt_of_lt_of_le a2 st.fmts.1, ?_⟩
                    rw [st.fmts.2 f a2]; exact a3
                  · rw [hsome] at hf
                    have : f = h.fmts.next := (Option.some.inj hf).symm
                    subst this
                    exact ⟨inv.fmts.1, by omega, st.fmts_new _ (Nat.le_refl _) (by omega)⟩
                · refine ⟨h1', by rw [st.cols_next]; exact h2', cm', by rw [st.cols_other r' hne, hcm'], ?_⟩
                  intro f hf
                  obtain ⟨a1, a2, a3⟩ := hf' f hf
                  refine ⟨a1, Nat.lt_of_lt_of_le a2 st.fmts.1, ?_⟩
                  rw [st.fmts.2 f a2]; exact a3
              distinct := inv.distinct
              keys := by
                intro l
                constructor
                · rintro hm
                  obtain ⟨ho, c, hc⟩ := (inv.keys l).1 hm
                  exact ⟨ho, c, List.mem_append_left _ hc⟩
                · rintro ⟨ho, c, hc⟩
                  rcases List.mem_append.1 hc with hc | hc
                  · exact (inv.keys l).2 ⟨ho, c, hc⟩
                  · simp at hc
                    exact ⟨col, by rw [hc.1]; exact hmem⟩
              units := by
                intro l r' c hm hc
                by_cases hne : r' = col
                · subst hne
                  have hl : l = l0 := inv.distinct.same_ref hm hmem
                  subst hl
                  refine ⟨cm, hcm, ?_⟩
                  rcases List.mem_append.1 hc with hc | hc
                  · obtain ⟨cm', hcm', hu'⟩ := inv.units l r' c hm hc
                    rw [hcol] at hcm'
                    have : cm' = s := (Option.some.inj hcm').symm
                    subst this
                    rw [hunit, ← hu, hu']
                  · simp at hc
                    rw [hunit, hc]
                · have hl : l ≠ l0 := by
                    intro e; subst e
                    exact hne (inv.distinct.same_label hm hmem)
                  rcases List.mem_append.1 hc with hc | hc
                  · obtain ⟨cm', hcm', hu'⟩ := inv.units l r' c hm hc
                    exact ⟨cm', by rw [st.cols_other r' hne, hcm'], hu'⟩
                  · simp at hc
                    exact absurd hc.1 hl }
        · simp [hu] at hs
  · simp [hin] at hs
    obtain ⟨rfl, rfl⟩ := hs
    exact { inv with
      keys := by
        intro l
        rw [inv.keys l]
        constructor
        · rintro ⟨ho, c, hc⟩; exact ⟨ho, c, List.mem_append_left _ hc⟩
        · rintro ⟨ho, c, hc⟩
          rcases List.mem_append.1 hc with hc | hc
          · exact ⟨ho, c, hc⟩
          · simp at hc
            exact absurd (hc.1 ▸ ho) hin
      units := by
        intro l r c hm hc
        rcases List.mem_append.1 hc with hc | hc
        · exact inv.units l r c hm hc
        · simp at hc
          obtain ⟨ho, _⟩ := (inv.keys l).1 ⟨r, hm⟩
          exact absurd (hc.1 ▸ ho) hin }

theorem combineLoop_inv {out : List Label} {b : Heap} (items : List (Label × ColMeta)) :
    ∀ {h : Heap} {acc : Acc} {done : List (Label × ColMeta)} {h' : Heap} {acc' : Acc},
    combineLoop out (h, acc) items = .ok (h', acc') → LoopInv out b h acc done →
    LoopInv out b h' acc' (done ++ items) := by
  induction items with
  | nil =>
    intro h acc done h' acc' hl inv
    simp [combineLoop] at hl
    obtain ⟨rfl, rfl⟩ := hl
    simpa using inv
  | cons it rest ih =>
    intro h acc done h' acc' hl inv
    unfold combineLoop at hl
    cases hs : combineStep out (h, acc) it with
    | error e => simp [hs] at hl
    | ok st =>
      obtain ⟨h1, acc1⟩ := st
      simp [hs] at hl
      have := ih hl (combineStep_inv hs inv)
      simpa using this


/-! ## `TableMetadata(...)`, `_combine_tables` as a whole -/

theorem newTableMeta_ok {h : Heap} {name : Str} {d : Nat} {origin : Origin} {tr st : Bool} {h' : Heap} {m : Nat}
    (hn : newTableMeta h name d origin tr st = .ok (h', m)) :
    m = h.tmetas.next ∧ ∃ xs, h.dsets.get d = some xs ∧
      h' = { h with dsets := (h.dsets.alloc xs.eraseDups).1,
                    tmetas := (h.tmetas.alloc ⟨name, d, origin, tr, st⟩).1.write h.tmetas.next
                                ⟨name, h.dsets.next, origin, tr, st⟩ } := by
  unfold newTableMeta at hn
  simp only at hn
  cases hd : h.dsets.get d with
  | none => simp [Store.alloc, hd] at hn
  | some xs =>
    simp [Store.alloc, hd] at hn
    obtain ⟨rfl, rfl⟩ := hn
    exact ⟨rfl, xs, rfl, by simp [Store.alloc, Store.write]⟩

/-- everything a successful `_combine_tables` with at least one source carrying info did -/
theorem combine_some {h : Heap} {m : Option Str} {oi : Option Ref} {o : Other} {out : List Label}
    {h' : Heap} {i : Nat} {w : List Warn} (hc : combine h m oi o out = .ok (h', some i, w)) :
    ∃ src warned d0 rest parents ns1 ns tm0 h1 mref items h2 acc,
      selectSources m o = .ok (src, warned) ∧
      w = (if warned then [Warn.unknownMethod] else []) ∧
      src.filterMap id = d0 :: rest ∧
      originsOf h (d0 :: rest) = .ok parents ∧
      nonStrict h oi = .ok ns1 ∧ (if ns1 then Except.ok true else nonStrict h o.own) = .ok ns ∧
      metaOf h d0 = .ok tm0 ∧
      newTableMeta h tm0.name tm0.dests (.node none parents (some (pandasOp m))) false (!ns)
        = .ok (h1, mref) ∧
      sourceItems h (d0 :: rest) = .ok items ∧
      combineLoop out (h1, []) items = .ok (h2, acc) ∧
      i = h2.infos.next ∧
      h' = { h2 with dicts := (h2.dicts.alloc acc).1,
                     infos := (h2.infos.alloc ⟨mref, h2.dicts.next, none⟩).1 } := by
  unfold combine at hc
  cases hsel : selectSources m o with
  | error e => simp [hsel] at hc
  | ok p =>
    obtain ⟨src, warned⟩ := p
    simp only [hsel] at hc
    cases hdata : src.filterMap id with
    | nil => simp [hdata] at hc
    | cons d0 rest =>
      simp only [hdata] at hc
      cases hor : originsOf h (d0 :: rest) with
      | error e => simp [hor] at hc
      | ok parents =>
        simp only [hor] at hc
        cases hn1 : nonStrict h oi with
        | error e => simp [hn1] at hc
        | ok ns1 =>
          simp only [hn1] at hc
          cases hn2 : (if ns1 then Except.ok true else nonStrict h o.own) with
          | error e => simp [hn2] at hc
          | ok ns =>
            simp only [hn2] at hc
            cases hm0 : metaOf h d0 with
            | error e => simp [hm0] at hc
            | ok tm0 =>
              simp only [hm0] at hc
              cases hnt : newTableMeta h tm0.name tm0.dests
                  (.node none parents (some (pandasOp m))) false (!ns) with
              | error e => simp [hnt] at hc
              | ok q =>
                obtain ⟨h1, mref⟩ := q
                simp only [hnt] at hc
                cases hit : sourceItems h (d0 :: rest) with
                | error e => simp [hit] at hc
                | ok items =>
                  simp only [hit] at hc
                  cases hl : combineLoop out (h1, []) items with
                  | error e => simp [hl] at hc
                  | ok st =>
                    obtain ⟨h2, acc⟩ := st
                    simp [hl, Store.alloc] at hc
                    obtain ⟨rfl, rfl, rfl⟩ := hc
                    refine ⟨src, warned, d0, rest, parents, ns1, ns, tm0, h1, mref, items, h2, acc,
                      ?_, ?_, ?_, ?_, ?_, ?_, ?_, ?_, ?_, ?_, ?_, ?_⟩ <;>
                      first | rfl | assumption | simp [Store.alloc]

/-- `_combine_tables` returns `None` exactly when no selected source carries info; the heap is untouched -/
theorem combine_none {h : Heap} {m : Option Str} {oi : Option Ref} {o : Other} {out : List Label}
    {h' : Heap} {w : List Warn} (hc : combine h m oi o out = .ok (h', none, w)) :
    h' = h ∧ ∃ src warned, selectSources m o = .ok (src, warned) ∧ src.filterMap id = [] ∧
      w = (if warned then [Warn.unknownMethod] else []) := by
  unfold combine at hc
  cases hsel : selectSources m o with
  | error e => simp [hsel] at hc
  | ok p =>
    obtain ⟨src, warned⟩ := p
    simp only [hsel] at hc
    cases hdata : src.filterMap id with
    | nil =>
      simp [hdata] at hc
      exact ⟨hc.1.symm, src, warned, rfl, hdata, hc.2.symm⟩
    | cons d0 rest =>
      simp only [hdata] at hc
      repeat (first | (split at hc) | (simp at hc))


/-! ## `_update_columns` -/

/-- (label, dtype kind) of the frame columns seen so far -/
def kinds (cs : List (Label × Str × Char)) : List (Label × Char) := cs.map (fun c => (c.1, c.2.2))

theorem kinds_append (xs ys : List (Label × Str × Char)) : kinds (xs ++ ys) = kinds xs ++ kinds ys := by
  simp [kinds]

/-- invariant of the check/register loop of `_update_columns`, relative to the heap `b` and the
    register `acc0` it started from -/
structure UpdInv (empty : Bool) (b h : Heap) (acc0 acc : Acc) (done : List (Label × Str × Char)) : Prop where
  tmetas : h.tmetas = b.tmetas
  dsets : h.dsets = b.dsets
  infos : h.infos = b.infos
  dicts : h.dicts = b.dicts
  fmts : h.fmts = b.fmts
  cols : Store.Ext b.cols h.cols
  bound : ∀ l (r : Nat), (l, r) ∈ acc → r < h.cols.next
  old : ∀ l (r : Nat), assoc acc0 l = some r → assoc acc l = some r
  new : ∀ l (r : Nat), assoc acc l = some r → assoc acc0 l = none →
    empty = false ∧ b.cols.next ≤ r ∧
    ∃ k u, assoc (kinds done) l = some k ∧ unitFromKind k = some u ∧ h.cols.get r = some ⟨u, none, none⟩
  all : empty = false → ∀ l, (assoc (kinds done) l).isSome → (assoc acc l).isSome

theorem updStep_inv {strict empty : Bool} {b h : Heap} {acc0 acc : Acc} {done : List (Label × Str × Char)}
    {c : Label × Str × Char} {h' : Heap} {acc' : Acc}
    (hs : updStep strict empty (h, acc) c = .ok (h', acc')) (inv : UpdInv empty b h acc0 acc done) :
    UpdInv empty b h' acc0 acc' (done ++ [c]) := by
  obtain ⟨l0, d0, k0⟩ := c
  unfold updStep at hs
  simp only at hs
  cases he : empty with
  | true =>
    simp [he] at hs
    obtain ⟨rfl, rfl⟩ := hs
    subst he
    exact { inv with
      new := fun l r h1 h2 => by have := (inv.new l r h1 h2).1; simp at this
      all := fun h => by simp at h }
  | false =>
    subst he
    simp only [Bool.false_eq_true, if_false] at hs
    cases has : assoc acc l0 with
    | some r0 =>
      simp only [has] at hs
      have hst : h' = h ∧ acc' = acc := by
        by_cases hstr : strict = true
        · simp only [hstr, if_true] at hs
          cases hg : h.cols.get r0 with
          | none => simp [hg] at hs
          | some cm =>
            simp only [hg] at hs
            cases hck : checkDtype cm.unit k0 with
            | error e => simp [hck] at hs
            | ok u => simp [hck] at hs; exact ⟨hs.1.symm, hs.2.symm⟩
        · simp [hstr] at hs; exact ⟨hs.1.symm, hs.2.symm⟩
      obtain ⟨rfl, rfl⟩ := hst
      exact { inv with
        new := fun l r h1 h2 => by
          obtain ⟨a1, a2, k, u, a3, a4, a5⟩ := inv.new l r h1 h2
          refine ⟨a1, a2, k, u, ?_, a4, a5⟩
          rw [kinds_append, assoc_append, a3]
        all := fun _ l hl => by
          rw [kinds_append, assoc_append] at hl
          cases hk : assoc (kinds done) l with
          | some k => exact inv.all rfl l (by simp [hk])
          | none =>
            rw [hk] at hl
            by_cases hl0 : l0 = l
            · subst hl0; simp [has]
            · simp [kinds, assoc, hl0] at hl }
    | none =>
      simp only [has] at hs
      cases hu : unitFromKind k0 with
      | none => simp [hu] at hs
      | some u =>
        simp [hu, Store.alloc] at hs
        obtain ⟨rfl, rfl⟩ := hs
        have hkn : assoc (kinds done) l0 = none := by
          cases hk : assoc (kinds done) l0 with
          | none => rfl
          | some k =>
            have := inv.all rfl l0 (by simp [hk])
            simp [has] at this
        exact {
          tmetas := inv.tmetas, dsets := inv.dsets, infos := inv.infos, dicts := inv.dicts, fmts := inv.fmts
          cols := ⟨by have := inv.cols.1; simp; omega, fun x hx => by
            have : x ≠ h.cols.next := by have := inv.cols.1; omega
            simp [this, inv.cols.2 x hx]⟩
          bound := by
            intro l r hm
            rcases List.mem_append.1 hm with hm | hm
            · have := inv.bound l r hm; simp; omega
            · simp at hm; simp [hm.2]
          old := by
            intro l r h0
            rw [assoc_append, inv.old l r h0]
          new := by
            intro l r h1 h2
            rw [assoc_append] at h1
            cases hal : assoc acc l with
            | some r' =>
              simp [hal] at h1
              subst h1
              obtain ⟨a1, a2, k, u', a3, a4, a5⟩ := inv.new l r' hal h2
              have hb := inv.bound l r' (assoc_mem hal)
              have hne : @Ne Nat r' h.cols.next := by omega
              refine ⟨a1, a2, k, u', ?_, a4, by simp [hne, a5]⟩
              rw [kinds_append, assoc_append, a3]
            | none =>
              simp [hal, assoc] at h1
              by_cases hl0 : l0 = l
              · subst hl0
                simp at h1
                subst h1
                refine ⟨rfl, inv.cols.1, k0, u, ?_, hu, by simp⟩
                rw [kinds_append, assoc_append, hkn]
                simp [kinds, assoc]
              · simp [hl0] at h1
          all := by
            intro _ l hl
            rw [assoc_append]
            rw [kinds_append, assoc_append] at hl
            cases hk : assoc (kinds done) l with
            | some k =>
              have := inv.all rfl l (by simp [hk])
              cases hal : assoc acc l with
              | some r => simp
              | none => simp [hal] at this
            | none =>
              rw [hk] at hl
              by_cases hl0 : l0 = l
              · subst hl0
                cases hal : assoc acc l0 with
                | some r => simp
                | none => simp [assoc]
              · simp [kinds, assoc, hl0] at hl }

theorem updLoop_inv {strict empty : Bool} {b : Heap} {acc0 : Acc} (cs : List (Label × Str × Char)) :
    ∀ {h : Heap} {acc : Acc} {done : List (Label × Str × Char)} {h' : Heap} {acc' : Acc},
    updLoop strict empty (h, acc) cs = .ok (h', acc') → UpdInv empty b h acc0 acc done →
    UpdInv empty b h' acc0 acc' (done ++ cs) := by
  induction cs with
  | nil =>
    intro h acc done h' acc' hl inv
    simp [updLoop] at hl
    obtain ⟨rfl, rfl⟩ := hl
    simpa using inv
  | cons c rest ih =>
    intro h acc done h' acc' hl inv
    unfold updLoop at hl
    cases hs : updStep strict empty (h, acc) c with
    | error e => simp [hs] at hl
    | ok st =>
      obtain ⟨h1, acc1⟩ := st
      simp [hs] at hl
      have := ih hl (updStep_inv hs inv)
      simpa using this


theorem assoc_filter_mem {β} (xs : List (Label × β)) (ls : List Label) (l : Label) (hl : l ∈ ls) :
    assoc (xs.filter (fun e => decide (e.1 ∈ ls))) l = assoc xs l := by
  induction xs with
  | nil => simp [assoc]
  | cons kv rest ih =>
    obtain ⟨k, v⟩ := kv
    by_cases hk : k = l
    · subst hk; simp [List.filter, hl, assoc]
    · by_cases hm : k ∈ ls
      · simp [List.filter, hm, assoc, hk, ih]
      · simp [List.filter, hm, assoc, hk, ih]

theorem assoc_ordered {β} (f : Label → Option β) (ls : List Label) (x : Label) :
    assoc (ls.filterMap (fun l => (f l).map (fun r => (l, r)))) x = if x ∈ ls then f x else none := by
  induction ls with
  | nil => simp [assoc]
  | cons l rest ih =>
    cases hf : f l with
    | none =>
      simp only [List.filterMap_cons, hf, Option.map_none]
      rw [ih]
      by_cases hx : l = x
      · subst hx; simp [hf]
      · have : ¬ x = l := fun e => hx e.symm
        simp [this]
    | some r =>
      simp only [List.filterMap_cons, hf, Option.map_some]
      by_cases hx : l = x
      · subst hx; simp [assoc, hf]
      · have : ¬ x = l := fun e => hx e.symm
        simp [assoc, hx, ih, this]

theorem mem_ordered {β} (f : Label → Option β) (ls : List Label) (l : Label) (r : β)
    (h : (l, r) ∈ ls.filterMap (fun l => (f l).map (fun r => (l, r)))) : f l = some r := by
  simp only [List.mem_filterMap] at h
  obtain ⟨a, _, ha⟩ := h
  cases hf : f a with
  | none => simp [hf] at ha
  | some v =>
    simp [hf] at ha
    obtain ⟨rfl, rfl⟩ := ha
    exact hf

/-- `_check_dataframe`: nothing happens when the remembered frame state is current; otherwise
    `_update_columns` runs and the register is re-ordered to the frame's column order -/
theorem checkDataframe_ok {h : Heap} {i : Nat} {fr : Frame} {h' : Heap} (hc : checkDataframe h i fr = .ok h') :
    ∃ inf, h.infos.get i = some inf ∧
      ((inf.last = some fr.state ∧ h' = h) ∨
       (inf.last ≠ some fr.state ∧ hasDup fr.labels = false ∧ ∃ es tm hU acc,
          h.dicts.get inf.cols = some es ∧ h.tmetas.get inf.tmeta = some tm ∧
          updLoop tm.strict fr.empty (h, es.filter (fun e => decide (e.1 ∈ fr.labels))) fr.cols = .ok (hU, acc) ∧
          h' = { hU with
                 dicts := hU.dicts.write inf.cols (fr.labels.filterMap (fun l => (assoc acc l).map (fun r => (l, r)))),
                 infos := hU.infos.write i ⟨inf.tmeta, inf.cols, some fr.state⟩ })) := by
  unfold checkDataframe at hc
  unfold getInfo at hc
  cases hi : h.infos.get i with
  | none => simp [hi] at hc
  | some inf =>
    refine ⟨inf, rfl, ?_⟩
    simp only [hi] at hc
    by_cases hl : inf.last = some fr.state
    · simp [hl] at hc; exact Or.inl ⟨hl, hc.symm⟩
    · simp only [hl, if_false] at hc
      right
      unfold updateColumns at hc
      by_cases hd : hasDup fr.labels = true
      · simp [hd] at hc
      · have hd' : hasDup fr.labels = false := by simpa using hd
        simp only [hd', Bool.false_eq_true, if_false] at hc
        unfold getDict getTMeta at hc
        cases hes : h.dicts.get inf.cols with
        | none => simp [hes] at hc
        | some es =>
          simp only [hes] at hc
          cases htm : h.tmetas.get inf.tmeta with
          | none => simp [htm] at hc
          | some tm =>
            simp only [htm] at hc
            cases hul : updLoop tm.strict fr.empty (h, es.filter (fun e => decide (e.1 ∈ fr.labels))) fr.cols with
            | error e => simp [hul] at hc
            | ok st =>
              obtain ⟨hU, acc⟩ := st
              simp [hul] at hc
              exact ⟨hl, hd', es, tm, hU, acc, rfl, rfl, hul, hc.symm⟩

end Pdt.C05
