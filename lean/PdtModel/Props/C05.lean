/-
  Props/C05.lean — "Pandas operations carry table metadata along and never alias it".
-/
import PdtModel.Model.Combine
import PdtModel.Gen.Consts
set_option linter.unusedSimpArgs false
set_option linter.unusedVariables false
namespace Pdt.C05
open Pdt Pdt.Combine

/-! ## Tie to the source: the translated constants the model is defined over -/

theorem safe_methods_pinned :
    Gen.safeMethods = ["append".toList, "astype".toList, "copy".toList, "fillna".toList, "groupby".toList,
      "melt".toList, "reindex".toList, "rename".toList, "replace".toList, "sort_index".toList, "take".toList,
      "transpose".toList, "unstack".toList] := by decide

theorem unit_from_dtype_kind_pinned :
    Gen.unitFromDtypeKind = [('M', "-".toList), ('O', "text".toList), ('S', "text".toList), ('U', "text".toList),
      ('b', "onoff".toList), ('f', "-".toList), ('i', "-".toList), ('u', "-".toList)] := by decide

theorem units_special_pinned : Gen.unitsSpecial = ["onoff".toList, "text".toList] := by decide

/-! ## Stores: allocation gives a fresh identity, old objects are untouched -/

namespace Store
variable {α : Type}

@[simp] theorem alloc_ref (s : Store α) (a : α) : (s.alloc a).2 = s.next := rfl
@[simp] theorem alloc_next (s : Store α) (a : α) : (s.alloc a).1.next = s.next + 1 := rfl
@[simp] theorem alloc_get (s : Store α) (a : α) (r : Nat) :
    (s.alloc a).1.get r = if r = s.next then some a else s.get r := rfl
@[simp] theorem write_next (s : Store α) (r : Nat) (a : α) : (s.write r a).next = s.next := rfl
@[simp] theorem write_get (s : Store α) (r : Nat) (a : α) (x : Nat) :
    (s.write r a).get x = if x = r then some a else s.get x := rfl

/-- `s'` extends `s`: every object of `s` is still there, unchanged -/
def Ext (s s' : Store α) : Prop := s.next ≤ s'.next ∧ ∀ r, r < s.next → s'.get r = s.get r

theorem Ext.refl (s : Store α) : Ext s s := ⟨Nat.le_refl _, fun _ _ => rfl⟩
theorem Ext.trans {a b c : Store α} (h1 : Ext a b) (h2 : Ext b c) : Ext a c :=
  ⟨Nat.le_trans h1.1 h2.1, fun r hr => by rw [h2.2 r (Nat.lt_of_lt_of_le hr h1.1), h1.2 r hr]⟩
theorem Ext.alloc (s : Store α) (a : α) : Ext s (s.alloc a).1 :=
  ⟨by simp, fun r hr => by simp [Nat.ne_of_lt hr]⟩
theorem Ext.of_eq {s s' : Store α} (h : s' = s) : Ext s s' := h ▸ Ext.refl s
/-- writing to an object that did not exist in `s` keeps the extension -/
theorem Ext.write {s s' : Store α} (h : Ext s s') (r : Nat) (a : α) (hr : s.next ≤ r) : Ext s (s'.write r a) :=
  ⟨by simpa using h.1, fun x hx => by
    have : x ≠ r := by omega
    simp [this, h.2 x hx]⟩
end Store


/-! ## Association lists -/

theorem assoc_append {β} (xs ys : List (Label × β)) (l : Label) :
    assoc (xs ++ ys) l = match assoc xs l with | some v => some v | none => assoc ys l := by
  induction xs with
  | nil => simp [assoc]
  | cons kv rest ih =>
    obtain ⟨k, v⟩ := kv
    by_cases hk : k = l <;> simp [assoc, hk, ih]

theorem assoc_mem {β} {xs : List (Label × β)} {l : Label} {v : β} (h : assoc xs l = some v) : (l, v) ∈ xs := by
  induction xs with
  | nil => simp [assoc] at h
  | cons kv rest ih =>
    obtain ⟨k, w⟩ := kv
    by_cases hk : k = l
    · simp [assoc, hk] at h; subst h; subst hk; exact List.mem_cons_self
    · simp [assoc, hk] at h; exact List.mem_cons_of_mem _ (ih h)

theorem assoc_none_iff {β} (xs : List (Label × β)) (l : Label) : assoc xs l = none ↔ ∀ v, (l, v) ∉ xs := by
  induction xs with
  | nil => simp [assoc]
  | cons kv rest ih =>
    obtain ⟨k, w⟩ := kv
    by_cases hk : k = l
    · subst hk; simp [assoc]; exact ⟨w, fun hne => absurd rfl hne⟩
    · have hk' : ¬ l = k := fun e => hk e.symm
      simp [assoc, hk, hk', ih]

/-! ## What one `update_from` / `copy()` does to the store -/

/-- `h'` differs from `h` only in the column object `a` (now with unit `u`, format kept or a new
    object) and in at most one newly allocated format -/
structure ColStep (h h' : Heap) (a : Nat) (u : Str) (oldFmt : Option Ref) : Prop where
  tmetas : h'.tmetas = h.tmetas
  dsets : h'.dsets = h.dsets
  infos : h'.infos = h.infos
  dicts : h'.dicts = h.dicts
  cols_next : h'.cols.next = h.cols.next
  cols_other : ∀ (x : Nat), x ≠ a → h'.cols.get x = h.cols.get x
  cols_a : ∃ cm, h'.cols.get a = some cm ∧ cm.unit = u ∧
    (cm.dispFmt = oldFmt ∨ (cm.dispFmt = some h.fmts.next ∧ h'.fmts.next = h.fmts.next + 1))
  fmts : Store.Ext h.fmts h'.fmts
  fmts_le : h'.fmts.next ≤ h.fmts.next + 1
  fmts_new : ∀ (f : Nat), h.fmts.next ≤ f → f < h'.fmts.next → (h'.fmts.get f).isSome

theorem copyFmt_ok {h : Heap} {f : Nat} {h' : Heap} {r : Nat} (hc : copyFmt h f = .ok (h', r)) :
    r = h.fmts.next ∧ ∃ s, h.fmts.get f = some s ∧ h' = { h with fmts := (h.fmts.alloc s).1 } := by
  unfold copyFmt at hc
  cases hf : h.fmts.get f with
  | none => simp [hf] at hc
  | some s =>
    simp [hf] at hc
    exact ⟨hc.2.symm, s, rfl, hc.1.symm⟩

theorem updateFrom_ok {h : Heap} {a : Nat} {b : ColMeta} {h' : Heap} (hu : updateFrom h a b = .ok h') :
    ∃ s, h.cols.get a = some s ∧ ColStep h h' a b.unit s.dispFmt := by
  unfold updateFrom at hu
  cases hs : h.cols.get a with
  | none => simp [hs] at hu
  | some s =>
    refine ⟨s, rfl, ?_⟩
    simp only [hs] at hu
    split at hu
    · -- own format absent, other's present: the format is copied
      rename_i f hsf hbf
      cases hcf : copyFmt h f with
      | error e => simp [hcf] at hu
      | ok p =>
        obtain ⟨h1, f'⟩ := p
        simp [hcf] at hu
        obtain ⟨hf', sp, hsp, hh1⟩ := copyFmt_ok hcf
        subst hu; subst hh1; subst hf'
        exact {
          tmetas := rfl, dsets := rfl, infos := rfl, dicts := rfl, cols_next := rfl
          cols_other := fun x hx => by simp [hx]
          cols_a := ⟨⟨b.unit, if truthy s.dispUnit then s.dispUnit else b.dispUnit, some h.fmts.next⟩,
                     by simp, rfl, Or.inr ⟨rfl, rfl⟩⟩
          fmts := Store.Ext.alloc _ _
          fmts_le := by simp
          fmts_new := fun f hf1 hf2 => by
            have : f = h.fmts.next := by simp at hf2; omega
            simp [this] }
    · simp at hu
      subst hu
      exact {
        tmetas := rfl, dsets := rfl, infos := rfl, dicts := rfl, cols_next := rfl
        cols_other := fun x hx => by simp [hx]
        cols_a := ⟨⟨b.unit, if truthy s.dispUnit then s.dispUnit else b.dispUnit, s.dispFmt⟩,
                   by simp, rfl, Or.inl rfl⟩
        fmts := Store.Ext.refl _
        fmts_le := by simp
        fmts_new := fun f hf1 hf2 => by simp at hf2; omega }

/-- `c.copy()` allocates the column `h.cols.next`; nothing that existed changes -/
theorem copyCol_ok {h : Heap} {c : ColMeta} {h' : Heap} {r : Nat} (hc : copyCol h c = .ok (h', r)) :
    r = h.cols.next ∧ h'.cols.next = h.cols.next + 1 ∧
    h'.tmetas = h.tmetas ∧ h'.dsets = h.dsets ∧ h'.infos = h.infos ∧ h'.dicts = h.dicts ∧
    (∀ (x : Nat), x ≠ r → h'.cols.get x = h.cols.get x) ∧
    (∃ cm, h'.cols.get r = some cm ∧ cm.unit = c.unit ∧
      (cm.dispFmt = none ∨ (cm.dispFmt = some h.fmts.next ∧ h'.fmts.next = h.fmts.next + 1))) ∧
    Store.Ext h.fmts h'.fmts ∧ h'.fmts.next ≤ h.fmts.next + 1 ∧
    (∀ (f : Nat), h.fmts.next ≤ f → f < h'.fmts.next → (h'.fmts.get f).isSome) := by
  unfold copyCol at hc
  simp only at hc
  split at hc
  · simp at hc
  · rename_i h2 hu
    simp at hc
    obtain ⟨rfl, rfl⟩ := hc
    obtain ⟨s, hs, st⟩ := updateFrom_ok hu
    have hs' : s = ⟨c.unit, none, none⟩ := by simpa using hs.symm
    subst hs'
    refine ⟨rfl, ?_, st.tmetas, st.dsets, st.infos, st.dicts, ?_, ?_, st.fmts, st.fmts_le, st.fmts_new⟩
    · simpa using st.cols_next
    · intro x hx
      have := st.cols_other x hx
      simpa [hx] using this
    · simpa using st.cols_a


/-! ## The loop of `_combine_tables` -/

/-- labels and identities in the accumulated dict are pairwise different -/
def Distinct (acc : Acc) : Prop := acc.Pairwise (fun x y => x.1 ≠ y.1 ∧ x.2 ≠ y.2)

theorem Distinct.same_label {acc : Acc} (hp : Distinct acc) {l : Label} {r1 r2 : Nat}
    (h1 : (l, r1) ∈ acc) (h2 : (l, r2) ∈ acc) : r1 = r2 := by
  induction acc with
  | nil => simp at h1
  | cons x xs ih =>
    obtain ⟨hx, hxs⟩ := List.pairwise_cons.1 hp
    rcases List.mem_cons.1 h1 with e1 | m1 <;> rcases List.mem_cons.1 h2 with e2 | m2
    · rw [← e1] at e2; exact (Prod.mk.inj e2).2.symm
    · exact absurd (by rw [← e1]) (hx _ m2).1
    · exact absurd (by rw [← e2]) (hx _ m1).1
    · exact ih hxs m1 m2

theorem Distinct.same_ref {acc : Acc} (hp : Distinct acc) {l1 l2 : Label} {r : Nat}
    (h1 : (l1, r) ∈ acc) (h2 : (l2, r) ∈ acc) : l1 = l2 := by
  induction acc with
  | nil => simp at h1
  | cons x xs ih =>
    obtain ⟨hx, hxs⟩ := List.pairwise_cons.1 hp
    rcases List.mem_cons.1 h1 with e1 | m1 <;> rcases List.mem_cons.1 h2 with e2 | m2
    · rw [← e1] at e2; exact (Prod.mk.inj e2).1.symm
    · exact absurd (by rw [← e1]) (hx _ m2).2
    · exact absurd (by rw [← e2]) (hx _ m1).2
    · exact ih hxs m1 m2

/-- invariant of the column loop, relative to the heap `b` it started from; `done` = the
    (label, source column) pairs processed so far -/
structure LoopInv (out : List Label) (b h : Heap) (acc : Acc) (done : List (Label × ColMeta)) : Prop where
  tmetas : h.tmetas = b.tmetas
  dsets : h.dsets = b.dsets
  infos : h.infos = b.infos
  dicts : h.dicts = b.dicts
  cols : Store.Ext b.cols h.cols
  fmts : Store.Ext b.fmts h.fmts
  fresh : ∀ l (r : Nat), (l, r) ∈ acc → b.cols.next ≤ r ∧ r < h.cols.next ∧
    ∃ cm, h.cols.get r = some cm ∧
      ∀ (f : Nat), cm.dispFmt = some f → b.fmts.next ≤ f ∧ f < h.fmts.next ∧ (h.fmts.get f).isSome
  distinct : Distinct acc
  keys : ∀ l, (∃ (r : Nat), (l, r) ∈ acc) ↔ (l ∈ out ∧ ∃ c, (l, c) ∈ done)
  units : ∀ l (r : Nat) c, (l, r) ∈ acc → (l, c) ∈ done → ∃ cm, h.cols.get r = some cm ∧ cm.unit = c.unit

theorem LoopInv.init (out : List Label) (b : Heap) : LoopInv out b b [] [] where
  tmetas := rfl
  dsets := rfl
  infos := rfl
  dicts := rfl
  cols := Store.Ext.refl _
  fmts := Store.Ext.refl _
  fresh := by intro l r h; simp at h
  distinct := List.Pairwise.nil
  keys := by intro l; simp
  units := by intro l r c h; simp at h

theorem combineStep_inv {out : List Label} {b h : Heap} {acc : Acc} {done : List (Label × ColMeta)}
    {it : Label × ColMeta} {h' : Heap} {acc' : Acc}
    (hs : combineStep out (h, acc) it = .ok (h', acc')) (inv : LoopInv out b h acc done) :
    LoopInv out b h' acc' (done ++ [it]) := by
  obtain ⟨l0, c0⟩ := it
  unfold combineStep at hs
  simp only at hs
  by_cases hin : l0 ∈ out
  · simp only [hin, if_true] at hs
    cases has : assoc acc l0 with
    | none =>
      -- first occurrence: copied
      simp only [has] at hs
      cases hcc : copyCol h c0 with
      | error e => simp [hcc] at hs
      | ok p =>
        obtain ⟨h1, r⟩ := p
        simp [hcc] at hs
        obtain ⟨rfl, rfl⟩ := hs
        obtain ⟨hr, hnext, e1, e2, e3, e4, hother, ⟨cm, hcm, hunit, hfmt⟩, hfe, hfle, hfnew⟩ := copyCol_ok hcc
        have hnone := (assoc_none_iff acc l0).1 has
        have hrb : b.cols.next ≤ r := by rw [hr]; exact inv.cols.1
        exact {
          tmetas := by rw [e1, inv.tmetas]
          dsets := by rw [e2, inv.dsets]
          infos := by rw [e3, inv.infos]
          dicts := by rw [e4, inv.dicts]
          cols := ⟨by have := inv.cols.1; omega, fun x hx => by
            have : x ≠ r := by omega
            rw [hother x this, inv.cols.2 x hx]⟩
          fmts := Store.Ext.trans inv.fmts hfe
          fresh := by
            intro l r' hm
            rcases List.mem_append.1 hm with hm | hm
            · obtain ⟨h1', h2', cm', hcm', hf'⟩ := inv.fresh l r' hm
              have hne : r' ≠ r := by omega
              refine ⟨h1', by omega, cm', by rw [hother r' hne, hcm'], ?_⟩
              intro f hf
              obtain ⟨a1, a2, a3⟩ := hf' f hf
              refine ⟨a1, Nat.lt_of_lt_of_le a2 hfe.1, ?_⟩
              rw [hfe.2 f a2]; exact a3
            · simp at hm
              obtain ⟨rfl, rfl⟩ := hm
              refine ⟨hrb, by omega, cm, hcm, ?_⟩
              intro f hf
              rcases hfmt with hnn | ⟨hsome, hn1⟩
              · rw [hnn] at hf; cases hf
              · rw [hsome] at hf
                have : f = h.fmts.next := (Option.some.inj hf).symm
                subst this
                exact ⟨inv.fmts.1, by omega, hfnew _ (Nat.le_refl _) (by omega)⟩
          distinct := by
            unfold Distinct
            rw [List.pairwise_append]
            refine ⟨inv.distinct, List.pairwise_singleton _ _, ?_⟩
            intro x hx y hy
            simp at hy
            subst hy
            obtain ⟨xl, xr⟩ := x
            constructor
            · intro e; simp at e; subst e; exact hnone xr hx
            · have := (inv.fresh xl xr hx).2.1
              show @Ne Nat xr r
              omega
          keys := by
            intro l
            constructor
            · rintro ⟨r', hm⟩
              rcases List.mem_append.1 hm with hm | hm
              · obtain ⟨ho, c, hc⟩ := (inv.keys l).1 ⟨r', hm⟩
                exact ⟨ho, c, List.mem_append_left _ hc⟩
              · simp at hm
                exact ⟨hm.1 ▸ hin, c0, by simp [hm.1]⟩
            · rintro ⟨ho, c, hc⟩
              rcases List.mem_append.1 hc with hc | hc
              · obtain ⟨r', hr'⟩ := (inv.keys l).2 ⟨ho, c, hc⟩
                exact ⟨r', List.mem_append_left _ hr'⟩
              · simp at hc
                exact ⟨r, by simp [hc.1]⟩
          units := by
            intro l r' c hm hc
            rcases List.mem_append.1 hm with hm | hm
            · rcases List.mem_append.1 hc with hc | hc
              · obtain ⟨cm', hcm', hu'⟩ := inv.units l r' c hm hc
                have hne : r' ≠ r := by have := (inv.fresh l r' hm).2.1; omega
                exact ⟨cm', by rw [hother r' hne, hcm'], hu'⟩
              · simp at hc
                exact absurd hm (by rw [hc.1]; exact hnone r')
            · simp at hm
              obtain ⟨rfl, rfl⟩ := hm
              rcases List.mem_append.1 hc with hc | hc
              · obtain ⟨r'', hr''⟩ := (inv.keys l).2 ⟨hin, c, hc⟩
                exact absurd hr'' (hnone r'')
              · simp at hc
                exact ⟨cm, hcm, by rw [hunit, hc]⟩ }
    | some col =>
      simp only [has] at hs
      cases hcol : h.cols.get col with
      | none => simp [hcol] at hs
      | some cc =>
        simp only [hcol] at hs
        by_cases hu : cc.unit = c0.unit
        · simp only [hu, if_true] at hs
          cases huf : updateFrom h col c0 with
          | error e => simp [huf] at hs
          | ok h1 =>
            simp [huf] at hs
            obtain ⟨rfl, rfl⟩ := hs
            obtain ⟨s, hs', st⟩ := updateFrom_ok huf
            have hs'' : s = cc := by rw [hcol] at hs'; exact (Option.some.inj hs').symm
            subst hs''
            have hmem := assoc_mem has
            obtain ⟨hcb, hcn, cm0, hcm0, hf0⟩ := inv.fresh l0 col hmem
            obtain ⟨cm, hcm, hunit, hfmt⟩ := st.cols_a
            exact {
              tmetas := by rw [st.tmetas, inv.tmetas]
              dsets := by rw [st.dsets, inv.dsets]
              infos := by rw [st.infos, inv.infos]
              dicts := by rw [st.dicts, inv.dicts]
              cols := ⟨by rw [st.cols_next]; exact inv.cols.1, fun x hx => by
                have : x ≠ col := by omega
                rw [st.cols_other x this, inv.cols.2 x hx]⟩
              fmts := Store.Ext.trans inv.fmts st.fmts
              fresh := by
                intro l r' hm
                obtain ⟨h1', h2', cm', hcm', hf'⟩ := inv.fresh l r' hm
                by_cases hne : r' = col
                · subst hne
                  refine ⟨h1', by rw [st.cols_next]; exact h2', cm, hcm, ?_⟩
                  intro f hf
                  rcases hfmt with hold | ⟨hsome, hn1⟩
                  · rw [hold] at hf
                    rw [hcol] at hcm'
                    have : cm' = s := (Option.some.inj hcm').symm
                    subst this
                    obtain ⟨a1, a2, a3⟩ := hf' f hf
                    refine ⟨a1, Nat.lt_of_lt_of_le a2 st.fmts.1, ?_⟩
                    rw [st.fmts.2 f a2]; exact a3
                  · rw [hsome] at hf
                    have : f = h.fmts.next := (Option.some.inj hf).symm
                    subst this
                    exact ⟨inv.fmts.1, by omega, st.fmts_new _ (Nat.le_refl _) (by omega)⟩
                · refine ⟨h1', by rw [st.cols_next]; exact h2', cm', by rw [st.cols_other r' hne, hcm'], ?_⟩
                  intro f hf
                  obtain ⟨a1, a2, a3⟩ := hf' f hf
                  refine ⟨a1, Nat.lt_of_lt_of_le a2 st.fmts.1, ?_⟩
                  rw [st.fmts.2 f a2]; exact a3
              distinct := inv.distinct
              keys := by
                intro l
                constructor
                · rintro hm
                  obtain ⟨ho, c, hc⟩ := (inv.keys l).1 hm
                  exact ⟨ho, c, List.mem_append_left _ hc⟩
                · rintro ⟨ho, c, hc⟩
                  rcases List.mem_append.1 hc with hc | hc
                  · exact (inv.keys l).2 ⟨ho, c, hc⟩
                  · simp at hc
                    exact ⟨col, by rw [hc.1]; exact hmem⟩
              units := by
                intro l r' c hm hc
                by_cases hne : r' = col
                · subst hne
                  have hl : l = l0 := inv.distinct.same_ref hm hmem
                  subst hl
                  refine ⟨cm, hcm, ?_⟩
                  rcases List.mem_append.1 hc with hc | hc
                  · obtain ⟨cm', hcm', hu'⟩ := inv.units l r' c hm hc
                    rw [hcol] at hcm'
                    have : cm' = s := (Option.some.inj hcm').symm
                    subst this
                    rw [hunit, ← hu, hu']
                  · simp at hc
                    rw [hunit, hc]
                · have hl : l ≠ l0 := by
                    intro e; subst e
                    exact hne (inv.distinct.same_label hm hmem)
                  rcases List.mem_append.1 hc with hc | hc
                  · obtain ⟨cm', hcm', hu'⟩ := inv.units l r' c hm hc
                    exact ⟨cm', by rw [st.cols_other r' hne, hcm'], hu'⟩
                  · simp at hc
                    exact absurd hc.1 hl }
        · simp [hu] at hs
  · simp [hin] at hs
    obtain ⟨rfl, rfl⟩ := hs
    exact { inv with
      keys := by
        intro l
        rw [inv.keys l]
        constructor
        · rintro ⟨ho, c, hc⟩; exact ⟨ho, c, List.mem_append_left _ hc⟩
        · rintro ⟨ho, c, hc⟩
          rcases List.mem_append.1 hc with hc | hc
          · exact ⟨ho, c, hc⟩
          · simp at hc
            exact absurd (hc.1 ▸ ho) hin
      units := by
        intro l r c hm hc
        rcases List.mem_append.1 hc with hc | hc
        · exact inv.units l r c hm hc
        · simp at hc
          obtain ⟨ho, _⟩ := (inv.keys l).1 ⟨r, hm⟩
          exact absurd (hc.1 ▸ ho) hin }

theorem combineLoop_inv {out : List Label} {b : Heap} (items : List (Label × ColMeta)) :
    ∀ {h : Heap} {acc : Acc} {done : List (Label × ColMeta)} {h' : Heap} {acc' : Acc},
    combineLoop out (h, acc) items = .ok (h', acc') → LoopInv out b h acc done →
    LoopInv out b h' acc' (done ++ items) := by
  induction items with
  | nil =>
    intro h acc done h' acc' hl inv
    simp [combineLoop] at hl
    obtain ⟨rfl, rfl⟩ := hl
    simpa using inv
  | cons it rest ih =>
    intro h acc done h' acc' hl inv
    unfold combineLoop at hl
    cases hs : combineStep out (h, acc) it with
    | error e => simp [hs] at hl
    | ok st =>
      obtain ⟨h1, acc1⟩ := st
      simp [hs] at hl
      have := ih hl (combineStep_inv hs inv)
      simpa using this


/-! ## `TableMetadata(...)`, `_combine_tables` as a whole -/

theorem newTableMeta_ok {h : Heap} {name : Str} {d : Nat} {origin : Origin} {tr st : Bool} {h' : Heap} {m : Nat}
    (hn : newTableMeta h name d origin tr st = .ok (h', m)) :
    m = h.tmetas.next ∧ ∃ xs, h.dsets.get d = some xs ∧
      h' = { h with dsets := (h.dsets.alloc xs.eraseDups).1,
                    tmetas := (h.tmetas.alloc ⟨name, d, origin, tr, st⟩).1.write h.tmetas.next
                                ⟨name, h.dsets.next, origin, tr, st⟩ } := by
  unfold newTableMeta at hn
  simp only at hn
  cases hd : h.dsets.get d with
  | none => simp [Store.alloc, hd] at hn
  | some xs =>
    simp [Store.alloc, hd] at hn
    obtain ⟨rfl, rfl⟩ := hn
    exact ⟨rfl, xs, rfl, by simp [Store.alloc, Store.write]⟩

/-- everything a successful `_combine_tables` with at least one source carrying info did -/
theorem combine_some {h : Heap} {m : Option Str} {oi : Option Ref} {o : Other} {out : List Label}
    {h' : Heap} {i : Nat} {w : List Warn} (hc : combine h m oi o out = .ok (h', some i, w)) :
    ∃ src warned d0 rest parents ns1 ns tm0 h1 mref items h2 acc,
      selectSources m o = .ok (src, warned) ∧
      w = (if warned then [Warn.unknownMethod] else []) ∧
      src.filterMap id = d0 :: rest ∧
      originsOf h (d0 :: rest) = .ok parents ∧
      nonStrict h oi = .ok ns1 ∧ (if ns1 then Except.ok true else nonStrict h o.own) = .ok ns ∧
      metaOf h d0 = .ok tm0 ∧
      newTableMeta h tm0.name tm0.dests (.node none parents (some (pandasOp m))) false (!ns)
        = .ok (h1, mref) ∧
      sourceItems h (d0 :: rest) = .ok items ∧
      combineLoop out (h1, []) items = .ok (h2, acc) ∧
      i = h2.infos.next ∧
      h' = { h2 with dicts := (h2.dicts.alloc acc).1,
                     infos := (h2.infos.alloc ⟨mref, h2.dicts.next, none⟩).1 } := by
  unfold combine at hc
  cases hsel : selectSources m o with
  | error e => simp [hsel] at hc
  | ok p =>
    obtain ⟨src, warned⟩ := p
    simp only [hsel] at hc
    cases hdata : src.filterMap id with
    | nil => simp [hdata] at hc
    | cons d0 rest =>
      simp only [hdata] at hc
      cases hor : originsOf h (d0 :: rest) with
      | error e => simp [hor] at hc
      | ok parents =>
        simp only [hor] at hc
        cases hn1 : nonStrict h oi with
        | error e => simp [hn1] at hc
        | ok ns1 =>
          simp only [hn1] at hc
          cases hn2 : (if ns1 then Except.ok true else nonStrict h o.own) with
          | error e => simp [hn2] at hc
          | ok ns =>
            simp only [hn2] at hc
            cases hm0 : metaOf h d0 with
            | error e => simp [hm0] at hc
            | ok tm0 =>
              simp only [hm0] at hc
              cases hnt : newTableMeta h tm0.name tm0.dests
                  (.node none parents (some (pandasOp m))) false (!ns) with
              | error e => simp [hnt] at hc
              | ok q =>
                obtain ⟨h1, mref⟩ := q
                simp only [hnt] at hc
                cases hit : sourceItems h (d0 :: rest) with
                | error e => simp [hit] at hc
                | ok items =>
                  simp only [hit] at hc
                  cases hl : combineLoop out (h1, []) items with
                  | error e => simp [hl] at hc
                  | ok st =>
                    obtain ⟨h2, acc⟩ := st
                    simp [hl, Store.alloc] at hc
                    obtain ⟨rfl, rfl, rfl⟩ := hc
                    refine ⟨src, warned, d0, rest, parents, ns1, ns, tm0, h1, mref, items, h2, acc,
                      ?_, ?_, ?_, ?_, ?_, ?_, ?_, ?_, ?_, ?_, ?_, ?_⟩ <;>
                      first | rfl | assumption | simp [Store.alloc]

/-- `_combine_tables` returns `None` exactly when no selected source carries info; the heap is untouched -/
theorem combine_none {h : Heap} {m : Option Str} {oi : Option Ref} {o : Other} {out : List Label}
    {h' : Heap} {w : List Warn} (hc : combine h m oi o out = .ok (h', none, w)) :
    h' = h ∧ ∃ src warned, selectSources m o = .ok (src, warned) ∧ src.filterMap id = [] ∧
      w = (if warned then [Warn.unknownMethod] else []) := by
  unfold combine at hc
  cases hsel : selectSources m o with
  | error e => simp [hsel] at hc
  | ok p =>
    obtain ⟨src, warned⟩ := p
    simp only [hsel] at hc
    cases hdata : src.filterMap id with
    | nil =>
      simp [hdata] at hc
      exact ⟨hc.1.symm, src, warned, rfl, hdata, hc.2.symm⟩
    | cons d0 rest =>
      simp only [hdata] at hc
      repeat (first | (split at hc) | (simp at hc))


/-! ## `_update_columns` -/

/-- (label, dtype kind) of the frame columns seen so far -/
def kinds (cs : List (Label × Str × Char)) : List (Label × Char) := cs.map (fun c => (c.1, c.2.2))

theorem kinds_append (xs ys : List (Label × Str × Char)) : kinds (xs ++ ys) = kinds xs ++ kinds ys := by
  simp [kinds]

/-- invariant of the check/register loop of `_update_columns`, relative to the heap `b` and the
    register `acc0` it started from -/
structure UpdInv (empty : Bool) (b h : Heap) (acc0 acc : Acc) (done : List (Label × Str × Char)) : Prop where
  tmetas : h.tmetas = b.tmetas
  dsets : h.dsets = b.dsets
  infos : h.infos = b.infos
  dicts : h.dicts = b.dicts
  fmts : h.fmts = b.fmts
  cols : Store.Ext b.cols h.cols
  bound : ∀ l (r : Nat), (l, r) ∈ acc → r < h.cols.next
  old : ∀ l (r : Nat), assoc acc0 l = some r → assoc acc l = some r
  new : ∀ l (r : Nat), assoc acc l = some r → assoc acc0 l = none →
    empty = false ∧ b.cols.next ≤ r ∧
    ∃ k u, assoc (kinds done) l = some k ∧ unitFromKind k = some u ∧ h.cols.get r = some ⟨u, none, none⟩
  all : empty = false → ∀ l, (assoc (kinds done) l).isSome → (assoc acc l).isSome

theorem updStep_inv {strict empty : Bool} {b h : Heap} {acc0 acc : Acc} {done : List (Label × Str × Char)}
    {c : Label × Str × Char} {h' : Heap} {acc' : Acc}
    (hs : updStep strict empty (h, acc) c = .ok (h', acc')) (inv : UpdInv empty b h acc0 acc done) :
    UpdInv empty b h' acc0 acc' (done ++ [c]) := by
  obtain ⟨l0, d0, k0⟩ := c
  unfold updStep at hs
  simp only at hs
  cases he : empty with
  | true =>
    simp [he] at hs
    obtain ⟨rfl, rfl⟩ := hs
    subst he
    exact { inv with
      new := fun l r h1 h2 => by have := (inv.new l r h1 h2).1; simp at this
      all := fun h => by simp at h }
  | false =>
    subst he
    simp only [Bool.false_eq_true, if_false] at hs
    cases has : assoc acc l0 with
    | some r0 =>
      simp only [has] at hs
      have hst : h' = h ∧ acc' = acc := by
        by_cases hstr : strict = true
        · simp only [hstr, if_true] at hs
          cases hg : h.cols.get r0 with
          | none => simp [hg] at hs
          | some cm =>
            simp only [hg] at hs
            cases hck : checkDtype cm.unit k0 with
            | error e => simp [hck] at hs
            | ok u => simp [hck] at hs; exact ⟨hs.1.symm, hs.2.symm⟩
        · simp [hstr] at hs; exact ⟨hs.1.symm, hs.2.symm⟩
      obtain ⟨rfl, rfl⟩ := hst
      exact { inv with
        new := fun l r h1 h2 => by
          obtain ⟨a1, a2, k, u, a3, a4, a5⟩ := inv.new l r h1 h2
          refine ⟨a1, a2, k, u, ?_, a4, a5⟩
          rw [kinds_append, assoc_append, a3]
        all := fun _ l hl => by
          rw [kinds_append, assoc_append] at hl
          cases hk : assoc (kinds done) l with
          | some k => exact inv.all rfl l (by simp [hk])
          | none =>
            rw [hk] at hl
            by_cases hl0 : l0 = l
            · subst hl0; simp [has]
            · simp [kinds, assoc, hl0] at hl }
    | none =>
      simp only [has] at hs
      cases hu : unitFromKind k0 with
      | none => simp [hu] at hs
      | some u =>
        simp [hu, Store.alloc] at hs
        obtain ⟨rfl, rfl⟩ := hs
        have hkn : assoc (kinds done) l0 = none := by
          cases hk : assoc (kinds done) l0 with
          | none => rfl
          | some k =>
            have := inv.all rfl l0 (by simp [hk])
            simp [has] at this
        exact {
          tmetas := inv.tmetas, dsets := inv.dsets, infos := inv.infos, dicts := inv.dicts, fmts := inv.fmts
          cols := ⟨by have := inv.cols.1; simp; omega, fun x hx => by
            have : x ≠ h.cols.next := by have := inv.cols.1; omega
            simp [this, inv.cols.2 x hx]⟩
          bound := by
            intro l r hm
            rcases List.mem_append.1 hm with hm | hm
            · have := inv.bound l r hm; simp; omega
            · simp at hm; simp [hm.2]
          old := by
            intro l r h0
            rw [assoc_append, inv.old l r h0]
          new := by
            intro l r h1 h2
            rw [assoc_append] at h1
            cases hal : assoc acc l with
            | some r' =>
              simp [hal] at h1
              subst h1
              obtain ⟨a1, a2, k, u', a3, a4, a5⟩ := inv.new l r' hal h2
              have hb := inv.bound l r' (assoc_mem hal)
              have hne : @Ne Nat r' h.cols.next := by omega
              refine ⟨a1, a2, k, u', ?_, a4, by simp [hne, a5]⟩
              rw [kinds_append, assoc_append, a3]
            | none =>
              simp [hal, assoc] at h1
              by_cases hl0 : l0 = l
              · subst hl0
                simp at h1
                subst h1
                refine ⟨rfl, inv.cols.1, k0, u, ?_, hu, by simp⟩
                rw [kinds_append, assoc_append, hkn]
                simp [kinds, assoc]
              · simp [hl0] at h1
          all := by
            intro _ l hl
            rw [assoc_append]
            rw [kinds_append, assoc_append] at hl
            cases hk : assoc (kinds done) l with
            | some k =>
              have := inv.all rfl l (by simp [hk])
              cases hal : assoc acc l with
              | some r => simp
              | none => simp [hal] at this
            | none =>
              rw [hk] at hl
              by_cases hl0 : l0 = l
              · subst hl0
                cases hal : assoc acc l0 with
                | some r => simp
                | none => simp [assoc]
              · simp [kinds, assoc, hl0] at hl }

theorem updLoop_inv {strict empty : Bool} {b : Heap} {acc0 : Acc} (cs : List (Label × Str × Char)) :
    ∀ {h : Heap} {acc : Acc} {done : List (Label × Str × Char)} {h' : Heap} {acc' : Acc},
    updLoop strict empty (h, acc) cs = .ok (h', acc') → UpdInv empty b h acc0 acc done →
    UpdInv empty b h' acc0 acc' (done ++ cs) := by
  induction cs with
  | nil =>
    intro h acc done h' acc' hl inv
    simp [updLoop] at hl
    obtain ⟨rfl, rfl⟩ := hl
    simpa using inv
  | cons c rest ih =>
    intro h acc done h' acc' hl inv
    unfold updLoop at hl
    cases hs : updStep strict empty (h, acc) c with
    | error e => simp [hs] at hl
    | ok st =>
      obtain ⟨h1, acc1⟩ := st
      simp [hs] at hl
      have := ih hl (updStep_inv hs inv)
      simpa using this


theorem assoc_filter_mem {β} (xs : List (Label × β)) (ls : List Label) (l : Label) (hl : l ∈ ls) :
    assoc (xs.filter (fun e => decide (e.1 ∈ ls))) l = assoc xs l := by
  induction xs with
  | nil => simp [assoc]
  | cons kv rest ih =>
    obtain ⟨k, v⟩ := kv
    by_cases hk : k = l
    · subst hk; simp [List.filter, hl, assoc]
    · by_cases hm : k ∈ ls
      · simp [List.filter, hm, assoc, hk, ih]
      · simp [List.filter, hm, assoc, hk, ih]

theorem assoc_ordered {β} (f : Label → Option β) (ls : List Label) (x : Label) :
    assoc (ls.filterMap (fun l => (f l).map (fun r => (l, r)))) x = if x ∈ ls then f x else none := by
  induction ls with
  | nil => simp [assoc]
  | cons l rest ih =>
    cases hf : f l with
    | none =>
      simp only [List.filterMap_cons, hf, Option.map_none]
      rw [ih]
      by_cases hx : l = x
      · subst hx; simp [hf]
      · have : ¬ x = l := fun e => hx e.symm
        simp [this]
    | some r =>
      simp only [List.filterMap_cons, hf, Option.map_some]
      by_cases hx : l = x
      · subst hx; simp [assoc, hf]
      · have : ¬ x = l := fun e => hx e.symm
        simp [assoc, hx, ih, this]

theorem mem_ordered {β} (f : Label → Option β) (ls : List Label) (l : Label) (r : β)
    (h : (l, r) ∈ ls.filterMap (fun l => (f l).map (fun r => (l, r)))) : f l = some r := by
  simp only [List.mem_filterMap] at h
  obtain ⟨a, _, ha⟩ := h
  cases hf : f a with
  | none => simp [hf] at ha
  | some v =>
    simp [hf] at ha
    obtain ⟨rfl, rfl⟩ := ha
    exact hf

/-- `_check_dataframe`: nothing happens when the remembered frame state (and strictness) is
    current; otherwise `_update_columns` runs and the register is re-ordered to the frame's column order -/
theorem checkDataframe_ok {h : Heap} {i : Nat} {fr : Frame} {h' : Heap} (hc : checkDataframe h i fr = .ok h') :
    ∃ inf tm, h.infos.get i = some inf ∧ h.tmetas.get inf.tmeta = some tm ∧
      ((inf.last = some (fr.state tm.strict) ∧ h' = h) ∨
       (inf.last ≠ some (fr.state tm.strict) ∧ hasDup fr.labels = false ∧ ∃ es hU acc,
          h.dicts.get inf.cols = some es ∧
          updLoop tm.strict fr.empty (h, es.filter (fun e => decide (e.1 ∈ fr.labels))) fr.cols = .ok (hU, acc) ∧
          h' = { hU with
                 dicts := hU.dicts.write inf.cols (fr.labels.filterMap (fun l => (assoc acc l).map (fun r => (l, r)))),
                 infos := hU.infos.write i ⟨inf.tmeta, inf.cols, some (fr.state tm.strict)⟩ })) := by
  unfold checkDataframe at hc
  unfold getInfo getTMeta at hc
  cases hi : h.infos.get i with
  | none => simp [hi] at hc
  | some inf =>
    simp only [hi] at hc
    cases htm0 : h.tmetas.get inf.tmeta with
    | none => simp [htm0] at hc
    | some tm =>
    refine ⟨inf, tm, rfl, htm0, ?_⟩
    simp only [htm0] at hc
    by_cases hl : inf.last = some (fr.state tm.strict)
    · simp [hl] at hc; exact Or.inl ⟨hl, hc.symm⟩
    · simp only [hl, if_false] at hc
      right
      unfold updateColumns at hc
      by_cases hd : hasDup fr.labels = true
      · simp [hd] at hc
      · have hd' : hasDup fr.labels = false := by simpa using hd
        simp only [hd', Bool.false_eq_true, if_false] at hc
        unfold getDict getTMeta at hc
        cases hes : h.dicts.get inf.cols with
        | none => simp [hes] at hc
        | some es =>
          simp only [hes, htm0] at hc
          cases hul : updLoop tm.strict fr.empty (h, es.filter (fun e => decide (e.1 ∈ fr.labels))) fr.cols with
          | error e => simp [hul] at hc
          | ok st =>
            obtain ⟨hU, acc⟩ := st
            simp [hul] at hc
            exact ⟨hl, hd', es, hU, acc, rfl, hul, hc.symm⟩

theorem UpdInv.init (empty : Bool) (b : Heap) (acc0 : Acc)
    (hb : ∀ l (r : Nat), (l, r) ∈ acc0 → r < b.cols.next) : UpdInv empty b b acc0 acc0 [] where
  tmetas := rfl
  dsets := rfl
  infos := rfl
  dicts := rfl
  fmts := rfl
  cols := Store.Ext.refl _
  bound := hb
  old := fun _ _ h => h
  new := fun l r h1 h2 => by rw [h1] at h2; cases h2
  all := fun _ l hl => by simp [kinds, assoc] at hl

/-- every object of `h`, of every kind, is still there in `h'`, unchanged -/
structure HeapExt (h h' : Heap) : Prop where
  dsets : Store.Ext h.dsets h'.dsets
  fmts : Store.Ext h.fmts h'.fmts
  cols : Store.Ext h.cols h'.cols
  dicts : Store.Ext h.dicts h'.dicts
  tmetas : Store.Ext h.tmetas h'.tmetas
  infos : Store.Ext h.infos h'.infos

theorem HeapExt.refl (h : Heap) : HeapExt h h :=
  ⟨Store.Ext.refl _, Store.Ext.refl _, Store.Ext.refl _, Store.Ext.refl _, Store.Ext.refl _, Store.Ext.refl _⟩

theorem HeapExt.trans {a b c : Heap} (h1 : HeapExt a b) (h2 : HeapExt b c) : HeapExt a c :=
  ⟨h1.dsets.trans h2.dsets, h1.fmts.trans h2.fmts, h1.cols.trans h2.cols, h1.dicts.trans h2.dicts,
   h1.tmetas.trans h2.tmetas, h1.infos.trans h2.infos⟩

/-- unit registered for label `l` in a dict (`None` when the label is not registered) -/
def unitIn (h : Heap) (es : List (Label × Ref)) (l : Label) : Option Str :=
  (assoc es l).bind (fun r => (h.cols.get r).map (fun cm => cm.unit))

/-- what a successful `__finalize__` that installs metadata leaves behind -/
structure FinFacts (h : Heap) (m : Option Str) (o : Other) (fr : Frame) (h' : Heap) (i : Nat) (w : List Warn)
    (src : List (Option Ref)) (warned : Bool) (d0 : Ref) (rest : List Ref) (parents : List Origin) (strict : Bool)
    (tm0 : TMeta) (xs : List Str) (items : List (Label × ColMeta)) (ordered : List (Label × Ref)) : Prop where
  sel : selectSources m o = .ok (src, warned)
  warn : w = (if warned then [Warn.unknownMethod] else [])
  src_data : src.filterMap id = d0 :: rest
  origins : originsOf h (d0 :: rest) = .ok parents
  meta0 : metaOf h d0 = .ok tm0
  dests0 : h.dsets.get tm0.dests = some xs
  src_items : sourceItems h (d0 :: rest) = .ok items
  ext : HeapExt h h'
  info_ref : i = h.infos.next
  info : h'.infos.get i = some ⟨h.tmetas.next, h.dicts.next, some (fr.state strict)⟩
  tmeta : h'.tmetas.get h.tmetas.next = some ⟨tm0.name, h.dsets.next, .node none parents (some (pandasOp m)), false, strict⟩
  dests : h'.dsets.get h.dsets.next = some xs.eraseDups
  dict : h'.dicts.get h.dicts.next = some ordered
  infos_next : h'.infos.next = h.infos.next + 1
  tmetas_next : h'.tmetas.next = h.tmetas.next + 1
  dicts_next : h'.dicts.next = h.dicts.next + 1
  dsets_next : h'.dsets.next = h.dsets.next + 1
  fresh : ∀ l (r : Nat), (l, r) ∈ ordered → h.cols.next ≤ r ∧ r < h'.cols.next ∧ ∃ cm, h'.cols.get r = some cm ∧
    ∀ (f : Nat), cm.dispFmt = some f → h.fmts.next ≤ f ∧ f < h'.fmts.next ∧ (h'.fmts.get f).isSome
  units : ∀ l, unitIn h' ordered l =
    if l ∈ fr.labels then
      match assoc items l with
      | some c => some c.unit
      | none => if fr.empty then none else (assoc (kinds fr.cols) l).bind unitFromKind
    else none
  agree : ∀ l c c', l ∈ fr.labels → (l, c) ∈ items → (l, c') ∈ items → c.unit = c'.unit


theorem assoc_kinds_isSome (cs : List (Label × Str × Char)) (l : Label) (hl : l ∈ cs.map (fun c => c.1)) :
    (assoc (kinds cs) l).isSome := by
  induction cs with
  | nil => simp at hl
  | cons c rest ih =>
    obtain ⟨l0, d0, k0⟩ := c
    by_cases h0 : l0 = l
    · simp [kinds, assoc, h0]
    · have : l ∈ rest.map (fun c => c.1) := by
        simp at hl
        rcases hl with hl | hl
        · exact absurd hl.symm h0
        · simpa using hl
      have := ih this
      simpa [kinds, assoc, h0] using this

theorem finalize_table_facts {h : Heap} {m : Option Str} {oi : Option Ref} {o : Other} {fr : Frame}
    {h' : Heap} {i : Nat} {w : List Warn} (hf : finalize h m oi o fr = .ok (h', .table i, w)) :
    ∃ src warned d0 rest parents strict tm0 xs items ordered,
      FinFacts h m o fr h' i w src warned d0 rest parents strict tm0 xs items ordered := by
  unfold finalize at hf
  cases hc : combine h m oi o fr.labels with
  | error e => simp [hc] at hf
  | ok p =>
    obtain ⟨hC, ri, w'⟩ := p
    cases ri with
    | none => simp [hc] at hf
    | some i' =>
      simp only [hc] at hf
      cases hcd : checkDataframe hC i' fr with
      | error e => simp [hcd] at hf
      | ok hF =>
        simp [hcd] at hf
        obtain ⟨rfl, rfl, rfl⟩ := hf
        obtain ⟨src, warned, d0, rest, parents, ns1, ns, tm0, h1, mref, items, h2, acc,
          hsel, hw, hdata, hor, hn1, hn2, hm0, hnt, hit, hl, hi, hC'⟩ := combine_some hc
        obtain ⟨hmref, xs, hxs, hh1⟩ := newTableMeta_ok hnt
        have inv := combineLoop_inv (b := h1) items hl (LoopInv.init fr.labels h1)
        simp only [List.nil_append] at inv
        -- the heap before the loop, field by field
        have e_cols : h1.cols = h.cols := by rw [hh1]
        have e_fmts : h1.fmts = h.fmts := by rw [hh1]
        have e_dicts : h1.dicts = h.dicts := by rw [hh1]
        have e_infos : h1.infos = h.infos := by rw [hh1]
        have e_dsets : h1.dsets = (h.dsets.alloc xs.eraseDups).1 := by rw [hh1]
        have e_tm : h1.tmetas = (h.tmetas.alloc ⟨tm0.name, tm0.dests, .node none parents (some (pandasOp m)), false, !ns⟩).1.write
            h.tmetas.next ⟨tm0.name, h.dsets.next, .node none parents (some (pandasOp m)), false, !ns⟩ := by rw [hh1]
        -- the consultation of the new info
        obtain ⟨inf, tmc, hinf, htmc, hcase⟩ := checkDataframe_ok hcd
        have hinf' : inf = ⟨mref, h2.dicts.next, none⟩ := by
          rw [hC', hi] at hinf
          simpa using hinf.symm
        subst hinf'
        have htmc' : tmc = ⟨tm0.name, h.dsets.next, .node none parents (some (pandasOp m)), false, !ns⟩ := by
          have e1 : hC.tmetas = h1.tmetas := by rw [hC']; exact inv.tmetas
          rw [e1, e_tm, hmref] at htmc
          simpa using htmc.symm
        subst htmc'
        rcases hcase with ⟨hlast, _⟩ | ⟨_, hdup, es, hU, accU, hes, hul, hF'⟩
        · simp at hlast
        have hes' : es = acc := by
          rw [hC'] at hes
          simpa using hes.symm
        subst hes'
        have hCcols : hC.cols = h2.cols := by rw [hC']
        have hCfmts : hC.fmts = h2.fmts := by rw [hC']
        have hkept : ∀ l (r : Nat), (l, r) ∈ es.filter (fun e => decide (e.1 ∈ fr.labels)) → (l, r) ∈ es :=
          fun l r hm => (List.mem_filter.1 hm).1
        have upd := updLoop_inv (b := hC) fr.cols hul
          (UpdInv.init fr.empty hC _ (fun l r hm => by rw [hCcols]; exact (inv.fresh l r (hkept l r hm)).2.1))
        simp only [List.nil_append] at upd
        have hFcols : hF.cols = hU.cols := by rw [hF']
        have hFfmts : hF.fmts = h2.fmts := by rw [hF']; show hU.fmts = h2.fmts; rw [upd.fmts, hCfmts]
        -- a column object of the loop's register is the same object in the final heap
        have hkeep : ∀ (r : Nat), r < h2.cols.next → hF.cols.get r = h2.cols.get r := by
          intro r hr
          rw [hFcols, upd.cols.2 r (by rw [hCcols]; exact hr), hCcols]
        have hassoc_kept : ∀ l, l ∈ fr.labels →
            assoc (es.filter (fun e => decide (e.1 ∈ fr.labels))) l = assoc es l :=
          fun l hl => assoc_filter_mem es fr.labels l hl
        refine ⟨src, warned, d0, rest, parents, !ns, tm0, xs, items,
          fr.labels.filterMap (fun l => (assoc accU l).map (fun r => (l, r))), ?_⟩
        exact {
          sel := hsel
          warn := hw
          src_data := hdata
          origins := hor
          meta0 := hm0
          dests0 := hxs
          src_items := hit
          ext := {
            dsets := by
              have : hF.dsets = (h.dsets.alloc xs.eraseDups).1 := by
                rw [hF']; show hU.dsets = _; rw [upd.dsets, hC']; show h2.dsets = _; rw [inv.dsets, e_dsets]
              rw [this]; exact Store.Ext.alloc _ _
            fmts := by rw [hFfmts, ← e_fmts]; exact inv.fmts
            cols := by
              rw [hFcols, ← e_cols]
              exact Store.Ext.trans inv.cols (by rw [← hCcols]; exact upd.cols)
            dicts := by
              have : hF.dicts = ((h.dicts.alloc es).1).write h.dicts.next
                  (fr.labels.filterMap (fun l => (assoc accU l).map (fun r => (l, r)))) := by
                rw [hF']; show hU.dicts.write _ _ = _; rw [upd.dicts, hC']
                show (h2.dicts.alloc es).1.write h2.dicts.next _ = _
                rw [inv.dicts, e_dicts]
              rw [this]
              exact Store.Ext.write (Store.Ext.alloc _ _) _ _ (Nat.le_refl _)
            tmetas := by
              have : hF.tmetas = h1.tmetas := by
                rw [hF']; show hU.tmetas = _; rw [upd.tmetas, hC']; exact inv.tmetas
              rw [this, e_tm]
              exact Store.Ext.write (Store.Ext.alloc _ _) _ _ (Nat.le_refl _)
            infos := by
              have : hF.infos = ((h.infos.alloc ⟨mref, h2.dicts.next, none⟩).1).write h.infos.next
                  ⟨mref, h2.dicts.next, some (fr.state (!ns))⟩ := by
                rw [hF']; show hU.infos.write _ _ = _; rw [upd.infos, hC', hi]
                show (h2.infos.alloc _).1.write h2.infos.next _ = _
                rw [inv.infos, e_infos]
              rw [this]
              exact Store.Ext.write (Store.Ext.alloc _ _) _ _ (Nat.le_refl _) }
          info_ref := by rw [hi, inv.infos, e_infos]
          info := by
            rw [hF']
            show (hU.infos.write i' _).get i' = _
            rw [hmref, inv.dicts, e_dicts]
            simp
          tmeta := by
            have : hF.tmetas = h1.tmetas := by
              rw [hF']; show hU.tmetas = _; rw [upd.tmetas, hC']; exact inv.tmetas
            rw [this, e_tm]; simp
          dests := by
            have : hF.dsets = (h.dsets.alloc xs.eraseDups).1 := by
              rw [hF']; show hU.dsets = _; rw [upd.dsets, hC']; show h2.dsets = _; rw [inv.dsets, e_dsets]
            rw [this]; simp
          dict := by
            rw [hF']
            show (hU.dicts.write h2.dicts.next _).get h.dicts.next = _
            rw [inv.dicts, e_dicts]; simp
          infos_next := by
            have : hF.infos = ((h.infos.alloc ⟨mref, h2.dicts.next, none⟩).1).write h.infos.next
                ⟨mref, h2.dicts.next, some (fr.state (!ns))⟩ := by
              rw [hF']; show hU.infos.write _ _ = _; rw [upd.infos, hC', hi]
              show (h2.infos.alloc _).1.write h2.infos.next _ = _
              rw [inv.infos, e_infos]
            rw [this]; rfl
          tmetas_next := by
            have : hF.tmetas = h1.tmetas := by
              rw [hF']; show hU.tmetas = _; rw [upd.tmetas, hC']; exact inv.tmetas
            rw [this, e_tm]; rfl
          dicts_next := by
            have : hF.dicts = ((h.dicts.alloc es).1).write h.dicts.next
                (fr.labels.filterMap (fun l => (assoc accU l).map (fun r => (l, r)))) := by
              rw [hF']; show hU.dicts.write _ _ = _; rw [upd.dicts, hC']
              show (h2.dicts.alloc es).1.write h2.dicts.next _ = _
              rw [inv.dicts, e_dicts]
            rw [this]; rfl
          dsets_next := by
            have : hF.dsets = (h.dsets.alloc xs.eraseDups).1 := by
              rw [hF']; show hU.dsets = _; rw [upd.dsets, hC']; show h2.dsets = _; rw [inv.dsets, e_dsets]
            rw [this]; rfl
          fresh := by
            intro l r hm
            have hacc := mem_ordered (fun l => assoc accU l) fr.labels l r hm
            have hbU : r < hF.cols.next := by rw [hFcols]; exact upd.bound l r (assoc_mem hacc)
            cases hk : assoc (es.filter (fun e => decide (e.1 ∈ fr.labels))) l with
            | some r0 =>
              have := upd.old l r0 hk
              rw [hacc] at this
              have hrr : r = r0 := Option.some.inj this
              subst hrr
              obtain ⟨b1, b2, cm, hcm, hfm⟩ := inv.fresh l r (hkept l r (assoc_mem hk))
              refine ⟨by rw [← e_cols]; exact b1, hbU, cm, by rw [hkeep r b2, hcm], ?_⟩
              intro f hf
              obtain ⟨c1, c2, c3⟩ := hfm f hf
              exact ⟨by rw [← e_fmts]; exact c1, by rw [hFfmts]; exact c2, by rw [hFfmts]; exact c3⟩
            | none =>
              obtain ⟨_, b2, k, u, _, _, hget⟩ := upd.new l r hacc hk
              refine ⟨?_, hbU, ⟨u, none, none⟩, by rw [hFcols, hget], by intro f hf; cases hf⟩
              have := inv.cols.1
              rw [hCcols] at b2
              rw [e_cols] at this
              omega
          units := by
            intro l
            unfold unitIn
            rw [assoc_ordered]
            by_cases hlab : l ∈ fr.labels
            · simp only [hlab, if_true]
              cases hit' : assoc items l with
              | some c =>
                obtain ⟨r', hr'⟩ := (inv.keys l).2 ⟨hlab, c, assoc_mem hit'⟩
                cases hacc : assoc es l with
                | none => exact absurd hr' ((assoc_none_iff es l).1 hacc r')
                | some r =>
                  have hmem := assoc_mem hacc
                  obtain ⟨cm, hcm, hu⟩ := inv.units l r c hmem (assoc_mem hit')
                  have hb := (inv.fresh l r hmem).2.1
                  have hk : assoc (es.filter (fun e => decide (e.1 ∈ fr.labels))) l = some r := by
                    rw [hassoc_kept l hlab, hacc]
                  rw [upd.old l r hk]
                  simp [hkeep r hb, hcm, hu]
              | none =>
                have hnone : assoc es l = none := by
                  cases hacc : assoc es l with
                  | none => rfl
                  | some r =>
                    obtain ⟨_, c, hc⟩ := (inv.keys l).1 ⟨r, assoc_mem hacc⟩
                    exact absurd hc ((assoc_none_iff items l).1 hit' c)
                have hk : assoc (es.filter (fun e => decide (e.1 ∈ fr.labels))) l = none := by
                  rw [hassoc_kept l hlab, hnone]
                cases hemp : fr.empty with
                | true =>
                  cases hU' : assoc accU l with
                  | none => simp
                  | some r =>
                    have := (upd.new l r hU' hk).1
                    rw [hemp] at this; cases this
                | false =>
                  have hsome := upd.all hemp l (assoc_kinds_isSome fr.cols l hlab)
                  cases hU' : assoc accU l with
                  | none => simp [hU'] at hsome
                  | some r =>
                    obtain ⟨_, _, k, u, hk1, hk2, hget⟩ := upd.new l r hU' hk
                    simp [hFcols, hget, hk1, hk2]
            · simp [hlab]
          agree := by
            intro l c c' hlab hc hc'
            obtain ⟨r, hr⟩ := (inv.keys l).2 ⟨hlab, c, hc⟩
            obtain ⟨cm, hcm, hu⟩ := inv.units l r c hr hc
            obtain ⟨cm', hcm', hu'⟩ := inv.units l r c' hr hc'
            rw [hcm] at hcm'
            have : cm = cm' := Option.some.inj hcm'
            subst this
            rw [← hu, ← hu'] }


/-! ## Reachability, agreement, observations -/

/-- the object exists in `h` -/
def locOld (h : Heap) : Loc → Prop
  | .dset r => r < h.dsets.next
  | .fmt r => r < h.fmts.next
  | .col r => r < h.cols.next
  | .dict r => r < h.dicts.next
  | .tmeta r => r < h.tmetas.next
  | .info r => r < h.infos.next

/-- the identity has not been handed out in `h` yet -/
def locFresh (h : Heap) : Loc → Prop
  | .dset r => h.dsets.next ≤ r
  | .fmt r => h.fmts.next ≤ r
  | .col r => h.cols.next ≤ r
  | .dict r => h.dicts.next ≤ r
  | .tmeta r => h.tmetas.next ≤ r
  | .info r => h.infos.next ≤ r

theorem not_old_of_fresh {h : Heap} {x : Loc} (hf : locFresh h x) : ¬ locOld h x := by
  cases x <;> simp [locFresh, locOld] at * <;> omega

/-- the object with identity `x` has the same content in both heaps -/
def AgreeOn (h h' : Heap) : Loc → Prop
  | .dset r => h'.dsets.get r = h.dsets.get r
  | .fmt r => h'.fmts.get r = h.fmts.get r
  | .col r => h'.cols.get r = h.cols.get r
  | .dict r => h'.dicts.get r = h.dicts.get r
  | .tmeta r => h'.tmetas.get r = h.tmetas.get r
  | .info r => h'.infos.get r = h.infos.get r

theorem HeapExt.agree {h h' : Heap} (e : HeapExt h h') {x : Loc} (hx : locOld h x) : AgreeOn h h' x := by
  cases x with
  | dset r => exact e.dsets.2 r hx
  | fmt r => exact e.fmts.2 r hx
  | col r => exact e.cols.2 r hx
  | dict r => exact e.dicts.2 r hx
  | tmeta r => exact e.tmetas.2 r hx
  | info r => exact e.infos.2 r hx

theorem HeapExt.old {h h' : Heap} (e : HeapExt h h') {x : Loc} (hx : locOld h x) : locOld h' x := by
  cases x with
  | dset r => exact Nat.lt_of_lt_of_le hx e.dsets.1
  | fmt r => exact Nat.lt_of_lt_of_le hx e.fmts.1
  | col r => exact Nat.lt_of_lt_of_le hx e.cols.1
  | dict r => exact Nat.lt_of_lt_of_le hx e.dicts.1
  | tmeta r => exact Nat.lt_of_lt_of_le hx e.tmetas.1
  | info r => exact Nat.lt_of_lt_of_le hx e.infos.1

theorem mem_cols_part (h : Heap) (es : List (Label × Ref)) (x : Loc) :
    ((∃ a b, (a, b) ∈ es ∧ Loc.col b = x) ∨
      ∃ a, (∃ a_1 b, (a_1, b) ∈ es ∧
        (match h.cols.get b with
          | some cm => cm.dispFmt
          | none => none) = some a) ∧ Loc.fmt a = x) ↔
    ∃ x_1 x_2, (x_1, x_2) ∈ es ∧
      (x = Loc.col x_2 ∨ ∃ cm, h.cols.get x_2 = some cm ∧ ∃ x_3, cm.dispFmt = some x_3 ∧ x = Loc.fmt x_3) := by
  constructor
  · rintro (⟨a, b, hm, rfl⟩ | ⟨f, ⟨a, b, hm, hf⟩, rfl⟩)
    · exact ⟨a, b, hm, Or.inl rfl⟩
    · cases hc : h.cols.get b with
      | none => simp [hc] at hf
      | some cm =>
        simp [hc] at hf
        exact ⟨a, b, hm, Or.inr ⟨cm, hc, f, hf, rfl⟩⟩
  · rintro ⟨a, b, hm, (rfl | ⟨cm, hc, f, hf, rfl⟩)⟩
    · exact Or.inl ⟨a, b, hm, rfl⟩
    · exact Or.inr ⟨f, ⟨a, b, hm, by simp [hc, hf]⟩, rfl⟩

/-- membership in `reach`, spelled out -/
theorem mem_reach {h : Heap} {s : Nat} {x : Loc} :
    x ∈ reach h s ↔
      x = .info s ∨ ∃ inf, h.infos.get s = some inf ∧
        (x = .tmeta inf.tmeta ∨ x = .dict inf.cols ∨
         (∃ tm, h.tmetas.get inf.tmeta = some tm ∧ x = .dset tm.dests) ∨
         (∃ es l, ∃ (r : Nat), h.dicts.get inf.cols = some es ∧ (l, r) ∈ es ∧
            (x = .col r ∨ ∃ cm, ∃ (f : Nat), h.cols.get r = some cm ∧ cm.dispFmt = some f ∧ x = .fmt f))) := by
  unfold reach
  cases hi : h.infos.get s with
  | none => simp
  | some inf =>
    cases htm : h.tmetas.get inf.tmeta <;> cases hes : h.dicts.get inf.cols
    · simp [htm, hes]
    · simp [htm, hes]
      exact or_congr_right (or_congr_right (or_congr_right (mem_cols_part h _ x)))
    · simp [htm, hes]
    · simp [htm, hes]
      exact or_congr_right (or_congr_right (or_congr_right (or_congr_right (mem_cols_part h _ x))))


theorem obsCols_congr {h h' : Heap} (es : List (Label × Ref))
    (hc : ∀ l (r : Nat), (l, r) ∈ es → h'.cols.get r = h.cols.get r)
    (hf : ∀ l (r : Nat) cm (f : Nat), (l, r) ∈ es → h.cols.get r = some cm → cm.dispFmt = some f →
      h'.fmts.get f = h.fmts.get f) :
    obsCols h' es = obsCols h es := by
  induction es with
  | nil => rfl
  | cons e rest ih =>
    obtain ⟨l, r⟩ := e
    have ih' := ih (fun l r hm => hc l r (List.mem_cons_of_mem _ hm))
      (fun l r cm f hm => hf l r cm f (List.mem_cons_of_mem _ hm))
    unfold obsCols
    rw [hc l r List.mem_cons_self, ih']
    cases hcm : h.cols.get r with
    | none => rfl
    | some cm =>
      cases hdf : cm.dispFmt with
      | none => simp [hdf]
      | some f => simp [hdf, hf l r cm f List.mem_cons_self hcm hdf]

/-- the agreement facts along everything reachable from `s` -/
structure AgreeReach (h h' : Heap) (s : Nat) : Prop where
  info : h'.infos.get s = h.infos.get s
  tmeta : ∀ inf, h.infos.get s = some inf → h'.tmetas.get inf.tmeta = h.tmetas.get inf.tmeta
  dict : ∀ inf, h.infos.get s = some inf → h'.dicts.get inf.cols = h.dicts.get inf.cols
  dset : ∀ inf tm, h.infos.get s = some inf → h.tmetas.get inf.tmeta = some tm →
    h'.dsets.get tm.dests = h.dsets.get tm.dests
  col : ∀ inf es l (r : Nat), h.infos.get s = some inf → h.dicts.get inf.cols = some es → (l, r) ∈ es →
    h'.cols.get r = h.cols.get r
  fmt : ∀ inf es l (r : Nat) cm (f : Nat), h.infos.get s = some inf → h.dicts.get inf.cols = some es → (l, r) ∈ es →
    h.cols.get r = some cm → cm.dispFmt = some f → h'.fmts.get f = h.fmts.get f

theorem agreeReach_of {h h' : Heap} {s : Nat} (ha : ∀ x, x ∈ reach h s → AgreeOn h h' x) : AgreeReach h h' s where
  info := ha (.info s) (mem_reach.2 (Or.inl rfl))
  tmeta := fun inf hi => ha (.tmeta inf.tmeta) (mem_reach.2 (Or.inr ⟨inf, hi, Or.inl rfl⟩))
  dict := fun inf hi => ha (.dict inf.cols) (mem_reach.2 (Or.inr ⟨inf, hi, Or.inr (Or.inl rfl)⟩))
  dset := fun inf tm hi htm =>
    ha (.dset tm.dests) (mem_reach.2 (Or.inr ⟨inf, hi, Or.inr (Or.inr (Or.inl ⟨tm, htm, rfl⟩))⟩))
  col := fun inf es l r hi hes hm =>
    ha (.col r) (mem_reach.2 (Or.inr ⟨inf, hi, Or.inr (Or.inr (Or.inr ⟨es, l, r, hes, hm, Or.inl rfl⟩))⟩))
  fmt := fun inf es l r cm f hi hes hm hc hf =>
    ha (.fmt f) (mem_reach.2 (Or.inr ⟨inf, hi,
      Or.inr (Or.inr (Or.inr ⟨es, l, r, hes, hm, Or.inr ⟨cm, f, hc, hf, rfl⟩⟩))⟩))

/-- observations depend only on the reachable objects -/
theorem observe_congr {h h' : Heap} {s : Nat} (ha : ∀ x, x ∈ reach h s → AgreeOn h h' x) :
    observe h' s = observe h s := by
  have a := agreeReach_of ha
  unfold observe
  rw [a.info]
  cases hi : h.infos.get s with
  | none => rfl
  | some inf =>
    simp only []
    rw [a.tmeta inf hi]
    cases htm : h.tmetas.get inf.tmeta with
    | none => rfl
    | some tm =>
      simp only []
      rw [a.dset inf tm hi htm]
      cases hds : h.dsets.get tm.dests with
      | none => rfl
      | some ds =>
        simp only []
        rw [a.dict inf hi]
        cases hes : h.dicts.get inf.cols with
        | none => rfl
        | some es =>
          simp only []
          rw [obsCols_congr es (fun l r hm => a.col inf es l r hi hes hm)
            (fun l r cm f hm hc hf => a.fmt inf es l r cm f hi hes hm hc hf)]

/-- … and so does reachability itself -/
theorem reach_congr {h h' : Heap} {s : Nat} (ha : ∀ x, x ∈ reach h s → AgreeOn h h' x) (x : Loc) :
    x ∈ reach h' s ↔ x ∈ reach h s := by
  have a := agreeReach_of ha
  rw [mem_reach, mem_reach]
  constructor
  · rintro (h1 | ⟨inf, hi', h1⟩)
    · exact Or.inl h1
    · have hi : h.infos.get s = some inf := by rw [← a.info]; exact hi'
      refine Or.inr ⟨inf, hi, ?_⟩
      rcases h1 with h1 | h1 | ⟨tm, htm, h1⟩ | ⟨es, l, r, hes, hm, h1⟩
      · exact Or.inl h1
      · exact Or.inr (Or.inl h1)
      · exact Or.inr (Or.inr (Or.inl ⟨tm, by rw [← a.tmeta inf hi]; exact htm, h1⟩))
      · have hes' : h.dicts.get inf.cols = some es := by rw [← a.dict inf hi]; exact hes
        refine Or.inr (Or.inr (Or.inr ⟨es, l, r, hes', hm, ?_⟩))
        rcases h1 with h1 | ⟨cm, f, hc, hf, h1⟩
        · exact Or.inl h1
        · exact Or.inr ⟨cm, f, by rw [← a.col inf es l r hi hes' hm]; exact hc, hf, h1⟩
  · rintro (h1 | ⟨inf, hi, h1⟩)
    · exact Or.inl h1
    · refine Or.inr ⟨inf, by rw [a.info]; exact hi, ?_⟩
      rcases h1 with h1 | h1 | ⟨tm, htm, h1⟩ | ⟨es, l, r, hes, hm, h1⟩
      · exact Or.inl h1
      · exact Or.inr (Or.inl h1)
      · exact Or.inr (Or.inr (Or.inl ⟨tm, by rw [a.tmeta inf hi]; exact htm, h1⟩))
      · refine Or.inr (Or.inr (Or.inr ⟨es, l, r, by rw [a.dict inf hi]; exact hes, hm, ?_⟩))
        rcases h1 with h1 | ⟨cm, f, hc, hf, h1⟩
        · exact Or.inl h1
        · exact Or.inr ⟨cm, f, by rw [a.col inf es l r hi hes hm]; exact hc, hf, h1⟩


/-! ## Follow-up mutations touch only what is reachable from the mutated info -/

/-- everything reachable from `s` exists -/
def Alloc (h : Heap) (s : Nat) : Prop := ∀ x, x ∈ reach h s → locOld h x

/-- `h'` results from `h` by a change confined to the objects reachable from `s` (plus new objects) -/
structure FrameOf (h h' : Heap) (s : Nat) : Prop where
  mono : ∀ x, locOld h x → locOld h' x
  agree : ∀ x, locOld h x → x ∉ reach h s → AgreeOn h h' x
  grow : ∀ x, x ∈ reach h' s → (x ∈ reach h s ∨ locFresh h x) ∧ locOld h' x

theorem FrameOf.refl {h : Heap} {s : Nat} (ha : Alloc h s) : FrameOf h h s where
  mono := fun _ hx => hx
  agree := fun x _ _ => by cases x <;> rfl
  grow := fun x hx => ⟨Or.inl hx, ha x hx⟩

/-- replacing the content of a reachable column object, keeping its format reference -/
theorem frame_colwrite {h : Heap} {s : Nat} {inf : Info} {es : List (Label × Ref)} {l : Label} {r : Nat}
    {cm cm' : ColMeta} (ha : Alloc h s) (hi : h.infos.get s = some inf) (hes : h.dicts.get inf.cols = some es)
    (hm : (l, r) ∈ es) (hc : h.cols.get r = some cm) (hfmt : cm'.dispFmt = cm.dispFmt) :
    FrameOf h { h with cols := h.cols.write r cm' } s where
  mono := fun x hx => by cases x <;> exact hx
  agree := fun x _ hnr => by
    cases x with
    | col r' =>
      have : r' ≠ r := by
        intro e; subst e
        exact hnr (mem_reach.2 (Or.inr ⟨inf, hi, Or.inr (Or.inr (Or.inr ⟨es, l, r', hes, hm, Or.inl rfl⟩))⟩))
      simp [AgreeOn, this]
    | _ => rfl
  grow := fun x hx => by
    have hx' : x ∈ reach h s := by
      rw [mem_reach] at hx ⊢
      rcases hx with h1 | ⟨inf', hi', h1⟩
      · exact Or.inl h1
      · refine Or.inr ⟨inf', hi', ?_⟩
        rcases h1 with h1 | h1 | ⟨tm, htm, h1⟩ | ⟨es', l', r', hes', hm', h1⟩
        · exact Or.inl h1
        · exact Or.inr (Or.inl h1)
        · exact Or.inr (Or.inr (Or.inl ⟨tm, htm, h1⟩))
        · refine Or.inr (Or.inr (Or.inr ⟨es', l', r', hes', hm', ?_⟩))
          rcases h1 with h1 | ⟨cm2, f, hc2, hf2, h1⟩
          · exact Or.inl h1
          · by_cases hrr : r' = r
            · subst hrr
              simp at hc2
              subst hc2
              exact Or.inr ⟨cm, f, hc, by rw [← hfmt]; exact hf2, h1⟩
            · simp [hrr] at hc2
              exact Or.inr ⟨cm2, f, hc2, hf2, h1⟩
    refine ⟨Or.inl hx', ?_⟩
    have := ha x hx'
    cases x <;> exact this

/-- a consultation (`_check_dataframe`, incl. `_update_columns` deleting stale entries, registering
    new columns and re-ordering the dict in place) touches only the info itself and its dict, and
    allocates the column objects of newly registered columns -/
theorem checkDataframe_frame {h : Heap} {s : Nat} {fr : Frame} {h' : Heap}
    (hc : checkDataframe h s fr = .ok h') (ha : Alloc h s) : FrameOf h h' s := by
  obtain ⟨inf, tm, hi, htm, hcase⟩ := checkDataframe_ok hc
  rcases hcase with ⟨_, rfl⟩ | ⟨_, hdup, es, hU, accU, hes, hul, hF'⟩
  · exact FrameOf.refl ha
  have hold : ∀ l' (r' : Nat), (l', r') ∈ es → r' < h.cols.next := fun l' r' hm' =>
    ha (.col r') (mem_reach.2 (Or.inr ⟨inf, hi, Or.inr (Or.inr (Or.inr ⟨es, l', r', hes, hm', Or.inl rfl⟩))⟩))
  have hkept : ∀ l (r : Nat), (l, r) ∈ es.filter (fun e => decide (e.1 ∈ fr.labels)) → (l, r) ∈ es :=
    fun l r hm => (List.mem_filter.1 hm).1
  have upd := updLoop_inv (b := h) fr.cols hul
    (UpdInv.init fr.empty h _ (fun l r hm => hold l r (hkept l r hm)))
  simp only [List.nil_append] at upd
  have hcols : h'.cols = hU.cols := by rw [hF']
  have hfmts : h'.fmts = h.fmts := by rw [hF']; exact upd.fmts
  have hdsets : h'.dsets = h.dsets := by rw [hF']; exact upd.dsets
  have htmetas : h'.tmetas = h.tmetas := by rw [hF']; exact upd.tmetas
  have hdicts : h'.dicts = h.dicts.write inf.cols
      (fr.labels.filterMap (fun l => (assoc accU l).map (fun r => (l, r)))) := by
    rw [hF']; show hU.dicts.write _ _ = _; rw [upd.dicts]
  have hinfos : h'.infos = h.infos.write s ⟨inf.tmeta, inf.cols, some (fr.state tm.strict)⟩ := by
    rw [hF']; show hU.infos.write _ _ = _; rw [upd.infos]
  have hmono : ∀ x, locOld h x → locOld h' x := by
    intro x hx
    cases x with
    | col r => show r < h'.cols.next; rw [hcols]; exact Nat.lt_of_lt_of_le hx upd.cols.1
    | fmt r => show r < h'.fmts.next; rw [hfmts]; exact hx
    | dset r => show r < h'.dsets.next; rw [hdsets]; exact hx
    | tmeta r => show r < h'.tmetas.next; rw [htmetas]; exact hx
    | dict r => show r < h'.dicts.next; rw [hdicts]; exact hx
    | info r => show r < h'.infos.next; rw [hinfos]; exact hx
  exact {
    mono := hmono
    agree := fun x hox hnr => by
      cases x with
      | col r => show h'.cols.get r = h.cols.get r; rw [hcols]; exact upd.cols.2 r hox
      | fmt r => show h'.fmts.get r = h.fmts.get r; rw [hfmts]
      | dset r => show h'.dsets.get r = h.dsets.get r; rw [hdsets]
      | tmeta r => show h'.tmetas.get r = h.tmetas.get r; rw [htmetas]
      | dict r =>
        have : r ≠ inf.cols := by
          intro e; subst e
          exact hnr (mem_reach.2 (Or.inr ⟨inf, hi, Or.inr (Or.inl rfl)⟩))
        show h'.dicts.get r = h.dicts.get r
        rw [hdicts]; simp [this]
      | info r =>
        have : r ≠ s := by
          intro e; subst e
          exact hnr (mem_reach.2 (Or.inl rfl))
        show h'.infos.get r = h.infos.get r
        rw [hinfos]; simp [this]
    grow := fun x hx => by
      rw [mem_reach] at hx
      have key : x ∈ reach h s ∨ (locFresh h x ∧ locOld h' x) := by
        rcases hx with h1 | ⟨inf', hi', h1⟩
        · exact Or.inl (mem_reach.2 (Or.inl h1))
        · rw [hinfos] at hi'
          simp at hi'
          subst hi'
          rcases h1 with h1 | h1 | ⟨tm', htm', h1⟩ | ⟨es', l, r, hes', hm, h1⟩
          · exact Or.inl (mem_reach.2 (Or.inr ⟨inf, hi, Or.inl h1⟩))
          · exact Or.inl (mem_reach.2 (Or.inr ⟨inf, hi, Or.inr (Or.inl h1)⟩))
          · rw [htmetas] at htm'
            exact Or.inl (mem_reach.2 (Or.inr ⟨inf, hi, Or.inr (Or.inr (Or.inl ⟨tm', htm', h1⟩))⟩))
          · rw [hdicts] at hes'
            simp at hes'
            subst hes'
            have hacc := mem_ordered (fun l => assoc accU l) fr.labels l r hm
            cases hk : assoc (es.filter (fun e => decide (e.1 ∈ fr.labels))) l with
            | some r0 =>
              have := upd.old l r0 hk
              rw [hacc] at this
              have hrr : r = r0 := Option.some.inj this
              subst hrr
              have hmes := hkept l r (assoc_mem hk)
              have hlt := hold l r hmes
              rcases h1 with h1 | ⟨cm2, f, hc2, hf2, h1⟩
              · exact Or.inl (mem_reach.2 (Or.inr ⟨inf, hi, Or.inr (Or.inr (Or.inr
                  ⟨es, l, r, hes, hmes, Or.inl h1⟩))⟩))
              · rw [hcols, upd.cols.2 r hlt] at hc2
                exact Or.inl (mem_reach.2 (Or.inr ⟨inf, hi, Or.inr (Or.inr (Or.inr
                  ⟨es, l, r, hes, hmes, Or.inr ⟨cm2, f, hc2, hf2, h1⟩⟩))⟩))
            | none =>
              obtain ⟨_, b2, k, u, _, _, hget⟩ := upd.new l r hacc hk
              have hbU : r < h'.cols.next := by rw [hcols]; exact upd.bound l r (assoc_mem hacc)
              rcases h1 with h1 | ⟨cm2, f, hc2, hf2, h1⟩
              · subst h1
                exact Or.inr ⟨b2, hbU⟩
              · rw [hcols, hget] at hc2
                have : cm2 = ⟨u, none, none⟩ := (Option.some.inj hc2).symm
                subst this
                simp at hf2
      rcases key with hx' | ⟨h1, h2⟩
      · exact ⟨Or.inl hx', hmono x (ha x hx')⟩
      · exact ⟨Or.inr h1, h2⟩ }

/-- forgetting the remembered frame state of `s` (`_last_dataframe_state = None`) on top of a
    change confined to `s` is still confined to `s` -/
theorem frame_reset_last {h h' : Heap} {s : Nat} {inf : Info} (hf : FrameOf h h' s)
    (hi' : h'.infos.get s = some inf) :
    FrameOf h { h' with infos := h'.infos.write s ⟨inf.tmeta, inf.cols, none⟩ } s where
  mono := fun x hx => by
    have := hf.mono x hx
    cases x <;> exact this
  agree := fun x hox hnr => by
    have hag := hf.agree x hox hnr
    cases x with
    | info r =>
      have : r ≠ s := by
        intro e; subst e
        exact hnr (mem_reach.2 (Or.inl rfl))
      show (h'.infos.write s _).get r = h.infos.get r
      simp [this]; exact hag
    | _ => exact hag
  grow := fun x hx => by
    have hx' : x ∈ reach h' s := by
      rw [mem_reach] at hx ⊢
      rcases hx with h1 | ⟨inf', hi'', h1⟩
      · exact Or.inl h1
      · simp at hi''
        subst hi''
        exact Or.inr ⟨inf, hi', h1⟩
    have := hf.grow x hx'
    refine ⟨this.1, ?_⟩
    have h2 := this.2
    cases x <;> exact h2

theorem mutate_frame {h : Heap} {s : Nat} {mu : Mut} {h' : Heap} (hm : mutate h s mu = .ok h') (ha : Alloc h s) :
    FrameOf h h' s := by
  unfold mutate at hm
  unfold getInfo at hm
  cases hi : h.infos.get s with
  | none => simp [hi] at hm
  | some inf =>
    simp only [hi] at hm
    cases mu with
    | consult fr =>
      simp only at hm
      exact checkDataframe_frame hm ha
    | setName n =>
      simp only [getTMeta] at hm
      cases htm : h.tmetas.get inf.tmeta with
      | none => simp [htm] at hm
      | some tm =>
        simp [htm] at hm
        subst hm
        exact {
          mono := fun x hx => by cases x <;> exact hx
          agree := fun x _ hnr => by
            cases x with
            | tmeta r' =>
              have : r' ≠ inf.tmeta := by
                intro e; subst e
                exact hnr (mem_reach.2 (Or.inr ⟨inf, hi, Or.inl rfl⟩))
              simp [AgreeOn, this]
            | _ => rfl
          grow := fun x hx => by
            have hx' : x ∈ reach h s := by
              rw [mem_reach] at hx ⊢
              rcases hx with h1 | ⟨inf', hi', h1⟩
              · exact Or.inl h1
              · have : inf' = inf := by simp at hi'; rw [hi] at hi'; exact (Option.some.inj hi').symm
                subst this
                refine Or.inr ⟨inf', hi, ?_⟩
                rcases h1 with h1 | h1 | ⟨tm', htm', h1⟩ | h1
                · exact Or.inl h1
                · exact Or.inr (Or.inl h1)
                · simp at htm'
                  subst htm'
                  exact Or.inr (Or.inr (Or.inl ⟨tm, htm, h1⟩))
                · exact Or.inr (Or.inr (Or.inr h1))
            refine ⟨Or.inl hx', ?_⟩
            have := ha x hx'
            cases x <;> exact this }
    | addDest d =>
      simp only [getTMeta] at hm
      cases htm : h.tmetas.get inf.tmeta with
      | none => simp [htm] at hm
      | some tm =>
        simp only [htm] at hm
        cases hds : h.dsets.get tm.dests with
        | none => simp [hds] at hm
        | some xs =>
          simp [hds] at hm
          subst hm
          exact {
            mono := fun x hx => by cases x <;> exact hx
            agree := fun x _ hnr => by
              cases x with
              | dset r' =>
                have : r' ≠ tm.dests := by
                  intro e; subst e
                  exact hnr (mem_reach.2 (Or.inr ⟨inf, hi, Or.inr (Or.inr (Or.inl ⟨tm, htm, rfl⟩))⟩))
                simp [AgreeOn, this]
              | _ => rfl
            grow := fun x hx => by
              have hx' : x ∈ reach h s := by
                rw [mem_reach] at hx ⊢
                exact hx
              refine ⟨Or.inl hx', ?_⟩
              have := ha x hx'
              cases x <;> exact this }
    | removeDest d =>
      simp only [getTMeta] at hm
      cases htm : h.tmetas.get inf.tmeta with
      | none => simp [htm] at hm
      | some tm =>
        simp only [htm] at hm
        cases hds : h.dsets.get tm.dests with
        | none => simp [hds] at hm
        | some xs =>
          simp [hds] at hm
          subst hm
          exact {
            mono := fun x hx => by cases x <;> exact hx
            agree := fun x _ hnr => by
              cases x with
              | dset r' =>
                have : r' ≠ tm.dests := by
                  intro e; subst e
                  exact hnr (mem_reach.2 (Or.inr ⟨inf, hi, Or.inr (Or.inr (Or.inl ⟨tm, htm, rfl⟩))⟩))
                simp [AgreeOn, this]
              | _ => rfl
            grow := fun x hx => by
              have hx' : x ∈ reach h s := by
                rw [mem_reach] at hx ⊢
                exact hx
              refine ⟨Or.inl hx', ?_⟩
              have := ha x hx'
              cases x <;> exact this }
    | setUnit l u =>
      simp only [getDict, getCol] at hm
      cases hes : h.dicts.get inf.cols with
      | none => simp [hes] at hm
      | some es =>
        simp only [hes] at hm
        cases hal : assoc es l with
        | none => simp [hal] at hm
        | some r =>
          simp only [hal] at hm
          cases hc : h.cols.get r with
          | none => simp [hc] at hm
          | some cm =>
            simp [hc] at hm
            subst hm
            exact frame_colwrite ha hi hes (assoc_mem hal) hc rfl
    | setDispUnit l u =>
      simp only [getDict, getCol] at hm
      cases hes : h.dicts.get inf.cols with
      | none => simp [hes] at hm
      | some es =>
        simp only [hes] at hm
        cases hal : assoc es l with
        | none => simp [hal] at hm
        | some r =>
          simp only [hal] at hm
          cases hc : h.cols.get r with
          | none => simp [hc] at hm
          | some cm =>
            simp [hc] at hm
            subst hm
            exact frame_colwrite ha hi hes (assoc_mem hal) hc rfl
    | setFmt l spec =>
      simp only [getDict, getCol] at hm
      cases hes : h.dicts.get inf.cols with
      | none => simp [hes] at hm
      | some es =>
        simp only [hes] at hm
        cases hal : assoc es l with
        | none => simp [hal] at hm
        | some r =>
          simp only [hal] at hm
          cases hc : h.cols.get r with
          | none => simp [hc] at hm
          | some cm =>
            simp only [hc] at hm
            cases hdf : cm.dispFmt with
            | none =>
              simp [hdf] at hm
              subst hm
              exact FrameOf.refl ha
            | some f =>
              simp [hdf] at hm
              subst hm
              exact {
                mono := fun x hx => by cases x <;> exact hx
                agree := fun x _ hnr => by
                  cases x with
                  | fmt r' =>
                    have : r' ≠ f := by
                      intro e; subst e
                      exact hnr (mem_reach.2 (Or.inr ⟨inf, hi, Or.inr (Or.inr (Or.inr
                        ⟨es, l, r, hes, assoc_mem hal, Or.inr ⟨cm, r', hc, hdf, rfl⟩⟩))⟩))
                    simp [AgreeOn, this]
                  | _ => rfl
                grow := fun x hx => by
                  have hx' : x ∈ reach h s := by
                    rw [mem_reach] at hx ⊢
                    exact hx
                  refine ⟨Or.inl hx', ?_⟩
                  have := ha x hx'
                  cases x <;> exact this }
    | addColumn l u =>
      simp only [getDict] at hm
      cases hes : h.dicts.get inf.cols with
      | none => simp [hes] at hm
      | some es =>
        simp only [hes] at hm
        -- every registered column object exists
        have hold : ∀ l' (r' : Nat), (l', r') ∈ es → r' < h.cols.next := fun l' r' hm' =>
          ha (.col r') (mem_reach.2 (Or.inr ⟨inf, hi, Or.inr (Or.inr (Or.inr ⟨es, l', r', hes, hm', Or.inl rfl⟩))⟩))
        cases hal : assoc es l with
        | none =>
          simp [hal, Store.alloc] at hm
          subst hm
          have hf2 : FrameOf h ({ h with
              cols := ⟨h.cols.next + 1, fun r => if r = h.cols.next then some ⟨u, none, none⟩ else h.cols.get r⟩,
              dicts := h.dicts.write inf.cols (es ++ [(l, h.cols.next)]) } : Heap) s := {
              mono := fun x hx => by
                cases x with
                | col r' => exact Nat.lt_succ_of_lt hx
                | _ => exact hx
              agree := fun x hox hnr => by
                cases x with
                | col r' =>
                  have : r' ≠ h.cols.next := Nat.ne_of_lt hox
                  simp [AgreeOn, this]
                | dict r' =>
                  have : r' ≠ inf.cols := by
                    intro e; subst e
                    exact hnr (mem_reach.2 (Or.inr ⟨inf, hi, Or.inr (Or.inl rfl)⟩))
                  simp [AgreeOn, this]
                | _ => rfl
              grow := fun x hx => by
                rw [mem_reach] at hx
                have key : (x ∈ reach h s) ∨ x = .col h.cols.next := by
                  rcases hx with h1 | ⟨inf', hi', h1⟩
                  · exact Or.inl (mem_reach.2 (Or.inl h1))
                  · have : inf' = inf := by simp at hi'; rw [hi] at hi'; exact (Option.some.inj hi').symm
                    subst this
                    rcases h1 with h1 | h1 | ⟨tm, htm, h1⟩ | ⟨es', l', r', hes', hm', h1⟩
                    · exact Or.inl (mem_reach.2 (Or.inr ⟨inf', hi, Or.inl h1⟩))
                    · exact Or.inl (mem_reach.2 (Or.inr ⟨inf', hi, Or.inr (Or.inl h1)⟩))
                    · exact Or.inl (mem_reach.2 (Or.inr ⟨inf', hi, Or.inr (Or.inr (Or.inl ⟨tm, htm, h1⟩))⟩))
                    · simp at hes'
                      subst hes'
                      rcases List.mem_append.1 hm' with hm' | hm'
                      · have hne : r' ≠ h.cols.next := Nat.ne_of_lt (hold l' r' hm')
                        rcases h1 with h1 | ⟨cm2, f, hc2, hf2, h1⟩
                        · exact Or.inl (mem_reach.2 (Or.inr ⟨inf', hi, Or.inr (Or.inr (Or.inr
                            ⟨es, l', r', hes, hm', Or.inl h1⟩))⟩))
                        · simp [hne] at hc2
                          exact Or.inl (mem_reach.2 (Or.inr ⟨inf', hi, Or.inr (Or.inr (Or.inr
                            ⟨es, l', r', hes, hm', Or.inr ⟨cm2, f, hc2, hf2, h1⟩⟩))⟩))
                      · simp at hm'
                        obtain ⟨rfl, rfl⟩ := hm'
                        rcases h1 with h1 | ⟨cm2, f, hc2, hf2, h1⟩
                        · exact Or.inr h1
                        · simp at hc2
                          subst hc2
                          simp at hf2
                rcases key with hx' | rfl
                · refine ⟨Or.inl hx', ?_⟩
                  have := ha x hx'
                  cases x with
                  | col r' => exact Nat.lt_succ_of_lt this
                  | _ => exact this
                · exact ⟨Or.inr (Nat.le_refl _), Nat.lt_succ_self _⟩ }
          exact frame_reset_last hf2 (by simpa using hi)
        | some old =>
          simp only [hal] at hm
          split at hm
          · simp at hm
          rename_i h2 huf
          simp at hm
          subst hm
          obtain ⟨sold, hsold, st⟩ := updateFrom_ok huf
          simp [Store.alloc] at hsold st
          have holdlt : old < h.cols.next := hold l old (assoc_mem hal)
          have hne0 : old ≠ h.cols.next := Nat.ne_of_lt holdlt
          simp [hne0] at hsold
          obtain ⟨cm', hcm', hunit', hfmt'⟩ := st.cols_a
          have hf2 : FrameOf h h2 s := {
            mono := fun x hx => by
              cases x with
              | col r' =>
                have hn : h2.cols.next = h.cols.next + 1 := by simpa using st.cols_next
                show r' < h2.cols.next
                rw [hn]; exact Nat.lt_succ_of_lt hx
              | fmt r' => exact Nat.lt_of_lt_of_le hx st.fmts.1
              | dset r' => simp [locOld] at hx ⊢; rw [st.dsets]; exact hx
              | dict r' => simp [locOld] at hx ⊢; rw [st.dicts]; exact hx
              | tmeta r' => simp [locOld] at hx ⊢; rw [st.tmetas]; exact hx
              | info r' => simp [locOld] at hx ⊢; rw [st.infos]; exact hx
            agree := fun x hox hnr => by
              cases x with
              | col r' =>
                have h1 : r' ≠ old := by
                  intro e; subst e
                  exact hnr (mem_reach.2 (Or.inr ⟨inf, hi, Or.inr (Or.inr (Or.inr
                    ⟨es, l, r', hes, assoc_mem hal, Or.inl rfl⟩))⟩))
                have h2 : r' ≠ h.cols.next := Nat.ne_of_lt hox
                have := st.cols_other r' h1
                simp [h2] at this
                exact this
              | fmt r' => exact st.fmts.2 r' hox
              | dset r' => simp [AgreeOn]; rw [st.dsets]
              | dict r' => simp [AgreeOn]; rw [st.dicts]
              | tmeta r' => simp [AgreeOn]; rw [st.tmetas]
              | info r' => simp [AgreeOn]; rw [st.infos]
            grow := fun x hx => by
              rw [mem_reach] at hx
              have key : (x ∈ reach h s) ∨ (x = .fmt h.fmts.next ∧ h2.fmts.next = h.fmts.next + 1) := by
                rcases hx with h1 | ⟨inf', hi', h1⟩
                · exact Or.inl (mem_reach.2 (Or.inl h1))
                · have : inf' = inf := by rw [st.infos] at hi'; simp at hi'; rw [hi] at hi'; exact (Option.some.inj hi').symm
                  subst this
                  rcases h1 with h1 | h1 | ⟨tm, htm, h1⟩ | ⟨es', l', r', hes', hm', h1⟩
                  · exact Or.inl (mem_reach.2 (Or.inr ⟨inf', hi, Or.inl h1⟩))
                  · exact Or.inl (mem_reach.2 (Or.inr ⟨inf', hi, Or.inr (Or.inl h1)⟩))
                  · rw [st.tmetas] at htm
                    exact Or.inl (mem_reach.2 (Or.inr ⟨inf', hi, Or.inr (Or.inr (Or.inl ⟨tm, htm, h1⟩))⟩))
                  · rw [st.dicts] at hes'
                    simp at hes'
                    rw [hes] at hes'
                    have : es' = es := (Option.some.inj hes').symm
                    subst this
                    rcases h1 with h1 | ⟨cm2, f, hc2, hf2, h1⟩
                    · exact Or.inl (mem_reach.2 (Or.inr ⟨inf', hi, Or.inr (Or.inr (Or.inr
                        ⟨es', l', r', hes, hm', Or.inl h1⟩))⟩))
                    · by_cases hro : r' = old
                      · subst hro
                        rw [hcm'] at hc2
                        have : cm' = cm2 := Option.some.inj hc2
                        subst this
                        rcases hfmt' with hk | ⟨hk, hn⟩
                        · rw [hk] at hf2
                          exact Or.inl (mem_reach.2 (Or.inr ⟨inf', hi, Or.inr (Or.inr (Or.inr
                            ⟨es', l', r', hes, hm', Or.inr ⟨sold, f, hsold, hf2, h1⟩⟩))⟩))
                        · rw [hk] at hf2
                          have : f = h.fmts.next := by simpa using hf2.symm
                          subst this
                          exact Or.inr ⟨h1, by simpa using hn⟩
                      · have hlt := hold l' r' hm'
                        have hne : r' ≠ h.cols.next := Nat.ne_of_lt hlt
                        have := st.cols_other r' hro
                        simp [hne] at this
                        rw [this] at hc2
                        exact Or.inl (mem_reach.2 (Or.inr ⟨inf', hi, Or.inr (Or.inr (Or.inr
                          ⟨es', l', r', hes, hm', Or.inr ⟨cm2, f, hc2, hf2, h1⟩⟩))⟩))
              rcases key with hx' | ⟨rfl, hn⟩
              · refine ⟨Or.inl hx', ?_⟩
                have hxo := ha x hx'
                cases x with
                | col r' =>
                  have hn : h2.cols.next = h.cols.next + 1 := by simpa using st.cols_next
                  show r' < h2.cols.next
                  rw [hn]; exact Nat.lt_succ_of_lt hxo
                | fmt r' => exact Nat.lt_of_lt_of_le hxo st.fmts.1
                | dset r' => simp [locOld] at hxo ⊢; rw [st.dsets]; exact hxo
                | dict r' => simp [locOld] at hxo ⊢; rw [st.dicts]; exact hxo
                | tmeta r' => simp [locOld] at hxo ⊢; rw [st.tmetas]; exact hxo
                | info r' => simp [locOld] at hxo ⊢; rw [st.infos]; exact hxo
              · refine ⟨Or.inr (Nat.le_refl _), ?_⟩
                show h.fmts.next < h2.fmts.next
                rw [hn]; exact Nat.lt_succ_self _ }
          refine frame_reset_last hf2 ?_
          rw [st.infos]; simpa using hi


/-! # The property

  `Spec.*` are the declarative readings of the C05 statement, with literal constants. -/

namespace Spec

/-- the methods `_combine_tables` treats as "single source = `other`" (frame.py:83-87) -/
def safeMethods : List Str :=
  ["append".toList, "astype".toList, "copy".toList, "fillna".toList, "groupby".toList, "melt".toList,
   "reindex".toList, "rename".toList, "replace".toList, "sort_index".toList, "take".toList, "transpose".toList,
   "unstack".toList]

/-- which objects are looked at for metadata, per `__finalize__` method -/
def sources (method : Option Str) (o : Other) : Except Err (List (Option Ref) × Bool) :=
  match method with
  | none => .ok ([o.own], false)
  | some m =>
    if m ∈ safeMethods then .ok ([o.own], false)
    else if m = "merge".toList then
      (match o.leftRight with | some (l, r) => .ok ([l, r], false) | none => .error .attributeError)
    else if m = "concat".toList then
      (match o.objs with | some os => .ok (os, false) | none => .error .attributeError)
    else .ok ([o.own], true)

/-- default unit of a dtype kind (table_metadata.py `_unit_from_dtype_kind`) -/
def defaultUnit (k : Char) : Option Str :=
  if k = 'b' then some "onoff".toList
  else if k = 'i' ∨ k = 'u' ∨ k = 'f' ∨ k = 'M' then some "-".toList
  else if k = 'O' ∨ k = 'S' ∨ k = 'U' then some "text".toList
  else none

/-- `"Pandas " + str(method)` -/
def operation (method : Option Str) : Str :=
  "Pandas ".toList ++ (match method with | none => "None".toList | some m => m)

end Spec

theorem selectSources_spec (m : Option Str) (o : Other) : selectSources m o = Spec.sources m o := by
  unfold selectSources Spec.sources
  rw [safe_methods_pinned]
  rfl

theorem unitFromKind_spec (k : Char) : unitFromKind k = Spec.defaultUnit k := by
  unfold unitFromKind Spec.defaultUnit
  rw [unit_from_dtype_kind_pinned]
  simp only [assoc]
  by_cases h1 : 'b' = k
  · subst h1; simp
  by_cases h2 : 'i' = k
  · subst h2; simp
  by_cases h3 : 'u' = k
  · subst h3; simp
  by_cases h4 : 'f' = k
  · subst h4; simp
  by_cases h5 : 'M' = k
  · subst h5; simp
  by_cases h6 : 'O' = k
  · subst h6; simp
  by_cases h7 : 'S' = k
  · subst h7; simp
  by_cases h8 : 'U' = k
  · subst h8; simp
  have e1 : ¬ k = 'b' := fun e => h1 e.symm
  have e2 : ¬ k = 'i' := fun e => h2 e.symm
  have e3 : ¬ k = 'u' := fun e => h3 e.symm
  have e4 : ¬ k = 'f' := fun e => h4 e.symm
  have e5 : ¬ k = 'M' := fun e => h5 e.symm
  have e6 : ¬ k = 'O' := fun e => h6 e.symm
  have e7 : ¬ k = 'S' := fun e => h7 e.symm
  have e8 : ¬ k = 'U' := fun e => h8 e.symm
  simp [h1, h2, h3, h4, h5, h6, h7, h8, e1, e2, e3, e4, e5, e6, e7, e8]

theorem pandasOp_spec (m : Option Str) : pandasOp m = Spec.operation m := by
  cases m <;> rfl

/-- unit registered for column `l` in info `d` -/
def unitOf (h : Heap) (d : Nat) (l : Label) : Option Str :=
  match h.infos.get d with
  | none => none
  | some inf => match h.dicts.get inf.cols with
    | none => none
    | some es => unitIn h es l

/-- unit of column `l` in the first source, in order, that has a column `l` -/
def firstUnit (h : Heap) (data : List Ref) (l : Label) : Option Str :=
  data.findSome? (fun d => unitOf h d l)

theorem readEntries_unit {h : Heap} {es : List (Label × Ref)} {cs : List (Label × ColMeta)}
    (hr : readEntries h es = .ok cs) (l : Label) : (assoc cs l).map (fun c => c.unit) = unitIn h es l := by
  induction es generalizing cs with
  | nil => simp [readEntries] at hr; subst hr; simp [assoc, unitIn]
  | cons e rest ih =>
    obtain ⟨k, r⟩ := e
    unfold readEntries getCol at hr
    cases hc : h.cols.get r with
    | none => simp [hc] at hr
    | some cm =>
      simp only [hc] at hr
      cases hrest : readEntries h rest with
      | error e => simp [hrest] at hr
      | ok cs' =>
        simp [hrest] at hr
        subst hr
        have := ih hrest
        by_cases hk : k = l
        · simp [assoc, unitIn, hk, hc]
        · simp [assoc, hk]
          simpa [unitIn, assoc, hk] using this

theorem colsOf_unit {h : Heap} {d : Nat} {cs : List (Label × ColMeta)} (hc : colsOf h d = .ok cs) (l : Label) :
    (assoc cs l).map (fun c => c.unit) = unitOf h d l := by
  unfold colsOf getInfo getDict at hc
  unfold unitOf
  cases hi : h.infos.get d with
  | none => simp [hi] at hc
  | some inf =>
    simp only [hi] at hc
    cases hes : h.dicts.get inf.cols with
    | none => simp [hes] at hc
    | some es =>
      simp only [hes] at hc
      simp only [hes]
      exact readEntries_unit hc l

theorem sourceItems_unit {h : Heap} {data : List Ref} {items : List (Label × ColMeta)}
    (hs : sourceItems h data = .ok items) (l : Label) :
    (assoc items l).map (fun c => c.unit) = firstUnit h data l := by
  induction data generalizing items with
  | nil => simp [sourceItems] at hs; subst hs; simp [assoc, firstUnit]
  | cons d ds ih =>
    unfold sourceItems at hs
    cases hc : colsOf h d with
    | error e => simp [hc] at hs
    | ok cs =>
      simp only [hc] at hs
      cases hrest : sourceItems h ds with
      | error e => simp [hrest] at hs
      | ok rest =>
        simp [hrest] at hs
        subst hs
        rw [assoc_append]
        have h1 := colsOf_unit hc l
        have h2 := ih hrest
        unfold firstUnit at h2 ⊢
        simp only [List.findSome?_cons]
        rw [← h1]
        cases ha : assoc cs l with
        | some c => simp
        | none => simpa using h2

theorem sourceItems_mem {h : Heap} {data : List Ref} {items : List (Label × ColMeta)}
    (hs : sourceItems h data = .ok items) {d : Nat} (hd : d ∈ data) {l : Label} {u : Str}
    (hu : unitOf h d l = some u) : ∃ c, (l, c) ∈ items ∧ c.unit = u := by
  induction data generalizing items with
  | nil => simp at hd
  | cons d0 ds ih =>
    unfold sourceItems at hs
    cases hc : colsOf h d0 with
    | error e => simp [hc] at hs
    | ok cs =>
      simp only [hc] at hs
      cases hrest : sourceItems h ds with
      | error e => simp [hrest] at hs
      | ok rest =>
        simp [hrest] at hs
        subst hs
        rcases List.mem_cons.1 hd with rfl | hd
        · have h1 := colsOf_unit hc l
          rw [hu] at h1
          cases ha : assoc cs l with
          | none => simp [ha] at h1
          | some c =>
            simp [ha] at h1
            exact ⟨c, List.mem_append_left _ (assoc_mem ha), h1⟩
        · obtain ⟨c, hc1, hc2⟩ := ih hrest hd
          exact ⟨c, List.mem_append_right _ hc1, hc2⟩

/-- the parents of a derived origin are real origins: a source made in code (no origin) is left out -/
theorem originsOf_present {h : Heap} (data : List Ref) :
    ∀ {ps : List Origin}, originsOf h data = .ok ps → ∀ p, p ∈ ps → p.isAbsent = false := by
  induction data with
  | nil => intro ps ho p hp; simp [originsOf] at ho; subst ho; cases hp
  | cons d ds ih =>
    intro ps ho p hp
    unfold originsOf at ho
    cases hm : metaOf h d with
    | error e => simp [hm] at ho
    | ok tm =>
      simp only [hm] at ho
      cases hr : originsOf h ds with
      | error e => simp [hr] at ho
      | ok os =>
        simp only [hr] at ho
        cases hab : tm.origin.isAbsent with
        | true => simp [hab] at ho; subst ho; exact ih hr p hp
        | false =>
          simp [hab] at ho
          subst ho
          rcases List.mem_cons.1 hp with rfl | hp
          · exact hab
          · exact ih hr p hp

/-- `[d.metadata for d in data]` -/
def metasOf (h : Heap) : List Ref → Except Err (List TMeta)
  | [] => .ok []
  | d :: ds =>
    match metaOf h d with
    | .error e => .error e
    | .ok tm => match metasOf h ds with
      | .error e => .error e
      | .ok tms => .ok (tm :: tms)

/-- **the parents of the derived origin are the origins of the sources that have one**, in order -/
theorem originsOf_spec {h : Heap} (data : List Ref) :
    ∀ {tms : List TMeta}, metasOf h data = .ok tms →
      originsOf h data = .ok ((tms.map (fun tm => tm.origin)).filter (fun o => !o.isAbsent)) := by
  induction data with
  | nil => intro tms hm; simp [metasOf] at hm; subst hm; simp [originsOf]
  | cons d ds ih =>
    intro tms hm
    unfold metasOf at hm
    cases h1 : metaOf h d with
    | error e => simp [h1] at hm
    | ok tm =>
      simp only [h1] at hm
      cases h2 : metasOf h ds with
      | error e => simp [h2] at hm
      | ok rest =>
        simp [h2] at hm
        subst hm
        unfold originsOf
        simp only [h1, ih h2]
        cases hab : tm.origin.isAbsent <;> simp [hab]

/-- with a single source: no parent when it has no origin, else exactly its origin -/
theorem originsOf_single {h : Heap} {d : Nat} {tm : TMeta} (hm : metaOf h d = .ok tm) :
    originsOf h [d] = .ok (if tm.origin.isAbsent then [] else [tm.origin]) := by
  simp [originsOf, hm]

/-! ## finalize_result -/

/-- **table frame iff some selected source carries info** (and the fall-back warns, and leaves the
    store untouched) -/
theorem finalize_result_kind {h : Heap} {m : Option Str} {oi : Option Ref} {o : Other} {fr : Frame}
    {h' : Heap} {res : Res} {w : List Warn} (hf : finalize h m oi o fr = .ok (h', res, w)) :
    ∃ src warned, Spec.sources m o = .ok (src, warned) ∧
      ((∃ i, res = .table i) ↔ (∃ d, some d ∈ src)) ∧
      (res = .plain → Warn.fallback ∈ w ∧ h' = h) ∧
      (warned = true → Warn.unknownMethod ∈ w) := by
  unfold finalize at hf
  cases hc : combine h m oi o fr.labels with
  | error e => simp [hc] at hf
  | ok p =>
    obtain ⟨hC, ri, w'⟩ := p
    cases ri with
    | none =>
      simp [hc] at hf
      obtain ⟨rfl, rfl, rfl⟩ := hf
      obtain ⟨rfl, src, warned, hsel, hdata, hw⟩ := combine_none hc
      refine ⟨src, warned, by rw [← selectSources_spec]; exact hsel, ?_, ?_, ?_⟩
      · constructor
        · rintro ⟨i, hi⟩; cases hi
        · rintro ⟨d, hd⟩
          have : d ∈ src.filterMap id := List.mem_filterMap.2 ⟨some d, hd, rfl⟩
          rw [hdata] at this; cases this
      · intro _; exact ⟨by simp, rfl⟩
      · intro hwarn; subst hw; simp [hwarn]
    | some i =>
      simp only [hc] at hf
      cases hcd : checkDataframe hC i fr with
      | error e => simp [hcd] at hf
      | ok hF =>
        simp [hcd] at hf
        obtain ⟨rfl, rfl, rfl⟩ := hf
        obtain ⟨src, warned, d0, rest, parents, ns1, ns, tm0, h1, mref, items, h2, acc,
          hsel, hw, hdata, _⟩ := combine_some hc
        refine ⟨src, warned, by rw [← selectSources_spec]; exact hsel, ?_, ?_, ?_⟩
        · constructor
          · intro _
            have : d0 ∈ src.filterMap id := by rw [hdata]; exact List.mem_cons_self
            obtain ⟨a, ha, ha'⟩ := List.mem_filterMap.1 this
            simp at ha'
            subst ha'
            exact ⟨d0, ha⟩
          · intro _; exact ⟨i, rfl⟩
        · intro hp; cases hp
        · intro hwarn; subst hw; simp [hwarn]

theorem obsCols_of_fresh {h : Heap} (es : List (Label × Ref))
    (hf : ∀ l (r : Nat), (l, r) ∈ es → ∃ cm, h.cols.get r = some cm ∧
      ∀ (f : Nat), cm.dispFmt = some f → (h.fmts.get f).isSome) :
    ∃ cs, obsCols h es = some cs := by
  suffices hs : (obsCols h es).isSome by
    cases ho : obsCols h es with
    | none => simp [ho] at hs
    | some cs => exact ⟨cs, rfl⟩
  induction es with
  | nil => rfl
  | cons e rest ih =>
    obtain ⟨l, r⟩ := e
    have hrest := ih (fun l r hm => hf l r (List.mem_cons_of_mem _ hm))
    obtain ⟨cm, hcm, hfm⟩ := hf l r List.mem_cons_self
    unfold obsCols
    rw [hcm]
    cases hcs : obsCols h rest with
    | none => simp [hcs] at hrest
    | some cs =>
      cases hdf : cm.dispFmt with
      | none => simp [hdf]
      | some f =>
        have := hfm f hdf
        cases hg : h.fmts.get f with
        | none => simp [hg] at this
        | some sp => simp [hdf, hg]

/-- **name, destinations, origin, input ancestors** of the result: the first source's name and
    destinations (as a set: duplicates erased), a derived origin whose operation is
    `"Pandas " ++ method`, whose parents are the origins of the sources carrying info that have an
    origin (in order; `originsOf_spec`: a source made in code contributes none) and whose input
    ancestors are therefore the concatenation of those sources' input ancestors (`ancestors_concat`);
    in particular they are defined whenever the sources' are (`originsOf_present`: no `None` parent) -/
theorem finalize_result_meta {h : Heap} {m : Option Str} {oi : Option Ref} {o : Other} {fr : Frame}
    {h' : Heap} {i : Nat} {w : List Warn} (hf : finalize h m oi o fr = .ok (h', .table i, w)) :
    ∃ src warned d0 rest tm0 xs parents obs,
      Spec.sources m o = .ok (src, warned) ∧ src.filterMap id = d0 :: rest ∧
      metaOf h d0 = .ok tm0 ∧ h.dsets.get tm0.dests = some xs ∧ originsOf h (d0 :: rest) = .ok parents ∧
      observe h' i = some obs ∧
      obs.name = tm0.name ∧ obs.dests = xs.eraseDups ∧
      obs.origin = .node none parents (some (Spec.operation m)) ∧
      obs.origin.ancestors = Origin.ancestorsList parents ∧
      obs.transposed = false := by
  obtain ⟨src, warned, d0, rest, parents, strict, tm0, xs, items, ordered, F⟩ := finalize_table_facts hf
  obtain ⟨cs, hcs⟩ := obsCols_of_fresh (h := h') ordered (fun l r hm => by
    obtain ⟨_, _, cm, hcm, hfm⟩ := F.fresh l r hm
    exact ⟨cm, hcm, fun f hf => (hfm f hf).2.2⟩)
  refine ⟨src, warned, d0, rest, tm0, xs, parents,
    ⟨tm0.name, xs.eraseDups, .node none parents (some (pandasOp m)), false, strict, cs⟩,
    by rw [← selectSources_spec]; exact F.sel, F.src_data, F.meta0, F.dests0, F.origins, ?_, rfl, rfl,
    by rw [pandasOp_spec], by simp [Origin.ancestors], rfl⟩
  unfold observe
  rw [F.info]
  simp only []
  rw [F.tmeta]
  simp only []
  rw [F.dests]
  simp only []
  rw [F.dict]
  simp [hcs]

/-- input ancestors of a derived origin = the concatenation of its parents' input ancestors -/
theorem ancestors_concat (parents : List Origin) (f : Origin → List Str)
    (hp : ∀ p, p ∈ parents → p.ancestors = .ok (f p)) :
    Origin.ancestorsList parents = .ok (parents.flatMap f) := by
  induction parents with
  | nil => simp [Origin.ancestorsList]
  | cons p ps ih =>
    have h1 := hp p List.mem_cons_self
    have h2 := ih (fun q hq => hp q (List.mem_cons_of_mem _ hq))
    simp [Origin.ancestorsList, h1, h2]

/-- **units**: exactly the result frame's columns are registered (on a non-empty frame); a column
    that some source has keeps the unit it has in the first such source; a column no source has
    gets the default unit of its dtype kind -/
theorem finalize_result_units {h : Heap} {m : Option Str} {oi : Option Ref} {o : Other} {fr : Frame}
    {h' : Heap} {i : Nat} {w : List Warn} (hf : finalize h m oi o fr = .ok (h', .table i, w)) :
    ∃ src warned, Spec.sources m o = .ok (src, warned) ∧
      ∀ l, unitOf h' i l =
        if l ∈ fr.labels then
          match firstUnit h (src.filterMap id) l with
          | some u => some u
          | none => if fr.empty then none else (assoc (kinds fr.cols) l).bind Spec.defaultUnit
        else none := by
  obtain ⟨src, warned, d0, rest, parents, strict, tm0, xs, items, ordered, F⟩ := finalize_table_facts hf
  refine ⟨src, warned, by rw [← selectSources_spec]; exact F.sel, ?_⟩
  intro l
  have hu := F.units l
  have hs := sourceItems_unit F.src_items l
  rw [F.src_data, ← hs]
  unfold unitOf
  rw [F.info]
  simp only []
  rw [F.dict]
  simp only []
  rw [hu]
  have hk : unitFromKind = Spec.defaultUnit := funext unitFromKind_spec
  rw [hk]
  cases assoc items l <;> rfl

/-! ## combine_refuses_unit_clash -/

/-- **a unit clash is refused**: when two selected sources register a surviving column with
    different units, `__finalize__` raises (it never returns, neither a table frame nor a plain one) -/
theorem combine_refuses_unit_clash {h : Heap} {m : Option Str} {oi : Option Ref} {o : Other} {fr : Frame}
    {src : List (Option Ref)} {warned : Bool} (hsel : Spec.sources m o = .ok (src, warned))
    {d1 d2 : Nat} (h1 : some d1 ∈ src) (h2 : some d2 ∈ src) {l : Label} (hl : l ∈ fr.labels)
    {u1 u2 : Str} (hu1 : unitOf h d1 l = some u1) (hu2 : unitOf h d2 l = some u2) (hne : u1 ≠ u2) :
    ∃ e, finalize h m oi o fr = .error e := by
  cases hf : finalize h m oi o fr with
  | error e => exact ⟨e, rfl⟩
  | ok p =>
    exfalso
    obtain ⟨h', res, w⟩ := p
    cases res with
    | plain =>
      obtain ⟨src', warned', hsel', hiff, _, _⟩ := finalize_result_kind hf
      rw [hsel] at hsel'
      obtain ⟨rfl, rfl⟩ := Prod.mk.inj (Except.ok.inj hsel')
      obtain ⟨i, hi⟩ := hiff.2 ⟨d1, h1⟩
      cases hi
    | table i =>
      obtain ⟨src', warned', d0, rest, parents, strict, tm0, xs, items, ordered, F⟩ := finalize_table_facts hf
      have hsel' := F.sel
      rw [selectSources_spec, hsel] at hsel'
      obtain ⟨rfl, rfl⟩ := Prod.mk.inj (Except.ok.inj hsel')
      have m1 : d1 ∈ d0 :: rest := by rw [← F.src_data]; exact List.mem_filterMap.2 ⟨some d1, h1, rfl⟩
      have m2 : d2 ∈ d0 :: rest := by rw [← F.src_data]; exact List.mem_filterMap.2 ⟨some d2, h2, rfl⟩
      obtain ⟨c1, hc1, e1⟩ := sourceItems_mem F.src_items m1 hu1
      obtain ⟨c2, hc2, e2⟩ := sourceItems_mem F.src_items m2 hu2
      have := F.agree l c1 c2 hl hc1 hc2
      rw [e1, e2] at this
      exact hne this

theorem copyFmt_err {h : Heap} {f : Nat} {e : Err} (he : copyFmt h f = .error e) : e = .attributeError := by
  unfold copyFmt at he
  cases hf : h.fmts.get f with
  | none => simp [hf] at he; exact he.symm
  | some s => simp [hf] at he

theorem updateFrom_err {h : Heap} {a : Nat} {b : ColMeta} {e : Err} (he : updateFrom h a b = .error e) :
    e = .attributeError := by
  unfold updateFrom at he
  cases hs : h.cols.get a with
  | none => simp [hs] at he; exact he.symm
  | some s =>
    simp only [hs] at he
    split at he
    · rename_i f _ _
      cases hc : copyFmt h f with
      | error e' => simp [hc] at he; subst he; exact copyFmt_err hc
      | ok p => simp [hc] at he
    · simp at he

theorem copyCol_err {h : Heap} {c : ColMeta} {e : Err} (he : copyCol h c = .error e) : e = .attributeError := by
  unfold copyCol at he
  simp only at he
  split at he
  · rename_i e' hu
    simp at he; subst he
    exact updateFrom_err hu
  · simp at he

/-- the refusal is an `InvalidTableCombineError` only for a genuine disagreement: the loop raises it
    only in the branch comparing two different units -/
theorem combineStep_clash_only {out : List Label} {st : Heap × Acc} {it : Label × ColMeta}
    (he : combineStep out st it = .error .invalidTableCombine) :
    ∃ col cc, assoc st.2 it.1 = some col ∧ st.1.cols.get col = some cc ∧ cc.unit ≠ it.2.unit := by
  unfold combineStep at he
  by_cases hin : it.1 ∈ out
  · simp only [hin, if_true] at he
    cases has : assoc st.2 it.1 with
    | none =>
      simp only [has] at he
      cases hcc : copyCol st.1 it.2 with
      | error e =>
        simp [hcc] at he
        subst he
        have := copyCol_err hcc
        cases this
      | ok p => simp [hcc] at he
    | some col =>
      simp only [has] at he
      cases hcol : st.1.cols.get col with
      | none => simp [hcol] at he
      | some cc =>
        simp only [hcol] at he
        by_cases hu : cc.unit = it.2.unit
        · simp only [hu, if_true] at he
          cases huf : updateFrom st.1 col it.2 with
          | error e =>
            simp [huf] at he
            subst he
            have := updateFrom_err huf
            cases this
          | ok h1 => simp [huf] at he
        · exact ⟨col, cc, rfl, hcol, hu⟩
  · simp [hin] at he

/-! ### the refusal is an `InvalidTableCombineError` when everything can be read -/

theorem updateFrom_err_cases {h : Heap} {a : Nat} {b : ColMeta} {e : Err} (he : updateFrom h a b = .error e) :
    h.cols.get a = none ∨ ∃ (f : Nat), b.dispFmt = some f ∧ h.fmts.get f = none := by
  unfold updateFrom at he
  cases hs : h.cols.get a with
  | none => exact Or.inl rfl
  | some s =>
    right
    simp only [hs] at he
    split at he
    · rename_i f _ hbf
      refine ⟨f, hbf, ?_⟩
      unfold copyFmt at he
      cases hf : h.fmts.get f with
      | none => rfl
      | some sp => simp [hf] at he
    · simp at he

theorem copyCol_err_cases {h : Heap} {c : ColMeta} {e : Err} (he : copyCol h c = .error e) :
    ∃ (f : Nat), c.dispFmt = some f ∧ h.fmts.get f = none := by
  unfold copyCol at he
  simp only at he
  split at he
  · rename_i e' hu
    rcases updateFrom_err_cases hu with h1 | ⟨f, hf, hg⟩
    · simp at h1
    · exact ⟨f, hf, hg⟩
  · simp at he

/-- every format a source column refers to exists (in the heap the loop started from) -/
def FmtsReadable (b : Heap) (items : List (Label × ColMeta)) : Prop :=
  ∀ l c, (l, c) ∈ items → ∀ (f : Nat), c.dispFmt = some f → f < b.fmts.next ∧ (b.fmts.get f).isSome

theorem combineStep_err {out : List Label} {b h : Heap} {acc : Acc} {done : List (Label × ColMeta)}
    {it : Label × ColMeta} {e : Err} (he : combineStep out (h, acc) it = .error e)
    (inv : LoopInv out b h acc done)
    (hr : ∀ (f : Nat), it.2.dispFmt = some f → f < b.fmts.next ∧ (b.fmts.get f).isSome) :
    e = .invalidTableCombine := by
  have hfmt : ∀ (f : Nat), it.2.dispFmt = some f → h.fmts.get f ≠ none := by
    intro f hf hn
    obtain ⟨h1, h2⟩ := hr f hf
    rw [inv.fmts.2 f h1] at hn
    simp [hn] at h2
  unfold combineStep at he
  simp only at he
  by_cases hin : it.1 ∈ out
  · simp only [hin, if_true] at he
    cases has : assoc acc it.1 with
    | none =>
      simp only [has] at he
      cases hcc : copyCol h it.2 with
      | error e' =>
        obtain ⟨f, hf, hg⟩ := copyCol_err_cases hcc
        exact absurd hg (hfmt f hf)
      | ok p => simp [hcc] at he
    | some col =>
      simp only [has] at he
      obtain ⟨_, _, cm, hcm, _⟩ := inv.fresh it.1 col (assoc_mem has)
      simp only [hcm] at he
      by_cases hu : cm.unit = it.2.unit
      · simp only [hu, if_true] at he
        cases huf : updateFrom h col it.2 with
        | error e' =>
          rcases updateFrom_err_cases huf with h1 | ⟨f, hf, hg⟩
          · rw [hcm] at h1; cases h1
          · exact absurd hg (hfmt f hf)
        | ok h1 => simp [huf] at he
      · simp [hu] at he
        exact he.symm
  · simp [hin] at he

theorem combineLoop_err {out : List Label} {b : Heap} (items : List (Label × ColMeta)) :
    ∀ {h : Heap} {acc : Acc} {done : List (Label × ColMeta)} {e : Err},
    combineLoop out (h, acc) items = .error e → LoopInv out b h acc done → FmtsReadable b items →
    e = .invalidTableCombine := by
  induction items with
  | nil => intro h acc done e he; simp [combineLoop] at he
  | cons it rest ih =>
    intro h acc done e he inv hr
    unfold combineLoop at he
    cases hs : combineStep out (h, acc) it with
    | error e' =>
      simp [hs] at he
      subst he
      exact combineStep_err hs inv (fun f hf => hr it.1 it.2 List.mem_cons_self f hf)
    | ok st =>
      obtain ⟨h1, acc1⟩ := st
      simp only [hs] at he
      exact ih he (combineStep_inv hs inv) (fun l c hm => hr l c (List.mem_cons_of_mem _ hm))

/-- the sources are **well allocated** as far as `_combine_tables` reads them: origins, strictness
    flags, the first source's metadata and destinations, every source's columns and their formats -/
structure Readable (h : Heap) (oi : Option Ref) (o : Other) (data : List Ref) : Prop where
  origins : ∃ ps, originsOf h data = .ok ps
  strict_obj : ∃ b, nonStrict h oi = .ok b
  strict_other : ∃ b, nonStrict h o.own = .ok b
  first : ∀ d0 rest, data = d0 :: rest → ∃ tm xs, metaOf h d0 = .ok tm ∧ h.dsets.get tm.dests = some xs
  items : ∃ items, sourceItems h data = .ok items ∧ FmtsReadable h items

/-- **a unit clash is refused with `InvalidTableCombineError`** — the full-strength form: when the
    selected sources can be read (no dangling reference) and two of them register a surviving
    column with different units, `__finalize__` raises exactly that error -/
theorem combine_refuses_unit_clash_class {h : Heap} {m : Option Str} {oi : Option Ref} {o : Other} {fr : Frame}
    {src : List (Option Ref)} {warned : Bool} (hsel : Spec.sources m o = .ok (src, warned))
    (hread : Readable h oi o (src.filterMap id))
    {d1 d2 : Nat} (h1 : some d1 ∈ src) (h2 : some d2 ∈ src) {l : Label} (hl : l ∈ fr.labels)
    {u1 u2 : Str} (hu1 : unitOf h d1 l = some u1) (hu2 : unitOf h d2 l = some u2) (hne : u1 ≠ u2) :
    finalize h m oi o fr = .error .invalidTableCombine := by
  obtain ⟨e, he⟩ := combine_refuses_unit_clash (oi := oi) hsel h1 h2 hl hu1 hu2 hne
  rw [he]
  -- the error comes out of `_combine_tables`, and there only out of the column loop
  unfold finalize at he
  cases hc : combine h m oi o fr.labels with
  | ok p =>
    exfalso
    obtain ⟨hC, ri, w⟩ := p
    cases ri with
    | none => simp [hc] at he
    | some i =>
      -- a successful combine means all occurrences of `l` agree on the unit
      obtain ⟨src', warned', d0, rest, parents, ns1, ns, tm0, hh1, mref, items, hh2, acc,
        hsel', _, hdata, _, _, _, _, hnt, hit, hloop, _, _⟩ := combine_some hc
      rw [selectSources_spec, hsel] at hsel'
      obtain ⟨rfl, rfl⟩ := Prod.mk.inj (Except.ok.inj hsel')
      have inv := combineLoop_inv (b := hh1) items hloop (LoopInv.init fr.labels hh1)
      simp only [List.nil_append] at inv
      have m1 : d1 ∈ d0 :: rest := by rw [← hdata]; exact List.mem_filterMap.2 ⟨some d1, h1, rfl⟩
      have m2 : d2 ∈ d0 :: rest := by rw [← hdata]; exact List.mem_filterMap.2 ⟨some d2, h2, rfl⟩
      obtain ⟨c1, hc1, e1⟩ := sourceItems_mem hit m1 hu1
      obtain ⟨c2, hc2, e2⟩ := sourceItems_mem hit m2 hu2
      obtain ⟨r, hr⟩ := (inv.keys l).2 ⟨hl, c1, hc1⟩
      obtain ⟨cm, hcm, hua⟩ := inv.units l r c1 hr hc1
      obtain ⟨cm', hcm', hub⟩ := inv.units l r c2 hr hc2
      rw [hcm] at hcm'
      have : cm = cm' := Option.some.inj hcm'
      subst this
      exact hne (by rw [← e1, ← e2, ← hua, ← hub])
  | error e' =>
    simp [hc] at he
    subst he
    congr 1
    unfold combine at hc
    rw [selectSources_spec, hsel] at hc
    simp only at hc
    cases hdata : src.filterMap id with
    | nil => simp [hdata] at hc
    | cons d0 rest =>
      rw [hdata] at hread
      simp only [hdata] at hc
      obtain ⟨ps, hps⟩ := hread.origins
      simp only [hps] at hc
      obtain ⟨b1, hb1⟩ := hread.strict_obj
      simp only [hb1] at hc
      obtain ⟨b2, hb2⟩ := hread.strict_other
      have hns : ∃ ns, (if b1 then Except.ok true else nonStrict h o.own) = .ok ns := by
        cases b1
        · exact ⟨b2, by simpa using hb2⟩
        · exact ⟨true, rfl⟩
      obtain ⟨ns, hns⟩ := hns
      simp only [hns] at hc
      obtain ⟨tm, xs, htm, hxs⟩ := hread.first d0 rest rfl
      simp only [htm] at hc
      cases hnt : newTableMeta h tm.name tm.dests (.node none ps (some (pandasOp m))) false (!ns) with
      | error e2 =>
        exfalso
        unfold newTableMeta at hnt
        simp [hxs, Store.alloc] at hnt
      | ok q =>
        obtain ⟨hh1, mref⟩ := q
        simp only [hnt] at hc
        obtain ⟨items, hit, hfr⟩ := hread.items
        simp only [hit] at hc
        obtain ⟨_, _, _, hh1eq⟩ := newTableMeta_ok hnt
        cases hloop : combineLoop fr.labels (hh1, []) items with
        | ok st => obtain ⟨a, b⟩ := st; simp [hloop] at hc
        | error e3 =>
          simp [hloop] at hc
          subst hc
          have hf1 : hh1.fmts = h.fmts := by rw [hh1eq]
          exact combineLoop_err items hloop (LoopInv.init fr.labels hh1)
            (fun l c hm f hf => by rw [hf1]; exact hfr l c hm f hf)

/-! ## degrade_or_refuse -/

/-- **degrade or refuse, never a mislabelled table**: whatever the method, when no selected source
    carries info the outcome is an error or the plain frame with the fall-back warning — never a
    table frame.  (What `__finalize__` controls; operations whose result pandas builds without
    calling `__finalize__` are outside the model and only observed by the harness.) -/
theorem degrade_or_refuse {h : Heap} {m : Option Str} {oi : Option Ref} {o : Other} {fr : Frame}
    {src : List (Option Ref)} {warned : Bool} (hsel : Spec.sources m o = .ok (src, warned))
    (hno : ∀ d, some d ∉ src) :
    (∃ e, finalize h m oi o fr = .error e) ∨
    (∃ w, finalize h m oi o fr = .ok (h, .plain, w) ∧ Warn.fallback ∈ w) := by
  cases hf : finalize h m oi o fr with
  | error e => exact Or.inl ⟨e, rfl⟩
  | ok p =>
    obtain ⟨h', res, w⟩ := p
    obtain ⟨src', warned', hsel', hiff, hplain, _⟩ := finalize_result_kind hf
    rw [hsel] at hsel'
    obtain ⟨rfl, rfl⟩ := Prod.mk.inj (Except.ok.inj hsel')
    cases res with
    | plain =>
      obtain ⟨hw, rfl⟩ := hplain rfl
      exact Or.inr ⟨w, rfl, hw⟩
    | table i =>
      obtain ⟨d, hd⟩ := hiff.1 ⟨i, rfl⟩
      exact absurd hd (hno d)


/-! ## no_alias -/

/-- **no aliasing**: `__finalize__` leaves every existing object as it is, and every mutable object
    reachable from the result's info — the info, its `TableMetadata`, the destinations set, the
    columns dict, every `ColumnMetadata`, every `ColumnFormat` — has been allocated by this very call -/
theorem no_alias {h : Heap} {m : Option Str} {oi : Option Ref} {o : Other} {fr : Frame}
    {h' : Heap} {i : Nat} {w : List Warn} (hf : finalize h m oi o fr = .ok (h', .table i, w)) :
    HeapExt h h' ∧ ∀ x, x ∈ reach h' i → locFresh h x ∧ locOld h' x := by
  obtain ⟨src, warned, d0, rest, parents, strict, tm0, xs, items, ordered, F⟩ := finalize_table_facts hf
  refine ⟨F.ext, ?_⟩
  intro x hx
  rw [mem_reach] at hx
  rcases hx with rfl | ⟨inf, hi, h1⟩
  · exact ⟨by rw [F.info_ref]; exact Nat.le_refl _, by
      show i < h'.infos.next
      rw [F.infos_next, F.info_ref]; exact Nat.lt_succ_self _⟩
  · rw [F.info] at hi
    have : inf = ⟨h.tmetas.next, h.dicts.next, some (fr.state strict)⟩ := (Option.some.inj hi).symm
    subst this
    rcases h1 with rfl | rfl | ⟨tm, htm, rfl⟩ | ⟨es, l, r, hes, hm, h1⟩
    · exact ⟨Nat.le_refl _, by show h.tmetas.next < h'.tmetas.next; rw [F.tmetas_next]; exact Nat.lt_succ_self _⟩
    · exact ⟨Nat.le_refl _, by show h.dicts.next < h'.dicts.next; rw [F.dicts_next]; exact Nat.lt_succ_self _⟩
    · rw [F.tmeta] at htm
      have : tm = ⟨tm0.name, h.dsets.next, .node none parents (some (pandasOp m)), false, strict⟩ :=
        (Option.some.inj htm).symm
      subst this
      exact ⟨Nat.le_refl _, by show h.dsets.next < h'.dsets.next; rw [F.dsets_next]; exact Nat.lt_succ_self _⟩
    · rw [F.dict] at hes
      have : es = ordered := (Option.some.inj hes).symm
      subst this
      obtain ⟨b1, b2, cm, hcm, hfm⟩ := F.fresh l r hm
      rcases h1 with rfl | ⟨cm2, f, hc2, hf2, rfl⟩
      · exact ⟨b1, b2⟩
      · rw [hcm] at hc2
        have : cm = cm2 := Option.some.inj hc2
        subst this
        obtain ⟨c1, c2, _⟩ := hfm f hf2
        exact ⟨c1, c2⟩

/-- two infos are **separated**: both exist completely and no mutable object is reachable from both -/
structure Sep (h : Heap) (a b : Nat) : Prop where
  alloc_a : Alloc h a
  alloc_b : Alloc h b
  disjoint : ∀ x, x ∈ reach h a → x ∉ reach h b

theorem Sep.symm {h : Heap} {a b : Nat} (s : Sep h a b) : Sep h b a :=
  ⟨s.alloc_b, s.alloc_a, fun x hb ha => s.disjoint x ha hb⟩

/-- the result of `__finalize__` is separated from every info that existed before — in particular
    from each of its sources — and that info is observed exactly as before -/
theorem finalize_separates {h : Heap} {m : Option Str} {oi : Option Ref} {o : Other} {fr : Frame}
    {h' : Heap} {i : Nat} {w : List Warn} (hf : finalize h m oi o fr = .ok (h', .table i, w))
    {s : Nat} (hs : Alloc h s) : Sep h' i s ∧ observe h' s = observe h s := by
  obtain ⟨ext, hfresh⟩ := no_alias hf
  have hag : ∀ x, x ∈ reach h s → AgreeOn h h' x := fun x hx => ext.agree (hs x hx)
  refine ⟨⟨fun x hx => (hfresh x hx).2, ?_, ?_⟩, observe_congr hag⟩
  · intro x hx
    exact ext.old (hs x ((reach_congr hag x).1 hx))
  · intro x hx hx'
    exact not_old_of_fresh (hfresh x hx).1 (hs x ((reach_congr hag x).1 hx'))

/-! ## mutation_independence -/

/-- a change confined to what is reachable from `a` is invisible from a separated `b`, and the two
    stay separated -/
theorem frame_preserves_other {h h' : Heap} {a b : Nat} (hf : FrameOf h h' a) (sep : Sep h a b) :
    observe h' b = observe h b ∧ Sep h' a b := by
  have hag : ∀ x, x ∈ reach h b → AgreeOn h h' x := fun x hx =>
    hf.agree x (sep.alloc_b x hx) (fun hxa => sep.disjoint x hxa hx)
  refine ⟨observe_congr hag, ⟨fun x hx => (hf.grow x hx).2, ?_, ?_⟩⟩
  · intro x hx
    exact hf.mono x (sep.alloc_b x ((reach_congr hag x).1 hx))
  · intro x hx hx'
    have hxb := (reach_congr hag x).1 hx'
    rcases (hf.grow x hx).1 with h1 | h1
    · exact sep.disjoint x h1 hxb
    · exact not_old_of_fresh h1 (sep.alloc_b x hxb)

/-- **one mutation** (set unit / set name / add destination / add column / display unit / format /
    a consultation after the frame lost or re-ordered columns, which deletes and re-orders register
    entries in place) on `a` changes no observation of a separated `b` -/
theorem step_independence {h : Heap} {a b : Nat} {mu : Mut} {h' : Heap} (sep : Sep h a b)
    (hm : mutate h a mu = .ok h') : observe h' b = observe h b ∧ Sep h' a b :=
  frame_preserves_other (mutate_frame hm sep.alloc_a) sep

/-- **any sequence of mutations** on one of two separated infos leaves every observation of the
    other unchanged, and they remain separated -/
theorem mutation_independence {a b : Nat} (ms : List Mut) :
    ∀ {h h' : Heap}, Sep h a b → mutateAll h a ms = .ok h' → observe h' b = observe h b ∧ Sep h' a b := by
  induction ms with
  | nil =>
    intro h h' sep hm
    simp [mutateAll] at hm
    subst hm
    exact ⟨rfl, sep⟩
  | cons mu rest ih =>
    intro h h' sep hm
    unfold mutateAll at hm
    cases h1 : mutate h a mu with
    | error e => simp [h1] at hm
    | ok hmid =>
      simp only [h1] at hm
      obtain ⟨o1, s1⟩ := step_independence sep h1
      obtain ⟨o2, s2⟩ := ih s1 hm
      exact ⟨by rw [o2, o1], s2⟩

/-- an arbitrary interleaved history of mutations on two infos (`true` = on `a`, `false` = on `b`) -/
def runHistory (h : Heap) (a b : Nat) : List (Bool × Mut) → Except Err Heap
  | [] => .ok h
  | (side, mu) :: rest =>
    match mutate h (if side then a else b) mu with
    | .error e => .error e
    | .ok h1 => runHistory h1 a b rest

/-- **histories**: along any interleaved history separation is never lost — so at every step the
    mutation performed on one side leaves the other side's observation unchanged
    (`step_independence` applies at each prefix); in particular a history that only touches one
    side leaves the other side exactly as it was -/
theorem history_independence {a b : Nat} (steps : List (Bool × Mut)) :
    ∀ {h h' : Heap}, Sep h a b → runHistory h a b steps = .ok h' →
      Sep h' a b ∧
      (steps.all (fun s => s.1) = true → observe h' b = observe h b) ∧
      (steps.all (fun s => !s.1) = true → observe h' a = observe h a) := by
  induction steps with
  | nil =>
    intro h h' sep hr
    simp [runHistory] at hr
    subst hr
    exact ⟨sep, fun _ => rfl, fun _ => rfl⟩
  | cons st rest ih =>
    obtain ⟨side, mu⟩ := st
    intro h h' sep hr
    unfold runHistory at hr
    cases side with
    | true =>
      simp only [if_true] at hr
      cases h1 : mutate h a mu with
      | error e => simp [h1] at hr
      | ok hmid =>
        simp only [h1] at hr
        obtain ⟨o1, s1⟩ := step_independence sep h1
        obtain ⟨s2, oa, ob⟩ := ih s1 hr
        refine ⟨s2, ?_, ?_⟩
        · intro hall
          simp at hall
          rw [oa (by simpa using hall), o1]
        · intro hall; simp at hall
    | false =>
      simp only [Bool.false_eq_true, if_false] at hr
      cases h1 : mutate h b mu with
      | error e => simp [h1] at hr
      | ok hmid =>
        simp only [h1] at hr
        obtain ⟨o1, s1⟩ := step_independence sep.symm h1
        obtain ⟨s2, oa, ob⟩ := ih s1.symm hr
        refine ⟨s2, ?_, ?_⟩
        · intro hall; simp at hall
        · intro hall
          simp at hall
          rw [ob (by simpa using hall), o1]

/-- `unitOf` is part of what `observe` shows: equal observations, equal units -/
theorem unitOf_of_observe {h h' : Heap} {s s' : Nat} {ob : Obs} (h1 : observe h s = some ob)
    (h2 : observe h' s' = some ob) (l : Label) : unitOf h s l = unitOf h' s' l := by
  have key : ∀ (h : Heap) (s : Nat) (ob : Obs), observe h s = some ob →
      unitOf h s l = (assoc (ob.cols.map (fun c => (c.label, c.unit))) l) := by
    intro h s ob ho
    unfold observe at ho
    unfold unitOf
    cases hi : h.infos.get s with
    | none => simp [hi] at ho
    | some inf =>
      simp only [hi] at ho ⊢
      cases htm : h.tmetas.get inf.tmeta with
      | none => simp [htm] at ho
      | some tm =>
        simp only [htm] at ho
        cases hds : h.dsets.get tm.dests with
        | none => simp [hds] at ho
        | some ds =>
          simp only [hds] at ho
          cases hes : h.dicts.get inf.cols with
          | none => simp [hes] at ho
          | some es =>
            simp only [hes] at ho ⊢
            cases hoc : obsCols h es with
            | none => simp [hoc] at ho
            | some cs =>
              simp [hoc] at ho
              subst ho
              simp only []
              clear hes
              induction es generalizing cs with
              | nil => simp [obsCols] at hoc; subst hoc; simp [unitIn, assoc]
              | cons e rest ih =>
                obtain ⟨k, r⟩ := e
                unfold obsCols at hoc
                cases hc : h.cols.get r with
                | none => simp [hc] at hoc
                | some cm =>
                  simp only [hc] at hoc
                  split at hoc
                  · simp at hoc
                  · rename_i fo _
                    cases hrest : obsCols h rest with
                    | none => simp [hrest] at hoc
                    | some cs' =>
                      simp [hrest] at hoc
                      subst hoc
                      have := ih cs' hrest
                      by_cases hk : k = l
                      · simp [unitIn, assoc, hk, hc]
                      · simpa [unitIn, assoc, hk] using this
  rw [key h s ob h1, key h' s' ob h2]


/-! ## rewrap_independent -/

theorem mem_dictSet {β} {xs : List (Label × β)} {k : Label} {v : β} {l : Label} {r : β}
    (hm : (l, r) ∈ dictSet xs k v) : (l, r) ∈ xs ∨ (l, r) = (k, v) := by
  induction xs with
  | nil => simp [dictSet] at hm; exact Or.inr (by rw [hm.1, hm.2])
  | cons e rest ih =>
    obtain ⟨k', v'⟩ := e
    unfold dictSet at hm
    by_cases hk : k' = k
    · simp [hk] at hm
      rcases hm with hm | hm
      · exact Or.inr (by rw [hm.1, hm.2])
      · exact Or.inl (List.mem_cons_of_mem _ hm)
    · simp [hk] at hm
      rcases hm with hm | hm
      · exact Or.inl (by rw [hm.1, hm.2]; exact List.mem_cons_self)
      · rcases ih hm with h1 | h1
        · exact Or.inl (List.mem_cons_of_mem _ h1)
        · exact Or.inr h1

/-- the columns built by `{col: ColumnMetadata(unit) for …}`: new objects without display fields -/
structure ZipInv (b h : Heap) (acc : Acc) : Prop where
  tmetas : h.tmetas = b.tmetas
  dsets : h.dsets = b.dsets
  infos : h.infos = b.infos
  dicts : h.dicts = b.dicts
  fmts : h.fmts = b.fmts
  cols : Store.Ext b.cols h.cols
  fresh : ∀ l (r : Nat), (l, r) ∈ acc → b.cols.next ≤ r ∧ r < h.cols.next ∧ ∃ u, h.cols.get r = some ⟨u, none, none⟩

theorem zipCols_inv {b : Heap} (pairs : List (Label × Str)) :
    ∀ {h : Heap} {acc : Acc}, ZipInv b h acc → ZipInv b (zipCols (h, acc) pairs).1 (zipCols (h, acc) pairs).2 := by
  induction pairs with
  | nil => intro h acc inv; simpa [zipCols] using inv
  | cons p rest ih =>
    obtain ⟨l0, u0⟩ := p
    intro h acc inv
    unfold zipCols
    simp only [Store.alloc]
    apply ih
    exact {
      tmetas := inv.tmetas, dsets := inv.dsets, infos := inv.infos, dicts := inv.dicts, fmts := inv.fmts
      cols := ⟨by have := inv.cols.1; simp; omega, fun x hx => by
        have : x ≠ h.cols.next := by have := inv.cols.1; omega
        simp [this, inv.cols.2 x hx]⟩
      fresh := by
        intro l r hm
        rcases mem_dictSet hm with hm | hm
        · obtain ⟨a1, a2, u, a3⟩ := inv.fresh l r hm
          have hne : @Ne Nat r h.cols.next := by omega
          exact ⟨a1, by simp; omega, u, by simp [hne, a3]⟩
        · obtain ⟨rfl, rfl⟩ := Prod.mk.inj hm
          exact ⟨inv.cols.1, by simp, u0, by simp⟩ }

/-- `make_table_dataframe` + `from_table_info`: nothing that exists is written to, everything
    reachable from the new info is new -/
theorem buildTable_fresh {h2 : Heap} {name : Str} {d : Nat} {origin : Origin} {tr st : Bool}
    {pairs : List (Label × Str)} {fr : Frame} {h' : Heap} {i' : Nat}
    (hb : buildTable h2 name d origin tr st pairs fr = .ok (h', i')) :
    HeapExt h2 h' ∧ ∀ x, x ∈ reach h' i' → locFresh h2 x ∧ locOld h' x := by
  unfold buildTable at hb
  cases hnt : newTableMeta h2 name d origin tr st with
  | error e => simp [hnt] at hb
  | ok q =>
    obtain ⟨h3, mref⟩ := q
    simp only [hnt] at hb
    obtain ⟨hmref, xs, hxs, hh3⟩ := newTableMeta_ok hnt
    have zinv := zipCols_inv (b := h3) pairs (h := h3) (acc := []) {
        tmetas := rfl, dsets := rfl, infos := rfl, dicts := rfl, fmts := rfl
        cols := Store.Ext.refl _
        fresh := by intro l r hm; simp at hm }
    generalize hz : zipCols (h3, []) pairs = z at hb zinv
    obtain ⟨h4, acc⟩ := z
    simp only at hb
    cases hcd2 : checkDataframe
        { h4 with dicts := (h4.dicts.alloc acc).1,
                  infos := (h4.infos.alloc ⟨mref, h4.dicts.next, none⟩).1 } h4.infos.next fr with
    | error e => simp [hcd2] at hb
    | ok h6 =>
      simp [hcd2] at hb
      obtain ⟨rfl, rfl⟩ := hb
      obtain ⟨inf5, tm5, hinf5, htm5, hcase⟩ := checkDataframe_ok hcd2
      simp at hinf5
      subst hinf5
      rcases hcase with ⟨hlast, _⟩ | ⟨_, hdup, es, hU, accU, hes, hul, hF'⟩
      · simp at hlast
      simp at hes
      subst hes
      have hbound : ∀ l (r : Nat), (l, r) ∈ acc.filter (fun e => decide (e.1 ∈ fr.labels)) → r < h4.cols.next :=
        fun l r hm => (zinv.fresh l r (List.mem_filter.1 hm).1).2.1
      have upd := updLoop_inv (b := _) fr.cols hul (UpdInv.init fr.empty _ _ hbound)
      simp only [List.nil_append] at upd
      have e3c : h3.cols = h2.cols := by rw [hh3]
      have e3f : h3.fmts = h2.fmts := by rw [hh3]
      have e3d : h3.dicts = h2.dicts := by rw [hh3]
      have e3i : h3.infos = h2.infos := by rw [hh3]
      have hcolsF : h6.cols = hU.cols := by rw [hF']
      have hfmtsF : h6.fmts = h2.fmts := by
        rw [hF']; show hU.fmts = _; rw [upd.fmts]; show h4.fmts = _; rw [zinv.fmts, e3f]
      have hdsF : h6.dsets = h3.dsets := by
        rw [hF']; show hU.dsets = _; rw [upd.dsets]; show h4.dsets = _; rw [zinv.dsets]
      have htmF : h6.tmetas = h3.tmetas := by
        rw [hF']; show hU.tmetas = _; rw [upd.tmetas]; show h4.tmetas = _; rw [zinv.tmetas]
      have hdiF : h6.dicts = (h2.dicts.alloc acc).1.write h2.dicts.next
            (fr.labels.filterMap (fun l => (assoc accU l).map (fun r => (l, r)))) := by
        rw [hF']; show hU.dicts.write _ _ = _; rw [upd.dicts]
        show (h4.dicts.alloc acc).1.write h4.dicts.next _ = _
        rw [zinv.dicts, e3d]
      have hinF : h6.infos = (h2.infos.alloc ⟨mref, h2.dicts.next, none⟩).1.write h2.infos.next
            ⟨mref, h2.dicts.next, some (fr.state tm5.strict)⟩ := by
        rw [hF']; show hU.infos.write _ _ = _; rw [upd.infos]
        show (h4.infos.alloc ⟨mref, h4.dicts.next, none⟩).1.write h4.infos.next _ = _
        rw [zinv.infos, e3i, zinv.dicts, e3d]
      have hds3 : h3.dsets = (h2.dsets.alloc xs.eraseDups).1 := by rw [hh3]
      have htm3 : h3.tmetas = (h2.tmetas.alloc ⟨name, d, origin, tr, st⟩).1.write h2.tmetas.next
          ⟨name, h2.dsets.next, origin, tr, st⟩ := by rw [hh3]
      have ext : HeapExt h2 h6 := {
        dsets := by rw [hdsF, hds3]; exact Store.Ext.alloc _ _
        fmts := Store.Ext.of_eq hfmtsF
        cols := by
          rw [hcolsF, ← e3c]
          exact Store.Ext.trans zinv.cols upd.cols
        dicts := by rw [hdiF]; exact Store.Ext.write (Store.Ext.alloc _ _) _ _ (Nat.le_refl _)
        tmetas := by rw [htmF, htm3]; exact Store.Ext.write (Store.Ext.alloc _ _) _ _ (Nat.le_refl _)
        infos := by rw [hinF]; exact Store.Ext.write (Store.Ext.alloc _ _) _ _ (Nat.le_refl _) }
      refine ⟨ext, ?_⟩
      have hi'eq : h4.infos.next = h2.infos.next := by rw [zinv.infos, e3i]
      intro x hx
      rw [mem_reach] at hx
      rcases hx with rfl | ⟨inf, hi, h1'⟩
      · exact ⟨by show h2.infos.next ≤ h4.infos.next; rw [hi'eq]; exact Nat.le_refl _, by
          show h4.infos.next < h6.infos.next
          rw [hinF, hi'eq]; exact Nat.lt_succ_self _⟩
      · rw [hinF, hi'eq] at hi
        simp at hi
        subst hi
        rcases h1' with rfl | rfl | ⟨tm', htm', rfl⟩ | ⟨es', l, r, hes', hm, h1'⟩
        · refine ⟨by show h2.tmetas.next ≤ mref; rw [hmref]; exact Nat.le_refl _, ?_⟩
          show mref < h6.tmetas.next
          rw [htmF, htm3, hmref]; exact Nat.lt_succ_self _
        · refine ⟨Nat.le_refl _, ?_⟩
          show h2.dicts.next < h6.dicts.next
          rw [hdiF]; exact Nat.lt_succ_self _
        · rw [htmF, htm3, hmref] at htm'
          simp at htm'
          subst htm'
          refine ⟨Nat.le_refl _, ?_⟩
          show h2.dsets.next < h6.dsets.next
          rw [hdsF, hds3]; exact Nat.lt_succ_self _
        · rw [hdiF] at hes'
          simp at hes'
          subst hes'
          have hacc := mem_ordered (fun l => assoc accU l) fr.labels l r hm
          have hbU : r < h6.cols.next := by rw [hcolsF]; exact upd.bound l r (assoc_mem hacc)
          have hcol : h2.cols.next ≤ r ∧ ∃ u, h6.cols.get r = some ⟨u, none, none⟩ := by
            cases hk' : assoc (acc.filter (fun e => decide (e.1 ∈ fr.labels))) l with
            | some r0 =>
              have := upd.old l r0 hk'
              rw [hacc] at this
              have hrr : r = r0 := Option.some.inj this
              subst hrr
              obtain ⟨b1, b2, u, hu⟩ := zinv.fresh l r (List.mem_filter.1 (assoc_mem hk')).1
              refine ⟨by rw [← e3c]; exact b1, u, ?_⟩
              rw [hcolsF, upd.cols.2 r b2]; exact hu
            | none =>
              obtain ⟨_, b2, k, u, _, _, hget⟩ := upd.new l r hacc hk'
              refine ⟨?_, u, by rw [hcolsF, hget]⟩
              have := zinv.cols.1
              rw [e3c] at this
              exact Nat.le_trans this b2
          rcases h1' with rfl | ⟨cm2, f, hc2, hf2, rfl⟩
          · exact ⟨hcol.1, hbU⟩
          · obtain ⟨u, hu⟩ := hcol.2
            rw [hu] at hc2
            have : cm2 = ⟨u, none, none⟩ := (Option.some.inj hc2).symm
            subst this
            simp at hf2

theorem destsArg_ext (h : Heap) (old : Nat) (xs : Option (List Str)) : HeapExt h (destsArg h old xs).1 := by
  cases xs with
  | none => exact HeapExt.refl _
  | some ys =>
    exact ⟨Store.Ext.alloc _ _, Store.Ext.refl _, Store.Ext.refl _, Store.Ext.refl _, Store.Ext.refl _,
      Store.Ext.refl _⟩

theorem locFresh_mono {h h' : Heap} (e : HeapExt h h') {x : Loc} (hx : locFresh h' x) : locFresh h x := by
  cases x with
  | dset r => exact Nat.le_trans e.dsets.1 hx
  | fmt r => exact Nat.le_trans e.fmts.1 hx
  | col r => exact Nat.le_trans e.cols.1 hx
  | dict r => exact Nat.le_trans e.dicts.1 hx
  | tmeta r => exact Nat.le_trans e.tmetas.1 hx
  | info r => exact Nat.le_trans e.infos.1 hx

/-- **re-wrapping** a table frame with overriding name / destinations / units / transposed builds a
    new info out of new objects only: after the consultation `get_table_info` performs on the
    original (`checkDataframe`, which every read access performs anyway) nothing that exists is
    written to, and everything reachable from the new info is freshly allocated -/
theorem rewrap_fresh {h : Heap} {i : Nat} {fr : Frame} {kw : Kw} {h' : Heap} {i' : Nat}
    (hk : kw.isEmpty = false) (hr : rewrap h i fr kw = .ok (h', i')) :
    ∃ h1, checkDataframe h i fr = .ok h1 ∧ HeapExt h1 h' ∧
      ∀ x, x ∈ reach h' i' → locFresh h1 x ∧ locOld h' x := by
  unfold rewrap at hr
  simp only [hk, Bool.false_eq_true, if_false] at hr
  cases hcd : checkDataframe h i fr with
  | error e => simp [hcd] at hr
  | ok h1 =>
    refine ⟨h1, rfl, ?_⟩
    simp only [hcd] at hr
    cases hgi : getInfo h1 i with
    | error e => simp [hgi] at hr
    | ok inf =>
      simp only [hgi] at hr
      cases hgt : getTMeta h1 inf.tmeta with
      | error e => simp [hgt] at hr
      | ok tm =>
        simp only [hgt] at hr
        cases hco : colsOf h1 i with
        | error e => simp [hco] at hr
        | ok cs =>
          simp only [hco] at hr
          obtain ⟨ext, hfresh⟩ := buildTable_fresh hr
          have e12 := destsArg_ext h1 tm.dests kw.destsValue
          exact ⟨e12.trans ext, fun x hx => ⟨locFresh_mono e12 (hfresh x hx).1, (hfresh x hx).2⟩⟩

/-- **re-wrap independence**: the re-wrapped table and the original are separated, and the original
    is observed exactly as the consultation left it — so by `mutation_independence` no later change
    of one is visible through the other -/
theorem rewrap_independent {h : Heap} {i : Nat} {fr : Frame} {kw : Kw} {h' : Heap} {i' : Nat}
    (hk : kw.isEmpty = false) (hr : rewrap h i fr kw = .ok (h', i')) :
    ∃ h1, checkDataframe h i fr = .ok h1 ∧
      (Alloc h1 i → Sep h' i' i ∧ observe h' i = observe h1 i) := by
  obtain ⟨h1, hc, ext, hfresh⟩ := rewrap_fresh hk hr
  refine ⟨h1, hc, ?_⟩
  intro hs
  have hag : ∀ x, x ∈ reach h1 i → AgreeOn h1 h' x := fun x hx => ext.agree (hs x hx)
  refine ⟨⟨fun x hx => (hfresh x hx).2, ?_, ?_⟩, observe_congr hag⟩
  · intro x hx
    exact ext.old (hs x ((reach_congr hag x).1 hx))
  · intro x hx hx'
    exact not_old_of_fresh (hfresh x hx).1 (hs x ((reach_congr hag x).1 hx'))

/-- a re-wrap without overriding fields is the frame itself (no copy) -/
theorem rewrap_no_kwargs {h : Heap} {i : Nat} {fr : Frame} {kw : Kw} (hk : kw.isEmpty = true) :
    rewrap h i fr kw = .ok (h, i) := by
  unfold rewrap
  simp [hk]


/-! ## Non-vacuity: a concrete store with two tables, the theorems' hypotheses hold on it -/

namespace Example

def originT : Origin := .node (some "L1".toList) [] none
def originU : Origin := .node none [.node (some "L2".toList) [] none, .node (some "L3".toList) [] none] (some "made up".toList)

/-- table `t`: columns a [m] (format .2f), b [text]; destinations {all, d2}; read from L1.
    table `u`: columns a [m], c [onoff]; destinations {x}; derived from L2, L3; not strict. -/
def heap : Heap where
  dsets := ⟨2, fun r => if r = 0 then some ["all".toList, "d2".toList] else if r = 1 then some ["x".toList] else none⟩
  fmts := ⟨1, fun r => if r = 0 then some ".2f".toList else none⟩
  cols := ⟨4, fun r =>
    if r = 0 then some ⟨"m".toList, none, some 0⟩ else if r = 1 then some ⟨"text".toList, some "x".toList, none⟩
    else if r = 2 then some ⟨"m".toList, none, none⟩ else if r = 3 then some ⟨"onoff".toList, none, none⟩ else none⟩
  dicts := ⟨2, fun r =>
    if r = 0 then some [("a".toList, 0), ("b".toList, 1)] else if r = 1 then some [("a".toList, 2), ("c".toList, 3)] else none⟩
  tmetas := ⟨2, fun r =>
    if r = 0 then some ⟨"t".toList, 0, originT, false, true⟩ else if r = 1 then some ⟨"u".toList, 1, originU, false, false⟩
    else none⟩
  infos := ⟨2, fun r => if r = 0 then some ⟨0, 0, none⟩ else if r = 1 then some ⟨1, 1, none⟩ else none⟩

/-- result frame of `pd.concat([t, u, plain])`: a, b, c survive, z is new -/
def frame : Frame :=
  ⟨[("a".toList, "float64".toList, 'f'), ("b".toList, "object".toList, 'O'), ("c".toList, "bool".toList, 'b'),
    ("z".toList, "int64".toList, 'i')], false⟩

def other : Other := ⟨none, none, some [some 0, some 1, none]⟩

/-- what a reader sees of the result: name, destinations, (label, unit) pairs, input ancestors -/
def view (r : Except Err (Heap × Res × List Warn)) :
    Option (Str × List Str × List (Label × Str) × Option (List Str)) :=
  match r with
  | .ok (h', .table i, _) =>
    (observe h' i).map (fun o => (o.name, o.dests, o.cols.map (fun c => (c.label, c.unit)), o.origin.ancestors.toOption))
  | _ => none

example : view (finalize heap (some "concat".toList) none other frame) =
    some ("t".toList, ["all".toList, "d2".toList],
      [("a".toList, "m".toList), ("b".toList, "text".toList), ("c".toList, "onoff".toList), ("z".toList, "-".toList)],
      some ["L1".toList, "L2".toList, "L3".toList]) := by rfl

/-- the same two tables with `a` in mm in the second one: refused -/
def clashHeap : Heap := { heap with cols := heap.cols.write 2 ⟨"mm".toList, none, none⟩ }

example : (match finalize clashHeap (some "concat".toList) none other frame with
    | .error .invalidTableCombine => true | _ => false) = true := by decide

/-- hypotheses of `combine_refuses_unit_clash` on that input -/
example : Spec.sources (some "concat".toList) other = .ok ([some 0, some 1, none], false) ∧
    unitOf clashHeap 0 "a".toList = some "m".toList ∧ unitOf clashHeap 1 "a".toList = some "mm".toList ∧
    "a".toList ∈ frame.labels := ⟨rfl, rfl, rfl, by decide⟩

/-- hypothesis `Readable` of `combine_refuses_unit_clash_class` on that input: everything
    `_combine_tables` reads from the two sources is there -/
example : Readable clashHeap none other [0, 1] where
  origins := ⟨[originT, originU], rfl⟩
  strict_obj := ⟨false, rfl⟩
  strict_other := ⟨false, rfl⟩
  first := by
    intro d0 rest hd
    obtain ⟨rfl, _⟩ := List.cons.inj hd
    exact ⟨⟨"t".toList, 0, originT, false, true⟩, ["all".toList, "d2".toList], rfl, rfl⟩
  items := ⟨[("a".toList, ⟨"m".toList, none, some 0⟩), ("b".toList, ⟨"text".toList, some "x".toList, none⟩),
             ("a".toList, ⟨"mm".toList, none, none⟩), ("c".toList, ⟨"onoff".toList, none, none⟩)], rfl, by
    intro l c hm f hf
    simp at hm
    rcases hm with ⟨_, rfl⟩ | ⟨_, rfl⟩ | ⟨_, rfl⟩ | ⟨_, rfl⟩ <;> simp at hf
    subst hf
    exact ⟨by decide, rfl⟩⟩

/-- a consultation after the result frame lost column `b` and had `z` moved to the front (in place):
    the result's register follows, the source is observed as before -/
def frameCut : Frame :=
  ⟨[("z".toList, "int64".toList, 'i'), ("a".toList, "float64".toList, 'f'), ("c".toList, "bool".toList, 'b')], false⟩

example : (match finalize heap (some "concat".toList) none other frame with
    | .ok (h', .table i, _) =>
      (match mutateAll h' i [.consult frameCut] with
       | .ok h'' => ((observe h'' 0).map (fun o => o.cols.map (fun c => (c.label, c.unit))),
                     (observe h'' i).map (fun o => o.cols.map (fun c => (c.label, c.unit))))
       | .error _ => (none, none))
    | _ => (none, none)) =
    (some [("a".toList, "m".toList), ("b".toList, "text".toList)],
     some [("z".toList, "-".toList), ("a".toList, "m".toList), ("c".toList, "onoff".toList)]) := by rfl

/-- no source with info (arithmetic with a scalar): plain frame, warning, store untouched -/
example : (match finalize heap none none ⟨none, none, none⟩ frame with
    | .ok (_, .plain, w) => w | _ => []) = [Warn.fallback] := by decide

/-- an unknown method warns and still carries the units along -/
example : (match finalize heap (some "apply".toList) none ⟨some 0, none, none⟩ frame with
    | .ok (_, .table _, w) => w | _ => []) = [Warn.unknownMethod] := by decide

instance (h : Heap) (x : Loc) : Decidable (locOld h x) := by
  cases x <;> unfold locOld <;> infer_instance

/-- hypothesis `Alloc` of `finalize_separates`: both source infos are completely allocated -/
example : Alloc heap 0 ∧ Alloc heap 1 := by
  unfold Alloc
  decide

/-- follow-up mutations on the result run (hypothesis of `mutation_independence`), and the source
    is observed as before while the result has changed -/
example : (match finalize heap (some "concat".toList) none other frame with
    | .ok (h', .table i, _) =>
      (match mutateAll h' i [.setUnit "a".toList "km".toList, .setName "renamed".toList, .addDest "d9".toList,
                             .addColumn "nw".toList "s".toList, .setFmt "a".toList ".9f".toList] with
       | .ok h'' => ((observe h'' 0).map (fun o => (o.name, o.dests, o.cols.map (fun c => (c.unit, c.fmt)))),
                     (observe h'' i).map (fun o => (o.name, o.dests, o.cols.map (fun c => (c.unit, c.fmt)))))
       | .error _ => (none, none))
    | _ => (none, none)) =
    (some ("t".toList, ["all".toList, "d2".toList], [("m".toList, some ".2f".toList), ("text".toList, none)]),
     some ("renamed".toList, ["all".toList, "d2".toList, "d9".toList],
       [("km".toList, some ".9f".toList), ("text".toList, none), ("onoff".toList, none), ("-".toList, none),
        ("s".toList, none)])) := by rfl

/-- re-wrap with an overriding name and units (hypotheses of `rewrap_independent`) -/
def frameT : Frame := ⟨[("a".toList, "float64".toList, 'f'), ("b".toList, "object".toList, 'O')], false⟩
def kw : Kw where
  name := some "wrapped".toList
  dests := none
  units := some ["mm".toList, "text".toList]
  transposed := some true
  destsStr := some "w1  w2".toList
  strict := some false

example : kw.isEmpty = false ∧
    (match rewrap heap 0 frameT kw with
     | .ok (h', i') => ((observe h' i').map (fun o => (o.name, o.dests, o.cols.map (fun c => c.unit))),
                        (observe h' 0).map (fun o => (o.name, o.cols.map (fun c => c.unit))))
     | .error _ => (none, none)) =
    (some ("wrapped".toList, ["w1".toList, [], "w2".toList], ["mm".toList, "text".toList]),
     some ("t".toList, ["m".toList, "text".toList])) := by decide

end Example

end Pdt.C05
