/-
  Props/C20.lean — "A TableBundle holds exactly the table blocks, in order, findable by name".
  Refinement of the model's two containers to the declarative spec `Spec.tables`.
-/
import PdtModel.Model.Bundle
import PdtModel.Props.Regex
import PdtModel.Gen.Consts
set_option linter.unusedSimpArgs false
namespace Pdt.C20
open Pdt Pdt.Bundle

/-- tie to source: the cell-grid name regex the harness' name extraction was written against -/
theorem bundle_name_regex_pinned : Gen.bundleNameRegex = "^\\s*\\*\\*(\\S+)\\s*" := by decide

namespace Spec
/-- the TABLE blocks with the name the constructor extracts, in input order.
    `none` as soon as a name cannot be extracted. -/
def tables {T} : List (Blk T) → Option (List (Str × T))
  | [] => some []
  | b :: bs =>
    if !b.isTable then tables bs
    else match b.src with
      | .name n => (tables bs).map ((n, b.val) :: ·)
      | _ => none
def named {T} (ts : List (Str × T)) (n : Str) : List T := (ts.filter (·.1 = n)).map (·.2)
end Spec

/-! helper lemmas about the association list -/

theorem lookup_addNamed {T} (m : List (Str × List T)) (k n : Str) (t : T) :
    (lookup (addNamed m k t) n).getD [] =
      if k = n then (lookup m n).getD [] ++ [t] else (lookup m n).getD [] := by
  induction m with
  | nil => by_cases h : k = n <;> simp [addNamed, lookup, h]
  | cons kv rest ih =>
    obtain ⟨k', v⟩ := kv
    by_cases h1 : k' = k
    · subst h1
      by_cases h2 : k' = n <;> simp [addNamed, lookup, h2]
    · by_cases h2 : k' = n
      · subst h2
        have : ¬ k = k' := fun e => h1 e.symm
        simp [addNamed, lookup, h1, this]
      · simp [addNamed, lookup, h1, h2, ih]

def NoEmpty {T} (m : List (Str × List T)) : Prop := ∀ kv ∈ m, kv.2 ≠ []

theorem noEmpty_addNamed {T} (m : List (Str × List T)) (k : Str) (t : T) (h : NoEmpty m) :
    NoEmpty (addNamed m k t) := by
  induction m with
  | nil => intro kv hkv; simp [addNamed] at hkv; subst hkv; simp
  | cons kv rest ih =>
    obtain ⟨k', v⟩ := kv
    have hr : NoEmpty rest := fun x hx => h x (List.mem_cons_of_mem _ hx)
    intro x hx
    unfold addNamed at hx
    split at hx
    · simp at hx
      rcases hx with rfl | hx
      · simp
      · exact hr x hx
    · simp at hx
      rcases hx with rfl | hx
      · exact h _ (List.mem_cons_self)
      · exact ih hr x hx

theorem lookup_none_iff {T} (m : List (Str × List T)) (n : Str) (h : NoEmpty m) :
    lookup m n = none ↔ (lookup m n).getD [] = [] := by
  induction m with
  | nil => simp [lookup]
  | cons kv rest ih =>
    obtain ⟨k', v⟩ := kv
    have hr : NoEmpty rest := fun x hx => h x (List.mem_cons_of_mem _ hx)
    have hv : v ≠ [] := h (k', v) (List.mem_cons_self)
    by_cases h2 : k' = n
    · simp [lookup, h2, hv]
    · simp [lookup, h2, ih hr]

theorem len_addNamed {T} (m : List (Str × List T)) (k : Str) (t : T) :
    ((addNamed m k t).map (fun kv => kv.2.length)).sum = (m.map (fun kv => kv.2.length)).sum + 1 := by
  induction m with
  | nil => simp [addNamed]
  | cons kv rest ih =>
    obtain ⟨k', v⟩ := kv
    unfold addNamed
    split
    · simp; omega
    · simp [ih]; omega

/-- the loop invariant, generalised over the accumulated state -/
theorem build_spec {T} (bs : List (Blk T)) (s : State T) (last : Option Str) (ts : List (Str × T))
    (hts : Spec.tables bs = some ts) :
    ∃ s', build bs s last = .ok s' ∧
      s'.order = s.order ++ ts.map (·.2) ∧
      (∀ n, (lookup s'.named n).getD [] = (lookup s.named n).getD [] ++ Spec.named ts n) ∧
      (NoEmpty s.named → NoEmpty s'.named) ∧
      len s' = len s + ts.length := by
  induction bs generalizing s last ts with
  | nil =>
    simp [Spec.tables] at hts; subst hts
    exact ⟨s, by simp [build, Spec.named]⟩
  | cons b bs ih =>
    unfold Spec.tables at hts
    unfold build
    by_cases hb : b.isTable = true
    · simp only [hb, Bool.not_true, Bool.false_eq_true, if_false] at hts ⊢
      cases hsrc : b.src with
      | stale => simp [hsrc] at hts
      | fail => simp [hsrc] at hts
      | noCell => simp [hsrc] at hts
      | name n =>
        simp only [hsrc] at hts ⊢
        cases hrest : Spec.tables bs with
        | none => simp [hrest] at hts
        | some ts' =>
          simp [hrest] at hts; subst hts
          obtain ⟨s', h1, h2, h3, h4, h5⟩ :=
            ih ⟨addNamed s.named n b.val, s.order ++ [b.val]⟩ (some n) ts' hrest
          refine ⟨s', h1, by simp [h2], ?_, ?_, ?_⟩
          · intro m
            rw [h3 m, lookup_addNamed]
            by_cases hm : n = m <;> simp [Spec.named, hm]
          · intro hne; exact h4 (noEmpty_addNamed _ _ _ hne)
          · rw [h5]; simp [len, len_addNamed]; omega
    · have hb' : b.isTable = false := by simpa using hb
      simp only [hb', Bool.not_false, if_true] at hts ⊢
      exact ih s last ts hts

/-! ## The property -/

/-- **exactly the TABLE blocks, in input order**; length, iteration, name lookup agree with it -/
theorem bundle_refines_spec {T} (bs : List (Blk T)) (ts : List (Str × T))
    (hts : Spec.tables bs = some ts) :
    ∃ s, ofBlocks bs = .ok s ∧
      iter s = ts.map (·.2) ∧
      len s = ts.length ∧
      (∀ n, all s n = Spec.named ts n) ∧
      (∀ n, contains s n = true ↔ Spec.named ts n ≠ []) := by
  obtain ⟨s, h1, h2, h3, h4, h5⟩ := build_spec bs ⟨[], []⟩ none ts hts
  refine ⟨s, h1, by simpa [iter] using h2, by simpa [len] using h5, ?_, ?_⟩
  · intro n; simpa [all, lookup] using h3 n
  · intro n
    have hne : NoEmpty s.named := h4 (by intro kv hkv; simp at hkv)
    have := lookup_none_iff s.named n hne
    have h3n := h3 n
    simp [lookup] at h3n
    unfold contains
    rw [← h3n]
    cases hl : lookup s.named n with
    | none => simp [hl] at this ⊢; 
    | some v =>
      simp [hl] at this ⊢
      exact this

/-- integer indexing agrees with input order (Python semantics incl. negative indices) -/
theorem getitem_int_spec {T} (bs : List (Blk T)) (ts : List (Str × T)) (s : State T)
    (hts : Spec.tables bs = some ts) (hs : ofBlocks bs = .ok s) (i : Nat) (t : T)
    (hi : (ts.map (·.2))[i]? = some t) :
    getitemInt s (i : Int) = .ok t ∧ getitemInt s ((i : Int) - ts.length) = .ok t := by
  obtain ⟨s', h1, h2, _, _, _⟩ := bundle_refines_spec bs ts hts
  rw [hs] at h1; cases h1
  have ho : s.order = ts.map (·.2) := h2
  have hl : s.order.length = ts.length := by simp [ho]
  have hlt : i < ts.length := by
    have := (List.getElem?_eq_some_iff.1 hi).1
    simpa using this
  constructor
  · unfold getitemInt
    have : ¬ ((i : Int) < 0) := by omega
    simp [this, ho, hi]
  · unfold getitemInt
    have h0 : ((i : Int) - ts.length < 0) := by omega
    simp only [h0, if_true, hl]
    have h1 : ¬ ((i : Int) - ts.length + ts.length < 0) := by omega
    have h2 : ((i : Int) - ts.length + ts.length).toNat = i := by omega
    simp [h1, h2, ho, hi]

/-- integer indexing outside `-len … len-1` is an IndexError, never a wrapped-around table:
    with `getitem_int_spec` this characterises `bundle[i]` for every integer -/
theorem getitem_int_out_of_range {T} (bs : List (Blk T)) (ts : List (Str × T)) (s : State T)
    (hts : Spec.tables bs = some ts) (hs : ofBlocks bs = .ok s) (i : Int)
    (hi : (ts.length : Int) ≤ i ∨ i < -(ts.length : Int)) :
    getitemInt s i = .error .indexError := by
  obtain ⟨s', h1, h2, _, _, _⟩ := bundle_refines_spec bs ts hts
  rw [hs] at h1; cases h1
  have ho : s.order = ts.map (·.2) := h2
  have hl : s.order.length = ts.length := by simp [ho]
  unfold getitemInt
  simp only [hl]
  rcases hi with hi | hi
  · have h0 : ¬ (i < 0) := by omega
    simp only [h0, if_false]
    have hn : s.order[i.toNat]? = none := by
      apply List.getElem?_eq_none; omega
    simp [hn]
  · have h0 : i < 0 := by omega
    have h1 : i + (ts.length : Int) < 0 := by omega
    simp [h0, h1]

/-- the number of tables is the number of iterated tables (`len(bundle) == len(list(bundle))`) -/
theorem len_eq_iter_length {T} (bs : List (Blk T)) (ts : List (Str × T)) (s : State T)
    (hts : Spec.tables bs = some ts) (hs : ofBlocks bs = .ok s) : len s = (iter s).length := by
  obtain ⟨s', h1, h2, h3, _, _⟩ := bundle_refines_spec bs ts hts
  rw [hs] at h1; cases h1
  rw [h2, h3]; simp

/-- `unique` / item access by name: the single table, not-unique error, or KeyError -/
theorem unique_spec {T} (bs : List (Blk T)) (ts : List (Str × T)) (s : State T)
    (hts : Spec.tables bs = some ts) (hs : ofBlocks bs = .ok s) (n : Str) :
    (unique s n = match Spec.named ts n with
      | [] => .error .keyError
      | [t] => .ok t
      | _ :: _ :: _ => .error .notUnique) ∧
    (getattr s n = match Spec.named ts n with
      | [] => .error .attributeError
      | [t] => .ok t
      | _ :: _ :: _ => .error .notUnique) := by
  obtain ⟨s', h1, _, _, h4, h5⟩ := bundle_refines_spec bs ts hts
  rw [hs] at h1; cases h1
  have ha := h4 n
  have hc := h5 n
  unfold all at ha
  unfold contains at hc
  have hu : unique s n = match Spec.named ts n with
      | [] => .error .keyError
      | [t] => .ok t
      | _ :: _ :: _ => .error .notUnique := by
    unfold unique
    cases hl : lookup s.named n with
    | none => simp [hl] at ha; rw [ha]
    | some v =>
      simp [hl] at ha hc
      rw [← ha]
      rw [← ha] at hc
      match v, hc with
      | [t], _ => rfl
      | _ :: _ :: _, _ => rfl
  refine ⟨hu, ?_⟩
  unfold getattr
  rw [hu]
  match Spec.named ts n with
  | [] => rfl
  | [t] => rfl
  | _ :: _ :: _ => rfl

/-- construction fails exactly when some TABLE block's name cannot be extracted (and a stale
    binding is only ever used after an earlier successful extraction) -/
theorem build_fails_only_on_bad_name {T} (bs : List (Blk T)) (e : Err) (h : ofBlocks bs = .error e) :
    Spec.tables bs = none := by
  cases hts : Spec.tables bs with
  | none => rfl
  | some ts =>
    obtain ⟨s, h1, _⟩ := bundle_refines_spec bs ts hts
    rw [h] at h1; cases h1

/-! ## representations: Tables, table frames when requested, or the alternative representation supplied -/

/-- **what is stored**: the table's frame exactly when frames were requested and the block value has one
    (a Table); otherwise the supplied object itself (Table, JsonData dict, cell grid) -/
theorem stored_spec {T} (asDf : Bool) (b : RBlk T) :
    (toBlk asDf b).val = (if asDf then b.df.getD b.val else b.val) := by
  cases asDf <;> cases h : b.df <;> simp [toBlk, storedOf, h]

/-- the name of a Table / JsonData block is its own `name`; type flag and identity pass through -/
theorem name_of_named {T} (asDf : Bool) (b : RBlk T) (n : Str)
    (h : b.rep = .named n ∨ b.rep = .dict (some n)) :
    (toBlk asDf b).src = .name n ∧ (toBlk asDf b).isTable = b.isTable := by
  rcases h with h | h <;> simp [toBlk, nameSrcOf, h]

theorem lstrip_append_nonspace (ws : Str) (rest : Str) (hws : ∀ c ∈ ws, isSpace c = true)
    (hr : ∀ c, rest.head? = some c → isSpace c = false) : lstrip (ws ++ rest) = rest := by
  induction ws with
  | nil =>
    cases rest with
    | nil => rfl
    | cons c r =>
      have := hr c rfl
      simp [lstrip, List.dropWhile_cons, this]
  | cons w ws ih =>
    have hw := hws w (by simp)
    simp only [List.cons_append, lstrip, List.dropWhile_cons, hw, if_true]
    exact ih (fun c hc => hws c (List.mem_cons_of_mem _ hc))

theorem takeWhile_name (n rest : Str) (hnb : ∀ c ∈ n, isSpace c = false)
    (hrest : ∀ c, rest.head? = some c → isSpace c = true) :
    (n ++ rest).takeWhile (fun c => !isSpace c) = n := by
  induction n with
  | nil =>
    cases rest with
    | nil => rfl
    | cons r rs =>
      have := hrest r rfl
      simp [List.takeWhile_cons, this]
  | cons c cs ih =>
    have hc := hnb c (by simp)
    simp only [List.cons_append, List.takeWhile_cons, hc, Bool.not_false, if_true, List.cons.injEq, true_and]
    exact ih (fun x hx => hnb x (List.mem_cons_of_mem _ hx))

/-- **the name of a cell-grid block**: leading blanks, `**`, then the name — the maximal blank-free run — whatever
    follows after the next blank (this is the regex `^\s*\*\*(\S+)\s*` of `bundle_name_regex_pinned`) -/
theorem gridName_spec (ws n rest : Str) (hws : ∀ c ∈ ws, isSpace c = true) (hn : n ≠ [])
    (hnb : ∀ c ∈ n, isSpace c = false) (hrest : ∀ c, rest.head? = some c → isSpace c = true) :
    gridName (ws ++ "**".toList ++ n ++ rest) = some n := by
  unfold gridName
  have h1 : lstrip (ws ++ "**".toList ++ n ++ rest) = '*' :: '*' :: (n ++ rest) := by
    rw [List.append_assoc, List.append_assoc]
    rw [lstrip_append_nonspace ws _ hws]
    · rfl
    · intro c hc
      simp at hc
      subst hc
      decide
  rw [h1]
  have h2 := takeWhile_name n rest hnb hrest
  simp only [h2]
  cases n with
  | nil => exact absurd rfl hn
  | cons c cs => rfl

/-- a first cell that, after its leading blanks, does not start with `**` names no table -/
theorem gridName_none (s : Str) (h : ∀ r, lstrip s ≠ '*' :: '*' :: r) : gridName s = none := by
  unfold gridName
  split
  · rename_i rest heq; exact absurd heq (h rest)
  · rfl

/-- a cell grid yields a name only with at least two rows and a text first cell -/
theorem grid_name_src (nRows : Nat) (c0 : Cell0) (n : Str) :
    nameSrcOf (.grid nRows c0) = .name n ↔ nRows > 1 ∧ ∃ s, c0 = .str s ∧ gridName s = some n := by
  unfold nameSrcOf
  by_cases h : nRows > 1
  · cases c0 with
    | noCell => simp [h]
    | notStr => simp [h]
    | str s =>
      cases hg : gridName s <;> simp [h, hg]
  · simp [h]

/-- **the refinement for supplied blocks**: whenever every TABLE block's name can be extracted, the bundle built
    with or without `as_dataframe` holds exactly the stored forms of the TABLE blocks, in input order, and every
    accessor agrees with that list (all clauses of `bundle_refines_spec`, `unique_spec`, `getitem_int_spec` apply
    to `bs.map (toBlk asDf)`) -/
theorem supplied_refines_spec {T} (asDf : Bool) (bs : List (RBlk T)) (ts : List (Str × T))
    (hts : Spec.tables (bs.map (toBlk asDf)) = some ts) :
    ∃ s, ofSupplied asDf bs = .ok s ∧ iter s = ts.map (·.2) ∧ len s = ts.length ∧
      (∀ n, all s n = Spec.named ts n) ∧ (∀ n, contains s n = true ↔ Spec.named ts n ≠ []) :=
  bundle_refines_spec _ ts hts

/-- the stored objects are, in order, `storedOf asDf` of the TABLE blocks -/
theorem supplied_tables_values {T} (asDf : Bool) (bs : List (RBlk T)) (ts : List (Str × T))
    (hts : Spec.tables (bs.map (toBlk asDf)) = some ts) :
    ts.map (·.2) = (bs.filter (·.isTable)).map (storedOf asDf) := by
  induction bs generalizing ts with
  | nil => simp [Spec.tables] at hts; subst hts; rfl
  | cons b bs ih =>
    simp only [List.map_cons, Spec.tables] at hts
    by_cases hb : b.isTable = true
    · simp only [toBlk, hb, Bool.not_true, Bool.false_eq_true, if_false] at hts
      cases hsrc : nameSrcOf b.rep with
      | name n =>
        simp only [hsrc] at hts
        cases hrest : Spec.tables (bs.map (toBlk asDf)) with
        | none => simp [hrest] at hts
        | some ts' =>
          simp [hrest] at hts; subst hts
          simp [List.filter_cons, hb, ih ts' hrest]
      | stale => simp [hsrc] at hts
      | fail => simp [hsrc] at hts
      | noCell => simp [hsrc] at hts
    · have hb' : b.isTable = false := by simpa using hb
      simp only [toBlk, hb', Bool.not_false, if_true] at hts
      simp [List.filter_cons, hb', ih ts hts]

/-! ## item access -/

/-- `bundle[name]` is `unique(name)`; `bundle[i]` is positional; a bool is the integer 0 / 1; anything else
    is a TypeError -/
theorem getitem_spec {T} (s : State T) :
    (∀ n, getitem s (.str n) = unique s n) ∧ (∀ i, getitem s (.int i) = getitemInt s i) ∧
    getitem s (.bool true) = getitemInt s 1 ∧ getitem s (.bool false) = getitemInt s 0 ∧
    getitem s .other = .error .typeError := ⟨fun _ => rfl, fun _ => rfl, rfl, rfl, rfl⟩

/-- non-vacuity of `gridName_spec`: a padded transposed-table marker followed by a comment -/
example : gridName " \t**farm_animals* ignored".toList = some "farm_animals*".toList := by decide

/-- non-vacuity of the supplied form: a Table (frames requested), a JsonData dict, a cell grid, a non-table block -/
example :
    let bs : List (RBlk Nat) := [⟨true, .named "a".toList, 1, some 101⟩, ⟨false, .opaque, 2, none⟩,
                                 ⟨true, .dict (some "b".toList), 3, none⟩,
                                 ⟨true, .grid 2 (.str " **a x".toList), 4, none⟩]
    (ofSupplied true bs).toOption.map iter = some [101, 3, 4] ∧
    (ofSupplied false bs).toOption.map iter = some [1, 3, 4] ∧
    (ofSupplied true bs).toOption.map (all · "a".toList) = some [101, 4] := by decide

/-- non-vacuity: three tables, two sharing a name, interleaved with other blocks -/
example :
    let bs : List (Blk Nat) := [⟨false, .fail, 0⟩, ⟨true, .name "a".toList, 1⟩, ⟨true, .name "b".toList, 2⟩,
                                ⟨false, .stale, 3⟩, ⟨true, .name "a".toList, 4⟩]
    Spec.tables bs = some [("a".toList, 1), ("b".toList, 2), ("a".toList, 4)] ∧
    (ofBlocks bs).toOption.map iter = some [1, 2, 4] ∧
    (ofBlocks bs).toOption.map (all · "a".toList) = some [1, 4] := by decide

/-! ## `gridName` IS the regex (Props/Regex.lean): group 1 of the first match of the pattern text extracted from
   store.py, run by the generic engine model of `re`, is `gridName` — for every first cell -/
theorem gridName_is_name_regex :
    ∃ r, Regex.Re.parse Gen.bundleNameRegex.toList = some r ∧
      ∀ (T : Regex.Tables) (s : Str),
        (Regex.pySearch T r s).bind (fun caps => Regex.groupText s caps 1) = gridName s :=
  RegexProps.name_pattern_denotes_gridName

end Pdt.C20
